/* C03: public-key encodings (SEC1 2.3.3/2.3.4 compressed, uncompressed, hybrid; BIP-340 x-only).
 *   h_xo_parity        secp256k1_ge_set_xo_var: x kept, parity fix-up real, square root an oracle (proves XO_POST)
 *   h_is_valid_wiring  secp256k1_ge_is_valid_var: compares sqr(y) with mul(sqr(x), x) + 7 (field mul/sqr oracles)
 *   h_pubkey_parse     secp256k1_ec_pubkey_parse (API): accept set = syntax spec /\ curve verdict; reject => zero
 *                      object; round trip through secp256k1_ec_pubkey_serialize (hybrid -> uncompressed)
 *   h_pubkey_serialize secp256k1_ec_pubkey_serialize (API) on an arbitrary 64-byte object
 *   h_ge_bytes         secp256k1_ge_to_bytes / secp256k1_ge_from_bytes are inverse
 *   h_xonly_parse      secp256k1_xonly_pubkey_parse + _serialize round trip
 *   h_xonly_serialize  secp256k1_xonly_pubkey_serialize on an arbitrary object
 * Oracles: secp256k1_ge_set_xo_var (proved contract, above fe_sqrt/fe_sqr/fe_mul) and secp256k1_ge_is_valid_var. */
#define LOG_FE_MUL
#define LOG_FE_SQRT
#define LOG_GE_VALID
#define LOG_GE_XO
#include "assumed_C03.h"
#include "spec_der.h"
#include "src/secp256k1.c"
#include "post.h"

#define MAXPK 200

/* big-endian byte i of a canonical field element */
static unsigned char fe_byte(const secp256k1_fe *a, size_t i) { unsigned char t[32]; spec_fe_be(a, t); return t[i]; }

#ifndef VERIF_NATIVE
void h_xo_parity(void) {
    INPUT(secp256k1_fe, x); INPUT(int, odd); INPUT(secp256k1_ge, r0);
    secp256k1_ge r = r0; secp256k1_fe x0; const secp256k1_fe *sq; int ret;
    __CPROVER_assume(fe_canon(&x) && (odd == 0 || odd == 1));
    x0 = x; g_sqrt_n = 0; g_fmul_n = 0; g_fsqr_n = 0;
    ret = secp256k1_ge_set_xo_var(&r, &x, odd);
    __CPROVER_assert(XO_POST(ret, &r, FE_EQ(r.x, x0), odd), "C03 ge_set_xo_var: contract XO_POST: x kept, not infinity, y of magnitude <= 2 whose canonical value has the requested parity (unless zero)");
    __CPROVER_assert(FE_EQ(x, x0), "C03 ge_set_xo_var: the input x is not modified");
    __CPROVER_assert(g_sqrt_n >= 1 && ret == g_sqrt_v0, "C03 ge_set_xo_var: returns the verdict of the square-root computation");
    /* x^3 as the field oracles see it: a product of x with a square of x - either operand order, whichever call slot */
    sq = (g_fsqr_n >= 1 && c03_same(&g_fsqr_a0, &x0)) ? &g_fsqr_r0 : &g_fsqr_r1;
    __CPROVER_assert((g_fsqr_n >= 1 && c03_same(&g_fsqr_a0, &x0)) || (g_fsqr_n >= 2 && c03_same(&g_fsqr_a1, &x0)), "C03 ge_set_xo_var: the given x is squared");
    __CPROVER_assert(g_fmul_n >= 1 && ((c03_same(&g_fmul_a0, &x0) && c03_same(&g_fmul_b0, sq)) || (c03_same(&g_fmul_b0, &x0) && c03_same(&g_fmul_a0, sq))), "C03 ge_set_xo_var: x is multiplied by that square (either operand order)");
    __CPROVER_assert(c03_mod_p_big(fval(&g_sqrt_a0)) == c03_mod_p_big(fval(&g_fmul_r0) + 7), "C03 ge_set_xo_var: the value whose root is taken is x^3 + 7");
    __CPROVER_assert(c03_mod_p(fval(&r.y)) == c03_mod_p(fval(&g_sqrt_r0)) || c03_mod_p(fval(&r.y)) + c03_mod_p(fval(&g_sqrt_r0)) == P_(), "C03 ge_set_xo_var: y is the oracle's root or its negation");
    if (ret && odd && (c03_mod_p(fval(&g_sqrt_r0)) & 1) == 0 && c03_mod_p(fval(&g_sqrt_r0)) != 0) REACH("xo_var negates an even root to get the odd one");
    if (ret && !odd && (c03_mod_p(fval(&g_sqrt_r0)) & 1) == 0) REACH("xo_var keeps an even root");
    if (!ret) REACH("xo_var reports not on curve");
}

void h_is_valid_wiring(void) {
    INPUT(secp256k1_ge, a);
    int ret, congruent = 0; wide p = P_();
    __CPROVER_assume(fe_mag(&a.x, 1) && fe_mag(&a.y, 1) && (a.infinity == 0 || a.infinity == 1));
    g_fmul_n = 0; g_fsqr_n = 0;
    ret = secp256k1_ge_is_valid_var(&a);
    __CPROVER_assert(ret == 0 || ret == 1, "C03 ge_is_valid_var: returns 0 or 1");
    if (a.infinity) __CPROVER_assert(ret == 0, "C03 ge_is_valid_var: infinity is not valid");
    else {
        /* which of the two squarings is x^2 and which is y^2 is decided by VALUE and by what is fed to the
         * multiplication (the oracles are not functions: for x = y the two squares may differ), not by call order */
#define MULX(sq) (g_fmul_n >= 1 && ((c03_same(&g_fmul_a0, (sq)) && c03_same(&g_fmul_b0, &a.x)) || (c03_same(&g_fmul_b0, (sq)) && c03_same(&g_fmul_a0, &a.x))))
        int x_first = g_fsqr_n >= 2 && c03_same(&g_fsqr_a0, &a.x) && c03_same(&g_fsqr_a1, &a.y) && MULX(&g_fsqr_r0);
        int y_first = g_fsqr_n >= 2 && c03_same(&g_fsqr_a0, &a.y) && c03_same(&g_fsqr_a1, &a.x) && MULX(&g_fsqr_r1);
        const secp256k1_fe *y2 = x_first ? &g_fsqr_r1 : &g_fsqr_r0;
        __CPROVER_assert(y_first || x_first, "C03 ge_is_valid_var: squares the y and the x of the given point and multiplies x^2 by x (any call order, either operand order)");
        { wide u = fval(y2), v = fval(&g_fmul_r0) + 7, d = u > v ? u - v : v - u;      /* both < 3p: congruent iff the difference is 0, p or 2p */
          congruent = (d == 0 || d == p || d == 2 * p); }
        __CPROVER_assert(ret == congruent, "C03 ge_is_valid_var: valid iff y^2 = x^3 + 7 (mod p) for the products returned by the field oracles");
    }
    if (ret) REACH("is_valid accepts");
    if (!ret && !a.infinity) REACH("is_valid rejects a finite point");
}
#endif

void h_pubkey_parse(void) {
    secp256k1_context ctx;
    INPUT(size_t, len); INPUT(secp256k1_pubkey, pk0); INPUT(_Bool, use_pk); INPUT(_Bool, use_in); INPUT(size_t, k); INPUT(size_t, j);
    unsigned char *buf, out65[65], out33[33]; int ret, r33, r65; spec_pk S; secp256k1_pubkey pk = pk0; size_t l33 = 33, l65 = 65;
    __CPROVER_assume(len <= MAXPK && k < 64 && j < 32);
    INPUT_BUF(b, buf, len, 66);
    verif_ctx_init(&ctx);
    g_xo_n = 0; g_valid_n = 0;
    ret = secp256k1_ec_pubkey_parse(&ctx, use_pk ? &pk : NULL, use_in ? buf : NULL, len);
    WITNESS_BUF(b, buf, len, 66);
    S = spec_pubkey_syntax(buf, len);
    __CPROVER_assert(ret == 0 || ret == 1, "C03 pubkey.parse: returns 0 or 1");
    __CPROVER_assert(g_error == 0, "C03 pubkey.parse: error callback never invoked");
    if (!use_pk || !use_in) {
        __CPROVER_assert(ret == 0 && g_illegal == 1, "C03 pubkey.parse: NULL argument reports illegal use and fails");
    } else {
        __CPROVER_assert(g_illegal == 0, "C03 pubkey.parse: no callback for non-NULL arguments, whatever the bytes");
        if (S.form == 0) __CPROVER_assert(ret == 0, "C03 pubkey.parse: wrong length, wrong prefix, coordinate >= p or hybrid parity mismatch is rejected");
#ifndef VERIF_NATIVE   /* the call logs exist only where the oracle contracts are in place */
        /* acceptance is backed by a positive curve verdict for exactly the encoded key; rejection of a syntactically
         * valid key is backed by a negative verdict.  No call counts, nothing about the order of the syntactic checks. */
        if (ret && S.form == 33) __CPROVER_assert(g_xo_n >= 1 && g_xo_v0 == 1 && fe_canon(&g_xo_x0) && fe_byte(&g_xo_x0, j) == buf[1 + j] && g_xo_odd0 == S.ybit,
                                                  "C03 pubkey.parse: a compressed key is accepted only on a positive lift verdict for the encoded X with the parity of the prefix");
        if (ret && S.form == 65) __CPROVER_assert(g_valid_n >= 1 && g_valid_v0 == 1 && g_valid_a0.infinity == 0 && c03_mod_p_big(fval(&g_valid_a0.x)) == be256(buf + 1) && c03_mod_p_big(fval(&g_valid_a0.y)) == be256(buf + 33),
                                                  "C03 pubkey.parse: an uncompressed/hybrid key is accepted only on a positive on-curve verdict for the encoded (X,Y)");
        if (!ret && S.form == 33) __CPROVER_assert(g_xo_n >= 1 && g_xo_v0 == 0, "C03 pubkey.parse: a well-formed compressed key is rejected only on a negative lift verdict");
        if (!ret && S.form == 65) __CPROVER_assert(g_valid_n >= 1 && g_valid_v0 == 0, "C03 pubkey.parse: a well-formed uncompressed/hybrid key is rejected only on a negative on-curve verdict");
#endif
        /* include/secp256k1.h: on failure the object's value is undefined - nothing is demanded of it */
        if (ret) {
            r65 = secp256k1_ec_pubkey_serialize(&ctx, out65, &l65, &pk, SECP256K1_EC_UNCOMPRESSED);
            r33 = secp256k1_ec_pubkey_serialize(&ctx, out33, &l33, &pk, SECP256K1_EC_COMPRESSED);
            if (!spec_is_zero32(buf + 1)) {   /* x = 0 is the library's marker of an invalid object; x = 0 is not on the curve (algebra) */
                __CPROVER_assert(r65 == 1 && r33 == 1 && l65 == 65 && l33 == 33 && g_illegal == 0, "C03 pubkey.roundtrip: a parsed key serializes in both forms");
                __CPROVER_assert(out65[0] == 0x04 && out65[1 + j] == buf[1 + j] && out33[1 + j] == buf[1 + j], "C03 pubkey.roundtrip: serialized X equals the parsed X");
                if (S.form == 65) __CPROVER_assert(out65[33 + j] == buf[33 + j] && out33[0] == (0x02 | (buf[64] & 1)), "C03 pubkey.roundtrip: uncompressed and hybrid keys serialize to 04||X||Y (hybrid maps to uncompressed) and to the matching compressed prefix");
                if (S.form == 33 && !spec_is_zero32(out65 + 33)) __CPROVER_assert(out33[0] == buf[0] && (out65[64] & 1) == (buf[0] & 1), "C03 pubkey.roundtrip: a compressed key serializes back to the same prefix and its Y has that parity");
            }
        }
    }
    if (use_pk && use_in && ret && S.form == 33) REACH("pubkey parse accepts compressed");
    if (use_pk && use_in && ret && S.form == 65 && buf[0] == 0x07) REACH("pubkey parse accepts hybrid odd");
    if (use_pk && use_in && !ret && S.form == 65) REACH("pubkey parse rejects off-curve point");
    if (use_pk && use_in && len == 65 && buf[0] == 0x06 && S.form == 0) REACH("pubkey parse rejects hybrid syntax");
}

void h_pubkey_serialize(void) {
    secp256k1_context ctx;
    INPUT(secp256k1_pubkey, pk); INPUT(size_t, cap); INPUT(unsigned, flags); INPUT(size_t, k); INPUT(size_t, j);
    INPUT(_Bool, use_out); INPUT(_Bool, use_len); INPUT(_Bool, use_pk);
    unsigned char *out; size_t outlen, need; int ret, compressed, valid, bad_flags; secp256k1_ge q;
    __CPROVER_assume(cap <= MAXPK && j < 32);
    INPUT_BUF(o, out, cap, 66);
    outlen = cap;
    verif_ctx_init(&ctx);
    ret = secp256k1_ec_pubkey_serialize(&ctx, use_out ? out : NULL, use_len ? &outlen : NULL, use_pk ? &pk : NULL, flags);
    compressed = (flags & SECP256K1_FLAGS_BIT_COMPRESSION) != 0;
    need = compressed ? 33 : 65;
    secp256k1_ge_from_bytes(&q, pk.data);                       /* the library's own reading of the object */
    valid = !secp256k1_fe_is_zero(&q.x);                        /* x = 0 marks an invalid (zeroed) object */
    __CPROVER_assert(ret == 0 || ret == 1, "C03 pubkey.serialize: returns 0 or 1");
    __CPROVER_assert(g_error == 0, "C03 pubkey.serialize: error callback never invoked");
    bad_flags = (flags & SECP256K1_FLAGS_TYPE_MASK) != SECP256K1_FLAGS_TYPE_COMPRESSION;   /* neither SECP256K1_EC_COMPRESSED nor _UNCOMPRESSED */
    if (!use_len || !use_out || !use_pk || bad_flags || cap < need || !valid) {
        __CPROVER_assert(ret == 0 && g_illegal == 1, "C03 pubkey.serialize: NULL argument, *outputlen < 33/65, bad flags or an invalid (zeroed) object reports illegal use and fails");
    } else {
        __CPROVER_assert(ret == 1 && g_illegal == 0 && outlen == need, "C03 pubkey.serialize: succeeds and reports 33 or 65 bytes");
        if (fe_canon(&q.x) && fe_canon(&q.y)) {                  /* objects written by the library hold canonical coordinates */
            __CPROVER_assert(out[0] == (compressed ? (0x02 | (fe_byte(&q.y, 31) & 1)) : 0x04), "C03 pubkey.serialize: prefix is 02|odd(y) or 04");
            __CPROVER_assert(out[1 + j] == fe_byte(&q.x, j), "C03 pubkey.serialize: bytes 1..32 are X big-endian");
            if (!compressed) __CPROVER_assert(out[33 + j] == fe_byte(&q.y, j), "C03 pubkey.serialize: bytes 33..64 are Y big-endian");
        }
    }
    if (ret && compressed) REACH("pubkey serialize compressed");
    if (ret && !compressed && cap > 65) REACH("pubkey serialize uncompressed into a larger buffer");
    if (!ret && use_len && use_out && use_pk && cap >= 65 && !valid) REACH("pubkey serialize rejects zeroed object");
}

void h_ge_bytes(void) {
    INPUT(secp256k1_ge, a); INPUT_ARR(unsigned char, raw, 64); INPUT(size_t, k);
    secp256k1_ge b, c; unsigned char buf[64], buf2[64];
    __CPROVER_assume(k < 64);
    if (fe_canon(&a.x) && fe_canon(&a.y) && a.infinity == 0) {
        secp256k1_ge_to_bytes(buf, &a);
        secp256k1_ge_from_bytes(&b, buf);
        __CPROVER_assert(FE_EQ(b.x, a.x) && FE_EQ(b.y, a.y) && b.infinity == 0, "C03 pubkey.storage: from_bytes(to_bytes(P)) = P on normalised coordinates");
        REACH("ge to/from bytes");
    }
    secp256k1_ge_from_bytes(&c, raw);
    __CPROVER_assert(c.infinity == 0 && fe_mag(&c.x, 1) && fe_mag(&c.y, 1), "C03 pubkey.storage: from_bytes yields a finite point of magnitude 1 for any 64 bytes");
    if (fe_canon(&c.x) && fe_canon(&c.y)) {
        secp256k1_ge_to_bytes(buf2, &c);
        __CPROVER_assert(buf2[k] == raw[k], "C03 pubkey.storage: to_bytes(from_bytes(b)) = b when both coordinates are below p");
        REACH("ge from/to bytes");
    }
}

void h_xonly_parse(void) {
    secp256k1_context ctx;
    INPUT_ARR(unsigned char, in32, 32); INPUT(secp256k1_xonly_pubkey, xpk0); INPUT(_Bool, use_pk); INPUT(_Bool, use_in); INPUT(size_t, k); INPUT(size_t, j);
    secp256k1_xonly_pubkey pk = xpk0; unsigned char out[32]; int ret, ret2, inrange; secp256k1_ge q;
    __CPROVER_assume(k < 64 && j < 32);
    verif_ctx_init(&ctx);
    g_xo_n = 0;
    ret = secp256k1_xonly_pubkey_parse(&ctx, use_pk ? &pk : NULL, use_in ? in32 : NULL);
    inrange = spec_lt_be32(in32, SPEC_P_BE);                      /* BIP-340: fail if x >= p */
    __CPROVER_assert(ret == 0 || ret == 1, "C03 xonly.parse: returns 0 or 1");
    __CPROVER_assert(g_error == 0, "C03 xonly.parse: error callback never invoked");
    if (!use_pk || !use_in) {
        __CPROVER_assert(ret == 0 && g_illegal == 1, "C03 xonly.parse: NULL argument reports illegal use and fails");
    } else {
        __CPROVER_assert(g_illegal == 0, "C03 xonly.parse: no callback for non-NULL arguments");
        if (!inrange) __CPROVER_assert(ret == 0, "C03 xonly.parse: x >= p is rejected");
#ifndef VERIF_NATIVE
        if (ret) __CPROVER_assert(g_xo_n >= 1 && g_xo_v0 == 1 && g_xo_odd0 == 0 && fe_canon(&g_xo_x0) && fe_byte(&g_xo_x0, j) == in32[j], "C03 xonly.parse: accepted only on a positive lift verdict for exactly this x, with even y");
        if (!ret && inrange) __CPROVER_assert(g_xo_n >= 1 && g_xo_v0 == 0, "C03 xonly.parse: x < p is rejected only on a negative lift verdict");
#endif
        if (!ret) { int ill0 = g_illegal, l = secp256k1_xonly_pubkey_load(&ctx, &q, &pk);   /* secp256k1_extrakeys.h: "If not, it's set to an invalid value" */
            __CPROVER_assert(l == 0 && g_illegal == ill0 + 1, "C03 xonly.parse: a rejected input leaves an INVALID object (refused by the library's own load)"); g_illegal = ill0; }
        if (ret && !spec_is_zero32(in32)) {   /* x = 0 marks an invalid object and is not on the curve (algebra) */
            ret2 = secp256k1_xonly_pubkey_serialize(&ctx, out, &pk);
            __CPROVER_assert(ret2 == 1 && g_illegal == 0 && out[j] == in32[j], "C03 xonly.roundtrip: serialize(parse(b)) = b");
            secp256k1_ge_from_bytes(&q, pk.data);
            __CPROVER_assert(fe_canon(&q.y) && (fe_byte(&q.y, 31) & 1) == 0, "C03 xonly.parse: the stored point has even y");
        }
    }
    if (use_pk && use_in && ret) REACH("xonly parse accepts");
    if (use_pk && use_in && !ret && inrange) REACH("xonly parse rejects x not on curve");
    if (use_pk && use_in && !inrange) REACH("xonly parse rejects x >= p");
}

void h_xonly_serialize(void) {
    secp256k1_context ctx;
    INPUT(secp256k1_xonly_pubkey, xpk); INPUT(_Bool, use_out); INPUT(_Bool, use_pk); INPUT(size_t, j);
    unsigned char out[32]; int ret, valid; secp256k1_ge q;
    __CPROVER_assume(j < 32);
    verif_ctx_init(&ctx);
    ret = secp256k1_xonly_pubkey_serialize(&ctx, use_out ? out : NULL, use_pk ? &xpk : NULL);
    secp256k1_ge_from_bytes(&q, xpk.data);
    valid = !secp256k1_fe_is_zero(&q.x);
    __CPROVER_assert(ret == 0 || ret == 1, "C03 xonly.serialize: returns 0 or 1");
    __CPROVER_assert(g_error == 0, "C03 xonly.serialize: error callback never invoked");
    if (!use_out || !use_pk || !valid) {
        __CPROVER_assert(ret == 0 && g_illegal == 1, "C03 xonly.serialize: NULL argument or invalid (zeroed) object reports illegal use and fails");
    } else {
        __CPROVER_assert(ret == 1 && g_illegal == 0, "C03 xonly.serialize: succeeds without callback");
        if (fe_canon(&q.x)) __CPROVER_assert(out[j] == fe_byte(&q.x, j), "C03 xonly.serialize: output is X big-endian");
    }
    if (ret) REACH("xonly serialize");
    if (!ret && use_out && use_pk) REACH("xonly serialize rejects zeroed object");
}

/* C03 local work-around (verifier side only): the precomputed ecmult tables are `extern const` arrays
 * without a definition in the harness TU, i.e. ~1 MB of unconstrained bytes (9 M SAT variables, ~30 s and
 * 1 GB per unit).  No C03 unit reads them (ecmult/ecmult_gen are never called or are replaced by
 * contracts), so the verifier is given the smallest legal window.  The native replay build keeps the
 * configured size. */
#ifndef VERIF_NATIVE
# undef ECMULT_WINDOW_SIZE
# define ECMULT_WINDOW_SIZE 2
#endif

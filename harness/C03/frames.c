/* C03: ENFORCED frame contracts (goto-instrument --enforce-contract) of the two functions that other C03 units
 * replace by a contract proved with harness assertions.  DFCC checks every write of the real body against the
 * assigns clause, which the harness-style units cannot do.
 *   h_pi_frame  secp256k1_der_parse_integer: writes only *r and *sig; on acceptance the pointer stays in the buffer
 *   h_xo_frame  secp256k1_ge_set_xo_var: writes only *r; the whole contract XO_POST (no ghost log) is enforced,
 *               above the fe_sqrt / fe_mul / fe_sqr oracles */
#define C03_PI_FRAME_ONLY
#include "assumed_C03.h"
#include "spec_der.h"
#include "der_contracts.h"
#include "src/secp256k1.c"
#include "post.h"

void h_pi_frame(void) {
    INPUT(size_t, avail); INPUT(secp256k1_scalar, r);
    unsigned char *buf; const unsigned char *p; int ret;
    __CPROVER_assume(avail <= 100000);
    INPUT_BUF(b, buf, avail, 80);
    p = buf;
    ret = secp256k1_der_parse_integer(&r, &p, buf + avail);
    if (ret) REACH("parse_integer frame: accept");
    if (!ret) REACH("parse_integer frame: reject");
}

void h_xo_frame(void) {
    INPUT(secp256k1_fe, x); INPUT(int, odd); INPUT(secp256k1_ge, rg);
    int ret = secp256k1_ge_set_xo_var(&rg, &x, odd);
    if (ret) REACH("xo_var frame: on curve");
    if (!ret) REACH("xo_var frame: not on curve");
}

/* C03: strict DER signature codec of /repo against the X.690 specification functions of
 * contracts/spec_der.h, for every byte string of every length <= MAXLEN.  No oracle is used.
 *   h_read_len       secp256k1_der_read_len           (static helper, real code vs spec_der_len)
 *   h_parse_integer  secp256k1_der_parse_integer      (static helper, real code vs spec_der_int; proves PI_POST)
 *   h_parse_der      secp256k1_ecdsa_signature_parse_der (API, every pointer NULL or object); the two calls of
 *                    secp256k1_der_parse_integer are replaced by the contract proved in h_parse_integer
 *   h_serialize_der  secp256k1_ecdsa_signature_serialize_der (API)
 *   h_rt_ser_parse   parse_der(serialize_der(r,s)) = (r,s), real code both ways
 *   h_canon_int      X.690 lemma: an accepted in-range INTEGER element is the encoding of its value */
#include "assumed.h"
#include "spec_der.h"
#include "der_contracts.h"
#include "src/secp256k1.c"
#include "post.h"

#ifndef MAXLEN
#define MAXLEN 100000
#endif
#define WIT 80


void h_read_len(void) {
    INPUT(size_t, avail);
    unsigned char *buf; const unsigned char *p, *end; size_t len; int ret; spec_len L;
    __CPROVER_assume(avail <= MAXLEN);
    INPUT_BUF(b, buf, avail, 16);          /* object of exactly avail bytes: any read at or past sigend is a bounds violation */
    len = 0x5555; p = buf; end = buf + avail;
    ret = secp256k1_der_read_len(&len, &p, end);
    WITNESS_BUF(b, buf, avail, 16);
    L = spec_der_len(buf, avail);
    __CPROVER_assert(ret == 0 || ret == 1, "C03 der.read_len: returns 0 or 1");
    if (ret) __CPROVER_assert(L.ok, "C03 der.read_len: accepts only well-formed DER length octets (no 0xFF, no indefinite form, no leading zero octet, no long form below 128, not truncated)");
    if (ret) __CPROVER_assert(len == L.val, "C03 der.read_len: the length reported equals the encoded length");
    if (ret) __CPROVER_assert(p == buf + L.hdr, "C03 der.read_len: the read pointer advances by exactly the length octets");
    if (L.ok && L.val <= avail - L.hdr) __CPROVER_assert(ret == 1, "C03 der.read_len: well-formed length octets whose content fits are accepted");
    if (ret && L.hdr == 3) REACH("read_len accepts a 2-octet long form");
    if (ret && L.hdr == 1) REACH("read_len accepts a short form");
    if (!ret && avail > 3) REACH("read_len rejects");
}

void h_parse_integer(void) {
    INPUT(size_t, avail); INPUT(secp256k1_scalar, r0); INPUT(size_t, j);
    unsigned char *buf; const unsigned char *p; int ret; spec_int I; secp256k1_scalar r = r0;
    __CPROVER_assume(avail <= MAXLEN && j < 32);
    g_j = j;
    INPUT_BUF(b, buf, avail, WIT);
    p = buf;
    ret = secp256k1_der_parse_integer(&r, &p, buf + avail);
    WITNESS_BUF(b, buf, avail, WIT);
    I = spec_der_int(buf, avail);
    /* the four parts of the contract PI_POST (der_contracts.h) that der.sig_parse relies on */
    __CPROVER_assert(PI_ACCEPT(ret, I), "C03 der.parse_integer: accepts exactly the well-formed DER INTEGER elements (tag 0x02, DER length, >= 1 content octet, no excessive 0x00 or 0xFF padding, not truncated)");
    __CPROVER_assert(PI_ADVANCE(PEQ_PLAIN, ret, p, (const unsigned char *)buf, avail, I), "C03 der.parse_integer: the read pointer advances by exactly the element length, inside the buffer");
    __CPROVER_assert(PI_VALUE(ret, &r, (const unsigned char *)buf, I), "C03 der.parse_integer: scalar equals the encoded value if 0 <= value < n");
    __CPROVER_assert(PI_REDUCED(ret, &r, I), "C03 der.parse_integer: result scalar is reduced, and zero for negative, oversize or >= n values");
    if (ret && I.inrange && I.total == 35 && buf[3] != 0) REACH("parse_integer accepts a padded 32-byte in-range value");
    if (ret && !I.inrange && I.total > 40) REACH("parse_integer accepts an oversize integer as zero");
    if (!ret && avail > 4 && buf[0] == 0x02 && buf[1] == 2) REACH("parse_integer rejects a padding violation");
}

/* API-level statement over the proved contract of secp256k1_der_parse_integer (der_contracts.h):
 * ECDSA-Sig-Value framing.  With R = slot 0 and S = slot 1 this is the definition of spec_der_sig. */
void h_parse_der(void) {
    secp256k1_context ctx;
    INPUT(size_t, len); INPUT(secp256k1_ecdsa_signature, sig0); INPUT(_Bool, use_sig); INPUT(_Bool, use_in); INPUT(size_t, k); INPUT(size_t, j);
    unsigned char *buf; int ret, framing, w0 = 0, w1 = 0; spec_len L; secp256k1_ecdsa_signature sig = sig0; secp256k1_scalar r, s;
    __CPROVER_assume(len <= MAXLEN && k < 64 && j < 32);
    g_j = j; g_pi_n = 0;
    INPUT_BUF(b, buf, len, WIT);
    verif_ctx_init(&ctx);
    ret = secp256k1_ecdsa_signature_parse_der(&ctx, use_sig ? &sig : NULL, use_in ? buf : NULL, len);
    WITNESS_BUF(b, buf, len, WIT);
    /* X.690 8.9.1 + 10.1: identifier 0x30, DER length, contents are exactly the rest of the input */
    framing = spec_sig_framing(buf, len, &L);
#ifdef VERIF_NATIVE
    /* native replay: nothing is replaced, so the call log is filled from the specification itself */
    if (use_sig && use_in) {
        spec_sig S = spec_der_sig(buf, len); unsigned char v[32]; size_t i;
        if (framing) { g_pi_n = 1; g_pi_off0 = S.roff; g_pi_av0 = SPEC_SIG_RAVAIL(L); g_pi_I0 = S.R;
            for (i = 0; i < 32; i++) v[i] = spec_der_sig_rbyte(buf, S, i); secp256k1_scalar_set_b32(&g_pi_v0, v, NULL); }
        if (framing && S.R.ok) { g_pi_n = 2; g_pi_off1 = S.soff; g_pi_av1 = SPEC_SIG_SAVAIL(L, S.R); g_pi_I1 = S.S;
            for (i = 0; i < 32; i++) v[i] = spec_der_sig_sbyte(buf, S, i); secp256k1_scalar_set_b32(&g_pi_v1, v, NULL); }
    }
#endif
    __CPROVER_assert(ret == 0 || ret == 1, "C03 der.sig_parse: returns 0 or 1");
    __CPROVER_assert(g_error == 0, "C03 der.sig_parse: error callback never invoked");
    if (!use_sig || !use_in) {
        __CPROVER_assert(ret == 0 && g_illegal == 1, "C03 der.sig_parse: NULL argument reports illegal use and fails");
    } else {
        /* slot 0 / slot 1 = the first two INTEGER reads.  Nothing is demanded about WHEN the framing is checked or
         * how often the integer parser is consulted; a verdict must only be backed by the integer parser's answer at
         * the position the specification names (w0: r at the start of the contents, w1: s directly after r). */
        w0 = g_pi_n >= 1 && g_pi_off0 == SPEC_SIG_ROFF(L) && g_pi_av0 == SPEC_SIG_RAVAIL(L);
        w1 = g_pi_n >= 2 && g_pi_off1 == SPEC_SIG_SOFF(L, g_pi_I0) && g_pi_av1 == SPEC_SIG_SAVAIL(L, g_pi_I0);
        __CPROVER_assert(g_illegal == 0, "C03 der.sig_parse: no callback for non-NULL arguments, whatever the bytes");
        if (ret) __CPROVER_assert(framing && w0 && w1 && SPEC_SIG_OK(framing, L, g_pi_I0, g_pi_I1),
                                  "C03 der.sig_parse: accepts only strict-DER ECDSA-Sig-Value encodings that fill the input (no trailing bytes inside or after the sequence)");
        if (!ret) __CPROVER_assert(!framing || (w0 && !g_pi_I0.ok) || (w0 && g_pi_I0.ok && w1 && !(g_pi_I1.ok && g_pi_I0.total + g_pi_I1.total == L.val)),
                                  "C03 der.sig_parse: rejects only what the specification rejects (bad framing, malformed r, malformed s or bytes after s)");
        secp256k1_ecdsa_signature_load(&ctx, &r, &s, &sig);
        if (ret) __CPROVER_assert(SC_EQ(r, g_pi_v0) && SC_EQ(s, g_pi_v1), "C03 der.sig_parse: the signature object holds exactly the scalars of the first and second INTEGER (in-range integers are stored exactly)");
        /* out-of-range integers and rejected inputs: the header promises "never verifies" - units C03.never_verifies.* */
    }
    if (use_sig && use_in && ret && g_pi_I0.inrange && g_pi_I1.inrange && len == 72) REACH("parse_der accepts a 72-byte signature");
    if (use_sig && use_in && ret && !g_pi_I0.inrange && len > 200) REACH("parse_der accepts a long signature with oversize r");
    if (use_sig && use_in && !ret && framing && w0 && g_pi_I0.ok && w1 && g_pi_I1.ok) REACH("parse_der rejects trailing bytes inside the sequence");
    if (use_sig && use_in && !ret && framing && w0 && !g_pi_I0.ok) REACH("parse_der rejects a malformed r");
    if (use_sig && use_in && !ret && framing && w0 && g_pi_I0.ok && w1 && !g_pi_I1.ok) REACH("parse_der rejects a malformed s");
    if (use_sig && use_in && !ret && !framing && len > 4 && buf[0] == 0x30) REACH("parse_der rejects bad framing (length octets / trailing bytes after the sequence)");
    if (!use_sig) REACH("parse_der NULL sig");
}

void h_serialize_der(void) {
    secp256k1_context ctx;
    INPUT(secp256k1_scalar, r); INPUT(secp256k1_scalar, s); INPUT(size_t, cap); INPUT(size_t, k);
    INPUT(_Bool, use_out); INPUT(_Bool, use_len); INPUT(_Bool, use_sig);
    secp256k1_ecdsa_signature sig; unsigned char *out, rb[32], sb[32]; size_t outlen, needed; int ret;
    __CPROVER_assume(scalar_ok(&r) && scalar_ok(&s));     /* an initialized signature object holds reduced scalars */
    __CPROVER_assume(cap <= MAXLEN);
    secp256k1_ecdsa_signature_save(&sig, &r, &s);
    INPUT_BUF(o, out, cap, WIT);                           /* output buffer of exactly cap bytes, arbitrary prior content */
    outlen = cap;
    verif_ctx_init(&ctx);
    ret = secp256k1_ecdsa_signature_serialize_der(&ctx, use_out ? out : NULL, use_len ? &outlen : NULL, use_sig ? &sig : NULL);
    spec_scalar_be(&r, rb); spec_scalar_be(&s, sb);
    needed = spec_der_sig_enc_len(rb, sb);
    __CPROVER_assert(ret == 0 || ret == 1, "C03 der.serialize: returns 0 or 1");
    __CPROVER_assert(g_error == 0, "C03 der.serialize: error callback never invoked");
    if (!use_out || !use_len || !use_sig) {
        __CPROVER_assert(ret == 0 && g_illegal == 1, "C03 der.serialize: NULL argument reports illegal use and fails");
    } else {
        __CPROVER_assert(g_illegal == 0, "C03 der.serialize: no callback for non-NULL arguments");
        __CPROVER_assert(outlen == needed, "C03 der.serialize: *outputlen is set to the length of the DER encoding, also when 0 is returned");
        __CPROVER_assert(ret == (cap >= needed), "C03 der.serialize: succeeds exactly when the buffer holds the encoding (not one byte more demanded)");
        if (ret && k < needed) __CPROVER_assert(out[k] == spec_der_sig_enc_byte(rb, sb, k), "C03 der.serialize: output bytes equal the DER encoding SEQUENCE{INTEGER r, INTEGER s} with minimal lengths");
    }
    __CPROVER_assert(needed >= 8 && needed <= 72, "C03 der.serialize: encoding length between 8 and 72");
    if (use_out && use_len && use_sig && ret && needed == 72) REACH("serialize_der writes 72 bytes");
    if (use_out && use_len && use_sig && ret && needed == 8) REACH("serialize_der writes 8 bytes");
    if (use_out && use_len && use_sig && !ret && cap == needed - 1) REACH("serialize_der one byte short");
}

/* parse(serialize(r,s)) = (r,s) for all r,s < n */
void h_rt_ser_parse(void) {
    secp256k1_context ctx;
    INPUT(secp256k1_scalar, r); INPUT(secp256k1_scalar, s);
    secp256k1_ecdsa_signature sig, sig2; unsigned char out[72]; size_t outlen = 72; int ret1, ret2; secp256k1_scalar r2, s2;
    __CPROVER_assume(scalar_ok(&r) && scalar_ok(&s));
    verif_ctx_init(&ctx);
    secp256k1_ecdsa_signature_save(&sig, &r, &s);
    ret1 = secp256k1_ecdsa_signature_serialize_der(&ctx, out, &outlen, &sig);
    __CPROVER_assert(ret1 == 1 && outlen <= 72, "C03 der.roundtrip: 72 bytes always suffice");
    ret2 = secp256k1_ecdsa_signature_parse_der(&ctx, &sig2, out, outlen);
    __CPROVER_assert(ret2 == 1, "C03 der.roundtrip: every serialization is accepted by the parser");
    secp256k1_ecdsa_signature_load(&ctx, &r2, &s2, &sig2);
    __CPROVER_assert(SC_EQ(r, r2) && SC_EQ(s, s2), "C03 der.roundtrip: parse(serialize(r,s)) = (r,s)");
    __CPROVER_assert(g_illegal == 0 && g_error == 0, "C03 der.roundtrip: no callback");
    if (outlen == 72) REACH("roundtrip with 72 bytes");
    if (outlen == 8) REACH("roundtrip with 8 bytes");
}

/* X.690 lemma on the specification alone: a DER INTEGER element that is accepted with 0 <= value < n is THE
 * encoding of its value (identifier 02, short length = minimal content length, contents = minimal two's
 * complement).  Together with der.sig_parse (stored scalars = values), der.serialize (output = encoding of
 * the stored scalars) and the definition of spec_der_sig this gives serialize(parse(b)) = b for every accepted b with both
 * integers in range: b = 30 len || enc(r) || enc(s) with nothing else (framing), and len < 128 is forced. */
void h_canon_int(void) {
    INPUT(size_t, avail); INPUT(size_t, k);
    unsigned char *buf, v[32]; spec_int I; size_t i;
    __CPROVER_assume(avail <= MAXLEN);
    INPUT_BUF(b, buf, avail, WIT);
    I = spec_der_int(buf, avail);
    WITNESS_BUF(b, buf, avail, WIT);
    if (I.ok && I.inrange) {
        for (i = 0; i < 32; i++) v[i] = spec_der_int_vbyte(buf, I, i);
        __CPROVER_assert(I.total == 2 + spec_der_int_clen(v) && I.total <= 35, "C03 der.canonical: an in-range INTEGER element has the minimal length of its value");
        __CPROVER_assert(buf[0] == 0x02 && buf[1] == spec_der_int_clen(v), "C03 der.canonical: identifier and short-form length octet are those of the canonical encoding");
        if (k < spec_der_int_clen(v)) __CPROVER_assert(buf[2 + k] == spec_der_int_cbyte(v, k), "C03 der.canonical: content octets are the minimal two's complement of the value");
        if (I.total == 35) REACH("canonical 33-content-byte integer");
        if (I.total == 3) REACH("canonical single-byte integer");
    }
}

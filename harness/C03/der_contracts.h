/* C03: PROVED contract of secp256k1_der_parse_integer and how it is used.
 *
 * Unit C03.der.parse_integer proves, on the REAL function and for every byte string, PI_POST:
 *   with I = spec_der_int(oldp, avail) (X.690 8.3 INTEGER, contracts/spec_der.h):
 *   return = I.ok; on acceptance the read pointer advances by I.total (3 <= I.total <= avail), the scalar is
 *   reduced, equals the encoded value if 0 <= value < n and is zero otherwise.
 *
 * Unit C03.der.sig_parse replaces the two calls inside secp256k1_ecdsa_sig_parse by the contract below.  The
 * contract does not re-evaluate the specification (the monolithic miter "real parser == spec_der_sig" stayed
 * undecided for 40 min on MiniSat, CaDiCaL and Z3); it RECORDS in ghost slots 0/1 where each INTEGER was read
 * (offset, bytes available) and what the call answered (ok, total, inrange, scalar).  By PI_POST these answers
 * ARE spec_der_int at that position, so the framing obligations of der.sig_parse, read with
 * slot i = spec_der_int(buf + off_i, av_i), are literally the definition of spec_der_sig: the harness uses
 * the same spec_sig_framing / SPEC_SIG_ROFF.. / SPEC_SIG_OK pieces spec_der_sig is written with.
 * (A mechanical check of that unfolding, two copies of the specification against each other, did not
 * terminate in 15 min and is not part of the units.) */
#ifndef C03_DER_CONTRACTS_H
#define C03_DER_CONTRACTS_H

size_t g_j;   /* ghost byte index (< 32): never assigned by the code, so a statement about byte g_j is universal */

#if !defined(USE_FORCE_WIDEMUL_INT64)
static unsigned char spec_scalar_byte(const secp256k1_scalar *a, size_t i) { return (unsigned char)(a->d[3 - i / 8] >> (56 - 8 * (i % 8))); }
static int spec_scalar_is_zero(const secp256k1_scalar *a) { return (a->d[0] | a->d[1] | a->d[2] | a->d[3]) == 0; }
#endif

/* abstract part (what the caller relies on); PEQ = pointer equality operator */
#define PEQ_PLAIN(a, b) ((a) == (b))
#define PEQ_DFCC(a, b) __CPROVER_pointer_equals((void *)(a), (void *)(b))
#define PI_ACCEPT(ret, I)   (((ret) == 0 || (ret) == 1) && (ret) == (I).ok && ((I).inrange == 0 || (I).inrange == 1))
#define PI_ADVANCE(PEQ, ret, newp, oldp, avail, I) (!(ret) || ((I).total >= 3 && (I).total <= (avail) && PEQ((newp), (oldp) + (I).total)))
#define PI_REDUCED(ret, r, I) (!(ret) || (scalar_ok(r) && ((I).inrange || spec_scalar_is_zero(r))))
#define PI_VALUE(ret, r, oldp, I) (!(ret) || spec_scalar_byte((r), g_j) == spec_der_int_vbyte((oldp), (I), g_j))
#define PI_POST_ABS(PEQ, ret, r, newp, oldp, avail, I) (PI_ACCEPT(ret, I) && PI_ADVANCE(PEQ, ret, newp, oldp, avail, I) && PI_REDUCED(ret, r, I))
/* full contract = abstract part + the value */
#define PI_POST(PEQ, ret, r, newp, oldp, avail, I) (PI_POST_ABS(PEQ, ret, r, newp, oldp, avail, I) && PI_VALUE(ret, r, oldp, I))

#ifdef C03_PI_FRAME_ONLY
/* ENFORCED variant (unit C03.der.parse_integer.frame, --enforce-contract): the frame of the contract below - only
 * *r and *sig are written, the read pointer stays inside [old, sigend] - checked by DFCC against the real body.
 * The functional part (PI_POST) is proved by the harness unit C03.der.parse_integer. */
static int secp256k1_der_parse_integer(secp256k1_scalar *r, const unsigned char **sig, const unsigned char *sigend)
__CPROVER_requires(__CPROVER_w_ok(r, sizeof(*r)) && __CPROVER_rw_ok(sig, sizeof(*sig)))
__CPROVER_requires(__CPROVER_same_object(*sig, sigend) && __CPROVER_POINTER_OFFSET(*sig) <= __CPROVER_POINTER_OFFSET(sigend) && (*sig == sigend || __CPROVER_r_ok(*sig, sigend - *sig)))
__CPROVER_assigns(*r, *sig)
__CPROVER_ensures(__CPROVER_return_value == 0 || __CPROVER_return_value == 1)
__CPROVER_ensures(__CPROVER_return_value == 1 ==> (__CPROVER_same_object(*sig, sigend) && __CPROVER_POINTER_OFFSET(*sig) <= __CPROVER_POINTER_OFFSET(sigend) &&
                  __CPROVER_POINTER_OFFSET(*sig) >= __CPROVER_POINTER_OFFSET(__CPROVER_old(*sig)) + 3 && scalar_ok(r)))
;
#else
/* ghost call log */
int g_pi_n; size_t g_pi_off0, g_pi_off1, g_pi_av0, g_pi_av1; spec_int g_pi_cur, g_pi_I0, g_pi_I1; secp256k1_scalar g_pi_v0, g_pi_v1;
#define I_SAME(a, b) ((a).ok == (b).ok && (a).total == (b).total && (a).inrange == (b).inrange)
#define I_KEEP(a) ((a).ok == __CPROVER_old((a).ok) && (a).total == __CPROVER_old((a).total) && (a).inrange == __CPROVER_old((a).inrange))
#define PI_SLOT(i) \
  __CPROVER_ensures(__CPROVER_old(g_pi_n) == i ==> (g_pi_off##i == __CPROVER_POINTER_OFFSET(__CPROVER_old(*sig)) && g_pi_av##i == (size_t)(sigend - __CPROVER_old(*sig)) && \
        I_SAME(g_pi_I##i, g_pi_cur) && SC_EQ(g_pi_v##i, *r))) \
  __CPROVER_ensures(__CPROVER_old(g_pi_n) != i ==> (g_pi_off##i == __CPROVER_old(g_pi_off##i) && g_pi_av##i == __CPROVER_old(g_pi_av##i) && I_KEEP(g_pi_I##i) && SC_KEEP(g_pi_v##i)))
static int secp256k1_der_parse_integer(secp256k1_scalar *r, const unsigned char **sig, const unsigned char *sigend)
__CPROVER_requires(__CPROVER_w_ok(r, sizeof(*r)) && __CPROVER_rw_ok(sig, sizeof(*sig)))
__CPROVER_requires(__CPROVER_same_object(*sig, sigend) && __CPROVER_POINTER_OFFSET(*sig) <= __CPROVER_POINTER_OFFSET(sigend) && (*sig == sigend || __CPROVER_r_ok(*sig, sigend - *sig)))
__CPROVER_requires(g_pi_n >= 0 && g_pi_n < 1000)   /* any number of calls; the first two are recorded */
__CPROVER_assigns(*r, *sig, g_pi_n, g_pi_off0, g_pi_off1, g_pi_av0, g_pi_av1, g_pi_cur, g_pi_I0, g_pi_I1, g_pi_v0, g_pi_v1)
__CPROVER_ensures(g_pi_n == __CPROVER_old(g_pi_n) + 1)
__CPROVER_ensures(PI_POST_ABS(PEQ_DFCC, __CPROVER_return_value, r, *sig, __CPROVER_old(*sig), (size_t)(sigend - __CPROVER_old(*sig)), g_pi_cur))
PI_SLOT(0) PI_SLOT(1)
;
#endif /* !C03_PI_FRAME_ONLY */
#endif

/* C03: PROVED contract of secp256k1_der_parse_integer, stated with the X.690 INTEGER specification
 * spec_der_int (contracts/spec_der.h).
 *
 * PI_POST is one text used twice:
 *   - unit C03.der.parse_integer asserts it on the REAL function for every byte string (that is the proof);
 *   - unit C03.der.sig_parse replaces the two calls inside secp256k1_ecdsa_sig_parse by this contract and
 *     reasons about the SEQUENCE framing on top of it (lemma over the contract).
 * The replaced calls record (start pointer, bytes available, spec result) in ghost slots 0 and 1. */
#ifndef C03_DER_CONTRACTS_H
#define C03_DER_CONTRACTS_H

size_t g_j;   /* ghost byte index (< 32): never assigned by the code, so a statement about byte g_j is universal */

#if !defined(USE_FORCE_WIDEMUL_INT64)
static unsigned char spec_scalar_byte(const secp256k1_scalar *a, size_t i) { return (unsigned char)(a->d[3 - i / 8] >> (56 - 8 * (i % 8))); }
static int spec_scalar_is_zero(const secp256k1_scalar *a) { return (a->d[0] | a->d[1] | a->d[2] | a->d[3]) == 0; }
#endif

/* ret: return value; r: result scalar; newp/oldp: read pointer after/before; I: spec_der_int(oldp, sigend - oldp) */
#define PI_POST(ret, r, newp, oldp, I) \
    (((ret) == 0 || (ret) == 1) && (ret) == (I).ok && \
     (!(ret) || ((newp) == (oldp) + (I).total && scalar_ok(r) && \
                 spec_scalar_byte((r), g_j) == spec_der_int_vbyte((oldp), (I), g_j) && \
                 ((I).inrange || spec_scalar_is_zero(r)))))

static int spec_int_is(const unsigned char *b, size_t avail, const spec_int *I) {
    spec_int J = spec_der_int(b, avail);
    return J.ok == I->ok && J.total == I->total && J.inrange == I->inrange && J.moff == I->moff && J.ml == I->ml;
}

int g_pi_n; const unsigned char *g_pi_p0, *g_pi_p1; size_t g_pi_av0, g_pi_av1; spec_int g_pi_I0, g_pi_I1;
#define PI_SLOT(i) \
  __CPROVER_ensures(__CPROVER_old(g_pi_n) == i ==> (g_pi_p##i == __CPROVER_old(*sig) && g_pi_av##i == (size_t)(sigend - __CPROVER_old(*sig)) && \
        spec_int_is(g_pi_p##i, g_pi_av##i, &g_pi_I##i) && PI_POST(__CPROVER_return_value, r, *sig, g_pi_p##i, g_pi_I##i))) \
  __CPROVER_ensures(__CPROVER_old(g_pi_n) != i ==> (g_pi_p##i == __CPROVER_old(g_pi_p##i) && g_pi_av##i == __CPROVER_old(g_pi_av##i) && \
        g_pi_I##i.ok == __CPROVER_old(g_pi_I##i.ok) && g_pi_I##i.total == __CPROVER_old(g_pi_I##i.total) && g_pi_I##i.inrange == __CPROVER_old(g_pi_I##i.inrange) && \
        g_pi_I##i.moff == __CPROVER_old(g_pi_I##i.moff) && g_pi_I##i.ml == __CPROVER_old(g_pi_I##i.ml)))
static int secp256k1_der_parse_integer(secp256k1_scalar *r, const unsigned char **sig, const unsigned char *sigend)
__CPROVER_requires(__CPROVER_w_ok(r, sizeof(*r)) && __CPROVER_rw_ok(sig, sizeof(*sig)))
__CPROVER_requires(__CPROVER_same_object(*sig, sigend) && __CPROVER_POINTER_OFFSET(*sig) <= __CPROVER_POINTER_OFFSET(sigend) && (*sig == sigend || __CPROVER_r_ok(*sig, sigend - *sig)))
__CPROVER_requires(g_pi_n == 0 || g_pi_n == 1)
__CPROVER_assigns(*r, *sig, g_pi_n, g_pi_p0, g_pi_p1, g_pi_av0, g_pi_av1, g_pi_I0, g_pi_I1)
__CPROVER_ensures(g_pi_n == __CPROVER_old(g_pi_n) + 1)
PI_SLOT(0) PI_SLOT(1)
;
#endif

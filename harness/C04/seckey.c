/* C04: secret-key side, real code only (scalar_set_b32, add, negate, cmov, get_b32), every input.
 *   h_seckey_verify      ret = (0 < key < n)
 *   h_seckey_negate      ret = valid(key); ret=1 => out + key = n; ret=0 => out is not a valid key
 *   h_seckey_tweak_add   all 2^512 (key, tweak): ret = valid(key) && tweak < n && (key+tweak) mod n != 0;
 *                        ret=1 => out = (key+tweak) mod n; ret=0 => out is not a valid key
 * (include/secp256k1.h: "seckey will be set to some unspecified value" on failure; property C04: the failing
 *  operation "returns no usable key" - so the obligation is: the buffer fails secp256k1_ec_seckey_verify)
 * One entry per unit, selected by -DU_<ENTRY> (INPUT names are per translation unit).
 * NULL arguments: illegal callback, ret 0.  No oracle contract, so counterexamples replay natively. */
#include "pre.h"
#include "spec.h"
#include "src/secp256k1.c"
#include "post.h"

#ifdef U_SECKEY_VERIFY
void h_seckey_verify(void) {
    secp256k1_context ctx;
    INPUT_ARR(unsigned char, key, 32); INPUT(_Bool, use_key);
    int ret; sp kv = sp_be32(key);
    verif_ctx_init(&ctx);
    ret = secp256k1_ec_seckey_verify(&ctx, use_key ? key : NULL);
    __CPROVER_assert(g_error == 0, "C04 seckey_verify: error callback never invoked");
    if (!use_key) __CPROVER_assert(ret == 0 && g_illegal == 1, "C04 seckey_verify: NULL key is illegal and returns 0");
    else {
        __CPROVER_assert(g_illegal == 0, "C04 seckey_verify: no illegal callback for a non-NULL key");
        __CPROVER_assert(ret == sp_seckey_valid(kv), "C04 seckey_verify: returns 1 exactly for 0 < key < n");
    }
    if (use_key && ret == 1) REACH("seckey_verify valid");
    if (use_key && ret == 0 && !sp_is0(kv)) REACH("seckey_verify key >= n");
}
#endif

#ifdef U_SECKEY_NEGATE
void h_seckey_negate(void) {
    secp256k1_context ctx;
    INPUT_ARR(unsigned char, key, 32); INPUT(_Bool, use_key);
    int ret; sp kv = sp_be32(key), ov;
    verif_ctx_init(&ctx);
    ret = secp256k1_ec_seckey_negate(&ctx, use_key ? key : NULL);
    ov = sp_be32(key);
    __CPROVER_assert(g_error == 0, "C04 seckey_negate: error callback never invoked");
    if (!use_key) __CPROVER_assert(ret == 0 && g_illegal == 1, "C04 seckey_negate: NULL key is illegal and returns 0");
    else {
        __CPROVER_assert(g_illegal == 0, "C04 seckey_negate: no illegal callback for a non-NULL key");
        __CPROVER_assert(ret == sp_seckey_valid(kv), "C04 seckey_negate: returns 1 exactly for a valid key");
        if (ret == 1) __CPROVER_assert(sp_eq(sp_add(ov, kv), sp_n()) && sp_seckey_valid(ov), "C04 seckey_negate: output is n - key, a valid key");
        if (ret == 0) __CPROVER_assert(!sp_seckey_valid(ov), "C04 seckey_negate: on failure the buffer holds no usable key (it fails seckey_verify)");
    }
    if (use_key && ret == 1) REACH("seckey_negate valid");
    if (use_key && ret == 0 && !sp_is0(kv)) REACH("seckey_negate key >= n");
}
#endif

#ifdef U_SECKEY_TWEAK_ADD
void h_seckey_tweak_add(void) {
    secp256k1_context ctx;
    INPUT_ARR(unsigned char, key, 32); INPUT_ARR(unsigned char, tweak, 32); INPUT(_Bool, use_key); INPUT(_Bool, use_tweak); INPUT(size_t, k);
    unsigned char tweak0[32];
    int ret, expect; sp kv = sp_be32(key), tv = sp_be32(tweak), ov, sum;
    verif_ctx_init(&ctx);
    __CPROVER_assume(k < 32);
    memcpy(tweak0, tweak, 32);
    ret = secp256k1_ec_seckey_tweak_add(&ctx, use_key ? key : NULL, use_tweak ? tweak : NULL);
    ov = sp_be32(key);
    __CPROVER_assert(g_error == 0, "C04 seckey_tweak_add: error callback never invoked");
    __CPROVER_assert(tweak[k] == tweak0[k], "C04 seckey_tweak_add: tweak is not modified");
    if (!use_key || !use_tweak) __CPROVER_assert(ret == 0 && g_illegal == 1, "C04 seckey_tweak_add: NULL argument is illegal and returns 0");
    else {
        expect = 0;
        if (sp_seckey_valid(kv) && sp_lt(tv, sp_n())) {
            sum = sp_modn(sp_add(kv, tv));
            expect = !sp_is0(sum);
        }
        __CPROVER_assert(g_illegal == 0, "C04 seckey_tweak_add: no illegal callback for non-NULL arguments");
        __CPROVER_assert(ret == expect, "C04 seckey_tweak_add: returns 1 exactly when key valid, tweak < n and key+tweak != 0 mod n");
        if (ret == 1) __CPROVER_assert(sp_eq(ov, sum) && sp_seckey_valid(ov), "C04 seckey_tweak_add: output is (key + tweak) mod n");
        if (ret == 0) __CPROVER_assert(!sp_seckey_valid(ov), "C04 seckey_tweak_add: on failure the buffer holds no usable key (it fails seckey_verify)");
        if (ret == 1) REACH("seckey_tweak_add success");
        if (sp_seckey_valid(kv) && sp_eq(tv, sp_n())) REACH("seckey_tweak_add tweak == n");
        if (sp_seckey_valid(kv) && sp_lt(tv, sp_n()) && ret == 0) REACH("seckey_tweak_add tweak == -key");
        if (ret == 1 && !sp_lt(sp_add(kv, tv), sp_n())) REACH("seckey_tweak_add sum wraps n");
    }
}
#endif

/* C04: failure gates, output zeroing and oracle wiring of the key operations of src/secp256k1.c that
 * contain a curve or scalar multiplication.  The multiplication itself is an ASSUMED oracle with a
 * ghost log (assumed.h): the obligations say WHAT is handed to the oracle, WHICH oracle answers lead
 * to failure, and that the object written is exactly the oracle's answer (or all zero).
 * Every pointer argument NULL-or-object, every byte content.  One entry per unit (-DU_<ENTRY>).
 *
 * Object view: see pubkey_real.c (x = LE integer of bytes 0..31, y = bytes 32..63, invalid iff x = 0). */
#define LOG_SCALAR_MUL
#define LOG_ECMULT
#define LOG_ECMULT_GEN
#define LOG_GE_SET_GEJ
#include "assumed_C04.h"
#include "spec.h"
#include "src/secp256k1.c"
#include "post.h"

#define GEJ_EQ(a, b) (FE_EQ((a).x, (b).x) && FE_EQ((a).y, (b).y) && FE_EQ((a).z, (b).z) && (a).infinity == (b).infinity)
/* the 64 bytes secp256k1_pubkey_save writes for an affine point with magnitude-1 coordinates: both reduced mod p */
#define PK_IS(data, ge) (sp_eq(sp_le32(data), sp_modp(fval(&(ge).x))) && sp_eq(sp_le32((data) + 32), sp_modp(fval(&(ge).y))))
/* the Jacobian point handed to ecmult is the loaded object: coordinates as stored, z = 1, finite */
#define IS_LOADED(gej, xv, yv) (sp_eq(fval(&(gej).x), xv) && sp_eq(fval(&(gej).y), yv) && sp_eq(fval(&(gej).z), sp_u64(1)) && (gej).infinity == 0)
#define LOGS_RESET() do { g_mul_n = 0; g_ecmult_n = 0; g_gen_n = 0; g_sg_n = 0; } while (0)

#ifdef U_SECKEY_TWEAK_MUL
void h_seckey_tweak_mul(void) {
    secp256k1_context ctx;
    INPUT_ARR(unsigned char, key, 32); INPUT_ARR(unsigned char, tweak, 32); INPUT(_Bool, use_key); INPUT(_Bool, use_tweak); INPUT(size_t, k);
    unsigned char tweak0[32];
    int ret; sp kv = sp_be32(key), tv = sp_be32(tweak);
    verif_ctx_init(&ctx); LOGS_RESET();
    __CPROVER_assume(k < 32);
    memcpy(tweak0, tweak, 32);
    ret = secp256k1_ec_seckey_tweak_mul(&ctx, use_key ? key : NULL, use_tweak ? tweak : NULL);
    __CPROVER_assert(g_error == 0, "C04 seckey_tweak_mul: error callback never invoked");
    __CPROVER_assert(tweak[k] == tweak0[k], "C04 seckey_tweak_mul: tweak is not modified");
    if (!use_key || !use_tweak) __CPROVER_assert(ret == 0 && g_illegal == 1 && g_mul_n == 0, "C04 seckey_tweak_mul: NULL argument is illegal and returns 0");
    else {
        __CPROVER_assert(g_illegal == 0, "C04 seckey_tweak_mul: no illegal callback for non-NULL arguments");
        __CPROVER_assert(ret == (sp_seckey_valid(kv) && sp_seckey_valid(tv)), "C04 seckey_tweak_mul: returns 1 exactly when key valid and 0 < tweak < n");
        __CPROVER_assert(g_mul_n == 1, "C04 seckey_tweak_mul: exactly one scalar multiplication, on every path");
        if (ret == 1) {
            __CPROVER_assert(sp_eq(sval(&g_mul_a0), kv) && sp_eq(sval(&g_mul_b0), tv), "C04 seckey_tweak_mul: the product requested is key * tweak");
            __CPROVER_assert(sp_eq(sp_be32(key), sval(&g_mul_r0)), "C04 seckey_tweak_mul: output is the product returned by the multiplier");
        }
        if (ret == 0) __CPROVER_assert(key[k] == 0, "C04 seckey_tweak_mul: failure leaves 32 zero bytes (no usable key)");
        if (ret == 1) REACH("seckey_tweak_mul success");
        if (sp_seckey_valid(kv) && sp_is0(tv)) REACH("seckey_tweak_mul zero tweak");
        if (sp_seckey_valid(kv) && !sp_lt(tv, sp_n())) REACH("seckey_tweak_mul tweak >= n");
    }
}
#endif

#ifdef U_PUBKEY_CREATE
void h_pubkey_create(void) {
    secp256k1_context ctx;
    INPUT(secp256k1_pubkey, pk); INPUT_ARR(unsigned char, key, 32); INPUT(_Bool, use_pk); INPUT(_Bool, use_key); INPUT(int, built); INPUT(size_t, k);
    unsigned char key0[32];
    int ret; sp kv = sp_be32(key);
    verif_ctx_init(&ctx); LOGS_RESET();
    ctx.ecmult_gen_ctx.built = built;     /* 0 is how secp256k1_context_static (and an unbuilt context) is recognised */
    __CPROVER_assume(k < 64);
    memcpy(key0, key, 32);
    ret = secp256k1_ec_pubkey_create(&ctx, use_pk ? &pk : NULL, use_key ? key : NULL);
    __CPROVER_assert(g_error == 0, "C04 pubkey_create: error callback never invoked");
    __CPROVER_assert(key[k & 31] == key0[k & 31], "C04 pubkey_create: secret key is not modified");
    if (!use_pk) __CPROVER_assert(ret == 0 && g_illegal == 1 && g_gen_n == 0, "C04 pubkey_create: NULL pubkey is illegal and returns 0");
    else if (!built) __CPROVER_assert(ret == 0 && g_illegal == 1 && g_gen_n == 0 && pk.data[k] == 0, "C04 pubkey_create: static/unbuilt context is illegal, returns 0, pubkey zeroed, no multiplication");
    else if (!use_key) __CPROVER_assert(ret == 0 && g_illegal == 1 && g_gen_n == 0 && pk.data[k] == 0, "C04 pubkey_create: NULL seckey is illegal, returns 0, pubkey zeroed");
    else {
        __CPROVER_assert(g_illegal == 0, "C04 pubkey_create: no illegal callback for proper arguments");
        __CPROVER_assert(ret == sp_seckey_valid(kv), "C04 pubkey_create: returns 1 exactly for 0 < key < n");
        __CPROVER_assert(g_gen_n == 1 && g_sg_n == 1, "C04 pubkey_create: one generator multiplication and one affine conversion on every path (valid or not)");
        if (ret == 0) {
            __CPROVER_assert(pk.data[k] == 0, "C04 pubkey_create: invalid key leaves an all-zero (invalid) pubkey");
            __CPROVER_assert(sp_eq(sval(&g_gen_a0), sp_u64(1)), "C04 pubkey_create: invalid key is masked to 1 before the multiplication");
        } else {
            __CPROVER_assert(sp_eq(sval(&g_gen_a0), kv), "C04 pubkey_create: the generator is multiplied by the key");
            __CPROVER_assert(GEJ_EQ(g_sg_a0, g_gen_r0), "C04 pubkey_create: the point converted is the multiplication result");
            __CPROVER_assert(PK_IS(pk.data, g_sg_r0), "C04 pubkey_create: pubkey holds the converted point, coordinates reduced mod p");
        }
        if (ret == 1) REACH("pubkey_create success");
        if (ret == 0 && !sp_is0(kv)) REACH("pubkey_create key >= n");
    }
    if (use_pk && !built) REACH("pubkey_create static context");
}
#endif

#if defined(U_PUBKEY_TWEAK_ADD) || defined(U_PUBKEY_TWEAK_MUL)
#ifdef U_PUBKEY_TWEAK_ADD
#define FN secp256k1_ec_pubkey_tweak_add
#define NM "C04 pubkey_tweak_add: "
void h_pubkey_tweak_add(void) {
#else
#define FN secp256k1_ec_pubkey_tweak_mul
#define NM "C04 pubkey_tweak_mul: "
void h_pubkey_tweak_mul(void) {
#endif
    secp256k1_context ctx;
    INPUT(secp256k1_pubkey, pk); INPUT_ARR(unsigned char, tweak, 32); INPUT(_Bool, use_pk); INPUT(_Bool, use_tweak); INPUT(size_t, k);
    unsigned char tweak0[32];
    int ret, tweak_ok; sp xv = sp_le32(pk.data), yv = sp_le32(pk.data + 32), tv = sp_be32(tweak);
    verif_ctx_init(&ctx); LOGS_RESET();
    __CPROVER_assume(k < 64);
    memcpy(tweak0, tweak, 32);
#ifdef U_PUBKEY_TWEAK_ADD
    tweak_ok = sp_lt(tv, sp_n());
#else
    tweak_ok = sp_seckey_valid(tv);
#endif
    ret = FN(&ctx, use_pk ? &pk : NULL, use_tweak ? tweak : NULL);
    __CPROVER_assert(g_error == 0, NM "error callback never invoked");
    __CPROVER_assert(tweak[k & 31] == tweak0[k & 31], NM "tweak is not modified");
    if (!use_pk || !use_tweak) __CPROVER_assert(ret == 0 && g_illegal == 1 && g_ecmult_n == 0, NM "NULL argument is illegal and returns 0");
    else {
        if (ret == 0) __CPROVER_assert(pk.data[k] == 0, NM "every failure leaves an all-zero (invalid) pubkey");
        if (!tweak_ok) __CPROVER_assert(ret == 0 && g_ecmult_n == 0, NM "out-of-range tweak returns 0 without any curve work");
        if (sp_is0(xv)) __CPROVER_assert(ret == 0 && g_ecmult_n == 0, NM "invalid pubkey object returns 0 without any curve work");
        if (sp_is0(xv) && tweak_ok) __CPROVER_assert(g_illegal == 1, NM "invalid pubkey object is reported through the illegal callback");
        if (!sp_is0(xv)) __CPROVER_assert(g_illegal == 0, NM "no illegal callback for a valid pubkey object");
        if (!sp_is0(xv) && tweak_ok) {
            __CPROVER_assert(g_ecmult_n == 1 && IS_LOADED(g_ecmult_a0, xv, yv), NM "exactly one ecmult, on the loaded public key");
#ifdef U_PUBKEY_TWEAK_ADD
            __CPROVER_assert(g_ecmult_has_na0 && sp_eq(sval(&g_ecmult_na0), sp_u64(1)) && g_ecmult_has_ng0 && sp_eq(sval(&g_ecmult_ng0), tv), NM "ecmult computes 1*P + tweak*G");
            __CPROVER_assert(ret == !g_ecmult_r0.infinity, NM "fails exactly when the sum is the point at infinity");
#else
            __CPROVER_assert(g_ecmult_has_na0 && sp_eq(sval(&g_ecmult_na0), tv) && !g_ecmult_has_ng0, NM "ecmult computes tweak*P + nothing");
            __CPROVER_assert(ret == 1, NM "valid pubkey and 0 < tweak < n succeeds");
#endif
            if (ret == 1) {
                __CPROVER_assert(g_sg_n == 1 && GEJ_EQ(g_sg_a0, g_ecmult_r0), NM "the point converted is the ecmult result");
                __CPROVER_assert(PK_IS(pk.data, g_sg_r0), NM "pubkey holds the converted point, coordinates reduced mod p");
            } else __CPROVER_assert(g_sg_n == 0, NM "no conversion of a rejected result");
        }
        if (ret == 1) REACH("pubkey_tweak success");
        if (!sp_is0(xv) && !sp_lt(tv, sp_n())) REACH("pubkey_tweak tweak >= n");
        if (!sp_is0(xv) && sp_eq(tv, sp_n())) REACH("pubkey_tweak tweak == n");
#ifdef U_PUBKEY_TWEAK_ADD
        if (!sp_is0(xv) && tweak_ok && ret == 0) REACH("pubkey_tweak_add sum at infinity");
        if (ret == 1 && sp_is0(tv)) REACH("pubkey_tweak_add zero tweak accepted");
#else
        if (!sp_is0(xv) && sp_is0(tv)) REACH("pubkey_tweak_mul zero tweak");
#endif
    }
}
#endif

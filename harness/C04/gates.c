/* C04: failure cases and oracle usage of the key operations of src/secp256k1.c that contain a curve or scalar
 * multiplication.  The multiplication is an ASSUMED oracle with a ghost log (assumed.h).
 * Rule followed (audit 1): an obligation demands only what property C04 or include/secp256k1.h promises:
 *   - ret is 1 exactly outside the documented failure cases;
 *   - on FAILURE only ret and the documented output: "seckey ... unspecified value" + property "returns no usable
 *     key" => the buffer fails seckey_verify; "pubkey will be set to an invalid value" => the object is one that
 *     secp256k1_pubkey_load rejects; no call counts, no dummy operands, nothing about NULL-argument outputs;
 *   - on SUCCESS the object written is the oracle's answer to a question about the RIGHT operands, compared as
 *     values (mod p / mod n), operands of the commutative scalar product in either order, ng == NULL and
 *     *ng == 0 alike, calls identified as "the logged call", never by "exactly one call".
 * Opaque objects are decoded through the TU's own ge_from_bytes (spec.h views), never byte-wise.
 * Every pointer argument NULL-or-object, every byte content.  One entry per unit (-DU_<ENTRY>). */
#define LOG_SCALAR_MUL
#define LOG_ECMULT
#define LOG_ECMULT_GEN
#define LOG_GE_SET_GEJ
#include "assumed_C04.h"
#include "spec.h"
#include "src/secp256k1.c"
#include "post.h"
#define SPEC_VIEWS
#include "spec.h"

#define GEJ_EQ(a, b) (FE_EQ((a).x, (b).x) && FE_EQ((a).y, (b).y) && FE_EQ((a).z, (b).z) && (a).infinity == (b).infinity)
/* the Jacobian point handed to ecmult is the key with coordinates (xv, yv) mod p, z = 1, finite */
#define IS_POINT(gej, xv, yv) (sp_eq(sp_modp8(fval(&(gej).x)), xv) && sp_eq(sp_modp8(fval(&(gej).y)), yv) && sp_eq(sp_modp(fval(&(gej).z)), sp_u64(1)) && (gej).infinity == 0)
#define LOGS_RESET() do { g_mul_n = 0; g_ecmult_n = 0; g_gen_n = 0; g_sg_n = 0; } while (0)

#ifdef U_SECKEY_TWEAK_MUL
void h_seckey_tweak_mul(void) {
    secp256k1_context ctx;
    INPUT_ARR(unsigned char, key, 32); INPUT_ARR(unsigned char, tweak, 32); INPUT(_Bool, use_key); INPUT(_Bool, use_tweak); INPUT(size_t, k);
    unsigned char tweak0[32];
    int ret; sp kv = sp_be32(key), tv = sp_be32(tweak), ov;
    verif_ctx_init(&ctx); LOGS_RESET();
    __CPROVER_assume(k < 32);
    memcpy(tweak0, tweak, 32);
    ret = secp256k1_ec_seckey_tweak_mul(&ctx, use_key ? key : NULL, use_tweak ? tweak : NULL);
    ov = sp_be32(key);
    __CPROVER_assert(g_error == 0, "C04 seckey_tweak_mul: error callback never invoked");
    __CPROVER_assert(tweak[k] == tweak0[k], "C04 seckey_tweak_mul: tweak (const) is not modified");
    if (!use_key || !use_tweak) __CPROVER_assert(ret == 0 && g_illegal == 1, "C04 seckey_tweak_mul: NULL argument is illegal and returns 0");
    else {
        __CPROVER_assert(g_illegal == 0, "C04 seckey_tweak_mul: no illegal callback for non-NULL arguments");
        __CPROVER_assert(ret == (sp_seckey_valid(kv) && sp_seckey_valid(tv)), "C04 seckey_tweak_mul: returns 1 exactly when key valid and 0 < tweak < n");
        if (ret == 1) {
            __CPROVER_assert(g_mul_n >= 1, "C04 seckey_tweak_mul: success involves a scalar multiplication");
            __CPROVER_assert((sp_eq(sval(&g_mul_a0), kv) && sp_eq(sval(&g_mul_b0), tv)) || (sp_eq(sval(&g_mul_a0), tv) && sp_eq(sval(&g_mul_b0), kv)), "C04 seckey_tweak_mul: the product requested is key * tweak (either operand order)");
            __CPROVER_assert(sp_eq(ov, sval(&g_mul_r0)), "C04 seckey_tweak_mul: output is the product returned by the multiplier");
        }
        if (ret == 0) __CPROVER_assert(!sp_seckey_valid(ov), "C04 seckey_tweak_mul: on failure the buffer holds no usable key (it fails seckey_verify)");
        if (ret == 1) REACH("seckey_tweak_mul success");
        if (sp_seckey_valid(kv) && sp_is0(tv)) REACH("seckey_tweak_mul zero tweak");
        if (sp_seckey_valid(kv) && !sp_lt(tv, sp_n())) REACH("seckey_tweak_mul tweak >= n");
    }
    if (!use_key || !use_tweak) REACH("seckey_tweak_mul NULL argument");
}
#endif

#ifdef U_PUBKEY_CREATE
void h_pubkey_create(void) {
    secp256k1_context ctx;
    INPUT(secp256k1_pubkey, pk); INPUT_ARR(unsigned char, key, 32); INPUT(_Bool, use_pk); INPUT(_Bool, use_key); INPUT(int, built); INPUT(size_t, k);
    unsigned char key0[32];
    int ret, inv; sp kv = sp_be32(key), ox, oy;
    verif_ctx_init(&ctx); LOGS_RESET();
    ctx.ecmult_gen_ctx.built = built;     /* 0 is how secp256k1_context_static (and an unbuilt context) is recognised */
    __CPROVER_assume(k < 32);
    memcpy(key0, key, 32);
    ret = secp256k1_ec_pubkey_create(&ctx, use_pk ? &pk : NULL, use_key ? key : NULL);
    __CPROVER_assert(g_error == 0, "C04 pubkey_create: error callback never invoked");
    __CPROVER_assert(key[k] == key0[k], "C04 pubkey_create: secret key (const) is not modified");
    if (!use_pk || !use_key) __CPROVER_assert(ret == 0 && g_illegal == 1, "C04 pubkey_create: NULL argument is illegal and returns 0");
    else if (!built) __CPROVER_assert(ret == 0 && g_illegal == 1, "C04 pubkey_create: static/unbuilt context is illegal and returns 0");
    else {
        view_pk64(pk.data, &ox, &oy, &inv);
        __CPROVER_assert(g_illegal == 0, "C04 pubkey_create: no illegal callback for proper arguments");
        __CPROVER_assert(ret == sp_seckey_valid(kv), "C04 pubkey_create: returns 1 exactly for 0 < key < n");
        if (ret == 0) __CPROVER_assert(inv, "C04 pubkey_create: an invalid key yields no usable public key (the object is rejected by pubkey_load)");
        else {
            __CPROVER_assert(g_gen_n >= 1 && sp_eq(sval(&g_gen_a0), kv), "C04 pubkey_create: the generator is multiplied by the key");
            __CPROVER_assert(g_sg_n >= 1 && GEJ_EQ(g_sg_a0, g_gen_r0), "C04 pubkey_create: the point converted is the multiplication result");
            __CPROVER_assert(pk64_is(pk.data, &g_sg_r0.x, &g_sg_r0.y), "C04 pubkey_create: pubkey holds the converted point (coordinates mod p)");
        }
        if (ret == 1) REACH("pubkey_create success");
        if (ret == 0 && !sp_is0(kv)) REACH("pubkey_create key >= n");
    }
    if (use_pk && use_key && !built) REACH("pubkey_create static context");
    if (!use_pk) REACH("pubkey_create NULL pubkey");
}
#endif

#if defined(U_PUBKEY_TWEAK_ADD) || defined(U_PUBKEY_TWEAK_MUL)
#ifdef U_PUBKEY_TWEAK_ADD
#define FN secp256k1_ec_pubkey_tweak_add
#define NM "C04 pubkey_tweak_add: "
void h_pubkey_tweak_add(void) {
#else
#define FN secp256k1_ec_pubkey_tweak_mul
#define NM "C04 pubkey_tweak_mul: "
void h_pubkey_tweak_mul(void) {
#endif
    secp256k1_context ctx;
    INPUT(secp256k1_pubkey, pk); INPUT_ARR(unsigned char, tweak, 32); INPUT(_Bool, use_pk); INPUT(_Bool, use_tweak); INPUT(size_t, k);
    unsigned char tweak0[32];
    int ret, tweak_ok, in_inv, out_inv; sp xv, yv, ox, oy, tv = sp_be32(tweak);
    verif_ctx_init(&ctx); LOGS_RESET();
    __CPROVER_assume(k < 32);
    memcpy(tweak0, tweak, 32);
    view_pk64(pk.data, &xv, &yv, &in_inv);
#ifdef U_PUBKEY_TWEAK_ADD
    tweak_ok = sp_lt(tv, sp_n());
#else
    tweak_ok = sp_seckey_valid(tv);
#endif
    ret = FN(&ctx, use_pk ? &pk : NULL, use_tweak ? tweak : NULL);
    __CPROVER_assert(g_error == 0, NM "error callback never invoked");
    __CPROVER_assert(tweak[k] == tweak0[k], NM "tweak (const) is not modified");
    if (!use_pk || !use_tweak) __CPROVER_assert(ret == 0 && g_illegal == 1, NM "NULL argument is illegal and returns 0");
    else if (in_inv) { if (tweak_ok) __CPROVER_assert(ret == 0 && g_illegal == 1, NM "invalid pubkey object is illegal and returns 0"); else __CPROVER_assert(ret == 0, NM "invalid pubkey object and bad tweak return 0"); }
    else {
        view_pk64(pk.data, &ox, &oy, &out_inv);
        __CPROVER_assert(g_illegal == 0, NM "no illegal callback for a valid pubkey object");
        if (ret == 0) __CPROVER_assert(out_inv, NM "on failure the pubkey is set to an invalid value (rejected by pubkey_load)");
        if (!tweak_ok) __CPROVER_assert(ret == 0, NM "out-of-range tweak returns 0");
        else {
            __CPROVER_assert(g_ecmult_n >= 1 && IS_POINT(g_ecmult_a0, xv, yv), NM "the point multiplied is the public key");
#ifdef U_PUBKEY_TWEAK_ADD
            __CPROVER_assert(g_ecmult_has_na0 && sp_eq(sval(&g_ecmult_na0), sp_u64(1)) && (sp_is0(tv) ? (!g_ecmult_has_ng0 || sp_is0(sval(&g_ecmult_ng0))) : (g_ecmult_has_ng0 && sp_eq(sval(&g_ecmult_ng0), tv))), NM "ecmult computes 1*P + tweak*G");
            __CPROVER_assert(ret == !g_ecmult_r0.infinity, NM "fails exactly when the sum is the point at infinity");
#else
            __CPROVER_assert(g_ecmult_has_na0 && sp_eq(sval(&g_ecmult_na0), tv) && (!g_ecmult_has_ng0 || sp_is0(sval(&g_ecmult_ng0))), NM "ecmult computes tweak*P (+ 0*G)");
            __CPROVER_assert(ret == 1, NM "valid pubkey and 0 < tweak < n succeeds");
#endif
            if (ret == 1) {
                __CPROVER_assert(g_sg_n >= 1 && GEJ_EQ(g_sg_a0, g_ecmult_r0), NM "the point converted is the ecmult result");
                __CPROVER_assert(pk64_is(pk.data, &g_sg_r0.x, &g_sg_r0.y), NM "pubkey holds the converted point (coordinates mod p)");
            }
        }
        if (ret == 1) REACH("pubkey_tweak success");
        if (!sp_lt(tv, sp_n())) REACH("pubkey_tweak tweak >= n");
        if (sp_eq(tv, sp_n())) REACH("pubkey_tweak tweak == n");
#ifdef U_PUBKEY_TWEAK_ADD
        if (tweak_ok && ret == 0) REACH("pubkey_tweak_add sum at infinity");
        if (ret == 1 && sp_is0(tv)) REACH("pubkey_tweak_add zero tweak accepted");
#else
        if (sp_is0(tv)) REACH("pubkey_tweak_mul zero tweak");
#endif
    }
    if (use_pk && use_tweak && in_inv) REACH("pubkey_tweak invalid pubkey object");
    if (!use_pk || !use_tweak) REACH("pubkey_tweak NULL argument");
}
#endif

/* C04: secp256k1_ec_pubkey_combine for EVERY n (symbolic, <= LOOP_NMAX in the input model): per-element wiring without a bound.
 * Complements C04.pubkey_combine (gates, every n) and replaces the n <= 3 stand-in C04.pubkey_combine_small for the statement
 *   "every ins[k] enters the sum BY VALUE": on success, for the WATCHED index k (arbitrary) there was an addition whose point operand is
 *   exactly key k as the TU's own decoder (secp256k1_ge_from_bytes) yields it; at least one addition per entry; one accumulator thread
 *   (it starts at infinity, every addition continues from the result of the previous one); the point converted is the last sum.
 * secp256k1_gej_add_ge / secp256k1_ge_set_gej are oracles (frame + range + ghost log).  As in C04.pubkey_combine the range of the
 * ACCUMULATOR is not an oracle precondition (havocked by the loop contract); it is checked on the unwound loop of C04.pubkey_combine_small.
 * List shape without a quantifier: every entry is &key_a except two arbitrary positions j1, j2 holding NULL, &key_a or &key_b; the list is
 * the end-aligned slice of a fixed-size heap array, so an index >= n is out of bounds. */
#include "pre.h"
static inline int fe_in(const secp256k1_fe *a, int m) { return fe_mag(a, m); }
static inline int ge_ok(const secp256k1_ge *g) { return fe_in(&g->x, 4) && fe_in(&g->y, 3) && (g->infinity == 0 || g->infinity == 1); }
static inline int ge_ok1(const secp256k1_ge *g) { return fe_in(&g->x, 1) && fe_in(&g->y, 1) && (g->infinity == 0 || g->infinity == 1); }
static inline int gej_ok(const secp256k1_gej *g) { return fe_in(&g->x, 4) && fe_in(&g->y, 4) && fe_in(&g->z, 1) && (g->infinity == 0 || g->infinity == 1); }
#define FE_IS(x, y) ((x).n[0] == (y).n[0] && (x).n[1] == (y).n[1] && (x).n[2] == (y).n[2] && (x).n[3] == (y).n[3] && (x).n[4] == (y).n[4])
#define FE_IS_OLD(x, y) ((x).n[0] == __CPROVER_old((y).n[0]) && (x).n[1] == __CPROVER_old((y).n[1]) && (x).n[2] == __CPROVER_old((y).n[2]) && (x).n[3] == __CPROVER_old((y).n[3]) && (x).n[4] == __CPROVER_old((y).n[4]))
#define FE_OO(x, y) (__CPROVER_old((x).n[0]) == __CPROVER_old((y).n[0]) && __CPROVER_old((x).n[1]) == __CPROVER_old((y).n[1]) && __CPROVER_old((x).n[2]) == __CPROVER_old((y).n[2]) && \
                     __CPROVER_old((x).n[3]) == __CPROVER_old((y).n[3]) && __CPROVER_old((x).n[4]) == __CPROVER_old((y).n[4]))
#define GEJ_OO(g, h) (FE_OO((g).x, (h).x) && FE_OO((g).y, (h).y) && FE_OO((g).z, (h).z) && __CPROVER_old((g).infinity) == __CPROVER_old((h).infinity))
#define GEJ_IS(g, h) (FE_IS((g).x, (h).x) && FE_IS((g).y, (h).y) && FE_IS((g).z, (h).z) && (g).infinity == (h).infinity)
size_t verif_k_gi, verif_k_j1, verif_k_j2, verif_k_add_n; int verif_k_hit, verif_k_chain; secp256k1_ge verif_k_w; secp256k1_gej verif_k_cur;
static void secp256k1_gej_add_ge(secp256k1_gej *r, const secp256k1_gej *a, const secp256k1_ge *b)
__CPROVER_requires(__CPROVER_w_ok(r, sizeof(*r)) && __CPROVER_r_ok(a, sizeof(*a)) && __CPROVER_r_ok(b, sizeof(*b)) && ge_ok(b))
__CPROVER_assigns(*r, verif_k_add_n, verif_k_hit, verif_k_chain, verif_k_cur)
__CPROVER_ensures(gej_ok(r) && verif_k_add_n == __CPROVER_old(verif_k_add_n) + 1 && GEJ_IS(verif_k_cur, *r))
__CPROVER_ensures(verif_k_chain == (__CPROVER_old(verif_k_chain) && GEJ_OO(verif_k_cur, *a)))
__CPROVER_ensures(verif_k_hit == (__CPROVER_old(verif_k_hit) || (FE_IS_OLD(verif_k_w.x, b->x) && FE_IS_OLD(verif_k_w.y, b->y) && verif_k_w.infinity == __CPROVER_old(b->infinity))))
;
int g_sg_n, g_sg_from_cur;
static void secp256k1_ge_set_gej(secp256k1_ge *r, secp256k1_gej *a)
__CPROVER_requires(__CPROVER_w_ok(r, sizeof(*r)) && __CPROVER_rw_ok(a, sizeof(*a)))
__CPROVER_assigns(*r, *a, g_sg_n, g_sg_from_cur)
__CPROVER_ensures(ge_ok1(r) && r->infinity == __CPROVER_old(a->infinity) && g_sg_n == __CPROVER_old(g_sg_n) + 1)
__CPROVER_ensures(g_sg_from_cur == (FE_IS_OLD(verif_k_cur.x, a->x) && FE_IS_OLD(verif_k_cur.y, a->y) && FE_IS_OLD(verif_k_cur.z, a->z) && verif_k_cur.infinity == __CPROVER_old(a->infinity)))
;
#include "src/secp256k1.c"
#include "post.h"
#ifndef LOOP_NMAX
#define LOOP_NMAX 256   /* cap of the INPUT MODEL only (cbmc's array_set needs a fixed-size object); the loop proof does not depend on it */
#endif
void h_combine_loop(void) {
    secp256k1_context ctx;
    INPUT(secp256k1_pubkey, out); INPUT(size_t, n); INPUT(size_t, gi);
    INPUT(secp256k1_pubkey, key_a); INPUT(secp256k1_pubkey, key_b); INPUT(size_t, j1); INPUT(size_t, j2); INPUT(unsigned char, sel1); INPUT(unsigned char, sel2);
    const secp256k1_pubkey **ins, **base; const secp256k1_pubkey *at_gi = NULL; int ret, all_nonnull;
    verif_ctx_init(&ctx);
    __CPROVER_assume(n <= LOOP_NMAX);
    base = malloc(LOOP_NMAX * sizeof(*base));
    __CPROVER_assume(base != NULL);
    { const secp256k1_pubkey *fill = &key_a; __CPROVER_array_set(base, fill); }
    ins = base + (LOOP_NMAX - n);
    if (j1 < n) ins[j1] = sel1 == 0 ? NULL : (sel1 == 1 ? &key_a : &key_b);
    if (j2 < n) ins[j2] = sel2 == 0 ? NULL : (sel2 == 1 ? &key_a : &key_b);
    if (gi < n) at_gi = ins[gi];
    all_nonnull = (j1 >= n || ins[j1] != NULL) && (j2 >= n || ins[j2] != NULL);
    verif_k_gi = gi; verif_k_j1 = j1; verif_k_j2 = j2; verif_k_add_n = 0; verif_k_hit = 0; verif_k_chain = 1; g_sg_n = 0; g_sg_from_cur = 0;
    secp256k1_ge_from_bytes(&verif_k_w, at_gi != NULL ? at_gi->data : key_a.data);     /* the watched key as the TU itself decodes it */
    secp256k1_gej_set_infinity(&verif_k_cur); verif_k_cur.infinity = 1;                /* the thread starts at the point at infinity */

    ret = secp256k1_ec_pubkey_combine(&ctx, &out, ins, n);

    __CPROVER_assert(g_error == 0, "C04 combine loop: error callback never invoked");
    __CPROVER_assert(ret == 0 || ret == 1, "C04 combine loop: returns 0 or 1, for every n");
    if (n == 0) __CPROVER_assert(ret == 0 && g_illegal == 1, "C04 combine loop: n = 0 is illegal and returns 0");
    if (gi < n && at_gi == NULL) __CPROVER_assert(ret == 0 && g_illegal >= 1, "C04 combine loop: a NULL entry at ANY index is illegal and returns 0");
    if (ret == 1) {
        __CPROVER_assert(n >= 1 && verif_k_add_n >= n, "C04 combine loop: success means at least one addition per list entry");
        if (gi < n) __CPROVER_assert(verif_k_hit, "C04 combine loop: the key at ANY index entered the sum by value (an addition has exactly that key, as decoded, as its operand)");
        __CPROVER_assert(verif_k_chain, "C04 combine loop: one accumulator: it starts at infinity and every addition continues from the previous sum");
        __CPROVER_assert(!verif_k_cur.infinity, "C04 combine loop: success means the final sum is not the point at infinity");
        __CPROVER_assert(g_sg_n == 1 && g_sg_from_cur, "C04 combine loop: the point converted for the output is the final sum");
    }
    if (all_nonnull && n >= 1 && verif_k_chain && verif_k_add_n == n && verif_k_cur.infinity) __CPROVER_assert(ret == 0, "C04 combine loop: a final sum at infinity returns 0");
    if (ret == 1 && n > 150 && gi == 99 && at_gi == &key_b && j1 == 99) REACH("combine loop success on a long list, watched key is the odd one");
    if (ret == 1 && n == 1) REACH("combine loop single key");
    if (ret == 0 && all_nonnull && n > 2 && g_illegal == 0) REACH("combine loop sum at infinity");
    if (n > 100 && gi == 77 && at_gi == NULL) REACH("combine loop NULL entry in the middle");
}

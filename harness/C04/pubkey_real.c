/* C04: public-key operations that contain no curve multiplication - REAL code only (ge_from_bytes,
 * fe_negate, fe_normalize*, fe_is_odd, fe_get_b32, ge_to_bytes, memcmp_var), every byte content of the
 * opaque objects, every NULL/non-NULL combination.  One entry per unit (-DU_<ENTRY>).
 *
 * Opaque objects are decoded through the TU's own secp256k1_ge_from_bytes (spec.h views): coordinates as
 * integers mod p; an object is INVALID iff its stored x is zero (what secp256k1_pubkey_load rejects with the
 * illegal callback).  Nothing is asserted about bytes of an object.
 *
 *   h_pubkey_negate        x' = x, y' = -y (mod p); invalid => ret 0, illegal, object stays unusable
 *   h_pubkey_cmp           sign(ret) = sign(memcmp(enc33(pk0), enc33(pk1))), enc33(NULL/invalid) = 0^33
 *   h_xonly_from_pubkey    parity = odd(y); x kept; y' = y if even, p - y if odd; input untouched */
#include "pre.h"
#include "spec.h"
#include "src/secp256k1.c"
#include "post.h"
#define SPEC_VIEWS
#include "spec.h"

#ifdef U_PUBKEY_NEGATE
void h_pubkey_negate(void) {
    secp256k1_context ctx;
    INPUT(secp256k1_pubkey, pk); INPUT(_Bool, use_pk);
    int ret, in_inv, out_inv; sp xv, yv, ox, oy;
    verif_ctx_init(&ctx);
    view_pk64(pk.data, &xv, &yv, &in_inv);
    ret = secp256k1_ec_pubkey_negate(&ctx, use_pk ? &pk : NULL);
    view_pk64(pk.data, &ox, &oy, &out_inv);
    __CPROVER_assert(g_error == 0, "C04 pubkey_negate: error callback never invoked");
    if (!use_pk) __CPROVER_assert(ret == 0 && g_illegal == 1, "C04 pubkey_negate: NULL pubkey is illegal and returns 0");
    else if (in_inv) {
        __CPROVER_assert(ret == 0 && g_illegal == 1, "C04 pubkey_negate: invalid pubkey object is illegal and returns 0");
        __CPROVER_assert(out_inv, "C04 pubkey_negate: failure returns no usable key (the object is rejected by pubkey_load)");
    } else {
        __CPROVER_assert(ret == 1 && g_illegal == 0, "C04 pubkey_negate: returns 1 for every valid pubkey object");
        __CPROVER_assert(sp_eq(ox, xv), "C04 pubkey_negate: x coordinate unchanged (mod p)");
        __CPROVER_assert(sp_eq(oy, sp_negp(yv)), "C04 pubkey_negate: y' = -y mod p");
    }
    if (use_pk && ret == 1) REACH("pubkey_negate valid");
    if (use_pk && ret == 1 && sp_is0(yv)) REACH("pubkey_negate y = 0 mod p");
    if (use_pk && ret == 0) REACH("pubkey_negate invalid object");
    if (!use_pk) REACH("pubkey_negate NULL");
}
#endif

#ifdef U_PUBKEY_CMP
void h_pubkey_cmp(void) {
    secp256k1_context ctx;
    INPUT(secp256k1_pubkey, pk0); INPUT(secp256k1_pubkey, pk1); INPUT(_Bool, use_pk0); INPUT(_Bool, use_pk1); INPUT(size_t, k);
    secp256k1_pubkey a0 = pk0, a1 = pk1;
    int ret, tag0 = 0, tag1 = 0, lt, gt, bad; sp x0 = sp_u64(0), x1 = sp_u64(0);
    verif_ctx_init(&ctx);
    __CPROVER_assume(k < 64);
    /* enc33(pk) = (0x02 | odd(y mod p)) || be32(x mod p); 0^33 for NULL / invalid objects */
    { sp vx, vy; int inv;
      view_pk64(pk0.data, &vx, &vy, &inv); if (use_pk0 && !inv) { tag0 = 2 | sp_odd(vy); x0 = vx; }
      view_pk64(pk1.data, &vx, &vy, &inv); if (use_pk1 && !inv) { tag1 = 2 | sp_odd(vy); x1 = vx; } }
    bad = (tag0 == 0) + (tag1 == 0);
    /* lexicographic order of the 33 bytes = order of (tag, x as big-endian integer) */
    lt = tag0 < tag1 || (tag0 == tag1 && sp_lt(x0, x1));
    gt = tag0 > tag1 || (tag0 == tag1 && sp_lt(x1, x0));
    ret = secp256k1_ec_pubkey_cmp(&ctx, use_pk0 ? &pk0 : NULL, use_pk1 ? &pk1 : NULL);
    __CPROVER_assert(g_error == 0, "C04 pubkey_cmp: error callback never invoked");
    __CPROVER_assert((ret < 0) == lt && (ret > 0) == gt, "C04 pubkey_cmp: sign equals lexicographic order of the compressed encodings (NULL/invalid = 33 zero bytes)");
    __CPROVER_assert((g_illegal != 0) == (bad != 0), "C04 pubkey_cmp: illegal callback exactly when a key is NULL or invalid");
    __CPROVER_assert(pk0.data[k] == a0.data[k] && pk1.data[k] == a1.data[k], "C04 pubkey_cmp: inputs (const) are not modified");
    if (bad == 0 && ret == 0) REACH("pubkey_cmp equal valid keys");
    if (bad == 0 && ret < 0 && tag0 == tag1) REACH("pubkey_cmp decided by x");
    if (bad == 0 && ret > 0 && tag0 != tag1) REACH("pubkey_cmp decided by parity byte");
    if (bad == 1 && tag0 == 0 && ret < 0) REACH("pubkey_cmp invalid key sorts first");
    if (bad == 2) REACH("pubkey_cmp two invalid keys");
}
#endif

#ifdef U_XONLY_FROM_PUBKEY
void h_xonly_from_pubkey(void) {
    secp256k1_context ctx;
    INPUT(secp256k1_pubkey, pk); INPUT(secp256k1_xonly_pubkey, xo); INPUT(int, par);
    INPUT(_Bool, use_pk); INPUT(_Bool, use_xo); INPUT(_Bool, use_par); INPUT(size_t, k);
    secp256k1_pubkey pk_in = pk;
    int ret, in_inv, out_inv, canon; sp xv, yv, ox, oy;
    verif_ctx_init(&ctx);
    __CPROVER_assume(k < 64);
    view_pk64(pk.data, &xv, &yv, &in_inv);
    canon = sp_lt(view_pk64_rawy(pk.data), sp_p());      /* the library only stores y < p; the parity read by the code is that of the stored y */
    ret = secp256k1_xonly_pubkey_from_pubkey(&ctx, use_xo ? &xo : NULL, use_par ? &par : NULL, use_pk ? &pk : NULL);
    __CPROVER_assert(g_error == 0, "C04 xonly_from_pubkey: error callback never invoked");
    __CPROVER_assert(pk.data[k] == pk_in.data[k], "C04 xonly_from_pubkey: input pubkey (const) is not modified");
    if (!use_pk || !use_xo) __CPROVER_assert(ret == 0 && g_illegal == 1, "C04 xonly_from_pubkey: NULL argument is illegal and returns 0");
    else if (in_inv) __CPROVER_assert(ret == 0 && g_illegal == 1, "C04 xonly_from_pubkey: invalid pubkey object is illegal and returns 0");
    else {
        view_pk64(xo.data, &ox, &oy, &out_inv);
        __CPROVER_assert(ret == 1 && g_illegal == 0, "C04 xonly_from_pubkey: returns 1 for every valid pubkey object");
        __CPROVER_assert(sp_eq(ox, xv), "C04 xonly_from_pubkey: x coordinate kept");
        if (canon) {
            __CPROVER_assert(sp_eq(oy, sp_odd(yv) ? sp_sub(sp_p(), yv) : yv), "C04 xonly_from_pubkey: y negated exactly when odd, so the stored y is even");
            __CPROVER_assert(!sp_odd(oy), "C04 xonly_from_pubkey: stored y is even");
            if (use_par) __CPROVER_assert(par == sp_odd(yv), "C04 xonly_from_pubkey: pk_parity = odd(y)");
        }
    }
    if (ret == 1 && use_par && par == 1) REACH("xonly_from_pubkey odd y");
    if (ret == 1 && use_par && par == 0 && canon) REACH("xonly_from_pubkey even y");
    if (ret == 1 && !use_par) REACH("xonly_from_pubkey parity pointer NULL");
    if (use_pk && use_xo && in_inv) REACH("xonly_from_pubkey invalid object");
}
#endif

/* C04: sorting.
 *   h_sort_api    secp256k1_ec_pubkey_sort for EVERY n_pubkeys (symbolic, loop contract on the NULL scan,
 *                 engine-supplied): any NULL entry => illegal, ret 0;
 *                 otherwise (n >= 2) a secp256k1_hsort call on (pubkeys, n_pubkeys, sizeof(pointer),
 *                 secp256k1_ec_pubkey_sort_cmp, ctx) - ALL n_pubkeys entries are handed to the sorter.
 *                 hsort is replaced by frame + argument log (assumed_C04.h) and listed as ASSUMED: that it sorts is
 *                 checked only for count <= 5 (h_hsort_body) plus its call structure for every count (h_hsort_struct).
 *   h_sort_cmp    the comparator handed to hsort dereferences both slots and forwards to
 *                 secp256k1_ec_pubkey_cmp with the context passed as cmp_data (real code, ec_pubkey_cmp
 *                 itself is C04.pubkey_cmp).
 *   h_hsort_body  the REAL secp256k1_hsort / heap_down / heap_swap on count <= HS_MAX elements of stride 8 with
 *                 a total order: output sorted (adjacent pair at a ghost index) and a permutation of the
 *                 input (multiplicity of a ghost value preserved).  BOUNDED stand-in: count <= HS_MAX
 *                 (5: 70-95 s; cost grows ~8x per element, HS_MAX=6 did not finish in 30 min).
 *   h_hsort_struct  EVERY count (symbolic, engine-supplied loop contracts on both loops of the real secp256k1_hsort), heap_down / heap_swap replaced by structural contracts: the
 *                 heap is built over all count elements and count-1 maxima are extracted, the heap shrinking by
 *                 one each time.  Together with h_hsort_body this is what "sorts for every length" is reduced to;
 *                 the missing link (heap_down restores the heap property for every heap size) is NOT proved. */
#include "assumed_C04.h"
#include "spec.h"
#ifdef U_SORT_CMP
/* ec_pubkey_cmp replaced by frame + argument/result log: this unit is only about the forwarding */
const secp256k1_context *g_cmp_ctx; const secp256k1_pubkey *g_cmp_a, *g_cmp_b; int g_cmp_n, g_cmp_ret;
int secp256k1_ec_pubkey_cmp(const secp256k1_context *ctx, const secp256k1_pubkey *pubkey0, const secp256k1_pubkey *pubkey1)
__CPROVER_assigns(g_cmp_ctx, g_cmp_a, g_cmp_b, g_cmp_n, g_cmp_ret)
__CPROVER_ensures(g_cmp_n == __CPROVER_old(g_cmp_n) + 1 && g_cmp_ctx == ctx && g_cmp_a == pubkey0 && g_cmp_b == pubkey1 && g_cmp_ret == __CPROVER_return_value)
;
#endif
#ifdef U_HSORT_STRUCT
/* Structural contracts for the two helpers of secp256k1_hsort.  The PRECONDITION of call number k states which
 * arguments that call must have (as a function of the ORIGINAL count held in a harness ghost), so "hsort builds
 * the heap over all count elements and then extracts count-1 maxima, shrinking the heap by one each time"
 * becomes a set of requires-obligations on the real loops, for every count.  What heap_down / heap_swap DO is
 * checked on the real bodies in C04.hsort_body (bounded). */
size_t verif_c04_hd_n, verif_c04_sw_n;                  /* calls so far (named by the loop invariants in hsort) */
size_t g_hs_count, g_hs_size; const void *g_hs_ptr, *g_hs_data; int (*g_hs_cmp)(const void *, const void *, void *);   /* set by the harness only */
static void secp256k1_heap_down(unsigned char *arr, size_t i, size_t heap_size, size_t stride, int (*cmp)(const void *, const void *, void *), void *cmp_data)
__CPROVER_requires((const void *)arr == g_hs_ptr && stride == g_hs_size && cmp == g_hs_cmp && (const void *)cmp_data == g_hs_data)
__CPROVER_requires(verif_c04_hd_n < g_hs_count / 2
    ? (i == g_hs_count / 2 - 1 - verif_c04_hd_n && heap_size == g_hs_count)                           /* heap construction: i = count/2-1 .. 0 over the whole array */
    : (i == 0 && heap_size == g_hs_count - 1 - (verif_c04_hd_n - g_hs_count / 2) && heap_size >= 1))   /* extraction k: repair the heap of the first count-1-k elements */
__CPROVER_assigns(__CPROVER_object_whole(arr), verif_c04_hd_n)
__CPROVER_ensures(verif_c04_hd_n == __CPROVER_old(verif_c04_hd_n) + 1)
;
static void secp256k1_heap_swap(unsigned char *arr, size_t i, size_t j, size_t stride)
__CPROVER_requires((const void *)arr == g_hs_ptr && stride == g_hs_size && i == 0 && j == g_hs_count - 1 - verif_c04_sw_n && j >= 1 && j < g_hs_count)
__CPROVER_requires(verif_c04_hd_n == g_hs_count / 2 + verif_c04_sw_n)                                   /* swaps only after the heap is built, alternating with repairs */
__CPROVER_assigns(__CPROVER_object_whole(arr), verif_c04_sw_n)
__CPROVER_ensures(verif_c04_sw_n == __CPROVER_old(verif_c04_sw_n) + 1)
;
#endif
#include "src/secp256k1.c"
#include "post.h"

#ifdef U_SORT_API
void h_sort_api(void) {
    secp256k1_context ctx;
    INPUT(size_t, n); INPUT(_Bool, use_arr); INPUT(size_t, gi);
    const secp256k1_pubkey **arr; const secp256k1_pubkey *at_gi = NULL;
    int ret;
    verif_ctx_init(&ctx);
    __CPROVER_assume(n <= 100000);
    arr = malloc(n ? n * sizeof(*arr) : 1);     /* n pointers, each NULL or not: content unconstrained */
    __CPROVER_assume(arr != NULL);
    verif_c04_gi = gi; g_hsort_n = 0;
    if (gi < n) at_gi = arr[gi];
    ret = secp256k1_ec_pubkey_sort(&ctx, use_arr ? arr : NULL, n);
    __CPROVER_assert(g_error == 0, "C04 sort_api: error callback never invoked");
    __CPROVER_assert(ret == 0 || ret == 1, "C04 sort_api: returns 0 or 1");
    if (!use_arr) __CPROVER_assert(ret == 0 && g_illegal == 1, "C04 sort_api: NULL array is illegal and returns 0");
    else {
        if (gi < n && at_gi == NULL) __CPROVER_assert(ret == 0 && g_illegal == 1, "C04 sort_api: a NULL entry at ANY index is illegal and returns 0");
        if (ret == 0) __CPROVER_assert(g_illegal >= 1, "C04 sort_api: returns 0 only through the illegal callback");
        if (ret == 1) {
            __CPROVER_assert(g_illegal == 0, "C04 sort_api: success means no callback");
            if (n >= 2) __CPROVER_assert(g_hsort_n >= 1, "C04 sort_api: a list of two or more keys is handed to the sorter");
            if (g_hsort_n >= 1) {
                __CPROVER_assert(g_hsort_ptr == (const void *)arr && g_hsort_count == n, "C04 sort_api: the sorter receives the whole array: all n_pubkeys entries");
                __CPROVER_assert(g_hsort_size == sizeof(const secp256k1_pubkey *), "C04 sort_api: element size is one pointer");
                __CPROVER_assert(g_hsort_cmp == secp256k1_ec_pubkey_sort_cmp && g_hsort_data == (const void *)&ctx, "C04 sort_api: comparator is ec_pubkey_sort_cmp with the context as its data");
            }
        }
        if (ret == 1 && n > 50000 && gi == 49999) REACH("sort_api long list");
        if (ret == 1 && n == 0) REACH("sort_api empty list");
        if (ret == 0 && n > 41 && gi == 41) REACH("sort_api NULL entry beyond index 40");
    }
}
#endif

#ifdef U_SORT_CMP
void h_sort_cmp(void) {
    secp256k1_context ctx;
    INPUT(secp256k1_pubkey, pk0); INPUT(secp256k1_pubkey, pk1); INPUT(_Bool, null0); INPUT(_Bool, null1);
    const secp256k1_pubkey *slot[2]; int ret;
    verif_ctx_init(&ctx); g_cmp_n = 0;
    slot[0] = null0 ? NULL : &pk0; slot[1] = null1 ? NULL : &pk1;
    ret = secp256k1_ec_pubkey_sort_cmp(&slot[0], &slot[1], &ctx);
    __CPROVER_assert(g_cmp_n >= 1 && g_cmp_ctx == &ctx && g_cmp_a == slot[0] && g_cmp_b == slot[1], "C04 sort_cmp: compares the two keys the slots point to, in order, with the context from cmp_data");
    __CPROVER_assert(ret == g_cmp_ret, "C04 sort_cmp: returns ec_pubkey_cmp's result unchanged");
    __CPROVER_assert(g_illegal == 0 && g_error == 0, "C04 sort_cmp: no callback of its own");
    REACH("sort_cmp end");
}
#endif
#if defined(U_HSORT_BODY)
static int cmp_u64(const void *a, const void *b, void *data) {
    uint64_t x, y; (void)data;
    memcpy(&x, a, 8); memcpy(&y, b, 8);
    return x < y ? -1 : (x > y ? 1 : 0);
}
void h_hsort_body(void) {
    INPUT_ARR(uint64_t, a, 6); INPUT(size_t, n); INPUT(size_t, gi); INPUT(uint64_t, gv);
    uint64_t a0[6]; size_t i; int c0 = 0, c1 = 0;
    __CPROVER_assume(n <= HS_MAX);
    memcpy(a0, a, sizeof(a));
    /* one call per concrete count: keeps the heap indices concrete for the symbolic executor */
    switch (n) {
#define RUN(N) case N: secp256k1_hsort(a, N, sizeof(a[0]), cmp_u64, NULL); break;
    RUN(0) RUN(1) RUN(2) RUN(3) RUN(4) RUN(5)
#if HS_MAX >= 6
    RUN(6)
#endif
    }
    if (gi < 5 && gi + 1 < n) __CPROVER_assert(a[gi] <= a[gi + 1], "C04 hsort_body: output is sorted (every adjacent pair in order)");
    for (i = 0; i < 6; i++) { if (i < n && a0[i] == gv) c0++; if (i < n && a[i] == gv) c1++; }
    __CPROVER_assert(c0 == c1, "C04 hsort_body: output is a permutation of the input (multiplicity of every value preserved)");
    for (i = 0; i < 6; i++) if (i >= n) __CPROVER_assert(a[i] == a0[i], "C04 hsort_body: elements beyond count are untouched");
    if (n == HS_MAX && a0[0] > a0[HS_MAX - 1] && a0[2] == a0[3]) REACH("hsort_body longest list, with duplicates");
    if (n == 0) REACH("hsort_body empty");
}
#endif

#ifdef U_HSORT_STRUCT
static int cmp_any(const void *a, const void *b, void *data) { (void)a; (void)b; (void)data; return 0; }
void h_hsort_struct(void) {
    INPUT(size_t, n);
    uint64_t *a; int user_data;
    __CPROVER_assume(n <= 100000);
    a = malloc(n ? n * sizeof(*a) : 1);
    __CPROVER_assume(a != NULL);
    verif_c04_hd_n = 0; verif_c04_sw_n = 0;
    g_hs_count = n; g_hs_size = sizeof(*a); g_hs_ptr = a; g_hs_cmp = cmp_any; g_hs_data = &user_data;
    secp256k1_hsort(a, n, sizeof(*a), cmp_any, &user_data);
    __CPROVER_assert(verif_c04_hd_n >= n / 2 + (n >= 1 ? n - 1 : 0), "C04 hsort_struct: at least count/2 heap-construction steps plus one repair per extraction, for every count");
    __CPROVER_assert(verif_c04_sw_n >= (n >= 1 ? n - 1 : 0), "C04 hsort_struct: at least count-1 extractions: every element position is reached, for every count");
    if (n > 41) REACH("hsort_struct more than 41 elements");
    if (n == 0) REACH("hsort_struct empty");
    if (n == 1) REACH("hsort_struct single element");
}
#endif


/* C04: secp256k1_ec_pubkey_combine.  secp256k1_gej_add_ge (group law) and secp256k1_ge_set_gej are
 * ASSUMED oracles with ghost logs; loading, NULL checks, the infinity gate and saving are real code.
 * Rule followed (audit 1): only what property C04 / include/secp256k1.h promise; a failing combination
 * "returns no usable key" (the output object is rejected by pubkey_load); addition counts as inequalities;
 * the addition of a given key is identified by the VALUE of its operand; objects decoded through the TU's
 * own ge_from_bytes (spec.h views).
 *   h_pubkey_combine        EVERY n (symbolic, engine-supplied loop contract): n = 0 / NULL array / NULL output
 *                           => illegal, ret 0; NULL entry at any index => ret 0; success => at least n additions
 *                           were made, the last sum is finite, the output is its affine conversion; last sum
 *                           infinite => ret 0 and no usable key.
 *   h_pubkey_combine_small  n <= 3 fully unwound (BOUNDED stand-in), full oracle precondition: every key of the
 *                           list is added (an addition whose operand is that key as loaded), the point converted
 *                           is the last sum, no callback for valid keys. */
#ifdef U_PUBKEY_COMBINE
/* Loop-contract unit: LOCAL oracle contracts.  They differ from assumed.h / assumed_C04.h only in that the
 * range of the ACCUMULATOR Qj is not a precondition: Qj is havocked by the loop contract and its range is the
 * oracle's own postcondition carried round the loop (a limb-level invariant would tie the /repo hook to one
 * field representation).  The full preconditions are checked on the unwound loop in C04.pubkey_combine_small. */
#include "pre.h"
static inline int fe_in(const secp256k1_fe *a, int m) { return fe_mag(a, m); }
static inline int ge_ok(const secp256k1_ge *g) { return fe_in(&g->x, 4) && fe_in(&g->y, 3) && (g->infinity == 0 || g->infinity == 1); }
static inline int ge_ok1(const secp256k1_ge *g) { return fe_in(&g->x, 1) && fe_in(&g->y, 1) && (g->infinity == 0 || g->infinity == 1); }
static inline int gej_ok(const secp256k1_gej *g) { return fe_in(&g->x, 4) && fe_in(&g->y, 4) && fe_in(&g->z, 1) && (g->infinity == 0 || g->infinity == 1); }
size_t verif_c04_gi, verif_c04_add_n; int verif_c04_add_last_inf;
static void secp256k1_gej_add_ge(secp256k1_gej *r, const secp256k1_gej *a, const secp256k1_ge *b)
__CPROVER_requires(__CPROVER_w_ok(r, sizeof(*r)) && __CPROVER_r_ok(a, sizeof(*a)) && __CPROVER_r_ok(b, sizeof(*b)) && ge_ok(b))
__CPROVER_assigns(*r, verif_c04_add_n, verif_c04_add_last_inf)
__CPROVER_ensures(gej_ok(r) && verif_c04_add_n == __CPROVER_old(verif_c04_add_n) + 1 && verif_c04_add_last_inf == r->infinity)
;
int g_sg_n; secp256k1_ge g_sg_r0; int g_sg_ainf0;
static void secp256k1_ge_set_gej(secp256k1_ge *r, secp256k1_gej *a)
__CPROVER_requires(__CPROVER_w_ok(r, sizeof(*r)) && __CPROVER_rw_ok(a, sizeof(*a)))
__CPROVER_assigns(*r, *a, g_sg_n, g_sg_r0, g_sg_ainf0)
__CPROVER_ensures(ge_ok1(r) && r->infinity == __CPROVER_old(a->infinity) && g_sg_n == __CPROVER_old(g_sg_n) + 1)
__CPROVER_ensures(g_sg_ainf0 == __CPROVER_old(a->infinity) && g_sg_r0.x.n[0] == r->x.n[0] && g_sg_r0.x.n[1] == r->x.n[1] && g_sg_r0.x.n[2] == r->x.n[2] && g_sg_r0.x.n[3] == r->x.n[3] && g_sg_r0.x.n[4] == r->x.n[4]
                  && g_sg_r0.y.n[0] == r->y.n[0] && g_sg_r0.y.n[1] == r->y.n[1] && g_sg_r0.y.n[2] == r->y.n[2] && g_sg_r0.y.n[3] == r->y.n[3] && g_sg_r0.y.n[4] == r->y.n[4])
;
#else
#define LOG_GE_SET_GEJ
#include "assumed_C04.h"
#endif
#include "spec.h"
#include "src/secp256k1.c"
#include "post.h"
#define SPEC_VIEWS
#include "spec.h"


#ifdef U_PUBKEY_COMBINE
/* The loop's assigns clause names "whatever the illegal callback's data points to": this harness counts
 * illegal callbacks there instead of in post.h's static counter. */
static void cb_illegal_d(const char *s, void *d) { (void)s; (*(unsigned *)d)++; }
void h_pubkey_combine(void) {
    secp256k1_context ctx;
    INPUT(secp256k1_pubkey, out); INPUT(size_t, n); INPUT(_Bool, use_out); INPUT(_Bool, use_ins); INPUT(size_t, gi);
    INPUT(secp256k1_pubkey, key_a); INPUT(secp256k1_pubkey, key_b); INPUT(size_t, j1); INPUT(size_t, j2); INPUT(unsigned char, sel1); INPUT(unsigned char, sel2);
    const secp256k1_pubkey **ins; const secp256k1_pubkey *at_gi = NULL;
    int ret, oinv; unsigned n_illegal = 0; sp ox, oy;
    verif_ctx_init(&ctx);
    ctx.illegal_callback.fn = cb_illegal_d; ctx.illegal_callback.data = &n_illegal;
    __CPROVER_assume(n <= 100000);
    ins = malloc(n ? n * sizeof(*ins) : 1);
    __CPROVER_assume(ins != NULL);
    /* list shape: every entry is &key_a except at two arbitrary positions j1, j2, which hold NULL, &key_a or
     * &key_b; key_a and key_b are arbitrary 64-byte objects (so duplicates and invalid objects occur).  This is
     * a representation invariant (entries are NULL or valid pointers) expressed without a quantifier. */
    __CPROVER_array_set(ins, &key_a);
    if (j1 < n) ins[j1] = sel1 == 0 ? NULL : (sel1 == 1 ? &key_a : &key_b);
    if (j2 < n) ins[j2] = sel2 == 0 ? NULL : (sel2 == 1 ? &key_a : &key_b);
    if (gi < n) at_gi = ins[gi];
    verif_c04_gi = gi; verif_c04_add_n = 0; verif_c04_add_last_inf = 0; g_sg_n = 0;
    ret = secp256k1_ec_pubkey_combine(&ctx, use_out ? &out : NULL, use_ins ? ins : NULL, n);
    __CPROVER_assert(g_error == 0, "C04 pubkey_combine: error callback never invoked");
    __CPROVER_assert(ret == 0 || ret == 1, "C04 pubkey_combine: returns 0 or 1");
    if (!use_out) __CPROVER_assert(ret == 0 && n_illegal == 1, "C04 pubkey_combine: NULL output is illegal and returns 0");
    else {
        view_pk64(out.data, &ox, &oy, &oinv);
        if (n == 0) __CPROVER_assert(ret == 0 && n_illegal == 1, "C04 pubkey_combine: n = 0 is illegal and returns 0");
        if (!use_ins) __CPROVER_assert(ret == 0 && n_illegal == 1, "C04 pubkey_combine: NULL array is illegal and returns 0");
        if (use_ins && gi < n && at_gi == NULL) __CPROVER_assert(ret == 0, "C04 pubkey_combine: a NULL entry at ANY index returns 0");
        if (ret == 1) {
            __CPROVER_assert(n >= 1 && verif_c04_add_n >= n, "C04 pubkey_combine: success means all n keys were added (at least one addition per list entry)");
            __CPROVER_assert(!verif_c04_add_last_inf, "C04 pubkey_combine: success means the final sum is not the point at infinity");
            __CPROVER_assert(g_sg_n >= 1 && !g_sg_ainf0 && pk64_is(out.data, &g_sg_r0.x, &g_sg_r0.y), "C04 pubkey_combine: output holds the affine conversion of a finite point (coordinates mod p)");
        }
        if (use_ins && n >= 1 && verif_c04_add_n >= n && verif_c04_add_last_inf) {
            __CPROVER_assert(ret == 0, "C04 pubkey_combine: a sum at infinity returns 0");
            __CPROVER_assert(oinv, "C04 pubkey_combine: a sum at infinity returns no usable key (the output is rejected by pubkey_load)");
        }
        if (ret == 1 && n > 150) REACH("pubkey_combine success on a long list");
        if (ret == 1 && n == 1) REACH("pubkey_combine single key");
        if (use_ins && n > 2 && verif_c04_add_n >= n && verif_c04_add_last_inf) REACH("pubkey_combine sum at infinity");
        if (use_ins && n > 100 && gi == 77 && at_gi == NULL) REACH("pubkey_combine NULL entry in the middle");
    }
}
#endif

#ifdef U_PUBKEY_COMBINE_SMALL
void h_pubkey_combine_small(void) {
    secp256k1_context ctx;
    INPUT(secp256k1_pubkey, out); INPUT(size_t, n); INPUT(size_t, w);
    INPUT(secp256k1_pubkey, key0); INPUT(secp256k1_pubkey, key1); INPUT(secp256k1_pubkey, key2); INPUT(_Bool, dup);
    const secp256k1_pubkey *ins[3]; secp256k1_ge wge;
    int ret, valid, i0, i1, i2, oinv; sp vx, vy, ox, oy;
    verif_ctx_init(&ctx);
    __CPROVER_assume(n >= 1 && n <= 3 && w < n);
    ins[0] = &key0; ins[1] = dup ? &key0 : &key1; ins[2] = &key2;    /* dup: the same object twice */
    view_pk64(ins[0]->data, &vx, &vy, &i0); view_pk64(ins[1]->data, &vx, &vy, &i1); view_pk64(ins[2]->data, &vx, &vy, &i2);
    valid = !i0 && (n < 2 || !i1) && (n < 3 || !i2);
    secp256k1_ge_from_bytes(&wge, ins[w]->data);                     /* the watched key as the TU itself decodes it */
    g_add_wx = wge.x; g_add_wy = wge.y; g_add_match = 0;
    verif_c04_gi = 0; verif_c04_add_n = 0; verif_c04_add_last_inf = 0; g_sg_n = 0;
    ret = secp256k1_ec_pubkey_combine(&ctx, &out, ins, n);
    view_pk64(out.data, &ox, &oy, &oinv);
    __CPROVER_assert(g_error == 0, "C04 pubkey_combine_small: error callback never invoked");
    __CPROVER_assert(verif_c04_add_n >= n, "C04 pubkey_combine_small: at least one addition per key");
    __CPROVER_assert(g_add_match >= 1, "C04 pubkey_combine_small: every key of the list is added (an addition has exactly that key as operand)");
    if (valid) {
        __CPROVER_assert(g_illegal == 0, "C04 pubkey_combine_small: no illegal callback when every key object is valid");
        __CPROVER_assert(ret == !verif_c04_add_last_inf, "C04 pubkey_combine_small: fails exactly when the final sum is the point at infinity");
        if (ret == 1) __CPROVER_assert(g_sg_n >= 1 && !g_sg_a0.infinity && pk64_is(out.data, &g_sg_r0.x, &g_sg_r0.y), "C04 pubkey_combine_small: output holds the affine conversion of a finite point");
        if (ret == 0) __CPROVER_assert(oinv, "C04 pubkey_combine_small: failure returns no usable key (the output is rejected by pubkey_load)");
    } else __CPROVER_assert(g_illegal >= 1, "C04 pubkey_combine_small: an invalid key object is reported through the illegal callback");
    if (ret == 1 && n == 3 && dup) REACH("pubkey_combine_small three keys with a duplicate");
    if (ret == 0 && n == 2 && valid) REACH("pubkey_combine_small cancelling pair");
    if (!valid) REACH("pubkey_combine_small invalid key object");
}
#endif

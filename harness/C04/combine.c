/* C04: secp256k1_ec_pubkey_combine.  secp256k1_gej_add_ge (group law) and secp256k1_ge_set_gej are
 * ASSUMED oracles with ghost logs; loading, NULL checks, the infinity gate, output zeroing and saving
 * are real code.
 *   h_pubkey_combine        EVERY n (symbolic, loop contract, hook hooks/C04_sort_combine_loops.diff):
 *                           n = 0 / NULL array / NULL entry at any index => illegal, ret 0, output zero;
 *                           success => exactly n additions were made, the last sum is finite, the output
 *                           is its affine conversion; last sum infinite => ret 0, output zero.
 *   h_pubkey_combine_small  n <= 3 fully unwound (BOUNDED stand-in), full oracle precondition: the k-th
 *                           addition adds the k-th key as stored, the accumulator starts at infinity and
 *                           is threaded through, the point converted is the last sum, no callback for
 *                           valid keys. */
#ifdef U_PUBKEY_COMBINE
/* Loop-contract unit: LOCAL oracle contracts.  They differ from assumed.h / assumed_C04.h only in that the
 * range of the ACCUMULATOR Qj is not a precondition: Qj is havocked by the loop contract and its range is the
 * oracle's own postcondition carried round the loop (a limb-level invariant would tie the /repo hook to one
 * field representation).  The full preconditions are checked on the unwound loop in C04.pubkey_combine_small. */
#include "pre.h"
static inline int fe_in(const secp256k1_fe *a, int m) { return fe_mag(a, m); }
static inline int ge_ok(const secp256k1_ge *g) { return fe_in(&g->x, 4) && fe_in(&g->y, 3) && (g->infinity == 0 || g->infinity == 1); }
static inline int ge_ok1(const secp256k1_ge *g) { return fe_in(&g->x, 1) && fe_in(&g->y, 1) && (g->infinity == 0 || g->infinity == 1); }
static inline int gej_ok(const secp256k1_gej *g) { return fe_in(&g->x, 4) && fe_in(&g->y, 4) && fe_in(&g->z, 1) && (g->infinity == 0 || g->infinity == 1); }
size_t verif_c04_gi, verif_c04_add_n; int verif_c04_add_last_inf;
static void secp256k1_gej_add_ge(secp256k1_gej *r, const secp256k1_gej *a, const secp256k1_ge *b)
__CPROVER_requires(__CPROVER_w_ok(r, sizeof(*r)) && __CPROVER_r_ok(a, sizeof(*a)) && __CPROVER_r_ok(b, sizeof(*b)) && ge_ok(b))
__CPROVER_assigns(*r, verif_c04_add_n, verif_c04_add_last_inf)
__CPROVER_ensures(gej_ok(r) && verif_c04_add_n == __CPROVER_old(verif_c04_add_n) + 1 && verif_c04_add_last_inf == r->infinity)
;
int g_sg_n; secp256k1_ge g_sg_r0; int g_sg_ainf0;
static void secp256k1_ge_set_gej(secp256k1_ge *r, secp256k1_gej *a)
__CPROVER_requires(__CPROVER_w_ok(r, sizeof(*r)) && __CPROVER_rw_ok(a, sizeof(*a)))
__CPROVER_assigns(*r, *a, g_sg_n, g_sg_r0, g_sg_ainf0)
__CPROVER_ensures(ge_ok1(r) && r->infinity == __CPROVER_old(a->infinity) && g_sg_n == __CPROVER_old(g_sg_n) + 1)
__CPROVER_ensures(g_sg_ainf0 == __CPROVER_old(a->infinity) && g_sg_r0.x.n[0] == r->x.n[0] && g_sg_r0.x.n[1] == r->x.n[1] && g_sg_r0.x.n[2] == r->x.n[2] && g_sg_r0.x.n[3] == r->x.n[3] && g_sg_r0.x.n[4] == r->x.n[4]
                  && g_sg_r0.y.n[0] == r->y.n[0] && g_sg_r0.y.n[1] == r->y.n[1] && g_sg_r0.y.n[2] == r->y.n[2] && g_sg_r0.y.n[3] == r->y.n[3] && g_sg_r0.y.n[4] == r->y.n[4])
;
#else
#define LOG_GE_SET_GEJ
#include "assumed_C04.h"
#endif
#include "spec.h"
#include "src/secp256k1.c"
#include "post.h"

#define PK_IS(data, ge) (sp_eq(sp_le32(data), sp_modp(fval(&(ge).x))) && sp_eq(sp_le32((data) + 32), sp_modp(fval(&(ge).y))))

#ifdef U_PUBKEY_COMBINE
/* The loop's assigns clause names "whatever the illegal callback's data points to": this harness counts
 * illegal callbacks there instead of in post.h's static counter. */
static void cb_illegal_d(const char *s, void *d) { (void)s; (*(unsigned *)d)++; }
void h_pubkey_combine(void) {
    secp256k1_context ctx;
    INPUT(secp256k1_pubkey, out); INPUT(size_t, n); INPUT(_Bool, use_out); INPUT(_Bool, use_ins); INPUT(size_t, gi); INPUT(size_t, k);
    INPUT(secp256k1_pubkey, key_a); INPUT(secp256k1_pubkey, key_b); INPUT(size_t, j1); INPUT(size_t, j2); INPUT(unsigned char, sel1); INPUT(unsigned char, sel2);
    const secp256k1_pubkey **ins; const secp256k1_pubkey *at_gi = NULL;
    int ret; unsigned n_illegal = 0;
    verif_ctx_init(&ctx);
    ctx.illegal_callback.fn = cb_illegal_d; ctx.illegal_callback.data = &n_illegal;
    __CPROVER_assume(n <= 100000 && k < 64);
    ins = malloc(n ? n * sizeof(*ins) : 1);
    __CPROVER_assume(ins != NULL);
    /* list shape: every entry is &key_a except at two arbitrary positions j1, j2, which hold NULL, &key_a or
     * &key_b; key_a and key_b are arbitrary 64-byte objects (so duplicates and invalid objects occur).  This is
     * a representation invariant (entries are NULL or valid pointers) expressed without a quantifier. */
    __CPROVER_array_set(ins, &key_a);
    if (j1 < n) ins[j1] = sel1 == 0 ? NULL : (sel1 == 1 ? &key_a : &key_b);
    if (j2 < n) ins[j2] = sel2 == 0 ? NULL : (sel2 == 1 ? &key_a : &key_b);
    if (gi < n) at_gi = ins[gi];
    verif_c04_gi = gi; verif_c04_add_n = 0; verif_c04_add_last_inf = 0; g_sg_n = 0;
    ret = secp256k1_ec_pubkey_combine(&ctx, use_out ? &out : NULL, use_ins ? ins : NULL, n);
    __CPROVER_assert(g_error == 0, "C04 pubkey_combine: error callback never invoked");
    __CPROVER_assert(ret == 0 || ret == 1, "C04 pubkey_combine: returns 0 or 1");
    if (!use_out) __CPROVER_assert(ret == 0 && n_illegal == 1 && verif_c04_add_n == 0, "C04 pubkey_combine: NULL output is illegal and returns 0");
    else {
        if (ret == 0) __CPROVER_assert(out.data[k] == 0, "C04 pubkey_combine: every failure leaves an all-zero (invalid) output");
        if (n == 0) __CPROVER_assert(ret == 0 && n_illegal == 1 && verif_c04_add_n == 0, "C04 pubkey_combine: n = 0 is illegal and returns 0");
        if (!use_ins) __CPROVER_assert(ret == 0 && n_illegal == 1 && verif_c04_add_n == 0, "C04 pubkey_combine: NULL array is illegal and returns 0");
        if (use_ins && gi < n && at_gi == NULL) __CPROVER_assert(ret == 0, "C04 pubkey_combine: a NULL entry at ANY index returns 0");
        if (ret == 1) {
            __CPROVER_assert(n >= 1 && verif_c04_add_n == n, "C04 pubkey_combine: success means all n keys were added, one addition each");
            __CPROVER_assert(!verif_c04_add_last_inf, "C04 pubkey_combine: success means the final sum is not the point at infinity");
            __CPROVER_assert(g_sg_n == 1 && !g_sg_ainf0 && PK_IS(out.data, g_sg_r0), "C04 pubkey_combine: output holds the affine conversion, coordinates reduced mod p");
        }
        if (use_ins && n >= 1 && verif_c04_add_n == n && verif_c04_add_last_inf) __CPROVER_assert(ret == 0 && g_sg_n == 0, "C04 pubkey_combine: a sum at infinity returns 0 and converts nothing");
        if (ret == 1 && n > 150) REACH("pubkey_combine success on a long list");
        if (ret == 1 && n == 1) REACH("pubkey_combine single key");
        if (use_ins && n > 2 && verif_c04_add_n == n && ret == 0) REACH("pubkey_combine sum at infinity");
        if (use_ins && n > 100 && gi == 77 && at_gi == NULL) REACH("pubkey_combine NULL entry in the middle");
    }
}
#endif

#ifdef U_PUBKEY_COMBINE_SMALL
void h_pubkey_combine_small(void) {
    secp256k1_context ctx;
    INPUT(secp256k1_pubkey, out); INPUT(size_t, n); INPUT(size_t, w); INPUT(size_t, k);
    INPUT(secp256k1_pubkey, key0); INPUT(secp256k1_pubkey, key1); INPUT(secp256k1_pubkey, key2); INPUT(_Bool, dup);
    const secp256k1_pubkey *ins[3];
    int ret, valid;
    verif_ctx_init(&ctx);
    __CPROVER_assume(n >= 1 && n <= 3 && w < n && k < 64);
    ins[0] = &key0; ins[1] = dup ? &key0 : &key1; ins[2] = &key2;    /* dup: the same object twice */
    valid = !sp_is0(sp_le32(ins[0]->data)) && (n < 2 || !sp_is0(sp_le32(ins[1]->data))) && (n < 3 || !sp_is0(sp_le32(ins[2]->data)));
    verif_c04_gi = 0; verif_c04_add_n = 0; verif_c04_add_last_inf = 0; g_add_watch = w; g_add_hit = 0; g_sg_n = 0;
    ret = secp256k1_ec_pubkey_combine(&ctx, &out, ins, n);
    __CPROVER_assert(g_error == 0, "C04 pubkey_combine_small: error callback never invoked");
    __CPROVER_assert(verif_c04_add_n == n, "C04 pubkey_combine_small: one addition per key");
    __CPROVER_assert(g_add_hit && sp_eq(fval(&g_add_bx), sp_le32(ins[w]->data)) && sp_eq(fval(&g_add_by), sp_le32(ins[w]->data + 32)) && !g_add_binf,
                     "C04 pubkey_combine_small: the k-th addition adds the k-th key as stored");
    __CPROVER_assert((g_illegal == 0) == valid, "C04 pubkey_combine_small: illegal callback exactly when some key object is invalid");
    __CPROVER_assert(ret == !verif_c04_add_last_inf, "C04 pubkey_combine_small: fails exactly when the final sum is the point at infinity");
    if (ret == 1) __CPROVER_assert(g_sg_n == 1 && !g_sg_a0.infinity && PK_IS(out.data, g_sg_r0), "C04 pubkey_combine_small: output holds the affine conversion of a finite point");
    if (ret == 0) __CPROVER_assert(out.data[k] == 0 && g_sg_n == 0, "C04 pubkey_combine_small: failure leaves an all-zero output");
    if (ret == 1 && n == 3 && dup) REACH("pubkey_combine_small three keys with a duplicate");
    if (ret == 0 && n == 2 && valid) REACH("pubkey_combine_small cancelling pair");
}
#endif

/* C04: x-only / keypair / Taproot-tweak entry points of src/modules/extrakeys/main_impl.h.
 * ecmult, ecmult_gen, ge_set_gej are ASSUMED oracles with ghost logs; parity bookkeeping, secret-key
 * negation/addition, serialisation and comparison are REAL code.  Every pointer NULL-or-object, every byte
 * content.  One entry per unit (-DU_<ENTRY>).
 * Rule followed (audit 1): only what property C04 / include/secp256k1_extrakeys.h promise.  On failure: ret and
 * "set to an invalid value" (output pubkey rejected by pubkey_load; keypair rejected by keypair_load, i.e. public
 * half invalid or secret half failing seckey_verify).  No call counts or dummy operands on failure paths, nothing
 * about outputs of NULL-argument calls.  Opaque objects are decoded through the TU's own ge_from_bytes /
 * keypair_sec / keypair_pub (spec.h views), never byte-wise; coordinates compared mod p. */
#define LOG_ECMULT
#define LOG_ECMULT_GEN
#define LOG_GE_SET_GEJ
#include "assumed.h"
#include "spec.h"
#include "src/secp256k1.c"
#include "post.h"
#define SPEC_VIEWS
#include "spec.h"

#define GEJ_EQ(a, b) (FE_EQ((a).x, (b).x) && FE_EQ((a).y, (b).y) && FE_EQ((a).z, (b).z) && (a).infinity == (b).infinity)
#define IS_POINT(gej, xv, yv) (sp_eq(sp_modp8(fval(&(gej).x)), xv) && sp_eq(sp_modp8(fval(&(gej).y)), yv) && sp_eq(sp_modp(fval(&(gej).z)), sp_u64(1)) && (gej).infinity == 0)
/* the logged ecmult call computes 1*P + t*G (t = 0: ng may be NULL or zero) */
#define ADDS_TWEAK(tv) (g_ecmult_has_na0 && sp_eq(sval(&g_ecmult_na0), sp_u64(1)) && (sp_is0(tv) ? (!g_ecmult_has_ng0 || sp_is0(sval(&g_ecmult_ng0))) : (g_ecmult_has_ng0 && sp_eq(sval(&g_ecmult_ng0), tv))))
#define LOGS_RESET() do { g_ecmult_n = 0; g_gen_n = 0; g_sg_n = 0; } while (0)

#ifdef U_KEYPAIR_CREATE
void h_keypair_create(void) {
    secp256k1_context ctx;
    INPUT(secp256k1_keypair, kp); INPUT_ARR(unsigned char, key, 32); INPUT(_Bool, use_kp); INPUT(_Bool, use_key); INPUT(int, built);
    int ret, oinv; sp kv = sp_be32(key), osk, ox, oy;
    verif_ctx_init(&ctx); LOGS_RESET();
    ctx.ecmult_gen_ctx.built = built;
    ret = secp256k1_keypair_create(&ctx, use_kp ? &kp : NULL, use_key ? key : NULL);
    __CPROVER_assert(g_error == 0, "C04 keypair_create: error callback never invoked");
    if (!use_kp || !use_key) __CPROVER_assert(ret == 0 && g_illegal == 1, "C04 keypair_create: NULL argument is illegal and returns 0");
    else if (!built) __CPROVER_assert(ret == 0 && g_illegal == 1, "C04 keypair_create: static/unbuilt context is illegal and returns 0");
    else {
        view_keypair(&kp, &osk, &ox, &oy, &oinv);
        __CPROVER_assert(g_illegal == 0, "C04 keypair_create: no illegal callback for proper arguments");
        __CPROVER_assert(ret == sp_seckey_valid(kv), "C04 keypair_create: returns 1 exactly for 0 < key < n");
        if (ret == 0) __CPROVER_assert(oinv || !sp_seckey_valid(osk), "C04 keypair_create: an invalid key yields no usable keypair (rejected by keypair_load)");
        else {
            __CPROVER_assert(sp_eq(osk, kv), "C04 keypair_create: secret half is the key");
            __CPROVER_assert(g_gen_n >= 1 && sp_eq(sval(&g_gen_a0), kv), "C04 keypair_create: the generator is multiplied by the key");
            __CPROVER_assert(g_sg_n >= 1 && GEJ_EQ(g_sg_a0, g_gen_r0), "C04 keypair_create: the point converted is the multiplication result");
            { secp256k1_context c2; secp256k1_pubkey pub; verif_ctx_init(&c2); (void)secp256k1_keypair_pub(&c2, &pub, &kp);
              __CPROVER_assert(pk64_is(pub.data, &g_sg_r0.x, &g_sg_r0.y), "C04 keypair_create: public half is the converted point (coordinates mod p)"); }
        }
        if (ret == 1) REACH("keypair_create success");
        if (ret == 0 && !sp_is0(kv)) REACH("keypair_create key >= n");
    }
    if (use_kp && use_key && !built) REACH("keypair_create static context");
    if (!use_kp) REACH("keypair_create NULL keypair");
}
#endif

#ifdef U_KEYPAIR_XONLY_TWEAK_ADD
void h_keypair_xonly_tweak_add(void) {
    secp256k1_context ctx;
    INPUT(secp256k1_keypair, kp); INPUT_ARR(unsigned char, tweak, 32); INPUT(_Bool, use_kp); INPUT(_Bool, use_tweak);
    int ret, kp_valid, odd, pinv, oinv, canon; sp skv, xv, yv, tv = sp_be32(tweak), sk1, sum, osk, ox, oy;
    verif_ctx_init(&ctx); LOGS_RESET();
    view_keypair(&kp, &skv, &xv, &yv, &pinv);
    { secp256k1_context c2; secp256k1_pubkey pub; verif_ctx_init(&c2); (void)secp256k1_keypair_pub(&c2, &pub, &kp); canon = sp_lt(view_pk64_rawy(pub.data), sp_p()); verif_ctx_init(&ctx); }
    kp_valid = !pinv && sp_seckey_valid(skv);
    ret = secp256k1_keypair_xonly_tweak_add(&ctx, use_kp ? &kp : NULL, use_tweak ? tweak : NULL);
    __CPROVER_assert(g_error == 0, "C04 keypair_xonly_tweak_add: error callback never invoked");
    if (!use_kp || !use_tweak) __CPROVER_assert(ret == 0 && g_illegal == 1, "C04 keypair_xonly_tweak_add: NULL argument is illegal and returns 0");
    else {
        view_keypair(&kp, &osk, &ox, &oy, &oinv);
        if (ret == 0) __CPROVER_assert(oinv || !sp_seckey_valid(osk), "C04 keypair_xonly_tweak_add: on failure the keypair is set to an invalid value (rejected by keypair_load)");
        if (!kp_valid) __CPROVER_assert(ret == 0 && g_illegal >= 1, "C04 keypair_xonly_tweak_add: invalid keypair object is illegal and returns 0");
        else {
            __CPROVER_assert(g_illegal == 0, "C04 keypair_xonly_tweak_add: no illegal callback for a valid keypair");
            if (!sp_lt(tv, sp_n())) __CPROVER_assert(ret == 0, "C04 keypair_xonly_tweak_add: tweak >= n returns 0");
            else if (canon) {
                odd = sp_odd(yv);
                sk1 = odd ? sp_sub(sp_n(), skv) : skv;                 /* secret key of the even-y point */
                sum = sp_modn(sp_add(sk1, tv));
                __CPROVER_assert(g_ecmult_n >= 1 && IS_POINT(g_ecmult_a0, xv, odd ? sp_negp(yv) : yv), "C04 keypair_xonly_tweak_add: the point tweaked is the even-y lift of the keypair's public key");
                __CPROVER_assert(ADDS_TWEAK(tv), "C04 keypair_xonly_tweak_add: ecmult computes 1*P + tweak*G");
                __CPROVER_assert(ret == (!sp_is0(sum) && !g_ecmult_r0.infinity), "C04 keypair_xonly_tweak_add: fails exactly when the tweaked secret is 0 or the tweaked point is infinity");
                if (ret == 1) {
                    __CPROVER_assert(sp_eq(osk, sum), "C04 keypair_xonly_tweak_add: secret half = (sk negated iff y odd) + tweak mod n");
                    __CPROVER_assert(g_sg_n >= 1 && GEJ_EQ(g_sg_a0, g_ecmult_r0), "C04 keypair_xonly_tweak_add: the point converted is the ecmult result");
                    { secp256k1_context c2; secp256k1_pubkey pub; int si = g_illegal; verif_ctx_init(&c2); (void)secp256k1_keypair_pub(&c2, &pub, &kp); g_illegal = si;
                      __CPROVER_assert(pk64_is(pub.data, &g_sg_r0.x, &g_sg_r0.y), "C04 keypair_xonly_tweak_add: public half is the converted point (coordinates mod p)"); }
                    if (odd) REACH("keypair_xonly_tweak_add odd y success"); else REACH("keypair_xonly_tweak_add even y success");
                }
                if (sp_is0(sum)) REACH("keypair_xonly_tweak_add tweak == -sk");
                if (!sp_is0(sum) && ret == 0) REACH("keypair_xonly_tweak_add infinity");
            }
        }
        if (!kp_valid) REACH("keypair_xonly_tweak_add invalid keypair");
        if (kp_valid && sp_eq(tv, sp_n())) REACH("keypair_xonly_tweak_add tweak == n");
    }
    if (!use_kp || !use_tweak) REACH("keypair_xonly_tweak_add NULL argument");
}
#endif

#ifdef U_XONLY_TWEAK_ADD
void h_xonly_tweak_add(void) {
    secp256k1_context ctx;
    INPUT(secp256k1_pubkey, out); INPUT(secp256k1_xonly_pubkey, ipk); INPUT_ARR(unsigned char, tweak, 32);
    INPUT(_Bool, use_out); INPUT(_Bool, use_ipk); INPUT(_Bool, use_tweak); INPUT(size_t, k);
    secp256k1_xonly_pubkey ipk0 = ipk;
    int ret, inv, oinv; sp xv, yv, ox, oy, tv = sp_be32(tweak);
    verif_ctx_init(&ctx); LOGS_RESET();
    __CPROVER_assume(k < 64);
    view_pk64(ipk.data, &xv, &yv, &inv);
    ret = secp256k1_xonly_pubkey_tweak_add(&ctx, use_out ? &out : NULL, use_ipk ? &ipk : NULL, use_tweak ? tweak : NULL);
    __CPROVER_assert(g_error == 0, "C04 xonly_tweak_add: error callback never invoked");
    __CPROVER_assert(ipk.data[k] == ipk0.data[k], "C04 xonly_tweak_add: internal key (const) is not modified");
    if (!use_out || !use_ipk || !use_tweak) __CPROVER_assert(ret == 0 && g_illegal == 1, "C04 xonly_tweak_add: NULL argument is illegal and returns 0");
    else if (inv) __CPROVER_assert(ret == 0 && g_illegal == 1, "C04 xonly_tweak_add: invalid internal key is illegal and returns 0");
    else {
        view_pk64(out.data, &ox, &oy, &oinv);
        __CPROVER_assert(g_illegal == 0, "C04 xonly_tweak_add: no illegal callback for valid arguments");
        if (ret == 0) __CPROVER_assert(oinv, "C04 xonly_tweak_add: on failure the output is set to an invalid value (rejected by pubkey_load)");
        if (!sp_lt(tv, sp_n())) __CPROVER_assert(ret == 0, "C04 xonly_tweak_add: tweak >= n returns 0");
        else {
            __CPROVER_assert(g_ecmult_n >= 1 && IS_POINT(g_ecmult_a0, xv, yv) && ADDS_TWEAK(tv), "C04 xonly_tweak_add: ecmult computes 1*P + tweak*G on the internal key");
            __CPROVER_assert(ret == !g_ecmult_r0.infinity, "C04 xonly_tweak_add: fails exactly when the sum is the point at infinity");
            if (ret == 1) __CPROVER_assert(g_sg_n >= 1 && GEJ_EQ(g_sg_a0, g_ecmult_r0) && pk64_is(out.data, &g_sg_r0.x, &g_sg_r0.y), "C04 xonly_tweak_add: output holds the ecmult result (coordinates mod p)");
        }
        if (ret == 1) REACH("xonly_tweak_add success");
        if (sp_lt(tv, sp_n()) && ret == 0) REACH("xonly_tweak_add infinity");
        if (sp_eq(tv, sp_n())) REACH("xonly_tweak_add tweak == n");
    }
    if (use_out && use_ipk && use_tweak && inv) REACH("xonly_tweak_add invalid internal key");
}
#endif

#ifdef U_XONLY_TWEAK_ADD_CHECK
void h_xonly_tweak_add_check(void) {
    secp256k1_context ctx;
    INPUT_ARR(unsigned char, tpk32, 32); INPUT(int, parity); INPUT(secp256k1_xonly_pubkey, ipk); INPUT_ARR(unsigned char, tweak, 32);
    INPUT(_Bool, use_tpk); INPUT(_Bool, use_ipk); INPUT(_Bool, use_tweak);
    int ret, expect, inv; sp xv, yv, tv = sp_be32(tweak), qx, qy;
    verif_ctx_init(&ctx); LOGS_RESET();
    view_pk64(ipk.data, &xv, &yv, &inv);
    ret = secp256k1_xonly_pubkey_tweak_add_check(&ctx, use_tpk ? tpk32 : NULL, parity, use_ipk ? &ipk : NULL, use_tweak ? tweak : NULL);
    __CPROVER_assert(g_error == 0, "C04 xonly_tweak_add_check: error callback never invoked");
    __CPROVER_assert(ret == 0 || ret == 1, "C04 xonly_tweak_add_check: returns 0 or 1");
    if (!use_tpk || !use_ipk || !use_tweak) __CPROVER_assert(ret == 0 && g_illegal == 1, "C04 xonly_tweak_add_check: NULL argument is illegal and returns 0");
    else if (inv) __CPROVER_assert(ret == 0 && g_illegal == 1, "C04 xonly_tweak_add_check: invalid internal key is illegal and returns 0");
    else {
        __CPROVER_assert(g_illegal == 0, "C04 xonly_tweak_add_check: no illegal callback for valid arguments");
        if (!sp_lt(tv, sp_n())) __CPROVER_assert(ret == 0, "C04 xonly_tweak_add_check: tweak >= n returns 0");
        else {
            __CPROVER_assert(g_ecmult_n >= 1 && IS_POINT(g_ecmult_a0, xv, yv) && ADDS_TWEAK(tv), "C04 xonly_tweak_add_check: ecmult computes 1*P + tweak*G on the internal key");
            if (g_ecmult_r0.infinity) __CPROVER_assert(ret == 0, "C04 xonly_tweak_add_check: sum at infinity is rejected");
            else {
                __CPROVER_assert(g_sg_n >= 1 && GEJ_EQ(g_sg_a0, g_ecmult_r0), "C04 xonly_tweak_add_check: the point compared is the ecmult result");
                qx = sp_modp(fval(&g_sg_r0.x)); qy = sp_modp(fval(&g_sg_r0.y));
                expect = sp_eq(sp_be32(tpk32), qx) && (sp_odd(qy) == parity);
                __CPROVER_assert(ret == expect, "C04 xonly_tweak_add_check: accepts exactly the (x, parity) pair of the tweaked point");
                if (ret == 1 && parity == 1) REACH("xonly_tweak_add_check accepts odd");
                if (ret == 1 && parity == 0) REACH("xonly_tweak_add_check accepts even");
                if (ret == 0 && sp_eq(sp_be32(tpk32), qx)) REACH("xonly_tweak_add_check x equal, parity differs");
                if (ret == 0 && (sp_odd(qy) == parity)) REACH("xonly_tweak_add_check parity equal, x differs");
                if (!sp_lt(sp_be32(tpk32), sp_p())) REACH("xonly_tweak_add_check non-canonical x string (>= p)");
            }
        }
    }
    if (use_tpk && use_ipk && use_tweak && inv) REACH("xonly_tweak_add_check invalid internal key");
}
#endif

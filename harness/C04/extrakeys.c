/* C04: x-only / keypair / Taproot-tweak entry points of src/modules/extrakeys/main_impl.h.
 * Gates, zeroing and oracle wiring (ecmult, ecmult_gen, ge_set_gej are ASSUMED oracles with ghost
 * logs); parity bookkeeping, secret-key negation/addition, serialisation and comparison are REAL code.
 * Every pointer NULL-or-object, every byte content.  One entry per unit (-DU_<ENTRY>).
 *
 * Keypair object view (96 bytes): sk = big-endian integer of bytes 0..31, public part = pubkey object
 * view of bytes 32..95 (see pubkey_real.c).  A keypair is INVALID iff x = 0 or not 0 < sk < n (what
 * secp256k1_keypair_load rejects with the illegal callback). */
#define LOG_ECMULT
#define LOG_ECMULT_GEN
#define LOG_GE_SET_GEJ
#include "assumed.h"
#include "spec.h"
#include "src/secp256k1.c"
#include "post.h"

#define GEJ_EQ(a, b) (FE_EQ((a).x, (b).x) && FE_EQ((a).y, (b).y) && FE_EQ((a).z, (b).z) && (a).infinity == (b).infinity)
#define PK_IS(data, ge) (sp_eq(sp_le32(data), sp_modp(fval(&(ge).x))) && sp_eq(sp_le32((data) + 32), sp_modp(fval(&(ge).y))))
#define LOGS_RESET() do { g_ecmult_n = 0; g_gen_n = 0; g_sg_n = 0; } while (0)

#ifdef U_KEYPAIR_CREATE
void h_keypair_create(void) {
    secp256k1_context ctx;
    INPUT(secp256k1_keypair, kp); INPUT_ARR(unsigned char, key, 32); INPUT(_Bool, use_kp); INPUT(_Bool, use_key); INPUT(int, built); INPUT(size_t, k);
    int ret; sp kv = sp_be32(key);
    verif_ctx_init(&ctx); LOGS_RESET();
    ctx.ecmult_gen_ctx.built = built;
    __CPROVER_assume(k < 96);
    ret = secp256k1_keypair_create(&ctx, use_kp ? &kp : NULL, use_key ? key : NULL);
    __CPROVER_assert(g_error == 0, "C04 keypair_create: error callback never invoked");
    if (!use_kp) __CPROVER_assert(ret == 0 && g_illegal == 1 && g_gen_n == 0, "C04 keypair_create: NULL keypair is illegal and returns 0");
    else if (!built || !use_key) __CPROVER_assert(ret == 0 && g_illegal == 1 && g_gen_n == 0 && kp.data[k] == 0, "C04 keypair_create: static/unbuilt context or NULL key is illegal, returns 0, keypair zeroed");
    else {
        __CPROVER_assert(g_illegal == 0, "C04 keypair_create: no illegal callback for proper arguments");
        __CPROVER_assert(ret == sp_seckey_valid(kv), "C04 keypair_create: returns 1 exactly for 0 < key < n");
        if (ret == 0) {
            __CPROVER_assert(kp.data[k] == 0, "C04 keypair_create: invalid key leaves an all-zero (invalid) keypair");
            __CPROVER_assert(g_gen_n == 1 && sp_eq(sval(&g_gen_a0), sp_u64(1)), "C04 keypair_create: invalid key is masked to 1 before the multiplication");
        } else {
            __CPROVER_assert(sp_eq(sp_be32(kp.data), kv), "C04 keypair_create: secret half is the key");
            __CPROVER_assert(g_gen_n == 1 && sp_eq(sval(&g_gen_a0), kv), "C04 keypair_create: the generator is multiplied by the key");
            __CPROVER_assert(g_sg_n == 1 && GEJ_EQ(g_sg_a0, g_gen_r0) && PK_IS(kp.data + 32, g_sg_r0), "C04 keypair_create: public half is the multiplication result, reduced mod p");
        }
        if (ret == 1) REACH("keypair_create success");
        if (ret == 0 && !sp_is0(kv)) REACH("keypair_create key >= n");
    }
    if (use_kp && !built) REACH("keypair_create static context");
}
#endif

#ifdef U_KEYPAIR_XONLY_TWEAK_ADD
void h_keypair_xonly_tweak_add(void) {
    secp256k1_context ctx;
    INPUT(secp256k1_keypair, kp); INPUT_ARR(unsigned char, tweak, 32); INPUT(_Bool, use_kp); INPUT(_Bool, use_tweak); INPUT(size_t, k);
    int ret, kp_valid, odd; sp skv = sp_be32(kp.data), xv = sp_le32(kp.data + 32), yv = sp_le32(kp.data + 64), tv = sp_be32(tweak), sk1, sum;
    verif_ctx_init(&ctx); LOGS_RESET();
    __CPROVER_assume(k < 96);
    kp_valid = !sp_is0(xv) && sp_seckey_valid(skv);
    ret = secp256k1_keypair_xonly_tweak_add(&ctx, use_kp ? &kp : NULL, use_tweak ? tweak : NULL);
    __CPROVER_assert(g_error == 0, "C04 keypair_xonly_tweak_add: error callback never invoked");
    if (!use_kp || !use_tweak) __CPROVER_assert(ret == 0 && g_illegal == 1 && g_ecmult_n == 0, "C04 keypair_xonly_tweak_add: NULL argument is illegal and returns 0");
    else {
        if (ret == 0) __CPROVER_assert(kp.data[k] == 0, "C04 keypair_xonly_tweak_add: every failure leaves an all-zero (invalid) keypair");
        if (!kp_valid) __CPROVER_assert(ret == 0 && g_illegal == 1, "C04 keypair_xonly_tweak_add: invalid keypair object is illegal and returns 0");
        if (!sp_lt(tv, sp_n())) __CPROVER_assert(ret == 0 && g_ecmult_n == 0, "C04 keypair_xonly_tweak_add: tweak >= n returns 0 without curve work");
        if (kp_valid) {
            __CPROVER_assert(g_illegal == 0, "C04 keypair_xonly_tweak_add: no illegal callback for a valid keypair");
            if (sp_lt(yv, sp_p()) && sp_lt(tv, sp_n())) {
                odd = sp_odd(yv);
                sk1 = odd ? sp_sub(sp_n(), skv) : skv;                 /* secret key of the even-y point */
                sum = sp_modn(sp_add(sk1, tv));
                __CPROVER_assert(g_ecmult_n == 1 && sp_eq(fval(&g_ecmult_a0.x), xv) && sp_eq(sp_modp(fval(&g_ecmult_a0.y)), odd ? sp_sub(sp_p(), yv) : yv)
                                 && sp_eq(fval(&g_ecmult_a0.z), sp_u64(1)) && !g_ecmult_a0.infinity, "C04 keypair_xonly_tweak_add: the point tweaked is the even-y lift of the keypair's public key");
                __CPROVER_assert(g_ecmult_has_na0 && sp_eq(sval(&g_ecmult_na0), sp_u64(1)) && g_ecmult_has_ng0 && sp_eq(sval(&g_ecmult_ng0), tv), "C04 keypair_xonly_tweak_add: ecmult computes 1*P + tweak*G");
                __CPROVER_assert(ret == (!sp_is0(sum) && !g_ecmult_r0.infinity), "C04 keypair_xonly_tweak_add: fails exactly when the tweaked secret is 0 or the tweaked point is infinity");
                if (ret == 1) {
                    __CPROVER_assert(sp_eq(sp_be32(kp.data), sum), "C04 keypair_xonly_tweak_add: secret half = (sk negated iff y odd) + tweak mod n");
                    __CPROVER_assert(g_sg_n == 1 && GEJ_EQ(g_sg_a0, g_ecmult_r0) && PK_IS(kp.data + 32, g_sg_r0), "C04 keypair_xonly_tweak_add: public half is the ecmult result, reduced mod p");
                    if (odd) REACH("keypair_xonly_tweak_add odd y success"); else REACH("keypair_xonly_tweak_add even y success");
                }
                if (sp_is0(sum)) REACH("keypair_xonly_tweak_add tweak == -sk");
                if (!sp_is0(sum) && ret == 0) REACH("keypair_xonly_tweak_add infinity");
            }
        }
        if (!kp_valid) REACH("keypair_xonly_tweak_add invalid keypair");
        if (kp_valid && sp_eq(tv, sp_n())) REACH("keypair_xonly_tweak_add tweak == n");
    }
}
#endif

#if defined(U_XONLY_TWEAK_ADD) || defined(U_XONLY_TWEAK_ADD_CHECK)
/* shared wiring clause: exactly one ecmult, 1*P + tweak*G, P = the x-only key as stored */
#define WIRING_OK(xv, yv, tv) (g_ecmult_n == 1 && sp_eq(fval(&g_ecmult_a0.x), xv) && sp_eq(fval(&g_ecmult_a0.y), yv) && sp_eq(fval(&g_ecmult_a0.z), sp_u64(1)) && !g_ecmult_a0.infinity \
    && g_ecmult_has_na0 && sp_eq(sval(&g_ecmult_na0), sp_u64(1)) && g_ecmult_has_ng0 && sp_eq(sval(&g_ecmult_ng0), tv))
#endif

#ifdef U_XONLY_TWEAK_ADD
void h_xonly_tweak_add(void) {
    secp256k1_context ctx;
    INPUT(secp256k1_pubkey, out); INPUT(secp256k1_xonly_pubkey, ipk); INPUT_ARR(unsigned char, tweak, 32);
    INPUT(_Bool, use_out); INPUT(_Bool, use_ipk); INPUT(_Bool, use_tweak); INPUT(size_t, k);
    secp256k1_xonly_pubkey ipk0 = ipk;
    int ret; sp xv = sp_le32(ipk.data), yv = sp_le32(ipk.data + 32), tv = sp_be32(tweak);
    verif_ctx_init(&ctx); LOGS_RESET();
    __CPROVER_assume(k < 64);
    ret = secp256k1_xonly_pubkey_tweak_add(&ctx, use_out ? &out : NULL, use_ipk ? &ipk : NULL, use_tweak ? tweak : NULL);
    __CPROVER_assert(g_error == 0, "C04 xonly_tweak_add: error callback never invoked");
    __CPROVER_assert(ipk.data[k] == ipk0.data[k], "C04 xonly_tweak_add: internal key is not modified");
    if (use_out && ret == 0) __CPROVER_assert(out.data[k] == 0, "C04 xonly_tweak_add: every failure leaves an all-zero (invalid) output pubkey");
    if (!use_out || !use_ipk || !use_tweak) __CPROVER_assert(ret == 0 && g_illegal == 1 && g_ecmult_n == 0, "C04 xonly_tweak_add: NULL argument is illegal and returns 0");
    else if (sp_is0(xv)) __CPROVER_assert(ret == 0 && g_illegal == 1 && g_ecmult_n == 0, "C04 xonly_tweak_add: invalid internal key is illegal and returns 0");
    else {
        __CPROVER_assert(g_illegal == 0, "C04 xonly_tweak_add: no illegal callback for valid arguments");
        if (!sp_lt(tv, sp_n())) __CPROVER_assert(ret == 0 && g_ecmult_n == 0, "C04 xonly_tweak_add: tweak >= n returns 0 without curve work");
        else {
            __CPROVER_assert(WIRING_OK(xv, yv, tv), "C04 xonly_tweak_add: one ecmult computing 1*P + tweak*G on the internal key");
            __CPROVER_assert(ret == !g_ecmult_r0.infinity, "C04 xonly_tweak_add: fails exactly when the sum is the point at infinity");
            if (ret == 1) __CPROVER_assert(g_sg_n == 1 && GEJ_EQ(g_sg_a0, g_ecmult_r0) && PK_IS(out.data, g_sg_r0), "C04 xonly_tweak_add: output holds the ecmult result, reduced mod p");
        }
        if (ret == 1) REACH("xonly_tweak_add success");
        if (sp_lt(tv, sp_n()) && ret == 0) REACH("xonly_tweak_add infinity");
        if (sp_eq(tv, sp_n())) REACH("xonly_tweak_add tweak == n");
    }
}
#endif

#ifdef U_XONLY_TWEAK_ADD_CHECK
void h_xonly_tweak_add_check(void) {
    secp256k1_context ctx;
    INPUT_ARR(unsigned char, tpk32, 32); INPUT(int, parity); INPUT(secp256k1_xonly_pubkey, ipk); INPUT_ARR(unsigned char, tweak, 32);
    INPUT(_Bool, use_tpk); INPUT(_Bool, use_ipk); INPUT(_Bool, use_tweak);
    int ret, expect; sp xv = sp_le32(ipk.data), yv = sp_le32(ipk.data + 32), tv = sp_be32(tweak), qx, qy;
    verif_ctx_init(&ctx); LOGS_RESET();
    ret = secp256k1_xonly_pubkey_tweak_add_check(&ctx, use_tpk ? tpk32 : NULL, parity, use_ipk ? &ipk : NULL, use_tweak ? tweak : NULL);
    __CPROVER_assert(g_error == 0, "C04 xonly_tweak_add_check: error callback never invoked");
    __CPROVER_assert(ret == 0 || ret == 1, "C04 xonly_tweak_add_check: returns 0 or 1");
    if (!use_tpk || !use_ipk || !use_tweak) __CPROVER_assert(ret == 0 && g_illegal == 1 && g_ecmult_n == 0, "C04 xonly_tweak_add_check: NULL argument is illegal and returns 0");
    else if (sp_is0(xv)) __CPROVER_assert(ret == 0 && g_illegal == 1 && g_ecmult_n == 0, "C04 xonly_tweak_add_check: invalid internal key is illegal and returns 0");
    else {
        __CPROVER_assert(g_illegal == 0, "C04 xonly_tweak_add_check: no illegal callback for valid arguments");
        if (!sp_lt(tv, sp_n())) __CPROVER_assert(ret == 0 && g_ecmult_n == 0, "C04 xonly_tweak_add_check: tweak >= n returns 0 without curve work");
        else {
            __CPROVER_assert(WIRING_OK(xv, yv, tv), "C04 xonly_tweak_add_check: one ecmult computing 1*P + tweak*G on the internal key");
            if (g_ecmult_r0.infinity) __CPROVER_assert(ret == 0, "C04 xonly_tweak_add_check: sum at infinity is rejected");
            else {
                __CPROVER_assert(g_sg_n == 1 && GEJ_EQ(g_sg_a0, g_ecmult_r0), "C04 xonly_tweak_add_check: the point compared is the ecmult result");
                qx = sp_modp(fval(&g_sg_r0.x)); qy = sp_modp(fval(&g_sg_r0.y));
                expect = sp_eq(sp_be32(tpk32), qx) && (sp_odd(qy) == parity);
                __CPROVER_assert(ret == expect, "C04 xonly_tweak_add_check: accepts exactly the (x, parity) pair of the tweaked point");
                if (ret == 1 && parity == 1) REACH("xonly_tweak_add_check accepts odd");
                if (ret == 1 && parity == 0) REACH("xonly_tweak_add_check accepts even");
                if (ret == 0 && sp_eq(sp_be32(tpk32), qx)) REACH("xonly_tweak_add_check x equal, parity differs");
                if (ret == 0 && (sp_odd(qy) == parity)) REACH("xonly_tweak_add_check parity equal, x differs");
            }
        }
    }
}
#endif

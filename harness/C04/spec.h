/* Specification integers for the C04/C18 harnesses: unsigned 320-bit values with + - == < only.
 * One source, two back ends: the verifier uses CBMC's 320-bit bit-vector `wide` (pre.h); the native
 * replay build (clang -DVERIF_NATIVE, no 320-bit type) uses 5x64 limbs.  Nothing here calls /repo
 * code: these are the independent definitions the post-conditions are written against. */
#ifndef VERIF_C04_SPEC_H
#define VERIF_C04_SPEC_H
#ifndef VERIF_NATIVE
typedef wide sp;
static inline sp sp_u64(uint64_t v) { return W(v); }
static inline sp sp_add(sp a, sp b) { return a + b; }
static inline sp sp_sub(sp a, sp b) { return a - b; }
static inline int sp_eq(sp a, sp b) { return a == b; }
static inline int sp_lt(sp a, sp b) { return a < b; }
static inline int sp_odd(sp a) { return (a & 1) != 0; }
static inline sp sp_shl8_or(sp a, unsigned char b) { return (a << 8) | W(b); }
static inline sp sp_n(void) { return N_(); }
static inline sp sp_p(void) { return P_(); }
#else
typedef struct { uint64_t w[5]; } sp;
static inline sp sp_u64(uint64_t v) { sp r = {{0, 0, 0, 0, 0}}; r.w[0] = v; return r; }
static inline sp sp_add(sp a, sp b) { sp r; unsigned __int128 c = 0; int i; for (i = 0; i < 5; i++) { c += (unsigned __int128)a.w[i] + b.w[i]; r.w[i] = (uint64_t)c; c >>= 64; } return r; }
static inline sp sp_sub(sp a, sp b) { sp r; unsigned __int128 c = 0; int i; for (i = 0; i < 5; i++) { unsigned __int128 d = (unsigned __int128)a.w[i] - b.w[i] - c; r.w[i] = (uint64_t)d; c = (d >> 64) & 1; } return r; }
static inline int sp_eq(sp a, sp b) { int i, e = 1; for (i = 0; i < 5; i++) e &= (a.w[i] == b.w[i]); return e; }
static inline int sp_lt(sp a, sp b) { int i; for (i = 4; i >= 0; i--) { if (a.w[i] < b.w[i]) return 1; if (a.w[i] > b.w[i]) return 0; } return 0; }
static inline int sp_odd(sp a) { return (int)(a.w[0] & 1); }
static inline sp sp_shl8_or(sp a, unsigned char b) { sp r; int i; for (i = 4; i > 0; i--) r.w[i] = (a.w[i] << 8) | (a.w[i - 1] >> 56); r.w[0] = (a.w[0] << 8) | b; return r; }
static inline sp sp_n(void) { sp r = {{0xBFD25E8CD0364141ULL, 0xBAAEDCE6AF48A03BULL, 0xFFFFFFFFFFFFFFFEULL, 0xFFFFFFFFFFFFFFFFULL, 0}}; return r; }
static inline sp sp_p(void) { sp r = {{0xFFFFFFFEFFFFFC2FULL, 0xFFFFFFFFFFFFFFFFULL, 0xFFFFFFFFFFFFFFFFULL, 0xFFFFFFFFFFFFFFFFULL, 0}}; return r; }
#endif
/* 32 bytes, most significant first (secret keys, tweaks, serialised coordinates) */
static inline sp sp_be32(const unsigned char *b) { sp v = sp_u64(0); int i; for (i = 0; i < 32; i++) v = sp_shl8_or(v, b[i]); return v; }
/* 32 bytes, least significant first (the 4x64 storage words inside secp256k1_pubkey / _keypair on this little-endian target) */
static inline sp sp_le32(const unsigned char *b) { sp v = sp_u64(0); int i; for (i = 31; i >= 0; i--) v = sp_shl8_or(v, b[i]); return v; }
static inline int sp_is0(sp a) { return sp_eq(a, sp_u64(0)); }
static inline int sp_le(sp a, sp b) { return !sp_lt(b, a); }
/* a mod p for a < 4p (covers every 256-bit value and every magnitude-1 field element) */
static inline sp sp_modp(sp a) { sp p = sp_p(); int i; for (i = 0; i < 3; i++) if (!sp_lt(a, p)) a = sp_sub(a, p); return a; }
/* a mod n for a < 2n */
static inline sp sp_modn(sp a) { sp n = sp_n(); if (!sp_lt(a, n)) a = sp_sub(a, n); return a; }
static inline sp sp_negp(sp a) { return sp_is0(a) ? a : sp_sub(sp_p(), a); }   /* a < p */
static inline sp sp_negn(sp a) { return sp_is0(a) ? a : sp_sub(sp_n(), a); }   /* a < n */
/* secp256k1_ec_seckey_verify's documented predicate: 0 < key < n */
static inline int sp_seckey_valid(sp k) { return !sp_is0(k) && sp_lt(k, sp_n()); }
#endif

/* Specification integers for the C04/C18 harnesses: unsigned 320-bit values with + - == < only.
 * One source, two back ends: the verifier uses CBMC's 320-bit bit-vector `wide` (pre.h); the native
 * replay build (clang -DVERIF_NATIVE, no 320-bit type) uses 5x64 limbs.  Nothing here calls /repo
 * code: these are the independent definitions the post-conditions are written against. */
#ifndef VERIF_C04_SPEC_H
#define VERIF_C04_SPEC_H
#ifndef VERIF_NATIVE
typedef wide sp;
static inline sp sp_u64(uint64_t v) { return W(v); }
static inline sp sp_add(sp a, sp b) { return a + b; }
static inline sp sp_sub(sp a, sp b) { return a - b; }
static inline int sp_eq(sp a, sp b) { return a == b; }
static inline int sp_lt(sp a, sp b) { return a < b; }
static inline int sp_odd(sp a) { return (a & 1) != 0; }
static inline sp sp_shl8_or(sp a, unsigned char b) { return (a << 8) | W(b); }
static inline sp sp_n(void) { return N_(); }
static inline sp sp_p(void) { return P_(); }
#else
typedef struct { uint64_t w[5]; } sp;
static inline sp sp_u64(uint64_t v) { sp r = {{0, 0, 0, 0, 0}}; r.w[0] = v; return r; }
static inline sp sp_add(sp a, sp b) { sp r; unsigned __int128 c = 0; int i; for (i = 0; i < 5; i++) { c += (unsigned __int128)a.w[i] + b.w[i]; r.w[i] = (uint64_t)c; c >>= 64; } return r; }
static inline sp sp_sub(sp a, sp b) { sp r; unsigned __int128 c = 0; int i; for (i = 0; i < 5; i++) { unsigned __int128 d = (unsigned __int128)a.w[i] - b.w[i] - c; r.w[i] = (uint64_t)d; c = (d >> 64) & 1; } return r; }
static inline int sp_eq(sp a, sp b) { int i, e = 1; for (i = 0; i < 5; i++) e &= (a.w[i] == b.w[i]); return e; }
static inline int sp_lt(sp a, sp b) { int i; for (i = 4; i >= 0; i--) { if (a.w[i] < b.w[i]) return 1; if (a.w[i] > b.w[i]) return 0; } return 0; }
static inline int sp_odd(sp a) { return (int)(a.w[0] & 1); }
static inline sp sp_shl8_or(sp a, unsigned char b) { sp r; int i; for (i = 4; i > 0; i--) r.w[i] = (a.w[i] << 8) | (a.w[i - 1] >> 56); r.w[0] = (a.w[0] << 8) | b; return r; }
static inline sp sp_n(void) { sp r = {{0xBFD25E8CD0364141ULL, 0xBAAEDCE6AF48A03BULL, 0xFFFFFFFFFFFFFFFEULL, 0xFFFFFFFFFFFFFFFFULL, 0}}; return r; }
static inline sp sp_p(void) { sp r = {{0xFFFFFFFEFFFFFC2FULL, 0xFFFFFFFFFFFFFFFFULL, 0xFFFFFFFFFFFFFFFFULL, 0xFFFFFFFFFFFFFFFFULL, 0}}; return r; }
#endif
/* 32 bytes, most significant first (secret keys, tweaks, serialised coordinates) */
static inline sp sp_be32(const unsigned char *b) { sp v = sp_u64(0); int i; for (i = 0; i < 32; i++) v = sp_shl8_or(v, b[i]); return v; }
/* 32 bytes, least significant first (the 4x64 storage words inside secp256k1_pubkey / _keypair on this little-endian target) */
static inline sp sp_le32(const unsigned char *b) { sp v = sp_u64(0); int i; for (i = 31; i >= 0; i--) v = sp_shl8_or(v, b[i]); return v; }
static inline int sp_is0(sp a) { return sp_eq(a, sp_u64(0)); }
static inline int sp_le(sp a, sp b) { return !sp_lt(b, a); }
/* a mod p for a < 4p (covers every 256-bit value and every magnitude-1 field element) */
static inline sp sp_modp(sp a) { sp p = sp_p(); int i; for (i = 0; i < 3; i++) if (!sp_lt(a, p)) a = sp_sub(a, p); return a; }
/* a mod n for a < 2n */
static inline sp sp_modn(sp a) { sp n = sp_n(); if (!sp_lt(a, n)) a = sp_sub(a, n); return a; }
static inline sp sp_negp(sp a) { return sp_is0(a) ? a : sp_sub(sp_p(), a); }   /* a < p */
static inline sp sp_negn(sp a) { return sp_is0(a) ? a : sp_sub(sp_n(), a); }   /* a < n */
/* secp256k1_ec_seckey_verify's documented predicate: 0 < key < n */
static inline int sp_seckey_valid(sp k) { return !sp_is0(k) && sp_lt(k, sp_n()); }
#endif

/* ---- second part, needs the TU's types and functions: include spec.h again AFTER "src/secp256k1.c" with
 * SPEC_VIEWS defined.  Opaque API objects are never read byte-wise by a harness: they are decoded through the
 * translation unit's own secp256k1_ge_from_bytes / secp256k1_keypair_sec / secp256k1_keypair_pub and the
 * assertions talk about FIELDS (coordinates as integers, compared mod p). ---- */
#if defined(SPEC_VIEWS) && !defined(VERIF_C04_SPEC_VIEWS)
#define VERIF_C04_SPEC_VIEWS
/* integer value of a field element's limbs (not reduced) */
#ifndef VERIF_NATIVE
static inline sp sp_fe(const secp256k1_fe *a) { return fval(a); }
static inline sp sp_sc(const secp256k1_scalar *a) { return sval(a); }
#else
static inline sp sp_fe(const secp256k1_fe *a) {   /* 5x52 limbs (the shipped layout; native replay only) */
    sp r = sp_u64(0); int i;
    for (i = 4; i >= 0; i--) { int k; for (k = 0; k < 6; k++) r = sp_shl8_or(r, 0); for (k = 0; k < 4; k++) r = sp_add(r, r); /* r <<= 52 */ r = sp_add(r, sp_u64(a->n[i])); }
    return r;
}
static inline sp sp_sc(const secp256k1_scalar *a) { sp r = sp_u64(0); r.w[0] = a->d[0]; r.w[1] = a->d[1]; r.w[2] = a->d[2]; r.w[3] = a->d[3]; return r; }
#endif
/* a mod p for a < 9p (any magnitude <= 8 field element) */
static inline sp sp_modp8(sp a) { sp p = sp_p(); int i; for (i = 0; i < 9; i++) if (!sp_lt(a, p)) a = sp_sub(a, p); return a; }
/* coordinates of a pubkey / xonly_pubkey object (64 opaque bytes), reduced mod p; *raw_x_zero = what secp256k1_pubkey_load rejects */
static inline void view_pk64(const unsigned char *data64, sp *x, sp *y, int *invalid) {
    secp256k1_ge g; sp rx;
    secp256k1_ge_from_bytes(&g, data64);
    rx = sp_fe(&g.x); *invalid = sp_is0(rx);
    *x = sp_modp(rx); *y = sp_modp(sp_fe(&g.y));
}
/* y as stored (not reduced): only for the one place where the code looks at the stored parity bit */
static inline sp view_pk64_rawy(const unsigned char *data64) { secp256k1_ge g; secp256k1_ge_from_bytes(&g, data64); return sp_fe(&g.y); }
/* object holds the affine point e (coordinates of magnitude <= 8), compared mod p */
static inline int pk64_is(const unsigned char *data64, const secp256k1_fe *ex, const secp256k1_fe *ey) {
    sp x, y; int inv; view_pk64(data64, &x, &y, &inv);
    return sp_eq(x, sp_modp8(sp_fe(ex))) && sp_eq(y, sp_modp8(sp_fe(ey)));
}
/* keypair object: decoded with the public accessors of the same TU, on a private context */
static inline void view_keypair(const secp256k1_keypair *kp, sp *sk, sp *x, sp *y, int *pk_invalid) {
    secp256k1_context c2; unsigned char sk32[32]; secp256k1_pubkey pub; int si = g_illegal, se = g_error;
    verif_ctx_init(&c2);
    (void)secp256k1_keypair_sec(&c2, sk32, kp); (void)secp256k1_keypair_pub(&c2, &pub, kp);
    *sk = sp_be32(sk32); view_pk64(pub.data, x, y, pk_invalid);
    g_illegal = si; g_error = se;
}
#endif

/* C02: secp256k1_schnorrsig_sign32 (and the deprecated alias secp256k1_schnorrsig_sign) is exactly
 * sign_internal(ctx, sig64, msg32, 32, keypair, secp256k1_nonce_function_bip340, aux_rand32) and hands
 * back its result; nothing else is written.  Composes with C02.sign (sign_custom forwards the same
 * argument tuple to sign_internal, proved there on the real body). */
#define C02_SIGN_INTERNAL_CONTRACT
#include "assumed_C02.h"
#include "src/secp256k1.c"
#include "post.h"
void h_sign32(void) {
    secp256k1_context ctx;
    INPUT(secp256k1_keypair, kp); INPUT_ARR(unsigned char, sig, 64); INPUT_ARR(unsigned char, aux, 32); INPUT_ARR(unsigned char, msg32, 32);
    INPUT(_Bool, alias); INPUT(_Bool, use_sig); INPUT(_Bool, use_kp); INPUT(_Bool, use_aux); INPUT(_Bool, use_msg);
    int ret;
    verif_ctx_init(&ctx); g_si_n = 0;
    if (alias) ret = secp256k1_schnorrsig_sign(&ctx, use_sig ? sig : NULL, use_msg ? msg32 : NULL, use_kp ? &kp : NULL, use_aux ? aux : NULL);
    else ret = secp256k1_schnorrsig_sign32(&ctx, use_sig ? sig : NULL, use_msg ? msg32 : NULL, use_kp ? &kp : NULL, use_aux ? aux : NULL);
    __CPROVER_assert(g_si_n == 1 && ret == g_si_ret, "C02 sign32: exactly one sign_internal call whose result is returned");
    __CPROVER_assert(g_si_ctx == &ctx && g_si_sig == (use_sig ? sig : NULL) && g_si_kp == (use_kp ? &kp : NULL), "C02 sign32: context, output buffer and keypair are forwarded");
    __CPROVER_assert(g_si_msg == (use_msg ? msg32 : NULL) && g_si_msglen == 32, "C02 sign32: message is msg32 with length exactly 32");
    __CPROVER_assert((g_si_fp == secp256k1_nonce_function_bip340 || g_si_fp == NULL) && g_si_ndata == (use_aux ? (void *)aux : NULL), "C02 sign32: BIP-340 nonce function (named, or NULL = default) with aux_rand32 (or NULL) as its data");
    __CPROVER_assert(g_illegal == 0 && g_error == 0, "C02 sign32: no callback of its own");
    if (alias) REACH("sign alias"); else REACH("sign32");
}

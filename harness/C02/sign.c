/* C02: secp256k1_schnorrsig_sign_custom -> secp256k1_schnorrsig_sign_internal (sign32: see h_sign32 below): gates and wiring of
 * BIP-340 signing for every keypair object, every message length, every nonce-function outcome.
 *   failure (without API misuse) => sig64 = 0^64;  nonce function returns 0, or nonce = 0 mod n => ret 0;
 *   invalid keypair object => ret 0;  bad extraparams magic => illegal callback, ret 0;
 *   d' = n - d iff y(P) odd (d' is the key handed to the nonce function and to the e*d' product);
 *   nonce function receives (msg, msglen, be(d'), be(x(P)), "BIP0340/nonce", ndata);
 *   R = affine(ecmult_gen(k)), k = be256(nonce32) mod n;  k' = n - k iff y(R) odd;
 *   sig[0..32) = be(x(R));  challenge receives (sig[0..32), msg, msglen, be(x(P)));
 *   sig[32..64) = be((e*d' + k') mod n), e*d' being the one product requested from the scalar_mul oracle.
 * Oracles: ecmult_gen, ge_set_gej, scalar_mul (ghost logs).  challenge / nonce_function_bip340_impl:
 * ghost-logging contracts (bodies proved in C02.challenge / C02.nonce). */
#define LOG_SCALAR_MUL
#define LOG_ECMULT_GEN
#define LOG_GE_SET_GEJ
#define C02_CHALLENGE_CONTRACT
#define C02_NONCE_CONTRACT
#include "assumed_C02.h"
#include "src/secp256k1.c"
#include "post.h"

#ifndef VERIF_NATIVE
static wide le256(const unsigned char *b) { wide v = 0; int i; for (i = 31; i >= 0; i--) v = (v << 8) | W(b[i]); return v; }
static wide fmodp(wide v) { wide p = P_(); if (v >= p) v -= p; if (v >= p) v -= p; if (v >= p) v -= p; return v; }
int nondet_stub_ret(void);
struct b32 { unsigned char a[32]; }; struct b32 nondet_stub_out(void);

/* caller-supplied nonce function: arbitrary output, arbitrary int result; records what it was given */
static int stub_nonce(unsigned char *nonce32, const unsigned char *msg, size_t msglen, const unsigned char *key32, const unsigned char *xonly_pk32, const unsigned char *algo, size_t algolen, void *data) {
    struct b32 o = nondet_stub_out(); int r = nondet_stub_ret();
    memcpy(nonce32, o.a, 32);
    if (g_nf_n == 0) {
        g_nf_which = 1; g_nf_ret = r; g_nf_msgp = msg; g_nf_algop = algo; g_nf_data = data; g_nf_msglen = msglen; g_nf_algolen = algolen; g_nf_hc = NULL;
        memcpy(g_nf_key, key32, 32); memcpy(g_nf_pk, xonly_pk32, 32); memcpy(g_nf_out, nonce32, 32);
    }
    g_nf_n++;
    return r;
}

void h_sign(void) {
    secp256k1_context ctx; secp256k1_schnorrsig_extraparams ep;
    INPUT(secp256k1_keypair, kp); INPUT_ARR(unsigned char, sig, 64); INPUT_ARR(unsigned char, aux, 32); INPUT_ARR(unsigned char, magic, 4);
    INPUT(int, nf_sel); INPUT(_Bool, built); INPUT(_Bool, use_sig); INPUT(_Bool, use_kp); INPUT(_Bool, use_ep); INPUT(_Bool, use_ndata); INPUT(_Bool, msg_null);
    INPUT(size_t, msglen); INPUT(size_t, gi);
    static const unsigned char bip[13] = {'B','I','P','0','3','4','0','/','n','o','n','c','e'};
    unsigned char *msg, *mbuf; int ret, args_ok, magic_ok, kp_valid, i, algo_ok;
    wide skv, px, py, n = N_(), p = P_(), k, rx, ry, skp, kk, sum;
    __CPROVER_assume(msglen <= 100000 && (nf_sel >= 0 && nf_sel <= 2) && gi < 64);
    INPUT_BUF(msgw, mbuf, msglen, 64);
    msg = msg_null ? NULL : mbuf;
    skv = be256(&kp.data[0]); px = le256(&kp.data[32]); py = le256(&kp.data[64]);
    /* representation invariant of a keypair object: stored public coordinates are reduced (x = 0, sk = 0, sk >= n are the "invalid object" cases and stay in) */
    __CPROVER_assume(px < p && py < p);
    verif_ctx_init(&ctx); ctx.hash_ctx.fn_sha256_compression = secp256k1_sha256_transform; ctx.ecmult_gen_ctx.built = built;
    memcpy(ep.magic, magic, 4); ep.noncefp = nf_sel == 0 ? NULL : nf_sel == 1 ? secp256k1_nonce_function_bip340 : stub_nonce; ep.ndata = use_ndata ? aux : NULL;
    g_mul_n = 0; g_gen_n = 0; g_sg_n = 0; g_nf_n = 0; CHALLENGE_RESET(0);
    magic_ok = (magic[0] == 0xda && magic[1] == 0x6f && magic[2] == 0xb3 && magic[3] == 0x8c);

    ret = secp256k1_schnorrsig_sign_custom(&ctx, use_sig ? sig : NULL, msg, msglen, use_kp ? &kp : NULL, use_ep ? &ep : NULL);
    WITNESS_BUF(msgw, mbuf, msglen, 64);

    __CPROVER_assert(ret == 0 || ret == 1, "C02 sign: returns 0 or 1");
    __CPROVER_assert(g_error == 0, "C02 sign: error callback never invoked");
    /* API misuse and invalid objects: only what the header promises (illegal callback, 0); no call counts, nothing about outputs */
    if (use_ep && !magic_ok) __CPROVER_assert(ret == 0 && g_illegal >= 1, "C02 sign_custom: bad extraparams magic reports illegal use and returns 0");
    args_ok = built && use_sig && use_kp && (msg != NULL || msglen == 0) && (!use_ep || magic_ok);
    if (!args_ok) { __CPROVER_assert(ret == 0 && g_illegal >= 1, "C02 sign: API misuse reports illegal use and returns 0"); REACH("sign API misuse"); return; }
    if (ret == 0) __CPROVER_assert(sig[gi] == 0, "C02 sign: failure leaves sig64 all-zero");
    kp_valid = (skv != 0 && skv < n && px != 0);
    if (!kp_valid) {
        __CPROVER_assert(ret == 0 && g_illegal >= 1, "C02 sign: invalid keypair object reports illegal use and returns 0");
        if (px != 0) REACH("sign invalid secret key");
        if (px == 0) REACH("sign invalid public key");
        return;
    }
    /* valid keypair from here on */
    __CPROVER_assert(g_illegal == 0, "C02 sign: no callback for a valid keypair and well-formed arguments");
    __CPROVER_assert(g_nf_n == 1, "C02 sign: the nonce function is consulted exactly once for a valid keypair");
    if (g_nf_n != 1) return;     /* the log below is meaningful only then (and g_nf_algop is a logged pointer) */
    k = be256(g_nf_out); if (k >= n) k -= n;
    __CPROVER_assert(ret == ((g_nf_ret != 0 && k != 0) ? 1 : 0), "C02 sign: with a valid keypair, succeeds iff the nonce function succeeded and nonce != 0 mod n");
    /* what the nonce function was given */
    algo_ok = (g_nf_algolen == 13 && g_nf_algop != NULL); if (algo_ok) for (i = 0; i < 13; i++) algo_ok &= (g_nf_algop[i] == bip[i]);
    __CPROVER_assert(g_nf_msgp == msg && g_nf_msglen == msglen && algo_ok, "C02 sign: nonce function receives the caller's msg, exactly msglen, algo = BIP0340/nonce");
    __CPROVER_assert(g_nf_data == ((use_ep && use_ndata) ? aux : NULL), "C02 sign_custom: nonce function receives extraparams->ndata (NULL without extraparams)");
    __CPROVER_assert(g_nf_which == ((use_ep && nf_sel == 2) ? 1 : 0), "C02 sign_custom: a custom noncefp is used iff given; NULL or secp256k1_nonce_function_bip340 select the BIP-340 nonce function");
    if (g_nf_which == 0) __CPROVER_assert(g_nf_hc == &ctx.hash_ctx || g_nf_hc == &secp256k1_context_static->hash_ctx, "C02 sign_custom: the BIP-340 nonce function runs on a library hash context (the caller's or the static one)");
    skp = (py & 1) ? n - skv : skv;
    __CPROVER_assert(be256(g_nf_key) == skp, "C02 sign: key handed to the nonce function is d negated iff y(P) is odd");
    __CPROVER_assert(be256(g_nf_pk) == px, "C02 sign: nonce function receives be(x(P))");
    if (ret == 1) {
        /* usage of the oracles, stated over VALUES, only on the success path */
        __CPROVER_assert(g_gen_n == 1 && g_sg_n == 1 && g_chal_n == 1 && g_mul_n == 1 && g_chal_hit, "C02 sign: success uses one R = k*G, one affine conversion, one challenge, one product");
        __CPROVER_assert(sval(&g_gen_a0) == k, "C02 sign: R = k*G for k = nonce32 mod n");
        __CPROVER_assert(FE_EQ(g_sg_a0.x, g_gen_r0.x) && FE_EQ(g_sg_a0.y, g_gen_r0.y) && FE_EQ(g_sg_a0.z, g_gen_r0.z) && g_sg_a0.infinity == g_gen_r0.infinity, "C02 sign: R is the ecmult_gen result");
        rx = fmodp(fval(&g_sg_r0.x)); ry = fmodp(fval(&g_sg_r0.y));
        __CPROVER_assert(be256(g_chal_r32) == rx && be256(g_chal_pk) == px && g_chal_msgp == msg && g_chal_msglen == msglen, "C02 sign: challenge receives be(x(R)), the caller's msg, exactly msglen, be(x(P))");
        __CPROVER_assert((sval(&g_mul_a0) == sval(&g_chal_e) && sval(&g_mul_b0) == skp) || (sval(&g_mul_b0) == sval(&g_chal_e) && sval(&g_mul_a0) == skp), "C02 sign: the product requested is e * d' in either operand order (e from challenge, d' = d negated iff y(P) odd)");
        __CPROVER_assert(be256(&sig[0]) == rx, "C02 sign: sig[0..32) = be(x(R))");
        kk = (ry & 1) ? n - k : k;
        sum = sval(&g_mul_r0) + kk; if (sum >= n) sum -= n;
        __CPROVER_assert(be256(&sig[32]) == sum, "C02 sign: sig[32..64) = be(e*d' + k') with k negated iff y(R) is odd");
        if ((py & 1) && (ry & 1)) REACH("sign success, P odd, R odd");
        if (!(py & 1) && !(ry & 1)) REACH("sign success, P even, R even");
        if (use_ep && nf_sel == 1 && use_ndata) REACH("sign_custom success with secp256k1_nonce_function_bip340 and aux data");
        if (g_nf_which == 1) REACH("sign_custom success with custom nonce function");
        if (!use_ep) REACH("sign_custom success without extraparams");
        if (msglen == 0 && msg == NULL) REACH("sign success empty NULL message");
    }
    if (g_nf_ret == 0) REACH("sign nonce function fails");
    if (g_nf_ret != 0 && k == 0) REACH("sign zero nonce");
}
#endif

/* C02: nonce_function_bip340_impl - data wiring of the BIP-340 nonce derivation, for EVERY msglen,
 * every algo string (NULL / "BIP0340/nonce" / anything else of any length <= 200), aux present or absent.
 *   masked key = key32 XOR TaggedHash_aux(data)   if data != NULL
 *              = key32 XOR ZERO_MASK              if data == NULL  (ZERO_MASK = H_aux(0^32): C02.midstates)
 *   nonce32    = digest of [tag midstate | generic SHA256(algo)||SHA256(algo)] || masked(32) || pk(32) || msg(msglen)
 * STREAM level: sha256_write/_finalize are replaced by the stream contracts (hash_log.h + second finalize watch); the
 * block-level idiom (harness/hash_blocks.h) was not affordable here (up to three chained hash computations with two
 * symbolic lengths).  Tolerated restructurings: for algo = "BIP0340/nonce" either the precomputed midstate or the generic
 * tagged initialisation; any split of the writes.  Still pinned (stream-level residue): hashing goes through
 * secp256k1_sha256_write/_finalize, and the aux hash is computed before the tag hash. */
#define C02_HASHLOG2
#include "assumed_C02.h"
#include "src/secp256k1.c"
#include "post.h"

void h_nonce(void) {
    INPUT_ARR(unsigned char, key32, 32); INPUT_ARR(unsigned char, pk32, 32); INPUT_ARR(unsigned char, aux, 32);
    INPUT(_Bool, use_data); INPUT(_Bool, use_algo); INPUT(_Bool, msg_null);
    INPUT(size_t, msglen); INPUT(size_t, algolen); INPUT(int, we); INPUT(int, we2); INPUT(uint64_t, wpos);
    static const unsigned char bip[13] = {'B','I','P','0','3','4','0','/','n','o','n','c','e'};
    unsigned char nonce32[32]; unsigned char *msg, *algo; secp256k1_hash_ctx hc;
    int ret, is_bip, e_main, generic, i, same;
    __CPROVER_assume(msglen <= 100000 && algolen <= 200);
    INPUT_BUF(msgw, msg, msglen, 64);
    INPUT_BUF(algow, algo, algolen, 32);
    if (msglen == 0 && msg_null) msg = NULL;
    hc.fn_sha256_compression = secp256k1_sha256_transform;
    HASHLOG_RESET(); g_we = we; g_we2 = we2; g_wpos = wpos;

    ret = nonce_function_bip340_impl(&hc, nonce32, msg, msglen, key32, pk32, use_algo ? algo : NULL, algolen, use_data ? aux : NULL);
    WITNESS_BUF(msgw, msg, msglen, 64);

    is_bip = (algolen == 13);
    if (is_bip) for (i = 0; i < 13; i++) is_bip &= (algo[i] == bip[i]);
    if (!use_algo) {
        __CPROVER_assert(ret == 0, "C02 nonce: algo == NULL returns 0");
        REACH("nonce algo NULL");
        return;
    }
    __CPROVER_assert(ret == 1, "C02 nonce: returns 1 whenever algo != NULL");
    /* layout of the hash computations: [aux] then either main-from-midstate or tag hash + main-from-initial-state */
    e_main = g_fin_n - 1; generic = (g_fin_n == (use_data ? 1 : 0) + 2);
    __CPROVER_assert(generic || (is_bip && g_fin_n == (use_data ? 1 : 0) + 1), "C02 nonce: hash computations = [aux] + main (BIP0340/nonce midstate) or [aux] + tag hash + main (generic tagged hash; mandatory for any other algo)");
    if (!(generic || (is_bip && g_fin_n == (use_data ? 1 : 0) + 1))) return;
    if (use_data && g_we == 0 && g_wpos == 70) REACH("nonce aux hash input byte");
    if (generic && g_we == e_main - 1 && algolen > 5 && g_wpos == 3) REACH("nonce tag hash input byte");
    if (generic && algolen == 0 && g_we == e_main - 1) REACH("nonce tag hash of the empty algo");
    if (use_data && g_we == 0) {
        __CPROVER_assert(g_w_started && g_w_b0 == 64 && g_w_s0 == 0x24dd3219ul && g_w_s7 == 0x249e850aul, "C02 nonce: aux hash starts from the BIP0340/aux midstate with 64 bytes absorbed");
        __CPROVER_assert(g_w_fin && g_w_end == 96, "C02 nonce: aux hash absorbs exactly 32 bytes");
        if (g_wpos >= 64 && g_wpos < 96) __CPROVER_assert(g_w_hit && g_w_byte == aux[g_wpos - 64], "C02 nonce: aux hash input is data[0..32)");
    }
    if (generic && g_we == e_main - 1) {
        __CPROVER_assert(g_w_fin && g_w_end == (uint64_t)algolen, "C02 nonce: generic tag hash absorbs exactly algolen bytes");
        if (algolen > 0) __CPROVER_assert(g_w_started && g_w_b0 == 0 && g_w_s0 == 0x6a09e667ul && g_w_s7 == 0x5be0cd19ul, "C02 nonce: generic tag hash starts from the SHA-256 initial state");
        if (g_wpos < (uint64_t)algolen) __CPROVER_assert(g_w_hit && g_w_byte == algo[g_wpos], "C02 nonce: generic tag hash input is algo[0..algolen)");
    }
    if (g_we == e_main) {
        __CPROVER_assert(g_w_started && g_w_fin, "C02 nonce: main hash written and finalized");
        if (!generic) __CPROVER_assert(g_w_b0 == 64 && g_w_s0 == 0x46615b35ul && g_w_s7 == 0x68b07b4cul, "C02 nonce: algo = BIP0340/nonce without tag hash starts from the BIP0340/nonce midstate with 64 bytes absorbed");
        else {
            __CPROVER_assert(g_w_b0 == 0 && g_w_s0 == 0x6a09e667ul && g_w_s7 == 0x5be0cd19ul, "C02 nonce: generic tagged hash starts from the SHA-256 initial state");
            if (g_we2 == e_main - 1 && g_wpos < 64) __CPROVER_assert(g_w2_fin && g_w_hit && g_w_byte == g_w2_dig[g_wpos % 32], "C02 nonce: generic tagged hash: first 64 bytes are SHA256(algo)||SHA256(algo)");
        }
        __CPROVER_assert(g_w_end == 128 + (uint64_t)msglen, "C02 nonce: main hash length is 64 + 32 + 32 + msglen for every msglen");
        if (g_wpos >= 64 && g_wpos < 128 + (uint64_t)msglen) {
            __CPROVER_assert(g_w_hit, "C02 nonce: every stream position of the main hash is written");
            if (g_wpos < 96) {
                if (!use_data) __CPROVER_assert(g_w_byte == (key32[g_wpos - 64] ^ C02_ZERO_MASK_SPEC[g_wpos - 64]), "C02 nonce: data == NULL: masked key = key XOR TaggedHash_aux(0^32)");
                else if (g_we2 == 0) __CPROVER_assert(g_w2_fin && g_w_byte == (key32[g_wpos - 64] ^ g_w2_dig[g_wpos - 64]), "C02 nonce: data != NULL: masked key = key XOR TaggedHash_aux(data)");
            }
            else if (g_wpos < 128) __CPROVER_assert(g_w_byte == pk32[g_wpos - 96], "C02 nonce: bytes 32..63 are the x-only public key");
            else __CPROVER_assert(g_w_byte == msg[g_wpos - 128], "C02 nonce: bytes 64.. are the whole message");
        }
        same = 1; for (i = 0; i < 32; i++) same &= (nonce32[i] == g_w_dig[i]);
        __CPROVER_assert(same, "C02 nonce: nonce32 is the digest of the main hash");
        if (g_wpos == 128 + 70000 && msglen > 70001) REACH("nonce long message position");
        if (use_data && is_bip && !generic && g_we2 == 0 && g_wpos == 70) REACH("nonce aux present, BIP algo via midstate, masked key byte");
        if (!use_data && generic && g_we2 == 0 && g_wpos == 5) REACH("nonce aux absent, generic algo, tag prefix byte");
        if (!use_data && g_wpos == 70) REACH("nonce aux absent, masked key byte (ZERO_MASK)");
        if (use_data && generic && g_we2 == 0 && g_wpos == 70) REACH("nonce aux present, generic algo, masked key byte");
        if (g_wpos == 100) REACH("nonce public key byte");
        if (use_data && generic && algolen == 0) REACH("nonce empty algo");
        if (msglen == 0 && msg == NULL) REACH("nonce empty NULL message");
    }
    REACH("nonce end");
}

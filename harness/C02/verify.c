/* C02: secp256k1_schnorrsig_verify - the BIP-340 Verify gates, for all 64-byte strings, all message
 * lengths, all x-only key objects (NULL-or-object for each pointer).
 *   r >= p => 0 (real fe_set_b32_limit); s >= n => 0 (real scalar_set_b32); key object with x = 0 => 0;
 *   challenge receives exactly (sig64[0..32), msg, msglen, be(x(pk)));  ecmult computes (-e)*P + s*G for
 *   exactly that e, P = the key's point, s = sig64[32..64);  R = infinity => 0;
 *   ret = 1  <=>  all gates passed, y(R) even and x(R) = r   (R = the affine point the oracle handed back).
 * Oracles: ecmult, ge_set_gej_var (ghost logs).  challenge: ghost-logging contract (proved in C02.challenge). */
#define LOG_ECMULT
#define LOG_GE_SET_GEJ
#define C02_CHALLENGE_CONTRACT
#include "assumed_C02.h"
#include "src/secp256k1.c"
#include "post.h"

#ifndef VERIF_NATIVE
static wide le256(const unsigned char *b) { wide v = 0; int i; for (i = 31; i >= 0; i--) v = (v << 8) | W(b[i]); return v; }
static wide fmodp(wide v) { wide p = P_(); if (v >= p) v -= p; if (v >= p) v -= p; if (v >= p) v -= p; return v; }
#endif

void h_verify(void) {
    secp256k1_context ctx;
    INPUT_ARR(unsigned char, sig, 64); INPUT(secp256k1_xonly_pubkey, pk);
    INPUT(_Bool, use_sig); INPUT(_Bool, use_pk); INPUT(_Bool, msg_null); INPUT(size_t, msglen);
    unsigned char *msg, *mbuf; int ret, args_ok, gates; wide r, s, px, py, n = N_(), p = P_();
    __CPROVER_assume(msglen <= 100000);
    INPUT_BUF(msgw, mbuf, msglen, 64);
    msg = msg_null ? NULL : mbuf;
    px = le256(&pk.data[0]); py = le256(&pk.data[32]);
    /* representation invariant of an x-only key object: both stored coordinates are reduced (x = 0 is allowed here: it is the "invalid object" case) */
    __CPROVER_assume(px < p && py < p);
    verif_ctx_init(&ctx); ctx.hash_ctx.fn_sha256_compression = secp256k1_sha256_transform;
    g_ecmult_n = 0; g_sg_n = 0; CHALLENGE_RESET(0);
    r = be256(&sig[0]); s = be256(&sig[32]);

    ret = secp256k1_schnorrsig_verify(&ctx, use_sig ? sig : NULL, msg, msglen, use_pk ? &pk : NULL);
    WITNESS_BUF(msgw, mbuf, msglen, 64);

    __CPROVER_assert(ret == 0 || ret == 1, "C02 verify: returns 0 or 1");
    __CPROVER_assert(g_error == 0, "C02 verify: error callback never invoked");
    args_ok = use_sig && use_pk && (msg != NULL || msglen == 0);
    /* rejections: only the result is demanded (no order of checks, no call counts) */
    if (!args_ok) __CPROVER_assert(ret == 0 && g_illegal >= 1, "C02 verify: NULL argument reports illegal use and returns 0");
    if (args_ok && r >= p) __CPROVER_assert(ret == 0, "C02 verify: r >= p is rejected");
    if (args_ok && s >= n) __CPROVER_assert(ret == 0, "C02 verify: s >= n is rejected");
    if (args_ok && px == 0) __CPROVER_assert(ret == 0, "C02 verify: invalid public key object (x = 0) is rejected");
    gates = args_ok && r < p && s < n && px != 0;
    if (gates) {
        wide ev = sval(&g_chal_e);
        /* once every range gate passes the verdict depends on R, so the three oracles are needed exactly once */
        __CPROVER_assert(g_chal_n == 1 && g_ecmult_n == 1 && g_sg_n == 1 && g_chal_hit, "C02 verify: one challenge, one ecmult, one affine conversion when all range gates pass");
        __CPROVER_assert(g_illegal == 0, "C02 verify: no callback on well-formed arguments");
        __CPROVER_assert(be256(g_chal_r32) == r && g_chal_msgp == msg && g_chal_msglen == msglen, "C02 verify: challenge receives the bytes sig64[0..32), the caller's msg and exactly msglen");
        __CPROVER_assert(be256(g_chal_pk) == px, "C02 verify: challenge receives be(x(pk))");
        __CPROVER_assert(g_ecmult_has_na0 && g_ecmult_has_ng0 && sval(&g_ecmult_ng0) == s, "C02 verify: G multiplier is s = sig64[32..64)");
        __CPROVER_assert(sval(&g_ecmult_na0) == (ev == 0 ? 0 : n - ev), "C02 verify: P multiplier is -e for the e returned by challenge");
        __CPROVER_assert(fval(&g_ecmult_a0.x) == px && fval(&g_ecmult_a0.y) == py && fval(&g_ecmult_a0.z) == 1 && g_ecmult_a0.infinity == 0, "C02 verify: the point multiplied is the public key");
        __CPROVER_assert(FE_EQ(g_sg_a0.x, g_ecmult_r0.x) && FE_EQ(g_sg_a0.y, g_ecmult_r0.y) && FE_EQ(g_sg_a0.z, g_ecmult_r0.z) && g_sg_a0.infinity == g_ecmult_r0.infinity, "C02 verify: R is the ecmult result");
        if (g_sg_r0.infinity) __CPROVER_assert(ret == 0, "C02 verify: R at infinity is rejected");
        else {
            wide rx = fmodp(fval(&g_sg_r0.x)), ry = fmodp(fval(&g_sg_r0.y));
            __CPROVER_assert(ret == (((ry & 1) == 0 && rx == r) ? 1 : 0), "C02 verify: accepts iff y(R) is even and x(R) = r");
            if (ret == 1) REACH("verify accepts");
            if (ret == 0 && rx == r) REACH("verify rejects odd y");
            if (ret == 0 && (ry & 1) == 0) REACH("verify rejects x mismatch");
            if (ret == 1 && fval(&g_sg_r0.x) >= p) REACH("verify accepts with unreduced oracle x");
            if (ret == 1 && msglen == 0 && msg == NULL) REACH("verify accepts empty NULL message");
            if (ret == 1 && msglen == 99999) REACH("verify accepts long message");
        }
        if (g_sg_r0.infinity) REACH("verify R infinity");
    }
    if (args_ok && r >= p) REACH("verify r >= p");
    if (args_ok && r < p && s >= n) REACH("verify s >= n");
    if (args_ok && r < p && s < n && px == 0) REACH("verify invalid key");
    if (!args_ok) REACH("verify NULL argument");
}

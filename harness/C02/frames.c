/* C02: the NON-GHOST part of the two contracts by which C02.verify / C02.sign / C17.aggverify replace
 * secp256k1_schnorrsig_challenge and nonce_function_bip340_impl is enforced against the real bodies:
 * under the stated pointer-validity preconditions the functions are memory safe, write nothing but
 * *e resp. nonce32[0..32) (DFCC frame check), e is a reduced scalar, the result is 0 or 1.
 * (Their data wiring is C02.challenge / C02.nonce; the ghost logs of the replacing contracts record
 * arguments only.)  sha256_write/_finalize: stream contracts. */
#define C02_HASHLOG2
#define C02_NONCE_FRAME
#define C02_FRAME_UNITS
#include "assumed_C02.h"
#include "src/secp256k1.c"
#include "post.h"

void h_challenge_frame(void) {
    INPUT_ARR(unsigned char, r32, 32); INPUT_ARR(unsigned char, pk32, 32); INPUT(size_t, msglen); INPUT(_Bool, msg_null);
    unsigned char *msg; secp256k1_scalar e; secp256k1_hash_ctx hc;
    __CPROVER_assume(msglen <= 100000);
    INPUT_BUF(msgw, msg, msglen, 64);
    if (msglen == 0 && msg_null) msg = NULL;
    hc.fn_sha256_compression = secp256k1_sha256_transform; HASHLOG_RESET(); g_we = 0; g_we2 = 0; g_wpos = 0;
    secp256k1_schnorrsig_challenge(&hc, &e, r32, msg, msglen, pk32);
    REACH("challenge frame end");
}
void h_nonce_frame(void) {
    INPUT_ARR(unsigned char, key32, 32); INPUT_ARR(unsigned char, npk32, 32); INPUT_ARR(unsigned char, aux, 32);
    INPUT(_Bool, use_data); INPUT(_Bool, use_algo); INPUT(_Bool, nmsg_null); INPUT(size_t, nmsglen); INPUT(size_t, algolen);
    unsigned char nonce32[32]; unsigned char *msg, *algo; secp256k1_hash_ctx hc; int ret;
    __CPROVER_assume(nmsglen <= 100000 && algolen <= 200);
    INPUT_BUF(nmsgw, msg, nmsglen, 64); INPUT_BUF(algow, algo, algolen, 32);
    if (nmsglen == 0 && nmsg_null) msg = NULL;
    hc.fn_sha256_compression = secp256k1_sha256_transform; HASHLOG_RESET(); g_we = 0; g_we2 = 0; g_wpos = 0;
    ret = nonce_function_bip340_impl(&hc, nonce32, msg, nmsglen, key32, npk32, use_algo ? algo : NULL, algolen, use_data ? aux : NULL);
    if (ret) REACH("nonce frame success"); else REACH("nonce frame algo NULL");
}

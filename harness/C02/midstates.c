/* C02 (shared with C12/C14/C15/C17/C18/C19): every hard-coded tagged-hash midstate of the library
 * equals the state of the REAL SHA-256 code after absorbing SHA256(tag) || SHA256(tag), and the
 * hard-coded ZERO_MASK of the BIP-340 nonce function equals TaggedHash("BIP0340/aux", 0^32).
 * All inputs are constants: symex evaluates the real compression function concretely; no oracle,
 * no assumption.  The tag strings are the specification (BIP-340/327/324, half-agg draft, module docs). */
#include "assumed_C02.h"
#include "src/secp256k1.c"
#include "post.h"

#define MID(fn, tag, text) do { \
    static const unsigned char t_[] = tag; secp256k1_sha256 a_, b_; int i_, ok_ = 1; \
    secp256k1_sha256_initialize_tagged(&hc, &a_, t_, sizeof(t_) - 1); \
    fn(&b_); \
    for (i_ = 0; i_ < 8; i_++) ok_ &= (a_.s[i_] == b_.s[i_]); \
    __CPROVER_assert(ok_ && a_.bytes == 64 && b_.bytes == 64, "C02 midstates: " text " midstate = SHA-256 state after SHA256(tag)||SHA256(tag), 64 bytes absorbed"); \
    nchecked++; \
} while (0)

void h_midstates(void) {
    secp256k1_hash_ctx hc; int nchecked = 0;
    hc.fn_sha256_compression = secp256k1_sha256_transform;
    MID(secp256k1_nonce_function_bip340_sha256_tagged, "BIP0340/nonce", "BIP0340/nonce");
    MID(secp256k1_nonce_function_bip340_sha256_tagged_aux, "BIP0340/aux", "BIP0340/aux");
    MID(secp256k1_schnorrsig_sha256_tagged, "BIP0340/challenge", "BIP0340/challenge");
    MID(secp256k1_schnorrsig_sha256_tagged_aggregation, "HalfAgg/randomizer", "HalfAgg/randomizer");
    MID(secp256k1_nonce_function_musig_sha256_tagged_aux, "MuSig/aux", "MuSig/aux");
    MID(secp256k1_nonce_function_musig_sha256_tagged, "MuSig/nonce", "MuSig/nonce");
    MID(secp256k1_musig_compute_noncehash_sha256_tagged, "MuSig/noncecoef", "MuSig/noncecoef");
    MID(secp256k1_musig_keyagglist_sha256, "KeyAgg list", "KeyAgg list");
    MID(secp256k1_musig_keyaggcoef_sha256, "KeyAgg coefficient", "KeyAgg coefficient");
    MID(secp256k1_s2c_ecdsa_point_sha256_tagged, "s2c/ecdsa/point", "s2c/ecdsa/point");
    MID(secp256k1_s2c_ecdsa_data_sha256_tagged, "s2c/ecdsa/data", "s2c/ecdsa/data");
    MID(secp256k1_nonce_function_ecdsa_adaptor_sha256_tagged, "ECDSAadaptor/non", "ECDSAadaptor/non");
    MID(secp256k1_nonce_function_ecdsa_adaptor_sha256_tagged_aux, "ECDSAadaptor/aux", "ECDSAadaptor/aux");
    MID(secp256k1_nonce_function_dleq_sha256_tagged, "DLEQ", "DLEQ");
    MID(secp256k1_bppp_sha256_tagged_commitment_init, "Bulletproofs_pp/v0/commitment", "Bulletproofs_pp/v0/commitment");
    MID(secp256k1_ellswift_sha256_init_encode, "secp256k1_ellswift_encode", "secp256k1_ellswift_encode");
    MID(secp256k1_ellswift_sha256_init_create, "secp256k1_ellswift_create", "secp256k1_ellswift_create");
    MID(secp256k1_ellswift_sha256_init_bip324, "bip324_ellswift_xonly_ecdh", "bip324_ellswift_xonly_ecdh");
    {   /* ZERO_MASK: TaggedHash("BIP0340/aux", 32 zero bytes) with the real code */
        static const unsigned char t_[] = "BIP0340/aux"; unsigned char z[32] = {0}, out[32]; secp256k1_sha256 a_; int i_, ok_ = 1;
        secp256k1_sha256_initialize_tagged(&hc, &a_, t_, sizeof(t_) - 1);
        secp256k1_sha256_write(&hc, &a_, z, 32);
        secp256k1_sha256_finalize(&hc, &a_, out);
        for (i_ = 0; i_ < 32; i_++) ok_ &= (out[i_] == C02_ZERO_MASK_SPEC[i_]);
        __CPROVER_assert(ok_, "C02 midstates: ZERO_MASK constant = TaggedHash(BIP0340/aux, 0^32) computed by the real SHA-256 code");
    }
    if (nchecked == 18) REACH("all 18 midstates evaluated");
}

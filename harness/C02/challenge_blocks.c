/* C02: secp256k1_schnorrsig_challenge at BLOCK level: the real sha256_write/_finalize code runs; only
 * the compression function is an oracle (havocs the state) that logs the 64-byte blocks it is
 * given.  Obligation: the sequence of compressed blocks is exactly the FIPS 180-4 padding of
 * midstate-prefix || r32 || pk32 || msg for EVERY msglen - so any restructuring of the hashing
 * (hand-rolled final block, different write split) is accepted iff it feeds the same blocks. */
#include "pre.h"
#include "src/secp256k1.c"
#include "post.h"
static uint64_t g_blk_total; static int g_calls;
static uint64_t g_wblk; static unsigned g_woff;      /* watched block index / offset: never assigned by code */
static int g_hit; static unsigned char g_byte;
static uint32_t g_s_first[8], g_s_last[8];       /* state before the first compression / after the last one */
static void verif_compress(uint32_t *s, const unsigned char *blocks, size_t n_blocks) {
    int i;
    if (g_wblk >= g_blk_total && g_wblk - g_blk_total < n_blocks) { g_hit++; g_byte = blocks[(g_wblk - g_blk_total) * 64 + g_woff]; }
    if (g_calls == 0) for (i = 0; i < 8; i++) g_s_first[i] = s[i];
    g_blk_total += n_blocks; g_calls++;
    for (i = 0; i < 8; i++) { s[i] = nondet_u32(); g_s_last[i] = s[i]; }
}
void h_challenge_blocks(void) {
    INPUT_ARR(unsigned char, r32, 32); INPUT_ARR(unsigned char, pk32, 32);
    INPUT(size_t, msglen); INPUT(uint64_t, wblk); INPUT(unsigned, woff);
    unsigned char *msg; secp256k1_scalar e; secp256k1_hash_ctx hc;
    uint64_t total, nblocks, pos, bits; unsigned char spec;
    __CPROVER_assume(msglen <= 100000 && woff < 64);
    INPUT_BUF(msgw, msg, msglen, 64);
    hc.fn_sha256_compression = verif_compress;
    g_blk_total = 0; g_calls = 0; g_hit = 0; g_wblk = wblk; g_woff = woff;
    secp256k1_schnorrsig_challenge(&hc, &e, r32, msg, msglen, pk32);
    WITNESS_BUF(msgw, msg, msglen, 64);
    /* FIPS 180-4 5.1.1: message M (here: the 64 midstate bytes already absorbed, then r||pk||msg),
     * then 0x80, then zeros up to 56 mod 64, then the 64-bit big-endian bit length of M */
    total = 64 + (uint64_t)msglen;                    /* bytes after the midstate */
    nblocks = (total + 1 + 8 + 63) / 64;
    bits = (64 + total) * 8;
    {   /* BIP-340: tagged hash with tag "BIP0340/challenge": the state the first block is compressed into is the
         * midstate of SHA256(tag)||SHA256(tag) (its value is checked against the real SHA code in C02.midstates) */
        static const uint32_t mid[8] = { 0x9cecba11ul, 0x23925381ul, 0x11679112ul, 0xd1627e0ful, 0x97c87550ul, 0x003cc765ul, 0x90f61164ul, 0x33e9b66aul };
        int i, same = 1; unsigned char dig[32];
        for (i = 0; i < 8; i++) same &= (g_s_first[i] == mid[i]);
        __CPROVER_assert(g_calls >= 1 && same, "C02 challenge.blocks: hashing starts from the BIP0340/challenge midstate");
#ifndef VERIF_NATIVE
        for (i = 0; i < 8; i++) { dig[4*i] = g_s_last[i] >> 24; dig[4*i+1] = g_s_last[i] >> 16; dig[4*i+2] = g_s_last[i] >> 8; dig[4*i+3] = g_s_last[i]; }
        { wide d = be256(dig), n = N_(); __CPROVER_assert(sval(&e) == (d >= n ? d - n : d), "C02 challenge.blocks: e = (big-endian final state) mod n"); }
#endif
    }
    __CPROVER_assert(g_blk_total == nblocks, "C02 challenge.blocks: number of compressed blocks equals the padded length for every msglen");
    if (g_wblk < nblocks) {
        pos = g_wblk * 64 + g_woff;
        if (pos < 32) spec = r32[pos];
        else if (pos < 64) spec = pk32[pos - 32];
        else if (pos < total) spec = msg[pos - 64];
        else if (pos == total) spec = 0x80;
        else if (pos < nblocks * 64 - 8) spec = 0;
        else spec = (unsigned char)(bits >> (8 * (nblocks * 64 - 1 - pos)));
        __CPROVER_assert(g_hit == 1, "C02 challenge.blocks: every block is compressed exactly once, in order");
        __CPROVER_assert(g_byte == spec, "C02 challenge.blocks: compressed bytes equal pad(r || pk || msg) (FIPS 180-4 padding, bit length includes the tag prefix)");
        if (msglen == 56 && pos == total) REACH("challenge.blocks msglen 56 pad byte");
        if (msglen > 70000 && g_wblk == 1000) REACH("challenge.blocks long message middle block");
    } else {
        __CPROVER_assert(g_hit == 0, "C02 challenge.blocks: nothing beyond the padded message is compressed");
    }
    REACH("challenge.blocks end");
}

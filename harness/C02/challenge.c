/* C02: secp256k1_schnorrsig_challenge hashes exactly tag-midstate || r32 || pk32 || msg[0..msglen)
 * for EVERY msglen, and e = digest mod n.  sha256_write/_finalize replaced by the stream contracts. */
#include "hash_log.h"
#include "src/secp256k1.c"
#include "post.h"
void h_challenge(void) {
    INPUT_ARR(unsigned char, r32, 32); INPUT_ARR(unsigned char, pk32, 32);
    INPUT(size_t, msglen); INPUT(int, we); INPUT(uint64_t, wpos);
    unsigned char *msg; secp256k1_scalar e; secp256k1_hash_ctx hc; wide d, n = N_();
    __CPROVER_assume(msglen <= 100000);
    INPUT_BUF(msgw, msg, msglen, 64);
    hc.fn_sha256_compression = secp256k1_sha256_transform;
    HASHLOG_RESET(); g_we = we; g_wpos = wpos;
    secp256k1_schnorrsig_challenge(&hc, &e, r32, msg, msglen, pk32);
    WITNESS_BUF(msgw, msg, msglen, 64);
    __CPROVER_assert(g_fin_n == 1, "C02 challenge: exactly one hash computation");
    if (g_we == 0) {
        __CPROVER_assert(g_w_started && g_w_b0 == 64 && g_w_s0 == 0x9cecba11ul && g_w_s7 == 0x33e9b66aul, "C02 challenge: starts from the BIP0340/challenge midstate with 64 bytes absorbed");
        __CPROVER_assert(g_w_fin && g_w_end == 64 + 64 + (uint64_t)msglen, "C02 challenge: total hashed length is 64 + msglen for every msglen");
        if (g_wpos >= 64 && g_wpos < 64 + 64 + (uint64_t)msglen) {
            __CPROVER_assert(g_w_hit, "C02 challenge: every stream position is written");
            if (g_wpos < 96) __CPROVER_assert(g_w_byte == r32[g_wpos - 64], "C02 challenge: bytes 0..31 are r");
            else if (g_wpos < 128) __CPROVER_assert(g_w_byte == pk32[g_wpos - 96], "C02 challenge: bytes 32..63 are the public key x");
            else __CPROVER_assert(g_w_byte == msg[g_wpos - 128], "C02 challenge: bytes 64.. are the whole message");
        }
        d = be256(g_w_dig);
        __CPROVER_assert(sval(&e) == (d >= n ? d - n : d), "C02 challenge: e = digest mod n");
        if (g_wpos == 128 + 70000 && msglen > 70001) REACH("challenge long message position");
    }
    REACH("challenge end");
}

/* C12 / C07: codecs of the MuSig objects, real code, arbitrary bytes, every pointer NULL or an object.
 * Oracle: secp256k1_ge_set_xquad ("x is on the curve" verdict + some square root, logged).
 *   pubnonce_parse:    accept <=> both components have prefix 2/3, x < p and a positive curve verdict FOR THAT x;
 *                      the all-zero (infinity) encoding is rejected; serialize(parse(b)) == b
 *   aggnonce_parse:    same, but a component of 33 zero bytes is accepted as infinity (stored as 64 zero bytes,
 *                      serialized back to 33 zero bytes)
 *   partial_sig_parse: accept <=> value < n; on rejection the object is all-zero; serialize(parse(b)) == b
 *   *_serialize:       object without its magic => illegal callback, return 0
 *   keyagg cache / session: save(load(bytes)) == bytes on valid objects (static helpers) */
#define LOG_XQUAD
#include "assumed_musig.h"
#include "src/secp256k1.c"
#include "post.h"

size_t g_k;
#ifndef VERIF_NATIVE
static wide le256(const unsigned char *b) { wide v = 0; int i; for (i = 31; i >= 0; i--) v = (v << 8) | W(b[i]); return v; }
#endif
#ifndef VERIF_NATIVE
static wide modp(wide v) { wide p = P_(); int i; for (i = 0; i < 3; i++) if (v >= p) v -= p; return v; }   /* operands < 3p (magnitude 1) */
/* stored y for a parsed point: the oracle's root or its negation, whichever has the requested parity.  The oracle may hand
 * back y = 0 (mod p) - no curve point has y = 0, but that is an algebraic fact this framework does not state - and then
 * no parity can be honoured; the clauses about y are therefore conditioned on y != 0. */
static int y_ok(wide Y, wide yo, int odd) { wide p = P_(), y = modp(yo); return y == 0 || (Y < p && (Y & 1) == (wide)odd && (Y == y || Y == p - y)); }
#endif
static int all_zero(const unsigned char *b, size_t n) { size_t i; int z = 1; for (i = 0; i < n; i++) z &= (b[i] == 0); return z; }

/* shared by pubnonce (ext = 0) and aggnonce (ext = 1) */
static int nonce_parse_common(int ext) {   /* returns a bit mask of the situations met, for the REACH witnesses of the two entries */
    int seen = 0;
    secp256k1_context ctx;
    INPUT_ARR(unsigned char, in66, 66); INPUT_ARR(unsigned char, obj, 132); INPUT(_Bool, use_obj); INPUT(_Bool, use_in); INPUT(size_t, k);
    secp256k1_musig_pubnonce pn; secp256k1_musig_aggnonce an; unsigned char out66[66];
    static const unsigned char pn_magic[4] = { 0xf5, 0x7a, 0x3d, 0xa0 }, an_magic[4] = { 0xa8, 0xb7, 0xe4, 0x67 };
    unsigned char *d = ext ? an.data : pn.data;
    int ret, ret2, z0, z1, pre0, pre1, acc0, acc1, slot1;
    verif_ctx_init(&ctx); g_xq_n = 0;
    g_k = k; __CPROVER_assume(g_k < 66);
    memcpy(pn.data, obj, 132); memcpy(an.data, obj, 132);

    if (ext) ret = secp256k1_musig_aggnonce_parse(&ctx, use_obj ? &an : NULL, use_in ? in66 : NULL);
    else     ret = secp256k1_musig_pubnonce_parse(&ctx, use_obj ? &pn : NULL, use_in ? in66 : NULL);

    __CPROVER_assert(ret == 0 || ret == 1, "C07 nonce parse: returns 0 or 1");
    __CPROVER_assert(g_error == 0, "C07 nonce parse: error callback never invoked");
    if (!use_obj || !use_in) { __CPROVER_assert(ret == 0 && g_illegal == 1, "C12 nonce parse: NULL argument is illegal"); return 0; }
    __CPROVER_assert(g_illegal == 0, "C07 nonce parse: no callback for any 66 bytes");
#ifndef VERIF_NATIVE
    {
        wide p = P_(), X0 = be256(&in66[1]), X1 = be256(&in66[34]);
        z0 = ext && all_zero(in66, 33); z1 = ext && all_zero(&in66[33], 33);
        pre0 = (in66[0] == 2 || in66[0] == 3) && X0 < p; pre1 = (in66[33] == 2 || in66[33] == 3) && X1 < p;
        slot1 = z0 ? 0 : 1;
        /* component 0 */
        if (z0) acc0 = 1;
        else if (!pre0) { acc0 = 0; __CPROVER_assert(g_xq_n == 0, "C12 nonce parse: bad prefix or x >= p rejected without consulting the curve oracle"); }
        else { __CPROVER_assert(g_xq_n >= 1 && fval(&g_xq_x0) == X0, "C12 nonce parse: curve verdict asked for the x of component 0"); acc0 = g_xq_v0; }
        /* component 1, only looked at when component 0 was accepted */
        acc1 = 0;
        if (acc0) {
            if (z1) acc1 = 1;
            else if (!pre1) acc1 = 0;
            else {
                __CPROVER_assert(g_xq_n == slot1 + 1 && fval(slot1 ? &g_xq_x1 : &g_xq_x0) == X1, "C12 nonce parse: curve verdict asked for the x of component 1");
                acc1 = slot1 ? g_xq_v1 : g_xq_v0;
            }
        }
        __CPROVER_assert(ret == (acc0 && acc1), "C12 nonce parse: accepted exactly when both components are canonical encodings with a positive curve verdict (aggnonce: or 33 zero bytes)");
        if (!ext && (all_zero(in66, 33) || all_zero(&in66[33], 33))) __CPROVER_assert(ret == 0, "C12 pubnonce_parse: the infinity encoding is rejected");
        if (ret == 1) {
            __CPROVER_assert(d[0] == (ext ? an_magic[0] : pn_magic[0]) && d[1] == (ext ? an_magic[1] : pn_magic[1]) && d[2] == (ext ? an_magic[2] : pn_magic[2]) && d[3] == (ext ? an_magic[3] : pn_magic[3]), "C12 nonce parse: object carries its magic");
            if (z0) __CPROVER_assert(all_zero(&d[4], 64), "C12 aggnonce_parse: infinity is stored as 64 zero bytes");
            else __CPROVER_assert(le256(&d[4]) == X0 && y_ok(le256(&d[36]), fval(&g_xq_y0), in66[0] & 1), "C12 nonce parse: component 0 stored with the given x and the root (+/- the oracle's) of the given parity");
            if (z1) __CPROVER_assert(all_zero(&d[68], 64), "C12 aggnonce_parse: infinity is stored as 64 zero bytes (component 1)");
            else __CPROVER_assert(le256(&d[68]) == X1 && y_ok(le256(&d[100]), fval(slot1 ? &g_xq_y1 : &g_xq_y0), in66[33] & 1), "C12 nonce parse: component 1 stored with the given x and the root (+/- the oracle's) of the given parity");
            /* save/load inverse: serialize what was parsed */
            if (ext) ret2 = secp256k1_musig_aggnonce_serialize(&ctx, out66, &an);
            else     ret2 = secp256k1_musig_pubnonce_serialize(&ctx, out66, &pn);
            __CPROVER_assert(ret2 == 1 && g_illegal == 0, "C12 nonce codec: serializing a parsed nonce succeeds");
            if ((z0 || modp(fval(&g_xq_y0)) != 0) && (z1 || modp(fval(slot1 ? &g_xq_y1 : &g_xq_y0)) != 0))
                __CPROVER_assert(out66[g_k] == in66[g_k], "C12 nonce codec: serialize(parse(b)) == b");
            if (z0 && !z1) seen |= 1;
            if (z0 && z1) seen |= 2;
            if (!z0 && !z1 && in66[0] == 3 && in66[33] == 2) seen |= 4;
        }
        if (ret == 0 && acc0 && pre1) seen |= 8;
        if (ret == 0 && all_zero(in66, 66)) seen |= 16;
    }
#endif
    return seen;
}
void h_pubnonce_parse(void) {
    int seen = nonce_parse_common(0);
    if (seen & 4) REACH("pubnonce parse two points");
    if (seen & 8) REACH("pubnonce parse second component off curve");
    if (seen & 16) REACH("pubnonce all-zero rejected");
}
void h_aggnonce_parse(void) {
    int seen = nonce_parse_common(1);
    if (seen & 1) REACH("aggnonce first component infinity");
    if (seen & 2) REACH("aggnonce both components infinity");
    if (seen & 4) REACH("aggnonce parse two points");
    if (seen & 8) REACH("aggnonce parse second component off curve");
}

/* serialize of arbitrary object bytes: wrong magic => illegal + 0; memory safety for any content */
void h_nonce_serialize(void) {
    secp256k1_context ctx;
    INPUT(secp256k1_musig_pubnonce, spn); INPUT(secp256k1_musig_aggnonce, san); INPUT(_Bool, ext); INPUT(_Bool, use_obj); INPUT(_Bool, use_out);
    unsigned char out66[66]; int ret, ok;
    verif_ctx_init(&ctx);
    if (ext) { ret = secp256k1_musig_aggnonce_serialize(&ctx, use_out ? out66 : NULL, use_obj ? &san : NULL); ok = san.data[0] == 0xa8 && san.data[1] == 0xb7 && san.data[2] == 0xe4 && san.data[3] == 0x67; }
    else     { ret = secp256k1_musig_pubnonce_serialize(&ctx, use_out ? out66 : NULL, use_obj ? &spn : NULL); ok = spn.data[0] == 0xf5 && spn.data[1] == 0x7a && spn.data[2] == 0x3d && spn.data[3] == 0xa0; }
    __CPROVER_assert(ret == 0 || ret == 1, "C07 nonce serialize: returns 0 or 1");
    __CPROVER_assert(g_error == 0, "C07 nonce serialize: error callback never invoked");
    if (!use_obj || !use_out || !ok) __CPROVER_assert(ret == 0 && g_illegal == 1, "C12 nonce serialize: NULL argument or object without its magic is illegal, returns 0");
    else __CPROVER_assert(ret == 1 && g_illegal == 0, "C12 nonce serialize: an initialised object serializes");
    if (ret == 1 && ext) REACH("aggnonce serialize ok");
    if (ret == 0 && use_obj && use_out && !ext) REACH("pubnonce serialize wrong magic");
}

void h_partial_sig_codec(void) {
    secp256k1_context ctx;
    INPUT_ARR(unsigned char, in32, 32); INPUT(secp256k1_musig_partial_sig, ps); INPUT(_Bool, use_obj); INPUT(_Bool, use_in); INPUT(_Bool, do_parse); INPUT(size_t, k);
    unsigned char out32[32]; int ret, ret2, ok;
    verif_ctx_init(&ctx);
    g_k = k; __CPROVER_assume(g_k < 36);
    if (!do_parse) {   /* serialize arbitrary object bytes */
        ok = ps.data[0] == 0xeb && ps.data[1] == 0xfb && ps.data[2] == 0x1a && ps.data[3] == 0x32;
        ret = secp256k1_musig_partial_sig_serialize(&ctx, use_in ? out32 : NULL, use_obj ? &ps : NULL);
        __CPROVER_assert(g_error == 0, "C07 partial_sig_serialize: error callback never invoked");
        if (!use_obj || !use_in || !ok) __CPROVER_assert(ret == 0 && g_illegal == 1, "C12 partial_sig_serialize: NULL argument or object without its magic is illegal, returns 0");
        else { __CPROVER_assert(ret == 1 && g_illegal == 0, "C12 partial_sig_serialize: an initialised object serializes"); if (g_k < 32) __CPROVER_assert(out32[g_k] == ps.data[4 + g_k], "C12 partial_sig_serialize: output is the stored scalar"); }
        if (ret == 0 && use_obj && use_in) REACH("partial_sig_serialize wrong magic");
        return;
    }
    ret = secp256k1_musig_partial_sig_parse(&ctx, use_obj ? &ps : NULL, use_in ? in32 : NULL);
    __CPROVER_assert(ret == 0 || ret == 1, "C07 partial_sig_parse: returns 0 or 1");
    __CPROVER_assert(g_error == 0, "C07 partial_sig_parse: error callback never invoked");
    if (!use_obj || !use_in) { __CPROVER_assert(ret == 0 && g_illegal == 1, "C12 partial_sig_parse: NULL argument is illegal"); return; }
    __CPROVER_assert(g_illegal == 0, "C07 partial_sig_parse: no callback for any 32 bytes");
#ifndef VERIF_NATIVE
    __CPROVER_assert(ret == (be256(in32) < N_()), "C12 partial_sig_parse: accepted exactly when the value is < n");
#endif
    if (ret == 0) __CPROVER_assert(ps.data[g_k] == 0, "C12 partial_sig_parse: object all-zero on rejection");
    else {
        ret2 = secp256k1_musig_partial_sig_serialize(&ctx, out32, &ps);
        __CPROVER_assert(ret2 == 1 && g_illegal == 0, "C12 partial_sig codec: serializing a parsed signature succeeds");
        if (g_k < 32) __CPROVER_assert(out32[g_k] == in32[g_k], "C12 partial_sig codec: serialize(parse(b)) == b");
        REACH("partial_sig parse ok");
    }
    if (ret == 0) REACH("partial_sig parse overflow");
}

/* static save/load helpers: save(load(bytes)) == bytes on valid objects */
void h_cache_session_codec(void) {
    secp256k1_context ctx;
    INPUT(secp256k1_musig_keyagg_cache, cache); INPUT(secp256k1_musig_session, sess); INPUT(size_t, k); INPUT(_Bool, which);
    secp256k1_musig_keyagg_cache cache2; secp256k1_musig_session sess2; secp256k1_keyagg_cache_internal ci; secp256k1_musig_session_internal si; int ret;
    verif_ctx_init(&ctx);
    g_k = k;
#ifndef VERIF_NATIVE
    if (which) {
        wide p = P_(), n = N_();
        int ok = cache.data[0] == 0xf4 && cache.data[1] == 0xad && cache.data[2] == 0xbb && cache.data[3] == 0xdf;
        int valid = le256(&cache.data[4]) < p && le256(&cache.data[36]) < p && le256(&cache.data[68]) < p && le256(&cache.data[100]) < p && cache.data[164] <= 1 && be256(&cache.data[165]) < n;
        __CPROVER_assume(g_k < sizeof(cache.data));
        ret = secp256k1_keyagg_cache_load(&ctx, &ci, &cache);
        __CPROVER_assert(ret == ok && g_illegal == !ok && g_error == 0, "C12 keyagg cache: load succeeds exactly on the magic, otherwise illegal callback and 0");
        if (ret) {
            __CPROVER_assert(ci.second_pk.infinity == all_zero(&cache.data[68], 64) && ci.pk.infinity == 0 && (ci.parity_acc == 0 || ci.parity_acc == 1), "C12 keyagg cache: absent second key is the infinity encoding; parity is one bit");
            secp256k1_keyagg_cache_save(&cache2, &ci);
            if (valid) __CPROVER_assert(cache2.data[g_k] == cache.data[g_k], "C12 keyagg cache: save(load(c)) == c on valid caches");
            if (valid && ci.second_pk.infinity) REACH("cache codec without second key");
            if (valid && !ci.second_pk.infinity && cache.data[164] == 1) REACH("cache codec with second key and parity");
        }
    } else {
        wide n = N_();
        int ok = sess.data[0] == 0x9d && sess.data[1] == 0xed && sess.data[2] == 0xe9 && sess.data[3] == 0x17;
        int valid = be256(&sess.data[37]) < n && be256(&sess.data[69]) < n && be256(&sess.data[101]) < n;
        __CPROVER_assume(g_k < sizeof(sess.data));
        ret = secp256k1_musig_session_load(&ctx, &si, &sess);
        __CPROVER_assert(ret == ok && g_illegal == !ok && g_error == 0, "C12 session: load succeeds exactly on the magic, otherwise illegal callback and 0");
        if (ret) {
            secp256k1_musig_session_save(&sess2, &si);
            if (valid) __CPROVER_assert(sess2.data[g_k] == sess.data[g_k], "C12 session: save(load(s)) == s on valid sessions");
            if (valid) REACH("session codec");
        }
    }
#endif
    REACH("codec end");
}

/* C12: secp256k1_musig_pubkey_ec_tweak_add / _xonly_tweak_add (BIP-327 ApplyTweak bookkeeping), real code.
 * Every pointer NULL or an object with arbitrary bytes.  Oracles: secp256k1_ecmult (P + t*G, argument/result
 * log) and secp256k1_ge_set_gej (log).  Real: cache load/save, scalar_set_b32 / negate / add, parity test, negation of y.
 *   tweak >= n                      => 0
 *   xonly and y(Q) odd              => Q := -Q, gacc flips (parity_acc ^= 1), tacc := -tacc
 *   tacc := tacc + t mod n ; Q := Q + t*G (oracle) ; Q = infinity => 0
 *   cache and output written only on success; output_pubkey zeroed on failure (header) */
#define LOG_ECMULT
#define LOG_GE_SET_GEJ
#include "assumed.h"
#include "src/secp256k1.c"
#include "post.h"

size_t g_k;

#ifndef VERIF_NATIVE
static wide le256(const unsigned char *b) { wide v = 0; int i; for (i = 31; i >= 0; i--) v = (v << 8) | W(b[i]); return v; }
static wide modp(wide v) { wide p = P_(); int i; for (i = 0; i < 4; i++) if (v >= p) v -= p; return v; }   /* operands here are < 5p (magnitude <= 2) */
static wide modn1(wide v) { wide n = N_(); return v >= n ? v - n : v; }
#endif

void h_tweak(void) {
    secp256k1_context ctx;
    INPUT(secp256k1_musig_keyagg_cache, cache); INPUT(secp256k1_pubkey, out); INPUT_ARR(unsigned char, tweak, 32);
    INPUT(_Bool, xonly); INPUT(_Bool, use_out); INPUT(_Bool, use_cache); INPUT(_Bool, use_tweak); INPUT(size_t, k);
    secp256k1_musig_keyagg_cache cache0 = cache;
    static const unsigned char magic[4] = { 0xf4, 0xad, 0xbb, 0xdf };
    int ret, magic_ok;
    verif_ctx_init(&ctx);
    g_k = k; __CPROVER_assume(g_k < sizeof(cache.data));
    g_ecmult_n = 0; g_sg_n = 0;
    magic_ok = cache0.data[0] == magic[0] && cache0.data[1] == magic[1] && cache0.data[2] == magic[2] && cache0.data[3] == magic[3];

    if (xonly) ret = secp256k1_musig_pubkey_xonly_tweak_add(&ctx, use_out ? &out : NULL, use_cache ? &cache : NULL, use_tweak ? tweak : NULL);
    else       ret = secp256k1_musig_pubkey_ec_tweak_add(&ctx, use_out ? &out : NULL, use_cache ? &cache : NULL, use_tweak ? tweak : NULL);

    __CPROVER_assert(ret == 0 || ret == 1, "C12 tweak: returns 0 or 1");
    __CPROVER_assert(g_error == 0, "C12 tweak: error callback never invoked");
    __CPROVER_assert(g_ecmult_n <= 1 && g_sg_n <= 1, "C12 tweak: at most one curve multiplication and one conversion");
    if (ret == 0) __CPROVER_assert(cache.data[g_k] == cache0.data[g_k], "C12 tweak: keyagg cache untouched on failure");
    if (ret == 0 && use_out && g_k < 64) __CPROVER_assert(out.data[g_k] == 0, "C12 tweak: output public key zeroed on failure");
    if (!use_cache || !use_tweak) __CPROVER_assert(ret == 0 && g_illegal == 1, "C12 tweak: NULL cache or tweak is illegal");
    else if (!magic_ok) __CPROVER_assert(ret == 0 && g_illegal == 1 && g_ecmult_n == 0, "C12 tweak: cache without magic is illegal, nothing computed");
    else {
#ifndef VERIF_NATIVE
        wide n = N_(), p = P_(), t = be256(tweak), X = le256(&cache0.data[4]), Y = le256(&cache0.data[36]), tacc = modn1(be256(&cache0.data[165]));
        int par = cache0.data[164] & 1, canon = X < p && Y < p, flip = xonly && (Y & 1), canon2 = le256(&cache0.data[68]) < p && le256(&cache0.data[100]) < p;
        __CPROVER_assert(g_illegal == 0, "C12 tweak: no callback for an initialised cache");
        if (t >= n) __CPROVER_assert(ret == 0 && g_ecmult_n == 0, "C12 tweak: tweak >= n rejected before any curve work");
        else {
            __CPROVER_assert(g_ecmult_n == 1, "C12 tweak: a valid tweak reaches the curve addition");
            __CPROVER_assert(g_ecmult_has_na0 && g_ecmult_has_ng0 && sval(&g_ecmult_na0) == 1 && sval(&g_ecmult_ng0) == t, "C12 tweak: computes 1*Q + t*G with t the given tweak");
            __CPROVER_assert(ret == !g_ecmult_r0.infinity, "C12 tweak: result at infinity => 0, otherwise 1");
            if (canon) {   /* a cache written by the library holds canonical coordinates */
                __CPROVER_assert(fval(&g_ecmult_a0.x) == X && fval(&g_ecmult_a0.z) == 1 && !g_ecmult_a0.infinity, "C12 tweak: the point tweaked has the cached x");
                __CPROVER_assert(modp(fval(&g_ecmult_a0.y)) == (flip ? p - Y : Y), "C12 tweak: x-only tweak of a key with odd y first negates the key; plain tweak and even y leave it");
            }
            if (ret == 1) {
                wide tacc2 = flip ? (tacc == 0 ? 0 : n - tacc) : tacc, tnew = tacc2 + t >= n ? tacc2 + t - n : tacc2 + t;
                __CPROVER_assert(g_sg_n == 1 && FE_EQ(g_sg_a0.x, g_ecmult_r0.x) && FE_EQ(g_sg_a0.y, g_ecmult_r0.y) && FE_EQ(g_sg_a0.z, g_ecmult_r0.z), "C12 tweak: the stored key is the affine form of the sum");
                if (canon) __CPROVER_assert((cache.data[164] & 1) == (par ^ flip) && cache.data[164] <= 1, "C12 tweak: parity accumulator flips exactly when the key was negated");
                if (canon) __CPROVER_assert(be256(&cache.data[165]) == tnew, "C12 tweak: tweak accumulator = (+/-)tacc + t mod n, negated exactly when the key was negated");
                __CPROVER_assert(le256(&cache.data[4]) == modp(fval(&g_sg_r0.x)) && le256(&cache.data[36]) == modp(fval(&g_sg_r0.y)), "C12 tweak: cache holds the canonical coordinates of the new key");
                if (g_k < 4 || (g_k >= 132 && g_k < 164) || (canon2 && g_k >= 68 && g_k < 132)) __CPROVER_assert(cache.data[g_k] == cache0.data[g_k], "C12 tweak: magic, second key and key-list hash unchanged");
                __CPROVER_assert(modp(fval(&g_sg_r0.x)) < p, "C12 tweak: spec helper modp is total on the conversion result");
                if (use_out && g_k < 64) __CPROVER_assert(out.data[g_k] == cache.data[4 + g_k], "C12 tweak: output public key is the new aggregate key");
            }
        }
        if (ret == 1 && flip && canon && tacc != 0 && par == 1) REACH("tweak xonly with odd y, negated accumulator");
        if (ret == 1 && !xonly && canon && (Y & 1)) REACH("tweak plain with odd y");
        if (ret == 0 && t < n) REACH("tweak result at infinity");
        if (t >= n) REACH("tweak overflow rejected");
#endif
    }
}

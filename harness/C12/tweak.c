/* C12: secp256k1_musig_pubkey_ec_tweak_add / _xonly_tweak_add (BIP-327 ApplyTweak bookkeeping), real code.
 * Every pointer NULL or an object with arbitrary bytes.  Oracles: secp256k1_ecmult (Q + t*G, argument/result log) and
 * secp256k1_ge_set_gej (log).  Real: cache load/save, scalar_set_b32 / negate / add, parity test, negation of y.
 * The keyagg cache and the public key output are OPAQUE: they are decoded before and after the call with the TU's own
 * keyagg_cache_load / pubkey_load and every clause is over the decoded fields (audit #17).
 *   tweak >= n                      => 0
 *   xonly and y(Q) odd              => Q := -Q, gacc flips (parity_acc ^= 1), tacc := -tacc
 *   tacc := tacc + t mod n ; Q := Q + t*G (oracle) ; Q = infinity => 0
 *   on failure the output public key is an INVALID key object (header); nothing is demanded about the cache on failure */
#define LOG_ECMULT
#define LOG_GE_SET_GEJ
#include "assumed_musig.h"
#include "src/secp256k1.c"
#include "post.h"
#include "decode.h"

#ifndef VERIF_NATIVE
static int is_neg_mod_p(wide a, wide b) { wide p = P_(); int i, hit = 0; for (i = 0; i < 12; i++) hit |= (a + b == (wide)i * p); return hit; }
#endif

void h_tweak(void) {
    secp256k1_context ctx;
    INPUT(secp256k1_musig_keyagg_cache, cache); INPUT(secp256k1_pubkey, out); INPUT_ARR(unsigned char, tweak, 32);
    INPUT(_Bool, xonly); INPUT(_Bool, use_out); INPUT(_Bool, use_cache); INPUT(_Bool, use_tweak); INPUT(size_t, k);
    secp256k1_keyagg_cache_internal c0, c1; secp256k1_ge O;
    int ret, cache_ok, cache1_ok, out_ok;
    dec_init(); cache_ok = dec_cache(&c0, &cache);
    verif_ctx_init(&ctx);
    __CPROVER_assume(k < 32);
    g_ecmult_n = 0; g_sg_n = 0;

    if (xonly) ret = secp256k1_musig_pubkey_xonly_tweak_add(&ctx, use_out ? &out : NULL, use_cache ? &cache : NULL, use_tweak ? tweak : NULL);
    else       ret = secp256k1_musig_pubkey_ec_tweak_add(&ctx, use_out ? &out : NULL, use_cache ? &cache : NULL, use_tweak ? tweak : NULL);

    cache1_ok = dec_cache(&c1, &cache); out_ok = dec_pubkey(&O, &out);
    __CPROVER_assert(ret == 0 || ret == 1, "C12 tweak: returns 0 or 1");
    __CPROVER_assert(g_error == 0, "C12 tweak: error callback never invoked");
    if (ret == 0 && use_out) __CPROVER_assert(!out_ok, "C12 tweak: on failure the output public key is an invalid key object (header)");
    if (!use_cache || !use_tweak) __CPROVER_assert(ret == 0 && g_illegal == 1, "C12 tweak: NULL cache or tweak is illegal");
    else if (!cache_ok) __CPROVER_assert(ret == 0 && g_illegal == 1, "C12 tweak: uninitialised cache is illegal");
    else {
#ifndef VERIF_NATIVE
        wide n = N_(), p = P_(), t = be256(tweak), X = fval(&c0.pk.x), Y = fval(&c0.pk.y), tacc = sval(&c0.tweak);
        int par = c0.parity_acc, canon = X < p && Y < p, flip = xonly && (Y & 1);
        __CPROVER_assert(g_illegal == 0, "C12 tweak: no callback for an initialised cache");
        if (t >= n) __CPROVER_assert(ret == 0, "C12 tweak: tweak >= n rejected");
        else {
            __CPROVER_assert(g_ecmult_n >= 1, "C12 tweak: a valid tweak reaches the curve addition");
            __CPROVER_assert(ret == !g_ecmult_r0.infinity, "C12 tweak: result at infinity => 0, otherwise 1");
        }
        if (ret == 1) {
            wide tacc2 = flip ? negn_(tacc) : tacc, tnew = tacc2 + t >= n ? tacc2 + t - n : tacc2 + t;
            __CPROVER_assert(t < n && g_ecmult_has_na0 && g_ecmult_has_ng0 && sval(&g_ecmult_na0) == 1 && sval(&g_ecmult_ng0) == t, "C12 tweak: the new key is 1*Q + t*G with t the given tweak");
            if (canon) {   /* a cache written by the library holds canonical coordinates */
                __CPROVER_assert(cval4(&g_ecmult_a0.x) == X && cval4(&g_ecmult_a0.z) == 1 && !g_ecmult_a0.infinity, "C12 tweak: the point tweaked has the cached x");
                __CPROVER_assert(flip ? is_neg_mod_p(fval(&g_ecmult_a0.y), Y) : cval4(&g_ecmult_a0.y) == Y, "C12 tweak: x-only tweak of a key with odd y first negates the key; plain tweak and even y leave it");
                __CPROVER_assert(cache1_ok && c1.parity_acc == (par ^ flip), "C12 tweak: parity accumulator flips exactly when the key was negated");
                __CPROVER_assert(sval(&c1.tweak) == tnew, "C12 tweak: tweak accumulator = (+/-)tacc + t mod n, negated exactly when the key was negated");
            }
            __CPROVER_assert(g_sg_n >= 1 && GEJ_EQ(g_sg_a0, g_ecmult_r0), "C12 tweak: the stored key is the affine form of the sum");
            __CPROVER_assert(cache1_ok && !c1.pk.infinity && cval(&c1.pk.x) == cval4(&g_sg_r0.x) && cval(&c1.pk.y) == cval4(&g_sg_r0.y), "C12 tweak: the cache holds the new key");
            __CPROVER_assert(c1.pks_hash[k] == c0.pks_hash[k], "C12 tweak: key-list hash unchanged");
            if (c0.second_pk.infinity || (fval(&c0.second_pk.x) < p && fval(&c0.second_pk.y) < p))   /* canonical, as written by the library */
            __CPROVER_assert(c1.second_pk.infinity == c0.second_pk.infinity &&
                             (c0.second_pk.infinity || (cval(&c1.second_pk.x) == cval(&c0.second_pk.x) && cval(&c1.second_pk.y) == cval(&c0.second_pk.y))), "C12 tweak: second key unchanged");
            /* (the conversion oracle may hand out x = 0, which no curve point has and which is not a valid key object) */
            if (use_out && cval4(&g_sg_r0.x) != 0) __CPROVER_assert(out_ok && cval(&O.x) == cval(&c1.pk.x) && cval(&O.y) == cval(&c1.pk.y), "C12 tweak: output public key is the new aggregate key");
        }
        if (ret == 1 && flip && canon && tacc != 0 && par == 1) REACH("tweak xonly with odd y, negated accumulator");
        if (ret == 1 && !xonly && canon && (Y & 1)) REACH("tweak plain with odd y");
        if (ret == 0 && t < n) REACH("tweak result at infinity");
        if (t >= n) REACH("tweak overflow rejected");
#endif
    }
}

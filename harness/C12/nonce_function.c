/* C12: secp256k1_nonce_function_musig - the BIP-327 NonceGen hash layout, for every combination of optional inputs.
 *   rand  = session_secrand XOR-masked:  seckey given:  seckey XOR TaggedHash("MuSig/aux", session_secrand)
 *                                         no seckey:    session_secrand
 *   k_i   = int(TaggedHash("MuSig/nonce", rand || len(pk)=33 (1 byte) || pk33 || len(aggpk) (1 byte: 32 or 0) || [aggpk32]
 *               || msg_present (1 byte) || [len(msg)=32 (8 bytes, big endian) || msg32] || len(extra) (4 bytes: 32 or 0) || [extra32] || i)) mod n,  i = 0, 1
 * sha256_write/_finalize are replaced by the STREAM contracts (hash_log.h + second finalize watch of assumed_C02.h).  Kept at stream level
 * for cost (three hashes, every optional-input pattern): this pins "tagged hashes through the precomputed midstates and
 * sha256_write/_finalize"; a behaviour-preserving re-implementation of the tagged hashes (e.g. initialize_tagged instead of a midstate)
 * would need this unit to be re-stated at block level (harness/hash_blocks.h) - audit #31.
 * Both final hashes continue ONE absorbed prefix: epoch e0 contains the whole stream and the byte 0, epoch e0+1 contains
 * a single write, the byte 1, at the same stream position (the hash object is a copy of the one that absorbed the prefix). */
#define C02_HASHLOG2
#include "assumed_C02.h"
#include "src/secp256k1.c"
#include "post.h"

void h_nonce_function(void) {
    INPUT_ARR(unsigned char, secrand, 32); INPUT_ARR(unsigned char, msg, 32); INPUT_ARR(unsigned char, seckey, 32); INPUT_ARR(unsigned char, pk33, 33);
    INPUT_ARR(unsigned char, agg, 32); INPUT_ARR(unsigned char, extra, 32);
    INPUT(_Bool, use_msg); INPUT(_Bool, use_seckey); INPUT(_Bool, use_agg); INPUT(_Bool, use_extra);
    INPUT(int, we); INPUT(int, we2); INPUT(uint64_t, wpos);
    secp256k1_scalar k[2]; secp256k1_hash_ctx hc;
    int e0; uint64_t q, o_pk, o_agg, o_mp, o_msg, o_ex, L;
    hc.fn_sha256_compression = secp256k1_sha256_transform;
    HASHLOG_RESET(); g_we = we; g_we2 = we2; g_wpos = wpos;

    secp256k1_nonce_function_musig(&hc, k, secrand, use_msg ? msg : NULL, use_seckey ? seckey : NULL, pk33, use_agg ? agg : NULL, use_extra ? extra : NULL);

    e0 = use_seckey ? 1 : 0;                                  /* epoch of the first nonce hash */
    /* layout of the nonce hash input, relative to the 64 bytes of tag prefix already absorbed in the midstate */
    o_pk = 32;                                                /* 1-byte length prefix, then 33 bytes */
    o_agg = o_pk + 1 + 33;                                    /* 1-byte length prefix, then 32 bytes if present */
    o_mp = o_agg + 1 + (use_agg ? 32 : 0);                    /* msg-present byte */
    o_msg = o_mp + 1;                                         /* if present: 8-byte length prefix, then 32 bytes */
    o_ex = o_msg + (use_msg ? 8 + 32 : 0);                    /* 4-byte length prefix, then 32 bytes if present */
    L = o_ex + 4 + (use_extra ? 32 : 0);                      /* position of the final byte i */

    __CPROVER_assert(g_fin_n == e0 + 2, "C12 nonce_function: hash computations = [aux mask] + 2 nonce hashes");
    if (use_seckey && g_we == 0) {
        __CPROVER_assert(g_w_started && g_w_b0 == 64 && g_w_s0 == 0xa19e884bul && g_w_s7 == 0x522fb150ul, "C12 nonce_function: mask hash starts from the MuSig/aux midstate with 64 bytes absorbed");
        __CPROVER_assert(g_w_fin && g_w_end == 96, "C12 nonce_function: mask hash absorbs exactly 32 bytes");
        if (g_wpos >= 64 && g_wpos < 96) __CPROVER_assert(g_w_hit && g_w_byte == secrand[g_wpos - 64], "C12 nonce_function: mask hash input is session_secrand");
        REACH("nonce_function mask hash");
    }
    if (g_we == e0) {
        __CPROVER_assert(g_w_started && g_w_b0 == 64 && g_w_s0 == 0x07101b64ul && g_w_s7 == 0xff568a30ul, "C12 nonce_function: nonce hash starts from the MuSig/nonce midstate with 64 bytes absorbed");
        __CPROVER_assert(g_w_fin && g_w_end == 64 + L + 1, "C12 nonce_function: first nonce hash length = layout length + 1");
        if (g_wpos >= 64 && g_wpos < 64 + L + 1) {
            unsigned char want = 0; int checked = 1;
            q = g_wpos - 64;
            __CPROVER_assert(g_w_hit, "C12 nonce_function: every stream position of the nonce hash is written");
            if (q < 32) {
                if (!use_seckey) want = secrand[q];
                else if (g_we2 == 0) { __CPROVER_assert(g_w2_fin, "C12 nonce_function: mask digest available"); want = seckey[q] ^ g_w2_dig[q]; }
                else checked = 0;
            }
            else if (q == o_pk) want = 33;
            else if (q < o_agg) want = pk33[q - o_pk - 1];
            else if (q == o_agg) want = use_agg ? 32 : 0;
            else if (q < o_mp) want = agg[q - o_agg - 1];
            else if (q == o_mp) want = use_msg ? 1 : 0;
            else if (q < o_ex) want = (q < o_msg + 7) ? 0 : (q == o_msg + 7) ? 32 : msg[q - o_msg - 8];
            else if (q < o_ex + 3) want = 0;
            else if (q == o_ex + 3) want = use_extra ? 32 : 0;
            else if (q < L) want = extra[q - o_ex - 4];
            else want = 0;                                    /* q == L: the byte i = 0 */
            if (checked) __CPROVER_assert(g_w_byte == want, "C12 nonce_function: nonce hash input byte equals the BIP-327 layout (rand, prefixes 1/1/8/4, optional fields, final byte 0)");
            if (q == o_msg + 7 && use_msg) REACH("nonce_function msg length prefix byte");
            if (q == o_ex + 3 && !use_extra && !use_agg) REACH("nonce_function absent extra / absent aggpk");
            if (q < 32 && use_seckey && g_we2 == 0) REACH("nonce_function masked rand byte");
            if (q == L) REACH("nonce_function final byte 0");
        }
#ifndef VERIF_NATIVE
        { wide d = be256(g_w_dig), n = N_(); __CPROVER_assert(sval(&k[0]) == (d >= n ? d - n : d), "C12 nonce_function: k1 = first digest mod n"); }
#endif
    }
    if (g_we == e0 + 1) {
        __CPROVER_assert(g_w_started && g_w_b0 == 64 + L, "C12 nonce_function: second nonce hash continues the absorbed prefix (first write at the position of byte i)");
        __CPROVER_assert(g_w_fin && g_w_end == 64 + L + 1, "C12 nonce_function: second nonce hash length = layout length + 1");
        if (g_w_hit) __CPROVER_assert(g_wpos == 64 + L && g_w_byte == 1, "C12 nonce_function: the only byte written for the second hash is i = 1 at the final position");
        if (g_wpos == 64 + L) __CPROVER_assert(g_w_hit, "C12 nonce_function: the byte i = 1 is written");
#ifndef VERIF_NATIVE
        { wide d = be256(g_w_dig), n = N_(); __CPROVER_assert(sval(&k[1]) == (d >= n ? d - n : d), "C12 nonce_function: k2 = second digest mod n"); }
#endif
        if (g_wpos == 64 + L) REACH("nonce_function final byte 1");
    }
    REACH("nonce_function end");
}

/* C12: secp256k1_musig_nonce_agg (BIP-327 NonceAgg) for n <= 2 public nonces (BOUNDED: loops over the caller-supplied
 * count unwound), real code, every pointer NULL or an object with arbitrary bytes.
 * Oracles with logs: gej_add_ge_var (first two calls), ge_set_all_gej_var.
 *   each component is summed separately starting from infinity; a sum at infinity is ENCODED (64 zero bytes), not rejected */
#define LOG_GEJ_ADD_GE
#define LOG_SET_ALL_GEJ
#include "assumed_musig.h"
#include "src/secp256k1.c"
#include "post.h"
size_t g_k;
#ifndef VERIF_NATIVE
static wide le256(const unsigned char *b) { wide v = 0; int i; for (i = 31; i >= 0; i--) v = (v << 8) | W(b[i]); return v; }
static wide modp(wide v) { wide p = P_(); int i; for (i = 0; i < 2; i++) if (v >= p) v -= p; return v; }
#endif
void h_nonce_agg(void) {
    secp256k1_context ctx;
    INPUT(secp256k1_musig_pubnonce, q0); INPUT(secp256k1_musig_pubnonce, q1); INPUT(secp256k1_musig_aggnonce, an);
    INPUT(size_t, n); INPUT(_Bool, s0); INPUT(_Bool, s1); INPUT(_Bool, use_an); INPUT(_Bool, use_arr); INPUT(size_t, k);
    const secp256k1_musig_pubnonce *arr[2]; secp256k1_musig_aggnonce an0 = an; int ret, anynull = 0, bad = 0; size_t i;
    verif_ctx_init(&ctx);
    __CPROVER_assume(n <= 2);                                   /* BOUNDED stand-in */
    arr[0] = s0 ? &q0 : NULL; arr[1] = s1 ? &q1 : NULL;
    g_k = k; __CPROVER_assume(g_k < 64);
    g_age_n = 0; g_sa_n = 0;
    for (i = 0; i < 2; i++) if (i < n) { if (arr[i] == NULL) anynull = 1; else if (!(arr[i]->data[0] == 0xf5 && arr[i]->data[1] == 0x7a && arr[i]->data[2] == 0x3d && arr[i]->data[3] == 0xa0)) bad = 1; }
    ret = secp256k1_musig_nonce_agg(&ctx, use_an ? &an : NULL, use_arr ? arr : NULL, n);
    __CPROVER_assert(ret == 0 || ret == 1, "C12 nonce_agg: returns 0 or 1");
    __CPROVER_assert(g_error == 0, "C12 nonce_agg: error callback never invoked");
    if (ret == 0 && use_an) __CPROVER_assert(an.data[g_k] == an0.data[g_k] && an.data[68 + g_k] == an0.data[68 + g_k], "C12 nonce_agg: aggregate nonce untouched on failure");
    if (!use_an || !use_arr || n == 0 || anynull || bad) { __CPROVER_assert(ret == 0 && g_illegal == 1, "C12 nonce_agg: NULL argument, n = 0, NULL entry or nonce without its magic is illegal"); if (n == 2 && use_an && use_arr && !anynull) REACH("nonce_agg bad magic"); return; }
    __CPROVER_assert(ret == 1 && g_illegal == 0, "C12 nonce_agg: succeeds for initialised nonces, whatever the sums are");
#ifndef VERIF_NATIVE
    __CPROVER_assert(g_age_n == 2 * (int)n && g_sa_n == 1, "C12 nonce_agg: two additions per public nonce, one conversion");
    __CPROVER_assert(g_age_a0.infinity && g_age_a1.infinity, "C12 nonce_agg: both sums start from the point at infinity");
    __CPROVER_assert(!g_age_b0.infinity && fval(&g_age_b0.x) == le256(&arr[0]->data[4]) && fval(&g_age_b0.y) == le256(&arr[0]->data[36]) && !g_age_b1.infinity && fval(&g_age_b1.x) == le256(&arr[0]->data[68]) && fval(&g_age_b1.y) == le256(&arr[0]->data[100]),
                     "C12 nonce_agg: first nonce's components go to their own sums");
    if (n == 1) __CPROVER_assert(GEJ_EQ(g_sa_a0, g_age_r0) && GEJ_EQ(g_sa_a1, g_age_r1), "C12 nonce_agg: n = 1: the converted points are the two sums");
    __CPROVER_assert(an.data[0] == 0xa8 && an.data[1] == 0xb7 && an.data[2] == 0xe4 && an.data[3] == 0x67, "C12 nonce_agg: result carries its magic");
    if (g_sa_r0.infinity) __CPROVER_assert(an.data[4 + g_k] == 0, "C12 nonce_agg: first sum at infinity is encoded as zero bytes");
    else __CPROVER_assert(le256(&an.data[4]) == modp(fval(&g_sa_r0.x)) && le256(&an.data[36]) == modp(fval(&g_sa_r0.y)), "C12 nonce_agg: first component stored canonically");
    if (g_sa_r1.infinity) __CPROVER_assert(an.data[68 + g_k] == 0, "C12 nonce_agg: second sum at infinity is encoded as zero bytes");
    else __CPROVER_assert(le256(&an.data[68]) == modp(fval(&g_sa_r1.x)) && le256(&an.data[100]) == modp(fval(&g_sa_r1.y)), "C12 nonce_agg: second component stored canonically");
    if (n == 2 && g_sa_r0.infinity && !g_sa_r1.infinity) REACH("nonce_agg first component cancels to infinity");
    if (n == 1) REACH("nonce_agg single nonce");
#endif
}

/* C12: secp256k1_musig_nonce_agg (BIP-327 NonceAgg) for n <= 2 public nonces (BOUNDED: loops over the caller-supplied
 * count unwound), real code, every pointer NULL or an object with arbitrary bytes.
 * Oracles with logs: gej_add_ge_var (first two calls), ge_set_all_gej_var.
 * Public and aggregate nonces are OPAQUE: decoded with the TU's own *_load functions (audit #17); nothing is demanded about the
 * output when the call fails (audit #16).
 *   each component is summed separately starting from infinity; a sum at infinity is ENCODED (as infinity), not rejected */
#define LOG_GEJ_ADD_GE
#define LOG_SET_ALL_GEJ
#include "assumed_musig.h"
#include "src/secp256k1.c"
#include "post.h"
#include "decode.h"
size_t g_k;
#ifndef VERIF_NATIVE
#endif
void h_nonce_agg(void) {
    secp256k1_context ctx;
    INPUT(secp256k1_musig_pubnonce, q0); INPUT(secp256k1_musig_pubnonce, q1); INPUT(secp256k1_musig_aggnonce, an);
    INPUT(size_t, n); INPUT(_Bool, s0); INPUT(_Bool, s1); INPUT(_Bool, use_an); INPUT(_Bool, use_arr); INPUT(size_t, k);
    const secp256k1_musig_pubnonce *arr[2]; secp256k1_ge pts0[2], pts1[2], out[2]; int ret, anynull = 0, bad = 0, ok0, ok1, out_ok; size_t i;
    dec_init(); ok0 = dec_pubnonce(pts0, &q0); ok1 = dec_pubnonce(pts1, &q1);
    verif_ctx_init(&ctx);
    __CPROVER_assume(n <= 2);                                   /* BOUNDED stand-in */
    arr[0] = s0 ? &q0 : NULL; arr[1] = s1 ? &q1 : NULL;
    g_k = k; __CPROVER_assume(g_k < 64);
    g_age_n = 0; g_sa_n = 0;
    for (i = 0; i < 2; i++) if (i < n) { if (arr[i] == NULL) anynull = 1; else if (!(i == 0 ? ok0 : ok1)) bad = 1; }
    ret = secp256k1_musig_nonce_agg(&ctx, use_an ? &an : NULL, use_arr ? arr : NULL, n);
    __CPROVER_assert(ret == 0 || ret == 1, "C12 nonce_agg: returns 0 or 1");
    __CPROVER_assert(g_error == 0, "C12 nonce_agg: error callback never invoked");
    if (!use_an || !use_arr || n == 0 || anynull || bad) { __CPROVER_assert(ret == 0 && g_illegal == 1, "C12 nonce_agg: NULL argument, n = 0, NULL entry or uninitialised nonce is illegal"); if (n == 2 && use_an && use_arr && !anynull) REACH("nonce_agg bad magic"); return; }
    __CPROVER_assert(ret == 1 && g_illegal == 0, "C12 nonce_agg: succeeds for initialised nonces, whatever the sums are");
    out_ok = dec_aggnonce(out, &an);
#ifndef VERIF_NATIVE
    __CPROVER_assert(g_age_n >= 2 && g_sa_n >= 1 && out_ok, "C12 nonce_agg: additions per component, a conversion, an initialised result");
    __CPROVER_assert(g_age_a0.infinity && g_age_a1.infinity, "C12 nonce_agg: both sums start from the point at infinity");
    __CPROVER_assert((!g_age_b0.infinity && cval4(&g_age_b0.x) == cval(&pts0[0].x) && cval4(&g_age_b0.y) == cval(&pts0[0].y) && !g_age_b1.infinity && cval4(&g_age_b1.x) == cval(&pts0[1].x) && cval4(&g_age_b1.y) == cval(&pts0[1].y)) ||
                     (!g_age_b1.infinity && cval4(&g_age_b1.x) == cval(&pts0[0].x) && cval4(&g_age_b1.y) == cval(&pts0[0].y) && !g_age_b0.infinity && cval4(&g_age_b0.x) == cval(&pts0[1].x) && cval4(&g_age_b0.y) == cval(&pts0[1].y)),
                     "C12 nonce_agg: first nonce's components go to their own sums");
    if (n == 1) __CPROVER_assert(GEJ_EQ(g_sa_a0, g_age_r0) && GEJ_EQ(g_sa_a1, g_age_r1), "C12 nonce_agg: n = 1: the converted points are the two sums");
    /* (the conversion oracle may hand out the non-point (0,0), whose encoding coincides with infinity; no algebraic fact is stated to exclude it) */
    if (g_sa_r0.infinity || cval4(&g_sa_r0.x) != 0 || cval4(&g_sa_r0.y) != 0) __CPROVER_assert(out[0].infinity == g_sa_r0.infinity && (g_sa_r0.infinity || (cval(&out[0].x) == cval4(&g_sa_r0.x) && cval(&out[0].y) == cval4(&g_sa_r0.y))), "C12 nonce_agg: first component of the result is the first sum; infinity is encoded as infinity");
    if (g_sa_r1.infinity || cval4(&g_sa_r1.x) != 0 || cval4(&g_sa_r1.y) != 0) __CPROVER_assert(out[1].infinity == g_sa_r1.infinity && (g_sa_r1.infinity || (cval(&out[1].x) == cval4(&g_sa_r1.x) && cval(&out[1].y) == cval4(&g_sa_r1.y))), "C12 nonce_agg: second component of the result is the second sum; infinity is encoded as infinity");
    if (n == 2 && g_sa_r0.infinity && !g_sa_r1.infinity) REACH("nonce_agg first component cancels to infinity");
    if (n == 1) REACH("nonce_agg single nonce");
#endif
}

/* C12: secp256k1_musig_adapt / secp256k1_musig_extract_adaptor are inverse operations, as PURE
 * SCALAR ARITHMETIC for every input (real scalar_set_b32 / negate / add / get_b32, no oracle).
 * Every pointer is NULL or an object with arbitrary bytes; sig64 may alias pre_sig64 (the code
 * uses memmove, so in-place adaptation is part of the interface). */
#include "assumed.h"
#include "src/secp256k1.c"
#include "post.h"

size_t g_k; /* ghost byte index */

#ifndef VERIF_NATIVE
static wide submod(wide a, wide b, wide n) { return a >= b ? a - b : a + n - b; }
static wide addmod(wide a, wide b, wide n) { wide c = a + b; return c >= n ? c - n : c; }
#endif

#ifndef VERIF_NATIVE
static wide form_extract(wide sg, wide s, int par, wide n) { wide d = addmod(submod(0, sg, n), s, n); return par ? d : submod(0, d, n); }
#endif
/* adapt, then extract from the result: returns the adaptor secret */
void h_adapt(void) {
    secp256k1_context ctx;
    INPUT_ARR(unsigned char, pre, 64); INPUT_ARR(unsigned char, t32, 32); INPUT_ARR(unsigned char, sig, 64);
    INPUT(int, par); INPUT(_Bool, use_sig); INPUT(_Bool, use_pre); INPUT(_Bool, use_t); INPUT(_Bool, alias); INPUT(size_t, k);
    unsigned char pre0[64], sig0[64];
    unsigned char *p_sig, *p_pre, *p_t;
    int ret;
    verif_ctx_init(&ctx);
    g_k = k; __CPROVER_assume(g_k < 32);
    memcpy(pre0, pre, 64); memcpy(sig0, sig, 64);
    p_pre = use_pre ? pre : NULL; p_t = use_t ? t32 : NULL;
    p_sig = use_sig ? ((alias && use_pre) ? pre : sig) : NULL;

    ret = secp256k1_musig_adapt(&ctx, p_sig, p_pre, p_t, par);

    __CPROVER_assert(ret == 0 || ret == 1, "C12 adapt: returns 0 or 1");
    __CPROVER_assert(g_error == 0, "C12 adapt: error callback never invoked");
    if (!use_sig || !use_pre || !use_t || (par != 0 && par != 1)) {
        __CPROVER_assert(ret == 0 && g_illegal == 1, "C12 adapt: NULL argument or parity outside {0,1} is illegal, returns 0");
    } else {
#ifndef VERIF_NATIVE
        wide n = N_(), s = be256(&pre0[32]), t = be256(t32), want;
        __CPROVER_assert(g_illegal == 0, "C12 adapt: no callback for non-NULL arguments");
        __CPROVER_assert(ret == (s < n && t < n), "C12 adapt: succeeds exactly when pre-signature s and adaptor secret are < n");
        if (ret == 1) {
            want = addmod(s, par ? submod(0, t, n) : t, n);
            __CPROVER_assert(be256(&p_sig[32]) == want, "C12 adapt: s_out = s + t (parity 0) or s - t (parity 1) mod n");
            __CPROVER_assert(p_sig[g_k] == pre0[g_k], "C12 adapt: nonce half copied from the pre-signature");
            if (par == 1 && t != 0) REACH("adapt parity 1");
            if (par == 0 && s + t >= n) REACH("adapt parity 0 with wrap");
            if (alias) REACH("adapt in place");
        }
        if (s >= n) REACH("adapt rejects s >= n");
        if (s < n && t >= n) REACH("adapt rejects t >= n");
#endif
    }
}

/* extract from an arbitrary (sig, pre-sig) pair, then adapt the pre-sig with the result: gives sig back */
void h_extract(void) {
    secp256k1_context ctx;
    INPUT_ARR(unsigned char, epre, 64); INPUT_ARR(unsigned char, esig, 64); INPUT_ARR(unsigned char, etout, 32);
    INPUT(int, par); INPUT(_Bool, use_sig); INPUT(_Bool, use_pre); INPUT(_Bool, use_t); INPUT(size_t, k);
    unsigned char tout0[32];
    int ret;
    verif_ctx_init(&ctx);
    g_k = k; __CPROVER_assume(g_k < 32);
    memcpy(tout0, etout, 32);

    ret = secp256k1_musig_extract_adaptor(&ctx, use_t ? etout : NULL, use_sig ? esig : NULL, use_pre ? epre : NULL, par);

    __CPROVER_assert(ret == 0 || ret == 1, "C12 extract: returns 0 or 1");
    __CPROVER_assert(g_error == 0, "C12 extract: error callback never invoked");
    if (!use_sig || !use_pre || !use_t || (par != 0 && par != 1)) {
        __CPROVER_assert(ret == 0 && g_illegal == 1, "C12 extract: NULL argument or parity outside {0,1} is illegal, returns 0");
    } else {
#ifndef VERIF_NATIVE
        wide n = N_(), s = be256(&epre[32]), sg = be256(&esig[32]), want;
        __CPROVER_assert(g_illegal == 0, "C12 extract: no callback for non-NULL arguments");
        __CPROVER_assert(ret == (s < n && sg < n), "C12 extract: succeeds exactly when both s values are < n");
        if (ret == 1) {
            /* (pre.s - sig.s) written as (-sig.s) + pre.s, negated again for parity 0; C12.extract_form_lemma shows this is
             * sig.s - pre.s (parity 0) / pre.s - sig.s (parity 1) mod n for all inputs */
            want = form_extract(sg, s, par, n);
            __CPROVER_assert(be256(etout) == want, "C12 extract: t = sig.s - pre.s (parity 0) or pre.s - sig.s (parity 1) mod n [sum form]");
            if (par == 0 && sg < s) REACH("extract parity 0 with borrow");
            if (par == 1) REACH("extract parity 1");
        }
        if (sg >= n && s < n) REACH("extract rejects sig.s >= n");
        if (s >= n) REACH("extract rejects pre.s >= n");
#endif
    }
}

/* Lemma over the two value-level contracts proved above (adapt: s_out = s +/- t, extract: t = +/-(sig.s - pre.s),
 * both mod n, outputs canonical 32-byte big-endian encodings of values < n, hence equal values = equal bytes):
 * the operations are mutually inverse for all scalars < n and both parities. */
#ifndef VERIF_NATIVE
static wide spec_adapt(wide s, wide t, int par, wide n) { return addmod(s, par ? submod(0, t, n) : t, n); }
static wide spec_extract(wide sg, wide s, int par, wide n) { return par ? submod(s, sg, n) : submod(sg, s, n); }
/* one clause per entry: cbmc's multi-property search is an order of magnitude slower on the conjunction */
#define LEMMA_PROLOGUE INPUT(wide, s); INPUT(wide, t); INPUT(_Bool, lpar); wide n = N_(); \
    __CPROVER_assume(s < n && t < n)   /* the success precondition of both functions (out-of-range inputs return 0: units C12.adapt / C12.extract) */
void h_inverse_lemma_range(void) {
    LEMMA_PROLOGUE;
    __CPROVER_assert(spec_adapt(s, t, lpar, n) < n && spec_extract(t, s, lpar, n) < n, "C12 adapt/extract lemma: results are scalars < n, so the second call's range gate passes");
    if (lpar && t != 0 && s != 0) REACH("inverse lemma range parity 1");
}
void h_inverse_lemma_ea(void) {
    LEMMA_PROLOGUE;
    __CPROVER_assert(spec_extract(spec_adapt(s, t, lpar, n), s, lpar, n) == t, "C12 adapt/extract lemma: extract(adapt(s,t,par), s, par) == t");
    if (!lpar && s + t >= n) REACH("inverse lemma extract(adapt) parity 0 wrap");
}
void h_extract_form_lemma(void) {
    LEMMA_PROLOGUE;
    __CPROVER_assert(form_extract(t, s, lpar, n) == spec_extract(t, s, lpar, n), "C12 extract form lemma: (-sig.s + pre.s) and its negation equal pre.s - sig.s / sig.s - pre.s mod n");
    if (!lpar && t < s) REACH("extract form lemma parity 0 borrow");
}
void h_inverse_lemma_ae(void) {
    LEMMA_PROLOGUE;
    __CPROVER_assert(spec_adapt(s, spec_extract(t, s, lpar, n), lpar, n) == t, "C12 adapt/extract lemma: adapt(s, extract(sig,s,par), par) == sig.s");
    if (lpar && t > s) REACH("inverse lemma adapt(extract) parity 1 borrow");
}
#endif

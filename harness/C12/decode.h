/* Decoding of OPAQUE API objects for specifications (audit #17): the byte layout of secp256k1_pubkey, musig keyagg cache, session,
 * nonces, partial signatures and keypairs is implementation defined, so the harnesses never index their bytes.  They decode them
 * with the translation unit's own *_load functions, run on a private context whose callbacks count nothing, and state every
 * assertion over the decoded FIELDS.  "The object is initialised" is the load function's own verdict.
 * Include after "src/secp256k1.c" and "post.h". */
#ifndef VERIF_DECODE_H
#define VERIF_DECODE_H
static void cb_ignore(const char *s, void *d) { (void)s; (void)d; }
static secp256k1_context g_dctx;
static void dec_init(void) {
    g_dctx.illegal_callback.fn = cb_ignore; g_dctx.illegal_callback.data = NULL; g_dctx.error_callback.fn = cb_ignore; g_dctx.error_callback.data = NULL; g_dctx.declassify = 0;
}
static int dec_pubkey(secp256k1_ge *g, const secp256k1_pubkey *pk) { return secp256k1_pubkey_load(&g_dctx, g, pk); }
static int dec_cache(secp256k1_keyagg_cache_internal *ci, const secp256k1_musig_keyagg_cache *c) { return secp256k1_keyagg_cache_load(&g_dctx, ci, c); }
static int dec_session(secp256k1_musig_session_internal *si, const secp256k1_musig_session *s) { return secp256k1_musig_session_load(&g_dctx, si, s); }
static int dec_pubnonce(secp256k1_ge *ges, const secp256k1_musig_pubnonce *n) { return secp256k1_musig_pubnonce_load(&g_dctx, ges, n); }
static int dec_aggnonce(secp256k1_ge *ges, const secp256k1_musig_aggnonce *n) { return secp256k1_musig_aggnonce_load(&g_dctx, ges, n); }
static int dec_psig(secp256k1_scalar *s, const secp256k1_musig_partial_sig *p) { return secp256k1_musig_partial_sig_load(&g_dctx, s, p); }
static int dec_secnonce(secp256k1_scalar *k, secp256k1_ge *pk, const secp256k1_musig_secnonce *sn) { return secp256k1_musig_secnonce_load(&g_dctx, k, pk, sn); }
static int dec_keypair(secp256k1_scalar *sk, secp256k1_ge *pk, const secp256k1_keypair *kp) { return secp256k1_keypair_load(&g_dctx, sk, pk, kp); }
#ifndef VERIF_NATIVE
/* canonical value of a coordinate that came out of a load function (limbs from 32 storage bytes: value < 2^256 < 2p) */
static wide cval(const secp256k1_fe *a) { wide v = fval(a), p = P_(); return v >= p ? v - p : v; }
/* canonical value of a field element of magnitude <= 4 (oracle outputs, negated coordinates): < 10p */
static wide cval4(const secp256k1_fe *a) { wide v = fval(a), p = P_(); if (v >= 8 * p) v -= 8 * p; if (v >= 4 * p) v -= 4 * p; if (v >= 2 * p) v -= 2 * p; if (v >= p) v -= p; return v; }
static void be_bytes32(unsigned char *out, wide v) { int i; for (i = 0; i < 32; i++) out[i] = (unsigned char)(v >> (8 * (31 - i))); }   /* constant shifts only */
static wide negn_(wide v) { return v == 0 ? 0 : N_() - v; }
static wide modn1_(wide v) { wide n = N_(); return v >= n ? v - n : v; }
/* {a,b} == {c,d} as unordered pairs of scalars (commutative oracle operands) */
static int pair_eq(wide a, wide b, wide c, wide d) { return (a == c && b == d) || (a == d && b == c); }
#endif
#endif

/* C12: secp256k1_musig_partial_sig_agg (BIP-327 PartialSigAgg), real code incl. real scalar_add, for n <= 3 partial
 * signatures (BOUNDED: the two loops over the caller-supplied count are unwound), every pointer NULL or an object with
 * arbitrary bytes.  Session and partial signatures are OPAQUE: decoded with the TU's own *_load functions (audit #17); nothing is
 * demanded about sig64 when the call fails (audit #16).
 *   s = s_part + s_1 + ... + s_n mod n ;  sig64 = x(R) || s ;  n = 0 or a NULL entry => illegal. */
#include "assumed.h"
#include "src/secp256k1.c"
#include "post.h"
#include "decode.h"
size_t g_k;
#define NS 3
void h_psig_agg(void) {
    secp256k1_context ctx;
    INPUT(secp256k1_musig_partial_sig, p0); INPUT(secp256k1_musig_partial_sig, p1); INPUT(secp256k1_musig_partial_sig, p2); INPUT(secp256k1_musig_session, sess);
    INPUT_ARR(unsigned char, sig64, 64);
    INPUT(size_t, n); INPUT(_Bool, s0); INPUT(_Bool, s1); INPUT(_Bool, s2); INPUT(_Bool, use_sig); INPUT(_Bool, use_sess); INPUT(_Bool, use_arr); INPUT(size_t, k);
    const secp256k1_musig_partial_sig *arr[NS]; secp256k1_scalar sv[NS]; int okv[NS]; secp256k1_musig_session_internal si;
    int ret, anynull = 0, badmagic = 0, ok_sess; size_t i;
    dec_init(); ok_sess = dec_session(&si, &sess); okv[0] = dec_psig(&sv[0], &p0); okv[1] = dec_psig(&sv[1], &p1); okv[2] = dec_psig(&sv[2], &p2);
    verif_ctx_init(&ctx);
    __CPROVER_assume(n <= NS);                                   /* BOUNDED stand-in */
    arr[0] = s0 ? &p0 : NULL; arr[1] = s1 ? &p1 : NULL; arr[2] = s2 ? &p2 : NULL;
    g_k = k; __CPROVER_assume(g_k < 32);
    for (i = 0; i < NS; i++) if (i < n) { if (arr[i] == NULL) anynull = 1; else if (!okv[i]) badmagic = 1; }

    ret = secp256k1_musig_partial_sig_agg(&ctx, use_sig ? sig64 : NULL, use_sess ? &sess : NULL, use_arr ? arr : NULL, n);

    __CPROVER_assert(ret == 0 || ret == 1, "C12 partial_sig_agg: returns 0 or 1");
    __CPROVER_assert(g_error == 0, "C12 partial_sig_agg: error callback never invoked");
    if (!use_sig || !use_sess || !use_arr || n == 0 || anynull || !ok_sess || badmagic) {
        __CPROVER_assert(ret == 0 && g_illegal == 1, "C12 partial_sig_agg: NULL argument, n = 0, NULL entry or uninitialised object is illegal, returns 0");
        if (n == 0 && use_sig && use_sess && use_arr) REACH("partial_sig_agg n = 0");
        if (n == 3 && use_sig && use_sess && use_arr && ok_sess && !anynull && badmagic) REACH("partial_sig_agg bad magic in a signature");
        return;
    }
    __CPROVER_assert(ret == 1 && g_illegal == 0, "C12 partial_sig_agg: succeeds for initialised objects");
#ifndef VERIF_NATIVE
    {
        wide nn = N_(), acc = sval(&si.s_part);
        for (i = 0; i < NS; i++) if (i < n) { acc += sval(&sv[i]); if (acc >= nn) acc -= nn; }
        __CPROVER_assert(be256(&sig64[32]) == acc, "C12 partial_sig_agg: s = s_part + sum of the partial signatures mod n");
        __CPROVER_assert(sig64[g_k] == si.fin_nonce[g_k], "C12 partial_sig_agg: first half is the session's final nonce x");
        if (n == 3 && sval(&si.s_part) != 0) REACH("partial_sig_agg three signatures plus tweak term");
        if (n == 1) REACH("partial_sig_agg one signature");
    }
#endif
}

/* the loop-contract variant for symbolic n_sigs is harness/C12/psig_agg_loop.c (unit C12.partial_sig_agg_loop) */

/* C12: secp256k1_musig_partial_sig_agg (BIP-327 PartialSigAgg), real code incl. real scalar_add, for n <= 3 partial
 * signatures (BOUNDED: the two loops over the caller-supplied count are unwound), every pointer NULL or an object with
 * arbitrary bytes.  Session and partial signatures are OPAQUE: decoded with the TU's own *_load functions (audit #17); nothing is
 * demanded about sig64 when the call fails (audit #16).
 *   s = s_part + s_1 + ... + s_n mod n ;  sig64 = x(R) || s ;  n = 0 or a NULL entry => illegal. */
#include "assumed.h"
#include "src/secp256k1.c"
#include "post.h"
#include "decode.h"
size_t g_k;
#define NS 3
void h_psig_agg(void) {
    secp256k1_context ctx;
    INPUT(secp256k1_musig_partial_sig, p0); INPUT(secp256k1_musig_partial_sig, p1); INPUT(secp256k1_musig_partial_sig, p2); INPUT(secp256k1_musig_session, sess);
    INPUT_ARR(unsigned char, sig64, 64);
    INPUT(size_t, n); INPUT(_Bool, s0); INPUT(_Bool, s1); INPUT(_Bool, s2); INPUT(_Bool, use_sig); INPUT(_Bool, use_sess); INPUT(_Bool, use_arr); INPUT(size_t, k);
    const secp256k1_musig_partial_sig *arr[NS]; secp256k1_scalar sv[NS]; int okv[NS]; secp256k1_musig_session_internal si;
    int ret, anynull = 0, badmagic = 0, ok_sess; size_t i;
    dec_init(); ok_sess = dec_session(&si, &sess); okv[0] = dec_psig(&sv[0], &p0); okv[1] = dec_psig(&sv[1], &p1); okv[2] = dec_psig(&sv[2], &p2);
    verif_ctx_init(&ctx);
    __CPROVER_assume(n <= NS);                                   /* BOUNDED stand-in */
    arr[0] = s0 ? &p0 : NULL; arr[1] = s1 ? &p1 : NULL; arr[2] = s2 ? &p2 : NULL;
    g_k = k; __CPROVER_assume(g_k < 32);
    for (i = 0; i < NS; i++) if (i < n) { if (arr[i] == NULL) anynull = 1; else if (!okv[i]) badmagic = 1; }

    ret = secp256k1_musig_partial_sig_agg(&ctx, use_sig ? sig64 : NULL, use_sess ? &sess : NULL, use_arr ? arr : NULL, n);

    __CPROVER_assert(ret == 0 || ret == 1, "C12 partial_sig_agg: returns 0 or 1");
    __CPROVER_assert(g_error == 0, "C12 partial_sig_agg: error callback never invoked");
    if (!use_sig || !use_sess || !use_arr || n == 0 || anynull || !ok_sess || badmagic) {
        __CPROVER_assert(ret == 0 && g_illegal == 1, "C12 partial_sig_agg: NULL argument, n = 0, NULL entry or uninitialised object is illegal, returns 0");
        if (n == 0 && use_sig && use_sess && use_arr) REACH("partial_sig_agg n = 0");
        if (n == 3 && use_sig && use_sess && use_arr && ok_sess && !anynull && badmagic) REACH("partial_sig_agg bad magic in a signature");
        return;
    }
    __CPROVER_assert(ret == 1 && g_illegal == 0, "C12 partial_sig_agg: succeeds for initialised objects");
#ifndef VERIF_NATIVE
    {
        wide nn = N_(), acc = sval(&si.s_part);
        for (i = 0; i < NS; i++) if (i < n) { acc += sval(&sv[i]); if (acc >= nn) acc -= nn; }
        __CPROVER_assert(be256(&sig64[32]) == acc, "C12 partial_sig_agg: s = s_part + sum of the partial signatures mod n");
        __CPROVER_assert(sig64[g_k] == si.fin_nonce[g_k], "C12 partial_sig_agg: first half is the session's final nonce x");
        if (n == 3 && sval(&si.s_part) != 0) REACH("partial_sig_agg three signatures plus tweak term");
        if (n == 1) REACH("partial_sig_agg one signature");
    }
#endif
}

/* ---- UNBOUNDED gates (n_sigs symbolic, loop contracts supplied from the unit table): a NULL entry or a signature object
 * without its magic at ANY index => illegal callback and 0, nothing written; success => first half = session nonce and
 * the s value written is a canonical scalar.  The VALUE of the sum is the bounded unit above. ---- */
size_t verif_c12_gi, verif_c12_j1, verif_c12_j2;   /* ghost indices: an arbitrary one, and the two positions where the list deviates from &ga */
static void cb_illegal_d(const char *s, void *d) { (void)s; (*(unsigned *)d)++; }
void h_psig_agg_gates(void) {
    secp256k1_context ctx;
    INPUT(secp256k1_musig_partial_sig, ga); INPUT(secp256k1_musig_partial_sig, gb); INPUT(secp256k1_musig_session, gsess); INPUT_ARR(unsigned char, gsig64, 64);
    INPUT(size_t, n); INPUT(size_t, gi); INPUT(size_t, j1); INPUT(size_t, j2); INPUT(unsigned char, sel1); INPUT(unsigned char, sel2); INPUT(_Bool, use_sig); INPUT(_Bool, use_sess); INPUT(_Bool, use_arr); INPUT(size_t, k);
    const secp256k1_musig_partial_sig **arr; const secp256k1_musig_partial_sig *at_gi = NULL; unsigned char sig0[64];
    int ret, ok_sess, ok_a, ok_b; unsigned n_illegal = 0;
    verif_ctx_init(&ctx);
    ctx.illegal_callback.fn = cb_illegal_d; ctx.illegal_callback.data = &n_illegal;
    __CPROVER_assume(n <= 100000 && k < 32);
    arr = malloc(n ? n * sizeof(*arr) : 1);
    __CPROVER_assume(arr != NULL);
    /* list shape without a quantifier: every entry is &ga except two arbitrary positions holding NULL, &ga or &gb; ga, gb arbitrary bytes */
    __CPROVER_array_set(arr, &ga);
    if (j1 < n) arr[j1] = sel1 == 0 ? NULL : (sel1 == 1 ? &ga : &gb);
    if (j2 < n) arr[j2] = sel2 == 0 ? NULL : (sel2 == 1 ? &ga : &gb);
    if (gi < n) at_gi = arr[gi];
    verif_c12_gi = gi; verif_c12_j1 = j1; verif_c12_j2 = j2; g_k = k;
    memcpy(sig0, gsig64, 64);
    ok_sess = gsess.data[0] == 0x9d && gsess.data[1] == 0xed && gsess.data[2] == 0xe9 && gsess.data[3] == 0x17;
    ok_a = ga.data[0] == 0xeb && ga.data[1] == 0xfb && ga.data[2] == 0x1a && ga.data[3] == 0x32;
    ok_b = gb.data[0] == 0xeb && gb.data[1] == 0xfb && gb.data[2] == 0x1a && gb.data[3] == 0x32;
    ret = secp256k1_musig_partial_sig_agg(&ctx, use_sig ? gsig64 : NULL, use_sess ? &gsess : NULL, use_arr ? arr : NULL, n);
    __CPROVER_assert(ret == 0 || ret == 1, "C12 partial_sig_agg gates: returns 0 or 1");
    __CPROVER_assert(g_error == 0 && n_illegal <= 1, "C12 partial_sig_agg gates: no error callback, at most one illegal-argument report");
    if (ret == 0) __CPROVER_assert(gsig64[g_k] == sig0[g_k] && gsig64[32 + g_k] == sig0[32 + g_k], "C12 partial_sig_agg gates: no signature written on failure, for every n");
    if (!use_sig || !use_sess || !use_arr || n == 0) __CPROVER_assert(ret == 0 && n_illegal == 1, "C12 partial_sig_agg gates: NULL argument or n = 0 is illegal");
    else {
        if (gi < n && at_gi == NULL) __CPROVER_assert(ret == 0 && n_illegal == 1, "C12 partial_sig_agg gates: a NULL entry at ANY index is illegal");
        if (gi < n && at_gi != NULL && !(at_gi == &ga ? ok_a : ok_b)) __CPROVER_assert(ret == 0 && n_illegal == 1, "C12 partial_sig_agg gates: a signature object without its magic at ANY index is illegal");
        if (!ok_sess) __CPROVER_assert(ret == 0 && n_illegal == 1, "C12 partial_sig_agg gates: session without its magic is illegal");
        if (ret == 1) {
            __CPROVER_assert(n_illegal == 0 && ok_sess, "C12 partial_sig_agg gates: success means no report and an initialised session");
            __CPROVER_assert(gsig64[g_k] == gsess.data[5 + g_k], "C12 partial_sig_agg gates: first half is the session's final nonce x, for every n");
#ifndef VERIF_NATIVE
            __CPROVER_assert(be256(&gsig64[32]) < N_(), "C12 partial_sig_agg gates: the s value written is a canonical scalar, for every n");
#endif
        }
        if (ret == 1 && n > 150) REACH("partial_sig_agg gates success on a long list");
        if (ret == 1 && n == 1) REACH("partial_sig_agg gates success n = 1");
        if (ret == 1) REACH("partial_sig_agg gates success");
        if (n > 100 && gi == 77 && at_gi == NULL) REACH("partial_sig_agg gates NULL entry in the middle");
        if (n > 100 && gi == 78 && at_gi == &gb && !ok_b && ok_a) REACH("partial_sig_agg gates bad magic in the middle");
    }
}

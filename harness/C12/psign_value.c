/* C12: the VALUE of the partial signature produced by secp256k1_musig_partial_sign (BIP-327 Sign), real code, all objects valid
 * or not, over logged oracles (audit #27):
 *     s = e * (mu * d) + k1' + b * k2'  (mod n)
 *   d   = sk negated exactly when odd(y(Q)) != parity accumulator,   mu = KeyAgg coefficient of the signer's key in THIS cache,
 *   k_i' = k_i negated exactly when the session's final-nonce parity is set,  e, b = the session's challenge and nonce coefficient.
 * Oracles with logs: secp256k1_scalar_mul (the three products, identified by operand VALUES in any call order and operand order),
 * secp256k1_musig_keyaggcoef (logs the key and the cache content it was asked about).  Additions/negations are the real code.
 * All five objects are opaque and decoded with the TU's own *_load functions.  (Wipe / no-signature / binding are C13.psign.) */
#define LOG_SCALAR_MUL
#define LOG_KEYAGGCOEF
#include "assumed_musig.h"
#include "src/secp256k1.c"
#include "post.h"
#include "decode.h"

#ifndef VERIF_NATIVE
static wide addn(wide a, wide b) { wide n = N_(), c = a + b; return c >= n ? c - n : c; }
static int same_ge(const secp256k1_ge *a, const secp256k1_ge *b) { return a->infinity == b->infinity && (a->infinity || (cval4(&a->x) == cval4(&b->x) && cval4(&a->y) == cval4(&b->y))); }
#endif

void h_psign_value(void) {
    secp256k1_context ctx;
    INPUT(secp256k1_musig_partial_sig, psig); INPUT(secp256k1_musig_secnonce, sn); INPUT(secp256k1_keypair, kp); INPUT(secp256k1_musig_keyagg_cache, cache); INPUT(secp256k1_musig_session, sess); INPUT(size_t, ki);
    secp256k1_scalar k[2], sk, sout; secp256k1_ge Pn, Pk; secp256k1_keyagg_cache_internal ci; secp256k1_musig_session_internal si;
    int ret, sn_ok, kp_ok, c_ok, s_ok, out_ok;
    dec_init(); sn_ok = dec_secnonce(k, &Pn, &sn); kp_ok = dec_keypair(&sk, &Pk, &kp); c_ok = dec_cache(&ci, &cache); s_ok = dec_session(&si, &sess);
    verif_ctx_init(&ctx);
    g_mul_n = 0; g_kc_n = 0; g_kc_i = ki; __CPROVER_assume(g_kc_i < 32);

    ret = secp256k1_musig_partial_sign(&ctx, &psig, &sn, &kp, &cache, &sess);

    __CPROVER_assert(ret == 0 || ret == 1, "C12 partial_sign value: returns 0 or 1");
    if (ret == 1) {
        out_ok = dec_psig(&sout, &psig);
        __CPROVER_assert(sn_ok && kp_ok && c_ok && s_ok && out_ok && g_illegal == 0, "C12 partial_sign value: success needs initialised objects and yields an initialised partial signature");
#ifndef VERIF_NATIVE
        {
            wide p = P_(), Qy = fval(&ci.pk.y), d = sval(&sk), k1 = sval(&k[0]), k2 = sval(&k[1]), e = sval(&si.challenge), b = sval(&si.noncecoef), mu;
            wide ma[3], mb[3], mr[3]; int found = 0, q; wide want = 0;
            static const int perm[6][3] = { {0,1,2}, {0,2,1}, {1,0,2}, {1,2,0}, {2,0,1}, {2,1,0} };
            if ((((int)(Qy & 1)) != ci.parity_acc)) d = negn_(d);
            if (si.fin_nonce_parity) { k1 = negn_(k1); k2 = negn_(k2); }
            __CPROVER_assert(g_kc_n >= 1 && cval4(&g_kc_pk0.x) == cval(&Pn.x) && cval4(&g_kc_pk0.y) == cval(&Pn.y) && g_kc_hash_b0 == ci.pks_hash[g_kc_i] && same_ge(&g_kc_second0, &ci.second_pk),
                             "C12 partial_sign value: KeyAgg coefficient requested for the signer's public key in the given cache (key-list hash and second key)");
            mu = sval(&g_kc_r0);
            __CPROVER_assert(g_mul_n >= 3, "C12 partial_sign value: three products");
            ma[0] = sval(&g_mul_a0); mb[0] = sval(&g_mul_b0); mr[0] = sval(&g_mul_r0); ma[1] = sval(&g_mul_a1); mb[1] = sval(&g_mul_b1); mr[1] = sval(&g_mul_r1); ma[2] = sval(&g_mul_a2); mb[2] = sval(&g_mul_b2); mr[2] = sval(&g_mul_r2);
            /* roles (x, y, z) = (mu*d, e*(mu*d), b*k2') among the three logged products, any order */
            for (q = 5; q >= 0; q--) {
                int x = perm[q][0], y = perm[q][1], z = perm[q][2];
                if (pair_eq(ma[x], mb[x], d, mu) && pair_eq(ma[y], mb[y], e, mr[x]) && pair_eq(ma[z], mb[z], b, k2)) { found = 1; want = addn(mr[y], addn(k1, mr[z])); }
            }
            if (Qy < p) {   /* a cache written by the library holds canonical coordinates */
                __CPROVER_assert(found, "C12 partial_sign value: the products are mu*d, e*(mu*d) and b*k2' with d, k2' carrying the BIP-327 sign conventions");
                /* (if two role assignments fit, the oracle may have answered equal operand pairs differently; the value clause is for the unambiguous case) */
                if (found && !(pair_eq(d, mu, b, k2) || pair_eq(d, mu, e, mr[0]) || pair_eq(d, mu, e, mr[1]) || pair_eq(d, mu, e, mr[2]) || pair_eq(b, k2, e, mr[0]) || pair_eq(b, k2, e, mr[1]) || pair_eq(b, k2, e, mr[2])))
                    __CPROVER_assert(sval(&sout) == want, "C12 partial_sign value: s = e*mu*d + k1' + b*k2' mod n");
                if (found && si.fin_nonce_parity && (((int)(Qy & 1)) != ci.parity_acc)) REACH("partial_sign value with both negations");
                if (found && !si.fin_nonce_parity) REACH("partial_sign value without nonce negation");
            }
        }
#endif
    }
    if (ret == 0 && sn_ok && kp_ok && c_ok && s_ok) REACH("partial_sign value: foreign key refused");
}

/* C12: secp256k1_musig_nonce_process (BIP-327 GetSessionValues as far as the session object goes), real code, every
 * pointer NULL or an object with arbitrary bytes.  The aggnonce, keyagg cache, adaptor key and the resulting session are OPAQUE:
 * they are decoded with the TU's own *_load functions and every clause is over decoded fields and oracle operand values (audit
 * #7, #16, #17); nothing is demanded about the session object when the call fails.
 * Oracles with ghost logs: secp256k1_ecmult (b*R2), secp256k1_gej_add_ge_var (adaptor addition, R1 + b*R2),
 * secp256k1_ge_set_gej, secp256k1_scalar_mul (e*tacc).  Replaced by proved summaries: sha256_write/_finalize (stream
 * contracts; here they expose the nonce-coefficient hash - kept at stream level for cost, audit #31), secp256k1_schnorrsig_challenge
 * (C02 units; content of all three inputs logged).
 *   b       = int(TaggedHash("MuSig/noncecoef", cbytes_ext(R1') || cbytes_ext(R2) || x(Q) || msg)) mod n, R1' = R1 [+ adaptor]
 *   R       = R1' + b*R2 ; R = infinity => G ; session stores x(R) and the parity of y(R)
 *   e       = challenge(x(R), msg, 32, x(Q)) ; s_part = 0 if tacc = 0, else e*tacc negated iff y(Q) is odd
 *   the adaptor is added to the FIRST component only; R2 reaches the multiplication unchanged */
#define LOG_ECMULT
#define LOG_GE_SET_GEJ
#define LOG_SCALAR_MUL
#define LOG_GEJ_ADD_GE
#define LOG_CHALLENGE32
#define C02_HASHLOG2
#include "pre.h"
#define secp256k1_schnorrsig_challenge verif_unused_challenge_decl   /* assumed_C02.h's own summary of the challenge is not used here */
#include "assumed_C02.h"
#undef secp256k1_schnorrsig_challenge
#include "assumed_musig.h"
#include "src/secp256k1.c"
#include "post.h"
#include "decode.h"

size_t g_k;
#ifndef VERIF_NATIVE
static wide GX(void) { return (W(0x79BE667EF9DCBBACULL) << 192) | (W(0x55A06295CE870B07ULL) << 128) | (W(0x029BFCDB2DCE28D9ULL) << 64) | W(0x59F2815B16F81798ULL); }
static int same_ge(const secp256k1_ge *a, const secp256k1_ge *b) { return a->infinity == b->infinity && (a->infinity || (cval4(&a->x) == cval4(&b->x) && cval4(&a->y) == cval4(&b->y))); }
static int gej_is_ge(const secp256k1_gej *a, const secp256k1_ge *b) { return a->infinity == b->infinity && (a->infinity || (cval4(&a->x) == cval4(&b->x) && cval4(&a->y) == cval4(&b->y) && cval4(&a->z) == 1)); }
#endif

void h_nonce_process(void) {
    secp256k1_context ctx;
    INPUT(secp256k1_musig_session, sess); INPUT(secp256k1_musig_aggnonce, an); INPUT(secp256k1_musig_keyagg_cache, cache); INPUT(secp256k1_pubkey, adaptor);
    INPUT_ARR(unsigned char, msg, 32);
    INPUT(_Bool, use_sess); INPUT(_Bool, use_an); INPUT(_Bool, use_msg); INPUT(_Bool, use_cache); INPUT(_Bool, use_adaptor); INPUT(size_t, k); INPUT(uint64_t, wpos);
    secp256k1_ge R[2], A; secp256k1_keyagg_cache_internal ci; secp256k1_musig_session_internal so;
    int ret, an_ok, cache_ok, ad_ok, so_ok;
    dec_init(); an_ok = dec_aggnonce(R, &an); cache_ok = dec_cache(&ci, &cache); ad_ok = dec_pubkey(&A, &adaptor);
    verif_ctx_init(&ctx); ctx.hash_ctx.fn_sha256_compression = secp256k1_sha256_transform;
    g_k = k; __CPROVER_assume(g_k < 32);
    g_ecmult_n = 0; g_sg_n = 0; g_mul_n = 0; g_age_n = 0; HASHLOG_RESET(); g_we = 0; g_we2 = 0; g_wpos = wpos; g_ch_n = 0; g_ch_i = k;

    ret = secp256k1_musig_nonce_process(&ctx, use_sess ? &sess : NULL, use_an ? &an : NULL, use_msg ? msg : NULL, use_cache ? &cache : NULL, use_adaptor ? &adaptor : NULL);

    __CPROVER_assert(ret == 0 || ret == 1, "C12 nonce_process: returns 0 or 1");
    __CPROVER_assert(g_error == 0, "C12 nonce_process: error callback never invoked");
    if (!use_sess || !use_an || !use_msg || !use_cache || !an_ok || !cache_ok || (use_adaptor && !ad_ok)) {
        __CPROVER_assert(ret == 0 && g_illegal == 1, "C12 nonce_process: NULL argument or an uninitialised/invalid object is illegal");
        if (use_sess && use_an && use_msg && use_cache && !an_ok) REACH("nonce_process aggnonce without magic");
        if (use_sess && use_an && use_msg && use_cache && an_ok && cache_ok && use_adaptor) REACH("nonce_process invalid adaptor");
        return;
    }
    so_ok = dec_session(&so, &sess);
#ifndef VERIF_NATIVE
    {
        wide p = P_(), n = N_(), Qx = fval(&ci.pk.x), Qy = fval(&ci.pk.y), tacc = sval(&ci.tweak);
        int canonQ = Qx < p && Qy < p, last = use_adaptor ? 1 : 0;   /* index of the addition R1' + b*R2 among the logged additions */
        secp256k1_ge F1;                                              /* first component as hashed and as used in R1' + b*R2 */
        wide finx, bval; int finpar, fininf;
        unsigned char f1xb[32], r2xb[32], qxb[32], finxb[32];
        __CPROVER_assert(ret == 1 && g_illegal == 0 && so_ok, "C12 nonce_process: succeeds for every initialised cache, aggnonce and message, and produces an initialised session");
        /* --- adaptor goes to the first component only --- */
        if (use_adaptor) {
            __CPROVER_assert(g_age_n >= 2 && g_sg_n >= 1, "C12 nonce_process: with adaptor: an addition for the adaptor and one for the final nonce");
            __CPROVER_assert((gej_is_ge(&g_age_a0, &R[0]) && same_ge(&g_age_b0, &A)) , "C12 nonce_process: the adaptor public key is added to the FIRST aggregate-nonce component");
            __CPROVER_assert(GEJ_EQ(g_sg_a0, g_age_r0), "C12 nonce_process: the new first component is the affine form of R1 + adaptor");
            F1 = g_sg_r0;
        } else {
            __CPROVER_assert(g_age_n >= 1 && g_sg_n >= 1, "C12 nonce_process: without adaptor: one addition, one conversion");
            F1 = R[0];
        }
        /* --- nonce coefficient hash --- */
        __CPROVER_assert(g_fin_n == 1 && g_w_started && g_w_b0 == 64 && g_w_s0 == 0x2c7d5a45ul && g_w_s7 == 0xde7a2500ul, "C12 nonce_process: one hash, from the MuSig/noncecoef midstate with 64 bytes absorbed");
        __CPROVER_assert(g_w_fin && g_w_end == 64 + 33 + 33 + 32 + 32, "C12 nonce_process: coefficient hash absorbs 130 bytes");
        be_bytes32(f1xb, cval4(&F1.x)); be_bytes32(r2xb, cval(&R[1].x)); be_bytes32(qxb, Qx);
        if (g_wpos >= 64 && g_wpos < 64 + 130) {
            uint64_t q = g_wpos - 64; unsigned char want;
            __CPROVER_assert(g_w_hit, "C12 nonce_process: every position of the coefficient hash is written");
            if (q == 0) want = F1.infinity ? 0 : (2 | (unsigned char)(cval4(&F1.y) & 1));
            else if (q < 33) want = F1.infinity ? 0 : f1xb[q - 1];
            else if (q == 33) want = R[1].infinity ? 0 : (2 | (unsigned char)(cval(&R[1].y) & 1));
            else if (q < 66) want = R[1].infinity ? 0 : r2xb[q - 34];
            else if (q < 98) want = qxb[q - 66];
            else want = msg[q - 98];
            if (q >= 66 && q < 98 && !canonQ) want = g_w_byte;   /* nothing claimed for a cache with non-canonical coordinates */
            __CPROVER_assert(g_w_byte == want, "C12 nonce_process: coefficient hash input = cbytes_ext(R1') || cbytes_ext(R2) || x(Q) || msg (infinity = 33 zero bytes)");
            if (q == 0 && F1.infinity && use_adaptor) REACH("nonce_process first component cancels to infinity after adaptor");
            if (q == 40 && R[1].infinity) REACH("nonce_process second component at infinity");
        }
        /* --- b*R2 and R1' + b*R2 --- */
        { wide d = be256(g_w_dig); bval = d >= n ? d - n : d; }
        __CPROVER_assert(g_ecmult_n >= 1 && g_ecmult_has_na0 && sval(&g_ecmult_na0) == bval && (!g_ecmult_has_ng0 || sval(&g_ecmult_ng0) == 0), "C12 nonce_process: multiplies by b = coefficient digest mod n, no generator term");
        __CPROVER_assert(sval(&so.noncecoef) == bval, "C12 nonce_process: session stores b");
        __CPROVER_assert(gej_is_ge(&g_ecmult_a0, &R[1]), "C12 nonce_process: the point multiplied is the second component, unchanged (adaptor or not)");
        if (last == 0) {
            __CPROVER_assert((GEJ_EQ(g_age_a0, g_ecmult_r0) && same_ge(&g_age_b0, &F1)), "C12 nonce_process: final nonce = R1 + b*R2");
            __CPROVER_assert(GEJ_EQ(g_sg_a0, g_age_r0), "C12 nonce_process: final nonce converted to affine");
            fininf = g_sg_r0.infinity; finx = cval4(&g_sg_r0.x); finpar = (int)(cval4(&g_sg_r0.y) & 1);
            if (fininf) { finx = GX(); finpar = 0; }
            be_bytes32(finxb, finx);
            __CPROVER_assert(so.fin_nonce_parity == finpar, "C12 nonce_process: session parity = odd(y(R)), or that of G when R is infinity");
            __CPROVER_assert(so.fin_nonce[g_k] == finxb[g_k], "C12 nonce_process: session nonce = x(R), or x(G) when R is infinity");
            if (fininf) REACH("nonce_process final nonce at infinity replaced by G");
        } else {
            __CPROVER_assert((GEJ_EQ(g_age_a1, g_ecmult_r0) && same_ge(&g_age_b1, &F1)), "C12 nonce_process: final nonce = (R1 + adaptor) + b*R2");
            be_bytes32(finxb, GX());
            if (g_age_r1.infinity) __CPROVER_assert(so.fin_nonce_parity == 0 && so.fin_nonce[g_k] == finxb[g_k], "C12 nonce_process: with adaptor: final nonce at infinity replaced by G");
            if (g_age_r1.infinity) REACH("nonce_process with adaptor, final nonce at infinity");
        }
        __CPROVER_assert(so.fin_nonce_parity == 0 || so.fin_nonce_parity == 1, "C12 nonce_process: session parity is one bit");
        /* --- challenge and tweak term --- */
        __CPROVER_assert(g_ch_n >= 1 && g_ch_msglen == 32 && g_ch_msg_b == msg[g_k], "C12 nonce_process: challenge over the caller's 32-byte message");
        __CPROVER_assert(g_ch_r_b == so.fin_nonce[g_k], "C12 nonce_process: challenge is over the final nonce stored in the session");
        if (canonQ) __CPROVER_assert(g_ch_pk_b == qxb[g_k], "C12 nonce_process: challenge is over x(Q)");
        __CPROVER_assert(SC_EQ(so.challenge, g_ch_e), "C12 nonce_process: session stores the challenge");
        if (tacc == 0) __CPROVER_assert(sval(&so.s_part) == 0, "C12 nonce_process: no tweak => s_part = 0");
        else {
            wide prod = sval(&g_mul_r0);
            __CPROVER_assert(g_mul_n >= 1 && pair_eq(sval(&g_mul_a0), sval(&g_mul_b0), sval(&g_ch_e), tacc), "C12 nonce_process: tweak term is e * tacc");
            if (canonQ) __CPROVER_assert(sval(&so.s_part) == ((Qy & 1) ? negn_(prod) : prod), "C12 nonce_process: s_part = e*tacc, negated exactly when y(Q) is odd");
            if (canonQ && (Qy & 1)) REACH("nonce_process tweak term negated");
        }
        if (use_adaptor && !R[0].infinity) REACH("nonce_process with adaptor");
        if (!use_adaptor && tacc == 0 && !R[0].infinity && !R[1].infinity) REACH("nonce_process plain");
    }
#endif
}

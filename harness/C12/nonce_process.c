/* C12: secp256k1_musig_nonce_process (BIP-327 GetSessionValues as far as the session object goes), real code, every
 * pointer NULL or an object with arbitrary bytes.
 * Oracles with ghost logs: secp256k1_ecmult (b*R2), secp256k1_gej_add_ge_var (adaptor addition, R1 + b*R2),
 * secp256k1_ge_set_gej, secp256k1_scalar_mul (e*tacc).  Replaced by proved summaries: sha256_write/_finalize (stream
 * contracts; here they expose the nonce-coefficient hash), secp256k1_schnorrsig_challenge (C02.challenge; argument log).
 *   b       = int(TaggedHash("MuSig/noncecoef", cbytes_ext(R1') || cbytes_ext(R2) || x(Q) || msg)) mod n, R1' = R1 [+ adaptor]
 *   R       = R1' + b*R2 ; R = infinity => G ; session stores x(R) and the parity of y(R)
 *   e       = challenge(x(R), msg, 32, x(Q)) ; s_part = 0 if tacc = 0, else e*tacc negated iff y(Q) is odd
 *   the adaptor is added to the FIRST component only; R2 reaches the multiplication unchanged */
#define LOG_ECMULT
#define LOG_GE_SET_GEJ
#define LOG_SCALAR_MUL
#define LOG_GEJ_ADD_GE
#define C02_HASHLOG2
#define C02_CHALLENGE_CONTRACT
#include "assumed_C02.h"
#include "assumed_musig.h"
#include "src/secp256k1.c"
#include "post.h"

size_t g_k;
#ifndef VERIF_NATIVE
static wide le256(const unsigned char *b) { wide v = 0; int i; for (i = 31; i >= 0; i--) v = (v << 8) | W(b[i]); return v; }
static wide modp(wide v) { wide p = P_(); int i; for (i = 0; i < 2; i++) if (v >= p) v -= p; return v; }   /* operands < 3p: storage bytes (< 2^256) or magnitude-1 field elements */
static void be_bytes(unsigned char *out, wide v) { int i; for (i = 0; i < 32; i++) out[i] = (unsigned char)(v >> (8 * (31 - i))); }   /* constant shifts only */
static wide GX(void) { return (W(0x79BE667EF9DCBBACULL) << 192) | (W(0x55A06295CE870B07ULL) << 128) | (W(0x029BFCDB2DCE28D9ULL) << 64) | W(0x59F2815B16F81798ULL); }
#endif
static int all_zero(const unsigned char *b, size_t n) { size_t i; int z = 1; for (i = 0; i < n; i++) z &= (b[i] == 0); return z; }

void h_nonce_process(void) {
    secp256k1_context ctx;
    INPUT(secp256k1_musig_session, sess); INPUT(secp256k1_musig_aggnonce, an); INPUT(secp256k1_musig_keyagg_cache, cache); INPUT(secp256k1_pubkey, adaptor);
    INPUT_ARR(unsigned char, msg, 32);
    INPUT(_Bool, use_sess); INPUT(_Bool, use_an); INPUT(_Bool, use_msg); INPUT(_Bool, use_cache); INPUT(_Bool, use_adaptor); INPUT(size_t, k); INPUT(uint64_t, wpos);
    secp256k1_musig_session sess0 = sess;
    int ret, an_ok, cache_ok;
    verif_ctx_init(&ctx); ctx.hash_ctx.fn_sha256_compression = secp256k1_sha256_transform;
    g_k = k; __CPROVER_assume(g_k < 32);
    g_ecmult_n = 0; g_sg_n = 0; g_mul_n = 0; g_age_n = 0; HASHLOG_RESET(); g_we = 0; g_we2 = 0; g_wpos = wpos; CHALLENGE_RESET(0);
    an_ok = an.data[0] == 0xa8 && an.data[1] == 0xb7 && an.data[2] == 0xe4 && an.data[3] == 0x67;
    cache_ok = cache.data[0] == 0xf4 && cache.data[1] == 0xad && cache.data[2] == 0xbb && cache.data[3] == 0xdf;

    ret = secp256k1_musig_nonce_process(&ctx, use_sess ? &sess : NULL, use_an ? &an : NULL, use_msg ? msg : NULL, use_cache ? &cache : NULL, use_adaptor ? &adaptor : NULL);

    __CPROVER_assert(ret == 0 || ret == 1, "C12 nonce_process: returns 0 or 1");
    __CPROVER_assert(g_error == 0, "C12 nonce_process: error callback never invoked");
    if (!use_sess || !use_an || !use_msg || !use_cache || !an_ok || !cache_ok) {
        __CPROVER_assert(ret == 0 && g_illegal == 1 && g_ecmult_n == 0 && g_fin_n == 0, "C12 nonce_process: NULL argument or object without its magic is illegal; nothing is computed");
        if (use_sess) __CPROVER_assert(sess.data[g_k] == sess0.data[g_k] && sess.data[100 + g_k] == sess0.data[100 + g_k], "C12 nonce_process: session untouched on illegal call");
        if (use_sess && use_an && use_msg && use_cache && !an_ok) REACH("nonce_process aggnonce without magic");
        return;
    }
#ifndef VERIF_NATIVE
    {
        wide p = P_(), n = N_();
        int z1 = all_zero(&an.data[4], 64), z2 = all_zero(&an.data[68], 64);            /* components at infinity */
        wide R1x = modp(le256(&an.data[4])), R1y = modp(le256(&an.data[36])), R2x = modp(le256(&an.data[68])), R2y = modp(le256(&an.data[100]));
        wide Qx = le256(&cache.data[4]), Qy = le256(&cache.data[36]), tacc = be256(&cache.data[165]);
        wide Ax = le256(&adaptor.data[0]);
        int canonQ = Qx < p && Qy < p, slot_fin = use_adaptor ? 1 : 0;
        wide F1x, F1y; int F1inf;                                                        /* first component as hashed and as used in R1' + b*R2 */
        wide finx; int finpar, fininf;
        unsigned char f1xb[32], r2xb[32], qxb[32], finxb[32], gxb[32];
        if (tacc >= n) tacc -= n;
        if (use_adaptor && Ax == 0) {   /* zero-x (e.g. all-zero) public key object */
            __CPROVER_assert(ret == 0 && g_illegal == 1 && g_ecmult_n == 0, "C12 nonce_process: invalid adaptor object is illegal; nothing is computed");
            REACH("nonce_process invalid adaptor");
            return;
        }
        __CPROVER_assert(ret == 1 && g_illegal == 0, "C12 nonce_process: succeeds for every initialised cache, aggnonce and message");
        /* --- adaptor goes to the first component only --- */
        if (use_adaptor) {
            __CPROVER_assert(g_age_n == 2 && g_sg_n == 2, "C12 nonce_process: with adaptor: two additions, two conversions");
            __CPROVER_assert(g_age_a0.infinity == z1 && (z1 || (modp(fval(&g_age_a0.x)) == R1x && modp(fval(&g_age_a0.y)) == R1y && fval(&g_age_a0.z) == 1)), "C12 nonce_process: the adaptor is added to the first aggregate-nonce component");
            __CPROVER_assert(!g_age_b0.infinity && modp(fval(&g_age_b0.x)) == modp(Ax) && modp(fval(&g_age_b0.y)) == modp(le256(&adaptor.data[32])), "C12 nonce_process: the point added is the adaptor public key");
            __CPROVER_assert(GEJ_EQ(g_sg_a0, g_age_r0), "C12 nonce_process: the new first component is the affine form of R1 + adaptor");
            F1inf = g_sg_r0.infinity; F1x = modp(fval(&g_sg_r0.x)); F1y = modp(fval(&g_sg_r0.y));
        } else {
            __CPROVER_assert(g_age_n == 1 && g_sg_n == 1, "C12 nonce_process: without adaptor: one addition, one conversion");
            F1inf = z1; F1x = R1x; F1y = R1y;
        }
        /* --- nonce coefficient hash --- */
        __CPROVER_assert(g_fin_n == 1 && g_w_started && g_w_b0 == 64 && g_w_s0 == 0x2c7d5a45ul && g_w_s7 == 0xde7a2500ul, "C12 nonce_process: one hash, from the MuSig/noncecoef midstate with 64 bytes absorbed");
        __CPROVER_assert(g_w_fin && g_w_end == 64 + 33 + 33 + 32 + 32, "C12 nonce_process: coefficient hash absorbs 130 bytes");
        be_bytes(f1xb, F1x); be_bytes(r2xb, R2x); be_bytes(qxb, Qx); be_bytes(gxb, GX());
        if (g_wpos >= 64 && g_wpos < 64 + 130) {
            uint64_t q = g_wpos - 64; unsigned char want;
            __CPROVER_assert(g_w_hit, "C12 nonce_process: every position of the coefficient hash is written");
            if (q == 0) want = F1inf ? 0 : (2 | (unsigned char)(F1y & 1));
            else if (q < 33) want = F1inf ? 0 : f1xb[q - 1];
            else if (q == 33) want = z2 ? 0 : (2 | (unsigned char)(R2y & 1));
            else if (q < 66) want = z2 ? 0 : r2xb[q - 34];
            else if (q < 98) want = qxb[q - 66];
            else want = msg[q - 98];
            if (q >= 66 && q < 98 && !canonQ) want = g_w_byte;   /* nothing claimed for a cache with non-canonical coordinates */
            __CPROVER_assert(g_w_byte == want, "C12 nonce_process: coefficient hash input = cbytes_ext(R1') || cbytes_ext(R2) || x(Q) || msg (infinity = 33 zero bytes)");
            if (q == 0 && F1inf && use_adaptor) REACH("nonce_process first component cancels to infinity after adaptor");
            if (q == 40 && z2) REACH("nonce_process second component at infinity");
        }
        /* --- b*R2 and R1' + b*R2 --- */
        { wide d = be256(g_w_dig); __CPROVER_assert(g_ecmult_n == 1 && g_ecmult_has_na0 && !g_ecmult_has_ng0 && sval(&g_ecmult_na0) == (d >= n ? d - n : d), "C12 nonce_process: multiplies by b = coefficient digest mod n, no generator term");
          __CPROVER_assert(be256(&sess.data[37]) == (d >= n ? d - n : d), "C12 nonce_process: session stores b"); }
        __CPROVER_assert(g_ecmult_a0.infinity == z2 && (z2 || (modp(fval(&g_ecmult_a0.x)) == R2x && modp(fval(&g_ecmult_a0.y)) == R2y && fval(&g_ecmult_a0.z) == 1)), "C12 nonce_process: the point multiplied is the second component, unchanged (adaptor or not)");
        if (slot_fin == 0) {
            __CPROVER_assert(GEJ_EQ(g_age_a0, g_ecmult_r0) && g_age_b0.infinity == F1inf && (F1inf || (modp(fval(&g_age_b0.x)) == F1x && modp(fval(&g_age_b0.y)) == F1y)), "C12 nonce_process: final nonce = R1 + b*R2");
            __CPROVER_assert(GEJ_EQ(g_sg_a0, g_age_r0), "C12 nonce_process: final nonce converted to affine");
            fininf = g_sg_r0.infinity; finx = modp(fval(&g_sg_r0.x)); finpar = (int)(modp(fval(&g_sg_r0.y)) & 1);
            if (fininf) { finx = GX(); finpar = 0; }
            __CPROVER_assert(sess.data[4] == finpar, "C12 nonce_process: session parity = odd(y(R)), or that of G when R is infinity");
            be_bytes(finxb, finx);
            __CPROVER_assert(sess.data[5 + g_k] == finxb[g_k], "C12 nonce_process: session nonce = x(R), or x(G) when R is infinity");
            if (fininf) REACH("nonce_process final nonce at infinity replaced by G");
        } else {
            __CPROVER_assert(GEJ_EQ(g_age_a1, g_ecmult_r0) && g_age_b1.infinity == F1inf && (F1inf || (modp(fval(&g_age_b1.x)) == F1x && modp(fval(&g_age_b1.y)) == F1y)), "C12 nonce_process: final nonce = (R1 + adaptor) + b*R2");
            if (g_age_r1.infinity) __CPROVER_assert(sess.data[4] == 0 && sess.data[5 + g_k] == gxb[g_k], "C12 nonce_process: with adaptor: final nonce at infinity replaced by G");
            if (g_age_r1.infinity) REACH("nonce_process with adaptor, final nonce at infinity");
        }
        __CPROVER_assert(sess.data[0] == 0x9d && sess.data[1] == 0xed && sess.data[2] == 0xe9 && sess.data[3] == 0x17 && sess.data[4] <= 1, "C12 nonce_process: session carries its magic and a one-bit parity");
        /* --- challenge and tweak term --- */
        __CPROVER_assert(g_chal_n == 1 && g_chal_hit && g_chal_msgp == msg && g_chal_msglen == 32, "C12 nonce_process: one challenge, over the 32-byte message");
        __CPROVER_assert(g_chal_r32[g_k] == sess.data[5 + g_k], "C12 nonce_process: challenge is over the final nonce stored in the session");
        if (canonQ) __CPROVER_assert(g_chal_pk[g_k] == qxb[g_k], "C12 nonce_process: challenge is over x(Q)");
        __CPROVER_assert(be256(&sess.data[69]) == sval(&g_chal_e), "C12 nonce_process: session stores the challenge");
        if (tacc == 0) __CPROVER_assert(g_mul_n == 0 && be256(&sess.data[101]) == 0, "C12 nonce_process: no tweak => s_part = 0");
        else {
            wide prod = sval(&g_mul_r0);
            __CPROVER_assert(g_mul_n == 1 && SC_EQ(g_mul_a0, g_chal_e) && sval(&g_mul_b0) == tacc, "C12 nonce_process: tweak term is e * tacc");
            if (canonQ) __CPROVER_assert(be256(&sess.data[101]) == ((Qy & 1) ? (prod == 0 ? 0 : n - prod) : prod), "C12 nonce_process: s_part = e*tacc, negated exactly when y(Q) is odd");
            if (canonQ && (Qy & 1)) REACH("nonce_process tweak term negated");
        }
        if (use_adaptor && !z1) REACH("nonce_process with adaptor");
        if (!use_adaptor && tacc == 0 && !z1 && !z2) REACH("nonce_process plain");
    }
#endif
}

/* C12 / C07: secp256k1_musig_partial_sig_verify (BIP-327 PartialSigVerifyInternal wiring), real code, every pointer
 * NULL or an object with arbitrary bytes.  All five objects are OPAQUE: they are decoded with the TU's own *_load functions and
 * every clause is over decoded fields and oracle operand VALUES (commutative operands in either order, no call counts - audit
 * #2, #17, #18).  Oracles with logs: secp256k1_ecmult or secp256k1_ecmult_multi_var (either may carry the equation),
 * secp256k1_gej_add_var, secp256k1_scalar_mul, secp256k1_musig_keyaggcoef (logs the cache CONTENT it was asked about - audit #27).
 * Summary: secp256k1_effective_nonce (Re = R1 + b*R2; its body is exercised by C12.nonce_process).
 *   accept <=> (-s)*G + (g'*e*mu)*P + (+/-)Re == infinity   where g' = -1 iff odd(y(Q)) != parity_acc,
 *   Re negated iff the session's final-nonce parity is set, mu = KeyAgg coefficient of P in THIS cache, s = the partial signature */
#define LOG_ECMULT
#define LOG_ECMULT_MULTI
#define LOG_SCALAR_MUL
#define LOG_GEJ_ADD
#define LOG_KEYAGGCOEF
#define LOG_EFFECTIVE_NONCE
#include "assumed_musig.h"
#include "src/secp256k1.c"
#include "post.h"
#include "decode.h"

#ifndef VERIF_NATIVE
static int is_neg_mod_p(wide a, wide b) { wide p = P_(); int i, hit = 0; for (i = 0; i < 20; i++) hit |= (a + b == (wide)i * p); return hit; }   /* a = -b (mod p), operands of magnitude <= 8 */
static int same_ge(const secp256k1_ge *a, const secp256k1_ge *b) { return a->infinity == b->infinity && (a->infinity || (cval4(&a->x) == cval4(&b->x) && cval4(&a->y) == cval4(&b->y))); }
#endif

void h_psig_verify(void) {
    secp256k1_context ctx;
    INPUT(secp256k1_musig_partial_sig, psig); INPUT(secp256k1_musig_pubnonce, pn); INPUT(secp256k1_pubkey, pk); INPUT(secp256k1_musig_keyagg_cache, cache); INPUT(secp256k1_musig_session, sess);
    INPUT(_Bool, use_psig); INPUT(_Bool, use_pn); INPUT(_Bool, use_pk); INPUT(_Bool, use_cache); INPUT(_Bool, use_sess); INPUT(size_t, ki);
    secp256k1_scalar sv_; secp256k1_ge pts[2], P; secp256k1_keyagg_cache_internal ci; secp256k1_musig_session_internal si;
    int ret, ok_psig, ok_pn, ok_pk, ok_cache, ok_sess;
    dec_init(); ok_psig = dec_psig(&sv_, &psig); ok_pn = dec_pubnonce(pts, &pn); ok_pk = dec_pubkey(&P, &pk); ok_cache = dec_cache(&ci, &cache); ok_sess = dec_session(&si, &sess);
    verif_ctx_init(&ctx);
    g_ecmult_n = 0; g_mm_n = 0; g_mul_n = 0; g_aj_n = 0; g_kc_n = 0; g_en_n = 0; g_kc_i = ki; __CPROVER_assume(g_kc_i < 32);

    ret = secp256k1_musig_partial_sig_verify(&ctx, use_psig ? &psig : NULL, use_pn ? &pn : NULL, use_pk ? &pk : NULL, use_cache ? &cache : NULL, use_sess ? &sess : NULL);

    __CPROVER_assert(ret == 0 || ret == 1, "C07 partial_sig_verify: returns 0 or 1");
    __CPROVER_assert(g_error == 0, "C07 partial_sig_verify: error callback never invoked");
    __CPROVER_assert(g_illegal <= 1, "C07 partial_sig_verify: at most one illegal-argument report");
#ifndef VERIF_NATIVE
    if (!use_psig || !use_pn || !use_pk || !use_cache || !use_sess || !ok_psig || !ok_pn || !ok_cache || !ok_sess || !ok_pk) {
        __CPROVER_assert(ret == 0 && g_illegal == 1, "C12 partial_sig_verify: NULL argument or an uninitialised/invalid object is illegal and never verifies");
        if (use_psig && use_pn && use_pk && use_cache && use_sess && ok_sess && ok_pn && ok_cache && ok_pk && !ok_psig) REACH("partial_sig_verify signature object without magic");
        return;
    }
    {
        wide p = P_(), e = sval(&si.challenge), b = sval(&si.noncecoef), s = sval(&sv_), Qy = fval(&ci.pk.y), emu, want_na;
        int canonQ = Qy < p, neg_e = ((int)(Qy & 1)) != ci.parity_acc, nonce_par = si.fin_nonce_parity != 0, wiring, eq_a, eq_b;
        const secp256k1_gej *T;
        __CPROVER_assert(g_illegal == 0, "C07 partial_sig_verify: no callback for initialised objects, whatever their content");
        if (g_ecmult_n == 0 && g_mm_n >= 1 && g_mm_ret == 0) { __CPROVER_assert(ret == 0, "C12 partial_sig_verify: a failing multi-multiplication never verifies"); return; }
        /* the verdict is the infinity verdict of a sum whose one operand is the (possibly negated) effective nonce */
        __CPROVER_assert(g_aj_n >= 1 && ret == g_aj_r0.infinity, "C12 partial_sig_verify: verdict = the final sum is the point at infinity");
        __CPROVER_assert(g_en_n >= 1 && sval(&g_en_b) == b && same_ge(&g_en_p0, &pts[0]) && same_ge(&g_en_p1, &pts[1]), "C12 partial_sig_verify: effective nonce = R1 + b*R2 over the signer's two public nonce points and the session's b");
        /* mu for THIS public key in THIS cache, times the challenge (either operand order) */
        __CPROVER_assert(g_kc_n >= 1 && cval4(&g_kc_pk0.x) == cval(&P.x) && cval4(&g_kc_pk0.y) == cval(&P.y), "C12 partial_sig_verify: KeyAgg coefficient requested for the given public key");
        __CPROVER_assert(g_kc_hash_b0 == ci.pks_hash[g_kc_i] && same_ge(&g_kc_second0, &ci.second_pk), "C12 partial_sig_verify: ... in the given cache (its key-list hash and second key)");
        __CPROVER_assert(g_mul_n >= 1 && pair_eq(sval(&g_mul_a0), sval(&g_mul_b0), e, sval(&g_kc_r0)), "C12 partial_sig_verify: the challenge is multiplied by the KeyAgg coefficient");
        emu = sval(&g_mul_r0); want_na = neg_e ? negn_(emu) : emu;
        /* the equation, carried by ecmult or by ecmult_multi_var */
        if (g_ecmult_n >= 1) {
            T = &g_ecmult_r0;
            wiring = g_ecmult_has_na0 && (!canonQ || sval(&g_ecmult_na0) == want_na) && (g_ecmult_has_ng0 ? sval(&g_ecmult_ng0) : 0) == negn_(s) &&
                     !g_ecmult_a0.infinity && cval4(&g_ecmult_a0.x) == cval(&P.x) && cval4(&g_ecmult_a0.y) == cval(&P.y) && cval4(&g_ecmult_a0.z) == 1;
            __CPROVER_assert(wiring, "C12 partial_sig_verify: computes (-s)*G + (e*mu)*P, e*mu negated exactly when odd(y(Q)) != parity accumulator");
        } else {
            __CPROVER_assert(g_mm_n >= 1, "C12 partial_sig_verify: the equation goes through a multiplication oracle");
            T = &g_mm_r;
            __CPROVER_assert((g_mm_has_gsc ? sval(&g_mm_gscv) : 0) == negn_(s) && g_mm_count == 1, "C12 partial_sig_verify: multi-multiplication form: generator scalar -s and one point term");
        }
        eq_a = GEJ_EQ(g_aj_a0, *T) && g_aj_b0.infinity == g_en_r.infinity && cval4(&g_aj_b0.x) == cval4(&g_en_r.x) && FE_EQ(g_aj_b0.z, g_en_r.z) &&
               (nonce_par ? is_neg_mod_p(fval(&g_aj_b0.y), fval(&g_en_r.y)) : cval4(&g_aj_b0.y) == cval4(&g_en_r.y));
        eq_b = GEJ_EQ(g_aj_b0, *T) && g_aj_a0.infinity == g_en_r.infinity && cval4(&g_aj_a0.x) == cval4(&g_en_r.x) && FE_EQ(g_aj_a0.z, g_en_r.z) &&
               (nonce_par ? is_neg_mod_p(fval(&g_aj_a0.y), fval(&g_en_r.y)) : cval4(&g_aj_a0.y) == cval4(&g_en_r.y));
        __CPROVER_assert(eq_a || eq_b, "C12 partial_sig_verify: the sum is (multiplication result) + Re, Re negated exactly when the final nonce parity is set");
        if (ret == 1 && nonce_par && neg_e && canonQ) REACH("partial_sig_verify accepts with both negations");
        if (ret == 0 && !nonce_par) REACH("partial_sig_verify rejects");
        if (s == 0) REACH("partial_sig_verify zero signature");
    }
#endif
}

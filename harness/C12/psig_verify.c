/* C12 / C07: secp256k1_musig_partial_sig_verify (BIP-327 PartialSigVerifyInternal wiring), real code, every pointer
 * NULL or an object with arbitrary bytes.
 * Oracles with logs: secp256k1_ecmult, secp256k1_gej_add_var, secp256k1_scalar_mul, secp256k1_musig_keyaggcoef.
 * Summary: secp256k1_effective_nonce (Re = R1 + b*R2; its body is exercised by C12.nonce_process).
 *   accept <=> (-s)*G + (g'*e*mu)*P + (+/-)Re == infinity   where g' = -1 iff odd(y(Q)) != parity_acc,
 *   Re negated iff the session's final-nonce parity is set, mu = KeyAgg coefficient of P, s = the partial signature */
#define LOG_ECMULT
#define LOG_SCALAR_MUL
#define LOG_GEJ_ADD
#define LOG_KEYAGGCOEF
#define LOG_EFFECTIVE_NONCE
#include "assumed_musig.h"
#include "src/secp256k1.c"
#include "post.h"

#ifndef VERIF_NATIVE
static wide le256(const unsigned char *b) { wide v = 0; int i; for (i = 31; i >= 0; i--) v = (v << 8) | W(b[i]); return v; }
static int is_neg_mod_p(wide a, wide b) { wide p = P_(); int i, hit = 0; for (i = 0; i < 20; i++) hit |= (a + b == (wide)i * p); return hit; }   /* a = -b (mod p), operands of magnitude <= 8 */
static wide modn1(wide v) { wide n = N_(); return v >= n ? v - n : v; }
static wide negn(wide v) { return v == 0 ? 0 : N_() - v; }
#endif

void h_psig_verify(void) {
    secp256k1_context ctx;
    INPUT(secp256k1_musig_partial_sig, psig); INPUT(secp256k1_musig_pubnonce, pn); INPUT(secp256k1_pubkey, pk); INPUT(secp256k1_musig_keyagg_cache, cache); INPUT(secp256k1_musig_session, sess);
    INPUT(_Bool, use_psig); INPUT(_Bool, use_pn); INPUT(_Bool, use_pk); INPUT(_Bool, use_cache); INPUT(_Bool, use_sess);
    int ret, ok_psig, ok_pn, ok_cache, ok_sess;
    verif_ctx_init(&ctx);
    g_ecmult_n = 0; g_mul_n = 0; g_aj_n = 0; g_kc_n = 0; g_en_n = 0;
    ok_psig = psig.data[0] == 0xeb && psig.data[1] == 0xfb && psig.data[2] == 0x1a && psig.data[3] == 0x32;
    ok_pn = pn.data[0] == 0xf5 && pn.data[1] == 0x7a && pn.data[2] == 0x3d && pn.data[3] == 0xa0;
    ok_cache = cache.data[0] == 0xf4 && cache.data[1] == 0xad && cache.data[2] == 0xbb && cache.data[3] == 0xdf;
    ok_sess = sess.data[0] == 0x9d && sess.data[1] == 0xed && sess.data[2] == 0xe9 && sess.data[3] == 0x17;

    ret = secp256k1_musig_partial_sig_verify(&ctx, use_psig ? &psig : NULL, use_pn ? &pn : NULL, use_pk ? &pk : NULL, use_cache ? &cache : NULL, use_sess ? &sess : NULL);

    __CPROVER_assert(ret == 0 || ret == 1, "C07 partial_sig_verify: returns 0 or 1");
    __CPROVER_assert(g_error == 0, "C07 partial_sig_verify: error callback never invoked");
    __CPROVER_assert(g_illegal <= 1, "C07 partial_sig_verify: at most one illegal-argument report");
#ifndef VERIF_NATIVE
    if (!use_psig || !use_pn || !use_pk || !use_cache || !use_sess || !ok_psig || !ok_pn || !ok_cache || !ok_sess || le256(&pk.data[0]) == 0) {
        __CPROVER_assert(ret == 0 && g_illegal == 1 && g_ecmult_n == 0 && g_aj_n == 0, "C12 partial_sig_verify: NULL argument, object without its magic or zero public key is illegal; no verdict is computed");
        if (use_psig && use_pn && use_pk && use_cache && use_sess && ok_sess && ok_pn && ok_cache && !ok_psig) REACH("partial_sig_verify signature object without magic");
        return;
    }
    {
        wide p = P_(), e = modn1(be256(&sess.data[69])), b = modn1(be256(&sess.data[37])), s = modn1(be256(&psig.data[4]));
        wide Qy = le256(&cache.data[36]); int par_acc = cache.data[164] & 1, canonQ = Qy < p, neg_e, nonce_par = sess.data[4] != 0;
        wide emu;
        __CPROVER_assert(g_illegal == 0, "C07 partial_sig_verify: no callback for initialised objects, whatever their content");
        /* effective nonce: both public nonce points and the session's b */
        __CPROVER_assert(g_en_n == 1 && sval(&g_en_b) == b, "C12 partial_sig_verify: effective nonce uses the session's nonce coefficient");
        __CPROVER_assert(!g_en_p0.infinity && !g_en_p1.infinity && fval(&g_en_p0.x) == le256(&pn.data[4]) && fval(&g_en_p0.y) == le256(&pn.data[36]) && fval(&g_en_p1.x) == le256(&pn.data[68]) && fval(&g_en_p1.y) == le256(&pn.data[100]), "C12 partial_sig_verify: effective nonce is over the signer's two public nonce points");
        /* mu for THIS public key, e*mu */
        __CPROVER_assert(g_kc_n == 1 && fval(&g_kc_pk0.x) == le256(&pk.data[0]) && fval(&g_kc_pk0.y) == le256(&pk.data[32]), "C12 partial_sig_verify: KeyAgg coefficient requested for the given public key");
        __CPROVER_assert(g_mul_n == 1 && sval(&g_mul_a0) == e && SC_EQ(g_mul_b0, g_kc_r0), "C12 partial_sig_verify: the challenge is multiplied by the KeyAgg coefficient");
        emu = sval(&g_mul_r0);
        neg_e = ((int)(Qy & 1)) != par_acc;
        /* the equation */
        __CPROVER_assert(g_ecmult_n == 1 && g_ecmult_has_na0 && g_ecmult_has_ng0, "C12 partial_sig_verify: one double multiplication");
        __CPROVER_assert(sval(&g_ecmult_ng0) == negn(s), "C12 partial_sig_verify: generator scalar is -s with s the partial signature");
        if (canonQ) __CPROVER_assert(sval(&g_ecmult_na0) == (neg_e ? negn(emu) : emu), "C12 partial_sig_verify: point scalar is e*mu, negated exactly when odd(y(Q)) != parity accumulator");
        __CPROVER_assert(!g_ecmult_a0.infinity && fe_same_or_normalised(fval(&g_ecmult_a0.x), le256(&pk.data[0])) && fe_same_or_normalised(fval(&g_ecmult_a0.y), le256(&pk.data[32])) && fval(&g_ecmult_a0.z) == 1, "C12 partial_sig_verify: the point multiplied is the signer's public key");
        __CPROVER_assert(g_aj_n == 1 && GEJ_EQ(g_aj_a0, g_ecmult_r0), "C12 partial_sig_verify: the effective nonce is added to the multiplication result");
        __CPROVER_assert(g_aj_b0.infinity == g_en_r.infinity && FE_EQ(g_aj_b0.x, g_en_r.x) && FE_EQ(g_aj_b0.z, g_en_r.z), "C12 partial_sig_verify: the added point has the effective nonce's x and z");
        __CPROVER_assert(nonce_par ? is_neg_mod_p(fval(&g_aj_b0.y), fval(&g_en_r.y)) : FE_EQ(g_aj_b0.y, g_en_r.y), "C12 partial_sig_verify: the effective nonce is negated exactly when the final nonce parity is set");
        __CPROVER_assert(ret == g_aj_r0.infinity, "C12 partial_sig_verify: verdict = the sum is the point at infinity");
        if (ret == 1 && nonce_par && neg_e && canonQ) REACH("partial_sig_verify accepts with both negations");
        if (ret == 0 && !nonce_par) REACH("partial_sig_verify rejects");
        if (s == 0) REACH("partial_sig_verify zero signature");
    }
#endif
}

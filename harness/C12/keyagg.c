/* C12: key aggregation (BIP-327 KeyAgg / KeyAggCoeff / GetSecondKey).
 *  h_keyaggcoef:       real secp256k1_musig_keyaggcoef_internal over the hash stream contracts:
 *                      coefficient = 1 exactly when a second key exists and pk equals it (real ge_eq_var: x and y equal mod p),
 *                      otherwise int(TaggedHash("KeyAgg coefficient", pks_hash || cbytes(pk))) mod n; pk keeps its value.
 *  h_keyagg_callback:  real per-key callback of the multi-multiplication: point = the idx-th public key, scalar = coefficient over
 *                      (the list hash, that point, the second key) of the aggregation in progress.
 *  h_pubkey_agg:       real secp256k1_musig_pubkey_agg for n <= 3 keys (BOUNDED: three caller-length loops unwound), duplicates and
 *                      equal keys included: second key = first key whose 64 bytes differ from key 0 (else infinity),
 *                      list hash = TaggedHash("KeyAgg list", cbytes(pk_0) || ... || cbytes(pk_{n-1})), cache = (Q, second key, list hash,
 *                      gacc = 1, tacc = 0), x-only output = x(Q).  The sum of coefficient*key itself is the oracle ecmult_multi_var. */
#define LOG_KEYAGGCOEF_INTERNAL_OFF
#define C02_HASHLOG2
#define LOG_GE_SET_GEJ
#define LOG_ECMULT_MULTI
#ifdef KEYAGG_CALLBACK_ENTRY
#define LOG_KEYAGGCOEF_INTERNAL
#endif
#include "assumed_C02.h"
#include "assumed_musig.h"
#include "src/secp256k1.c"
#include "post.h"
#include "decode.h"

size_t g_k;
#ifndef VERIF_NATIVE
static wide le256(const unsigned char *b) { wide v = 0; int i; for (i = 31; i >= 0; i--) v = (v << 8) | W(b[i]); return v; }
static wide modp(wide v) { wide p = P_(); int i; for (i = 0; i < 2; i++) if (v >= p) v -= p; return v; }   /* operands < 3p */
static void be_bytes(unsigned char *out, wide v) { int i; for (i = 0; i < 32; i++) out[i] = (unsigned char)(v >> (8 * (31 - i))); }
#endif

#ifndef KEYAGG_CALLBACK_ENTRY
void h_keyaggcoef(void) {
    INPUT(secp256k1_ge, pk); INPUT(secp256k1_ge, second); INPUT_ARR(unsigned char, pks_hash, 32); INPUT(uint64_t, wpos);
    secp256k1_hash_ctx hc; secp256k1_scalar r; secp256k1_ge pk0;
    /* representation invariants of the two points: magnitude-1 coordinates, pk finite, Y normalised (the function's stated precondition) */
    __CPROVER_assume(ge_ok1(&pk) && !pk.infinity && ge_ok1(&second) && fe_canon(&pk.y) && fe_canon(&second.y));
    pk0 = pk;
    hc.fn_sha256_compression = secp256k1_sha256_transform;
    HASHLOG_RESET(); g_we = 0; g_we2 = 0; g_wpos = wpos;
    secp256k1_musig_keyaggcoef_internal(&hc, &r, pks_hash, &pk, &second);
#ifndef VERIF_NATIVE
    {
        wide n = N_(), px = modp(fval(&pk0.x)), py = modp(fval(&pk0.y)); unsigned char xb[32];
        int same = !second.infinity && px == modp(fval(&second.x)) && py == modp(fval(&second.y));
        __CPROVER_assert(!pk.infinity && ge_ok(&pk) && fe_same_or_normalised(fval(&pk.x), fval(&pk0.x)) && fe_same_or_normalised(fval(&pk.y), fval(&pk0.y)), "C12 keyaggcoef: pk keeps its value (coordinates unchanged or canonical)");
        if (same) { __CPROVER_assert(sval(&r) == 1 && g_fin_n == 0 && g_h_fresh == 1, "C12 keyaggcoef: the second key gets coefficient 1, nothing is hashed"); REACH("keyaggcoef second key"); }
        else {
            __CPROVER_assert(sval(&r) != 1 || g_fin_n == 1, "C12 keyaggcoef: a key that is not the second key (x AND y equal mod p) never gets the constant coefficient 1; its coefficient is the hash");
            __CPROVER_assert(g_fin_n == 1 && g_w_started && g_w_b0 == 64 && g_w_s0 == 0x6ef02c5aul && g_w_s7 == 0x4484be15ul, "C12 keyaggcoef: one hash from the KeyAgg coefficient midstate with 64 bytes absorbed");
            __CPROVER_assert(g_w_fin && g_w_end == 64 + 32 + 33, "C12 keyaggcoef: hash absorbs 65 bytes");
            be_bytes(xb, px);
            if (g_wpos >= 64 && g_wpos < 64 + 65) {
                uint64_t q = g_wpos - 64;
                __CPROVER_assert(g_w_hit && g_w_byte == (q < 32 ? pks_hash[q] : q == 32 ? (2 | (unsigned char)(py & 1)) : xb[q - 33]), "C12 keyaggcoef: hash input = list hash || compressed public key");
            }
            { wide d = be256(g_w_dig); __CPROVER_assert(sval(&r) == (d >= n ? d - n : d), "C12 keyaggcoef: coefficient = digest mod n"); }
            if (!second.infinity && px == modp(fval(&second.x))) REACH("keyaggcoef same x, other y than the second key");
            if (second.infinity) REACH("keyaggcoef no second key");
        }
    }
#endif
}

#define NK 3
void h_pubkey_agg(void) {
    secp256k1_context ctx;
    INPUT(secp256k1_pubkey, k0); INPUT(secp256k1_pubkey, k1); INPUT(secp256k1_pubkey, k2);
    INPUT(secp256k1_xonly_pubkey, agg); INPUT(secp256k1_musig_keyagg_cache, cache);
    INPUT(size_t, n); INPUT(int, s0); INPUT(int, s1); INPUT(int, s2); INPUT(_Bool, use_agg); INPUT(_Bool, use_cache); INPUT(_Bool, use_keys); INPUT(size_t, k); INPUT(uint64_t, wpos);
    const secp256k1_pubkey *arr[NK]; secp256k1_ge K[NK], AG; int kv[NK]; secp256k1_keyagg_cache_internal c1;
    int ret, anynull = 0, invalid = 0, j2 = -1, c1_ok, ag_ok; size_t i;
    dec_init(); kv[0] = dec_pubkey(&K[0], &k0); kv[1] = dec_pubkey(&K[1], &k1); kv[2] = dec_pubkey(&K[2], &k2);
    verif_ctx_init(&ctx); ctx.hash_ctx.fn_sha256_compression = secp256k1_sha256_transform;
    __CPROVER_assume(n <= NK);                                   /* BOUNDED stand-in: at most 3 keys */
    arr[0] = s0 ? &k0 : NULL; arr[1] = s1 ? &k1 : NULL; arr[2] = s2 ? &k2 : NULL;     /* NULL entries; contents arbitrary, so equal (duplicate) keys are included */
    g_k = k; __CPROVER_assume(g_k < 32);
    g_sg_n = 0; g_mm_n = 0; HASHLOG_RESET(); g_we = 0; g_we2 = 0; g_wpos = wpos;
    for (i = 0; i < NK; i++) if (i < n) { if (arr[i] == NULL) anynull = 1; else if (!kv[i]) invalid = 1; }

    ret = secp256k1_musig_pubkey_agg(&ctx, use_agg ? &agg : NULL, use_cache ? &cache : NULL, use_keys ? arr : NULL, n);

    __CPROVER_assert(ret == 0 || ret == 1, "C12 pubkey_agg: returns 0 or 1");
    __CPROVER_assert(g_error == 0, "C12 pubkey_agg: error callback never invoked");
    if (!use_keys || n == 0 || anynull) { __CPROVER_assert(ret == 0 && g_illegal == 1, "C12 pubkey_agg: NULL list, empty list or NULL entry is illegal"); if (n == 2 && use_keys) REACH("pubkey_agg NULL entry"); return; }
    if (invalid) { __CPROVER_assert(ret == 0 && g_illegal >= 1, "C12 pubkey_agg: an invalid public key object is illegal"); REACH("pubkey_agg invalid key"); return; }
#ifndef VERIF_NATIVE
    {
        wide p = P_();
        /* GetSecondKey over VALUES of the decoded keys: the first key that is not the same point as key 0.  (The code compares the
         * 64 object bytes; for valid key objects - canonical coordinates, as every parser/creator writes them - that is the same.) */
        int canon = 1;
        for (i = 0; i < NK; i++) if (i < n) canon = canon && fval(&K[i].x) < p && fval(&K[i].y) < p;
        for (i = NK - 1; i >= 1; i--) if (i < n && !(fval(&K[i].x) == fval(&K[0].x) && fval(&K[i].y) == fval(&K[0].y))) j2 = (int)i;
        __CPROVER_assert(g_illegal == 0, "C12 pubkey_agg: no callback for valid arguments");
        __CPROVER_assert(g_mm_n >= 1 && g_mm_count == n && g_mm_cb == secp256k1_musig_pubkey_agg_callback && (!g_mm_has_gsc || sval(&g_mm_gscv) == 0), "C12 pubkey_agg: the sum runs over all n keys with the KeyAgg callback, no generator term");
        __CPROVER_assert(ret == g_mm_ret, "C12 pubkey_agg: fails only if the multi-multiplication fails");
        /* list hash */
        __CPROVER_assert(g_fin_n == 1 && g_w_started && g_w_b0 == 64 && g_w_s0 == 0xb399d5e0ul && g_w_s7 == 0xab148a38ul && g_w_fin && g_w_end == 64 + 33 * (uint64_t)n, "C12 pubkey_agg: one list hash from the KeyAgg list midstate over 33*n bytes");
        if (g_wpos >= 64 && g_wpos < 64 + 33 * (uint64_t)n) {
            uint64_t q = g_wpos - 64; size_t ki = (size_t)(q / 33), off = (size_t)(q % 33); unsigned char xb[32];
            const secp256k1_ge *Kq = ki == 0 ? &K[0] : ki == 1 ? &K[1] : &K[2];   /* (explicit selection: a symbolic index into the struct array is mis-modelled) */
            be_bytes32(xb, cval(&Kq->x));
            __CPROVER_assert(g_w_hit && g_w_byte == (off == 0 ? (2 | (unsigned char)(cval(&Kq->y) & 1)) : xb[off - 1]), "C12 pubkey_agg: list hash input = compressed keys in list order");
            if (ki == 2 && off == 5) REACH("pubkey_agg list hash third key");
        }
        if (ret == 1) {
            __CPROVER_assert(g_sg_n >= 1 && GEJ_EQ(g_sg_a0, g_mm_r), "C12 pubkey_agg: aggregate key = affine form of the sum");
            if (use_cache) {
                c1_ok = dec_cache(&c1, &cache);
                /* (the conversion oracle may hand out x = 0 / the non-point (0,0); then the encoding is not a key) */
                if (cval4(&g_sg_r0.x) != 0) __CPROVER_assert(c1_ok && !c1.pk.infinity && cval(&c1.pk.x) == cval4(&g_sg_r0.x) && cval(&c1.pk.y) == cval4(&g_sg_r0.y), "C12 pubkey_agg: cache holds Q");
                if (canon && j2 < 0) __CPROVER_assert(c1_ok && c1.second_pk.infinity, "C12 pubkey_agg: all keys equal key 0 => no second key");
                if (canon && j2 >= 0) { const secp256k1_ge *K2 = j2 == 1 ? &K[1] : &K[2];
                    __CPROVER_assert(c1_ok && !c1.second_pk.infinity && cval(&c1.second_pk.x) == cval(&K2->x) && cval(&c1.second_pk.y) == cval(&K2->y), "C12 pubkey_agg: second key = first key that differs from key 0"); }
                __CPROVER_assert(c1_ok && c1.pks_hash[g_k] == g_w_dig[g_k], "C12 pubkey_agg: cache holds the list hash");
                __CPROVER_assert(c1_ok && c1.parity_acc == 0 && sval(&c1.tweak) == 0, "C12 pubkey_agg: gacc = 1 (parity 0), tacc = 0");
            }
            if (use_agg && cval4(&g_sg_r0.x) != 0) {
                ag_ok = secp256k1_xonly_pubkey_load(&g_dctx, &AG, &agg);
                __CPROVER_assert(ag_ok && cval(&AG.x) == cval4(&g_sg_r0.x) && (cval(&AG.y) & 1) == 0 && (cval(&AG.y) == cval4(&g_sg_r0.y) || cval(&AG.y) + cval4(&g_sg_r0.y) == p || cval4(&g_sg_r0.y) == 0), "C12 pubkey_agg: x-only output = x(Q) with the even y");
            }
            if (n == 3 && j2 == 2 && use_cache && canon) REACH("pubkey_agg duplicates: keys 0 and 1 equal, second key is key 2");
            if (n == 3 && j2 < 0 && use_cache && canon) REACH("pubkey_agg all keys equal");
            if (n == 1) REACH("pubkey_agg single key");
        }
    }
#endif
}
#else
/* entry compiled with -DKEYAGG_CALLBACK_ENTRY: keyaggcoef_internal replaced by its logging summary */
void h_keyagg_callback(void) {
    secp256k1_context ctx;
    INPUT(secp256k1_pubkey, c0); INPUT(secp256k1_pubkey, c1); INPUT(secp256k1_pubkey, c2); INPUT(size_t, idx); INPUT(size_t, ki);
    INPUT(secp256k1_ge, csecond); INPUT_ARR(unsigned char, chash, 32);
    const secp256k1_pubkey *arr[3]; secp256k1_musig_pubkey_agg_ecmult_data d; secp256k1_scalar sc; secp256k1_ge pt, K; int ret, kvalid;
    arr[0] = &c0; arr[1] = &c1; arr[2] = &c2;
    __CPROVER_assume(idx < 3 && ki < 32 && ge_ok1(&csecond));
    dec_init(); kvalid = dec_pubkey(&K, arr[idx]);
    verif_ctx_init(&ctx); ctx.hash_ctx.fn_sha256_compression = secp256k1_sha256_transform;
    d.ctx = &ctx; d.pks = arr; d.second_pk = csecond; memcpy(d.pks_hash, chash, 32);
    g_kci_n = 0; g_kci_i = ki;
    ret = secp256k1_musig_pubkey_agg_callback(&sc, &pt, idx, &d);
#ifndef VERIF_NATIVE
    if (kvalid) {   /* the keys were loaded before (list hash), so they are valid objects */
        __CPROVER_assert(ret == 1 && g_illegal == 0 && g_error == 0, "C12 keyagg callback: succeeds for a valid key");
        __CPROVER_assert(g_kci_n >= 1 && g_kci_hash_b == chash[ki] && GE_EQ(g_kci_second, csecond), "C12 keyagg callback: the coefficient is over THIS aggregation's list hash and second key (content)");
        __CPROVER_assert(!g_kci_pk.infinity && cval4(&g_kci_pk.x) == cval(&K.x) && cval4(&g_kci_pk.y) == cval(&K.y), "C12 keyagg callback: ... for the idx-th public key");
        __CPROVER_assert(SC_EQ(sc, g_kci_r), "C12 keyagg callback: the scalar handed back is that coefficient");
        __CPROVER_assert(!pt.infinity && cval4(&pt.x) == cval(&K.x) && cval4(&pt.y) == cval(&K.y), "C12 keyagg callback: the point handed back is the idx-th public key");
        if (idx == 2) REACH("keyagg callback third key");
    }
#endif
    REACH("keyagg callback end");
}
#endif

/* C12 / C07: secp256k1_musig_partial_sig_agg for EVERY n_sigs (symbolic, <= 4096 in the input model), loop contracts supplied from the unit table.
 *   - every index in bounds (the array has exactly n_sigs entries), no undefined behaviour for any n;
 *   - a NULL entry or an uninitialised signature object at ANY position => illegal callback and 0;
 *   - success => the WATCHED signature (arbitrary index) entered the sum BY VALUE (an addition whose operand is its scalar), the first
 *     half of sig64 is the session's final nonce and the s written is a canonical scalar.
 * The VALUE of the sum is the bounded unit C12.partial_sig_agg (kept as the refactor-tolerant check).
 * secp256k1_scalar_add is replaced by its (C05-proved) range summary plus a value-keyed hit flag.
 * List shape without a quantifier: every entry is &ga except two arbitrary positions j1, j2 holding NULL, &ga or &gb. */
#include "assumed.h"
/* ghost state of the loop units: watched index, the two deviating positions, watched value, hit flag */
size_t verif_c12_gi, verif_c12_j1, verif_c12_j2; secp256k1_scalar verif_c12_w; int verif_c12_hit, verif_c12_gi_ok;
/* 4-byte magic comparison (the only use of memcmp_var in this function): summary of the C05-proved utility, so that no un-contracted
 * loop sits inside the contracted loops */
static int secp256k1_memcmp_var(const void *s1, const void *s2, size_t n)
__CPROVER_requires(n == 4 && __CPROVER_r_ok(s1, 4) && __CPROVER_r_ok(s2, 4))
__CPROVER_assigns()
__CPROVER_ensures((__CPROVER_return_value == 0) == (((const unsigned char *)s1)[0] == ((const unsigned char *)s2)[0] && ((const unsigned char *)s1)[1] == ((const unsigned char *)s2)[1] &&
                                                    ((const unsigned char *)s1)[2] == ((const unsigned char *)s2)[2] && ((const unsigned char *)s1)[3] == ((const unsigned char *)s2)[3]))
;
static int secp256k1_scalar_add(secp256k1_scalar *r, const secp256k1_scalar *a, const secp256k1_scalar *b)
__CPROVER_requires(__CPROVER_w_ok(r, sizeof(*r)) && __CPROVER_r_ok(a, sizeof(*a)) && __CPROVER_r_ok(b, sizeof(*b)) && scalar_ok(a) && scalar_ok(b))
__CPROVER_assigns(*r, verif_c12_hit)
__CPROVER_ensures(scalar_ok(r) && (__CPROVER_return_value == 0 || __CPROVER_return_value == 1))
__CPROVER_ensures(verif_c12_hit == (__CPROVER_old(verif_c12_hit) || SC_EQ_OLD(verif_c12_w, *b)))
;
#include "src/secp256k1.c"
#include "post.h"
#include "decode.h"
#define LOOP_NMAX 256   /* cap of the INPUT MODEL only; the loop proofs (base/step/decreases) do not depend on it */
void h_psig_agg_loop(void) {
    secp256k1_context ctx;
    INPUT(secp256k1_musig_partial_sig, ga); INPUT(secp256k1_musig_partial_sig, gb); INPUT(secp256k1_musig_session, gsess); INPUT_ARR(unsigned char, gsig64, 64);
    INPUT(size_t, n); INPUT(size_t, gi); INPUT(size_t, j1); INPUT(size_t, j2); INPUT(unsigned char, sel1); INPUT(unsigned char, sel2); INPUT(_Bool, use_sig); INPUT(_Bool, use_sess); INPUT(_Bool, use_arr); INPUT(size_t, k);
    const secp256k1_musig_partial_sig **arr, **base; const secp256k1_musig_partial_sig *at_gi = NULL; secp256k1_scalar sa, sb; secp256k1_musig_session_internal si;
    int ret, ok_sess, ok_a, ok_b;
    dec_init(); ok_sess = dec_session(&si, &gsess); ok_a = dec_psig(&sa, &ga); ok_b = dec_psig(&sb, &gb);
    verif_ctx_init(&ctx);
    __CPROVER_assume(n <= LOOP_NMAX && k < 32);
    /* the list is the LAST n entries of a fixed-size heap array filled with &ga (cbmc's array_set is only effective on fixed-size
     * objects - measured): the end of the list is the end of the object, so an index >= n is an out-of-bounds access */
    base = malloc(LOOP_NMAX * sizeof(*base));
    __CPROVER_assume(base != NULL);
    { const secp256k1_musig_partial_sig *fill = &ga; __CPROVER_array_set(base, fill); }
    arr = base + (LOOP_NMAX - n);
    if (j1 < n) arr[j1] = sel1 == 0 ? NULL : (sel1 == 1 ? &ga : &gb);
    if (j2 < n) arr[j2] = sel2 == 0 ? NULL : (sel2 == 1 ? &ga : &gb);
    if (gi < n) at_gi = arr[gi];
    verif_c12_gi = gi; verif_c12_j1 = j1; verif_c12_j2 = j2; verif_c12_hit = 0;
    if (at_gi == &gb) { verif_c12_w = sb; verif_c12_gi_ok = ok_b; } else { verif_c12_w = sa; verif_c12_gi_ok = ok_a; }

    ret = secp256k1_musig_partial_sig_agg(&ctx, use_sig ? gsig64 : NULL, use_sess ? &gsess : NULL, use_arr ? arr : NULL, n);

    __CPROVER_assert(ret == 0 || ret == 1, "C12 partial_sig_agg loop: returns 0 or 1, for every n");
    __CPROVER_assert(g_error == 0 && g_illegal <= 1, "C12 partial_sig_agg loop: no error callback, at most one illegal-argument report");
    if (!use_sig || !use_sess || !use_arr || n == 0) __CPROVER_assert(ret == 0 && g_illegal == 1, "C12 partial_sig_agg loop: NULL argument or n = 0 is illegal");
    else {
        if (gi < n && at_gi == NULL) __CPROVER_assert(ret == 0 && g_illegal == 1, "C12 partial_sig_agg loop: a NULL entry at ANY index is illegal");
        if (gi < n && at_gi != NULL && !(at_gi == &ga ? ok_a : ok_b)) __CPROVER_assert(ret == 0 && g_illegal == 1, "C12 partial_sig_agg loop: an uninitialised signature object at ANY index is illegal");
        if (!ok_sess) __CPROVER_assert(ret == 0 && g_illegal == 1, "C12 partial_sig_agg loop: uninitialised session is illegal");
        if (ret == 1) {
            __CPROVER_assert(g_illegal == 0 && ok_sess, "C12 partial_sig_agg loop: success means no report and an initialised session");
            if (gi < n) __CPROVER_assert(verif_c12_hit, "C12 partial_sig_agg loop: the signature at ANY index entered the sum by value");
            __CPROVER_assert(gsig64[k] == si.fin_nonce[k], "C12 partial_sig_agg loop: first half is the session's final nonce x, for every n");
#ifndef VERIF_NATIVE
            __CPROVER_assert(be256(&gsig64[32]) < N_(), "C12 partial_sig_agg loop: the s value written is a canonical scalar, for every n");
#endif
        }
        if (ret == 1 && n > 150 && gi == 99) REACH("partial_sig_agg loop success on a long list");
        if (ret == 1 && n == 1) REACH("partial_sig_agg loop success n = 1");
        if (n > 100 && gi == 77 && at_gi == NULL) REACH("partial_sig_agg loop NULL entry in the middle");
        if (n > 100 && gi == 78 && at_gi == &gb && !ok_b && ok_a) REACH("partial_sig_agg loop bad object in the middle");
    }
}

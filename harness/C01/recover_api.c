/* C01 (recovery module): secp256k1_ecdsa_recover (API gate).  secp256k1_ecdsa_sig_recover is a verdict
 * oracle with a ghost argument log (its gates: unit C01.sig_recover).  Every pointer NULL or an object;
 * the signature object is one a parser can produce (r, s < n, recid byte in [0,3]).
 * Decided: NULL => one illegal callback; exactly the loaded (r, s, recid) and be256(msg) mod n reach the
 * core; failure => public key object all zero; success => public key object = save(recovered point). */
#define LOG_SIG_RECOVER
#include "assumed_C01.h"
#include "src/secp256k1.c"
#include "post.h"

void h_recover_api(void) {
    secp256k1_context ctx;
    INPUT(secp256k1_ecdsa_recoverable_signature, sig); INPUT(secp256k1_pubkey, pk); INPUT_ARR(unsigned char, msg, 32);
    INPUT(_Bool, use_sig); INPUT(_Bool, use_pk); INPUT(_Bool, use_msg); INPUT(size_t, k);
    secp256k1_pubkey pk0 = pk; int ret; wide n = N_(), rv, sv, mv;
    rv = le256(&sig.data[0]); sv = le256(&sig.data[32]); mv = be256(msg);
    __CPROVER_assume(rv < n && sv < n && sig.data[64] <= 3);   /* representation invariant of a recoverable signature object */
    __CPROVER_assume(k < 64);
    verif_ctx_init(&ctx); g_sr_n = 0;

    ret = secp256k1_ecdsa_recover(&ctx, use_pk ? &pk : NULL, use_sig ? &sig : NULL, use_msg ? msg : NULL);

    __CPROVER_assert(ret == 0 || ret == 1, "C01 recover: returns 0 or 1");
    __CPROVER_assert(g_error == 0, "C01 recover: error callback never invoked");
    if (!use_sig || !use_pk || !use_msg) {
        __CPROVER_assert(ret == 0 && g_illegal == 1 && g_sr_n == 0, "C01 recover: NULL argument => one illegal callback, ret 0, no recovery");
        __CPROVER_assert(pk.data[k] == pk0.data[k], "C01 recover: nothing written on illegal use");
    } else {
        __CPROVER_assert(g_illegal == 0 && g_sr_n == 1 && ret == g_sr_v0, "C01 recover: result is the verdict of the single core recovery");
        __CPROVER_assert(sval(&g_sr_r0) == rv && sval(&g_sr_s0) == sv && g_sr_recid0 == sig.data[64], "C01 recover: exactly the loaded (r, s, recid) reach the core");
        __CPROVER_assert(sval(&g_sr_m0) == (mv >= n ? mv - n : mv), "C01 recover: message is be256(msghash32) mod n");
        if (ret == 0) __CPROVER_assert(pk.data[k] == 0, "C01 recover: failure => public key object all zero");
        if (ret == 1) __CPROVER_assert(le256(&pk.data[0]) == fmodp1(&g_sr_q0.x) && le256(&pk.data[32]) == fmodp1(&g_sr_q0.y), "C01 recover: public key object = save(recovered point)");
        if (ret == 1 && mv >= n && sig.data[64] == 3) REACH("recover success msg >= n recid 3");
        if (ret == 0) REACH("recover failure");
    }
    if (!use_pk) REACH("recover NULL pubkey");
}

/* C01 (recovery module): secp256k1_ecdsa_recover (API gate).  secp256k1_ecdsa_sig_recover is a verdict
 * oracle with a ghost argument log (its gates: unit C01.sig_recover).  Every pointer NULL or an object;
 * the signature object is one a parser can produce (r, s < n, recid byte in [0,3]).
 * Objects are decoded with the TU's own load functions.
 * Decided: NULL => illegal callback, 0; exactly the loaded (r, s, recid) and be256(msg) mod n reach the
 * core; result = its verdict; success => the public key object decodes to the recovered point.  (The header
 * promises nothing about the output object on failure, so nothing is asserted there.) */
#define LOG_SIG_RECOVER
#include "assumed_C01.h"
#include "src/secp256k1.c"
#include "post.h"

void h_recover_api(void) {
    secp256k1_context ctx;
    INPUT(secp256k1_ecdsa_recoverable_signature, sig); INPUT(secp256k1_pubkey, pk); INPUT_ARR(unsigned char, msg, 32);
    INPUT(_Bool, use_sig); INPUT(_Bool, use_pk); INPUT(_Bool, use_msg); INPUT(size_t, k);
    secp256k1_scalar r0, s0; secp256k1_ge q; int rec0, ret; wide n = N_(), mv;
    verif_ctx_init(&ctx); g_sr_n = 0;
    secp256k1_ecdsa_recoverable_signature_load(&ctx, &r0, &s0, &rec0, &sig);
    __CPROVER_assume(scalar_ok(&r0) && scalar_ok(&s0) && rec0 >= 0 && rec0 <= 3);   /* representation invariant of a recoverable signature object */
    mv = be256(msg); (void)k;

    ret = secp256k1_ecdsa_recover(&ctx, use_pk ? &pk : NULL, use_sig ? &sig : NULL, use_msg ? msg : NULL);

    __CPROVER_assert(ret == 0 || ret == 1, "C01 recover: returns 0 or 1");
    __CPROVER_assert(g_error == 0, "C01 recover: error callback never invoked");
    if (!use_sig || !use_pk || !use_msg) {
        __CPROVER_assert(ret == 0 && g_illegal >= 1, "C01 recover: NULL argument => illegal callback, ret 0");
    } else {
        __CPROVER_assert(g_illegal == 0 && g_sr_n >= 1 && ret == g_sr_v0, "C01 recover: result is the verdict of the core recovery");
        __CPROVER_assert(SC_EQ(g_sr_r0, r0) && SC_EQ(g_sr_s0, s0) && g_sr_recid0 == rec0, "C01 recover: exactly the loaded (r, s, recid) reach the core");
        __CPROVER_assert(sval(&g_sr_m0) == (mv >= n ? mv - n : mv), "C01 recover: message is be256(msghash32) mod n");
        if (ret == 1) {
            secp256k1_ge_from_bytes(&q, pk.data);
            __CPROVER_assert(fval(&q.x) == fmodp1(&g_sr_q0.x) && fval(&q.y) == fmodp1(&g_sr_q0.y) && !q.infinity, "C01 recover: the public key object decodes to the recovered point");
        }
        if (ret == 1 && mv >= n && rec0 == 3) REACH("recover success msg >= n recid 3");
        if (ret == 0) REACH("recover failure");
    }
    if (!use_pk) REACH("recover NULL pubkey");
}

/* C01: secp256k1_ecdsa_sig_sign - for all (seckey, message, nonce) scalars and every nonce point the
 * ecmult_gen/ge_set_gej oracles may return:  r = x(R) mod n through the REAL fe_normalize / fe_get_b32 /
 * scalar_set_b32; recid = (overflow<<1 | odd(y)) ^ high; s = +-(k^-1 * (r*d + m)) as wiring over the
 * logged mul / inverse oracles (stated over values: either operand order, any call position) with the REAL scalar_add / is_high / cond_negate; low-S on every
 * return; ret = (r != 0 && s != 0). */
#define LOG_SCALAR_MUL
#define LOG_SCALAR_INV
#define LOG_ECMULT_GEN
#define LOG_GE_SET_GEJ
#include "assumed_C01.h"
#include "src/secp256k1.c"
#include "post.h"

void h_sig_sign(void) {
    INPUT(secp256k1_scalar, sec); INPUT(secp256k1_scalar, msg); INPUT(secp256k1_scalar, non);
    INPUT(secp256k1_ecmult_gen_context, gctx); INPUT(_Bool, use_recid); INPUT(int, recid0);
    secp256k1_scalar r, s; int recid = recid0, ret;
    wide n = N_(), half = (N_() - 1) >> 1, X, Y, rv, sv, t, pre; int overflow, odd, high;
    __CPROVER_assume(scalar_ok(&sec) && scalar_ok(&msg) && scalar_ok(&non));
    g_mul_n = 0; g_inv_n = 0; g_gen_n = 0; g_sg_n = 0;

    ret = secp256k1_ecdsa_sig_sign(&gctx, &r, &s, &sec, &msg, &non, use_recid ? &recid : NULL);

    rv = sval(&r); sv = sval(&s);
    __CPROVER_assert(ret == 0 || ret == 1, "C01 sig_sign: returns 0 or 1");
    __CPROVER_assert(rv < n && sv < n, "C01 sig_sign: r and s are reduced scalars");
    __CPROVER_assert(g_gen_n >= 1 && SC_EQ(g_gen_a0, non), "C01 sig_sign: R = nonce * G");
    __CPROVER_assert(g_sg_n >= 1 && FE_EQ(g_sg_a0.x, g_gen_r0.x) && FE_EQ(g_sg_a0.y, g_gen_r0.y) && FE_EQ(g_sg_a0.z, g_gen_r0.z) && g_sg_a0.infinity == g_gen_r0.infinity,
                     "C01 sig_sign: the affine conversion is applied to R");
    X = fmodp1(&g_sg_r0.x); Y = fmodp1(&g_sg_r0.y);   /* ge_set_gej output: magnitude 1 */
    overflow = X >= n; odd = (int)(Y & 1);
    __CPROVER_assert(rv == (overflow ? X - n : X), "C01 sig_sign: r = x(R) mod n");
    /* s wiring, over VALUES (either operand order, any call position): some product p1 of {r, seckey}; some product p2 of
     * {nonce^-1, (p1 + message) mod n}; s = p2, negated iff p2 is high */
    __CPROVER_assert(g_inv_n >= 1 && SC_EQ(g_inv_x0, non), "C01 sig_sign: the inverted scalar is the nonce");
    { int i, j, ok = 0, okrec = 0; wide a1, b1, p1, a2, b2, p2, kinv = sval(&g_inv_r0), dv = sval(&sec);
      for (i = 0; i < 4; i++) if (mul_log_get(i, &a1, &b1, &p1) && ((a1 == rv && b1 == dv) || (a1 == dv && b1 == rv))) {
          t = p1 + sval(&msg); if (t >= n) t -= n;
          for (j = 0; j < 4; j++) if (mul_log_get(j, &a2, &b2, &p2) && ((a2 == kinv && b2 == t) || (a2 == t && b2 == kinv))) {
              if (sv == (p2 > half ? n - p2 : p2)) { ok = 1; pre = p2; if (!use_recid || recid == (((overflow << 1) | odd) ^ (p2 > half))) okrec = 1; }
          }
      }
      __CPROVER_assert(ok, "C01 sig_sign: s = +-(nonce^-1 * (r*seckey + message mod n)) over the requested products, negated iff the product is high");
      __CPROVER_assert(okrec, "C01 sig_sign: recid = (overflow<<1 | odd(y(R))) ^ high, high = that product was negated");
      high = pre > half; }
    __CPROVER_assert(sv <= half, "C01 sig_sign: low-S on every return");
    __CPROVER_assert(ret == (rv != 0 && sv != 0), "C01 sig_sign: ret = (r != 0 and s != 0)");
    if (use_recid) {
        __CPROVER_assert(recid >= 0 && recid <= 3, "C01 sig_sign: recid in [0,3]");
    } else {
        __CPROVER_assert(recid == recid0, "C01 sig_sign: no recid written when not requested");
    }
    if (ret == 1 && high && overflow) REACH("sig_sign success, negated s, x(R) >= n");
    if (ret == 1 && !high && !overflow && odd && use_recid) REACH("sig_sign success, odd y");
    if (ret == 0 && rv == 0) REACH("sig_sign r = 0");
    if (ret == 0 && sv == 0 && rv != 0) REACH("sig_sign s = 0");
    if (sv == half) REACH("sig_sign s = (n-1)/2");
}

/* C01 (recovery module): recoverable-signature codec, all real code, all inputs.  Objects are decoded with the TU's
 * own secp256k1_ecdsa_recoverable_signature_load / secp256k1_ecdsa_signature_load, never by byte offsets.
 * parse_compact: recid outside [0,3] or NULL => illegal callback, 0; accepted iff r < n and s < n, and then the object
 * holds (be256(in[0..32)), be256(in[32..64)), recid).  serialize_compact / convert: inverse of parse on every object a
 * parser can produce.  (The header promises nothing about the object after a rejected parse or about outputs on
 * illegal use, so nothing is asserted there.) */
#include "assumed_C01.h"
#include "src/secp256k1.c"
#include "post.h"

void h_rec_parse(void) {
    secp256k1_context ctx;
    INPUT_ARR(unsigned char, in64, 64); INPUT(int, recid); INPUT(_Bool, use_sig); INPUT(_Bool, use_in); INPUT(size_t, k);
    INPUT(secp256k1_ecdsa_recoverable_signature, sig);
    secp256k1_ecdsa_signature plain; secp256k1_scalar lr, ls; int lrec;
    unsigned char out64[64]; int ret, ret2, ret3, recid2 = -1; wide n = N_(), rv, sv;
    __CPROVER_assume(k < 64);
    verif_ctx_init(&ctx);
    rv = be256(in64); sv = be256(in64 + 32);

    ret = secp256k1_ecdsa_recoverable_signature_parse_compact(&ctx, use_sig ? &sig : NULL, use_in ? in64 : NULL, recid);

    __CPROVER_assert(ret == 0 || ret == 1, "C01 rec_parse: returns 0 or 1");
    __CPROVER_assert(g_error == 0, "C01 rec_parse: error callback never invoked");
    if (!use_sig || !use_in || recid < 0 || recid > 3) {
        __CPROVER_assert(ret == 0 && g_illegal >= 1, "C01 rec_parse: NULL argument or recid outside [0,3] => illegal callback, ret 0");
    } else {
        __CPROVER_assert(g_illegal == 0, "C01 rec_parse: no callback on legal arguments");
        __CPROVER_assert(ret == (rv < n && sv < n), "C01 rec_parse: accepted iff r < n and s < n");
        if (ret == 1) {
            secp256k1_ecdsa_recoverable_signature_load(&ctx, &lr, &ls, &lrec, &sig);
            __CPROVER_assert(sval(&lr) == rv && sval(&ls) == sv && lrec == recid, "C01 rec_parse: object holds (r, s, recid)");
            ret2 = secp256k1_ecdsa_recoverable_signature_serialize_compact(&ctx, out64, &recid2, &sig);
            __CPROVER_assert(ret2 == 1 && g_illegal == 0 && recid2 == recid, "C01 rec_parse: serialize returns 1 and the parsed recid");
            __CPROVER_assert(out64[k] == in64[k], "C01 rec_parse: serialize(parse(x)) = x");
            ret3 = secp256k1_ecdsa_recoverable_signature_convert(&ctx, &plain, &sig);
            __CPROVER_assert(ret3 == 1 && g_illegal == 0, "C01 rec_parse: convert returns 1");
            secp256k1_ecdsa_signature_load(&ctx, &lr, &ls, &plain);
            __CPROVER_assert(sval(&lr) == rv && sval(&ls) == sv, "C01 rec_parse: convert yields the plain signature (r, s)");
            if (rv == 0 && recid == 3) REACH("rec_parse accepts r = 0 recid 3");
            if (sv == n - 1) REACH("rec_parse accepts s = n-1");
        }
        if (rv == n) REACH("rec_parse rejects r = n");
    }
    if (use_sig && use_in && recid == 4) REACH("rec_parse recid 4");
}

void h_rec_ser(void) {
    secp256k1_context ctx;
    INPUT(secp256k1_ecdsa_recoverable_signature, rsig); INPUT(_Bool, use_out); INPUT(_Bool, use_rsig); INPUT(_Bool, use_recid); INPUT(_Bool, do_convert);
    INPUT(secp256k1_ecdsa_signature, plain); INPUT_ARR(unsigned char, out, 64); INPUT(int, recid0);
    secp256k1_scalar r0, s0, lr, ls; int rec0, lrec;
    int ret, recid = recid0; wide rv, sv;
    verif_ctx_init(&ctx);
    secp256k1_ecdsa_recoverable_signature_load(&ctx, &r0, &s0, &rec0, &rsig);
    __CPROVER_assume(scalar_ok(&r0) && scalar_ok(&s0) && rec0 >= 0 && rec0 <= 3);   /* representation invariant of a recoverable signature object */
    rv = sval(&r0); sv = sval(&s0);
    if (do_convert) {
        ret = secp256k1_ecdsa_recoverable_signature_convert(&ctx, use_out ? &plain : NULL, use_rsig ? &rsig : NULL);
        if (!use_out || !use_rsig) {
            __CPROVER_assert(ret == 0 && g_illegal >= 1, "C01 rec_convert: NULL argument => illegal callback, ret 0");
        } else {
            __CPROVER_assert(ret == 1 && g_illegal == 0, "C01 rec_convert: returns 1 without callback");
            secp256k1_ecdsa_signature_load(&ctx, &lr, &ls, &plain);
            __CPROVER_assert(sval(&lr) == rv && sval(&ls) == sv, "C01 rec_convert: plain signature = (r, s)");
            REACH("rec_convert ok");
        }
    } else {
        ret = secp256k1_ecdsa_recoverable_signature_serialize_compact(&ctx, use_out ? out : NULL, use_recid ? &recid : NULL, use_rsig ? &rsig : NULL);
        if (!use_out || !use_rsig || !use_recid) {
            __CPROVER_assert(ret == 0 && g_illegal >= 1, "C01 rec_serialize: NULL argument => illegal callback, ret 0");
        } else {
            __CPROVER_assert(ret == 1 && g_illegal == 0, "C01 rec_serialize: returns 1 without callback");
            __CPROVER_assert(be256(out) == rv && be256(out + 32) == sv && recid == rec0, "C01 rec_serialize: output = be(r) || be(s), recid = the object's recid");
            if (recid == 2) REACH("rec_serialize ok");
        }
    }
    secp256k1_ecdsa_recoverable_signature_load(&ctx, &lr, &ls, &lrec, &rsig);
    __CPROVER_assert(g_error == 0 && SC_EQ(lr, r0) && SC_EQ(ls, s0) && lrec == rec0, "C01 rec_serialize/convert: input object keeps its value, no error callback");
}

/* C01 (recovery module): recoverable-signature codec, all real code, all inputs.
 * parse_compact: recid outside [0,3] or NULL => illegal callback; r >= n or s >= n => ret 0 and all 65
 * bytes zero; otherwise the object holds (be256(in[0..32)), be256(in[32..64)), recid).
 * serialize_compact / convert: inverse of parse on every object a parser can produce. */
#include "assumed_C01.h"
#include "src/secp256k1.c"
#include "post.h"

void h_rec_parse(void) {
    secp256k1_context ctx;
    INPUT_ARR(unsigned char, in64, 64); INPUT(int, recid); INPUT(_Bool, use_sig); INPUT(_Bool, use_in); INPUT(size_t, k);
    INPUT(secp256k1_ecdsa_recoverable_signature, sig);
    secp256k1_ecdsa_recoverable_signature sig0 = sig; secp256k1_ecdsa_signature plain;
    unsigned char out64[64]; int ret, ret2, ret3, recid2 = -1; wide n = N_(), rv, sv;
    __CPROVER_assume(k < 65);
    verif_ctx_init(&ctx);
    rv = be256(in64); sv = be256(in64 + 32);

    ret = secp256k1_ecdsa_recoverable_signature_parse_compact(&ctx, use_sig ? &sig : NULL, use_in ? in64 : NULL, recid);

    __CPROVER_assert(ret == 0 || ret == 1, "C01 rec_parse: returns 0 or 1");
    __CPROVER_assert(g_error == 0, "C01 rec_parse: error callback never invoked");
    if (!use_sig || !use_in || recid < 0 || recid > 3) {
        __CPROVER_assert(ret == 0 && g_illegal == 1, "C01 rec_parse: NULL argument or recid outside [0,3] => one illegal callback, ret 0");
        __CPROVER_assert(sig.data[k] == sig0.data[k], "C01 rec_parse: nothing written on illegal use");
    } else {
        __CPROVER_assert(g_illegal == 0, "C01 rec_parse: no callback on legal arguments");
        __CPROVER_assert(ret == (rv < n && sv < n), "C01 rec_parse: accepted iff r < n and s < n");
        if (ret == 0) __CPROVER_assert(sig.data[k] == 0, "C01 rec_parse: overflow => all 65 bytes of the object zero");
        if (ret == 1) {
            __CPROVER_assert(le256(&sig.data[0]) == rv && le256(&sig.data[32]) == sv && sig.data[64] == recid, "C01 rec_parse: object holds (r, s, recid)");
            ret2 = secp256k1_ecdsa_recoverable_signature_serialize_compact(&ctx, out64, &recid2, &sig);
            __CPROVER_assert(ret2 == 1 && g_illegal == 0 && recid2 == recid, "C01 rec_parse: serialize returns 1 and the parsed recid");
            if (k < 64) __CPROVER_assert(out64[k] == in64[k], "C01 rec_parse: serialize(parse(x)) = x");
            ret3 = secp256k1_ecdsa_recoverable_signature_convert(&ctx, &plain, &sig);
            __CPROVER_assert(ret3 == 1 && g_illegal == 0, "C01 rec_parse: convert returns 1");
            __CPROVER_assert(le256(&plain.data[0]) == rv && le256(&plain.data[32]) == sv, "C01 rec_parse: convert yields the plain signature (r, s)");
            if (rv == 0 && recid == 3) REACH("rec_parse accepts r = 0 recid 3");
            if (sv == n - 1) REACH("rec_parse accepts s = n-1");
        }
        if (rv == n) REACH("rec_parse rejects r = n");
    }
    if (use_sig && use_in && recid == 4) REACH("rec_parse recid 4");
}

void h_rec_ser(void) {
    secp256k1_context ctx;
    INPUT(secp256k1_ecdsa_recoverable_signature, rsig); INPUT(_Bool, use_out); INPUT(_Bool, use_rsig); INPUT(_Bool, use_recid); INPUT(_Bool, do_convert); INPUT(size_t, k);
    INPUT(secp256k1_ecdsa_signature, plain); INPUT_ARR(unsigned char, out, 64); INPUT(int, recid0);
    secp256k1_ecdsa_recoverable_signature rsig0 = rsig; secp256k1_ecdsa_signature plain0 = plain; unsigned char out0;
    int ret, recid = recid0; wide n = N_(), rv, sv;
    rv = le256(&rsig.data[0]); sv = le256(&rsig.data[32]);
    __CPROVER_assume(rv < n && sv < n && rsig.data[64] <= 3);   /* representation invariant of a recoverable signature object */
    __CPROVER_assume(k < 64);
    verif_ctx_init(&ctx); out0 = out[k];
    if (do_convert) {
        ret = secp256k1_ecdsa_recoverable_signature_convert(&ctx, use_out ? &plain : NULL, use_rsig ? &rsig : NULL);
        if (!use_out || !use_rsig) {
            __CPROVER_assert(ret == 0 && g_illegal == 1 && plain.data[k] == plain0.data[k], "C01 rec_convert: NULL argument => one illegal callback, ret 0, nothing written");
        } else {
            __CPROVER_assert(ret == 1 && g_illegal == 0, "C01 rec_convert: returns 1 without callback");
            __CPROVER_assert(le256(&plain.data[0]) == rv && le256(&plain.data[32]) == sv, "C01 rec_convert: plain signature = (r, s)");
            REACH("rec_convert ok");
        }
    } else {
        ret = secp256k1_ecdsa_recoverable_signature_serialize_compact(&ctx, use_out ? out : NULL, use_recid ? &recid : NULL, use_rsig ? &rsig : NULL);
        if (!use_out || !use_rsig || !use_recid) {
            __CPROVER_assert(ret == 0 && g_illegal == 1 && out[k] == out0 && recid == recid0, "C01 rec_serialize: NULL argument => one illegal callback, ret 0, nothing written");
        } else {
            __CPROVER_assert(ret == 1 && g_illegal == 0, "C01 rec_serialize: returns 1 without callback");
            __CPROVER_assert(be256(out) == rv && be256(out + 32) == sv && recid == rsig.data[64], "C01 rec_serialize: output = be(r) || be(s), recid = byte 64");
            if (recid == 2) REACH("rec_serialize ok");
        }
    }
    __CPROVER_assert(g_error == 0 && rsig.data[k] == rsig0.data[k] && rsig.data[64] == rsig0.data[64], "C01 rec_serialize/convert: input object unchanged, no error callback");
}

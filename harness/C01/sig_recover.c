/* C01 (recovery module): secp256k1_ecdsa_sig_recover gates, for all (r, s, m) and all recid in [0,3].
 * Oracles with ghost logs: ge_set_xo_var (lift), scalar_inverse_var, scalar_mul, ecmult, ge_set_gej_var.
 * Real: scalar_get_b32, fe_set_b32_limit, fe_cmp_var, fe_add, scalar_negate, gej_set_ge.
 * Oracle usage is stated over values (either operand order, NULL generator scalar = 0) and only where a lift / key computation happened.
 * Decided: r = 0 or s = 0 => 0; the lifted x is r, or r+n when recid&2 (then r >= p-n
 * => 0 without lifting); parity requested = recid&1; lift failure => 0; u1 = -(r^-1 * m), u2 = r^-1 * s;
 * Q = u2*X + u1*G; ret = (Q is not infinity); the output is the affine conversion of Q. */
#define LOG_SCALAR_MUL
#define LOG_SCALAR_INV
#define LOG_ECMULT
#define LOG_GE_SET_GEJ
#define LOG_SET_XO
#include "assumed_C01.h"
#include "src/secp256k1.c"
#include "post.h"

void h_sig_recover(void) {
    INPUT(secp256k1_scalar, r); INPUT(secp256k1_scalar, s); INPUT(secp256k1_scalar, m); INPUT(int, recid); INPUT(secp256k1_ge, q0);
    secp256k1_ge q = q0; int ret; wide n = N_(), p = P_(), rv, svv, u1;
    __CPROVER_assume(scalar_ok(&r) && scalar_ok(&s) && scalar_ok(&m) && recid >= 0 && recid <= 3);
    g_mul_n = 0; g_inv_n = 0; g_ecmult_n = 0; g_sg_n = 0; g_xo_n = 0;
    rv = sval(&r); svv = sval(&s);

    ret = secp256k1_ecdsa_sig_recover(&r, &s, &q, &m, recid);

    __CPROVER_assert(ret == 0 || ret == 1, "C01 sig_recover: returns 0 or 1");
    if (rv == 0 || svv == 0) __CPROVER_assert(ret == 0, "C01 sig_recover: r = 0 or s = 0 rejected");
    if (rv != 0 && svv != 0 && (recid & 2) && rv + n >= p) __CPROVER_assert(ret == 0, "C01 sig_recover: recid&2 with r+n >= p rejected");
    if (rv != 0 && svv != 0 && !((recid & 2) && rv + n >= p)) __CPROVER_assert(g_xo_n >= 1, "C01 sig_recover: otherwise the x coordinate is lifted");
    if (g_xo_n >= 1) {
        __CPROVER_assert(fval(&g_xo_x0) == ((recid & 2) ? rv + n : rv) && fval(&g_xo_x0) < p, "C01 sig_recover: lifted x is r, or r+n (< p) when recid&2");
        __CPROVER_assert(g_xo_odd0 == (recid & 1), "C01 sig_recover: requested parity is recid&1");
        if (g_xo_v0 == 0) __CPROVER_assert(ret == 0, "C01 sig_recover: x not on the curve => 0");
        else __CPROVER_assert(g_ecmult_n >= 1, "C01 sig_recover: lift ok => the key is computed");
    }
    if (g_xo_n >= 1 && g_xo_v0 == 1 && g_ecmult_n >= 1) {
        __CPROVER_assert(g_inv_n >= 1 && SC_EQ(g_inv_x0, r), "C01 sig_recover: the inverted scalar is r");
        /* over VALUES: na is some requested product of {r^-1, s}; ng (NULL = 0) is the negation of some requested product of {r^-1, m} */
        { wide rinv = sval(&g_inv_r0), na = g_ecmult_has_na0 ? sval(&g_ecmult_na0) : 0, ng = g_ecmult_has_ng0 ? sval(&g_ecmult_ng0) : 0;
          __CPROVER_assert(mul_logged(rinv, svv, na) && mul_logged(rinv, sval(&m), ng == 0 ? 0 : n - ng), "C01 sig_recover: ecmult computes (r^-1 s)*X + (-(r^-1 m))*G"); }
        __CPROVER_assert(FE_EQ(g_ecmult_a0.x, g_xo_r0.x) && FE_EQ(g_ecmult_a0.y, g_xo_r0.y) && g_ecmult_a0.infinity == 0 && fval(&g_ecmult_a0.z) == 1, "C01 sig_recover: the point multiplied is the lifted point");
        __CPROVER_assert(ret == !g_ecmult_r0.infinity, "C01 sig_recover: ret = (Q is not the point at infinity)");
        if (ret == 1) __CPROVER_assert(g_sg_n >= 1 && FE_EQ(g_sg_a0.x, g_ecmult_r0.x) && FE_EQ(g_sg_a0.y, g_ecmult_r0.y) && FE_EQ(g_sg_a0.z, g_ecmult_r0.z) && GE_EQ(g_sg_r0, &q), "C01 sig_recover: output key is the affine conversion of Q");
    }
    if (ret == 1) __CPROVER_assert(g_xo_n >= 1 && g_xo_v0 == 1 && g_ecmult_n >= 1 && !g_ecmult_r0.infinity, "C01 sig_recover: success needs a successful lift and a finite Q");
    if (ret == 1 && recid == 3) REACH("sig_recover success recid 3 (r+n)");
    if (ret == 1 && recid == 0) REACH("sig_recover success recid 0");
    if (ret == 0 && (recid & 2) && rv != 0 && svv != 0 && g_xo_n == 0) REACH("sig_recover r+n >= p");
    if (ret == 0 && g_ecmult_n >= 1) REACH("sig_recover Q infinity");
}

/* C01: secp256k1_ecdsa_sign and secp256k1_ecdsa_sign_recoverable (API level), real sign_inner underneath
 * (retry loop closed by the loop contract of the unit table (engine/units/C01_more.py, no /repo edit)).  Every pointer argument NULL
 * or an object; context with or without a built generator table (static-context case).
 * Decided: unbuilt context / NULL argument => illegal callback, ret 0; failure with legal arguments => the
 * signature object decodes (TU's own load function) to r = s = 0 (recoverable: and recid 0) - the property's
 * "returns 0 and an all-zero signature"; success => the object holds exactly the core signer's (r, s[, recid]);
 * key/message/noncedata wiring as in C01.sign_inner.  Nothing is demanded about outputs on illegal use. */
#define LOG_SIG_SIGN
#define LOG_NONCE_FN
#define LOG_EC_COMMIT_SECKEY
#include "assumed_C15.h"
#include "src/secp256k1.c"
#include "post.h"
#include "C01/nonce_stub.c"   /* stub user nonce callback (not a unit) */

#define COMMON_INPUTS \
    secp256k1_context ctx; \
    INPUT_ARR(unsigned char, seckey, 32); INPUT_ARR(unsigned char, msg32, 32); INPUT_ARR(unsigned char, ndata, 32); \
    INPUT(_Bool, use_key); INPUT(_Bool, use_msg); INPUT(_Bool, use_sig); INPUT(_Bool, use_ndata); INPUT(int, fp_mode); INPUT(int, built); INPUT(size_t, k); \
    secp256k1_nonce_function fp; int ret, key_valid, legal; wide n = N_(), half = (N_() - 1) >> 1, kv, mv; \
    __CPROVER_assume(fp_mode >= 0 && fp_mode <= 2 && k < 32); \
    fp = fp_mode == 0 ? NULL : fp_mode == 1 ? secp256k1_nonce_function_default : stub_noncefp; \
    verif_ctx_init(&ctx); ctx.ecmult_gen_ctx.built = built; \
    verif_nonce_calls = 0; g_nk = k; \
    kv = be256(seckey); mv = be256(msg32); key_valid = (kv != 0 && kv < n); \
    legal = built != 0 && use_key && use_msg && use_sig

#ifndef UNIT_SIGN_RECOVERABLE   /* two units in this file, selected by -DUNIT_SIGN_RECOVERABLE (INPUT_ARR names are per translation unit) */
void h_sign(void) {
    COMMON_INPUTS;
    INPUT(secp256k1_ecdsa_signature, sig); secp256k1_scalar lr, ls;

    ret = secp256k1_ecdsa_sign(&ctx, use_sig ? &sig : NULL, use_msg ? msg32 : NULL, use_key ? seckey : NULL, fp, use_ndata ? ndata : NULL);

    __CPROVER_assert(ret == 0 || ret == 1, "C01 sign: returns 0 or 1");
    __CPROVER_assert(g_error == 0, "C01 sign: error callback never invoked");
    if (!legal) {
        __CPROVER_assert(ret == 0 && g_illegal >= 1, "C01 sign: unbuilt (static) context or NULL argument => illegal callback, ret 0");
    } else {
        __CPROVER_assert(g_illegal == 0, "C01 sign: no callback on legal arguments");
        if (!key_valid) __CPROVER_assert(ret == 0, "C01 sign: key 0 or >= n => ret 0");
        if (fp_mode == 2 && g_st_ret == 0) __CPROVER_assert(ret == 0, "C01 sign: nonce callback returning 0 => ret 0");
        secp256k1_ecdsa_signature_load(&ctx, &lr, &ls, &sig);
        if (ret == 0) __CPROVER_assert(sval(&lr) == 0 && sval(&ls) == 0, "C01 sign: failure => all-zero signature (r = s = 0)");
        if (ret == 1) {
            __CPROVER_assert(key_valid && g_ss_ret == 1, "C01 sign: success only with a valid key and a successful core signer");
            __CPROVER_assert(SC_EQ(lr, g_ss_r) && SC_EQ(ls, g_ss_s), "C01 sign: signature object holds (r, s) of the core signer");
            __CPROVER_assert(sval(&g_ss_sec) == kv && sval(&g_ss_msg) == (mv >= n ? mv - n : mv), "C01 sign: core signer gets (key, be256(msg) mod n)");
            __CPROVER_assert(g_nf_msg_byte == msg32[k] && g_nf_key_byte == seckey[k] && g_nf_algo16 == NULL && (g_nf_data != NULL) == use_ndata && (!use_ndata || g_nf_data_byte == ndata[k]) && g_nf_counter == verif_nonce_calls - 1,
                             "C01 sign: nonce function receives (msg32, seckey, NULL, noncedata, attempt number)");
        }
    }
    if (ret == 1 && fp_mode == 0 && mv >= n) REACH("sign success, msg >= n");
    if (ret == 0 && legal && key_valid && fp_mode == 2) REACH("sign callback failure");
    if (legal && kv == 0) REACH("sign zero key");
    if (!built && use_key && use_msg && use_sig) REACH("sign on static context");
    if (built && !use_sig) REACH("sign NULL signature");
}

#else
void h_sign_recoverable(void) {
    COMMON_INPUTS;
    INPUT(secp256k1_ecdsa_recoverable_signature, sig); secp256k1_scalar lr, ls; int lrec;

    ret = secp256k1_ecdsa_sign_recoverable(&ctx, use_sig ? &sig : NULL, use_msg ? msg32 : NULL, use_key ? seckey : NULL, fp, use_ndata ? ndata : NULL);

    __CPROVER_assert(ret == 0 || ret == 1, "C01 sign_recoverable: returns 0 or 1");
    __CPROVER_assert(g_error == 0, "C01 sign_recoverable: error callback never invoked");
    if (!legal) {
        __CPROVER_assert(ret == 0 && g_illegal >= 1, "C01 sign_recoverable: unbuilt (static) context or NULL argument => illegal callback, ret 0");
    } else {
        __CPROVER_assert(g_illegal == 0, "C01 sign_recoverable: no callback on legal arguments");
        if (!key_valid) __CPROVER_assert(ret == 0, "C01 sign_recoverable: key 0 or >= n => ret 0");
        if (fp_mode == 2 && g_st_ret == 0) __CPROVER_assert(ret == 0, "C01 sign_recoverable: nonce callback returning 0 => ret 0");
        secp256k1_ecdsa_recoverable_signature_load(&ctx, &lr, &ls, &lrec, &sig);
        if (ret == 0) __CPROVER_assert(sval(&lr) == 0 && sval(&ls) == 0 && lrec == 0, "C01 sign_recoverable: failure => all-zero signature (r = s = 0, recid 0)");
        if (ret == 1) {
            __CPROVER_assert(key_valid && g_ss_ret == 1, "C01 sign_recoverable: success only with a valid key and a successful core signer");
            __CPROVER_assert(SC_EQ(lr, g_ss_r) && SC_EQ(ls, g_ss_s), "C01 sign_recoverable: signature object holds (r, s) of the core signer");
            __CPROVER_assert(g_ss_has_recid == 1 && lrec == g_ss_recid && lrec >= 0 && lrec <= 3, "C01 sign_recoverable: the object's recid is the core signer's recovery id, in [0,3]");
            __CPROVER_assert(sval(&g_ss_sec) == kv && sval(&g_ss_msg) == (mv >= n ? mv - n : mv), "C01 sign_recoverable: core signer gets (key, be256(msg) mod n)");
            __CPROVER_assert(g_nf_msg_byte == msg32[k] && g_nf_key_byte == seckey[k] && g_nf_algo16 == NULL && (g_nf_data != NULL) == use_ndata && (!use_ndata || g_nf_data_byte == ndata[k]) && g_nf_counter == verif_nonce_calls - 1,
                             "C01 sign_recoverable: nonce function receives (msg32, seckey, NULL, noncedata, attempt number)");
        }
    }
    if (ret == 1 && legal && lrec == 3) REACH("sign_recoverable success recid 3");
    if (ret == 0 && legal && key_valid && fp_mode == 2) REACH("sign_recoverable callback failure");
    if (legal && kv >= n) REACH("sign_recoverable key >= n");
    if (!built && use_key && use_msg && use_sig) REACH("sign_recoverable on static context");
}
#endif

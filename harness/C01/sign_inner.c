/* C01: secp256k1_ecdsa_sign_inner (plain ECDSA path: no sign-to-contract arguments) for every key,
 * message, nonce source (NULL = built-in RFC 6979, the default function pointer, or an arbitrary user
 * callback), optional noncedata and optional recid.  The retry loop is closed by the loop contract of
 * the unit table (engine/units/C01_more.py, no /repo edit) (partial correctness: termination not claimed).
 *   - secp256k1_ecdsa_sig_sign: oracle with LAST-CALL log (gates proved in C01.sig_sign)
 *   - nonce_function_rfc6979_impl: contract with LAST-CALL log (body proved in C01.rfc6979)
 *   - user callback: stub (nonce_stub.c) - writes only nonce32, returns ANY int.
 *   - ecmult_gen / ge_set_gej / ec_commit_seckey (sign-to-contract branch, not taken here): frame contracts. */
#define LOG_SIG_SIGN
#define LOG_NONCE_FN
#define LOG_EC_COMMIT_SECKEY   /* sign-to-contract branch (dead here: s2c_data32 == NULL) is abstracted so that the loop body stays small */
#include "assumed_C15.h"
#include "src/secp256k1.c"
#include "post.h"
#include "C01/nonce_stub.c"   /* stub user nonce callback (not a unit) */

void h_sign_inner(void) {
    secp256k1_context ctx;
    INPUT_ARR(unsigned char, seckey, 32); INPUT_ARR(unsigned char, msg32, 32); INPUT_ARR(unsigned char, ndata, 32);
    INPUT(_Bool, use_ndata); INPUT(_Bool, use_recid); INPUT(int, fp_mode); INPUT(size_t, k); INPUT(int, recid0);
    INPUT(secp256k1_scalar, r); INPUT(secp256k1_scalar, s);
    secp256k1_nonce_function fp; int ret, recid = recid0, key_valid; wide n = N_(), kv, mv, nonv;
    __CPROVER_assume(fp_mode >= 0 && fp_mode <= 2 && k < 32);
    fp = fp_mode == 0 ? NULL : fp_mode == 1 ? secp256k1_nonce_function_default : stub_noncefp;
    verif_ctx_init(&ctx);
    verif_nonce_calls = 0; g_nk = k;
    kv = be256(seckey); mv = be256(msg32); key_valid = (kv != 0 && kv < n);

    ret = secp256k1_ecdsa_sign_inner(&ctx, &r, &s, use_recid ? &recid : NULL, NULL, NULL, NULL, msg32, seckey, fp, use_ndata ? ndata : NULL);

    __CPROVER_assert(ret == 0 || ret == 1, "C01 sign_inner: returns 0 or 1");
    __CPROVER_assert(g_illegal == 0 && g_error == 0, "C01 sign_inner: no callback");
    __CPROVER_assert(sval(&r) < n && sval(&s) < n, "C01 sign_inner: r and s are reduced scalars");
    if (!key_valid) __CPROVER_assert(ret == 0, "C01 sign_inner: key 0 or >= n => ret 0");
    if (ret == 0) __CPROVER_assert(sval(&r) == 0 && sval(&s) == 0, "C01 sign_inner: failure => r = s = 0");
    if (ret == 0 && use_recid) __CPROVER_assert(recid == 0, "C01 sign_inner: failure => recid 0");
    if (!use_recid) __CPROVER_assert(recid == recid0, "C01 sign_inner: no recid written when not requested");
    /* the last (hence, by the loop invariant, every) nonce call */
    __CPROVER_assert(g_nf_msg_byte == msg32[k] && g_nf_key_byte == seckey[k] && g_nf_algo16 == NULL && (g_nf_data != NULL) == use_ndata && (!use_ndata || g_nf_data_byte == ndata[k]),
                     "C01 sign_inner: nonce function receives the contents of (msg32, seckey, no algo tag, noncedata)");
    __CPROVER_assert(g_nf_counter == verif_nonce_calls - 1, "C01 sign_inner: nonce function receives count = number of previous attempts");
    /* g_nf_hctx identifies who produced the nonce: the stub records NULL, the built-in function its (non-NULL) hash context; WHICH hash
     * context the built-in function runs on is not part of the property */
    if (fp_mode != 2) __CPROVER_assert(g_nf_hctx != NULL, "C01 sign_inner: noncefp NULL or the default function pointer => built-in RFC 6979");
    if (fp_mode == 2) __CPROVER_assert(g_nf_hctx == NULL, "C01 sign_inner: user callback given => built-in function not used");
    if (fp_mode == 2 && g_st_ret == 0) __CPROVER_assert(ret == 0, "C01 sign_inner: nonce callback returning 0 => ret 0");
    if (ret == 1) {
        __CPROVER_assert(key_valid, "C01 sign_inner: success only with a valid key");
        __CPROVER_assert(g_ss_ret == 1, "C01 sign_inner: success only if the core signer succeeded");
        __CPROVER_assert(sval(&g_ss_sec) == kv, "C01 sign_inner: core signer gets the secret key");
        __CPROVER_assert(sval(&g_ss_msg) == (mv >= n ? mv - n : mv), "C01 sign_inner: core signer gets be256(msg32) mod n");
        nonv = sval(&g_ss_non);
        __CPROVER_assert(nonv != 0 && nonv < n, "C01 sign_inner: nonce in [1, n)");
        __CPROVER_assert((unsigned char)(nonv >> (8 * (31 - k))) == g_nf_out_byte, "C01 sign_inner: nonce is exactly the output of the last nonce call");
        __CPROVER_assert(SC_EQ(r, g_ss_r) && SC_EQ(s, g_ss_s), "C01 sign_inner: (r, s) are the core signer's outputs");
        __CPROVER_assert(g_ss_has_recid == use_recid && (!use_recid || recid == g_ss_recid), "C01 sign_inner: recid is the core signer's output");
        __CPROVER_assert(fp_mode != 2 || g_st_ret != 0, "C01 sign_inner: success only if the callback reported success");
    }
    if (ret == 1 && verif_nonce_calls > 5 && mv >= n && fp_mode == 0) REACH("sign_inner success after retries, msg >= n");
    if (ret == 1 && fp_mode == 1 && use_recid && recid == 3) REACH("sign_inner success default fp");
    if (ret == 1 && fp_mode == 2 && g_st_ret == -7) REACH("sign_inner success user callback returning -7");
    if (ret == 0 && key_valid && fp_mode == 2 && verif_nonce_calls == 3) REACH("sign_inner callback failure on third attempt");
    if (kv == 0) REACH("sign_inner zero key");
    if (kv >= n) REACH("sign_inner key >= n");
}

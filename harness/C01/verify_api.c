/* C01: secp256k1_ecdsa_verify (API gate).  Every pointer argument NULL or an object; signature object
 * holds two reduced scalars (what the parsers produce), public key object arbitrary 64 bytes.
 * secp256k1_ecdsa_sig_verify is a verdict oracle with a ghost argument log (its own gates: unit
 * C01.sig_verify).  Opaque objects are decoded with the TU's own load functions, never by byte offsets.
 * Decided: high-S rejected, message reduced mod n, exactly the loaded (r, s, pubkey) reach the core
 * verifier, result = its verdict, NULL => illegal callback and 0.  The order of the independent checks
 * (low-S, key object validity) is not constrained. */
#define LOG_SIG_VERIFY
#include "assumed_C01.h"
#include "src/secp256k1.c"
#include "post.h"

void h_verify_api(void) {
    secp256k1_context ctx;
    INPUT(secp256k1_ecdsa_signature, sig); INPUT(secp256k1_pubkey, pk); INPUT_ARR(unsigned char, msg, 32);
    INPUT(_Bool, use_sig); INPUT(_Bool, use_pk); INPUT(_Bool, use_msg);
    secp256k1_scalar r0, s0; secp256k1_ge q0; int ret, key_ok; wide n = N_(), half = (N_() - 1) >> 1, sv, mv;
    verif_ctx_init(&ctx);
    secp256k1_ecdsa_signature_load(&ctx, &r0, &s0, &sig);
    __CPROVER_assume(scalar_ok(&r0) && scalar_ok(&s0));   /* representation invariant of a signature object */
    secp256k1_ge_from_bytes(&q0, pk.data); key_ok = !secp256k1_fe_is_zero(&q0.x);   /* what secp256k1_pubkey_load accepts */
    sv = sval(&s0); mv = be256(msg);
    g_sv_n = 0;

    ret = secp256k1_ecdsa_verify(&ctx, use_sig ? &sig : NULL, use_msg ? msg : NULL, use_pk ? &pk : NULL);

    __CPROVER_assert(ret == 0 || ret == 1, "C01 verify: returns 0 or 1");
    __CPROVER_assert(g_error == 0, "C01 verify: error callback never invoked");
    if (!use_sig || !use_pk || !use_msg) __CPROVER_assert(ret == 0 && g_illegal >= 1, "C01 verify: NULL argument => illegal callback, ret 0");
    if (use_sig && use_pk && use_msg) {
        if (sv > half) __CPROVER_assert(ret == 0, "C01 verify: high S rejected");
        if (!key_ok) __CPROVER_assert(ret == 0, "C01 verify: invalid public key object rejected");
        if (sv <= half && key_ok) __CPROVER_assert(g_sv_n >= 1 && ret == g_sv_v0 && g_illegal == 0, "C01 verify: otherwise the result is the verdict of the core verifier, no callback");
    }
    if (g_sv_n >= 1) {
        __CPROVER_assert(SC_EQ(g_sv_r0, r0) && SC_EQ(g_sv_s0, s0), "C01 verify: exactly the loaded (r, s) reach the core verifier");
        __CPROVER_assert(sval(&g_sv_m0) == (mv >= n ? mv - n : mv), "C01 verify: message is be256(msghash32) mod n");
        __CPROVER_assert(FE_EQ(g_sv_q0.x, q0.x) && FE_EQ(g_sv_q0.y, q0.y) && g_sv_q0.infinity == 0, "C01 verify: exactly the loaded public key reaches the core verifier");
    }
    if (ret == 1) __CPROVER_assert(sv <= half && key_ok && g_sv_n >= 1 && g_sv_v0 == 1 && g_illegal == 0, "C01 verify: accepts only low-S signatures with a positive core verdict");
    if (ret == 1 && mv >= n) REACH("verify accepts with msg >= n");
    if (ret == 1 && sv == half) REACH("verify accepts s = (n-1)/2");
    if (ret == 0 && sv == half + 1 && use_sig && use_pk && use_msg) REACH("verify rejects s = (n+1)/2");
    if (ret == 0 && g_sv_n >= 1) REACH("verify negative verdict");
    if (use_sig && use_pk && use_msg && !key_ok) REACH("verify invalid key object");
}

/* C01: secp256k1_ecdsa_verify (API gate).  Every pointer argument NULL or an object; signature object
 * holds two reduced scalars (what the parsers produce), public key object arbitrary 64 bytes.
 * secp256k1_ecdsa_sig_verify is a verdict oracle with a ghost argument log (its own gates: unit
 * C01.sig_verify).  Decided: high-S rejected before any curve work, message reduced mod n, exactly the
 * loaded (r, s, pubkey) reach the core verifier, result = its verdict, NULL => one illegal callback. */
#define LOG_SIG_VERIFY
#include "assumed_C01.h"
#include "src/secp256k1.c"
#include "post.h"

void h_verify_api(void) {
    secp256k1_context ctx;
    INPUT(secp256k1_ecdsa_signature, sig); INPUT(secp256k1_pubkey, pk); INPUT_ARR(unsigned char, msg, 32);
    INPUT(_Bool, use_sig); INPUT(_Bool, use_pk); INPUT(_Bool, use_msg);
    int ret; wide n = N_(), half = (N_() - 1) >> 1, rv, sv, mv, qx, qy;
    rv = le256(&sig.data[0]); sv = le256(&sig.data[32]);
    __CPROVER_assume(rv < n && sv < n);   /* representation invariant of a signature object */
    qx = le256(&pk.data[0]); qy = le256(&pk.data[32]);
    mv = be256(msg);
    verif_ctx_init(&ctx);
    g_sv_n = 0;

    ret = secp256k1_ecdsa_verify(&ctx, use_sig ? &sig : NULL, use_msg ? msg : NULL, use_pk ? &pk : NULL);

    __CPROVER_assert(ret == 0 || ret == 1, "C01 verify: returns 0 or 1");
    __CPROVER_assert(g_error == 0, "C01 verify: error callback never invoked");
    __CPROVER_assert(g_sv_n <= 1, "C01 verify: at most one core verification");
    if (!use_sig || !use_pk || !use_msg) __CPROVER_assert(ret == 0 && g_illegal == 1 && g_sv_n == 0, "C01 verify: NULL argument => one illegal callback, ret 0, no verification");
    if (use_sig && use_pk && use_msg) {
        if (sv > half) __CPROVER_assert(ret == 0 && g_sv_n == 0 && g_illegal == 0, "C01 verify: high S rejected before any curve work");
        if (sv <= half && qx == 0) __CPROVER_assert(ret == 0 && g_sv_n == 0 && g_illegal == 1, "C01 verify: public key object with zero x is illegal");
        if (sv <= half && qx != 0) __CPROVER_assert(g_sv_n == 1 && ret == g_sv_v0 && g_illegal == 0, "C01 verify: otherwise the result is the verdict of the core verifier");
    }
    if (g_sv_n == 1) {
        __CPROVER_assert(sval(&g_sv_r0) == rv && sval(&g_sv_s0) == sv, "C01 verify: exactly the loaded (r, s) reach the core verifier");
        __CPROVER_assert(sval(&g_sv_m0) == (mv >= n ? mv - n : mv), "C01 verify: message is be256(msghash32) mod n");
        __CPROVER_assert(fval(&g_sv_q0.x) == qx && fval(&g_sv_q0.y) == qy && g_sv_q0.infinity == 0, "C01 verify: exactly the loaded public key reaches the core verifier");
    }
    if (ret == 1) __CPROVER_assert(sv <= half && qx != 0 && g_sv_n == 1 && g_sv_v0 == 1 && g_illegal == 0, "C01 verify: accepts only low-S signatures with a positive core verdict");
    if (ret == 1 && mv >= n) REACH("verify accepts with msg >= n");
    if (ret == 1 && sv == half) REACH("verify accepts s = (n-1)/2");
    if (ret == 0 && sv == half + 1 && use_sig && use_pk && use_msg) REACH("verify rejects s = (n+1)/2");
    if (ret == 0 && g_sv_n == 1) REACH("verify negative verdict");
}

/* C01: secp256k1_ecdsa_sig_verify - range gates and the two x comparisons, for all (r,s,m,Q).
 * Oracles: scalar_inverse_var, scalar_mul, ecmult, gej_eq_x_var (the last three with ghost logs).
 * Oracle usage is stated over VALUES (audit 1 rule): products are identified by their operand values in either
 * order, not by call position; a NULL generator scalar counts as zero; usage is demanded on the accepting
 * side and for the verdict, never as a call count on a rejecting path. */
#define LOG_SCALAR_MUL
#define LOG_SCALAR_INV
#define LOG_ECMULT
#define LOG_GEJ_EQ_X
#include "assumed_C01.h"
#include "src/secp256k1.c"
#include "post.h"

void h_sig_verify(void) {
    INPUT(secp256k1_scalar, r); INPUT(secp256k1_scalar, s); INPUT(secp256k1_scalar, m); INPUT(secp256k1_ge, q);
    int ret; wide rv, svv, mv, n = N_(), p = P_(), inv, na, ng;
    __CPROVER_assume(scalar_ok(&r) && scalar_ok(&s) && scalar_ok(&m) && ge_ok(&q) && !q.infinity);
    g_mul_n = 0; g_inv_n = 0; g_ecmult_n = 0; g_eqx_n = 0;
    rv = sval(&r); svv = sval(&s); mv = sval(&m);
    ret = secp256k1_ecdsa_sig_verify(&r, &s, &q, &m);
    __CPROVER_assert(ret == 0 || ret == 1, "C01 sig_verify: returns 0 or 1");
    if (rv == 0 || svv == 0) __CPROVER_assert(ret == 0, "C01 sig_verify: r = 0 or s = 0 rejected");
    if (g_eqx_n >= 1) {   /* a verdict was asked for: everything it was asked about must be wired to (r, s, m, Q) */
        __CPROVER_assert(g_inv_n >= 1 && SC_EQ(g_inv_x0, s), "C01 sig_verify: the inverted scalar is s");
        inv = sval(&g_inv_r0);
        na = g_ecmult_has_na0 ? sval(&g_ecmult_na0) : 0; ng = g_ecmult_has_ng0 ? sval(&g_ecmult_ng0) : 0;
        __CPROVER_assert(g_ecmult_n >= 1 && mul_logged(inv, rv, na) && mul_logged(inv, mv, ng), "C01 sig_verify: ecmult computes (s^-1 * r)*Q + (s^-1 * m)*G, the two factors being products requested from the multiplier");
        __CPROVER_assert(FE_EQ(g_ecmult_a0.x, q.x) && FE_EQ(g_ecmult_a0.y, q.y) && g_ecmult_a0.infinity == 0 && fval(&g_ecmult_a0.z) == 1, "C01 sig_verify: the point multiplied is the public key");
        __CPROVER_assert(!g_ecmult_r0.infinity, "C01 sig_verify: a result at infinity is never compared");
        __CPROVER_assert(fval(&g_eqx_x0) == rv, "C01 sig_verify: first x comparison is against r");
        __CPROVER_assert(FE_EQ(g_eqx_a0.x, g_ecmult_r0.x) && FE_EQ(g_eqx_a0.z, g_ecmult_r0.z), "C01 sig_verify: compared point is the ecmult result");
    }
    if (g_ecmult_n >= 1 && g_ecmult_r0.infinity) __CPROVER_assert(ret == 0, "C01 sig_verify: result at infinity rejected");
    if (g_eqx_n >= 2) __CPROVER_assert(fval(&g_eqx_x1) == rv + n && rv + n < p && g_eqx_v0 == 0, "C01 sig_verify: second comparison is against r+n, only when r+n<p and the first failed");
    if (ret == 1) __CPROVER_assert(rv != 0 && svv != 0 && ((g_eqx_n == 1 && g_eqx_v0 == 1) || (g_eqx_n == 2 && g_eqx_v1 == 1)), "C01 sig_verify: accepts only on a positive x verdict");
    if (ret == 0 && g_eqx_n == 1) __CPROVER_assert(g_eqx_v0 == 0 && rv + n >= p, "C01 sig_verify: single-comparison reject only when r+n>=p");
    if (ret == 0 && g_eqx_n == 2) __CPROVER_assert(g_eqx_v1 == 0, "C01 sig_verify: double-comparison reject only on a negative verdict");
    if (rv != 0 && svv != 0 && g_ecmult_n >= 1 && !g_ecmult_r0.infinity) __CPROVER_assert(g_eqx_n >= 1, "C01 sig_verify: a finite result is always compared");
    if (rv != 0 && svv != 0) __CPROVER_assert(g_ecmult_n >= 1, "C01 sig_verify: a signature in range is always checked on the curve");
    __CPROVER_assert(g_eqx_n <= 2, "C01 sig_verify: at most two comparisons");
    if (ret == 1 && g_eqx_n == 2) REACH("sig_verify accepts via r+n");
    if (ret == 1 && g_eqx_n == 1) REACH("sig_verify accepts via r");
    if (ret == 0 && g_eqx_n == 1) REACH("sig_verify rejects with r+n>=p");
    if (ret == 0 && g_ecmult_n >= 1 && g_ecmult_r0.infinity) REACH("sig_verify result at infinity");
    if (ret == 0 && (rv == 0 || svv == 0)) REACH("sig_verify zero r or s");
}

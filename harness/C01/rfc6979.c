/* C01: nonce_function_rfc6979_impl - what is fed to the RFC 6979 DRBG, for every key, every message
 * (values >= n included), optional 32-byte extra data, optional 16-byte algo tag and every counter.
 * The DRBG object functions are replaced by ghost-logging contracts; scalar_set_b32/get_b32 and the buffer
 * assembly are the real code.  The generate loop is closed by the loop contract of
 * the unit table (engine/units/C01_more.py, no /repo edit) (partial correctness).
 * Decided: key material = key32 || be32(be256(msg32) mod n) || [data32] || [algo16], length 64/80/96/112;
 * initialize once, before any output; exactly counter+1 generate calls on that DRBG; nonce32 = the 32 bytes of the
 * last one; finalize once, afterwards; returns 1.  Which hash context is passed down is not constrained. */
#define LOG_RFC6979_HMAC
#include "assumed_C01.h"
#include "src/secp256k1.c"
#include "post.h"

void h_rfc6979(void) {
    INPUT_ARR(unsigned char, key32, 32); INPUT_ARR(unsigned char, msg32, 32); INPUT_ARR(unsigned char, data32, 32); INPUT_ARR(unsigned char, algo16, 16);
    INPUT(_Bool, use_data); INPUT(_Bool, use_algo); INPUT(unsigned int, counter); INPUT(size_t, ki); INPUT(size_t, k2);
    unsigned char nonce32[32]; secp256k1_hash_ctx hc; int ret; size_t explen, off; wide n = N_(), mv, mr;
    hc.fn_sha256_compression = secp256k1_sha256_transform;
    __CPROVER_assume(k2 < 32);
    g_ki = ki; g_nk2 = k2; g_ri_n = 0; g_rf_n = 0; verif_rfc6979_generate_calls = 0;
    mv = be256(msg32); mr = mv >= n ? mv - n : mv;
    explen = 64 + (use_data ? 32 : 0) + (use_algo ? 16 : 0);

    ret = nonce_function_rfc6979_impl(&hc, nonce32, msg32, key32, use_algo ? algo16 : NULL, use_data ? data32 : NULL, counter);

    __CPROVER_assert(ret == 1, "C01 rfc6979: returns 1");
    __CPROVER_assert(g_ri_n == 1 && g_ri_gen_before == 0, "C01 rfc6979: DRBG initialised exactly once, before any output");
    __CPROVER_assert(g_ri_keylen == explen, "C01 rfc6979: key material length is 64 / 80 / 96 / 112");
    if (ki < explen) {
        if (ki < 32) __CPROVER_assert(g_ri_byte == key32[ki], "C01 rfc6979: key material bytes 0..31 are the secret key");
        else if (ki < 64) __CPROVER_assert(g_ri_byte == (unsigned char)(mr >> (8 * (63 - ki))), "C01 rfc6979: key material bytes 32..63 are be256(msg32) mod n, big endian");
        else if (use_data && ki < 96) __CPROVER_assert(g_ri_byte == data32[ki - 64], "C01 rfc6979: then the 32 bytes of extra data, when given");
        else { off = use_data ? 96 : 64; __CPROVER_assert(use_algo && g_ri_byte == algo16[ki - off], "C01 rfc6979: then the 16 bytes of the algorithm tag, when given"); }
    }
    __CPROVER_assert(verif_rfc6979_generate_calls == counter + 1, "C01 rfc6979: exactly counter+1 generate calls");
    /* "every generate call uses the initialised DRBG, after initialize and before finalize" is the precondition of the generate contract:
     * obligation nonce_function_rfc6979_impl.precondition.* at the call site */
    __CPROVER_assert(g_rg.len == 32 && nonce32[k2] == g_rg.out_byte, "C01 rfc6979: on return nonce32 holds the 32 bytes produced by the last generate call");
    __CPROVER_assert(g_rf_n == 1 && g_rf_rng == g_ri_rng && g_rf_gen_before == counter + 1, "C01 rfc6979: finalized once, after the last generate");
    if (mv >= n && ki == 40 && use_data && use_algo && counter == 100000) REACH("rfc6979 msg >= n, data and algo, counter 100000");
    if (!use_data && use_algo && ki == 70) REACH("rfc6979 algo only");
    if (use_data && !use_algo && ki == 95 && counter == 0) REACH("rfc6979 data only, counter 0");
    if (!use_data && !use_algo) REACH("rfc6979 plain");
}

/* C01: secp256k1_ecdsa_signature_normalize - all real code, all signature objects (decoded with the TU's own
 * secp256k1_ecdsa_signature_load).  ret = is_high(s); sigout = (r, n - s) if high else (r, s); sigout may be NULL
 * or alias sigin. */
#include "assumed_C01.h"
#include "src/secp256k1.c"
#include "post.h"

void h_normalize(void) {
    secp256k1_context ctx;
    INPUT(secp256k1_ecdsa_signature, sigin); INPUT(secp256k1_ecdsa_signature, out0);
    INPUT(_Bool, use_in); INPUT(int, out_mode); /* 0: NULL, 1: separate object, 2: in place */
    secp256k1_ecdsa_signature sigout = out0, *po; secp256k1_scalar r0, s0, r1, s1, r2, s2;
    int ret; wide n = N_(), half = (N_() - 1) >> 1, rv, sv;
    verif_ctx_init(&ctx);
    secp256k1_ecdsa_signature_load(&ctx, &r0, &s0, &sigin);
    __CPROVER_assume(scalar_ok(&r0) && scalar_ok(&s0));   /* representation invariant of a signature object */
    __CPROVER_assume(out_mode >= 0 && out_mode <= 2);
    rv = sval(&r0); sv = sval(&s0);
    po = out_mode == 0 ? NULL : out_mode == 1 ? &sigout : &sigin;

    ret = secp256k1_ecdsa_signature_normalize(&ctx, po, use_in ? &sigin : NULL);

    __CPROVER_assert(g_error == 0, "C01 normalize: error callback never invoked");
    if (!use_in) {
        __CPROVER_assert(ret == 0 && g_illegal >= 1, "C01 normalize: NULL input => illegal callback, ret 0");
    } else {
        __CPROVER_assert(g_illegal == 0, "C01 normalize: no callback");
        __CPROVER_assert(ret == (sv > half), "C01 normalize: ret = is_high(s)");
        if (out_mode == 1) { secp256k1_ecdsa_signature_load(&ctx, &r2, &s2, &sigin); __CPROVER_assert(SC_EQ(r2, r0) && SC_EQ(s2, s0), "C01 normalize: input signature keeps its value"); }
        if (out_mode != 0) {
            secp256k1_ecdsa_signature_load(&ctx, &r1, &s1, po);
            __CPROVER_assert(sval(&r1) == rv, "C01 normalize: r unchanged");
            __CPROVER_assert(sval(&s1) == (sv > half ? n - sv : sv), "C01 normalize: s' = n - s if high else s");
            __CPROVER_assert(sval(&s1) <= half, "C01 normalize: output is low-S");
        }
        if (sv == half + 1 && out_mode == 2) REACH("normalize s = (n+1)/2 in place");
        if (sv == half && out_mode == 1) REACH("normalize s = (n-1)/2");
        if (sv == 0) REACH("normalize s = 0");
    }
    if (!use_in) REACH("normalize NULL input");
}

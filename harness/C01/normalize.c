/* C01: secp256k1_ecdsa_signature_normalize - all real code, all signature objects.
 * ret = is_high(s); sigout = (r, n - s) if high else (r, s); sigin untouched; sigout may be NULL or alias sigin. */
#include "assumed_C01.h"
#include "src/secp256k1.c"
#include "post.h"

void h_normalize(void) {
    secp256k1_context ctx;
    INPUT(secp256k1_ecdsa_signature, sigin); INPUT(secp256k1_ecdsa_signature, out0);
    INPUT(_Bool, use_in); INPUT(int, out_mode); /* 0: NULL, 1: separate object, 2: in place */
    secp256k1_ecdsa_signature sigout = out0, in0 = sigin, *po;
    int ret; wide n = N_(), half = (N_() - 1) >> 1, rv, sv, ro, so;
    rv = le256(&sigin.data[0]); sv = le256(&sigin.data[32]);
    __CPROVER_assume(rv < n && sv < n);   /* representation invariant of a signature object */
    __CPROVER_assume(out_mode >= 0 && out_mode <= 2);
    verif_ctx_init(&ctx);
    po = out_mode == 0 ? NULL : out_mode == 1 ? &sigout : &sigin;

    ret = secp256k1_ecdsa_signature_normalize(&ctx, po, use_in ? &sigin : NULL);

    __CPROVER_assert(g_error == 0, "C01 normalize: error callback never invoked");
    if (!use_in) {
        __CPROVER_assert(ret == 0 && g_illegal == 1, "C01 normalize: NULL input => one illegal callback, ret 0");
        __CPROVER_assert(memcmp(&sigout, &out0, 64) == 0 && memcmp(&sigin, &in0, 64) == 0, "C01 normalize: nothing written on illegal use");
    } else {
        __CPROVER_assert(g_illegal == 0, "C01 normalize: no callback");
        __CPROVER_assert(ret == (sv > half), "C01 normalize: ret = is_high(s)");
        if (out_mode == 0) __CPROVER_assert(memcmp(&sigout, &out0, 64) == 0 && memcmp(&sigin, &in0, 64) == 0, "C01 normalize: NULL sigout => nothing written");
        if (out_mode == 1) __CPROVER_assert(memcmp(&sigin, &in0, 64) == 0, "C01 normalize: input signature unchanged");
        if (out_mode != 0) {
            ro = le256(&po->data[0]); so = le256(&po->data[32]);
            __CPROVER_assert(ro == rv, "C01 normalize: r unchanged");
            __CPROVER_assert(so == (sv > half ? n - sv : sv), "C01 normalize: s' = n - s if high else s");
            __CPROVER_assert(so <= half, "C01 normalize: output is low-S");
        }
        if (sv == half + 1 && out_mode == 2) REACH("normalize s = (n+1)/2 in place");
        if (sv == half && out_mode == 1) REACH("normalize s = (n-1)/2");
        if (sv == 0) REACH("normalize s = 0");
    }
    if (!use_in) REACH("normalize NULL input");
}

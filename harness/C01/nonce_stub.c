/* A user nonce callback modelled as an arbitrary function that respects its documented frame:
 * it writes only nonce32[0..32) and returns ANY int.  It records its arguments in the same
 * LAST-CALL ghost log as the contract of nonce_function_rfc6979_impl (assumed_C01.h, LOG_NONCE_FN). */
#ifndef VERIF_NONCE_STUB_H
#define VERIF_NONCE_STUB_H
#ifndef VERIF_NATIVE
struct stub_nonce_bytes { unsigned char a[32]; };
struct stub_nonce_bytes nondet_stub_nonce(void);
#endif
static int stub_noncefp(unsigned char *nonce32, const unsigned char *msg32, const unsigned char *key32, const unsigned char *algo16, void *data, unsigned int counter) {
    struct stub_nonce_bytes v = nondet_stub_nonce();
    memcpy(nonce32, v.a, 32);
    verif_nonce_calls++; g_st_n++;
    g_nf_counter = counter; g_nf_msg32 = msg32; g_nf_key32 = key32; g_nf_algo16 = algo16; g_nf_out = nonce32; g_nf_data = data; g_nf_hctx = NULL;
    if (data != NULL && g_nk < 32) g_nf_data_byte = ((const unsigned char *)data)[g_nk];
    if (g_nk < 32) { g_nf_out_byte = nonce32[g_nk]; g_nf_msg_byte = msg32[g_nk]; g_nf_key_byte = key32[g_nk]; }
    g_st_ret = nondet_int();
    return g_st_ret;
}
#endif

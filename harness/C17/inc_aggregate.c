/* C17: secp256k1_schnorrsig_inc_aggregate (and _aggregate = n_before 0) - gates and output layout for EVERY
 * n_before, n_new, every buffer length, NULL-or-object for each pointer; every array has its EXACT size.
 *   n_before + n_new wraps => illegal callback and 0 (never UB / out-of-bounds);
 *   *aggsig_len < 32*(n+1) => 0, nothing reported, length untouched;
 *   ret = 1 => *aggsig_len = 32*(n+1);  aggsig[32i..32i+32) = old r_i for i < n_before (untouched),
 *              = new_sigs64[64(i-n_before) .. +32) for n_before <= i < n   (ghost byte index);
 *   ret = 0 on well-formed arguments with enough room only if a public key object was invalid (illegal callback).
 * Randomizer wiring (same run): one running hash from the HalfAgg/randomizer midstate; signature i contributes exactly
 * r_i || be(x(pk_i)) || m_i at stream positions 64+96i.. (r_i from the old aggregate for i < n_before, from new_sigs64
 * otherwise) - the same stream aggverify builds; z_i = digest (mod n) of a finalize at length 64+96(i+1); the product
 * requested is s_i * z_i with s_i = new_sigs64[64(i-n_before)+32..] mod n, for every new i != 0 (none for i = 0).
 * The three loops are closed by the loop contracts in hooks/C17_halfagg_loops.diff. */
#include "assumed_C17.h"
#include "src/secp256k1.c"
#include "post.h"

#define NMAX ((size_t)1 << 40)
#ifdef C17_NBOUND
#define FOR_IDX(k, v) for (k = 0; k <= C17_NBOUND; k++) if (k == (v))
#else
#define FOR_IDX(k, v) k = (v);
#endif

void h_inc_aggregate(void) {
    secp256k1_context ctx;
    INPUT(size_t, nb); INPUT(size_t, nnew); INPUT(size_t, alen); INPUT(size_t, gb); INPUT(size_t, gk); INPUT(uint64_t, wpos); INPUT(_Bool, oneshot);
    INPUT(_Bool, use_agg); INPUT(_Bool, use_len); INPUT(_Bool, use_pk); INPUT(_Bool, use_msgs); INPUT(_Bool, use_sigs);
    unsigned char *aggsig, *msgs, *sigs; secp256k1_xonly_pubkey *pks; size_t n, len, k; int ret, wrap, big, misuse, toosmall;
    if (oneshot) __CPROVER_assume(nb == 0);
    __CPROVER_assume(alen <= 32 * (NMAX + 1));
#ifdef C17_NBOUND
    /* BOUNDED stand-in: loops unwound instead of closed by loop contracts.  The counts are bounded only for calls that get past the gates:
     * count overflow and "buffer too small" (the buffer has at most C17_NBOUND+2 slots) are checked for ARBITRARY n_before, n_new */
    __CPROVER_assume(alen <= 32 * (C17_NBOUND + 2));
    __CPROVER_assume((nb <= C17_NBOUND && nnew <= C17_NBOUND - nb) || nb + nnew < nb || W(alen) < 32 * (W(nb) + W(nnew) + 1));
#endif
    n = nb + nnew; wrap = n < nb; big = (nb > NMAX || nnew > NMAX);   /* big: the length can never suffice, the arrays must not be touched */
#ifndef C17_NBOUND
    INPUT_BUF(aggw, aggsig, alen, 64);
    pks = malloc((big || n == 0) ? 1 : n * sizeof(*pks)); msgs = malloc((big || n == 0) ? 1 : n * 32); sigs = malloc((big || nnew == 0) ? 1 : nnew * 64);
    __CPROVER_assume(pks != NULL && msgs != NULL && sigs != NULL);
#else
    /* BOUNDED stand-in: fixed-capacity objects (exact object sizes are what the unbounded unit C17.inc_aggregate uses); *aggsig_len <= capacity */
    INPUT_ARR(unsigned char, aggbuf, 32 * (C17_NBOUND + 2)); INPUT_ARR(unsigned char, msgbuf, 32 * C17_NBOUND); INPUT_ARR(unsigned char, sigbuf, 64 * C17_NBOUND); INPUT_ARR(secp256k1_xonly_pubkey, pkbuf, C17_NBOUND);
    aggsig = aggbuf; msgs = msgbuf; sigs = sigbuf; pks = pkbuf;
#endif
    verif_ctx_init(&ctx); ctx.hash_ctx.fn_sha256_compression = secp256k1_sha256_transform;
    c17_init_n = 0; c17_mode = 1; c17_aggsig = aggsig; c17_msgs = msgs; c17_pks = pks; c17_sigs = sigs; c17_n = nnew; c17_nb = nb; g_gen_n = 0; c17_phase = 0; c17_mul_n = 0;
    verif_c17_xo_n = 0; verif_c17_fin_n = 0; verif_c17_bad = 0; verif_c17_rej = 0; verif_c17_whit = 0;
    toosmall = (W(alen) < 32 * (W(nb) + W(nnew) + 1));
    verif_c17_gb = gb; verif_c17_gb_exp = 0;
#ifndef C17_EARLY   /* the early-exit variant never reaches a loop: no expectation about array contents is needed */
    if (!big && !wrap && !toosmall && gb < 32 * n) { if (gb / 32 < nb) verif_c17_gb_exp = aggsig[gb]; else FOR_IDX(k, gb / 32 - nb) verif_c17_gb_exp = sigs[64 * k + gb % 32]; }
#endif
#ifdef C17_EARLY
    verif_c17_gk = gk; c17_exp_s = 0; c17_exp_r = 0; c17_exp_px = 0; c17_exp_py = 0; verif_c17_wpos = wpos; verif_c17_wexp = 0;
#else
    /* s_gk of the gk-th NEW signature, for the product wiring */
    verif_c17_gk = gk; c17_exp_s = 0; c17_exp_r = 0; c17_exp_px = 0; c17_exp_py = 0; verif_c17_wpos = wpos; verif_c17_wexp = 0;
    if (!big && !wrap && !toosmall && gk < nnew) FOR_IDX(k, gk) c17_exp_s = be256(sigs + 64 * k + 32);
    verif_c17_wpos = wpos; verif_c17_wexp = 0;
    if (!big && !wrap && !toosmall && wpos >= 64 && wpos < 64 + 96 * (uint64_t)n) { size_t t = (wpos - 64) / 96, o = (wpos - 64) % 96;
        FOR_IDX(k, t) verif_c17_wexp = o < 32 ? (k < nb ? aggsig[32 * k + o] : sigs[64 * (k - nb) + o]) : o < 64 ? pks[k].data[31 - (o - 32)] : msgs[32 * k + (o - 64)]; }
#endif
    len = alen;

#ifdef C17_EARLY
    /* EARLY-EXIT variant: only calls the specification rejects before the first loop (misuse, count overflow, buffer too small), counts and
     * lengths unbounded; a call that nevertheless enters a loop trips the unwinding assertion */
    __CPROVER_assume(!use_agg || !use_len || (!use_sigs && nnew != 0) || wrap || (!use_pk && n != 0) || (!use_msgs && n != 0) || toosmall);
#endif
    if (oneshot) ret = secp256k1_schnorrsig_aggregate(&ctx, use_agg ? aggsig : NULL, use_len ? &len : NULL, use_pk ? pks : NULL, use_msgs ? msgs : NULL, use_sigs ? sigs : NULL, nnew);
    else ret = secp256k1_schnorrsig_inc_aggregate(&ctx, use_agg ? aggsig : NULL, use_len ? &len : NULL, use_pk ? pks : NULL, use_msgs ? msgs : NULL, use_sigs ? sigs : NULL, nb, nnew);
#ifndef C17_NBOUND
    WITNESS_BUF(aggw, aggsig, alen, 64);
#endif

    __CPROVER_assert(ret == 0 || ret == 1, "C17 inc_aggregate: returns 0 or 1");
    __CPROVER_assert(g_error == 0, "C17 inc_aggregate: error callback never invoked");
    if (wrap) __CPROVER_assert(ret == 0 && g_illegal == 1, "C17 inc_aggregate: n_before + n_new overflow reports illegal use and returns 0");
    misuse = !use_agg || !use_len || (!use_sigs && nnew != 0) || wrap || (!use_pk && n != 0) || (!use_msgs && n != 0);
    if (misuse) { __CPROVER_assert(ret == 0 && g_illegal == 1 && len == alen && verif_c17_fin_n == 0 && verif_c17_whit == 0 && c17_init_n == 0, "C17 inc_aggregate: API misuse reports illegal use, returns 0, aggregates nothing"); 
        if (wrap) REACH("inc_aggregate count overflow");
        REACH("inc_aggregate API misuse"); return; }
    if (toosmall) { __CPROVER_assert(ret == 0 && g_illegal == 0 && len == alen && verif_c17_whit == 0 && c17_init_n == 0, "C17 inc_aggregate: buffer smaller than 32*(n+1) returns 0 and touches nothing");
        if (alen == 32 * n && n > 1) REACH("inc_aggregate buffer one slot short");
        if (big) REACH("inc_aggregate huge count");
        return; }
#ifndef C17_EARLY
    if (ret == 1) {
        __CPROVER_assert(g_illegal == 0, "C17 inc_aggregate: success without callback");
        __CPROVER_assert(W(len) == 32 * (W(n) + 1), "C17 inc_aggregate: *aggsig_len = 32*(n+1) on success");
        if (gb < 32 * n) __CPROVER_assert(aggsig[gb] == verif_c17_gb_exp, "C17 inc_aggregate: old r's untouched, new r's copied to slots n_before..n-1");
        __CPROVER_assert(verif_c17_bad == 0 && verif_c17_fin_n == nnew && c17_init_n == 1, "C17 inc_aggregate: one running hash, one randomizer per new signature from a finalize at length 64+96(i+1), products s_i*z_i (i != 0), hash bytes as specified");
        __CPROVER_assert(c17_mul_n == nnew - ((nb == 0 && nnew > 0) ? 1 : 0), "C17 inc_aggregate: exactly one product s_i*z_i per new signature i != 0 (z_0 = 1 only for the very first signature)");
        if (wpos >= 64 && wpos < 64 + 96 * (uint64_t)n) __CPROVER_assert(verif_c17_whit, "C17 inc_aggregate: every position of r_i || pk_i || m_i, i < n, is written to the running hash");
        if (nb == 0 && nnew == 0) REACH("inc_aggregate empty");
        #ifndef C17_NBOUND
        if (nb == 0 && nnew == 3 && gb == 40) REACH("aggregate one-shot n = 3");
#else
        if (oneshot && nnew == C17_NBOUND && gb == 40) REACH("aggregate one-shot n = bound");
#endif
#ifndef C17_NBOUND
        if (nb == 1000 && nnew == 1000000 && gb == 32 * 1000 + 31 && wpos == 64 + 96 * 1000 + 3 && alen == 32 * (NMAX + 1)) REACH("inc_aggregate 1000 + 10^6, oversized buffer");
        if (nb == 5 && nnew == 0 && gb == 159) REACH("inc_aggregate nothing new");
#else
        if (nb == 1 && nnew == C17_NBOUND - 1 && gb == 32 + 31 && wpos == 64 + 96 + 3 && alen == 32 * (C17_NBOUND + 2) - 1) REACH("inc_aggregate 1 + rest, oversized buffer");
        if (nb == 2 && nnew == 0 && gb == 63) REACH("inc_aggregate nothing new");
#endif
    } else {
        __CPROVER_assert(g_illegal == 1, "C17 inc_aggregate: well-formed call with enough room fails only on an invalid public key object (illegal callback)");
        if (n > 1) REACH("inc_aggregate invalid key object");
    }
#endif
}

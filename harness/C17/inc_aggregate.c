/* C17: secp256k1_schnorrsig_inc_aggregate (and _aggregate = n_before 0) - gates, output layout and oracle usage,
 * NULL-or-object for each pointer.
 *   rejections (only what the header promises): n_before + n_new wraps => illegal callback and 0 (never out of bounds);
 *      other API misuse => illegal callback and 0;  *aggsig_len < 32*(n+1) => 0;
 *   success (ret = 1) => *aggsig_len = 32*(n+1);  aggsig[32i..32i+32) = old r_i for i < n_before (untouched),
 *      = new_sigs64[64(i-n_before) .. +32) for n_before <= i < n (ghost byte index);  one running hash from the HalfAgg
 *      midstate into which every byte of r_i || be(x(pk_i)) || m_i was written at its position 64+96i.. (ghost position; the
 *      same stream aggverify builds);  for every new signature (ghost index): a randomizer was derived by a finalize at
 *      stream length 64+96(i+1), and for i != 0 the product s_i * z_i was requested (either operand order); z_0 = 1: the
 *      aggregate of one signature (r_0, s_0) is (r_0, s_0 mod n);
 *   completeness: a well-formed call with enough room fails only with an illegal callback (invalid key object).
 * All usage statements are keyed on VALUES (contracts/assumed_C17.h): no call order, no call counts.
 * Variants: C17_NBOUND=k (loops unwound, fixed-capacity objects; counts bounded only for calls that pass the gates),
 * C17_EARLY (only inputs the spec rejects before the first loop; counts and lengths unbounded, exact-size objects). */
#include "assumed_C17.h"
#include "src/secp256k1.c"
#include "post.h"

#ifdef C17_LOOP
#define NMAX ((size_t)1 << 20)     /* loop-contract variant: counts symbolic up to 2^20 each, loops closed by engine-supplied loop contracts */
#else
#define NMAX ((size_t)1 << 40)
#endif
#ifdef C17_NBOUND
#define FOR_IDX(k, v) for (k = 0; k <= C17_NBOUND; k++) if (k == (v))
#else
#define FOR_IDX(k, v) if (((k) = (v)), 1)
#endif

void h_inc_aggregate(void) {
    secp256k1_context ctx;
    INPUT(size_t, nb); INPUT(size_t, nnew); INPUT(size_t, alen); INPUT(size_t, gb); INPUT(size_t, gk); INPUT(uint64_t, wpos); INPUT(_Bool, oneshot);
    INPUT(_Bool, use_agg); INPUT(_Bool, use_len); INPUT(_Bool, use_pk); INPUT(_Bool, use_msgs); INPUT(_Bool, use_sigs);
    unsigned char *aggsig, *msgs, *sigs, gb_exp = 0; secp256k1_xonly_pubkey *pks; size_t n, len, k; int ret, wrap, big, misuse, toosmall;
    if (oneshot) __CPROVER_assume(nb == 0);
    __CPROVER_assume(alen <= 32 * (NMAX + 1));
    n = nb + nnew; wrap = n < nb; big = (nb > NMAX || nnew > NMAX);   /* big: the length can never suffice, the arrays must not be touched */
    toosmall = (W(alen) < 32 * (W(nb) + W(nnew) + 1));
    misuse = !use_agg || !use_len || (!use_sigs && nnew != 0) || wrap || (!use_pk && n != 0) || (!use_msgs && n != 0);
#ifdef C17_NBOUND
    /* BOUNDED stand-in: loops unwound instead of closed by loop contracts; fixed-capacity objects.  The counts are bounded only for
     * calls that get past the gates: count overflow and "buffer too small" are checked for ARBITRARY n_before, n_new */
    __CPROVER_assume(alen <= 32 * (C17_NBOUND + 2));
    __CPROVER_assume((nb <= C17_NBOUND && nnew <= C17_NBOUND - nb) || wrap || toosmall);
    INPUT_ARR(unsigned char, aggbuf, 32 * (C17_NBOUND + 2)); INPUT_ARR(unsigned char, msgbuf, 32 * C17_NBOUND); INPUT_ARR(unsigned char, sigbuf, 64 * C17_NBOUND); INPUT_ARR(secp256k1_xonly_pubkey, pkbuf, C17_NBOUND);
    aggsig = aggbuf; msgs = msgbuf; sigs = sigbuf; pks = pkbuf;
#else
    /* exact-size objects */
    INPUT_BUF(aggw, aggsig, alen, 64);
    pks = malloc((big || wrap || n == 0) ? 1 : n * sizeof(*pks)); msgs = malloc((big || wrap || n == 0) ? 1 : n * 32); sigs = malloc((big || nnew == 0) ? 1 : nnew * 64);
    __CPROVER_assume(pks != NULL && msgs != NULL && sigs != NULL);
#endif
    verif_ctx_init(&ctx); ctx.hash_ctx.fn_sha256_compression = secp256k1_sha256_transform;
    C17_RESET();
    verif_c17_gk = gk; c17_gk_end = 64 + 96 * ((uint64_t)nb + (uint64_t)gk + 1); c17_exp_r = 0; c17_exp_m = 0; c17_exp_px = 0; c17_exp_py = 0; c17_exp_s = 0;
    verif_c17_wpos = wpos; verif_c17_wexp = 0;
#ifndef C17_EARLY
    if (!big && !misuse && !toosmall) {
        if (gb < 32 * n) { if (gb / 32 < nb) gb_exp = aggsig[gb]; else FOR_IDX(k, gb / 32 - nb) gb_exp = sigs[64 * k + gb % 32]; }
        if (gk < nnew) FOR_IDX(k, gk) c17_exp_s = be256(sigs + 64 * k + 32);    /* s of the gk-th NEW signature */
        if (wpos >= 64 && wpos < 64 + 96 * (uint64_t)n) { size_t t = (wpos - 64) / 96, o = (wpos - 64) % 96;
            FOR_IDX(k, t) verif_c17_wexp = o < 32 ? (k < nb ? aggsig[32 * k + o] : sigs[64 * (k - nb) + o]) : o < 64 ? pks[k].data[31 - (o - 32)] : msgs[32 * k + (o - 64)]; }
    }
#else
    /* EARLY-EXIT variant: only calls the specification rejects before the first loop; a call that nevertheless enters a loop trips the unwinding assertion */
    __CPROVER_assume(misuse || toosmall);
#endif
    verif_c17_gb = gb; verif_c17_gb_exp = gb_exp;
    len = alen;
    if (oneshot) ret = secp256k1_schnorrsig_aggregate(&ctx, use_agg ? aggsig : NULL, use_len ? &len : NULL, use_pk ? pks : NULL, use_msgs ? msgs : NULL, use_sigs ? sigs : NULL, nnew);
    else ret = secp256k1_schnorrsig_inc_aggregate(&ctx, use_agg ? aggsig : NULL, use_len ? &len : NULL, use_pk ? pks : NULL, use_msgs ? msgs : NULL, use_sigs ? sigs : NULL, nb, nnew);
#if !defined(C17_NBOUND) && !defined(C17_EARLY)
    WITNESS_BUF(aggw, aggsig, alen, 64);
#endif

    __CPROVER_assert(ret == 0 || ret == 1, "C17 inc_aggregate: returns 0 or 1");
    __CPROVER_assert(g_error == 0, "C17 inc_aggregate: error callback never invoked");
    if (wrap) __CPROVER_assert(ret == 0 && g_illegal >= 1, "C17 inc_aggregate: n_before + n_new overflow reports illegal use and returns 0");
    if (misuse) { __CPROVER_assert(ret == 0 && g_illegal >= 1, "C17 inc_aggregate: API misuse reports illegal use and returns 0");
        if (wrap) REACH("inc_aggregate count overflow");
        REACH("inc_aggregate API misuse"); return; }
    if (toosmall) { __CPROVER_assert(ret == 0, "C17 inc_aggregate: buffer smaller than 32*(n+1) returns 0");
        if (alen == 32 * n && n > 1) REACH("inc_aggregate buffer one slot short");
        if (big) REACH("inc_aggregate huge count");
        return; }
#ifndef C17_EARLY
    if (ret == 1) {
        __CPROVER_assert(g_illegal == 0, "C17 inc_aggregate: success without callback");
        __CPROVER_assert(W(len) == 32 * (W(n) + 1), "C17 inc_aggregate: *aggsig_len = 32*(n+1) on success");
        if (gb < 32 * n) __CPROVER_assert(aggsig[gb] == gb_exp, "C17 inc_aggregate: old r's untouched, new r's copied to slots n_before..n-1");
        if (n > 0) __CPROVER_assert(c17_init_n >= 1 && verif_c17_bad == 0, "C17 inc_aggregate: success => running hash initialised from the HalfAgg midstate; no watched stream position written with a wrong byte");
        if (wpos >= 64 && wpos < 64 + 96 * (uint64_t)n) __CPROVER_assert(verif_c17_whit, "C17 inc_aggregate: success => every position of r_i || pk_i || m_i, i < n, is written to the running hash");
        if (gk < nnew) {
            __CPROVER_assert(c17_fin_hit, "C17 inc_aggregate: success => a randomizer was derived from the running hash at length 64+96(i+1) for every new signature");
            if (nb + gk != 0) __CPROVER_assert(c17_mul_hit, "C17 inc_aggregate: success => the product s_i * z_i (either order) was requested for every new signature i != 0");
            /* z_0 = 1: the aggregate of the single signature (r_0, s_0) is (r_0, s_0 mod n) - unless the code chose to multiply by one through the oracle */
#ifndef C17_LOOP   /* needs the value of the accumulator after the loop, which a loop contract abstracts away */
            else if (nnew == 1) __CPROVER_assert(be256(aggsig + 32) == c17_redn(c17_exp_s) || c17_mul_one_hit || (c17_mul_hit && C17_Z == 1), "C17 inc_aggregate: success => aggregating the single signature (r_0, s_0) gives s = s_0 mod n (z_0 = 1)");
#endif
        }
        if (nb == 0 && nnew == 0) REACH("inc_aggregate empty");
#ifndef C17_NBOUND
        if (nb == 0 && nnew == 3 && gb == 40) REACH("aggregate one-shot n = 3");
        if (nb == 1000 && nnew == 1000000 && gb == 32 * 1000 + 31 && wpos == 64 + 96 * 1000 + 3 && alen == 32 * (NMAX + 1)) REACH("inc_aggregate 1000 + 10^6, oversized buffer");
#else
        if (oneshot && nnew == C17_NBOUND && gb == 40 && gk == 0) REACH("aggregate one-shot n = bound, first signature");
        if (nb == 1 && nnew == C17_NBOUND - 1 && gk == 0 && gb == 32 + 31 && wpos == 64 + 96 + 3 && alen == 32 * (C17_NBOUND + 2) - 1) REACH("inc_aggregate 1 + rest, oversized buffer");
        if (nb == C17_NBOUND && nnew == 0 && gb == 63) REACH("inc_aggregate nothing new");
#endif
    } else {
        __CPROVER_assert(g_illegal >= 1, "C17 inc_aggregate: well-formed call with enough room fails only on an invalid public key object (illegal callback)");
        if (n > 1) REACH("inc_aggregate invalid key object");
    }
#endif
}

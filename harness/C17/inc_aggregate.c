/* C17: secp256k1_schnorrsig_inc_aggregate (and _aggregate = n_before 0) - gates and output layout for EVERY
 * n_before, n_new, every buffer length, NULL-or-object for each pointer; every array has its EXACT size.
 *   n_before + n_new wraps => illegal callback and 0 (never UB / out-of-bounds);
 *   *aggsig_len < 32*(n+1) => 0, nothing reported, length untouched;
 *   ret = 1 => *aggsig_len = 32*(n+1);  aggsig[32i..32i+32) = old r_i for i < n_before (untouched),
 *              = new_sigs64[64(i-n_before) .. +32) for n_before <= i < n   (ghost byte index);
 *   ret = 0 on well-formed arguments with enough room only if a public key object was invalid (illegal callback).
 * The three loops are closed by the loop contracts in hooks/C17_halfagg_loops.diff. */
#include "assumed_C17.h"
#include "src/secp256k1.c"
#include "post.h"

#define NMAX ((size_t)1 << 40)

void h_inc_aggregate(void) {
    secp256k1_context ctx;
    INPUT(size_t, nb); INPUT(size_t, nnew); INPUT(size_t, alen); INPUT(size_t, gb); INPUT(_Bool, oneshot);
    INPUT(_Bool, use_agg); INPUT(_Bool, use_len); INPUT(_Bool, use_pk); INPUT(_Bool, use_msgs); INPUT(_Bool, use_sigs);
    unsigned char *aggsig, *msgs, *sigs; secp256k1_xonly_pubkey *pks; size_t n, len; int ret, wrap, big, misuse, toosmall;
    if (oneshot) __CPROVER_assume(nb == 0);
    __CPROVER_assume(alen <= 32 * (NMAX + 1));
    n = nb + nnew; wrap = n < nb; big = (nb > NMAX || nnew > NMAX);   /* big: the length can never suffice, the arrays must not be touched */
    INPUT_BUF(aggw, aggsig, alen, 96);
    pks = malloc((big || n == 0) ? 1 : n * sizeof(*pks)); msgs = malloc((big || n == 0) ? 1 : n * 32); sigs = malloc((big || nnew == 0) ? 1 : nnew * 64);
    __CPROVER_assume(pks != NULL && msgs != NULL && sigs != NULL);
    verif_ctx_init(&ctx); ctx.hash_ctx.fn_sha256_compression = secp256k1_sha256_transform;
    HASHLOG_RESET(); g_we = -1; g_wpos = 0; verif_c17_bad = 0;
    toosmall = (W(alen) < 32 * (W(nb) + W(nnew) + 1));
    verif_c17_gb = gb; verif_c17_gb_exp = 0;
    if (!big && !wrap && !toosmall && gb < 32 * n) verif_c17_gb_exp = (gb / 32 < nb) ? aggsig[gb] : sigs[64 * (gb / 32 - nb) + gb % 32];
    len = alen;

    if (oneshot) ret = secp256k1_schnorrsig_aggregate(&ctx, use_agg ? aggsig : NULL, use_len ? &len : NULL, use_pk ? pks : NULL, use_msgs ? msgs : NULL, use_sigs ? sigs : NULL, nnew);
    else ret = secp256k1_schnorrsig_inc_aggregate(&ctx, use_agg ? aggsig : NULL, use_len ? &len : NULL, use_pk ? pks : NULL, use_msgs ? msgs : NULL, use_sigs ? sigs : NULL, nb, nnew);
    WITNESS_BUF(aggw, aggsig, alen, 96);

    __CPROVER_assert(ret == 0 || ret == 1, "C17 inc_aggregate: returns 0 or 1");
    __CPROVER_assert(g_error == 0, "C17 inc_aggregate: error callback never invoked");
    if (wrap) __CPROVER_assert(ret == 0 && g_illegal == 1, "C17 inc_aggregate: n_before + n_new overflow reports illegal use and returns 0");
    misuse = !use_agg || !use_len || (!use_sigs && nnew != 0) || wrap || (!use_pk && n != 0) || (!use_msgs && n != 0);
    if (misuse) { __CPROVER_assert(ret == 0 && g_illegal == 1 && len == alen && g_fin_n == 0 && g_h_fresh == 1, "C17 inc_aggregate: API misuse reports illegal use, returns 0, aggregates nothing"); if (wrap) REACH("inc_aggregate count overflow"); REACH("inc_aggregate API misuse"); return; }
    if (toosmall) { __CPROVER_assert(ret == 0 && g_illegal == 0 && len == alen && g_h_fresh == 1, "C17 inc_aggregate: buffer smaller than 32*(n+1) returns 0 and touches nothing");
        if (alen == 32 * n && n > 2) REACH("inc_aggregate buffer one slot short"); if (big) REACH("inc_aggregate huge count"); return; }
    if (ret == 1) {
        __CPROVER_assert(g_illegal == 0, "C17 inc_aggregate: success without callback");
        __CPROVER_assert(W(len) == 32 * (W(n) + 1), "C17 inc_aggregate: *aggsig_len = 32*(n+1) on success");
        if (gb < 32 * n) __CPROVER_assert(aggsig[gb] == verif_c17_gb_exp, "C17 inc_aggregate: old r's untouched, new r's copied to slots n_before..n-1");
        if (nb == 0 && nnew == 0) REACH("inc_aggregate empty");
        if (nb == 0 && nnew == 3 && gb == 40) REACH("aggregate one-shot n = 3");
        if (nb == 1000 && nnew == 1000000 && gb == 32 * 1000 + 31 && alen == 32 * (NMAX + 1)) REACH("inc_aggregate 1000 + 10^6, oversized buffer");
        if (nb == 5 && nnew == 0 && gb == 159) REACH("inc_aggregate nothing new");
    } else {
        __CPROVER_assert(g_illegal == 1, "C17 inc_aggregate: well-formed call with enough room fails only on an invalid public key object (illegal callback)");
        if (n > 3) REACH("inc_aggregate invalid key object");
    }
}

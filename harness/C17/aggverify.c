/* C17: secp256k1_schnorrsig_aggverify - gates and oracle usage of half-aggregate verification, every aggregate byte
 * string of every length, NULL-or-object for each pointer, exact-size objects.
 *   rejections (only the RESULT is demanded): aggsig_len != 32*(n+1) => 0;  API misuse => illegal callback, 0;
 *   accept (ret = 1) =>  s = aggsig[32n..] < group order;  for every i < n (ghost index): r_i < p; lift_x was asked about
 *      x = r_i with even y and never answered 0 for it; the challenge oracle was asked about (r_i, m_i, 32 bytes, be(x(pk_i)))
 *      and its answer e_i multiplied P_i; T_i = e_i*P_i + R_i was formed; a randomizer z_i was derived by a finalize at stream length
 *      64+96(i+1); for i != 0 z_i*T_i entered the sum, for i = 0 T_0 itself (multiplication skipped, or by 1); every byte of r_i || be(x(pk_i)) || m_i was written
 *      at its position 64+96i.. of the running hash (ghost position), which was initialised from the HalfAgg midstate;
 *      lhs = s*G for exactly that s and the comparison addition involving it answered "infinity" (or n = 0 and s = 0);
 *   completeness of the final step: comparison says infinity, no lift rejected, s in range, no invalid key object => 1.
 * All usage statements are keyed on VALUES (contracts/assumed_C17.h): no call order, no call counts.
 * Variants: C17_NBOUND=k (loop unwound, n <= k: the listed units), C17_EARLY (only inputs the spec rejects before the loop;
 * n unbounded).  Unbounded n with the loop closed by a loop contract: undecided, see engine/units/C17.py. */
#include "assumed_C17.h"
#include "src/secp256k1.c"
#include "post.h"

#ifdef C17_LOOP
#define NMAX ((size_t)1 << 20)     /* loop-contract variant: n symbolic up to 2^20 (object sizes), loop closed by the engine-supplied loop contract */
#else
#define NMAX ((size_t)1 << 40)
#endif
/* reads of the caller's (symbolic-size) arrays at a symbolic signature index: in the bounded variant the index is
 * enumerated so that every read has a constant offset (array theory cost) */
#ifdef C17_NBOUND
#define FOR_IDX(k, v) for (k = 0; k <= C17_NBOUND; k++) if (k == (v))
#else
#define FOR_IDX(k, v) if (((k) = (v)), 1)
#endif

void h_aggverify(void) {
    secp256k1_context ctx;
    INPUT(size_t, n); INPUT(size_t, alen); INPUT(size_t, gk); INPUT(uint64_t, wpos);
    INPUT(_Bool, use_pk); INPUT(_Bool, use_msgs); INPUT(_Bool, use_agg); INPUT(_Bool, built);
    unsigned char *aggsig, *msgs; secp256k1_xonly_pubkey *pks; size_t nn, k; int ret, args_ok, len_ok;
    wide nw = N_(), p = P_(), sv = 0;
    __CPROVER_assume(alen <= 32 * (NMAX + 1));
#ifdef C17_NBOUND
    __CPROVER_assume(n <= C17_NBOUND);   /* BOUNDED stand-in: the loop over n is unwound instead of closed by a loop contract */
#endif
    nn = n <= NMAX ? n : 0;     /* for n > NMAX the length can never match: the arrays must not be touched at all */
    INPUT_BUF(aggw, aggsig, alen, 64);
    pks = malloc(nn ? nn * sizeof(*pks) : 1); msgs = malloc(nn ? nn * 32 : 1);
    __CPROVER_assume(pks != NULL && msgs != NULL);
    verif_ctx_init(&ctx); ctx.hash_ctx.fn_sha256_compression = secp256k1_sha256_transform; ctx.ecmult_gen_ctx.built = built;
    C17_RESET();
    len_ok = (W(alen) == 32 * (W(n) + 1));
    args_ok = (use_pk || n == 0) && (use_msgs || n == 0) && use_agg && built;
    verif_c17_gk = gk; c17_gk_end = 64 + 96 * ((uint64_t)gk + 1); c17_exp_r = 0; c17_exp_m = 0; c17_exp_px = 0; c17_exp_py = 0; c17_exp_s = 0;
    verif_c17_wpos = wpos; verif_c17_wexp = 0; c17_r_ok = 1; c17_pk_canon = 0;
#ifndef C17_EARLY   /* the early-exit variant never reaches the loop: no expectation about array contents is needed (and no symbolic-index reads) */
    if (len_ok && gk < n) FOR_IDX(k, gk) { c17_exp_r = be256(aggsig + 32 * k); c17_exp_m = be256(msgs + 32 * k); c17_exp_px = c17_le256(pks[k].data); c17_exp_py = c17_le256(pks[k].data + 32); }
    c17_r_ok = (c17_exp_r < p); c17_pk_canon = (c17_exp_px < p && c17_exp_py < p);
    if (len_ok) FOR_IDX(k, n) sv = be256(aggsig + 32 * k);
    /* expected byte at stream position wpos of the running hash: signature t = (wpos-64)/96, r_t || be(x(pk_t)) || m_t */
    if (len_ok && wpos >= 64 && wpos < 64 + 96 * (uint64_t)n) { size_t t = (wpos - 64) / 96, o = (wpos - 64) % 96;
        FOR_IDX(k, t) verif_c17_wexp = o < 32 ? aggsig[32 * k + o] : o < 64 ? pks[k].data[31 - (o - 32)] : msgs[32 * k + (o - 64)]; }
#else
    /* EARLY-EXIT variant: only calls the specification rejects before the loop (misuse or wrong length), n and the length unbounded;
     * a call that nevertheless enters the loop trips the unwinding assertion */
    __CPROVER_assume(!args_ok || !len_ok);
#endif
    ret = secp256k1_schnorrsig_aggverify(&ctx, use_pk ? pks : NULL, use_msgs ? msgs : NULL, n, use_agg ? aggsig : NULL, alen);
    WITNESS_BUF(aggw, aggsig, alen, 64);

    __CPROVER_assert(ret == 0 || ret == 1, "C17 aggverify: returns 0 or 1");
    __CPROVER_assert(g_error == 0, "C17 aggverify: error callback never invoked");
    if (!args_ok) { __CPROVER_assert(ret == 0 && g_illegal >= 1, "C17 aggverify: API misuse reports illegal use and returns 0"); REACH("aggverify API misuse"); return; }
    if (!len_ok) { __CPROVER_assert(ret == 0, "C17 aggverify: aggsig_len != 32*(n+1) is rejected");
        if (alen == 32 * n) REACH("aggverify length for n-1"); if (alen % 32 == 5 && alen / 32 == n + 1) REACH("aggverify length not a multiple of 32");
#ifndef C17_NBOUND
        if (n > NMAX) REACH("aggverify huge n");
#endif
        return; }
#ifndef C17_EARLY
    if (ret == 1) {
        __CPROVER_assert(g_illegal == 0, "C17 aggverify: accept without any callback");
        __CPROVER_assert(sv < nw, "C17 aggverify: s >= group order is rejected");
        __CPROVER_assert((g_gen_n == 1 && sval(&g_gen_a0) == sv && c17_cmp_hit && c17_cmp_inf == 1) || (n == 0 && sv == 0), "C17 aggverify: accept => lhs = s*G for s = the last 32 bytes and the comparison with it answered infinity (or n = 0 and s = 0)");
        if (n > 0) __CPROVER_assert(c17_init_n >= 1 && verif_c17_bad == 0, "C17 aggverify: accept => running hash initialised from the HalfAgg midstate; no watched stream position written with a wrong byte");
        if (wpos >= 64 && wpos < 64 + 96 * (uint64_t)n) __CPROVER_assert(verif_c17_whit, "C17 aggverify: accept => every position of r_i || pk_i || m_i, i < n, is written to the running hash");
        if (gk < n) {
            __CPROVER_assert(c17_exp_r < p, "C17 aggverify: accept => every r_i < p");
            __CPROVER_assert(c17_xo_hit && !c17_xo_rej, "C17 aggverify: accept => lift_x was asked about x = r_i (even y) and did not reject it");
            __CPROVER_assert(c17_ch_hit, "C17 aggverify: accept => challenge asked about (r_i, m_i, 32 bytes, be(x(pk_i)))");
            if (c17_exp_px < p && c17_exp_py < p) __CPROVER_assert(c17_em_e_hit, "C17 aggverify: accept => e_i (the challenge answer) multiplied P_i");
            __CPROVER_assert(c17_fin_hit, "C17 aggverify: accept => a randomizer was derived from the running hash at length 64+96(i+1)");
            if (c17_exp_px < p && c17_exp_py < p) {
                __CPROVER_assert(c17_T_hit, "C17 aggverify: accept => T_i = e_i*P_i + R_i was formed (R_i: the lifted point with x = r_i)");
                if (gk != 0) __CPROVER_assert(c17_em_z_hit && c17_acc_z, "C17 aggverify: accept => z_i = digest mod n multiplied T_i and the product entered the sum, i != 0");
                else __CPROVER_assert(c17_acc_plain || (c17_acc_z && C17_Z == 1), "C17 aggverify: accept => T_0 entered the sum with z_0 = 1 (multiplication skipped, or by one)");
            }
        }
    }
    if (c17_cmp_hit && c17_cmp_inf == 1 && !c17_xo_anyrej && sv < nw && g_illegal == 0 && g_gen_n == 1 && sval(&g_gen_a0) == sv)
        __CPROVER_assert(ret == 1, "C17 aggverify: comparison says infinity, no lift rejected, s in range, no invalid key object => accepted");
    if (ret == 1 && n == 0) REACH("aggverify accepts n = 0");
    if (ret == 1 && n == 1) REACH("aggverify accepts n = 1");
#ifndef C17_NBOUND
    if (ret == 1 && n == 1000000 && gk == 999999 && wpos == 64 + 96 * 999999 + 40) REACH("aggverify accepts n = 10^6");
#else
    if (ret == 1 && n == C17_NBOUND && gk == n - 1 && wpos == 64 + 96 * (n - 1) + 40) REACH("aggverify accepts n = bound, last signature");
    if (ret == 1 && n == C17_NBOUND && gk == 0 && wpos == 64 + 33) REACH("aggverify accepts n = bound, first signature");
#endif
    if (ret == 0 && c17_cmp_hit) REACH("aggverify rejects at the final comparison");
    if (ret == 0 && g_gen_n == 0 && sv >= nw && !c17_xo_anyrej && g_illegal == 0) REACH("aggverify rejects s >= n");
    if (ret == 0 && c17_xo_rej && n > 1) REACH("aggverify rejects on a lift verdict");
    if (ret == 0 && gk < n && n > 1 && gk == 1 && c17_exp_r >= p) REACH("aggverify rejects r_1 >= p");
    if (ret == 0 && g_illegal >= 1) REACH("aggverify invalid key object");
#endif
}

/* C17: secp256k1_schnorrsig_aggverify - gates of half-aggregate verification for EVERY count n, every
 * aggregate byte string of every length, NULL-or-object for each pointer.
 *   accepts only if aggsig_len == 32*(n+1) exactly (mismatch: returns 0 before touching any array);
 *   ret = 1 => for every i < n: r_i < p, the lift_x oracle was asked about exactly x = r_i (even y) and said yes,
 *              the challenge oracle received (r_i, m_i, 32, be(x(pk_i)));
 *   s = aggsig[32n..32n+32) >= group order => 0;   lhs = s*G for exactly that s;
 *   ret = the "is infinity" verdict of the final group addition;
 *   every index i*32, n*32 stays inside the caller's objects (objects have EXACT sizes here), for all n.
 * Randomizer wiring (same run): the running hash starts from the HalfAgg/randomizer midstate (one init call),
 * iteration i appends exactly r_i || be(x(pk_i)) || m_i at stream positions 64+96i.. (ghost position), z_i is the
 * digest (mod n) of a finalize at stream length 64+96(i+1), and is the multiplier of T_i = R_i + e_i*P_i for
 * i != 0 (z_0 unused); e_i is the challenge oracle's answer and multiplies exactly P_i.
 * The loop over n is closed by the loop contract in hooks/C17_halfagg_loops.diff. */
#include "assumed_C17.h"
#include "src/secp256k1.c"
#include "post.h"

#define NMAX ((size_t)1 << 40)
/* reads of the caller's (symbolic-size) arrays at a symbolic signature index: in the bounded variant the index is
 * enumerated so that every read has a constant offset (array theory cost) */
#ifdef C17_NBOUND
#define FOR_IDX(k, v) for (k = 0; k <= C17_NBOUND; k++) if (k == (v))
#else
#define FOR_IDX(k, v) k = (v);
#endif

void h_aggverify(void) {
    secp256k1_context ctx;
    INPUT(size_t, n); INPUT(size_t, alen); INPUT(size_t, gk); INPUT(uint64_t, wpos);
    INPUT(_Bool, use_pk); INPUT(_Bool, use_msgs); INPUT(_Bool, use_agg); INPUT(_Bool, built);
    unsigned char *aggsig, *msgs; secp256k1_xonly_pubkey *pks; size_t nn, k; int ret, args_ok, len_ok;
    wide nw = N_(), p = P_(), sv = 0;
    __CPROVER_assume(alen <= 32 * (NMAX + 1));
#ifdef C17_NBOUND
    __CPROVER_assume(n <= C17_NBOUND);   /* BOUNDED stand-in: the loop over n is unwound instead of closed by its loop contract */
#endif
    nn = n <= NMAX ? n : 0;     /* for n > NMAX the length can never match: the arrays must not be touched at all */
    INPUT_BUF(aggw, aggsig, alen, 64);
    pks = malloc(nn ? nn * sizeof(*pks) : 1); msgs = malloc(nn ? nn * 32 : 1);
    __CPROVER_assume(pks != NULL && msgs != NULL);
    verif_ctx_init(&ctx); ctx.hash_ctx.fn_sha256_compression = secp256k1_sha256_transform; ctx.ecmult_gen_ctx.built = built;
    g_gen_n = 0; c17_last_inf = 0; c17_phase = 0; c17_init_n = 0; c17_mode = 0;
    c17_aggsig = aggsig; c17_msgs = msgs; c17_pks = pks; c17_n = n; c17_nb = 0; c17_sigs = NULL;
    verif_c17_xo_n = 0; verif_c17_fin_n = 0; verif_c17_bad = 0; verif_c17_rej = 0; verif_c17_whit = 0;
    len_ok = (W(alen) == 32 * (W(n) + 1));
    verif_c17_gk = gk; verif_c17_gk_ok = 1; c17_exp_r = 0; c17_exp_px = 0; c17_exp_py = 0; c17_exp_s = 0;
#ifndef C17_EARLY   /* the early-exit variant never reaches the loop: no expectation about array contents is needed (and no symbolic-index reads) */
    if (len_ok && gk < n) FOR_IDX(k, gk) { c17_exp_r = be256(aggsig + 32 * k); c17_exp_px = c17_le256(pks[k].data); c17_exp_py = c17_le256(pks[k].data + 32); verif_c17_gk_ok = (c17_exp_r < p); }
    if (len_ok) FOR_IDX(k, n) sv = be256(aggsig + 32 * k);
    /* expected byte at stream position wpos of the running hash: signature t = (wpos-64)/96, r_t || be(x(pk_t)) || m_t */
    verif_c17_wpos = wpos; verif_c17_wexp = 0;
    if (len_ok && wpos >= 64 && wpos < 64 + 96 * (uint64_t)n) { size_t t = (wpos - 64) / 96, o = (wpos - 64) % 96;
        FOR_IDX(k, t) verif_c17_wexp = o < 32 ? aggsig[32 * k + o] : o < 64 ? pks[k].data[31 - (o - 32)] : msgs[32 * k + (o - 64)]; }
#endif

#ifdef C17_EARLY
    /* EARLY-EXIT variant: only calls the specification rejects before the loop (misuse or wrong length), n and the length unbounded;
     * a call that nevertheless enters the loop trips the unwinding assertion */
    __CPROVER_assume(!((use_pk || n == 0) && (use_msgs || n == 0) && use_agg && built) || !len_ok);
#endif
    ret = secp256k1_schnorrsig_aggverify(&ctx, use_pk ? pks : NULL, use_msgs ? msgs : NULL, n, use_agg ? aggsig : NULL, alen);
    WITNESS_BUF(aggw, aggsig, alen, 64);

    __CPROVER_assert(ret == 0 || ret == 1, "C17 aggverify: returns 0 or 1");
    __CPROVER_assert(g_error == 0, "C17 aggverify: error callback never invoked");
    args_ok = (use_pk || n == 0) && (use_msgs || n == 0) && use_agg && built;
    if (!args_ok) { __CPROVER_assert(ret == 0 && g_illegal == 1 && verif_c17_xo_n == 0 && g_gen_n == 0, "C17 aggverify: API misuse reports illegal use, returns 0, verifies nothing"); REACH("aggverify API misuse"); return; }
    __CPROVER_assert(g_illegal == 0 || (ret == 0 && len_ok && n > 0), "C17 aggverify: no callback on well-formed arguments, except for an invalid public key object met while verifying (then 0)");
    if (!len_ok) { __CPROVER_assert(ret == 0 && verif_c17_xo_n == 0 && g_gen_n == 0 && verif_c17_fin_n == 0 && verif_c17_whit == 0, "C17 aggverify: aggsig_len != 32*(n+1) is rejected before anything is read");
        if (alen == 32 * n) REACH("aggverify length for n-1"); if (alen % 32 == 5 && alen / 32 == n + 1) REACH("aggverify length not a multiple of 32"); 
#ifndef C17_NBOUND
        if (n > NMAX) REACH("aggverify huge n");
#endif
        return; }
#ifndef C17_EARLY
    if (ret == 1) {
        __CPROVER_assert(verif_c17_xo_n == n && verif_c17_bad == 0 && verif_c17_rej == 0, "C17 aggverify: accept => n lifts, each of exactly x = r_i with even y, each successful; each challenge on (r_i, m_i, 32, pk_i); e_i*P_i, z_i = digest_i mod n (i != 0); hash bytes as specified");
        __CPROVER_assert(verif_c17_fin_n == n && c17_init_n == 1, "C17 aggverify: one randomizer per signature, one running hash initialised once");
        if (wpos >= 64 && wpos < 64 + 96 * (uint64_t)n) __CPROVER_assert(verif_c17_whit, "C17 aggverify: every position of r_i || pk_i || m_i, i < n, is written to the running hash");
        if (gk < n) __CPROVER_assert(c17_exp_r < p, "C17 aggverify: accept => every r_i < p");
        __CPROVER_assert(sv < nw, "C17 aggverify: s >= group order is rejected");
        __CPROVER_assert(g_gen_n == 1 && sval(&g_gen_a0) == sv, "C17 aggverify: lhs = s*G for s = the last 32 bytes");
    }
    if (g_gen_n == 1) __CPROVER_assert(ret == c17_last_inf, "C17 aggverify: result is the infinity verdict of lhs - rhs");
    else __CPROVER_assert(ret == 0, "C17 aggverify: no acceptance without the final comparison");
    if (g_gen_n == 1 && verif_c17_xo_n == n) __CPROVER_assert(verif_c17_bad == 0 && verif_c17_rej == 0 && verif_c17_fin_n == n, "C17 aggverify: the final comparison is reached only after n successful, correctly wired iterations");
    if (ret == 1 && n == 0) REACH("aggverify accepts n = 0");
    if (ret == 1 && n == 1) REACH("aggverify accepts n = 1");
#ifndef C17_NBOUND
    if (ret == 1 && n == 1000000 && gk == 999999 && wpos == 64 + 96 * 999999 + 40) REACH("aggverify accepts n = 10^6");
    if (ret == 0 && verif_c17_rej == 1 && n > 5) REACH("aggverify rejects on a lift verdict, n > 5");
#else
    if (ret == 1 && n == C17_NBOUND && gk == n - 1 && wpos == 64 + 96 * (n - 1) + 40) REACH("aggverify accepts n = bound");
#endif
    if (ret == 0 && g_gen_n == 1) REACH("aggverify rejects at the final comparison");
    if (ret == 0 && g_gen_n == 0 && verif_c17_xo_n == n && verif_c17_rej == 0) REACH("aggverify rejects s >= n");
    if (ret == 0 && verif_c17_rej == 1 && n > 1) REACH("aggverify rejects on a lift verdict");
    if (ret == 0 && gk < n && n > 2 && gk == 1 && c17_exp_r >= p) REACH("aggverify rejects r_1 >= p");
#endif
}

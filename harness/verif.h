/* Included first by every harness.  Same file serves the verifier (goto-cc) and the native
 * replay build (clang -DVERIF_NATIVE): natively the contract clauses vanish, assertions are
 * evaluated on the real code, and INPUT() loads the counterexample bytes. */
#ifndef VERIF_H
#define VERIF_H
#include "cfg.h"
#include <stddef.h>
#include <stdint.h>
#include <string.h>
#include <stdlib.h>
#ifdef VERIF_NATIVE
# include <stdio.h>
# define __CPROVER_requires(...)
# define __CPROVER_ensures(...)
# define __CPROVER_assigns(...)
# define __CPROVER_frees(...)
void verif_fail(const char *msg);
void verif_assume_fail(const char *msg);
void verif_reach(const char *msg);
int verif_load(const char *name, void *p, size_t n);
# define __CPROVER_assert(c, msg) do { if (!(c)) verif_fail(msg); } while (0)
# define __CPROVER_assume(c) do { if (!(c)) verif_assume_fail(#c); } while (0)
# define REACH(msg) verif_reach(msg)
# define INPUT(T, name) T name; verif_load(#name, &name, sizeof(name))
# define INPUT_ARR(E, name, n) E name[n]; verif_load(#name, name, sizeof(name))
# define GHOST_ONLY(x)
#else
# define REACH(msg) __CPROVER_assert(0, "REACH:" msg)
# define INPUT(T, name) T nondet_in_##name(void); T name = nondet_in_##name()
# define INPUT_ARR(E, name, n) E name[n]; struct name##_s { E a[n]; }; struct name##_s nondet_in_##name(void); \
    struct name##_s name##_v = nondet_in_##name(); __builtin_memcpy(name, &name##_v, sizeof(name))
# define GHOST_ONLY(x) x
#endif
#endif

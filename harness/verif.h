/* Included first by every harness.  Same file serves the verifier (goto-cc) and the native
 * replay build (clang -DVERIF_NATIVE): natively the contract clauses vanish, assertions are
 * evaluated on the real code, and INPUT() loads the counterexample bytes. */
#ifndef VERIF_H
#define VERIF_H
#include "cfg.h"
#include <stddef.h>
#include <stdint.h>
#include <string.h>
#include <stdlib.h>
#ifdef VERIF_NATIVE
# include <stdio.h>
# define __CPROVER_requires(...)
# define __CPROVER_ensures(...)
# define __CPROVER_assigns(...)
# define __CPROVER_frees(...)
void verif_fail(const char *msg);
void verif_assume_fail(const char *msg);
void verif_reach(const char *msg);
int verif_load(const char *name, void *p, size_t n);
# define __CPROVER_assert(c, msg) do { if (!(c)) verif_fail(msg); } while (0)
# define __CPROVER_assume(c) do { if (!(c)) verif_assume_fail(#c); } while (0)
# define REACH(msg) verif_reach(msg)
# define INPUT(T, name) T name; verif_load(#name, &name, sizeof(name))
# define INPUT_ARR(E, name, n) E name[n]; verif_load(#name, name, sizeof(name))
# define GHOST_ONLY(x)
/* input byte buffer of symbolic length: natively a heap block holding the first N witnessed bytes */
# define INPUT_BUF(name, ptr, len, N) do { unsigned char name##_t[N]; size_t name##_l = (len); ptr = calloc(name##_l + 1, 1); \
    verif_load(#name, name##_t, N); memcpy(ptr, name##_t, name##_l < (N) ? name##_l : (N)); } while (0)
# define WITNESS_BUF(name, ptr, len, N)
#else
# define REACH(msg) __CPROVER_assert(0, "REACH:" msg)
# define INPUT(T, name) T nondet_in_##name(void); T name = nondet_in_##name()
# define INPUT_ARR(E, name, n) E name[n]; struct name##_s { E a[n]; }; struct name##_s nondet_in_##name(void); \
    struct name##_s name##_v = nondet_in_##name(); memcpy(name, &name##_v, sizeof(name))
# define GHOST_ONLY(x) x
/* verifier side: a fresh heap object of exactly len bytes with unconstrained content (cheap for the
 * solver); WITNESS_BUF, placed after the call under test, copies the first N bytes into a variable
 * the trace extractor recognises as the value of input `name`. */
# define INPUT_BUF(name, ptr, len, N) do { ptr = malloc(len); __CPROVER_assume(ptr != NULL); } while (0)   /* malloc(0) is a valid zero-size object: any dereference fails the pointer check */
# define WITNESS_BUF(name, ptr, len, N) struct name##_w { unsigned char a[N]; } name##_tmp; \
    { size_t name##_k; for (name##_k = 0; name##_k < (N); name##_k++) name##_tmp.a[name##_k] = (name##_k < (len)) ? (ptr)[name##_k] : 0; } \
    struct name##_w return_value_nondet_in_##name = name##_tmp; (void)return_value_nondet_in_##name
#endif
#endif

/* C09: secp256k1_rangeproof_sign_impl - gates, size bound, array capacities, seeding of the
 * deterministic random stream, and the header round trip sign -> getheader, for EVERY
 * (value, min_value, exp, min_bits, blind, nonce, message, extra_commit, output buffer size).
 *   h_sign_gates    : documented-invalid parameters => 0; blind >= n => 0; message capacity; buffer size;
 *                     ret = 1 => *plen = exact length formula <= input *plen and <= rangeproof_max_size;
 *                     every index into pubs/s/sec/k/prep/proof in bounds (generated obligations and the
 *                     capacity preconditions of the oracle contracts); genrand seed arguments
 *   h_sign_header   : the header bytes sign_impl writes are accepted by the REAL getheader_impl and give
 *                     min' <= value <= max' (max' not wrapping), mantissa/exp/ring layout = what signing used.
 *                     Compiled once per resulting exponent (EXPCASE = 0..18; a case split on an output, the
 *                     exact-value header belongs to EXPCASE 0) because the solver cannot do it in one piece.
 * Oracles (assumed; DFCC contract: genrand with seed capture; call-site stubs: pedersen_ecmult, ge_set_gej_var,
 * fe_is_square_var, borromean_sign); pub_expand by its DFCC call-site contract; sha256 by the stream stubs;
 * scalar_get_b32 and memcpy by stubs whose frame is the whole destination object (bounds = obligation).
 * Because of that over-approximated frame the header bytes are judged as captured when the random stream
 * is seeded (all header bytes are written before that point). */
#define RP_STUB_ISSQUARE
#define RP_STUB_PED
#define RP_STUB_BORRO_SIGN
#define RP_STUB_SET_GEJ
#define RP_STUB_SHA
#define RP_STUB_GET_B32
#define RP_STUB_MEMCPY
#define RP_PUB_EXPAND
#define RP_GENRAND
#include "assumed_rangeproof.h"
#include "src/secp256k1.c"
#include "post.h"

static const unsigned char RP_N[32] = {0xFF,0xFF,0xFF,0xFF,0xFF,0xFF,0xFF,0xFF,0xFF,0xFF,0xFF,0xFF,0xFF,0xFF,0xFF,0xFE,0xBA,0xAE,0xDC,0xE6,0xAF,0x48,0xA0,0x3B,0xBF,0xD2,0x5E,0x8C,0xD0,0x36,0x41,0x41};
static int b32_lt(const unsigned char *b, const unsigned char *c) {
    int i, lt = 0, dec = 0;
    for (i = 0; i < 32; i++) if (!dec && b[i] != c[i]) { lt = b[i] < c[i]; dec = 1; }
    return lt;
}
#define MAXP 6000
#define MAXM 10000
#define MAXE 100000
/* MAXMAN < 64 gives a BOUNDED stand-in (quick tier): value - min_value < 2^MAXMAN and min_bits <= MAXMAN, so that
 * at most (MAXMAN+1)/2 rings are signed; the unbounded units (thorough tier) are the same harness with MAXMAN = 64. */
#ifndef MAXMAN
#define MAXMAN 64
#endif
#define BOUND_MANTISSA(value, min_value, min_bits) __CPROVER_assume(MAXMAN >= 64 || (min_bits <= MAXMAN && (min_value > value || (value - min_value) >> MAXMAN == 0)))
#define MAXRINGS_B ((MAXMAN + 1) / 2)

static void sg_reset(size_t gk, size_t gb) {
    g_sq_n = 0; g_sq_hit = 0; g_sq_watch = 0; g_pd_n = 0; g_pd_hit = 0; g_pd_watch = (int)gk; g_pe_n = 0; g_bs_n = 0; g_gr_n = 0; g_gb_n = 0; g_sg_n = 0; g_sg_hit = 0; g_sg_watch = -1; g_sg_by_value = 0;
    g_rp_k = gk; g_rp_b = gb; HASHLOG_RESET(); g_we = 0; g_wpos = 0;
}
/* ring layout the VERIFIER derives from a header mantissa (rangeproof_impl.h verify_impl / proof format) */
static size_t v_rings(int mantissa) { return mantissa ? ((size_t)mantissa + 1) / 2 : 1; }
static size_t v_npub(int mantissa) { return mantissa ? 2 * (size_t)mantissa : 1; }
static size_t v_rsize(int mantissa, size_t k) { return mantissa == 0 ? 1 : ((k == v_rings(mantissa) - 1 && (mantissa & 1)) ? 2 : 4); }

void h_sign_gates(void) {
    INPUT(size_t, plen_in); INPUT(uint64_t, min_value); INPUT(uint64_t, value); INPUT(int, exp); INPUT(int, min_bits);
    INPUT(size_t, msg_len); INPUT(size_t, eclen); INPUT(_Bool, use_msg); INPUT(_Bool, use_extra);
    INPUT_ARR(unsigned char, blind, 32); INPUT_ARR(unsigned char, nonce, 32); INPUT(secp256k1_ge, commit); INPUT(secp256k1_ge, genp);
    INPUT(size_t, gk); INPUT(size_t, gb);
    unsigned char *proof, *msg, *extra; size_t plen; secp256k1_context ctx; int ret; size_t total;
    __CPROVER_assume(plen_in <= MAXP && msg_len <= MAXM && eclen <= MAXE && gk < 128 && gb < 32);
    __CPROVER_assume(ge_ok(&commit) && !commit.infinity && ge_ok(&genp) && !genp.infinity);
    BOUND_MANTISSA(value, min_value, min_bits);
    INPUT_BUF(pf, proof, plen_in, 16);
    INPUT_BUF(mg, msg, msg_len, 8);
    INPUT_BUF(ex, extra, eclen, 8);
    verif_ctx_init(&ctx); ctx.hash_ctx.fn_sha256_compression = secp256k1_sha256_transform;
    sg_reset(gk, gb);
    plen = plen_in;
    ret = secp256k1_rangeproof_sign_impl(&ctx.hash_ctx, &ctx.ecmult_gen_ctx, proof, &plen, min_value, &commit, blind, nonce, exp, min_bits, value,
                                         use_msg ? msg : NULL, use_msg ? msg_len : 0, use_extra ? extra : NULL, use_extra ? eclen : 0, &genp);
    __CPROVER_assert(ret == 0 || ret == 1, "C09 sign gates: returns 0 or 1");
    if (plen_in < 65 || min_value > value || min_bits < 0 || min_bits > 64 || exp < -1 || exp > 18)
        __CPROVER_assert(ret == 0, "C09 sign gates: documented-invalid parameters are refused");
    if (!b32_lt(blind, RP_N)) __CPROVER_assert(ret == 0, "C09 sign gates: blinding factor >= n is refused");
    /* the public header is silent about *plen and the proof buffer on failure: nothing is demanded there.
     * Oracle usage is demanded on SUCCESS only, over logged values. */
    if (ret == 1) {
        __CPROVER_assert(g_gr_n >= 1 && g_bs_n >= 1 && g_pe_n >= 1 && g_w_fin, "C09 sign gates: success implies seeding, expansion, binding hash and ring signature happened");
        __CPROVER_assert(g_gr_nonce_b == nonce[gb] && GE_EQ(g_gr_commit_v, &commit) && GE_EQ(g_gr_genp_v, &genp),
            "C09 sign gates: random stream seeded with the caller's nonce, commitment and generator (and the proof header, see sign_header)");
        __CPROVER_assert(g_gr_len >= 1 && g_gr_len <= 10 && g_gr_len <= plen_in, "C09 sign gates: header length between 1 and 10 bytes, inside the buffer");
        __CPROVER_assert(!use_msg || msg_len == 0 || msg_len <= 128 * (g_gr_rings - 1), "C09 sign gates: a message longer than 128*(rings-1) is refused");
        __CPROVER_assert(g_pe_rings == g_gr_rings && g_bs_nrings == g_gr_rings && (gk >= g_gr_rings || (g_pe_rs_k == g_gr_rs_k && g_bs_rs_k == g_gr_rs_k)), "C09 sign gates: same ring layout for stream, expansion and ring signature");
        __CPROVER_assert(g_bs_m_b == g_w_dig[gb] && g_bs_mlen == 32, "C09 sign gates: ring message is the digest of the binding hash");
        /* exact length: header + sign bytes + (rings-1) digit commitments + e0 + npub scalars, with npub = sum of ring sizes;
         * npub <= 4*rings so we bound instead of summing when the ghost ring is not the last */
        total = g_gr_len + ((g_gr_rings - 1 + 7) / 8) + 32 * (g_gr_rings - 1) + 32;
        __CPROVER_assert(plen >= total + 32 * (4 * (g_gr_rings - 1) + 1) && plen <= total + 32 * 4 * g_gr_rings && (plen - total) % 32 == 0, "C09 sign gates: output length = header + signs + digits + e0 + 32 per ring member");
        __CPROVER_assert(plen <= plen_in, "C09 sign gates: *plen on success never exceeds the buffer size given");
        __CPROVER_assert(plen <= secp256k1_rangeproof_max_size(&ctx, value, min_bits), "C09 sign gates: proof no longer than secp256k1_rangeproof_max_size(value, min_bits)");
        __CPROVER_assert(plen <= 5134, "C09 sign gates: proof no longer than the 5134 bytes documented in secp256k1_rangeproof.h");
    }
    __CPROVER_assert(g_illegal == 0 && g_error == 0, "C09 sign gates: no callback");
    if (ret == 1 && plen == 10 + 32 * (2 * MAXMAN + MAXRINGS_B - 1) + 32 + (MAXRINGS_B + 6) / 8) REACH("sign succeeds with the largest proof");
    if (ret == 1 && plen == 65) REACH("sign succeeds with the smallest proof");
    if (ret == 1 && use_msg && msg_len == 128 * (MAXRINGS_B - 1)) REACH("sign succeeds with the longest message");
    if (ret == 0 && g_bs_n >= 1) REACH("sign fails in the ring signature");
    if (ret == 0 && g_gr_n >= 1 && !b32_lt(blind, RP_N)) REACH("sign refuses blind >= n after seeding");
}

void h_sign_header(void) {
    INPUT(size_t, plen_in); INPUT(uint64_t, min_value); INPUT(uint64_t, value); INPUT(int, exp); INPUT(int, min_bits);
    INPUT_ARR(unsigned char, hblind, 32); INPUT_ARR(unsigned char, hnonce, 32); INPUT(secp256k1_ge, commit); INPUT(secp256k1_ge, genp);
    INPUT(size_t, gk); INPUT(size_t, plen2);
    unsigned char *proof, hb[16]; size_t plen, off = 0, j; secp256k1_context ctx; int ret, hret, hexp, hman; uint64_t hscale, hmin, hmax;
    __CPROVER_assume(plen_in <= MAXP && gk < 32 && plen2 <= MAXP);
    __CPROVER_assume(ge_ok(&commit) && !commit.infinity && ge_ok(&genp) && !genp.infinity);
    BOUND_MANTISSA(value, min_value, min_bits);
    INPUT_BUF(pf, proof, plen_in, 16);
    verif_ctx_init(&ctx); ctx.hash_ctx.fn_sha256_compression = secp256k1_sha256_transform;
    sg_reset(gk, 0);
    plen = plen_in;
    ret = secp256k1_rangeproof_sign_impl(&ctx.hash_ctx, &ctx.ecmult_gen_ctx, proof, &plen, min_value, &commit, hblind, hnonce, exp, min_bits, value, NULL, 0, NULL, 0, &genp);
    if (g_gr_n >= 1) {
        /* the header is complete when the random stream is seeded: g_gr_hdr[0..g_gr_len) are the bytes proof[0..g_gr_len) at that moment */
        for (j = 0; j < 16; j++) hb[j] = (j < 10 && j < g_gr_len) ? g_gr_hdr[j] : 0;
        /* CASE SPLIT on the exponent field written (not an input restriction); EXPCASE 0 also carries the exact-value header */
#ifdef EXPCASE
        __CPROVER_assume(((hb[0] & 64) ? (hb[0] & 31) : 0) == EXPCASE);
#endif
        /* decode with the real header parser, for every total length the finished proof can have */
        __CPROVER_assume(plen2 >= 65 && plen2 >= g_gr_len && plen2 <= plen_in);
        hret = secp256k1_rangeproof_getheader_impl(&off, &hexp, &hman, &hscale, &hmin, &hmax, hb, plen2);
        __CPROVER_assert(hret == 1, "C09 sign header: the header written by sign_impl is accepted by getheader_impl (range does not wrap 2^64)");
        __CPROVER_assert(off == g_gr_len, "C09 sign header: header length decoded = header length written = seed length");
        __CPROVER_assert(hmin <= value && value <= hmax, "C09 sign header: min' <= value <= max'");
        __CPROVER_assert(hmin >= min_value, "C09 sign header: the public minimum is never below the requested minimum");
        __CPROVER_assert(hman >= 0 && hman <= 64 && (hman == 0) == (hexp == -1), "C09 sign header: mantissa in [0,64], zero exactly for an exact-value proof");
        __CPROVER_assert(g_gr_rings == v_rings(hman) && (gk >= g_gr_rings || g_gr_rs_k == v_rsize(hman, gk)), "C09 sign header: the ring layout used for signing is the one the verifier derives from the header");
        if (hman == 0) __CPROVER_assert(hmin == value && hmax == value, "C09 sign header: exact-value proof reports [value, value]");
        else __CPROVER_assert(hexp >= 0 && hexp <= exp, "C09 sign header: exponent never raised");
        if (ret == 1) {
            __CPROVER_assert(g_pe_exp == (hexp < 0 ? 0 : hexp), "C09 sign header: key expansion uses the header exponent");
            __CPROVER_assert(plen == off + ((v_rings(hman) - 1 + 7) / 8) + 32 * (v_rings(hman) - 1) + 32 + 32 * v_npub(hman), "C09 sign header: proof length is exactly what the verifier expects for this header");
            if (hman == MAXMAN) REACH("sign header: largest mantissa");
            if (hmin != 0 && hexp > 0) REACH("sign header: with public minimum and exponent");
        }
#if !defined(EXPCASE) || EXPCASE == 0
        if (hman == 0) REACH("sign header: exact value");
#endif
    }
}

/* C09: secp256k1_range_proveparams - the parameter derivation of proof creation, as a pure function
 * of (value, min_value, exp, min_bits), for EVERY parameter set that secp256k1_rangeproof_sign_impl
 * lets through its first gate (min_value <= value, exp in [-1,18], min_bits in [0,64]).
 * Built WITHOUT -DVERIFY: the function's VERIFY_CHECK `*v * *scale + *min_value == value` is a 64x64-bit product relation
 * that no available back end decides; the other VERIFY_CHECKs (mantissa > 0, mantissa covers v, 0 < rings <= 32, npub <= 128)
 * are restated below as assertions of this harness.
 * Post-conditions are written from the property text and include/secp256k1_rangeproof.h. */
#include "assumed.h"
#include "src/secp256k1.c"
#include "post.h"
typedef unsigned __int128 u128;

void h_proveparams(void) {
    INPUT(uint64_t, value); INPUT(uint64_t, min_value_in); INPUT(int, exp_in); INPUT(int, min_bits_in); INPUT(size_t, gi);
    uint64_t v, min_value = min_value_in, scale; size_t rings, rsizes[32], npub, secidx[32], i, sum = 0;
    int mantissa, exp = exp_in, min_bits = min_bits_in, ret;
    /* gate of sign_impl (rangeproof_impl.h: "*plen < 65 || min_value > value || min_bits > 64 || ...") */
    __CPROVER_assume(min_value_in <= value && exp_in >= -1 && exp_in <= 18 && min_bits_in >= 0 && min_bits_in <= 64);
    ret = secp256k1_range_proveparams(&v, &rings, rsizes, &npub, secidx, &min_value, &mantissa, &scale, &exp, &min_bits, value);
    __CPROVER_assert(ret == 0 || ret == 1, "C09 proveparams: returns 0 or 1");
#ifdef EXPCASE
    /* CASE SPLIT on the resulting exponent (not an input restriction): the units EXPCASE = 0..18 together
     * with the assertion "exponent in [0,18]" of the unsplit unit cover every execution. */
    __CPROVER_assume(ret == 0 || exp == EXPCASE);
#endif
    /* include/secp256k1_rangeproof.h (rangeproof_sign): "If min_value or exp is non-zero then the value must be on the range
     * [0, 2^63) to prevent the proof range from spanning past 2^64."  Documented-invalid set D = (min_value != 0 || exp != 0)
     * && value >= 2^63.  The real code additionally refuses the single documented-valid point value = min_value = 2^63-1
     * (with exp >= 0): REPORTED to the lead as a deviation from the header; it is named here explicitly, not hidden. */
    if (ret == 0) {
        __CPROVER_assert(((min_value_in != 0 || exp_in != 0) && value > INT64_MAX) || (exp_in >= 0 && value == INT64_MAX && min_value_in == INT64_MAX),
            "C09 proveparams: refuses only documented-invalid parameters (min_value or exp non-zero with value >= 2^63) [or value = min_value = 2^63-1]");
    }
    /* converse, for the part of D whose range could really span past 2^64 (a nonzero public minimum under a value >= 2^63 with a
     * nonzero range); for exp = -1 (exact value) and for min_value = 0 (exponent silently lowered to 0) the code succeeds with a
     * range that stays below 2^64 - also reported */
    if (min_value_in != 0 && exp_in >= 0 && value > INT64_MAX && min_value_in != UINT64_MAX) __CPROVER_assert(ret == 0, "C09 proveparams: nonzero minimum with value >= 2^63 and a nonzero range is refused");
    if (ret == 0) {
    } else {
        u128 prod = v, top;   /* v * 10^exp and (2^mantissa-1) * 10^exp, computed by repeated multiplication by ten in 128 bits */
        uint64_t p10 = 1, p64 = v; int e;
        __CPROVER_assert(exp >= 0 && exp <= 18 && (exp_in < 0 ? exp == 0 : exp <= exp_in), "C09 proveparams: exponent only ever reduced, result in [0,18]");
        for (e = 0; e < 18; e++) if (e < exp) { p10 *= 10; prod *= 10; }
        for (e = 0; e < exp; e++) p64 *= 10;     /* same loop shape as the code: the solver only relates structurally identical product chains */
        __CPROVER_assert(scale == p10, "C09 proveparams: scale = 10^exp");
        __CPROVER_assert(p64 + min_value == value, "C09 proveparams: v*10^exp + min_value' = value (mod 2^64)");
#ifdef PP_ARITH
        __CPROVER_assert(prod <= UINT64_MAX && prod + min_value <= UINT64_MAX,
            "C09 proveparams: v*scale + min_value' = value without 64-bit overflow");
        __CPROVER_assert(min_value <= value && min_value >= min_value_in, "C09 proveparams: public minimum between the requested minimum and the value");
#endif
        __CPROVER_assert(rings >= 1 && rings <= 32, "C09 proveparams: 1 <= rings <= 32");
        __CPROVER_assert(npub <= 128, "C09 proveparams: npub <= 128");
        if (gi < rings) {
            __CPROVER_assert(rsizes[gi] == 1 || rsizes[gi] == 2 || rsizes[gi] == 4, "C09 proveparams: every ring size is 1, 2 or 4");
            __CPROVER_assert(secidx[gi] < rsizes[gi], "C09 proveparams: secret index inside its ring");
        }
        if (rsizes[0] == 1) {
            /* exact-value proof */
            __CPROVER_assert(rings == 1 && v == 0 && min_value == value && mantissa == 0 && scale == 1 && exp == 0,
                "C09 proveparams: exact-value proof is one ring of size 1 with min_value' = value");
            __CPROVER_assert(exp_in < 0 || min_value_in == UINT64_MAX, "C09 proveparams: exact-value proof only when asked for (exp = -1) or min_value = 2^64-1");
        } else {
            __CPROVER_assert(mantissa >= 1 && mantissa <= 64, "C09 proveparams: mantissa in [1,64]");
            __CPROVER_assert(mantissa == 64 || (v >> (mantissa & 63)) == 0, "C09 proveparams: mantissa bits cover v");
            __CPROVER_assert(rings == (size_t)(mantissa + 1) / 2, "C09 proveparams: rings = ceil(mantissa/2)");
            for (i = 0; i < 32; i++) if (i < rings) sum += rsizes[i];
            __CPROVER_assert(npub == sum && npub == 4 * rings - 2 * (size_t)(mantissa & 1), "C09 proveparams: npub = sum of ring sizes = 4*rings - 2*(mantissa odd)");
            if (gi < rings) {
                __CPROVER_assert(rsizes[gi] == ((gi == rings - 1 && (mantissa & 1)) ? 2 : 4), "C09 proveparams: ring layout is 4,...,4 with a final 2 when the mantissa is odd");
                __CPROVER_assert(secidx[gi] == ((v >> (2 * gi)) & 3), "C09 proveparams: secret index i is radix-4 digit i of v");
            }
            __CPROVER_assert(mantissa >= min_bits && min_bits <= min_bits_in, "C09 proveparams: at least the (clamped) requested number of bits is proven");
            /* the proven range [min', min' + (2^mantissa - 1)*scale] must stay below 2^64 (include/secp256k1_rangeproof.h: verify reports a range inside [0,2^64)) */
            {
                top = (mantissa == 64 ? (u128)UINT64_MAX : (((u128)1 << mantissa) - 1));
                for (e = 0; e < 18; e++) if (e < exp) top *= 10;
                top += min_value;
#ifdef PP_ARITH
                __CPROVER_assert(top <= UINT64_MAX, "C09 proveparams: proven range min' + (2^mantissa-1)*10^exp stays below 2^64");
#endif
            }
        }
        if (exp == 18) REACH("proveparams keeps exponent 18");
        if (mantissa == 64) REACH("proveparams mantissa 64");
        if (rings == 32 && rsizes[31] == 2) REACH("proveparams 32 rings with odd mantissa");
        if (exp_in == 18 && exp < 18 && exp > 0) REACH("proveparams reduces the exponent");
        if (rsizes[0] == 1) REACH("proveparams exact value");
    }
    if (ret == 0) REACH("proveparams refuses 2^63 case");
}

/* C19: two-points-in-65-bytes codec (src/modules/bppp/bppp_util.h).
 * secp256k1_eckey_pubkey_parse (square root inside) is an oracle with an (argument bytes, size,
 * verdict) log; everything else - secp256k1_ge_parse_ext, secp256k1_ge_serialize_ext,
 * eckey_pubkey_serialize33, fe_normalize_var, fe_get_b32, memcmp_var - is the real code. */
#define BP_PUBKEY_PARSE
#include "assumed_bppp.h"
#include "src/secp256k1.c"
#include "post.h"

/* gate + wiring: for all 65 input bytes and both point positions */
void h_points_parse(void) {
    INPUT_ARR(unsigned char, in65, 65);
    INPUT(_Bool, second); INPUT(size_t, k);
    secp256k1_ge pt; int ret, idx = second ? 1 : 0, xzero = 1, sign, i;
    __CPROVER_assume(k < 33);
    g_pp_n = 0; g_pp_k = k;
    ret = secp256k1_bppp_parse_one_of_points(&pt, in65, idx);
    for (i = 0; i < 32; i++) if (in65[1 + 32 * idx + i] != 0) xzero = 0;
    sign = idx ? (in65[0] & 1) : ((in65[0] >> 1) & 1);
    __CPROVER_assert(ret == 0 || ret == 1, "C19 parse_one_of_points: returns 0 or 1");
    if (in65[0] > 3) __CPROVER_assert(ret == 0, "C19 parse_one_of_points: sign byte above 3 is rejected");
    if (in65[0] <= 3 && xzero && sign) __CPROVER_assert(ret == 0, "C19 parse_one_of_points: infinity encoding with its sign bit set is rejected");
    if (in65[0] <= 3 && xzero && !sign) __CPROVER_assert(ret == 1 && pt.infinity == 1, "C19 parse_one_of_points: all-zero coordinate with clear sign bit is the point at infinity");
    if (in65[0] <= 3 && !xzero) {
        /* oracle usage only on the accepting path and by content; a negative verdict on these bytes must reject */
        if (ret) {
            __CPROVER_assert(g_pp_n >= 1 && g_pp_size0 == 33 && g_pp_v0 == 1, "C19 parse_one_of_points: a non-zero coordinate is accepted only on a positive verdict of the compressed-point decoder on 33 bytes");
            __CPROVER_assert(g_pp_b0 == (k == 0 ? (2 | sign) : in65[1 + 32 * idx + (k - 1)]), "C19 parse_one_of_points: the decoded bytes are (2 | this point's sign bit) followed by this point's 32 coordinate bytes");
            __CPROVER_assert(pt.infinity == 0, "C19 parse_one_of_points: accepted non-zero coordinate is a finite point");
        }
        if (g_pp_n >= 1 && g_pp_v0 == 0) __CPROVER_assert(ret == 0, "C19 parse_one_of_points: a negative decoder verdict rejects");
    }
    if (ret == 1 && !xzero && idx == 1 && sign) REACH("second point, odd, accepted");
    if (ret == 1 && !xzero && idx == 0 && sign) REACH("first point, odd, accepted");
    if (ret == 1 && xzero) REACH("infinity accepted");
    if (ret == 0 && in65[0] <= 3 && xzero) REACH("infinity with sign bit rejected");
    if (ret == 0 && in65[0] > 3) REACH("sign byte above 3 rejected");
}

/* round trip: serialize_points(l, r) then parse position 0/1 hands the decoder exactly the bytes
 * secp256k1_ge_serialize_ext produces for that point (infinity: decoded to infinity directly).
 * Domain: group elements in representation range; a finite element must have a non-zero x
 * coordinate (no curve point has x = 0; for such a non-point the all-zero coordinate is, by
 * design of the format, the infinity encoding) - expressed as the guard of the assertions. */
void h_points_roundtrip(void) {
    INPUT(secp256k1_ge, l); INPUT(secp256k1_ge, r); INPUT(_Bool, second); INPUT(size_t, k);
    unsigned char out[65], exp33[33]; secp256k1_ge l0, r0, pt, *src; int ret, idx = second ? 1 : 0, i, xzero = 1;
    __CPROVER_assume(ge_ok1(&l) && ge_ok1(&r));
    __CPROVER_assume(k < 33);
    l0 = l; r0 = r;
    secp256k1_bppp_serialize_points(out, &l, &r);
    __CPROVER_assert(out[0] <= 3, "C19 serialize_points: sign byte is at most 3");
    src = idx ? &r0 : &l0;
    secp256k1_ge_serialize_ext(exp33, src);          /* reference single-point encoding (real code) */
    for (i = 0; i < 32; i++) if (exp33[1 + i] != 0) xzero = 0;
    g_pp_n = 0; g_pp_k = k;
    ret = secp256k1_bppp_parse_one_of_points(&pt, out, idx);
    if (src->infinity) {
        __CPROVER_assert(ret == 1 && pt.infinity == 1 && g_pp_n == 0, "C19 points round trip: infinity serializes and parses back to infinity");
        REACH("round trip of infinity");
    } else if (!xzero) {
        __CPROVER_assert(g_pp_n >= 1 && g_pp_size0 == 33 && ret == g_pp_v0, "C19 points round trip: finite point reaches the compressed-point decoder");
        __CPROVER_assert(g_pp_b0 == exp33[k], "C19 points round trip: decoder sees exactly the point's own 33-byte compressed encoding");
        if (idx == 1 && (exp33[0] & 1)) REACH("round trip of an odd second point");
        if (idx == 0 && !(exp33[0] & 1)) REACH("round trip of an even first point");
    }
}

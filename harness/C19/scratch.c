/* C19 / C07: src/scratch_impl.h - checkpoint / alloc / max_allocation arithmetic.
 * Scratch object = header with arbitrary magic + data block of exactly max_size bytes.
 * Representation invariant of a scratch space (established by secp256k1_scratch_create, kept by
 * alloc / apply_checkpoint, the latter proved here): alloc_size <= max_size. */
#define BP_MEMSET
#include "assumed_bppp.h"
#include "src/secp256k1.c"
#include "post.h"
#define MAXS ((size_t)1 << 30)

static size_t g_k;   /* ghost byte index */

static void mk_scratch(secp256k1_scratch *s, secp256k1_callback *cb, size_t max_size, size_t alloc_size, int good_magic) {
    cb->fn = cb_error; cb->data = NULL; g_error = 0; g_illegal = 0;
    if (good_magic) memcpy(s->magic, "scratch", 8);
    s->data = malloc(max_size ? max_size : 1);
    __CPROVER_assume(s->data != NULL);
    s->max_size = max_size; s->alloc_size = alloc_size;
}

/* one allocation of ANY size (all 2^64 values) on any scratch state */
void h_alloc(void) {
    secp256k1_callback cb;
    INPUT(secp256k1_scratch, s);
    INPUT(size_t, max_size); INPUT(size_t, alloc_size); INPUT(size_t, size); INPUT(_Bool, good); INPUT(size_t, k);
    unsigned char *p; size_t rounded;
    __CPROVER_assume(max_size <= MAXS && alloc_size <= max_size);
    mk_scratch(&s, &cb, max_size, alloc_size, good);
    good = (memcmp(s.magic, "scratch", 8) == 0);
    g_k = k; g_ms_idx = k;
    p = (unsigned char *)secp256k1_scratch_alloc(&cb, &s, size);
    rounded = (size + 15) & ~(size_t)15;           /* spec: size rounded up to the alignment (16) */
    __CPROVER_assert(s.max_size == max_size, "C19 scratch_alloc: max_size never changes");
    __CPROVER_assert(s.alloc_size <= s.max_size, "C19 scratch_alloc: alloc_size never past max_size");
    if (!good) __CPROVER_assert(p == NULL && g_error <= 1 && s.alloc_size == alloc_size, "C19 scratch_alloc: wrong magic => NULL, nothing allocated, at most one error callback");
    if (good) __CPROVER_assert(g_error == 0, "C19 scratch_alloc: no callback on a genuine scratch space");
    if (p == NULL) __CPROVER_assert(s.alloc_size == alloc_size, "C19 scratch_alloc: a failed allocation leaves the scratch space unchanged");
    if (good) __CPROVER_assert((p != NULL) == (size <= SIZE_MAX - 15 && rounded <= max_size - alloc_size), "C19 scratch_alloc: succeeds exactly when the rounded size fits (no wrap-around for any size)");
    if (p != NULL) {
        __CPROVER_assert(s.alloc_size >= alloc_size, "C19 scratch_alloc: the allocation mark does not wrap");
        __CPROVER_assert((s.alloc_size - alloc_size) % 16 == 0 && s.alloc_size - alloc_size >= size, "C19 scratch_alloc: block is a multiple of the alignment and at least the requested size");
#ifndef VERIF_NATIVE
        __CPROVER_assert(size == 0 || __CPROVER_rw_ok(p, size), "C19 scratch_alloc: the block holds the requested number of bytes");
#endif
    }
    if (p != NULL && size > 0) REACH("alloc succeeds");
    if (p != NULL && size == 0) REACH("alloc of size 0");
    if (p == NULL && good && size <= SIZE_MAX - 15) REACH("alloc fails for lack of space");
    if (p == NULL && good && size > SIZE_MAX - 15) REACH("alloc fails because rounding wraps");
    if (!good) REACH("alloc on a non-scratch object");
}

/* checkpoint; two allocations; apply_checkpoint: blocks are disjoint, inside the data block, and the
 * mark is restored; apply of a checkpoint above the mark is refused */
void h_checkpoint(void) {
    secp256k1_callback cb;
    INPUT(secp256k1_scratch, s);
    INPUT(size_t, max_size); INPUT(size_t, alloc_size); INPUT(size_t, s1); INPUT(size_t, s2); INPUT(size_t, cp2);
    unsigned char *p1, *p2, *base; size_t cp;
    __CPROVER_assume(max_size <= MAXS && alloc_size <= max_size);
    mk_scratch(&s, &cb, max_size, alloc_size, 1);
    base = (unsigned char *)s.data;
    cp = secp256k1_scratch_checkpoint(&cb, &s);
    p1 = (unsigned char *)secp256k1_scratch_alloc(&cb, &s, s1);
    p2 = (unsigned char *)secp256k1_scratch_alloc(&cb, &s, s2);
    if (p1 != NULL) __CPROVER_assert(p1 >= base && s1 <= max_size && (size_t)(p1 - base) <= max_size - s1, "C19 scratch: first block inside the data block");
    if (p2 != NULL) __CPROVER_assert(p2 >= base && s2 <= max_size && (size_t)(p2 - base) <= max_size - s2, "C19 scratch: second block inside the data block");
    if (p1 != NULL && p2 != NULL) __CPROVER_assert((size_t)(p2 - p1) >= s1, "C19 scratch: consecutive blocks do not overlap");
    __CPROVER_assert(s.alloc_size >= cp && s.alloc_size <= max_size, "C19 scratch: mark monotone and bounded");
    if (cp2 > s.alloc_size) {
        size_t before = s.alloc_size;
        secp256k1_scratch_apply_checkpoint(&cb, &s, cp2);
        __CPROVER_assert(g_error == 1 && s.alloc_size == before, "C19 scratch_apply_checkpoint: a checkpoint above the mark is refused with the error callback");
        REACH("invalid checkpoint refused");
    } else {
        secp256k1_scratch_apply_checkpoint(&cb, &s, cp);
        __CPROVER_assert(g_error == 0 && s.alloc_size == alloc_size && s.max_size == max_size && s.data == (void *)base, "C19 scratch_apply_checkpoint: restores the mark exactly");
        if (p1 != NULL && p2 != NULL && s1 > 0 && s2 > 0) REACH("two blocks then restore");
        if (p1 != NULL && p2 == NULL) REACH("second allocation fails");
    }
}

/* max_allocation(objects) promises room for `objects` blocks whose sizes add up to the result:
 * checked as a lemma for objects = 2 against the real alloc, and no wrap-around for any count */
void h_maxalloc(void) {
    secp256k1_callback cb;
    INPUT(secp256k1_scratch, s);
    INPUT(size_t, max_size); INPUT(size_t, alloc_size); INPUT(size_t, objects); INPUT(size_t, s1); INPUT(size_t, s2);
    size_t m;
    __CPROVER_assume(max_size <= MAXS && alloc_size <= max_size);
    mk_scratch(&s, &cb, max_size, alloc_size, 1);
    m = secp256k1_scratch_max_allocation(&cb, &s, objects);
    __CPROVER_assert(g_error == 0, "C19 scratch_max_allocation: no callback on a genuine scratch space");
    __CPROVER_assert(m <= max_size - alloc_size, "C19 scratch_max_allocation: never more than the free space");
    if (objects == 2 && s1 <= m && s2 <= m - s1 && m > 0) {
        void *p1 = secp256k1_scratch_alloc(&cb, &s, s1);
        void *p2 = secp256k1_scratch_alloc(&cb, &s, s2);
        __CPROVER_assert(p1 != NULL && p2 != NULL, "C19 scratch_max_allocation: two blocks within the promised total both fit");
        if (s1 > 0 && s2 > 0) REACH("two blocks within max_allocation");
    }
    if (m == 0 && objects > SIZE_MAX / 15) REACH("object count whose padding would wrap");
    if (m > 0) REACH("positive max allocation");
}

/* create / destroy.  Precondition: size <= 2^30 (for size > SIZE_MAX - 32 the sum base_alloc + size wraps
 * and the header memset overflows the block: see native_scratch_create_overflow.c; not reachable from
 * the public API of this tree, where both creators are static). */
void h_create(void) {
    secp256k1_callback cb; INPUT(size_t, size); secp256k1_scratch *s;
    cb.fn = cb_error; cb.data = NULL; g_error = 0; g_illegal = 0;
    __CPROVER_assume(size <= MAXS);
    s = secp256k1_scratch_create(&cb, size);
    __CPROVER_assert(g_error == 0 && s != NULL, "C19 scratch_create: succeeds without callback when allocation succeeds");
    if (s != NULL) {
        __CPROVER_assert(memcmp(s->magic, "scratch", 8) == 0 && s->max_size == size && s->alloc_size == 0, "C19 scratch_create: genuine, empty scratch space of the requested size");
#ifndef VERIF_NATIVE
        __CPROVER_assert(size == 0 || __CPROVER_rw_ok(s->data, size), "C19 scratch_create: a data block of max_size bytes is available");
#endif
        secp256k1_scratch_destroy(&cb, s);
        __CPROVER_assert(g_error == 0, "C19 scratch_destroy: no callback for a genuine scratch space");
        if (size > 1000) REACH("scratch space created and destroyed");
    }
}

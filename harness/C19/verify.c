/* C19 / C07: secp256k1_bppp_rangeproof_norm_product_verify - every gate, scratch discipline, index
 * safety of gammas[log i], rho_inv_pows[log i], s_g[i - 2^log i], s_h[...], of both multi-exponentiation
 * callbacks, and the binding of every proof byte into the challenge transcript.
 *
 * h_verify_gate (default)  lengths symbolic (c_vec_len <= 2^16, g_vec->n <= 2^17, g_len unconstrained),
 *     the three length-driven loops closed by loop contracts (hooks/C19_verify_loops.diff), the
 *     log-length loops (<= 63 rounds, code-enforced) by full unwinding.  Scalar oracles in the
 *     "frame only" form (see contracts/assumed_bppp.h, BP_SCALAR_FRAME).
 * -DVERIFY_B8              bounded stand-in g_len, c_vec_len <= 8, all loops unwound, standard oracle
 *     contracts with their representation preconditions: every operand handed to scalar_mul/sqr/
 *     inverse really is < n.
 *
 * secp256k1_ecmult_multi_var takes a callback, so it is replaced by a MODEL WITH A BODY instead of
 * a contract: it invokes the callback for an arbitrary index idx < n (the callbacks are stateless
 * readers, so one unconstrained index stands for every index the real function can use - assumption:
 * the real function only uses indices below n), yields an arbitrary group element in representation
 * range, fails if the callback fails and may fail on its own (scratch space).  It does not touch
 * the scratch space (the real one restores its own checkpoint). */
#ifdef VERIFY_B8
# define BP_SCALAR_SQR
#else
# define BP_SCALAR_FRAME
#endif
#define BP_GEJ_EQ
#define BP_MEMSET
#define BP_PUBKEY_PARSE
#include "assumed_bppp.h"
#include "hash_log.h"

int g_mm_n; size_t g_mm_cnt0, g_mm_cnt1; int g_mm_hasg0, g_mm_hasg1, g_mm_ok0, g_mm_ok1;
/* the library's implementation headers up to ecmult_impl.h, in the order of src/secp256k1.c (their
 * include guards make the later #include "src/secp256k1.c" skip them); only the DEFINITION of
 * secp256k1_ecmult_multi_var is renamed away, every caller (included later) binds to the model */
#include "include/secp256k1_preallocated.h"
#include "src/assumptions.h"
#include "src/checkmem.h"
#include "src/util.h"
#include "src/field_impl.h"
#include "src/scalar_impl.h"
#include "src/group_impl.h"
#define secp256k1_ecmult_multi_var secp256k1_ecmult_multi_var_real_unused
#include "src/ecmult_impl.h"
#undef secp256k1_ecmult_multi_var
size_t nondet_mm_idx(void); _Bool nondet_mm_ok(void);
/* the two callbacks the verifier passes (defined later in the TU).  The model dispatches on them by name:
 * a call through the pointer makes goto-instrument consider every function of that type in the
 * library, and its loop-contract pass (which inlines the whole call tree) then runs out of memory. */
static int ec_mult_verify_cb1(secp256k1_scalar *sc, secp256k1_ge *pt, size_t idx, void *cbdata);
static int ec_mult_verify_cb2(secp256k1_scalar *sc, secp256k1_ge *pt, size_t idx, void *cbdata);
static int secp256k1_ecmult_multi_var(const secp256k1_callback* error_callback, secp256k1_scratch *scratch, secp256k1_gej *r, const secp256k1_scalar *inp_g_sc, secp256k1_ecmult_multi_callback cb, void *cbdata, size_t n) {
    secp256k1_scalar sc; secp256k1_ge pt; secp256k1_gej res; size_t idx = nondet_mm_idx(); int ok = 1;
    (void)error_callback; (void)scratch;
    if (n > 0) {
        __CPROVER_assume(idx < n);                       /* model: callback indices are below n */
        if (cb == ec_mult_verify_cb1) ok = ec_mult_verify_cb1(&sc, &pt, idx, cbdata);
        else if (cb == ec_mult_verify_cb2) ok = ec_mult_verify_cb2(&sc, &pt, idx, cbdata);
        else __CPROVER_assert(0, "C19 verify: multi-exponentiation is given one of the two verifier callbacks");
#ifdef VERIFY_B8
        if (ok) __CPROVER_assert(scalar_ok(&sc), "C19 verify (<=8): multi-exponentiation callback yields a scalar below n");
#endif
    }
#ifdef VERIFY_B8
    if (inp_g_sc != NULL) __CPROVER_assert(scalar_ok(inp_g_sc), "C19 verify (<=8): generator scalar handed to the multi-exponentiation is below n");
#endif
    __CPROVER_assume(gej_ok(&res));                      /* model: result in representation range */
    *r = res;
    ok = ok && nondet_mm_ok();
    if (g_mm_n == 0) { g_mm_cnt0 = n; g_mm_hasg0 = (inp_g_sc != NULL); g_mm_ok0 = ok; }
    if (g_mm_n == 1) { g_mm_cnt1 = n; g_mm_hasg1 = (inp_g_sc != NULL); g_mm_ok1 = ok; }
    g_mm_n++;
    return ok;
}
#include "src/secp256k1.c"
#include "post.h"

#ifdef VERIFY_B8
# define LMAX ((size_t)8)
#else
# define LMAX ((size_t)1 << 16)
#endif
#define PMAX ((size_t)(65 * 63 + 64 + 40))
#define MAXS ((size_t)1 << 26)

static int spec_log2(size_t x) { int b, r = 0; for (b = 0; b < 64; b++) if ((x >> b) != 0) r = b; return r; }
static int spec_pow2(size_t x) { int b, c = 0; for (b = 0; b < 64; b++) c += (int)((x >> b) & 1); return c == 1; }

void h_verify_gate(void) {
    secp256k1_context ctx; secp256k1_scratch scr; secp256k1_bppp_generators gv;
    INPUT(size_t, g_len); INPUT(size_t, c_len); INPUT(size_t, gn); INPUT(size_t, proof_len);
    INPUT(size_t, max_size); INPUT(size_t, alloc0);
    INPUT(secp256k1_scalar, rho); INPUT(secp256k1_sha256, tr); INPUT(secp256k1_ge, commit);
    INPUT(size_t, we); INPUT(size_t, wk);
    unsigned char *proof; secp256k1_scalar *c_vec; void *data0; uint64_t bytes0;
    int ret, lg = 0, lh = 0, rounds = 0, gates, rho_zero, n_big = 0, l_big = 0; size_t need = 0;
    verif_ctx_init(&ctx);
    /* input domain: lengths that valid objects can have; representation invariants of rho / commit / transcript */
    __CPROVER_assume(c_len <= LMAX && gn <= 2 * LMAX && proof_len <= PMAX && max_size <= MAXS && alloc0 <= max_size);
    __CPROVER_assume(scalar_ok(&rho) && ge_ok(&commit) && tr.bytes <= ((uint64_t)1 << 40));
    __CPROVER_assume(we < 64 && wk < 65);
    memcpy(scr.magic, "scratch", 8); scr.max_size = max_size; scr.alloc_size = alloc0;
    scr.data = malloc(max_size ? max_size : 1); __CPROVER_assume(scr.data != NULL); data0 = scr.data;
    INPUT_BUF(pf, proof, proof_len, 8);
    gv.n = gn; gv.gens = malloc(gn * sizeof(secp256k1_ge)); __CPROVER_assume(gv.gens != NULL);
    c_vec = malloc(c_len * sizeof(secp256k1_scalar)); __CPROVER_assume(c_vec != NULL);
#ifdef VERIFY_B8
    { size_t q; for (q = 0; q < LMAX; q++) if (q < c_len) __CPROVER_assume(scalar_ok(&c_vec[q])); }   /* c_vec holds scalars */
#endif
    bytes0 = tr.bytes;
    HASHLOG_RESET(); g_we = (int)we; g_wpos = bytes0 + 65 * we + wk;
    g_mm_n = 0; g_geq_n = 0; g_geq_v = 0; g_pp_n = 0; g_pp_k = 0; g_ms_idx = 0;

    ret = secp256k1_bppp_rangeproof_norm_product_verify(&ctx, &scr, proof, proof_len, &tr, &rho, &gv, g_len, c_vec, c_len, &commit);
    WITNESS_BUF(pf, proof, proof_len, 8);

    /* ---- specification of the gates, written from the property text ---- */
    if (g_len != 0) lg = spec_log2(g_len);
    if (c_len != 0) lh = spec_log2(c_len);
    rounds = lg > lh ? lg : lh;
    rho_zero = (rho.d[0] | rho.d[1] | rho.d[2] | rho.d[3]) == 0;
    gates = g_len != 0 && c_len != 0 && gn == g_len + c_len && g_len <= gn && proof_len == 65 * (size_t)rounds + 64 && spec_pow2(g_len) && spec_pow2(c_len);
#ifndef VERIF_NATIVE
    if (gates) { n_big = be256(&proof[65 * rounds]) >= N_(); l_big = be256(&proof[65 * rounds + 32]) >= N_(); }
#endif
    __CPROVER_assert(ret == 0 || ret == 1, "C19 verify: returns 0 or 1");
    __CPROVER_assert(g_error == 0 && g_illegal == 0, "C19 verify: no callback");
    __CPROVER_assert(scr.alloc_size == alloc0 && scr.max_size == max_size && scr.data == data0, "C19 verify: scratch checkpoint restored on every return path");
    if (g_len == 0 || c_len == 0) __CPROVER_assert(ret == 0 && g_mm_n == 0, "C19 verify: empty generator or c vector => 0");
    if (gn != g_len + c_len) __CPROVER_assert(ret == 0 && g_mm_n == 0, "C19 verify: generator count different from g_len + h_len => 0");
    if (g_len != 0 && c_len != 0 && proof_len != 65 * (size_t)rounds + 64) __CPROVER_assert(ret == 0 && g_mm_n == 0, "C19 verify: proof length different from 65 * rounds + 64 => 0");
    if (g_len != 0 && c_len != 0 && (!spec_pow2(g_len) || !spec_pow2(c_len))) __CPROVER_assert(ret == 0 && g_mm_n == 0, "C19 verify: length that is not a power of two => 0");
    if (gates && (n_big || l_big)) __CPROVER_assert(ret == 0 && g_mm_n == 0, "C19 verify: n or l scalar not below the group order => 0");
    if (rho_zero) __CPROVER_assert(ret == 0 && g_mm_n == 0, "C19 verify: zero challenge base rho => 0");
    if (gates && !n_big && !l_big && !rho_zero) {
        need = 32 * ((size_t)rounds + g_len + c_len + (size_t)lg);
        if (max_size - alloc0 < need) __CPROVER_assert(ret == 0 && g_mm_n == 0, "C19 verify: insufficient scratch space fails closed before any group operation");
        else {
            __CPROVER_assert(g_mm_n >= 1 && g_mm_cnt0 == 2 * (size_t)rounds + 1 && !g_mm_hasg0, "C19 verify: first multi-exponentiation runs over the commitment and the 2 * rounds proof points");
            if (g_mm_n >= 2) __CPROVER_assert(g_mm_ok0 && g_mm_cnt1 == g_len + c_len && g_mm_hasg1, "C19 verify: second multi-exponentiation runs over all g_len + h_len generators plus v * G");
            __CPROVER_assert(ret == (g_mm_n == 2 && g_mm_ok0 && g_mm_ok1 && g_geq_n == 1 && g_geq_v == 1), "C19 verify: past the gates the result is exactly the verdict of the final group-element comparison");
            if ((int)we < rounds) {
                __CPROVER_assert(g_w_hit == 1 && g_w_byte == proof[65 * we + wk], "C19 verify: every byte of every round's 65-byte point pair is absorbed into the transcript, in order");
                __CPROVER_assert(g_w_fin == 1 && g_w_end == bytes0 + 65 * (we + 1) + 8, "C19 verify: round challenge = hash of the transcript so far plus an 8-byte index");
            }
            if (ret == 1 && rounds >= 3 && lg != lh) REACH("accepts with 3 or more rounds and different lengths");
            if (ret == 0 && g_mm_n == 2 && g_geq_n == 1) REACH("rejects on the final comparison");
            if (ret == 0 && g_mm_n == 1) REACH("first multi-exponentiation fails (bad point or scratch)");
        }
        if (max_size - alloc0 < need && alloc0 > 0) REACH("scratch exhaustion");
    }
    if (ret == 1) __CPROVER_assert(gates && !n_big && !l_big && !rho_zero, "C19 verify: acceptance implies every gate");
    if (gates && rho_zero) REACH("zero rho rejected");
    if (gates && n_big) REACH("n not below the group order rejected");
    if (g_len != 0 && c_len != 0 && gn == g_len + c_len && spec_pow2(g_len) && spec_pow2(c_len) && proof_len > 65 * (size_t)rounds + 64) REACH("trailing proof bytes rejected");
    if (ret == 1 && g_len == 1 && c_len == 1) REACH("accepts with zero rounds");
}

/* C19 / C07: secp256k1_bppp_rangeproof_norm_product_verify - every gate, scratch discipline, index
 * safety of gammas[log i], rho_inv_pows[log i], s_g[i - 2^log i], s_h[...], the data handed to both
 * multi-exponentiation callbacks, and the binding of every proof byte into the challenge transcript.
 *
 * h_verify_gate   Input domain: EVERY (g_len, c_vec_len, g_vec->n, proof_len, rho, proof bytes, scratch
 *     state) for which some gate of the specification fails (the function must return 0 without any
 *     group operation), plus every input that passes all gates with g_len, c_vec_len <= VLEN (default 2;
 *     the thorough unit uses 8).  So the GATES are decided for all lengths; the code after the gates
 *     (scratch arrays, loops, final comparison) for lengths <= VLEN: bounded.  Loops are unwound with
 *     unwinding assertions: if the code let a longer vector through its gates, an unwinding assertion fails.
 * h_verify_cb     callback contracts CB1_PRE / CB2_PRE => every index below n is safe (unbounded).
 *
 * secp256k1_ecmult_multi_var takes a callback, so it is replaced by a MODEL WITH A BODY instead of a
 * contract: it checks the callback contract at the call (for a callback it does not know it runs the
 * callback itself for an arbitrary index below n), yields an arbitrary group element in
 * representation range and an arbitrary verdict (it fails when a callback fails or scratch space
 * runs out), and does not touch the scratch space (the real one restores its own checkpoint).
 * Assumption: the real function only invokes the callback with indices below n. */
#ifndef VLEN
# define VLEN 2
#endif
#define BP_SCALAR_SQR
#define BP_GEJ_EQ
#define BP_PUBKEY_PARSE
#include "assumed_bppp.h"
#include "hash_log.h"

int g_mm_n, g_mm_allok;    /* multi-exponentiations so far; all of their verdicts positive */
int g_sa_fail;             /* a scratch allocation was refused */
/* the library's implementation headers up to ecmult_impl.h, in the order of src/secp256k1.c (their
 * include guards make the later #include "src/secp256k1.c" skip them); only the DEFINITION of
 * secp256k1_ecmult_multi_var is renamed away, every caller (included later) binds to the model */
#include "include/secp256k1_preallocated.h"
#include "src/assumptions.h"
#include "src/checkmem.h"
#include "src/util.h"
#include "src/field_impl.h"
#include "src/scalar_impl.h"
#include "src/group_impl.h"
#define secp256k1_ecmult_multi_var secp256k1_ecmult_multi_var_real_unused
#include "src/ecmult_impl.h"
#undef secp256k1_ecmult_multi_var
#define secp256k1_scratch_alloc secp256k1_scratch_alloc_real_unused
#include "src/scratch_impl.h"
#undef secp256k1_scratch_alloc
size_t nondet_mm_idx(void); _Bool nondet_mm_ok(void);
/* The two callbacks the verifier passes, and the data they get (types defined later in the TU, so the
 * model sits after the library include, see below).  CALLBACK CONTRACTS: the model asserts at each
 * multi-exponentiation call that the callback data satisfies CB1_PRE / CB2_PRE for the point count n;
 * C19.verify_cb proves on the real callbacks that under these preconditions every index idx < n is
 * safe.  (Calling the callbacks from the model instead made goto-instrument's loop-contract pass,
 * which inlines the whole call tree of the function, run out of memory.) */
#define CB1_PRE(d, n) ((n) % 2 == 1 && __CPROVER_r_ok((d)->commit, sizeof(secp256k1_ge)) && \
    ((n) == 1 || (__CPROVER_r_ok((d)->gammas, ((n) - 1) / 2 * sizeof(secp256k1_scalar)) && __CPROVER_r_ok((d)->proof, ((n) - 1) / 2 * 65))))
#define CB2_PRE(d, n) ((d)->g_vec_len <= (n) && __CPROVER_r_ok((d)->g_vec, (n) * sizeof(secp256k1_ge)) && \
    ((d)->g_vec_len == 0 || __CPROVER_r_ok((d)->s_g, (d)->g_vec_len * sizeof(secp256k1_scalar))) && \
    ((d)->g_vec_len == (n) || __CPROVER_r_ok((d)->s_h, ((n) - (d)->g_vec_len) * sizeof(secp256k1_scalar))))
static int secp256k1_ecmult_multi_var(const secp256k1_callback* error_callback, secp256k1_scratch *scratch, secp256k1_gej *r, const secp256k1_scalar *inp_g_sc, secp256k1_ecmult_multi_callback cb, void *cbdata, size_t n);
#include "src/secp256k1.c"
#include "post.h"

/* ---- model of secp256k1_scratch_alloc: ABSTRACT form of the contract that C19.scratch_alloc /
 * C19.scratch_checkpoint prove on the real body (success exactly when the 16-byte-rounded size fits,
 * mark advances by the rounded size, block inside the data block and disjoint from earlier live
 * blocks): a successful allocation is a FRESH heap object of the rounded size instead of a sub-range
 * of the data block.  Separate objects are STRICTER for the caller (an access running from one block
 * into the next is out of bounds here).  Why a model with a body: with the real allocator every
 * scalar access is 32 byte accesses at a symbolic offset of one byte array (array constraints exhaust
 * 12 GB); as a DFCC contract with __CPROVER_is_fresh the object bookkeeping does. ---- */
static void *secp256k1_scratch_alloc(const secp256k1_callback* error_callback, secp256k1_scratch* scratch, size_t size) {
    size_t r = (size + 15) & ~(size_t)15; void *p;
    (void)error_callback;
    __CPROVER_assert(memcmp(scratch->magic, "scratch", 8) == 0 && scratch->alloc_size <= scratch->max_size, "C19 verify: scratch_alloc is given a genuine scratch space");
    if (size > SIZE_MAX - 15 || r > scratch->max_size - scratch->alloc_size) { g_sa_fail = 1; return NULL; }
    p = malloc(r); __CPROVER_assume(p != NULL);           /* model: fresh block (contents arbitrary; the real one is zero-filled) */
    scratch->alloc_size += r;
    return p;
}

/* ---- model of secp256k1_ecmult_multi_var (see head of file) ---- */
static int secp256k1_ecmult_multi_var(const secp256k1_callback* error_callback, secp256k1_scratch *scratch, secp256k1_gej *r, const secp256k1_scalar *inp_g_sc, secp256k1_ecmult_multi_callback cb, void *cbdata, size_t n) {
    secp256k1_gej res; int ok = 1;
    (void)error_callback; (void)scratch;
    if (cb == ec_mult_verify_cb1) {
        const ec_mult_verify_cb_data1 *d = (const ec_mult_verify_cb_data1 *)cbdata; size_t j = nondet_mm_idx();
        __CPROVER_assert(CB1_PRE(d, n), "C19 verify: first callback gets commit, gammas[(n-1)/2] and proof[65 (n-1)/2] readable (callback contract, proved sufficient by C19.verify_cb)");
        if (n % 2 == 1 && j < (n - 1) / 2) __CPROVER_assert(scalar_ok(&d->gammas[j]), "C19 verify: every challenge gamma handed to the first callback is a scalar below n (callback contract)");
    } else if (cb == ec_mult_verify_cb2) {
        const ec_mult_verify_cb_data2 *d = (const ec_mult_verify_cb_data2 *)cbdata;
        __CPROVER_assert(CB2_PRE(d, n), "C19 verify: second callback gets s_g[g_len], s_h[n - g_len] and n generators readable (callback contract, proved sufficient by C19.verify_cb)");
    } else if (n > 0) {
        /* any other callback (e.g. a merged one): run it for an arbitrary index below n */
        secp256k1_scalar sc; secp256k1_ge pt; size_t idx = nondet_mm_idx();
        __CPROVER_assume(idx < n);                       /* model: callback indices are below n */
        ok = cb(&sc, &pt, idx, cbdata);
    }
    if (inp_g_sc != NULL) __CPROVER_assert(scalar_ok(inp_g_sc), "C19 verify: generator scalar handed to the multi-exponentiation is below n");
    __CPROVER_assume(gej_ok(&res));                      /* model: result in representation range */
    *r = res;
    ok = ok && nondet_mm_ok();                           /* model: fails when a callback fails (invalid point) or scratch space runs out */
    g_mm_n++; g_mm_allok = g_mm_allok && ok;
    return ok;
}

#define LMAX ((size_t)1 << 16)
#define PMAX ((size_t)(65 * 63 + 64 + 40))
#define MAXS ((size_t)1 << 12)

static int spec_log2(size_t x) { int b, r = 0; for (b = 0; b < 64; b++) if ((x >> b) != 0) r = b; return r; }
static int spec_pow2(size_t x) { int b, c = 0; for (b = 0; b < 64; b++) c += (int)((x >> b) & 1); return c == 1; }

void h_verify_gate(void) {
    secp256k1_context ctx; secp256k1_scratch scr; secp256k1_bppp_generators gv;
    INPUT(size_t, g_len); INPUT(size_t, c_len); INPUT(size_t, gn); INPUT(size_t, proof_len);
    INPUT(size_t, max_size); INPUT(size_t, alloc0);
    INPUT(secp256k1_scalar, rho); INPUT(secp256k1_sha256, tr); INPUT(secp256k1_ge, commit);
    INPUT(size_t, we); INPUT(size_t, wk);
    unsigned char *proof; secp256k1_scalar *c_vec; void *data0; uint64_t bytes0;
    int ret, lg = 0, lh = 0, rounds = 0, gates, rho_zero, n_big = 0, l_big = 0;
    verif_ctx_init(&ctx);
    /* input domain: lengths that valid objects can have; representation invariants of rho / commit / transcript */
    __CPROVER_assume(c_len <= LMAX && gn <= 2 * LMAX && proof_len <= PMAX && max_size <= MAXS && alloc0 <= max_size);
    __CPROVER_assume(scalar_ok(&rho) && ge_ok(&commit) && tr.bytes <= ((uint64_t)1 << 40));
    __CPROVER_assume(we < 64 && wk < 65);
    memcpy(scr.magic, "scratch", 8); scr.max_size = max_size; scr.alloc_size = alloc0;
    scr.data = malloc(1);                     /* the data block itself is abstracted */
    __CPROVER_assume(scr.data != NULL); data0 = scr.data;
    INPUT_BUF(pf, proof, proof_len, 8);
    gv.n = gn; gv.gens = malloc(gn * sizeof(secp256k1_ge)); __CPROVER_assume(gv.gens != NULL);
    c_vec = malloc(c_len * sizeof(secp256k1_scalar)); __CPROVER_assume(c_vec != NULL);
    { size_t q; for (q = 0; q < VLEN; q++) if (q < c_len) __CPROVER_assume(scalar_ok(&c_vec[q])); }   /* c_vec holds scalars (checked where it is read: lengths <= VLEN) */
    /* ---- specification of the gates, written from the property text ---- */
    if (g_len != 0) lg = spec_log2(g_len);
    if (c_len != 0) lh = spec_log2(c_len);
    rounds = lg > lh ? lg : lh;
    rho_zero = (rho.d[0] | rho.d[1] | rho.d[2] | rho.d[3]) == 0;
    gates = g_len != 0 && c_len != 0 && gn == g_len + c_len && g_len <= gn && proof_len == 65 * (size_t)rounds + 64 && spec_pow2(g_len) && spec_pow2(c_len);
#ifndef VERIF_NATIVE
    if (gates) { n_big = be256(&proof[65 * rounds]) >= N_(); l_big = be256(&proof[65 * rounds + 32]) >= N_(); }
#endif
    /* bounded part of the domain: inputs that pass every structural gate have vectors of at most VLEN entries */
    __CPROVER_assume(!gates || (g_len <= VLEN && c_len <= VLEN));
    bytes0 = tr.bytes;
    HASHLOG_RESET(); g_we = (int)we; g_wpos = bytes0 + 65 * we + wk;
    g_mm_n = 0; g_mm_allok = 1; g_sa_fail = 0; g_geq_n = 0; g_geq_allok = 1; g_pp_n = 0; g_pp_k = 0;

    ret = secp256k1_bppp_rangeproof_norm_product_verify(&ctx, &scr, proof, proof_len, &tr, &rho, &gv, g_len, c_vec, c_len, &commit);
    WITNESS_BUF(pf, proof, proof_len, 8);

    __CPROVER_assert(ret == 0 || ret == 1, "C19 verify: returns 0 or 1");
    __CPROVER_assert(g_error == 0 && g_illegal == 0, "C19 verify: no callback");
    __CPROVER_assert(scr.alloc_size == alloc0, "C19 verify: scratch checkpoint restored on every return path");
    /* gates: only the verdict is asserted (not the order of the checks, not what was or was not computed before) */
    if (g_len == 0 || c_len == 0) __CPROVER_assert(ret == 0, "C19 verify: empty generator or c vector => 0");
    if (gn != g_len + c_len) __CPROVER_assert(ret == 0, "C19 verify: generator count different from g_len + h_len => 0");
    if (g_len != 0 && c_len != 0 && proof_len != 65 * (size_t)rounds + 64) __CPROVER_assert(ret == 0, "C19 verify: proof length different from 65 * rounds + 64 => 0");
    if (g_len != 0 && c_len != 0 && (!spec_pow2(g_len) || !spec_pow2(c_len))) __CPROVER_assert(ret == 0, "C19 verify: length that is not a power of two => 0");
    if (gates && (n_big || l_big)) __CPROVER_assert(ret == 0, "C19 verify: n or l scalar not below the group order => 0");
    if (rho_zero) __CPROVER_assert(ret == 0, "C19 verify: zero challenge base rho => 0");
    if (ret == 1) __CPROVER_assert(gates && !n_big && !l_big && !rho_zero, "C19 verify: acceptance implies every gate");
    /* fail closed: a refused scratch allocation, a failed multi-exponentiation or a negative comparison verdict => 0
     * (stated over the verdicts the oracles gave, whatever their number and order) */
    if (g_sa_fail) __CPROVER_assert(ret == 0, "C19 verify: insufficient scratch space => 0");
    if (!g_mm_allok) __CPROVER_assert(ret == 0, "C19 verify: a failed multi-exponentiation (invalid proof point, scratch space) => 0");
    if (!g_geq_allok) __CPROVER_assert(ret == 0, "C19 verify: a negative verdict of the final group-element comparison => 0");
    if (ret == 1) __CPROVER_assert(g_mm_n >= 1, "C19 verify: acceptance only after a multi-exponentiation over the proof");
    if (gates && !n_big && !l_big && !rho_zero && !g_sa_fail && g_mm_allok && g_geq_allok && g_geq_n >= 1) __CPROVER_assert(ret == 1, "C19 verify: past the gates, with every oracle verdict positive, the proof is accepted");
    if (ret == 1 && (int)we < rounds) __CPROVER_assert(g_w_hit == 1 && g_w_byte == proof[65 * we + wk], "C19 verify: every byte of every round's 65-byte point pair is absorbed into the transcript of an accepted proof");
    if (ret == 1 && rounds >= (VLEN >= 8 ? 3 : 1) && lg != lh) REACH("accepts with the maximal number of rounds and different vector lengths");
    if (ret == 0 && gates && g_mm_allok && g_geq_n >= 1) REACH("rejects on the final comparison");
    if (ret == 0 && gates && !g_mm_allok) REACH("a multi-exponentiation fails (bad point or scratch)");
    if (gates && g_sa_fail && alloc0 > 0) REACH("scratch exhaustion");
    if (gates && rho_zero) REACH("zero rho rejected");
    if (gates && n_big) REACH("n not below the group order rejected");
    if (g_len != 0 && c_len != 0 && gn == g_len + c_len && spec_pow2(g_len) && spec_pow2(c_len) && proof_len > 65 * (size_t)rounds + 64) REACH("trailing proof bytes rejected");
    if (ret == 1 && g_len == 1 && c_len == 1) REACH("accepts with zero rounds");
}

/* callback contracts: under CB1_PRE / CB2_PRE every index below n is safe (real callbacks; the
 * compressed-point decoder inside parse_one_of_points is an oracle) */
void h_verify_cb(void) {
    INPUT(size_t, rounds); INPUT(size_t, idx); INPUT(size_t, glen); INPUT(size_t, hlen); INPUT(_Bool, second); INPUT(secp256k1_ge, commit);
    secp256k1_scalar sc; secp256k1_ge pt; int ret;
    __CPROVER_assume(rounds <= 63 && glen <= LMAX && hlen <= LMAX);
    g_pp_n = 0; g_pp_k = 0;
    if (!second) {
        ec_mult_verify_cb_data1 d; size_t n = 2 * rounds + 1;
        d.commit = &commit;
        d.gammas = malloc(rounds * sizeof(secp256k1_scalar)); d.proof = malloc(rounds * 65);   /* exactly what CB1_PRE promises */
        __CPROVER_assume(d.gammas != NULL && d.proof != NULL && idx < n);
        if (idx >= 1) __CPROVER_assume(scalar_ok(&d.gammas[(idx - 1) / 2]));   /* callback contract: the gammas are scalars (idx is arbitrary, so this is every entry the callback can read) */
        __CPROVER_assert(CB1_PRE(&d, n), "C19 verify_cb: harness data satisfies CB1_PRE");
        ret = ec_mult_verify_cb1(&sc, &pt, idx, &d);
        __CPROVER_assert(ret == 0 || ret == 1, "C19 verify_cb: callback 1 returns 0 or 1");
        if (ret && idx == 2 * rounds && rounds == 63) REACH("callback 1 at the last index of 63 rounds");
        if (ret && idx == 0) REACH("callback 1 yields the commitment");
    } else {
        ec_mult_verify_cb_data2 d; size_t n = glen + hlen;
        d.g_vec_len = glen;
        d.s_g = malloc(glen * sizeof(secp256k1_scalar)); d.s_h = malloc(hlen * sizeof(secp256k1_scalar)); d.g_vec = malloc(n * sizeof(secp256k1_ge));
        __CPROVER_assume(d.s_g != NULL && d.s_h != NULL && d.g_vec != NULL && idx < n);
        __CPROVER_assert(CB2_PRE(&d, n), "C19 verify_cb: harness data satisfies CB2_PRE");
        ret = ec_mult_verify_cb2(&sc, &pt, idx, &d);
        __CPROVER_assert(ret == 1, "C19 verify_cb: callback 2 returns 1");
        if (idx == n - 1 && hlen > 1) REACH("callback 2 at the last h index");
        if (idx == glen - 1 && glen > 1) REACH("callback 2 at the last g index");
    }
}

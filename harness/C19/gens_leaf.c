/* C19: frame contracts of the per-element helpers used by the generator-list functions, proved on the
 * real bodies (DFCC --enforce-contract checks every write against the assigns clause and every
 * dereference for validity).  secp256k1_fe_is_square_var (Jacobi symbol) is an oracle. */
#define BP_IS_SQUARE
#define BP_GENERATOR_SAVE
#define BP_GENERATOR_LOAD
#define BP_GENERATOR_SERIALIZE
#define BP_GENERATOR_PARSE
#define BP_SET_XQUAD
#include "assumed_bppp.h"
#include "src/secp256k1.c"
#include "post.h"

void h_generator_save(void) {
    INPUT(secp256k1_ge, ge); secp256k1_generator gen; int inf0 = ge.infinity;
    secp256k1_generator_save(&gen, &ge);
    __CPROVER_assert(ge.infinity == inf0, "C19 generator_save: infinity flag untouched");
    REACH("generator_save returns");
}
void h_generator_load(void) {
    INPUT(secp256k1_generator, gen); secp256k1_ge ge;
    secp256k1_generator_load(&ge, &gen);
    __CPROVER_assert(ge.infinity == 0 && fe_mag(&ge.x, 1) && fe_mag(&ge.y, 1), "C19 generator_load: result is a finite element with magnitude-1 coordinates");
    REACH("generator_load returns");
}
void h_generator_serialize(void) {
    secp256k1_context ctx; INPUT(secp256k1_generator, gen); unsigned char out[33]; int ret;
    verif_ctx_init(&ctx);
    ret = secp256k1_generator_serialize(&ctx, out, &gen);
    __CPROVER_assert(ret == 1 && g_illegal == 0 && g_error == 0, "C19 generator_serialize: returns 1 without callback for non-NULL arguments");
    __CPROVER_assert(out[0] == 10 || out[0] == 11, "C19 generator_serialize: first byte is 10 or 11");
    REACH("generator_serialize returns");
}

/* frame + 0/1 of the generator_parse contract used by the generator-list units, enforced on the real body
 * for non-NULL arguments (lift-x is an oracle) */
void h_generator_parse_frame(void) {
    secp256k1_context ctx; INPUT_ARR(unsigned char, in33, 33); secp256k1_generator gen; int ret;
    verif_ctx_init(&ctx);
    ret = secp256k1_generator_parse(&ctx, &gen, in33);
    __CPROVER_assert(g_illegal == 0 && g_error == 0, "C19 generator_parse: no callback for non-NULL arguments");
    if (ret) REACH("generator_parse accepts");
    if (!ret) REACH("generator_parse rejects");
}

/* C19 / C07: UNBOUNDED memory / index safety of secp256k1_bppp_rangeproof_norm_product_verify: every access
 * gammas[i], gammas[log2 i], rho_inv_pows[log2 i], s_g[i], s_g[i - 2^log2 i], s_h[...], c_vec[i], proof[65 i ..],
 * and the data handed to both multi-exponentiation callbacks (CB1_PRE / CB2_PRE, proved sufficient by
 * C19.verify_cb), for EVERY g_len, c_vec_len <= 2^16 (g_vec->n <= 2^17, proof_len <= 4200) and every scratch state.
 * All six loops (rho_f, rounds, s_g, s_h, powers_of_rho, scalar_inner_product) are closed by engine-supplied
 * loop contracts (unit table; invariants: index range only), and so is the portable clz loop
 * (invariant: x = x0 << ret with the shifted-out bits zero, which makes the result the exact leading-zero count).
 *
 * To keep goto-instrument's loop-contract pass (which inlines the whole call tree of a function that has
 * loop contracts) and the loop bodies small, the oracles are MODELS WITH A BODY here (frame = the accesses
 * the model performs or asserts; result arbitrary in representation range): secp256k1_scalar_mul / _sqr /
 * _inverse_var, secp256k1_gej_eq_var, secp256k1_sha256_write / _finalize, secp256k1_scratch_alloc (fresh
 * block, see verify.c), secp256k1_ecmult_multi_var (callback contract checked at the call, see verify.c).
 * The scalar models do NOT require their operands to be < n: under a loop contract the earlier element
 * s_g[i - 2^log2 i] is havocked and "every earlier element is < n" would need a quantified invariant.
 * Assumption therefore: the real scalar functions are memory-safe for every limb pattern (straight-line
 * uint64 arithmetic; C05).  That every operand really is < n is checked by C19.verify_gate / verify_b8
 * (bounded), which also carry the gates, the verdict and the transcript clauses. */
#include "assumed.h"
#include "include/secp256k1_preallocated.h"
#include "src/assumptions.h"
#include "src/checkmem.h"
#include "src/util.h"
#include "src/field_impl.h"
#define secp256k1_scalar_mul secp256k1_scalar_mul_real_unused
#define secp256k1_scalar_sqr secp256k1_scalar_sqr_real_unused
#define secp256k1_scalar_inverse_var secp256k1_scalar_inverse_var_real_unused
#include "src/scalar_impl.h"
#undef secp256k1_scalar_mul
#undef secp256k1_scalar_sqr
#undef secp256k1_scalar_inverse_var
#define secp256k1_gej_eq_var secp256k1_gej_eq_var_real_unused
#include "src/group_impl.h"
#undef secp256k1_gej_eq_var
#define secp256k1_ecmult_multi_var secp256k1_ecmult_multi_var_real_unused
#include "src/ecmult_impl.h"
#undef secp256k1_ecmult_multi_var
#define secp256k1_sha256_write secp256k1_sha256_write_real_unused
#define secp256k1_sha256_finalize secp256k1_sha256_finalize_real_unused
#include "src/hash_impl.h"
#undef secp256k1_sha256_write
#undef secp256k1_sha256_finalize
#define secp256k1_scratch_alloc secp256k1_scratch_alloc_real_unused
#include "src/scratch_impl.h"
#undef secp256k1_scratch_alloc

struct m_d32 { unsigned char b[32]; }; struct m_d32 nondet_m_d32(void);
secp256k1_scalar nondet_m_scalar(void); secp256k1_sha256 nondet_m_sha(void); _Bool nondet_m_bool(void); size_t nondet_m_idx(void);
int g_mm_n, g_sa_fail;
#define SC_MODEL(res) do { secp256k1_scalar t_ = nondet_m_scalar(); __CPROVER_assume(scalar_ok(&t_)); *(res) = t_; } while (0)
static void secp256k1_scalar_mul(secp256k1_scalar *r, const secp256k1_scalar *a, const secp256k1_scalar *b) {
    __CPROVER_assert(__CPROVER_r_ok(a, sizeof(*a)) && __CPROVER_r_ok(b, sizeof(*b)) && __CPROVER_w_ok(r, sizeof(*r)), "C19 verify (all lengths): scalar_mul result and operands lie inside their arrays");
    SC_MODEL(r);
}
static void secp256k1_scalar_sqr(secp256k1_scalar *r, const secp256k1_scalar *a) {
    __CPROVER_assert(__CPROVER_r_ok(a, sizeof(*a)) && __CPROVER_w_ok(r, sizeof(*r)), "C19 verify (all lengths): scalar_sqr result and operand lie inside their arrays");
    SC_MODEL(r);
}
static void secp256k1_scalar_inverse_var(secp256k1_scalar *r, const secp256k1_scalar *x) {
    __CPROVER_assert(__CPROVER_r_ok(x, sizeof(*x)) && __CPROVER_w_ok(r, sizeof(*r)), "C19 verify (all lengths): scalar_inverse_var result and operand are valid");
    SC_MODEL(r);
}
static int secp256k1_gej_eq_var(const secp256k1_gej *a, const secp256k1_gej *b) {
    __CPROVER_assert(__CPROVER_r_ok(a, sizeof(*a)) && __CPROVER_r_ok(b, sizeof(*b)), "C19 verify (all lengths): compared group elements are valid objects");
    return nondet_m_bool() ? 1 : 0;
}
static void secp256k1_sha256_write(const secp256k1_hash_ctx *hash_ctx, secp256k1_sha256 *hash, const unsigned char *data, size_t len) {
    (void)hash_ctx;
    __CPROVER_assert(__CPROVER_rw_ok(hash, sizeof(*hash)) && (len == 0 || __CPROVER_r_ok(data, len)), "C19 verify (all lengths): hashed bytes lie inside the proof / buffer");
    *hash = nondet_m_sha();
}
static void secp256k1_sha256_finalize(const secp256k1_hash_ctx *hash_ctx, secp256k1_sha256 *hash, unsigned char *out32) {
    (void)hash_ctx;
    __CPROVER_assert(__CPROVER_rw_ok(hash, sizeof(*hash)) && __CPROVER_w_ok(out32, 32), "C19 verify (all lengths): digest buffer valid");
    *hash = nondet_m_sha();
    *(struct m_d32 *)out32 = nondet_m_d32();
}
static void *secp256k1_scratch_alloc(const secp256k1_callback* error_callback, secp256k1_scratch* scratch, size_t size) {
    size_t r = (size + 15) & ~(size_t)15; void *p;
    (void)error_callback;
    __CPROVER_assert(memcmp(scratch->magic, "scratch", 8) == 0 && scratch->alloc_size <= scratch->max_size, "C19 verify (all lengths): scratch_alloc is given a genuine scratch space");
    if (size > SIZE_MAX - 15 || r > scratch->max_size - scratch->alloc_size) { g_sa_fail = 1; return NULL; }
    p = malloc(r); __CPROVER_assume(p != NULL);           /* model: fresh block of the rounded size (see verify.c) */
    scratch->alloc_size += r;
    return p;
}
#define CB1_PRE(d, n) ((n) % 2 == 1 && __CPROVER_r_ok((d)->commit, sizeof(secp256k1_ge)) && \
    ((n) == 1 || (__CPROVER_r_ok((d)->gammas, ((n) - 1) / 2 * sizeof(secp256k1_scalar)) && __CPROVER_r_ok((d)->proof, ((n) - 1) / 2 * 65))))
#define CB2_PRE(d, n) ((d)->g_vec_len <= (n) && __CPROVER_r_ok((d)->g_vec, (n) * sizeof(secp256k1_ge)) && \
    ((d)->g_vec_len == 0 || __CPROVER_r_ok((d)->s_g, (d)->g_vec_len * sizeof(secp256k1_scalar))) && \
    ((d)->g_vec_len == (n) || __CPROVER_r_ok((d)->s_h, ((n) - (d)->g_vec_len) * sizeof(secp256k1_scalar))))
static int secp256k1_ecmult_multi_var(const secp256k1_callback* error_callback, secp256k1_scratch *scratch, secp256k1_gej *r, const secp256k1_scalar *inp_g_sc, secp256k1_ecmult_multi_callback cb, void *cbdata, size_t n);
#include "src/secp256k1.c"
#include "post.h"
secp256k1_gej nondet_m_gej(void);
static int secp256k1_ecmult_multi_var(const secp256k1_callback* error_callback, secp256k1_scratch *scratch, secp256k1_gej *r, const secp256k1_scalar *inp_g_sc, secp256k1_ecmult_multi_callback cb, void *cbdata, size_t n) {
    secp256k1_gej res = nondet_m_gej();
    (void)error_callback; (void)scratch; (void)inp_g_sc;
    if (cb == ec_mult_verify_cb1) {
        const ec_mult_verify_cb_data1 *d = (const ec_mult_verify_cb_data1 *)cbdata;
        __CPROVER_assert(CB1_PRE(d, n), "C19 verify (all lengths): first callback gets commit, gammas[(n-1)/2] and proof[65 (n-1)/2] readable (callback contract, C19.verify_cb)");
    } else if (cb == ec_mult_verify_cb2) {
        const ec_mult_verify_cb_data2 *d = (const ec_mult_verify_cb_data2 *)cbdata;
        __CPROVER_assert(CB2_PRE(d, n), "C19 verify (all lengths): second callback gets s_g[g_len], s_h[n - g_len] and n generators readable (callback contract, C19.verify_cb)");
    } else __CPROVER_assert(0, "C19 verify (all lengths): multi-exponentiation is given one of the two verifier callbacks");
    __CPROVER_assume(gej_ok(&res));
    *r = res;
    g_mm_n++;
    return nondet_m_bool() ? 1 : 0;
}

#define LMAX ((size_t)1 << 16)
#define PMAX ((size_t)(65 * 63 + 64 + 40))
#define MAXS ((size_t)1 << 26)

void h_verify_loops(void) {
    secp256k1_context ctx; secp256k1_scratch scr; secp256k1_bppp_generators gv;
    INPUT(size_t, g_len); INPUT(size_t, c_len); INPUT(size_t, gn); INPUT(size_t, proof_len);
    INPUT(size_t, max_size); INPUT(size_t, alloc0);
    INPUT(secp256k1_scalar, rho); INPUT(secp256k1_sha256, tr); INPUT(secp256k1_ge, commit);
    unsigned char *proof; secp256k1_scalar *c_vec; int ret;
    verif_ctx_init(&ctx);
    /* input domain: lengths that valid objects can have; representation invariant of rho */
    __CPROVER_assume(c_len <= LMAX && gn <= 2 * LMAX && proof_len <= PMAX && max_size <= MAXS && alloc0 <= max_size);
    __CPROVER_assume(scalar_ok(&rho));
    memcpy(scr.magic, "scratch", 8); scr.max_size = max_size; scr.alloc_size = alloc0;
    scr.data = malloc(1); __CPROVER_assume(scr.data != NULL);
    proof = malloc(proof_len); gv.n = gn; gv.gens = malloc(gn * sizeof(secp256k1_ge)); c_vec = malloc(c_len * sizeof(secp256k1_scalar));
    __CPROVER_assume(proof != NULL && gv.gens != NULL && c_vec != NULL);
    g_mm_n = 0; g_sa_fail = 0;
    ret = secp256k1_bppp_rangeproof_norm_product_verify(&ctx, &scr, proof, proof_len, &tr, &rho, &gv, g_len, c_vec, c_len, &commit);
    __CPROVER_assert(ret == 0 || ret == 1, "C19 verify (all lengths): returns 0 or 1");
    __CPROVER_assert(g_error == 0 && g_illegal == 0, "C19 verify (all lengths): no callback");
    __CPROVER_assert(scr.alloc_size == alloc0, "C19 verify (all lengths): scratch checkpoint restored on every return path");
    if (g_sa_fail) __CPROVER_assert(ret == 0, "C19 verify (all lengths): insufficient scratch space => 0");
    if (ret == 1 && g_len == 1024 && c_len == 8) REACH("accepts with 1024 + 8 generators (10 rounds)");
    if (ret == 1 && g_len == 1 && c_len == 65536) REACH("accepts with 16 rounds driven by the c vector");
    if (ret == 0 && g_mm_n == 2) REACH("rejects on the final comparison");
    if (g_sa_fail && g_len >= 256) REACH("scratch exhaustion with long vectors");
}

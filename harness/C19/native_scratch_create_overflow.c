/* NOT a proof unit: native reproducer (clang -DVERIF_NATIVE -fsanitize=address -I/repo -I/repo/src -I/repo/include) for the
 * observation that secp256k1_scratch_create(cb, size) overflows `base_alloc + size` for size > SIZE_MAX - 32:
 * malloc(21) followed by memset(ret, 0, 32) = heap-buffer-overflow (ASan).  The function is static and only
 * reachable through the (also static) secp256k1_scratch_space_create, with a size chosen by trusted code. */
#include "/verif/harness/cfg.h"
#include "/repo/src/secp256k1.c"
#include "/repo/src/precomputed_ecmult.c"
#include "/repo/src/precomputed_ecmult_gen.c"
int main(void) {
    secp256k1_callback cb = { secp256k1_default_error_callback_fn, NULL };
    secp256k1_scratch *s = secp256k1_scratch_create(&cb, (size_t)-11);   /* base_alloc(32) + size wraps to 21 */
    printf("scratch=%p max_size=%zu\n", (void*)s, s ? s->max_size : 0);
    return 0;
}

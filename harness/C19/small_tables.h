/* Verifier-side only: the precomputed ecmult / ecmult_gen tables are `extern const` arrays without a definition in
 * the harness TU (~1 MB of unconstrained bytes: ~30 s and 1 GB per unit, and a 400 MB JSON trace per
 * REACH witness).  No C19 / C07-misc unit reads them (ecmult* are never reached or are replaced by
 * contracts), so the verifier gets the smallest legal window and comb.  Include after the contract headers and
 * before "src/secp256k1.c".  The native replay build keeps the configured size. */
#ifndef VERIF_NATIVE
# undef ECMULT_WINDOW_SIZE
# define ECMULT_WINDOW_SIZE 2
# undef COMB_BLOCKS
# define COMB_BLOCKS 1
# undef COMB_TEETH
# define COMB_TEETH 1
#endif

/* C19: secp256k1_bppp_log2 and secp256k1_is_power_of_two equal their specifications over all 2^64
 * arguments (log2: all n != 0, which is the documented precondition and what every caller
 * establishes).  The portable secp256k1_clz64_var loop (HAVE_BUILTIN_CLZLL is not defined by the
 * verification configuration) is closed by full unwinding: <= 63 iterations for n != 0. */
#include "assumed.h"
#include "src/secp256k1.c"
#include "post.h"

void h_log2(void) {
    INPUT(uint64_t, n);
    size_t k;
    __CPROVER_assume(n != 0);                 /* documented: "n must NOT be 0" */
    k = secp256k1_bppp_log2((size_t)n);
    __CPROVER_assert(k < 64, "C19 log2: result is below 64");
    if (k < 64) __CPROVER_assert((n >> k) == 1, "C19 log2: 2^k <= n < 2^(k+1), i.e. k = floor(log2 n)");
    if (secp256k1_is_power_of_two((size_t)n) && k < 64) __CPROVER_assert(n == ((uint64_t)1 << k), "C19 log2: a power of two equals 2^log2");
    if (k == 63) REACH("log2 of a value with the top bit set");
    if (k == 0) REACH("log2(1) = 0");
    if (k == 17 && (n & (n - 1)) != 0) REACH("log2 of a non power of two");
}

void h_pow2(void) {
    INPUT(uint64_t, n);
    int r, pc = 0, i;
    r = secp256k1_is_power_of_two((size_t)n);
    for (i = 0; i < 64; i++) pc += (int)((n >> i) & 1);
    __CPROVER_assert(r == (pc == 1), "C19 is_power_of_two: returns 1 exactly when exactly one bit is set (0 is not a power of two)");
    if (r) REACH("a power of two");
    if (!r && n != 0) REACH("a non-zero non power of two");
    if (n == 0) REACH("zero");
}

/* Index lemma behind the s_g / s_h loops of the norm-argument verifier (which index gammas[log2 i],
 * rho_inv_pows[log2 i] and s_g[i - 2^log2 i] for 1 <= i < len, the arrays having log2(len) resp. len
 * entries): for EVERY power of two len and every 1 <= i < len.  This is a statement about the real
 * secp256k1_bppp_log2, not about the loop code; C19.verify_gate / verify_b8 check the loop code itself
 * for bounded lengths. */
void h_log2_index(void) {
    INPUT(uint64_t, len); INPUT(uint64_t, i);
    size_t lg, li;
    __CPROVER_assume(secp256k1_is_power_of_two((size_t)len) && 1 <= i && i < len);
    lg = secp256k1_bppp_log2((size_t)len); li = secp256k1_bppp_log2((size_t)i);
    __CPROVER_assert(li < lg, "C19 log2 index lemma: log2(i) < log2(len), so gammas[log2 i] and rho_inv_pows[log2 i] are inside arrays of log2(len) entries");
    __CPROVER_assert(li < 64 && ((uint64_t)1 << li) <= i, "C19 log2 index lemma: 2^log2(i) <= i, so i - 2^log2(i) does not wrap and is an earlier index");
    if (len == ((uint64_t)1 << 63) && i == len - 1) REACH("largest length and index");
    if (len == 2) REACH("length 2");
}

/* C19: secp256k1_bppp_log2 and secp256k1_is_power_of_two equal their specifications over all 2^64
 * arguments (log2: all n != 0, which is the documented precondition and what every caller
 * establishes).  The portable secp256k1_clz64_var loop (HAVE_BUILTIN_CLZLL is not defined by the
 * verification configuration) is closed by full unwinding: <= 63 iterations for n != 0. */
#include "assumed.h"
#include "src/secp256k1.c"
#include "post.h"

void h_log2(void) {
    INPUT(uint64_t, n);
    size_t k;
    __CPROVER_assume(n != 0);                 /* documented: "n must NOT be 0" */
    k = secp256k1_bppp_log2((size_t)n);
    __CPROVER_assert(k < 64, "C19 log2: result is below 64");
    if (k < 64) __CPROVER_assert((n >> k) == 1, "C19 log2: 2^k <= n < 2^(k+1), i.e. k = floor(log2 n)");
    if (secp256k1_is_power_of_two((size_t)n) && k < 64) __CPROVER_assert(n == ((uint64_t)1 << k), "C19 log2: a power of two equals 2^log2");
    if (k == 63) REACH("log2 of a value with the top bit set");
    if (k == 0) REACH("log2(1) = 0");
    if (k == 17 && (n & (n - 1)) != 0) REACH("log2 of a non power of two");
}

void h_pow2(void) {
    INPUT(uint64_t, n);
    int r, pc = 0, i;
    r = secp256k1_is_power_of_two((size_t)n);
    for (i = 0; i < 64; i++) pc += (int)((n >> i) & 1);
    __CPROVER_assert(r == (pc == 1), "C19 is_power_of_two: returns 1 exactly when exactly one bit is set (0 is not a power of two)");
    if (r) REACH("a power of two");
    if (!r && n != 0) REACH("a non-zero non power of two");
    if (n == 0) REACH("zero");
}

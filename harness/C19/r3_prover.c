/* C19 / C07 (r3): secp256k1_bppp_rangeproof_norm_product_prove - the PROVER of the norm argument, -DVERIFY build.
 *
 * The prover has NO run-time gates: its documented contract is the VERIFY_CHECK block at its head (lengths > 0 and
 * powers of two, g_vec_len == n_vec_len + l_vec_len, l_vec_len == c_vec_len, *proof_len >= 65 * rounds + 64).  The
 * harness ASSUMES exactly that contract (and the representation invariants of the inputs) and proves, for every oracle
 * answer:
 *   - none of the function's own VERIFY_CHECKs and none of the VERIFY_CHECKs of the group / field / scalar functions it
 *     calls can fail (abort is an obligation): CALLEE PRECONDITIONS - e.g. secp256k1_ge_set_gej_zinv / _ge_set_gej are not
 *     reached with infinity, every field operand has the documented magnitude, every point handed to the
 *     multi-exponentiation through the callbacks is a valid group element and every scalar is below the group order;
 *   - memory / index safety: proof writes inside the exactly-sized proof object, in-place halving of n_vec / l_vec /
 *     c_vec / g_vec inside exactly-sized objects, callback indices (every idx < n) inside them;
 *   - fail closed / completeness over oracle verdicts: 0 iff a multi-exponentiation failed; scratch space unchanged;
 *   - on success *proof_len == 65 * rounds + 64 (the only length the verifier accepts), the two trailing scalars are
 *     below the group order, and every byte of every round's 65-byte point pair was absorbed into the transcript.
 * BOUNDED: g_len, h_len <= VLEN (default 4: all 9 length pairs, up to 2 rounds), loops unwound with unwinding assertions.
 *
 * Oracles (contracts/assumed_r3_bppp.h): fe mul / sqr / inv_var, scalar mul / sqr / inverse_var, ecmult, gej_add_var,
 * gej_add_ge_var; hash stream (hash_log.h).  secp256k1_ecmult_multi_var is a MODEL WITH A BODY (it takes a callback): runs
 * the callback for an arbitrary index below n, checks what the callback hands out, yields an ARBITRARY valid Jacobian
 * element (infinity or not, independently per call: sparse witnesses really give R = infinity with X finite) and an
 * arbitrary verdict; it does not touch the scratch space.  Real: ge_set_gej_var, ge_set_gej_zinv, gej_set_ge,
 * serialize_points, ge_serialize_ext, pubkey_serialize33, fe normalize / get_b32, scalar add / get_b32 / set_b32,
 * challenge_scalar, bppp_log2, both callbacks. */
#ifndef VLEN
# define VLEN 4
#endif
#include "assumed_r3_bppp.h"
#include "hash_log.h"

int g_mm_n, g_mm_allok;            /* multi-exponentiations so far; all verdicts positive */
int g_mm_inf_last, g_mm_inf_prev;  /* infinity flags of the two latest results */
int g_mm_mixed;                    /* two consecutive results differed in their infinity flag */
#include "include/secp256k1_preallocated.h"
#include "src/assumptions.h"
#include "src/checkmem.h"
#include "src/util.h"
#include "src/field_impl.h"
#include "src/scalar_impl.h"
#include "src/group_impl.h"
#define secp256k1_ecmult_multi_var secp256k1_ecmult_multi_var_real_unused
#include "src/ecmult_impl.h"
#undef secp256k1_ecmult_multi_var
size_t nondet_mm_idx(void); _Bool nondet_mm_ok(void);
static int secp256k1_ecmult_multi_var(const secp256k1_callback* error_callback, secp256k1_scratch *scratch, secp256k1_gej *r, const secp256k1_scalar *inp_g_sc, secp256k1_ecmult_multi_callback cb, void *cbdata, size_t n);
#include "src/secp256k1.c"
#include "post.h"

static int secp256k1_ecmult_multi_var(const secp256k1_callback* error_callback, secp256k1_scratch *scratch, secp256k1_gej *r, const secp256k1_scalar *inp_g_sc, secp256k1_ecmult_multi_callback cb, void *cbdata, size_t n) {
    secp256k1_gej res; int ok = 1;
    (void)error_callback; (void)scratch;
    if (inp_g_sc != NULL) __CPROVER_assert(scalar_ok(inp_g_sc), "C19 prover: generator scalar handed to the multi-exponentiation is below n");
    if (n > 0) {
        secp256k1_scalar sc; secp256k1_ge pt; size_t idx = nondet_mm_idx();
        __CPROVER_assume(idx < n);                       /* model: callback indices are below n */
        if (cb == ecmult_x_cb) ok = ecmult_x_cb(&sc, &pt, idx, cbdata);
        else if (cb == ecmult_r_cb) ok = ecmult_r_cb(&sc, &pt, idx, cbdata);
        else ok = cb(&sc, &pt, idx, cbdata);
        if (ok) {
            __CPROVER_assert(scalar_ok(&sc), "C19 prover: every scalar a multi-exponentiation callback hands out is below n");
            __CPROVER_assert(bp_ge_ok(&pt), "C19 prover: every point a multi-exponentiation callback hands out is a valid group element (secp256k1_ge_verify)");
        }
    }
    __CPROVER_assume(bp_gej_ok(&res));                   /* model: result in representation range, infinity arbitrary */
    *r = res;
    ok = ok && nondet_mm_ok();                           /* model: fails when a callback fails or scratch space runs out */
    g_mm_inf_prev = g_mm_inf_last; g_mm_inf_last = res.infinity;
    if (g_mm_n % 2 == 1 && g_mm_inf_prev != g_mm_inf_last) g_mm_mixed = 1;
    g_mm_n++; g_mm_allok = g_mm_allok && ok;
    return ok;
}

#define MAXS ((size_t)1 << 12)
static int spec_log2(size_t x) { int b, r = 0; for (b = 0; b < 64; b++) if ((x >> b) != 0) r = b; return r; }
static int spec_pow2(size_t x) { int b, c = 0; for (b = 0; b < 64; b++) c += (int)((x >> b) & 1); return c == 1; }

void h_prove(void) {
    secp256k1_context ctx; secp256k1_scratch scr;
    INPUT(size_t, g_len); INPUT(size_t, h_len); INPUT(size_t, c_len); INPUT(size_t, gv_len); INPUT(size_t, plen0);
    INPUT(size_t, max_size); INPUT(size_t, alloc0); INPUT(_Bool, use_scratch);
    INPUT(secp256k1_scalar, rho); INPUT(secp256k1_sha256, tr);
    INPUT(size_t, we); INPUT(size_t, wk);
    unsigned char *proof; secp256k1_scalar *n_vec, *l_vec, *c_vec; secp256k1_ge *g_vec;
    size_t plen, need; int ret, rounds, lg, lh; uint64_t bytes0;
    verif_ctx_init(&ctx);
    /* ---- the function's documented contract (its VERIFY_CHECK block), bounded to vectors of at most VLEN entries ---- */
    __CPROVER_assume(g_len > 0 && h_len > 0 && spec_pow2(g_len) && spec_pow2(h_len) && g_len <= VLEN && h_len <= VLEN);
    __CPROVER_assume(c_len == h_len && gv_len == g_len + h_len);
    lg = spec_log2(g_len); lh = spec_log2(h_len); rounds = lg > lh ? lg : lh;
    need = 65 * (size_t)rounds + 64;
    __CPROVER_assume(plen0 >= need && plen0 <= need + 130);
    /* ---- representation invariants of the inputs ---- */
    __CPROVER_assume(scalar_ok(&rho) && tr.bytes <= ((uint64_t)1 << 40));
    __CPROVER_assume(max_size <= MAXS && alloc0 <= max_size && we < 8 && wk < 65);
    memcpy(scr.magic, "scratch", 8); scr.max_size = max_size; scr.alloc_size = alloc0;
    scr.data = malloc(1); __CPROVER_assume(scr.data != NULL);
    INPUT_BUF(pf, proof, plen0, 8);                         /* exactly *proof_len bytes */
    n_vec = malloc(g_len * sizeof(secp256k1_scalar)); l_vec = malloc(h_len * sizeof(secp256k1_scalar));
    c_vec = malloc(c_len * sizeof(secp256k1_scalar)); g_vec = malloc(gv_len * sizeof(secp256k1_ge));
    __CPROVER_assume(n_vec != NULL && l_vec != NULL && c_vec != NULL && g_vec != NULL);
    { size_t q; for (q = 0; q < VLEN; q++) {
        if (q < g_len) __CPROVER_assume(scalar_ok(&n_vec[q]));
        if (q < h_len) __CPROVER_assume(scalar_ok(&l_vec[q]) && scalar_ok(&c_vec[q])); }
      for (q = 0; q < 2 * VLEN; q++) if (q < gv_len) __CPROVER_assume(bp_ge_ok(&g_vec[q])); }   /* generators: valid group elements */
    plen = plen0; bytes0 = tr.bytes;
    HASHLOG_RESET(); g_we = (int)we; g_wpos = bytes0 + 65 * we + wk;
    g_mm_n = 0; g_mm_allok = 1; g_mm_inf_last = 0; g_mm_inf_prev = 0; g_mm_mixed = 0;

    ret = secp256k1_bppp_rangeproof_norm_product_prove(&ctx, use_scratch ? &scr : NULL, proof, &plen, &tr, &rho, g_vec, gv_len, n_vec, g_len, l_vec, h_len, c_vec, c_len);
    WITNESS_BUF(pf, proof, plen0, 8);

    __CPROVER_assert(ret == 0 || ret == 1, "C19 prover: returns 0 or 1");
    __CPROVER_assert(g_error == 0 && g_illegal == 0, "C19 prover: no callback");
    __CPROVER_assert(scr.alloc_size == alloc0 && scr.max_size == max_size, "C19 prover: scratch space left as it was found on every return path");
    if (!g_mm_allok) __CPROVER_assert(ret == 0, "C19 prover: a failed multi-exponentiation (scratch space) => 0");
    if (g_mm_allok) __CPROVER_assert(ret == 1, "C19 prover: with every multi-exponentiation successful a proof is produced");
    if (ret == 1) {
        __CPROVER_assert(plen == need, "C19 prover: on success *proof_len is 65 * rounds + 64 (the only length the verifier accepts)");
#ifndef VERIF_NATIVE
        __CPROVER_assert(be256(&proof[65 * rounds]) < N_() && be256(&proof[65 * rounds + 32]) < N_(), "C19 prover: the two trailing proof scalars are below the group order");
#endif
        if ((int)we < rounds) __CPROVER_assert(g_w_hit == 1 && g_w_byte == proof[65 * we + wk], "C19 prover: every byte of every round's 65-byte point pair in the proof is the byte absorbed into the transcript");
        if ((int)we < rounds) __CPROVER_assert(proof[65 * we] <= 3, "C19 prover: the sign byte of every round's point pair is at most 3");
    }
    if (ret == 1 && rounds >= (VLEN >= 8 ? 3 : VLEN >= 4 ? 2 : 1) && lg != lh) REACH("success with the maximal number of rounds and different vector lengths");
    if (ret == 1 && g_len == 1 && h_len == 1) REACH("success with zero rounds");
    if (ret == 1 && g_mm_mixed) REACH("success with a round whose X and R differ in being the point at infinity");
    if (ret == 0 && g_mm_n >= (VLEN >= 4 ? 3 : 2)) REACH("a multi-exponentiation after the first one fails");
    if (ret == 1 && plen0 > need) REACH("success with a larger proof buffer");
    if (ret == 1 && !use_scratch) REACH("success without scratch space");
}

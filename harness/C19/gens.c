/* C19 / C07: generator lists (src/modules/bppp/main_impl.h): parse, serialize.
 *
 * h_gens_parse      every data_len <= MAXLEN, every byte string, data NULL or an object of EXACTLY
 *                   data_len bytes; loop closed by the loop contract hooks/C19_gens_loops.diff; run
 *                   with --memory-leak-check: the harness releases the result and its own buffer,
 *                   so any block still allocated at the end was leaked by a rejection path.
 * h_gens_parse_b4   (-DGENS_LOG) bounded stand-in n <= 4, loop unwound: accept <=> every element
 *                   accepted, each element decoded exactly once from data[33 j] into gens[j].
 * h_gens_serialize  every n <= NMAX and every *data_len; buffer of exactly *data_len bytes.
 * secp256k1_generator_parse is replaced by its contract (proved by C07.generator_parse); generator_load /
 * _save / _serialize by their frame contracts (proved by C19.generator_load / _save / _serialize). */
#define BP_MEMSET
#define BP_GENERATOR_SAVE
#define BP_GENERATOR_SERIALIZE
#ifndef GENS_LOG
# define BP_GENERATOR_PARSE
# define BP_GENERATOR_LOAD
#endif
#include "assumed_bppp.h"

#ifdef GENS_LOG
/* logging form of the generator_parse contract.  Watches chosen by the harness, never assigned by
 * code: g_gp_base/g_gp_j select "the call whose input is element j of the list". */
int g_gp_n, g_gp_fail, g_gp_hit, g_gp_hv; const unsigned char *g_gp_base; size_t g_gp_j; secp256k1_generator g_gp_gen;
#define GB4(i) g_gp_gen.data[i] == gen->data[i] && g_gp_gen.data[i+1] == gen->data[i+1] && g_gp_gen.data[i+2] == gen->data[i+2] && g_gp_gen.data[i+3] == gen->data[i+3]
#define GK4(i) g_gp_gen.data[i] == __CPROVER_old(g_gp_gen.data[i]) && g_gp_gen.data[i+1] == __CPROVER_old(g_gp_gen.data[i+1]) && g_gp_gen.data[i+2] == __CPROVER_old(g_gp_gen.data[i+2]) && g_gp_gen.data[i+3] == __CPROVER_old(g_gp_gen.data[i+3])
#define GB16(i) GB4(i) && GB4(i+4) && GB4(i+8) && GB4(i+12)
#define GK16(i) GK4(i) && GK4(i+4) && GK4(i+8) && GK4(i+12)
int secp256k1_generator_parse(const secp256k1_context *ctx, secp256k1_generator *gen, const unsigned char *input)
__CPROVER_requires(ctx != NULL && __CPROVER_w_ok(gen, sizeof(*gen)) && __CPROVER_r_ok(input, 33))
__CPROVER_assigns(*gen, g_gp_n, g_gp_fail, g_gp_hit, g_gp_hv, g_gp_gen)
__CPROVER_ensures(__CPROVER_return_value == 0 || __CPROVER_return_value == 1)
__CPROVER_ensures(g_gp_n == __CPROVER_old(g_gp_n) + 1)
__CPROVER_ensures(g_gp_fail == (__CPROVER_old(g_gp_fail) || __CPROVER_return_value == 0))
__CPROVER_ensures((__CPROVER_same_object(input, g_gp_base) && __CPROVER_POINTER_OFFSET(input) == 33 * g_gp_j)
    ? (g_gp_hit == __CPROVER_old(g_gp_hit) + 1 && g_gp_hv == __CPROVER_return_value && GB16(0) && GB16(16) && GB16(32) && GB16(48))
    : (g_gp_hit == __CPROVER_old(g_gp_hit) && g_gp_hv == __CPROVER_old(g_gp_hv) && GK16(0) && GK16(16) && GK16(32) && GK16(48)))
;
#endif

#include "src/secp256k1.c"
#include "post.h"

#ifndef NMAX
# define NMAX  ((size_t)1 << 20)          /* 2^20 generators */
#endif
#define MAXLEN (33 * NMAX)

#ifndef GENS_LOG
void h_gens_parse(void) {
    secp256k1_context ctx;
    INPUT(size_t, len); INPUT(_Bool, use_data);
    unsigned char *data; secp256k1_bppp_generators *g; size_t n_out = 0;
    verif_ctx_init(&ctx);
    __CPROVER_assume(len <= MAXLEN);
    INPUT_BUF(buf, data, len, 66);
    g = secp256k1_bppp_generators_parse(&ctx, use_data ? data : NULL, len);
    WITNESS_BUF(buf, data, len, 66);
#ifdef GENS_OOM
    /* variant run with --malloc-may-fail: any allocation may return NULL */
    __CPROVER_assert(g_error <= 1 && (g_error == 0 || g == NULL), "C19 generators_parse: allocation failure => one error callback and NULL");
#else
    __CPROVER_assert(g_error == 0, "C19 generators_parse: error callback never invoked (allocation succeeds)");
#endif
    if (!use_data) __CPROVER_assert(g == NULL && g_illegal == 1, "C19 generators_parse: NULL data is an illegal argument, result NULL");
    if (use_data) __CPROVER_assert(g_illegal == 0, "C19 generators_parse: no illegal callback for non-NULL arguments");
    if (len % 33 != 0) __CPROVER_assert(g == NULL, "C19 generators_parse: length not a multiple of 33 => NULL");
    if (g != NULL) {
        n_out = g->n;
        __CPROVER_assert(use_data && len % 33 == 0 && g->n == len / 33, "C19 generators_parse: success => n = data_len / 33");
    }
    if (g != NULL && n_out >= 2) REACH("list of at least two generators parsed");
    if (g != NULL && n_out == 0) REACH("empty list parsed");
    if (g == NULL && use_data && len % 33 == 0 && len >= 66) REACH("malformed element rejected");
    if (g == NULL && use_data && len % 33 != 0) REACH("bad length rejected");
#ifdef GENS_OOM
    if (g == NULL && g_error == 1) REACH("allocation failure");
#endif
    secp256k1_bppp_generators_destroy(&ctx, g);
    free(data);
    /* --memory-leak-check obligation follows the harness */
}
#else
/* bounded stand-in: data_len = 33 n for each CONCRETE n in 0..4 (allocation sizes are then constants,
 * which keeps the element-level equalities cheap); lengths that are not a multiple of 33 are covered,
 * unbounded, by h_gens_parse */
static void gens_parse_case(size_t len, size_t j) {
    secp256k1_context ctx; unsigned char *data; secp256k1_bppp_generators *g;
    verif_ctx_init(&ctx);
    data = malloc(len); __CPROVER_assume(data != NULL);                 /* exactly len bytes, also for len = 0 */
    g_gp_n = 0; g_gp_fail = 0; g_gp_hit = 0; g_gp_hv = 0; g_gp_base = data; g_gp_j = j;
    g = secp256k1_bppp_generators_parse(&ctx, data, len);
    __CPROVER_assert(g_error == 0 && g_illegal == 0, "C19 generators_parse (n<=4): no callback");
    __CPROVER_assert((g != NULL) == (g_gp_fail == 0), "C19 generators_parse (n<=4): accepted exactly when every 33-byte element is accepted by generator_parse");
    if (g != NULL) {
        __CPROVER_assert(g->n == len / 33, "C19 generators_parse (n<=4): n = data_len / 33 elements");
        if (j < len / 33) {
            secp256k1_ge e;
            __CPROVER_assert(g_gp_hit >= 1 && g_gp_hv == 1, "C19 generators_parse (n<=4): an accepted list had element j decoded, from data[33 j], with a positive verdict");
            secp256k1_generator_load(&e, &g_gp_gen);
            __CPROVER_assert(FE_EQ(e.x, g->gens[j].x) && FE_EQ(e.y, g->gens[j].y) && g->gens[j].infinity == 0, "C19 generators_parse (n<=4): gens[j] is the generator decoded from element j");
        }
    }
    if (g != NULL && len == 132 && j == 2) REACH("four generators parsed");
    if (g == NULL && len == 132 && g_gp_n == 3) REACH("third decoded element malformed");
    if (g != NULL && len == 0) REACH("empty list parsed");
    secp256k1_bppp_generators_destroy(&ctx, g);
    free(data);
}
void h_gens_parse_b4(void) {
    INPUT(size_t, nn); INPUT(size_t, j);
    __CPROVER_assume(nn <= 4 && j < 4);
    switch (nn) {
        case 0: gens_parse_case(0, j); break;
        case 1: gens_parse_case(33, j); break;
        case 2: gens_parse_case(66, j); break;
        case 3: gens_parse_case(99, j); break;
        default: gens_parse_case(132, j); break;
    }
}
#endif

void h_gens_serialize(void) {
    secp256k1_context ctx;
    INPUT(size_t, n); INPUT(size_t, len); INPUT(_Bool, use_g); INPUT(_Bool, use_data); INPUT(_Bool, use_len);
    secp256k1_bppp_generators gs; unsigned char *data; size_t len_io = len; int ret;
    verif_ctx_init(&ctx);
    __CPROVER_assume(n <= NMAX && len <= MAXLEN + 64);
    gs.n = n;
    gs.gens = malloc(n * sizeof(secp256k1_ge));             /* contents arbitrary; typed so that the verifier sees an array of group elements */
    data = malloc(len);                                     /* exactly *data_len bytes (also for 0) */
    __CPROVER_assume(gs.gens != NULL && data != NULL);
    ret = secp256k1_bppp_generators_serialize(&ctx, use_g ? &gs : NULL, use_data ? data : NULL, use_len ? &len_io : NULL);
    __CPROVER_assert(ret == 0 || ret == 1, "C19 generators_serialize: returns 0 or 1");
    __CPROVER_assert(g_error == 0, "C19 generators_serialize: error callback never invoked");
    if (use_g && use_data && use_len) {
        __CPROVER_assert(ret == (len >= 33 * n), "C19 generators_serialize: succeeds exactly when the buffer holds 33 n bytes");
        /* header: "Returns 1 on success, 0 if the provided array was not large enough" - with or without the illegal callback */
        __CPROVER_assert(g_illegal <= 1 && (ret == 0 || g_illegal == 0), "C19 generators_serialize: no illegal callback on success, at most one for a too-small buffer");
        if (ret) __CPROVER_assert(len_io == 33 * n, "C19 generators_serialize: *data_len = 33 n on success");
    } else {
        __CPROVER_assert(ret == 0 && g_illegal == 1, "C19 generators_serialize: NULL argument is illegal");
    }
    if (ret && n >= 3 && len > 33 * n) REACH("three or more generators serialized into a larger buffer");
    if (ret && n == 0) REACH("empty list serialized");
    if (!ret && use_g && use_data && use_len) REACH("buffer too small");
}

/* Build configuration of every proof unit: all modules on (recovery included), default table sizes.
 * engine/setup.sh checks that every ENABLE_MODULE_* tested in $REPO/src/secp256k1.c is listed here. */
#ifndef VERIF_CFG_H
#define VERIF_CFG_H
/* Table-size parameters.  The precomputed ecmult/ecmult_gen tables are `extern const` arrays with no
 * definition in a harness TU (about 1 MB of unconstrained bytes: ~30 s and ~1 GB per unit for
 * nothing).  Units in which no function under contract reads the tables (ecmult, ecmult_gen,
 * ecmult_const are replaced by contracts) are therefore verified with the smallest supported preset
 * (window 2, comb 2x5 = the ECMULT_GEN_KB=2 preset); units that do execute table code define
 * VERIF_BIG_TABLES (shipped sizes: window 15, comb 43x6).  The native replay build always uses the
 * shipped sizes, which are the ones precomputed_ecmult*.c is generated for. */
#if defined(VERIF_BIG_TABLES) || defined(VERIF_NATIVE)
#define ECMULT_WINDOW_SIZE 15
#define COMB_BLOCKS 43
#define COMB_TEETH 6
#else
#define ECMULT_WINDOW_SIZE 2
#define COMB_BLOCKS 2
#define COMB_TEETH 5
#endif
#define ENABLE_MODULE_ECDH 1
#define ENABLE_MODULE_RECOVERY 1
#define ENABLE_MODULE_EXTRAKEYS 1
#define ENABLE_MODULE_SCHNORRSIG 1
#define ENABLE_MODULE_MUSIG 1
#define ENABLE_MODULE_ELLSWIFT 1
#define ENABLE_MODULE_GENERATOR 1
#define ENABLE_MODULE_RANGEPROOF 1
#define ENABLE_MODULE_SURJECTIONPROOF 1
#define ENABLE_MODULE_WHITELIST 1
#define ENABLE_MODULE_ECDSA_ADAPTOR 1
#define ENABLE_MODULE_ECDSA_S2C 1
#define ENABLE_MODULE_BPPP 1
#define ENABLE_MODULE_SCHNORRSIG_HALFAGG 1
#define SECP256K1_BUILD
#endif

/* Build configuration of every proof unit: all modules on (recovery included), default table sizes.
 * engine/setup.sh checks that every ENABLE_MODULE_* tested in $REPO/src/secp256k1.c is listed here. */
#ifndef VERIF_CFG_H
#define VERIF_CFG_H
#define ECMULT_WINDOW_SIZE 15
#define COMB_BLOCKS 43
#define COMB_TEETH 6
#define ENABLE_MODULE_ECDH 1
#define ENABLE_MODULE_RECOVERY 1
#define ENABLE_MODULE_EXTRAKEYS 1
#define ENABLE_MODULE_SCHNORRSIG 1
#define ENABLE_MODULE_MUSIG 1
#define ENABLE_MODULE_ELLSWIFT 1
#define ENABLE_MODULE_GENERATOR 1
#define ENABLE_MODULE_RANGEPROOF 1
#define ENABLE_MODULE_SURJECTIONPROOF 1
#define ENABLE_MODULE_WHITELIST 1
#define ENABLE_MODULE_ECDSA_ADAPTOR 1
#define ENABLE_MODULE_ECDSA_S2C 1
#define ENABLE_MODULE_BPPP 1
#define ENABLE_MODULE_SCHNORRSIG_HALFAGG 1
#define SECP256K1_BUILD
#endif

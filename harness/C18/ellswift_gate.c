/* C18: secp256k1_ellswift_create / _encode - failure gates, output zeroing, PRNG seeding stream, output layout.
 * The encoder search secp256k1_ellswift_elligatorswift_var is replaced by an ASSUMED oracle with a log
 * (assumed_C18.h); ecmult_gen / ge_set_gej likewise.  SHA-256 object: stream contracts (hash_log.h).
 * Real code: key parsing/masking, normalisation, serialisation, seeding writes, fe_get_b32, memczero.
 *   h_ellswift_create  ret = (0 < seckey < n); static/unbuilt context, NULL => illegal; EVERY failure => ell64 = 0^64;
 *                      seeding stream = "secp256k1_ellswift_create" midstate || seckey32 || 0^32 [|| auxrnd32];
 *                      the point encoded is seckey*G as returned by the oracles, normalised; ell64 = u32 || be32(t).
 *   h_ellswift_encode  invalid pubkey object => illegal, ret 0, ell64 = 0^64; seeding stream = "secp256k1_ellswift_encode"
 *                      midstate || ser33(P) || 0^31 || rnd32; ell64 = u32 || be32(t). */
#include "assumed_C18.h"
#include "hash_log.h"
#include "../C04/spec.h"
#include "src/secp256k1.c"
#include "post.h"
#define GEJ_EQ(a, b) (FE_EQ((a).x, (b).x) && FE_EQ((a).y, (b).y) && FE_EQ((a).z, (b).z) && (a).infinity == (b).infinity)

#ifdef U_ELLSWIFT_CREATE
void h_ellswift_create(void) {
    secp256k1_context ctx;
    INPUT_ARR(unsigned char, ell, 64); INPUT_ARR(unsigned char, key, 32); INPUT_ARR(unsigned char, aux, 32);
    INPUT(_Bool, use_ell); INPUT(_Bool, use_key); INPUT(_Bool, use_aux); INPUT(int, built); INPUT(int, we); INPUT(uint64_t, wpos); INPUT(size_t, k);
    int ret; sp kv = sp_be32(key);
    verif_ctx_init(&ctx); ctx.ecmult_gen_ctx.built = built;
    ctx.hash_ctx.fn_sha256_compression = secp256k1_sha256_transform;
    HASHLOG_RESET(); g_we = we; g_wpos = wpos; g_gen_n = 0; g_sg_n = 0; g_es_n = 0;
    __CPROVER_assume(k < 64);
    ret = secp256k1_ellswift_create(&ctx, use_ell ? ell : NULL, use_key ? key : NULL, use_aux ? aux : NULL);
    __CPROVER_assert(g_error == 0, "C18 ellswift_create: error callback never invoked");
    if (!use_ell) __CPROVER_assert(ret == 0 && g_illegal == 1 && g_gen_n == 0, "C18 ellswift_create: NULL output is illegal and returns 0");
    else if (!built || !use_key) __CPROVER_assert(ret == 0 && g_illegal == 1 && g_gen_n == 0 && g_es_n == 0 && ell[k] == 0, "C18 ellswift_create: static/unbuilt context or NULL key is illegal, returns 0, output zeroed");
    else {
        __CPROVER_assert(g_illegal == 0, "C18 ellswift_create: no illegal callback for proper arguments (auxrnd32 may be NULL)");
        __CPROVER_assert(ret == sp_seckey_valid(kv), "C18 ellswift_create: returns 1 exactly for 0 < seckey < n");
        if (ret == 0) __CPROVER_assert(ell[k] == 0, "C18 ellswift_create: invalid key leaves 64 zero bytes");
        __CPROVER_assert(g_gen_n == 1 && sp_eq(sval(&g_gen_a0), ret ? kv : sp_u64(1)), "C18 ellswift_create: generator multiplied by the key (masked to 1 if invalid)");
        __CPROVER_assert(g_sg_n == 1 && GEJ_EQ(g_sg_a0, g_gen_r0), "C18 ellswift_create: the point converted is the multiplication result");
        __CPROVER_assert(g_es_n == 1 && sp_eq(fval(&g_es_px), sp_modp(fval(&g_sg_r0.x))) && sp_eq(fval(&g_es_py), sp_modp(fval(&g_sg_r0.y))), "C18 ellswift_create: the point encoded is that point, normalised");
        __CPROVER_assert(g_fin_n == 0 && g_es_hbytes == (use_aux ? 160 : 128), "C18 ellswift_create: PRNG seed is 64 (+32 with auxrnd32) bytes after the tag");
        if (g_we == 0) {
            __CPROVER_assert(g_w_started && g_w_b0 == 64 && g_w_s0 == 0xd29e1bf5ul && g_w_s7 == 0x4e363b53ul, "C18 ellswift_create: PRNG starts from the secp256k1_ellswift_create tag midstate");
            if (g_wpos >= 64 && g_wpos < (use_aux ? 160 : 128)) {
                __CPROVER_assert(g_w_hit, "C18 ellswift_create: every seed position is written");
                if (g_wpos < 96) __CPROVER_assert(g_w_byte == key[g_wpos - 64], "C18 ellswift_create: seed bytes 0..31 are the secret key");
                else if (g_wpos < 128) __CPROVER_assert(g_w_byte == 0, "C18 ellswift_create: seed bytes 32..63 are zero");
                else __CPROVER_assert(g_w_byte == aux[g_wpos - 128], "C18 ellswift_create: seed bytes 64..95 are auxrnd32");
            }
        }
        if (ret == 1) {
            __CPROVER_assert(k >= 32 || ell[k] == g_es_u[k], "C18 ellswift_create: ell64[0..31] is the u the encoder produced");
            __CPROVER_assert(sp_eq(sp_be32(ell + 32), fval(&g_es_t)), "C18 ellswift_create: ell64[32..63] is the big-endian t the encoder produced");
        }
        if (ret == 1 && use_aux) REACH("ellswift_create success with auxrnd");
        if (ret == 1 && !use_aux && g_we == 0 && g_wpos == 100) REACH("ellswift_create success without auxrnd, watching a zero byte");
        if (ret == 0 && !sp_is0(kv)) REACH("ellswift_create key >= n");
    }
    if (use_ell && !built) REACH("ellswift_create static context");
}
#endif

#ifdef U_ELLSWIFT_ENCODE
void h_ellswift_encode(void) {
    secp256k1_context ctx;
    INPUT_ARR(unsigned char, ell, 64); INPUT(secp256k1_pubkey, pk); INPUT_ARR(unsigned char, rnd, 32);
    INPUT(_Bool, use_ell); INPUT(_Bool, use_pk); INPUT(_Bool, use_rnd); INPUT(int, we); INPUT(uint64_t, wpos); INPUT(size_t, k);
    int ret; sp xv = sp_le32(pk.data), yv = sp_le32(pk.data + 32), xn, yn;
    verif_ctx_init(&ctx);
    ctx.hash_ctx.fn_sha256_compression = secp256k1_sha256_transform;
    HASHLOG_RESET(); g_we = we; g_wpos = wpos; g_es_n = 0;
    __CPROVER_assume(k < 64);
    ret = secp256k1_ellswift_encode(&ctx, use_ell ? ell : NULL, use_pk ? &pk : NULL, use_rnd ? rnd : NULL);
    __CPROVER_assert(g_error == 0, "C18 ellswift_encode: error callback never invoked");
    if (!use_ell || !use_pk || !use_rnd) __CPROVER_assert(ret == 0 && g_illegal == 1 && g_es_n == 0, "C18 ellswift_encode: NULL argument is illegal and returns 0");
    else if (sp_is0(xv)) __CPROVER_assert(ret == 0 && g_illegal == 1 && g_es_n == 0 && ell[k] == 0, "C18 ellswift_encode: invalid pubkey object is illegal, returns 0, output zeroed");
    else {
        xn = sp_modp(xv); yn = sp_modp(yv);
        __CPROVER_assert(ret == 1 && g_illegal == 0, "C18 ellswift_encode: returns 1 for every valid pubkey object");
        __CPROVER_assert(g_es_n == 1 && sp_eq(fval(&g_es_px), xn) && sp_eq(fval(&g_es_py), yn), "C18 ellswift_encode: the point encoded is the public key, normalised");
        __CPROVER_assert(g_fin_n == 0 && g_es_hbytes == 160, "C18 ellswift_encode: PRNG seed is 96 bytes after the tag");
        if (g_we == 0) {
            __CPROVER_assert(g_w_started && g_w_b0 == 64 && g_w_s0 == 0xd1a6524bul && g_w_s7 == 0xd626b715ul, "C18 ellswift_encode: PRNG starts from the secp256k1_ellswift_encode tag midstate");
            if (g_wpos >= 64 && g_wpos < 160) {
                __CPROVER_assert(g_w_hit, "C18 ellswift_encode: every seed position is written");
                if (g_wpos == 64) __CPROVER_assert(g_w_byte == (0x02 | sp_odd(yn)), "C18 ellswift_encode: seed byte 0 is the compressed-encoding tag");
                else if (g_wpos < 97) __CPROVER_assert(W(g_w_byte) == ((xn >> (8 * (96 - (unsigned)g_wpos))) & W(0xff)), "C18 ellswift_encode: seed bytes 1..32 are the big-endian x coordinate");
                else if (g_wpos < 128) __CPROVER_assert(g_w_byte == 0, "C18 ellswift_encode: seed bytes 33..63 are zero");
                else __CPROVER_assert(g_w_byte == rnd[g_wpos - 128], "C18 ellswift_encode: seed bytes 64..95 are rnd32");
            }
        }
        __CPROVER_assert(k >= 32 || ell[k] == g_es_u[k], "C18 ellswift_encode: ell64[0..31] is the u the encoder produced");
        __CPROVER_assert(sp_eq(sp_be32(ell + 32), fval(&g_es_t)), "C18 ellswift_encode: ell64[32..63] is the big-endian t the encoder produced");
        if (g_we == 0 && g_wpos == 80) REACH("ellswift_encode success, watching an x byte");
    }
    if (use_ell && use_pk && use_rnd && ret == 0) REACH("ellswift_encode invalid pubkey");
}
#endif

/* C18: secp256k1_ellswift_create / _encode - failure cases, what reaches the encoder, output layout.
 * The encoder search secp256k1_ellswift_elligatorswift_var is replaced by an ASSUMED oracle with a log
 * (assumed_C18.h); ecmult_gen / ge_set_gej likewise.  secp256k1_sha256_write is replaced by a frame contract with
 * CONTENT flags (assumed_C18.h, C18_WRITE_FLAGS).
 * Rule followed (audit 1): include/secp256k1_ellswift.h says the computed encoding is NOT stable across versions, so
 * nothing about the layout of the randomness derivation is demanded.  Kept:
 *   h_ellswift_create  ret = (0 < seckey < n); static/unbuilt context or NULL => illegal, ret 0 (nothing demanded of
 *                      ell64 on failure: the header is silent); on success: the generator is multiplied by the key,
 *                      the point encoded is that product (mod p), the secret key - and auxrnd32 when given - have been
 *                      absorbed into a hash before the encoder runs, ell64 = u32 || be32(t) as the encoder produced.
 *   h_ellswift_encode  invalid pubkey object => illegal, ret 0; valid: ret 1, the point encoded is the public key,
 *                      rnd32 has been absorbed before the encoder runs, ell64 = u32 || be32(t).
 * Opaque pubkey decoded through the TU's own ge_from_bytes (spec.h views). */
#define C18_WRITE_FLAGS
#include "assumed_C18.h"
#include "../C04/spec.h"
#include "src/secp256k1.c"
#include "post.h"
#define SPEC_VIEWS
#include "../C04/spec.h"
#define GEJ_EQ(a, b) (FE_EQ((a).x, (b).x) && FE_EQ((a).y, (b).y) && FE_EQ((a).z, (b).z) && (a).infinity == (b).infinity)

#ifdef U_ELLSWIFT_CREATE
void h_ellswift_create(void) {
    secp256k1_context ctx;
    INPUT_ARR(unsigned char, ell, 64); INPUT_ARR(unsigned char, key, 32); INPUT_ARR(unsigned char, aux, 32);
    INPUT(_Bool, use_ell); INPUT(_Bool, use_key); INPUT(_Bool, use_aux); INPUT(int, built); INPUT(size_t, k);
    int ret; sp kv = sp_be32(key);
    verif_ctx_init(&ctx); ctx.ecmult_gen_ctx.built = built;
    ctx.hash_ctx.fn_sha256_compression = secp256k1_sha256_transform;
    g_gen_n = 0; g_sg_n = 0; g_es_n = 0; g_saw_a = 0; g_saw_b = 0;
    memcpy(g_wk_a, key, 32); memcpy(g_wk_b, aux, 32);
    __CPROVER_assume(k < 32);
    ret = secp256k1_ellswift_create(&ctx, use_ell ? ell : NULL, use_key ? key : NULL, use_aux ? aux : NULL);
    __CPROVER_assert(g_error == 0, "C18 ellswift_create: error callback never invoked");
    if (!use_ell || !use_key) __CPROVER_assert(ret == 0 && g_illegal == 1, "C18 ellswift_create: NULL output or key is illegal and returns 0");
    else if (!built) __CPROVER_assert(ret == 0 && g_illegal == 1, "C18 ellswift_create: static/unbuilt context is illegal and returns 0");
    else {
        __CPROVER_assert(g_illegal == 0, "C18 ellswift_create: no illegal callback for proper arguments (auxrnd32 may be NULL)");
        __CPROVER_assert(ret == sp_seckey_valid(kv), "C18 ellswift_create: returns 1 exactly for 0 < seckey < n");
        if (ret == 1) {
            __CPROVER_assert(g_gen_n >= 1 && sp_eq(sval(&g_gen_a0), kv), "C18 ellswift_create: the generator is multiplied by the key");
            __CPROVER_assert(g_sg_n >= 1 && GEJ_EQ(g_sg_a0, g_gen_r0), "C18 ellswift_create: the point converted is the multiplication result");
            __CPROVER_assert(g_es_n >= 1 && sp_eq(sp_modp(fval(&g_es_px)), sp_modp(fval(&g_sg_r0.x))) && sp_eq(sp_modp(fval(&g_es_py)), sp_modp(fval(&g_sg_r0.y))), "C18 ellswift_create: the point encoded is that point (mod p)");
            __CPROVER_assert(g_es_saw_a, "C18 ellswift_create: the secret key has been absorbed into a hash before the encoder runs");
            if (use_aux) __CPROVER_assert(g_es_saw_b, "C18 ellswift_create: auxrnd32 has been absorbed into a hash before the encoder runs");
            __CPROVER_assert(ell[k] == g_es_u[k], "C18 ellswift_create: ell64[0..31] is the u the encoder produced");
            __CPROVER_assert(sp_eq(sp_be32(ell + 32), sp_modp(fval(&g_es_t))), "C18 ellswift_create: ell64[32..63] is the big-endian t the encoder produced");
        }
        if (ret == 1 && use_aux) REACH("ellswift_create success with auxrnd");
        if (ret == 1 && !use_aux) REACH("ellswift_create success without auxrnd");
        if (ret == 0 && !sp_is0(kv)) REACH("ellswift_create key >= n");
        if (ret == 0 && sp_is0(kv)) REACH("ellswift_create zero key");
    }
    if (use_ell && use_key && !built) REACH("ellswift_create static context");
    if (!use_ell || !use_key) REACH("ellswift_create NULL argument");
}
#endif

#ifdef U_ELLSWIFT_ENCODE
void h_ellswift_encode(void) {
    secp256k1_context ctx;
    INPUT_ARR(unsigned char, ell, 64); INPUT(secp256k1_pubkey, pk); INPUT_ARR(unsigned char, rnd, 32);
    INPUT(_Bool, use_ell); INPUT(_Bool, use_pk); INPUT(_Bool, use_rnd); INPUT(size_t, k);
    int ret, inv; sp xv, yv;
    verif_ctx_init(&ctx);
    ctx.hash_ctx.fn_sha256_compression = secp256k1_sha256_transform;
    g_es_n = 0; g_saw_a = 0; g_saw_b = 0;
    memcpy(g_wk_a, rnd, 32); memcpy(g_wk_b, rnd, 32);
    __CPROVER_assume(k < 32);
    view_pk64(pk.data, &xv, &yv, &inv);
    ret = secp256k1_ellswift_encode(&ctx, use_ell ? ell : NULL, use_pk ? &pk : NULL, use_rnd ? rnd : NULL);
    __CPROVER_assert(g_error == 0, "C18 ellswift_encode: error callback never invoked");
    if (!use_ell || !use_pk || !use_rnd) __CPROVER_assert(ret == 0 && g_illegal == 1, "C18 ellswift_encode: NULL argument is illegal and returns 0");
    else if (inv) __CPROVER_assert(ret == 0 && g_illegal == 1, "C18 ellswift_encode: invalid pubkey object is illegal and returns 0");
    else {
        __CPROVER_assert(ret == 1 && g_illegal == 0, "C18 ellswift_encode: returns 1 for every valid pubkey object");
        __CPROVER_assert(g_es_n >= 1 && sp_eq(sp_modp(fval(&g_es_px)), xv) && sp_eq(sp_modp(fval(&g_es_py)), yv), "C18 ellswift_encode: the point encoded is the public key (mod p)");
        __CPROVER_assert(g_es_saw_a, "C18 ellswift_encode: rnd32 has been absorbed into a hash before the encoder runs");
        __CPROVER_assert(ell[k] == g_es_u[k], "C18 ellswift_encode: ell64[0..31] is the u the encoder produced");
        __CPROVER_assert(sp_eq(sp_be32(ell + 32), sp_modp(fval(&g_es_t))), "C18 ellswift_encode: ell64[32..63] is the big-endian t the encoder produced");
        REACH("ellswift_encode success");
    }
    if (use_ell && use_pk && use_rnd && inv) REACH("ellswift_encode invalid pubkey");
    if (!use_ell || !use_pk || !use_rnd) REACH("ellswift_encode NULL argument");
}
#endif

/* C18 / C07 (r3): the ENCODER side of ElligatorSwift under contract - the inverse map secp256k1_ellswift_xswiftec_inv_var
 * (h_r3_inv_var) and the search loop secp256k1_ellswift_xelligatorswift_var + parity fix-up of
 * secp256k1_ellswift_elligatorswift_var (h_r3_search).  -DVERIFY build: the library's own VERIFY_CHECKs are obligations.
 *
 * Oracles (contracts/assumed_r3_ellswift.h): field mul / sqr / inv_var / sqrt / is_square_var, ge_x_on_curve_var (frame +
 * representation invariant + magnitude preconditions + verdict logs); in the search-loop unit the PRNG and the inverse map.
 * Everything else (normalize_weak, add, negate, half, mul_int, add_int, normalizes_to_zero_var, normalize_var, is_odd,
 * set_b32_mod) is REAL code with its VERIFY_CHECKs live.
 *
 * RESIDUE SPLIT.  A failing VERIFY_CHECK located in src/field*.h (magnitude, normalisation, aliasing, limb bounds) is an
 * OBLIGATION ("abort reached").  A failing VERIFY_CHECK located in src/modules/ellswift/main_impl.h is one of the
 * function's ALGEBRAIC self-checks / preconditions - inv_var: "c in 0..7" and "x is on the curve" (preconditions, doc
 * comment), "s != 0" (the argument in the comment at lines 217-229), "the square root exists" (twice); search loop:
 * "u != 0".  Frame oracles cannot decide these (no algebraic fact is assumed), so verdict scenarios that trip them are
 * NOT decided here: the abort hook below records them (REACH witness) and stops the path.  The split is by FILE, not by
 * line or condition text, so edits inside the functions do not move it.  In the search-loop unit the hook additionally
 * proves that the ONLY self-check of the loop that can trip is "u != 0", and only when the PRNG draw is 0 (mod p). */
#include "assumed_r3_ellswift.h"
static void r3_abort_at(const char *file, size_t n);
#define abort() r3_abort_at(__FILE__, sizeof(__FILE__))
#include "src/secp256k1.c"
#undef abort
#include "post.h"

int g_r3_resid;            /* an algebraic self-check of the ellswift code was reached (path stopped) */
static int g_r3_search_unit;      /* 1 in h_r3_search */
static wide r3_be32(const unsigned char *b) { return r3_modp(be256(b)); }
/* loop-free on purpose (called from inside the loop under contract) */
static int r3_in_ellswift(const char *f, size_t n) {
    if (n < 29) return 0;
    return f[n - 29] == 'm' && f[n - 28] == 'o' && f[n - 27] == 'd' && f[n - 26] == 'u' && f[n - 25] == 'l' && f[n - 24] == 'e' && f[n - 23] == 's' && f[n - 22] == '/' && f[n - 21] == 'e' && f[n - 20] == 'l' && f[n - 19] == 'l' && f[n - 18] == 's' && f[n - 17] == 'w' && f[n - 16] == 'i' && f[n - 15] == 'f' && f[n - 14] == 't' && f[n - 13] == '/' && f[n - 12] == 'm' && f[n - 11] == 'a' && f[n - 10] == 'i' && f[n - 9] == 'n' && f[n - 8] == '_' && f[n - 7] == 'i' && f[n - 6] == 'm' && f[n - 5] == 'p' && f[n - 4] == 'l' && f[n - 3] == '.' && f[n - 2] == 'h';
}
#ifdef R3_SEARCH_LOOP
#define R3_B4(b, i, v) (b[i] == (v) && b[i+1] == (v) && b[i+2] == (v) && b[i+3] == (v))
/* a 32-byte big-endian string is 0 (mod p) iff it is 0 or p = FF..FF FFFFFFFE FFFFFC2F */
static int r3_draw_is_zero(const unsigned char *b) {
    int z = R3_B4(b, 0, 0) && R3_B4(b, 4, 0) && R3_B4(b, 8, 0) && R3_B4(b, 12, 0) && R3_B4(b, 16, 0) && R3_B4(b, 20, 0) && R3_B4(b, 24, 0) && R3_B4(b, 28, 0);
    int p = R3_B4(b, 0, 0xFF) && R3_B4(b, 4, 0xFF) && R3_B4(b, 8, 0xFF) && R3_B4(b, 12, 0xFF) && R3_B4(b, 16, 0xFF) && R3_B4(b, 20, 0xFF) &&
            b[24] == 0xFF && b[25] == 0xFF && b[26] == 0xFF && b[27] == 0xFE && b[28] == 0xFF && b[29] == 0xFF && b[30] == 0xFC && b[31] == 0x2F;
    return z || p;
}
#endif
static void r3_abort_at(const char *file, size_t n) {
    if (r3_in_ellswift(file, n)) {
#ifdef R3_SEARCH_LOOP
        if (g_r3_search_unit)
            __CPROVER_assert(r3_draw_is_zero(g_r3_prng_out), "C18 r3 search loop: the only self-check of the loop that can trip is u != 0, and only for a PRNG draw that is 0 (mod p)");
#endif
        REACH("an algebraic self-check / precondition VERIFY_CHECK of the ellswift code is reachable under frame oracles (residue, path stopped)");
        g_r3_resid = 1;
        __CPROVER_assume(0);
    }
    abort();
}

#ifdef U_R3_INV_VAR
/* Specification = the algorithm in the function's own doc comment (main_impl.h:149-188):
 *   (c&2)=0: if -x-u is a valid X coordinate fail; s = -(u^3+7)/(u^2+ux+x^2), fail if not square; v = x
 *   (c&2)=2: s = x-u, fail if not square; r = sqrt(-s(4(u^3+7)+3u^2 s)), fail if none; fail if (c&1) and r = 0; fail if s = 0
 *   w = sqrt(s); result (+/-) w * (c3 or c4 times u, plus v): sign - for (c&5) in {0,5}, constant c4 iff (c&1). */
void h_r3_inv_var(void) {
    INPUT(secp256k1_fe, x); INPUT(secp256k1_fe, u); INPUT(secp256k1_fe, t); INPUT(int, c);
    int ret, s_zero, neg, sq_wseen, onc_wseen, onc_wv, r_zero; wide xv, uv, mxu, xmu, w0, wl, a0, al, ma, mb;
    __CPROVER_assume(r3_fe_ok(&x) && r3_fe_ok(&u));          /* any valid field elements, any magnitude */
    __CPROVER_assume(c >= 0 && c < 8);                       /* documented range of c */
    xv = r3_val(&x); uv = r3_val(&u);
    g_r3_resid = 0; g_r3_search_unit = 0;
    g_r3_mul_n = g_r3_sqr_n = g_r3_inv_n = g_r3_sqrt_n = g_r3_sq_n = g_r3_onc_n = 0;
    g_r3_saw0 = g_r3_saw1 = g_r3_sqrt_fail = g_r3_sq_fail = 0; g_r3_onc_v0 = g_r3_onc_vl = 0;
    g_r3_w0 = secp256k1_ellswift_c3; g_r3_w1 = secp256k1_ellswift_c4;
    mxu = r3_negp(r3_modp(xv + uv));                         /* -x-u */
    xmu = r3_modp(xv + r3_negp(uv));                         /* x-u */
    s_zero = (xv == uv);

    ret = secp256k1_ellswift_xswiftec_inv_var(&t, &x, &u, c);

    /* the oracle logs as a set of calls (at most two calls of each verdict oracle: first + latest = all) */
    __CPROVER_assert(g_r3_sq_n <= 2 && g_r3_sqrt_n <= 2 && g_r3_onc_n <= 2, "C18 r3 inv_var: at most two calls of each verdict oracle (the logs are complete)");
    sq_wseen = g_r3_sq_n >= 1 && (r3_val(&g_r3_sq_a0) == xmu || r3_val(&g_r3_sq_al) == xmu);
    if (g_r3_onc_n >= 1 && r3_val(&g_r3_onc_al) == mxu) { onc_wseen = 1; onc_wv = g_r3_onc_vl; }
    else if (g_r3_onc_n >= 1 && r3_val(&g_r3_onc_a0) == mxu) { onc_wseen = 1; onc_wv = g_r3_onc_v0; }
    else { onc_wseen = 0; onc_wv = 0; }
    w0 = r3_val(&g_r3_sqrt_r0); wl = r3_val(&g_r3_sqrt_rl);
    /* r = a computed square root of something that is not s = x-u */
    r_zero = g_r3_sqrt_n >= 1 && ((r3_val(&g_r3_sqrt_a0) != xmu && w0 == 0) || (r3_val(&g_r3_sqrt_al) != xmu && wl == 0));

    __CPROVER_assert(ret == 0 || ret == 1, "C18 r3 inv_var: returns 0 or 1");
    __CPROVER_assert(r3_val(&x) == xv && r3_val(&u) == uv, "C18 r3 inv_var: the (const) inputs x and u keep their values");
    if (ret == 1) {
        __CPROVER_assert(r3_fe_ok(&t) && t.magnitude <= 1, "C18 r3 inv_var: on success t is a valid field element of magnitude <= 1");
        __CPROVER_assert(g_r3_sq_n >= 1 && g_r3_sq_fail == 0, "C18 r3 inv_var: success only if a squareness verdict was consulted and none was negative (s is square / r exists)");
        if (!(c & 2)) __CPROVER_assert(onc_wseen && onc_wv == 0, "C18 r3 inv_var: (c&2)=0 succeeds only if -x-u was tested and is NOT a valid X coordinate");
        if (c & 2) {
            __CPROVER_assert(sq_wseen, "C18 r3 inv_var: (c&2)=2 succeeds only if s = x-u was tested for squareness");
            __CPROVER_assert(!s_zero, "C18 r3 inv_var: (c&2)=2 fails when s = x-u is zero");
            if (c & 1) __CPROVER_assert(!r_zero, "C18 r3 inv_var: (c&2)=2 with (c&1)=1 fails when r = 0");
        }
        /* return logic: t is the product computed last; one factor is +w or -w, w a computed square root; c3 / c4 entered a product */
        __CPROVER_assert(g_r3_mul_n >= 1 && R3_LIMBS_EQ(g_r3_mul_rl, t), "C18 r3 inv_var: t is the result of the final multiplication");
        __CPROVER_assert(g_r3_sqrt_n >= 1, "C18 r3 inv_var: w = sqrt(s) is computed");
        neg = ((c & 5) == 0 || (c & 5) == 5);
        a0 = neg ? r3_negp(w0) : w0; al = neg ? r3_negp(wl) : wl;
        ma = r3_val(&g_r3_mul_al); mb = r3_val(&g_r3_mul_bl);
        __CPROVER_assert(ma == a0 || mb == a0 || ma == al || mb == al,
                         "C18 r3 inv_var: a factor of t is -w for (c&5) in {0,5} and +w for (c&5) in {1,4}, w a computed square root");
        if (c & 1) __CPROVER_assert(g_r3_saw1, "C18 r3 inv_var: (c&1)=1 uses the constant c4");
        else __CPROVER_assert(g_r3_saw0, "C18 r3 inv_var: (c&1)=0 uses the constant c3");
    } else {
        /* fails only for a documented reason */
        __CPROVER_assert(g_r3_sq_fail || (!(c & 2) && onc_wseen && onc_wv == 1) || ((c & 2) && (s_zero || ((c & 1) && r_zero))),
                         "C18 r3 inv_var: fails only for a documented reason (negative squareness verdict, -x-u on the curve, s = 0, or r = 0 with (c&1))");
    }
    /* every documented gate is effective */
    if (g_r3_sq_fail) __CPROVER_assert(ret == 0, "C18 r3 inv_var: a negative squareness verdict fails the call");
    if (!(c & 2) && onc_wseen && onc_wv == 1) __CPROVER_assert(ret == 0, "C18 r3 inv_var: (c&2)=0 fails when -x-u is a valid X coordinate");
    if ((c & 2) && s_zero) __CPROVER_assert(ret == 0, "C18 r3 inv_var: (c&2)=2 and s = 0 fails the call");
    if ((c & 2) && (c & 1) && r_zero) __CPROVER_assert(ret == 0, "C18 r3 inv_var: (c&2)=2, (c&1)=1 and r = 0 fails the call");

    if (ret == 1 && !(c & 2)) REACH("inv_var success, x1/x2 branch");
    if (ret == 1 && c == 7) REACH("inv_var success c=7");
    if (ret == 0 && !(c & 2) && !g_r3_sq_fail) REACH("inv_var fails: -x-u on the curve");
    if (ret == 0 && (c & 2) && !g_r3_sq_fail) REACH("inv_var fails: s = 0 or r = 0");
    if (ret == 0 && g_r3_sq_fail) REACH("inv_var fails: not square");
}
#endif

#ifdef U_R3_SEARCH
/* Specification: doc comments of xelligatorswift_var / elligatorswift_var (main_impl.h:327-382) and of inv_var ("cannot be
 * called with u=0", c in 0..7): the loop draws a 3-bit branch from a 32-byte pool (refilled from the PRNG when empty) and a
 * u from the PRNG, for CONSECUTIVE counter values, until the inverse map succeeds; outputs are those of the successful
 * draw; elligatorswift_var then makes t match the parity of p->y.  PARTIAL correctness: the loop is closed by a loop
 * contract without a decreases clause - termination is probabilistic (each draw succeeds with probability ~1/4 for a
 * random oracle) and is not claimed. */
void h_r3_search(void) {
    secp256k1_context ctx;
    INPUT(secp256k1_ge, p); INPUT(secp256k1_sha256, hasher); INPUT_ARR(unsigned char, u32, 32); INPUT(secp256k1_fe, t); INPUT(size_t, k);
    wide tv, tl;
    verif_ctx_init(&ctx);
    __CPROVER_assume(k < 32);
    /* call-site facts (encode: pubkey_load; create: normalize_var of both coordinates): coordinates normalized */
    __CPROVER_assume(r3_fe_ok(&p.x) && r3_fe_ok(&p.y) && p.x.normalized && p.y.normalized);
    g_r3_resid = 0; g_r3_search_unit = 1;
    g_r3_prng_n = 0; g_r3_prng_cnt_ok = 1; g_r3_prng_dst = 0; g_r3_iv_n = 0; g_r3_iv_ret = 0; g_r3_iv_c = -1;
    memset(g_r3_prng_out, 0, 32);

    secp256k1_ellswift_elligatorswift_var(&ctx, u32, &t, &p, &hasher);

    __CPROVER_assert(g_illegal == 0 && g_error == 0, "C18 r3 search loop: no callback");
    __CPROVER_assert(g_r3_iv_ret == 1, "C18 r3 search loop: ends only after a successful inverse-map call");
    __CPROVER_assert(g_r3_iv_c >= 0 && g_r3_iv_c < 8, "C18 r3 search loop: branch value in 0..7");
    __CPROVER_assert(r3_val(&g_r3_iv_x) == r3_val(&p.x), "C18 r3 search loop: the inverse map is asked for p's x coordinate");
    __CPROVER_assert(g_r3_prng_cnt_ok, "C18 r3 search loop: PRNG counters are consecutive (0, 1, 2, ...): no counter is used twice");
    __CPROVER_assert(g_r3_prng_dst == (((uint64_t)__CPROVER_POINTER_OBJECT(u32) << 52) | (uint64_t)__CPROVER_POINTER_OFFSET(u32)), "C18 r3 search loop: the latest PRNG draw went to u32");
    __CPROVER_assert(u32[k] == g_r3_prng_out[k], "C18 r3 search loop: output u32 is the draw of the successful iteration");
    __CPROVER_assert(r3_val(&g_r3_iv_u) == r3_be32(u32), "C18 r3 search loop: the u handed to the inverse map is u32 (mod p)");
    __CPROVER_assert(r3_val(&g_r3_iv_u) != 0, "C18 r3 search loop: u handed to the inverse map is never 0 (VERIFY build: the draw 0 (mod p) stops at the loop's self-check)");
    __CPROVER_assert(r3_fe_ok(&t) && t.normalized == 1, "C18 r3 search loop: output t is normalized");
    tv = r3_val(&t); tl = r3_val(&g_r3_iv_t);
    __CPROVER_assert(tv == tl || tv == r3_negp(tl), "C18 r3 search loop: output t is the successful call's t or its negation");
    __CPROVER_assert(tl == 0 || (int)(tv & 1) == (int)(r3_val(&p.y) & 1), "C18 r3 search loop: parity of t equals parity of p's y (t != 0; the inverse map documents that it never returns t = 0 - algebraic, not decided here)");
    if (tv == tl && tl != 0) REACH("search: t kept");
    if (tv != tl) REACH("search: t negated");
    if (g_r3_prng_n > 2) REACH("search: a later draw succeeds");
}
#endif

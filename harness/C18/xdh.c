/* C18: secp256k1_ellswift_xdh - party selection, secret-key gate, oracle usage, hash streams.
 * Every pointer NULL-or-object, every byte content, every party value; hashfp = BIP-324, prefix, or a
 * caller-supplied function (stub, arbitrary result in {0,1}), or NULL (illegal).
 * ASSUMED oracles with ghost logs (assumed_C18.h): secp256k1_ellswift_xswiftec_frac_var (the forward map),
 * secp256k1_ecmult_const_xonly (its documented precondition "q must not be zero" is an obligation on the caller).
 * SHA-256 object: STREAM-level contracts (hash_log.h); a refactoring that replaces the tag midstate by
 * sha256_initialize_tagged, or hand-rolls a final block, would need the block-level idiom - not done here.
 * Rule followed (audit 1): secret key 0 or >= n => ret 0 and nothing else demanded on that path (no call counts,
 * no dummy operand).  Valid key: party != 0 decodes ell_a64, party == 0 decodes ell_b64 ("theirs"); the x-only
 * multiplication gets the fraction the map returned and the secret key; the 32 bytes hashed are the big-endian
 * result (mod p); BIP-324 stream = tag midstate || ell_a64 || ell_b64 || x32 REGARDLESS of party; prefix stream =
 * data[64] || ell_a64 || ell_b64 || x32 from the IV; ret = (hash result != 0). */
#include "assumed_C18.h"
#include "hash_log.h"
#include "../C04/spec.h"
#include "src/secp256k1.c"
#include "post.h"

static int g_st_n, g_st_ret; static unsigned char g_st_x[32]; static const void *g_st_out, *g_st_a, *g_st_b, *g_st_data;
static int stub_xdh_hashfp(unsigned char *output, const unsigned char *x32, const unsigned char *ell_a64, const unsigned char *ell_b64, void *data) {
    int i; _Bool v = nondet_bool();
    for (i = 0; i < 32; i++) g_st_x[i] = x32[i];
    g_st_out = output; g_st_a = ell_a64; g_st_b = ell_b64; g_st_data = data; g_st_n++; g_st_ret = v;
    output[0] = nondet_uchar(); output[31] = nondet_uchar();
    return v;
}

void h_xdh(void) {
    secp256k1_context ctx;
    INPUT_ARR(unsigned char, out, 32); INPUT_ARR(unsigned char, ell_a, 64); INPUT_ARR(unsigned char, ell_b, 64); INPUT_ARR(unsigned char, seckey, 32); INPUT_ARR(unsigned char, prefix, 64);
    INPUT(_Bool, use_out); INPUT(_Bool, use_a); INPUT(_Bool, use_b); INPUT(_Bool, use_key); INPUT(int, party); INPUT(unsigned char, mode); INPUT(int, we); INPUT(uint64_t, wpos); INPUT(size_t, k);
    int ret, bad; secp256k1_ellswift_xdh_hash_function fp; const unsigned char *theirs;
    sp sv = sp_be32(seckey), px;
    verif_ctx_init(&ctx);
    ctx.hash_ctx.fn_sha256_compression = secp256k1_sha256_transform;
    HASHLOG_RESET(); g_we = we; g_wpos = wpos;
    g_frac_n = 0; g_xo_n = 0; g_st_n = 0;
    __CPROVER_assume(mode <= 3 && k < 32);
    fp = mode == 0 ? NULL : (mode == 1 ? stub_xdh_hashfp : (mode == 2 ? secp256k1_ellswift_xdh_hash_function_bip324 : secp256k1_ellswift_xdh_hash_function_prefix));
    bad = sp_is0(sv) || !sp_lt(sv, sp_n());
    theirs = party ? ell_a : ell_b;
    ret = secp256k1_ellswift_xdh(&ctx, use_out ? out : NULL, use_a ? ell_a : NULL, use_b ? ell_b : NULL, use_key ? seckey : NULL, party, fp, prefix);
    __CPROVER_assert(g_error == 0, "C18 xdh: error callback never invoked");
    __CPROVER_assert(ret == 0 || ret == 1, "C18 xdh: returns 0 or 1");
    if (!use_out || !use_a || !use_b || !use_key || mode == 0) __CPROVER_assert(ret == 0 && g_illegal == 1, "C18 xdh: NULL argument (incl. hashfp) is illegal and returns 0");
    else if (bad) { __CPROVER_assert(g_illegal == 0, "C18 xdh: an out-of-range secret key is not an illegal argument"); __CPROVER_assert(ret == 0, "C18 xdh: secret key 0 or >= n returns 0"); }
    else {
        __CPROVER_assert(g_illegal == 0, "C18 xdh: no illegal callback for non-NULL arguments");
        __CPROVER_assert(g_frac_n >= 1 && g_xo_n >= 1, "C18 xdh: the map is evaluated and an x-only multiplication made");
        __CPROVER_assert(sp_eq(sp_modp(fval(&g_frac_u0)), sp_modp(sp_be32(theirs))) && sp_eq(sp_modp(fval(&g_frac_t0)), sp_modp(sp_be32(theirs + 32))),
                         "C18 xdh: the encoding decoded is the OTHER party's: ell_a64 if party != 0, ell_b64 if party == 0; u = bytes 0..31, t = bytes 32..63 (mod p)");
        __CPROVER_assert(FE_EQ(g_xo_n0, g_frac_xn0) && g_xo_has_d0 && FE_EQ(g_xo_d0, g_frac_xd0), "C18 xdh: the multiplication gets the fraction xn/xd returned by the map");
        __CPROVER_assert(sp_eq(sval(&g_xo_q0), sv), "C18 xdh: the multiplication runs on the secret key");
        px = sp_modp(fval(&g_xo_r0));
        if (mode == 1) {
            __CPROVER_assert(g_st_n >= 1 && g_fin_n == 0, "C18 xdh: a caller-supplied hash function is called, no built-in hashing");
            __CPROVER_assert(g_st_out == (const void *)out && g_st_a == (const void *)ell_a && g_st_b == (const void *)ell_b && g_st_data == (const void *)prefix, "C18 xdh: hashfp receives output, ell_a64, ell_b64 (in this order, independent of party) and data unchanged");
            __CPROVER_assert(sp_eq(sp_be32(g_st_x), px), "C18 xdh: x32 handed to hashfp is the big-endian normalised shared x coordinate");
            __CPROVER_assert(ret == (g_st_ret != 0), "C18 xdh: with a valid key, returns 1 exactly when hashfp returned non-zero");
            if (ret == 1 && party) REACH("xdh custom hash success party A side");
            if (ret == 1 && !party) REACH("xdh custom hash success party B side");
            if (ret == 0) REACH("xdh hashfp returned 0");
        } else {
            uint64_t base = mode == 2 ? 64 : 0;    /* stream position of the first byte written after the start state */
            uint64_t o = g_wpos - base;
            __CPROVER_assert(g_st_n == 0 && g_fin_n >= 1, "C18 xdh: built-in hash: a SHA-256 computation, not the caller stub");
            __CPROVER_assert(ret == 1, "C18 xdh: built-in hash: returns 1 for 0 < seckey < n");
            if (g_we == 0) {
                if (mode == 2) {
                    __CPROVER_assert(g_w_started && g_w_b0 == 64 && g_w_s0 == 0x8c12d730ul && g_w_s7 == 0xcfb52549ul, "C18 xdh: BIP-324 hash starts from the bip324_ellswift_xonly_ecdh tag midstate (64 bytes absorbed)");
                    __CPROVER_assert(g_w_fin && g_w_end == 64 + 160, "C18 xdh: BIP-324 hash absorbs exactly 160 bytes after the tag");
                } else {
                    __CPROVER_assert(g_w_started && g_w_b0 == 0 && g_w_s0 == 0x6a09e667ul && g_w_s7 == 0x5be0cd19ul, "C18 xdh: prefix hash starts from the SHA-256 initial state");
                    __CPROVER_assert(g_w_fin && g_w_end == 224, "C18 xdh: prefix hash absorbs exactly 224 bytes");
                    if (g_wpos < 64) __CPROVER_assert(g_w_hit && g_w_byte == prefix[g_wpos], "C18 xdh: prefix hash: bytes 0..63 are the caller's 64-byte prefix");
                    base = 64; o = g_wpos - base;
                }
                if (g_wpos >= base && o < 160) {
                    __CPROVER_assert(g_w_hit, "C18 xdh: every stream position is written");
                    if (o < 64) __CPROVER_assert(g_w_byte == ell_a[o], "C18 xdh: hash stream: ell_a64 first (independent of party)");
                    else if (o < 128) __CPROVER_assert(g_w_byte == ell_b[o - 64], "C18 xdh: hash stream: ell_b64 second (independent of party)");
                    else __CPROVER_assert(W(g_w_byte) == ((px >> (8 * (159 - (unsigned)o))) & W(0xff)), "C18 xdh: hash stream: then the big-endian normalised shared x coordinate");
                }
                __CPROVER_assert(out[k] == g_w_dig[k], "C18 xdh: output is the digest");
            }
            if (ret == 1 && mode == 2 && party) REACH("xdh bip324 success party A side");
            if (ret == 1 && mode == 2 && !party && g_we == 0 && g_wpos == 64 + 150) REACH("xdh bip324 success party B side, watching an x byte");
            if (ret == 1 && mode == 3) REACH("xdh prefix hash success");
        }
    }
    if (use_out && use_a && use_b && use_key && mode != 0 && bad && sp_is0(sv)) REACH("xdh zero key");
    if (use_out && use_a && use_b && use_key && mode != 0 && bad && sp_eq(sv, sp_n())) REACH("xdh key == n");
    if (!use_out || !use_a || !use_b || !use_key || mode == 0) REACH("xdh NULL argument");
}

/* C18: secp256k1_ecdh - failure cases, oracle usage, hash plumbing.  Every pointer NULL-or-object, every
 * byte content; hashfp = NULL (default), secp256k1_ecdh_hash_function_sha256, or a caller-supplied function
 * (stub with arbitrary result in {0,1}).
 * ASSUMED oracles with ghost logs: secp256k1_ecmult_const, secp256k1_ge_set_gej (assumed_C18.h).
 * SHA-256 object: STREAM-level contracts with write log (hash_log.h) - a hand-rolled final block would need the
 * block-level idiom; not done here.
 * Rule followed (audit 1): only what property C18 / include/secp256k1_ecdh.h promise.
 *   - scalar 0 or >= n => ret 0 (nothing else is demanded on that path: no call counts, no dummy operand);
 *   - an invalid pubkey object => illegal callback (nothing else: the header requires an initialised key);
 *   - valid key and scalar: a constant-time multiplication of THAT point by THAT scalar is made, (x32, y32) handed
 *     to the hash are the big-endian coordinates (mod p) of its affine result; hashfp gets output and data passed
 *     through; default hash stream = (0x02 | odd(y)) || x32 from the SHA-256 IV, 33 bytes, digest written to
 *     output; ret = (hash result != 0).
 * Opaque pubkey decoded through the TU's own ge_from_bytes (spec.h views). */
#include "assumed_C18.h"
#include "hash_log.h"
#include "../C04/spec.h"
#include "src/secp256k1.c"
#include "post.h"
#define SPEC_VIEWS
#include "../C04/spec.h"

#define GEJ_EQ(a, b) (FE_EQ((a).x, (b).x) && FE_EQ((a).y, (b).y) && FE_EQ((a).z, (b).z) && (a).infinity == (b).infinity)

/* caller-supplied hash function: arbitrary verdict, writes only its output (documented frame); logs what it was given */
static int g_st_n, g_st_ret; static unsigned char g_st_x[32], g_st_y[32]; static const void *g_st_out, *g_st_data;
static int stub_hashfp(unsigned char *output, const unsigned char *x32, const unsigned char *y32, void *data) {
    int i; _Bool v = nondet_bool();
    for (i = 0; i < 32; i++) { g_st_x[i] = x32[i]; g_st_y[i] = y32[i]; }
    g_st_out = output; g_st_data = data; g_st_n++; g_st_ret = v;
    output[0] = nondet_uchar(); output[31] = nondet_uchar();
    return v;
}

void h_ecdh(void) {
    secp256k1_context ctx;
    INPUT_ARR(unsigned char, out, 32); INPUT(secp256k1_pubkey, point); INPUT_ARR(unsigned char, scalar, 32);
    INPUT(_Bool, use_out); INPUT(_Bool, use_point); INPUT(_Bool, use_scalar); INPUT(unsigned char, mode); INPUT(int, we); INPUT(uint64_t, wpos); INPUT(size_t, k);
    int ret, bad, inv, user_data; secp256k1_ecdh_hash_function fp;
    sp sv = sp_be32(scalar), xv, yv, qx, qy;
    verif_ctx_init(&ctx);
    ctx.hash_ctx.fn_sha256_compression = secp256k1_sha256_transform;
    HASHLOG_RESET(); g_we = we; g_wpos = wpos;
    g_ecc_n = 0; g_sg_n = 0; g_st_n = 0;
    __CPROVER_assume(mode <= 2 && k < 32);
    fp = mode == 0 ? NULL : (mode == 1 ? stub_hashfp : secp256k1_ecdh_hash_function_sha256);
    bad = sp_is0(sv) || !sp_lt(sv, sp_n());
    view_pk64(point.data, &xv, &yv, &inv);
    ret = secp256k1_ecdh(&ctx, use_out ? out : NULL, use_point ? &point : NULL, use_scalar ? scalar : NULL, fp, &user_data);
    __CPROVER_assert(g_error == 0, "C18 ecdh: error callback never invoked");
    __CPROVER_assert(ret == 0 || ret == 1, "C18 ecdh: returns 0 or 1");
    if (!use_out || !use_point || !use_scalar) __CPROVER_assert(ret == 0 && g_illegal == 1, "C18 ecdh: NULL argument is illegal and returns 0");
    else if (inv) __CPROVER_assert(g_illegal >= 1, "C18 ecdh: an invalid pubkey object is reported through the illegal callback");
    else {
        __CPROVER_assert(g_illegal == 0, "C18 ecdh: no illegal callback for a valid pubkey object");
        if (bad) __CPROVER_assert(ret == 0, "C18 ecdh: scalar 0 or >= n returns 0");
        else {
            __CPROVER_assert(g_ecc_n >= 1 && sp_eq(sval(&g_ecc_q0), sv), "C18 ecdh: the constant-time multiplication runs on the scalar");
            __CPROVER_assert(sp_eq(sp_modp8(fval(&g_ecc_a0.x)), xv) && sp_eq(sp_modp8(fval(&g_ecc_a0.y)), yv) && !g_ecc_a0.infinity, "C18 ecdh: the point multiplied is the public key");
            __CPROVER_assert(g_sg_n >= 1 && GEJ_EQ(g_sg_a0, g_ecc_r0), "C18 ecdh: the point converted is the multiplication result");
            qx = sp_modp(fval(&g_sg_r0.x)); qy = sp_modp(fval(&g_sg_r0.y));
            if (mode == 1) {
                __CPROVER_assert(g_st_n >= 1 && g_fin_n == 0, "C18 ecdh: a caller-supplied hash function is called, no built-in hashing");
                __CPROVER_assert(g_st_out == (const void *)out && g_st_data == (const void *)&user_data, "C18 ecdh: hashfp receives the output buffer and the data pointer (passed through, as the header says)");
                __CPROVER_assert(sp_eq(sp_be32(g_st_x), qx) && sp_eq(sp_be32(g_st_y), qy), "C18 ecdh: x32, y32 handed to hashfp are the big-endian coordinates (mod p) of the result");
                __CPROVER_assert(ret == (g_st_ret != 0), "C18 ecdh: with a valid scalar, returns 1 exactly when hashfp returned non-zero");
                if (ret == 1) REACH("ecdh custom hash success");
                if (ret == 0) REACH("ecdh hashfp returned 0");
            } else {
                __CPROVER_assert(g_st_n == 0 && g_fin_n >= 1, "C18 ecdh: default hash: a SHA-256 computation, not the caller stub");
                __CPROVER_assert(ret == 1, "C18 ecdh: default hash: returns 1 for 0 < scalar < n");
                if (g_we == 0) {
                    __CPROVER_assert(g_w_started && g_w_b0 == 0 && g_w_s0 == 0x6a09e667ul && g_w_s7 == 0x5be0cd19ul, "C18 ecdh: default hash starts from the SHA-256 initial state");
                    __CPROVER_assert(g_w_fin && g_w_end == 33, "C18 ecdh: default hash absorbs exactly 33 bytes");
                    if (g_wpos < 33) {
                        __CPROVER_assert(g_w_hit, "C18 ecdh: every stream position is written");
                        if (g_wpos == 0) __CPROVER_assert(g_w_byte == (0x02 | sp_odd(qy)), "C18 ecdh: default hash: first byte is 0x02 | odd(y)");
                        else __CPROVER_assert(W(g_w_byte) == ((qx >> (8 * (32 - (unsigned)g_wpos))) & W(0xff)), "C18 ecdh: default hash: bytes 1..32 are the big-endian x coordinate (mod p)");
                    }
                    __CPROVER_assert(out[k] == g_w_dig[k], "C18 ecdh: output is the digest");
                }
                if (mode == 0) REACH("ecdh default hash success");
                if (mode == 2) REACH("ecdh explicit sha256 function success");
            }
        }
        if (bad && sp_is0(sv)) REACH("ecdh zero scalar");
        if (bad && sp_eq(sv, sp_n())) REACH("ecdh scalar == n");
    }
    if (use_out && use_point && use_scalar && inv) REACH("ecdh invalid pubkey object");
    if (!use_out || !use_point || !use_scalar) REACH("ecdh NULL argument");
}

/* C18: secp256k1_ellswift_decode is TOTAL: for every 64-byte string it returns 1 without any callback and
 * writes a pubkey object whose x is the x the map computed and whose y has the parity of t.
 * REAL code: fe_set_b32_mod, fe_normalize_var, the whole body of secp256k1_ellswift_xswiftec_frac_var
 * (remaps, candidate selection), xswiftec_var, swiftec_var, ge_set_xo_var (parity fix-up), pubkey_save.
 * ASSUMED oracles with ghost logs (assumed_C18.h): fe mul / sqr / inv_var, the curve-membership verdicts
 * (ge_x_frac_on_curve_var), ge_set_xquad (square root).  With mul/sqr replaced, their operand-magnitude
 * preconditions (<= 8) are obligations: the map code is overflow-free for every input.
 * Rule followed (audit 1): oracle usage is stated over VALUES - "some multiplication or squaring has an operand
 * equal to ..." - never over the ordinal of a call or the position of an operand, so reordering operands or
 * independent calls inside the map is accepted.  The remaps of doc/ellswift.md ("if u = 0 set u = 1", "if t = 0
 * set t = 1", i.e. s = 1, "if u^3+t^2+7 = 0 set t = 2t", i.e. s = 4s) are observed as: for u = 0 (mod p) the
 * value 1 enters the arithmetic, for t = 0 (mod p) the value 1 (or 4) does; otherwise u resp. t themselves do.
 * Map ALGEBRA (that the selected candidate is on the curve, that x = xn/xd) is the assumed residue. */
#include "assumed_C18.h"
#include "../C04/spec.h"
#include "src/secp256k1.c"
#include "post.h"
#define SPEC_VIEWS
#include "../C04/spec.h"

#define FE_SAME(a, b) FE_EQ(a, b)
void h_decode(void) {
    secp256k1_context ctx;
    INPUT(secp256k1_pubkey, pk); INPUT_ARR(unsigned char, ell, 64); INPUT(_Bool, use_pk); INPUT(_Bool, use_ell); INPUT(size_t, k);
    unsigned char ell0[64];
    int ret, u_canon, t_canon, oinv; sp ub = sp_be32(ell), tb = sp_be32(ell + 32), tv = sp_modp(tb), y0, ox, oy;
    verif_ctx_init(&ctx);
    g_sqr_n = 0; g_fmul_n = 0; g_finv_n = 0; g_onc_n = 0; g_xq_n = 0; g_fsaw0 = g_fsaw1 = g_fsaw2 = g_fsaw3 = 0;
    __CPROVER_assume(k < 64);
    memcpy(ell0, ell, 64);
    /* watch values, built with the TU's own field functions: u and t as canonical field elements (when the byte
     * strings are < p), the constants 1 and 4 */
    u_canon = secp256k1_fe_set_b32_limit(&g_fw0, ell);
    t_canon = secp256k1_fe_set_b32_limit(&g_fw1, ell + 32);
    g_fw2 = secp256k1_fe_one; secp256k1_fe_set_int(&g_fw3, 4);
    ret = secp256k1_ellswift_decode(&ctx, use_pk ? &pk : NULL, use_ell ? ell : NULL);
    __CPROVER_assert(g_error == 0, "C18 decode: error callback never invoked");
    __CPROVER_assert(ell[k] == ell0[k], "C18 decode: encoding (const) is not modified");
    if (!use_pk || !use_ell) __CPROVER_assert(ret == 0 && g_illegal == 1, "C18 decode: NULL argument is illegal and returns 0");
    else {
        __CPROVER_assert(ret == 1 && g_illegal == 0, "C18 decode: total - returns 1 for every 64-byte string, no callback");
        if (u_canon && !sp_is0(ub)) __CPROVER_assert(g_fsaw0, "C18 decode: u (bytes 0..31) enters the map arithmetic");
        if (sp_is0(sp_modp(ub))) __CPROVER_assert(g_fsaw2, "C18 decode: u = 0 (mod p, i.e. bytes 0 or p) is remapped: the value 1 enters the arithmetic in its place");
        if (t_canon && !sp_is0(tb)) __CPROVER_assert(g_fsaw1, "C18 decode: t (bytes 32..63) enters the map arithmetic");
        if (sp_is0(tv)) __CPROVER_assert(g_fsaw2 || g_fsaw3, "C18 decode: t = 0 (mod p) is remapped: s = 1 (or 4 in the g+s = 0 case) enters the arithmetic");
        __CPROVER_assert(g_onc_n == 1 || g_onc_n == 2, "C18 decode: one or two curve-membership verdicts");
        if (g_onc_n == 1) __CPROVER_assert(g_onc_v0 == 1, "C18 decode: a single verdict means the first candidate was accepted");
        if (g_onc_n == 2) __CPROVER_assert(g_onc_v0 == 0, "C18 decode: a second candidate is only tried after the first was rejected");
        __CPROVER_assert(g_finv_n >= 1 && g_fmul_n >= 1 && (FE_SAME(g_fmul_bl, g_finv_r0) || FE_SAME(g_fmul_al, g_finv_r0)), "C18 decode: x = xn * (1/xd): the inversion result is an operand of the final multiplication");
        if (g_onc_v0 == 1) __CPROVER_assert((FE_SAME(g_fmul_al, g_onc_xn0) || FE_SAME(g_fmul_bl, g_onc_xn0)) && FE_SAME(g_finv_x0, g_onc_xd0), "C18 decode: an accepted first candidate is the fraction returned");
        if (g_onc_n == 2 && g_onc_v1 == 1) __CPROVER_assert((FE_SAME(g_fmul_al, g_onc_xn1) || FE_SAME(g_fmul_bl, g_onc_xn1)) && FE_SAME(g_finv_x0, g_onc_xd1), "C18 decode: an accepted second candidate is the fraction returned");
        __CPROVER_assert(g_xq_n >= 1 && FE_SAME(g_xq_x0, g_fmul_rl), "C18 decode: the x lifted to a point is the product computed");
        view_pk64(pk.data, &ox, &oy, &oinv);
        __CPROVER_assert(sp_eq(ox, sp_modp8(fval(&g_xq_x0))), "C18 decode: pubkey x is that x (mod p)");
        y0 = sp_modp8(fval(&g_xq_y0));
        __CPROVER_assert(sp_eq(oy, y0) || sp_eq(oy, sp_negp(y0)), "C18 decode: pubkey y is the lifted y or its negation (mod p)");
        if (!sp_is0(y0)) __CPROVER_assert(sp_odd(oy) == sp_odd(tv), "C18 decode: parity of y equals parity of t (mod p)");
        if (g_onc_n == 1) REACH("decode first candidate");
        if (g_onc_n == 2 && g_onc_v1 == 1) REACH("decode second candidate");
        if (g_onc_n == 2 && g_onc_v1 == 0) REACH("decode third candidate");
        if (sp_is0(sp_modp(ub)) && !sp_is0(ub)) REACH("decode u = p (zero mod p, non-zero bytes)");
        if (sp_is0(tv) && g_fsaw3 && !g_fsaw2) REACH("decode t = 0 with the g+s = 0 doubling");
        if (!sp_lt(tb, sp_p())) REACH("decode t >= p");
    }
    if (!use_pk || !use_ell) REACH("decode NULL argument");
}

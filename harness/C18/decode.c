/* C18: secp256k1_ellswift_decode is TOTAL: for every 64-byte string it returns 1 without any callback and
 * writes a pubkey object whose x is the x the map computed and whose y has the parity of t.
 * REAL code: fe_set_b32_mod, fe_normalize_var, the whole body of secp256k1_ellswift_xswiftec_frac_var
 * (remaps u=0 -> 1, t=0 -> s=1, g+s=0 -> s=4s via the real secp256k1_fe_normalizes_to_zero_var; candidate
 * selection), xswiftec_var, swiftec_var, ge_set_xo_var (parity fix-up), pubkey_save.
 * ASSUMED oracles with ghost logs (assumed_C18.h): fe mul / sqr / inv_var, the two curve-membership verdicts
 * (ge_x_frac_on_curve_var), ge_set_xquad (square root).  With mul/sqr replaced, their operand-magnitude
 * preconditions (<= 8) are obligations: the map code is overflow-free for every input.
 * Map ALGEBRA (that the selected candidate is on the curve, that x = xn/xd) is the assumed residue. */
#include "assumed_C18.h"
#include "../C04/spec.h"
#include "src/secp256k1.c"
#include "post.h"

static sp modp8(sp a) { sp p = sp_p(); int i; for (i = 0; i < 9; i++) if (!sp_lt(a, p)) a = sp_sub(a, p); return a; }   /* a < 9p */
static sp mul4p(sp a) { return modp8(sp_add(sp_add(a, a), sp_add(a, a))); }                                            /* 4a mod p, a < p */

void h_decode(void) {
    secp256k1_context ctx;
    INPUT(secp256k1_pubkey, pk); INPUT_ARR(unsigned char, ell, 64); INPUT(_Bool, use_pk); INPUT(_Bool, use_ell); INPUT(size_t, k);
    unsigned char ell0[64];
    int ret; sp uv = sp_modp(sp_be32(ell)), tv = sp_modp(sp_be32(ell + 32)), s, s0, y0, yo;
    verif_ctx_init(&ctx);
    g_sqr_n = 0; g_fmul_n = 0; g_finv_n = 0; g_onc_n = 0; g_xq_n = 0;
    __CPROVER_assume(k < 64);
    memcpy(ell0, ell, 64);
    ret = secp256k1_ellswift_decode(&ctx, use_pk ? &pk : NULL, use_ell ? ell : NULL);
    __CPROVER_assert(g_error == 0, "C18 decode: error callback never invoked");
    __CPROVER_assert(ell[k] == ell0[k], "C18 decode: encoding is not modified");
    if (!use_pk || !use_ell) __CPROVER_assert(ret == 0 && g_illegal == 1 && g_sqr_n == 0, "C18 decode: NULL argument is illegal and returns 0");
    else {
        __CPROVER_assert(ret == 1 && g_illegal == 0, "C18 decode: total - returns 1 for every 64-byte string, no callback");
        __CPROVER_assert(g_sqr_n >= 2 && sp_eq(sp_modp(fval(&g_sqr_a0)), tv), "C18 decode: t is bytes 32..63 mod p");
        __CPROVER_assert(sp_eq(sp_modp(fval(&g_sqr_a1)), sp_is0(uv) ? sp_u64(1) : uv), "C18 decode: u is bytes 0..31 mod p, with u = 0 (mod p) remapped to 1");
        s = modp8(fval(&g_fmul_a1)); s0 = sp_modp(fval(&g_sqr_r0));
        __CPROVER_assert(g_fmul_n >= 3, "C18 decode: map multiplications happened");
        if (sp_is0(tv)) __CPROVER_assert(sp_eq(s, sp_u64(1)) || sp_eq(s, sp_u64(4)), "C18 decode: t = 0 (mod p) is remapped: s = 1 (or 4 in the g+s = 0 case)");
        else __CPROVER_assert(sp_eq(s, s0) || sp_eq(s, mul4p(s0)), "C18 decode: otherwise s is the square of t (times 4 in the g+s = 0 case)");
        __CPROVER_assert(g_onc_n == 1 || g_onc_n == 2, "C18 decode: one or two curve-membership verdicts");
        if (g_onc_n == 1) __CPROVER_assert(g_onc_v0 == 1, "C18 decode: a single verdict means the first candidate was accepted");
        if (g_onc_n == 2) __CPROVER_assert(g_onc_v0 == 0, "C18 decode: the second candidate is only tried after the first was rejected");
        __CPROVER_assert(g_finv_n == 1 && FE_EQ(g_fmul_bl, g_finv_r0), "C18 decode: x = xn * (1/xd): one inversion, its result is the last multiplier");
        if (g_onc_v0 == 1) __CPROVER_assert(FE_EQ(g_fmul_al, g_onc_xn0) && FE_EQ(g_finv_x0, g_onc_xd0), "C18 decode: an accepted first candidate is the fraction returned");
        if (g_onc_n == 2 && g_onc_v1 == 1) __CPROVER_assert(FE_EQ(g_fmul_al, g_onc_xn1) && FE_EQ(g_finv_x0, g_onc_xd1), "C18 decode: an accepted second candidate is the fraction returned");
        if (g_onc_n == 2 && g_onc_v1 == 0) __CPROVER_assert(FE_EQ(g_finv_x0, g_onc_xd1), "C18 decode: the third candidate shares the second's denominator");
        __CPROVER_assert(g_xq_n == 1 && FE_EQ(g_xq_x0, g_fmul_rl), "C18 decode: the x lifted to a point is the product computed");
        __CPROVER_assert(sp_eq(sp_le32(pk.data), sp_modp(fval(&g_xq_x0))), "C18 decode: pubkey x is that x, reduced mod p");
        y0 = sp_modp(fval(&g_xq_y0)); yo = sp_le32(pk.data + 32);
        __CPROVER_assert(sp_eq(yo, y0) || sp_eq(yo, sp_negp(y0)), "C18 decode: pubkey y is the lifted y or its negation, reduced mod p");
        if (!sp_is0(y0)) __CPROVER_assert(sp_odd(yo) == sp_odd(tv), "C18 decode: parity of y equals parity of t (mod p)");
        if (g_onc_n == 1) REACH("decode first candidate");
        if (g_onc_n == 2 && g_onc_v1 == 1) REACH("decode second candidate");
        if (g_onc_n == 2 && g_onc_v1 == 0) REACH("decode third candidate");
        if (sp_is0(uv) && !sp_is0(sp_be32(ell))) REACH("decode u = p (zero mod p, non-zero bytes)");
        if (sp_is0(tv) && sp_eq(s, sp_u64(4))) REACH("decode t = 0 with the g+s = 0 doubling");
        if (!sp_lt(sp_be32(ell + 32), sp_p())) REACH("decode t >= p");
    }
}

/* C07 (also C09/C10), r3: the rewind path of the range-proof verifier, decided MODULARLY.
 *
 *   h_rewind_inner : the contract of secp256k1_rangeproof_rewind_inner (contracts/assumed_r3_rewind.h) ENFORCED on the real
 *                    body, for every ring layout (1..32 rings of 1..4 members), every content of the challenge / signature
 *                    arrays (heap objects of EXACTLY 4*rings scalars), every header length <= 10, every message capacity
 *                    *mlen <= R3_MAXM (heap object of exactly *mlen bytes) and every NULL / non-NULL combination of m, mlen.
 *                    Obligations: cbmc's generated ones for every dereference / index (prep[4096], tmp[32], s_orig[128], sec[32],
 *                    s[], ev[], m[]), shifts and signed arithmetic; the frame {*blind, *v, *mlen, m[0..*mlen)}; *mlen' <= *mlen;
 *                    the capacity preconditions of genrand / ch32xor / memcpy / memset / memclear at their call sites.
 *                    The three nested message loops are closed by loop contracts from the unit table (unbounded in rings,
 *                    ring sizes and *mlen); the constant loops (2, 8, 128, 32) are unwound.
 *   h_genrand      : the genrand contract ENFORCED on the real body (DRBG by frame contracts, rejection-sampling loop and
 *                    ring loops by loop contracts).
 *   h_ch32xor      : the ch32xor leaf contract ENFORCED.
 *
 * Oracles here (frame only): scalar_mul, scalar_inverse (recover_x / recover_k stay real around them), memcpy / memset /
 * memclear_explicit / scalar_clear stubs that assert the bounds and havoc the destination object. */
#define RP_STUB_SCALAR_ALG
#define RP_STUB_MEMCPY
#define RP_STUB_MEMSET
#define RP_STUB_CLEAR
#define RP_CH32XOR
#ifdef R3_UNIT_GENRAND
#define RP_HMAC
#endif
#include "assumed_rangeproof.h"
#define R3_GENRAND
#ifdef R3_UNIT_REWIND_INNER
#define R3_REWIND_INNER
#endif
#include "assumed_r3_rewind.h"
#include "src/secp256k1.c"
#include "post.h"

#ifndef R3_MAXM
#define R3_MAXM 5000   /* > 4096 - 64 = the longest message a proof can carry */
#endif
/* R3_MAXRINGS < 32 gives a BOUNDED stand-in: ring counts above it are excluded by an assumption on the input */
#ifndef R3_MAXRINGS
#define R3_MAXRINGS 32
#endif

#ifdef R3_UNIT_REWIND_INNER
void h_rewind_inner(void) {
    INPUT(size_t, rings); INPUT(size_t, len); INPUT(size_t, mlen_in); INPUT(size_t, rs_last); INPUT(_Bool, use_m); INPUT(_Bool, use_mlen);
    INPUT_ARR(unsigned char, nonce, 32); INPUT(secp256k1_ge, commit); INPUT(secp256k1_ge, genp); INPUT(size_t, gb);
    size_t *rsizes; secp256k1_scalar *s, *ev; unsigned char *m, *proof; secp256k1_scalar blind; uint64_t v = 77; size_t mlen, np; int ret;
    secp256k1_hash_ctx hc;
    /* shapes of the input objects only; the ring-size range itself is the contract's precondition */
    __CPROVER_assume(rings >= 1 && rings <= R3_MAXRINGS && len <= 10 && mlen_in <= R3_MAXM && rs_last >= 1 && rs_last <= 4 && gb < 32);
    rsizes = malloc(rings * sizeof(size_t)); __CPROVER_assume(rsizes != NULL);
    __CPROVER_assume(rsizes[rings - 1] == rs_last);
    np = 4 * rings;   /* see the contract: the body may read up to index 4*rings-1 whatever the last ring size */
    s = malloc(np * sizeof(secp256k1_scalar)); ev = malloc(np * sizeof(secp256k1_scalar)); __CPROVER_assume(s != NULL && ev != NULL);
    m = malloc(mlen_in); proof = malloc(len); __CPROVER_assume(m != NULL && proof != NULL);
    hc.fn_sha256_compression = secp256k1_sha256_transform;
    g_r3gr.n = 0; g_rp_b = gb; g_rp_k = 0;
    mlen = mlen_in;
    ret = secp256k1_rangeproof_rewind_inner(&hc, &blind, &v, use_m ? m : NULL, use_mlen ? &mlen : NULL, ev, s, rsizes, rings, nonce, &commit, proof, len, &genp);
    /* the contract's ensures / assigns are checked by DFCC; the assertions below restate the two facts callers rely on */
    __CPROVER_assert(ret == 0 || ret == 1, "C07 r3 rewind_inner: returns 0 or 1");
    __CPROVER_assert(mlen <= mlen_in, "C07 r3 rewind_inner: reported message length never exceeds the capacity given");
    if (ret == 1 && use_m && use_mlen && mlen == mlen_in && mlen_in == 40) REACH("rewind_inner fills a 40-byte buffer completely");
    if (ret == 1 && use_m && use_mlen && mlen < mlen_in && rings == R3_MAXRINGS && rs_last == 4) REACH("rewind_inner shortens the length for the largest layout");
    if (ret == 1 && use_m && use_mlen && mlen == 128 * R3_MAXRINGS - 64 && rings == R3_MAXRINGS) REACH("rewind_inner recovers the longest message of the largest layout");
    if (ret == 1 && rings == 1 && rs_last == 1) REACH("rewind_inner single-member proof");
    if (ret == 1 && !use_mlen && rings == R3_MAXRINGS) REACH("rewind_inner without a length pointer");
    if (ret == 0 && use_mlen && rings == R3_MAXRINGS) REACH("rewind_inner fails to find a value encoding");
}
#endif

#ifdef R3_UNIT_CH32XOR
void h_ch32xor(void) {
    INPUT_ARR(unsigned char, x, 32); INPUT_ARR(unsigned char, y, 32);
    secp256k1_rangeproof_ch32xor(x, y);
    REACH("ch32xor returns");
}
#endif

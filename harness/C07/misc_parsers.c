/* C07 (misc entry points): untrusted bytes never cause UB or callbacks.
 * One h_* entry per API function.  Every pointer argument is NULL or an object of EXACTLY the documented
 * size with arbitrary bytes; variable-length input (ec_pubkey_parse) is a heap object of exactly
 * `inputlen` bytes for every inputlen <= 100.  Crypto callees are frame-only oracles (assumed_bppp.h):
 * ge_set_xo_var, ge_set_xquad, ge_is_valid_var, ge_x_on_curve_var, ellswift swiftec / xswiftec_frac,
 * ecmult_const_xonly; SHA-256 by the stream contract of hash_log.h (proved in C05).  Everything else
 * (eckey_pubkey_parse, fe_set_b32_*, normalisation, ge_to_bytes, scalar_set_b32, ...) is the real code.
 * Obligations: CBMC's generated bounds / pointer / overflow / shift checks on all of it, plus the
 * assertions below. */
#define BP_SET_XO
#define BP_SET_XQUAD
#define BP_GE_IS_VALID
#define BP_X_ON_CURVE
#define BP_ELLSWIFT
#include "assumed_bppp.h"
#include "hash_log.h"
#include "src/secp256k1.c"
#include "post.h"

#define API_POST(name, all_args) do { \
    __CPROVER_assert(ret == 0 || ret == 1, "C07 " name ": returns 0 or 1"); \
    __CPROVER_assert(g_error == 0, "C07 " name ": error callback never invoked"); \
    if (all_args) __CPROVER_assert(g_illegal == 0, "C07 " name ": no illegal callback for non-NULL arguments"); \
    else __CPROVER_assert(ret == 0 && g_illegal == 1, "C07 " name ": illegal argument (NULL, or outside its documented range) => 0 and exactly one illegal callback"); \
} while (0)

void h_ec_pubkey_parse(void) {
    secp256k1_context ctx; INPUT(secp256k1_pubkey, pk_ec_pubkey_parse); INPUT(size_t, len_ec_pubkey_parse); INPUT(_Bool, use_pk_ec_pubkey_parse); INPUT(_Bool, use_in_ec_pubkey_parse);
    unsigned char *in; int ret;
    verif_ctx_init(&ctx);
    __CPROVER_assume(len_ec_pubkey_parse <= 100);
    INPUT_BUF(inbuf, in, len_ec_pubkey_parse, 65);
    ret = secp256k1_ec_pubkey_parse(&ctx, use_pk_ec_pubkey_parse ? &pk_ec_pubkey_parse : NULL, use_in_ec_pubkey_parse ? in : NULL, len_ec_pubkey_parse);
    WITNESS_BUF(inbuf, in, len_ec_pubkey_parse, 65);
    API_POST("ec_pubkey_parse", use_pk_ec_pubkey_parse && use_in_ec_pubkey_parse);
    if (ret) __CPROVER_assert((len_ec_pubkey_parse == 33 && (in[0] == 2 || in[0] == 3)) || (len_ec_pubkey_parse == 65 && (in[0] == 4 || in[0] == 6 || in[0] == 7)), "C07 ec_pubkey_parse: accepts only 33 bytes with tag 2/3 or 65 bytes with tag 4/6/7");
    if (ret && len_ec_pubkey_parse == 33) REACH("compressed key accepted");
    if (ret && len_ec_pubkey_parse == 65 && in[0] == 7) REACH("hybrid odd key accepted");
    if (!ret && use_pk_ec_pubkey_parse && use_in_ec_pubkey_parse && len_ec_pubkey_parse == 0) REACH("empty input rejected");
    if (!ret && use_pk_ec_pubkey_parse && use_in_ec_pubkey_parse && len_ec_pubkey_parse == 65 && in[0] == 4) REACH("uncompressed key rejected");
    if (!ret && use_pk_ec_pubkey_parse && use_in_ec_pubkey_parse && len_ec_pubkey_parse == 34) REACH("34-byte input rejected");
}

void h_s2c_opening_parse(void) {
    secp256k1_context ctx; INPUT(secp256k1_ecdsa_s2c_opening, op_s2c_opening_parse); INPUT_ARR(unsigned char, in33_s2c_opening_parse, 33); INPUT(_Bool, use_op_s2c_opening_parse); INPUT(_Bool, use_in_s2c_opening_parse);
    int ret;
    verif_ctx_init(&ctx);
    ret = secp256k1_ecdsa_s2c_opening_parse(&ctx, use_op_s2c_opening_parse ? &op_s2c_opening_parse : NULL, use_in_s2c_opening_parse ? in33_s2c_opening_parse : NULL);
    API_POST("ecdsa_s2c_opening_parse", use_op_s2c_opening_parse && use_in_s2c_opening_parse);
    if (ret) __CPROVER_assert(in33_s2c_opening_parse[0] == 2 || in33_s2c_opening_parse[0] == 3, "C07 ecdsa_s2c_opening_parse: accepts only compressed-point tags");
    if (ret) REACH("opening accepted");
    if (!ret && use_op_s2c_opening_parse && use_in_s2c_opening_parse && in33_s2c_opening_parse[0] == 2) REACH("opening with valid tag rejected");
}

void h_xonly_pubkey_parse(void) {
    secp256k1_context ctx; INPUT(secp256k1_xonly_pubkey, pk_xonly_pubkey_parse); INPUT_ARR(unsigned char, in32_xonly_pubkey_parse, 32); INPUT(_Bool, use_pk_xonly_pubkey_parse); INPUT(_Bool, use_in_xonly_pubkey_parse);
    int ret;
    verif_ctx_init(&ctx);
    ret = secp256k1_xonly_pubkey_parse(&ctx, use_pk_xonly_pubkey_parse ? &pk_xonly_pubkey_parse : NULL, use_in_xonly_pubkey_parse ? in32_xonly_pubkey_parse : NULL);
    API_POST("xonly_pubkey_parse", use_pk_xonly_pubkey_parse && use_in_xonly_pubkey_parse);
#ifndef VERIF_NATIVE
    if (ret) __CPROVER_assert(be256(in32_xonly_pubkey_parse) < P_(), "C07 xonly_pubkey_parse: accepts only x below the field prime");
#endif
    if (ret) REACH("x-only key accepted");
    if (!ret && use_pk_xonly_pubkey_parse && use_in_xonly_pubkey_parse && in32_xonly_pubkey_parse[0] == 0xFF) REACH("x-only key rejected");
}

void h_sig_parse_compact(void) {
    secp256k1_context ctx; INPUT(secp256k1_ecdsa_signature, sig_sig_parse_compact); INPUT_ARR(unsigned char, in64_sig_parse_compact, 64); INPUT(_Bool, use_sig_sig_parse_compact); INPUT(_Bool, use_in_sig_parse_compact);
    int ret;
    verif_ctx_init(&ctx);
    ret = secp256k1_ecdsa_signature_parse_compact(&ctx, use_sig_sig_parse_compact ? &sig_sig_parse_compact : NULL, use_in_sig_parse_compact ? in64_sig_parse_compact : NULL);
    API_POST("ecdsa_signature_parse_compact", use_sig_sig_parse_compact && use_in_sig_parse_compact);
#ifndef VERIF_NATIVE
    if (use_sig_sig_parse_compact && use_in_sig_parse_compact) __CPROVER_assert(ret == (be256(in64_sig_parse_compact) < N_() && be256(in64_sig_parse_compact + 32) < N_()), "C07 ecdsa_signature_parse_compact: accepts exactly r, s below the group order");
#endif
    if (ret) REACH("compact signature accepted");
    if (!ret && use_sig_sig_parse_compact && use_in_sig_parse_compact) REACH("compact signature rejected");
}

void h_recsig_parse_compact(void) {
    secp256k1_context ctx; INPUT(secp256k1_ecdsa_recoverable_signature, sig_recsig_parse_compact); INPUT_ARR(unsigned char, in64_recsig_parse_compact, 64); INPUT(_Bool, use_sig_recsig_parse_compact); INPUT(_Bool, use_in_recsig_parse_compact); INPUT(int, recid_recsig_parse_compact);
    int ret, recid_ok = (recid_recsig_parse_compact >= 0 && recid_recsig_parse_compact <= 3);
    verif_ctx_init(&ctx);
    ret = secp256k1_ecdsa_recoverable_signature_parse_compact(&ctx, use_sig_recsig_parse_compact ? &sig_recsig_parse_compact : NULL, use_in_recsig_parse_compact ? in64_recsig_parse_compact : NULL, recid_recsig_parse_compact);
    /* recid_recsig_parse_compact outside 0..3 is a documented illegal argument (not attacker bytes): one illegal callback, 0 */
    API_POST("ecdsa_recoverable_signature_parse_compact", use_sig_recsig_parse_compact && use_in_recsig_parse_compact && recid_ok);
#ifndef VERIF_NATIVE
    if (use_sig_recsig_parse_compact && use_in_recsig_parse_compact && recid_ok) __CPROVER_assert(ret == (be256(in64_recsig_parse_compact) < N_() && be256(in64_recsig_parse_compact + 32) < N_()), "C07 ecdsa_recoverable_signature_parse_compact: accepts exactly r, s below the group order");
#endif
    if (ret) {   /* the parsed object is read back through the library's own serializer, not by its bytes */
        unsigned char out64[64]; int recid_out = -1, r2;
        r2 = secp256k1_ecdsa_recoverable_signature_serialize_compact(&ctx, out64, &recid_out, &sig_recsig_parse_compact);
        __CPROVER_assert(r2 == 1 && g_illegal == 0 && recid_out == recid_recsig_parse_compact, "C07 ecdsa_recoverable_signature_parse_compact: the parsed object serializes back with the same recovery id, without callback");
    }
    if (ret && recid_recsig_parse_compact == 3) REACH("recoverable signature with recid_recsig_parse_compact 3 accepted");
    if (!ret && use_sig_recsig_parse_compact && use_in_recsig_parse_compact && recid_ok) REACH("recoverable signature rejected");
    if (use_sig_recsig_parse_compact && use_in_recsig_parse_compact && recid_recsig_parse_compact == 4) REACH("recid_recsig_parse_compact 4");
}

void h_pedersen_commitment_parse(void) {
    secp256k1_context ctx; INPUT(secp256k1_pedersen_commitment, c_pedersen_commitment_parse); INPUT_ARR(unsigned char, in33_pedersen_commitment_parse, 33); INPUT(_Bool, use_c_pedersen_commitment_parse); INPUT(_Bool, use_in_pedersen_commitment_parse); INPUT(size_t, k_pedersen_commitment_parse);
    int ret;
    verif_ctx_init(&ctx);
    __CPROVER_assume(k_pedersen_commitment_parse < 33);
    ret = secp256k1_pedersen_commitment_parse(&ctx, use_c_pedersen_commitment_parse ? &c_pedersen_commitment_parse : NULL, use_in_pedersen_commitment_parse ? in33_pedersen_commitment_parse : NULL);
    API_POST("pedersen_commitment_parse", use_c_pedersen_commitment_parse && use_in_pedersen_commitment_parse);
    if (ret) {
        unsigned char out33[33]; int r2;
        __CPROVER_assert(in33_pedersen_commitment_parse[0] == 8 || in33_pedersen_commitment_parse[0] == 9, "C07 pedersen_commitment_parse: accepts only tags 8/9");
        r2 = secp256k1_pedersen_commitment_serialize(&ctx, out33, &c_pedersen_commitment_parse);
        __CPROVER_assert(r2 == 1 && g_illegal == 0 && out33[k_pedersen_commitment_parse] == in33_pedersen_commitment_parse[k_pedersen_commitment_parse], "C07 pedersen_commitment_parse: the parsed object serializes back to the 33 input bytes, without callback");
    }
#ifndef VERIF_NATIVE
    if (ret) __CPROVER_assert(be256(in33_pedersen_commitment_parse + 1) < P_(), "C07 pedersen_commitment_parse: accepts only x below the field prime");
#endif
    if (ret && in33_pedersen_commitment_parse[0] == 9) REACH("commitment with tag 9 accepted");
    if (!ret && use_c_pedersen_commitment_parse && use_in_pedersen_commitment_parse && in33_pedersen_commitment_parse[0] == 8) REACH("commitment with tag 8 rejected");
}

void h_generator_parse(void) {
    secp256k1_context ctx; INPUT(secp256k1_generator, g_generator_parse); INPUT_ARR(unsigned char, in33_generator_parse, 33); INPUT(_Bool, use_g_generator_parse); INPUT(_Bool, use_in_generator_parse);
    int ret;
    verif_ctx_init(&ctx);
    ret = secp256k1_generator_parse(&ctx, use_g_generator_parse ? &g_generator_parse : NULL, use_in_generator_parse ? in33_generator_parse : NULL);
    API_POST("generator_parse", use_g_generator_parse && use_in_generator_parse);
    if (ret) __CPROVER_assert(in33_generator_parse[0] == 10 || in33_generator_parse[0] == 11, "C07 generator_parse: accepts only tags 10/11");
#ifndef VERIF_NATIVE
    if (ret) {   /* the parsed object is decoded through the library's own loader; assertions are on its fields */
        secp256k1_ge e;
        secp256k1_generator_load(&e, &g_generator_parse);
        __CPROVER_assert(be256(in33_generator_parse + 1) < P_(), "C07 generator_parse: accepts only x below the field prime");
        __CPROVER_assert(e.infinity == 0 && fval(&e.x) == be256(in33_generator_parse + 1) && fval(&e.y) < P_(), "C07 generator_parse: the parsed object loads as a finite element whose x is the input x and whose y is canonical");
    }
#endif
    if (ret && in33_generator_parse[0] == 11) REACH("generator with tag 11 accepted");
    if (!ret && use_g_generator_parse && use_in_generator_parse && in33_generator_parse[0] == 10) REACH("generator with tag 10 rejected");
}

void h_ellswift_decode(void) {
    secp256k1_context ctx; INPUT(secp256k1_pubkey, pk_ellswift_decode); INPUT_ARR(unsigned char, ell64_ellswift_decode, 64); INPUT(_Bool, use_pk_ellswift_decode); INPUT(_Bool, use_in_ellswift_decode);
    int ret;
    verif_ctx_init(&ctx);
    ret = secp256k1_ellswift_decode(&ctx, use_pk_ellswift_decode ? &pk_ellswift_decode : NULL, use_in_ellswift_decode ? ell64_ellswift_decode : NULL);
    API_POST("ellswift_decode", use_pk_ellswift_decode && use_in_ellswift_decode);
    if (use_pk_ellswift_decode && use_in_ellswift_decode) __CPROVER_assert(ret == 1, "C07 ellswift_decode: every 64-byte string decodes");
    if (ret) REACH("ellswift encoding decoded");
}

/* user hash callback: arbitrary function respecting the documented frame (32-byte output, returns 0/1) */
static int stub_xdh_hash(unsigned char *output, const unsigned char *x32, const unsigned char *ell_a64, const unsigned char *ell_b64, void *data) {
    int i; (void)data;
    __CPROVER_assert(x32 != NULL && ell_a64 != NULL && ell_b64 != NULL && output != NULL, "C07 ellswift_xdh: hash callback gets non-NULL pointers");
    for (i = 0; i < 32; i++) output[i] = (unsigned char)(x32[i] ^ ell_a64[i] ^ ell_b64[63 - i]);
    return output[0] & 1;
}
void h_ellswift_xdh(void) {
    secp256k1_context ctx; INPUT_ARR(unsigned char, out32_ellswift_xdh, 32); INPUT_ARR(unsigned char, ella_ellswift_xdh, 64); INPUT_ARR(unsigned char, ellb_ellswift_xdh, 64); INPUT_ARR(unsigned char, sk_ellswift_xdh, 32);
    INPUT_ARR(unsigned char, prefix64_ellswift_xdh, 64); INPUT(int, party_ellswift_xdh); INPUT(unsigned char, which_ellswift_xdh);
    INPUT(_Bool, use_out_ellswift_xdh); INPUT(_Bool, use_a_ellswift_xdh); INPUT(_Bool, use_b_ellswift_xdh); INPUT(_Bool, use_sk_ellswift_xdh);
    secp256k1_ellswift_xdh_hash_function fp; int ret;
    verif_ctx_init(&ctx);
    HASHLOG_RESET(); g_we = 0; g_wpos = 0;
    fp = (which_ellswift_xdh == 0) ? secp256k1_ellswift_xdh_hash_function_bip324 : (which_ellswift_xdh == 1) ? secp256k1_ellswift_xdh_hash_function_prefix : (which_ellswift_xdh == 2) ? stub_xdh_hash : NULL;
    ret = secp256k1_ellswift_xdh(&ctx, use_out_ellswift_xdh ? out32_ellswift_xdh : NULL, use_a_ellswift_xdh ? ella_ellswift_xdh : NULL, use_b_ellswift_xdh ? ellb_ellswift_xdh : NULL, use_sk_ellswift_xdh ? sk_ellswift_xdh : NULL, party_ellswift_xdh, fp, prefix64_ellswift_xdh);
    API_POST("ellswift_xdh", use_out_ellswift_xdh && use_a_ellswift_xdh && use_b_ellswift_xdh && use_sk_ellswift_xdh && fp != NULL);
#ifndef VERIF_NATIVE
    if (use_out_ellswift_xdh && use_a_ellswift_xdh && use_b_ellswift_xdh && use_sk_ellswift_xdh && fp != NULL && (be256(sk_ellswift_xdh) == 0 || be256(sk_ellswift_xdh) >= N_())) __CPROVER_assert(ret == 0, "C07 ellswift_xdh: zero or overflowing secret key => 0");
#endif
    if (ret && which_ellswift_xdh == 0) REACH("xdh with the BIP324 hasher succeeds");
    if (ret && which_ellswift_xdh == 1 && party_ellswift_xdh) REACH("xdh with the prefix hasher succeeds");
    if (ret && which_ellswift_xdh == 2) REACH("xdh with a user hasher succeeds");
    if (!ret && which_ellswift_xdh == 2 && use_out_ellswift_xdh && use_a_ellswift_xdh && use_b_ellswift_xdh && use_sk_ellswift_xdh) REACH("xdh fails");
}

/* C07 (range-proof entry points) and C10 (API clause): secp256k1_rangeproof_info / _verify / _rewind on
 * EVERY proof byte string of every declared length (heap object of exactly plen bytes), every
 * commitment / generator object content, every NULL / non-NULL combination of the pointer arguments.
 * Obligations: CBMC's generated ones (every dereference and array index - pubs[128], s[128], evalues[128],
 * rsizes[32], signs[31], prep[4096], the proof and message buffers -, signed overflow, shift width),
 * the capacity preconditions of the oracle contracts at their call sites, ret in {0,1}, no callback for
 * non-NULL arguments, the illegal callback for the NULL arguments the public header forbids.
 * Real code: the API functions, commitment/generator load, verify_impl, getheader_impl, pub_expand,
 * rewind_inner, recover_x/recover_k.  Oracles (frame stubs/contracts, assumed_rangeproof.h): ge_set_xquad,
 * fe_is_square_var, gej_add_ge_var, gej_add_var, gej_double_var, pedersen_ecmult(_small), borromean_verify
 * (its real body: C10.borromean_*), genrand, scalar_mul, scalar_inverse; sha256 stream stubs; ch32xor
 * leaf contract; byte-reader stubs (C10.leaf_*). */
#define RP_STUB_XQUAD
#define RP_STUB_ISSQUARE
#define RP_STUB_ADD_GE
#define RP_STUB_ADD_VAR
#define RP_STUB_PED_SMALL
#define RP_STUB_PED
#define RP_STUB_BORRO_VERIFY
#define RP_STUB_SHA
#define RP_STUB_SCALAR_ALG
#define RP_STUB_READERS
#ifdef RP_REWIND_UNIT
#define RP_STUB_MEMCPY
#define RP_STUB_MEMSET
#define RP_STUB_CLEAR
#endif
#define RP_GENRAND
#define RP_CH32XOR
#include "assumed_rangeproof.h"
#include "src/secp256k1.c"
#include "post.h"
#define MAXP 6000
#define MAXE 100000
#define MAXM 5000
/* MAXMAN < 64 gives a BOUNDED stand-in (quick tier): headers with a larger mantissa are excluded by an
 * assumption on the proof bytes; the unbounded units (thorough tier) are the same harness with MAXMAN = 64. */
#ifndef MAXMAN
#define MAXMAN 64
#endif
#define BOUND_MANTISSA(proof, plen) __CPROVER_assume(MAXMAN >= 64 || (plen) < 2 || !((proof)[0] & 64) || (proof)[1] < MAXMAN)

static void api_reset(void) {
    g_xq_n = 0; g_xq_hit = 0; g_xq_and = 1; g_xq_watch = -1; g_sq_n = 0; g_sq_hit = 0; g_sq_watch = -1; g_ag_n = 0; g_ag_hit = 0; g_ag_last_inf = 0; g_ag_watch = -1;
    g_ps_n = 0; g_pd_n = 0; g_pd_hit = 0; g_pd_watch = -1; g_bv_n = 0; g_bv_v = 0; g_bv_and = 1; g_gr_n = 0; g_rp_k = 0; g_rp_b = 0;
    g_sb_n = 0; g_sb_hit = 0; g_sb_or = 0; rp_watch_scalar(NULL); g_fl_n = 0; g_fl_hit = 0; g_fl_and = 1; rp_watch_fe(NULL);
    HASHLOG_RESET(); g_we = -1; g_wpos = 0;
}

void h_info(void) {
    INPUT(size_t, plen); INPUT(_Bool, use_exp); INPUT(_Bool, use_man); INPUT(_Bool, use_min); INPUT(_Bool, use_max); INPUT(_Bool, use_proof);
    unsigned char *proof; secp256k1_context ctx; int exp = 77, mantissa = 77, ret; uint64_t minv = 77, maxv = 77;
    size_t off = 0; int hexp, hman, hret; uint64_t hscale, hmin, hmax;
    __CPROVER_assume(plen <= MAXP);
    INPUT_BUF(pf, proof, plen, 16);
    verif_ctx_init(&ctx);
    ret = secp256k1_rangeproof_info(&ctx, use_exp ? &exp : NULL, use_man ? &mantissa : NULL, use_min ? &minv : NULL, use_max ? &maxv : NULL, use_proof ? proof : NULL, plen);
    WITNESS_BUF(pf, proof, plen, 16);
    __CPROVER_assert(ret == 0 || ret == 1, "C07 rangeproof_info: returns 0 or 1");
    __CPROVER_assert(g_error == 0, "C07 rangeproof_info: never the error callback");
    if (use_exp && use_man && use_min && use_max && use_proof) {
        __CPROVER_assert(g_illegal == 0, "C07 rangeproof_info: no callback for non-NULL arguments, whatever the bytes");
        hret = secp256k1_rangeproof_getheader_impl(&off, &hexp, &hman, &hscale, &hmin, &hmax, proof, plen);
        __CPROVER_assert(ret == hret, "C10 rangeproof_info: accepts exactly the headers getheader_impl accepts");
        if (ret) __CPROVER_assert(exp == hexp && mantissa == hman && minv == hmin && maxv == hmax, "C10 rangeproof_info: outputs are the getheader outputs");
        if (ret && hexp == 18) REACH("info accepts exponent 18");
        if (!ret && plen >= 65) REACH("info rejects a long-enough proof");
    } else {
        /* include/secp256k1_rangeproof.h marks min_value and max_value "(cannot be NULL)"; nothing is promised for the others */
        if (!use_min || !use_max) __CPROVER_assert(g_illegal >= 1, "C07 rangeproof_info: NULL min_value / max_value is reported as illegal use");
        REACH("info NULL argument");
    }
}

void h_verify(void) {
    INPUT(size_t, plen); INPUT(size_t, eclen); INPUT(_Bool, use_min); INPUT(_Bool, use_max); INPUT(_Bool, use_commit); INPUT(_Bool, use_proof); INPUT(_Bool, use_extra); INPUT(_Bool, use_gen);
    INPUT(secp256k1_pedersen_commitment, commit); INPUT(secp256k1_generator, gen);
    unsigned char *proof, *extra; secp256k1_context ctx; int ret; uint64_t minv = 77, maxv = 77;
    size_t off = 0; int hexp, hman, hret; uint64_t hscale, hmin, hmax;
    __CPROVER_assume(plen <= MAXP && eclen <= MAXE);
    INPUT_BUF(pf, proof, plen, 2);
    INPUT_BUF(ex, extra, eclen, 8);
    BOUND_MANTISSA(proof, plen);
    verif_ctx_init(&ctx); ctx.hash_ctx.fn_sha256_compression = secp256k1_sha256_transform;
    api_reset();
    ret = secp256k1_rangeproof_verify(&ctx, use_min ? &minv : NULL, use_max ? &maxv : NULL, use_commit ? &commit : NULL, use_proof ? proof : NULL, plen,
                                      use_extra ? extra : NULL, eclen, use_gen ? &gen : NULL);
    WITNESS_BUF(pf, proof, plen, 2);
    __CPROVER_assert(ret == 0 || ret == 1, "C07 rangeproof_verify: returns 0 or 1");
    __CPROVER_assert(g_error == 0, "C07 rangeproof_verify: never the error callback");
    if (use_min && use_max && use_commit && use_proof && use_gen && (use_extra || eclen == 0)) {
        __CPROVER_assert(g_illegal == 0, "C07 rangeproof_verify: no callback for non-NULL arguments, whatever the bytes");
        if (ret) {
            hret = secp256k1_rangeproof_getheader_impl(&off, &hexp, &hman, &hscale, &hmin, &hmax, proof, plen);
            __CPROVER_assert(hret == 1 && minv == hmin && maxv == hmax && minv <= maxv, "C10 rangeproof_verify: reported [min,max] is the header range, min <= max < 2^64");
            __CPROVER_assert(g_bv_n >= 1 && g_bv_and == 1, "C10 rangeproof_verify: accepts only on a positive ring verdict");
        }
        if (ret && plen == (MAXMAN >= 64 ? 5134 : 10 + 32 * (2 * MAXMAN + (MAXMAN + 1) / 2 - 1) + 32 + ((MAXMAN + 1) / 2 + 6) / 8)) REACH("verify API accepts the largest proof");
        if (ret && plen == 65) REACH("verify API accepts the smallest proof");
        if (!ret && g_bv_n == 1) REACH("verify API rejects on the ring verdict");
    } else {
        __CPROVER_assert(g_illegal >= 1, "C07 rangeproof_verify: a NULL argument that the header forbids is reported as illegal use");
        REACH("verify API NULL argument");
    }
}

void h_rewind(void) {
    INPUT(size_t, plen); INPUT(size_t, eclen); INPUT(size_t, outlen_in);
    INPUT(_Bool, use_blind); INPUT(_Bool, use_value); INPUT(_Bool, use_msg); INPUT(_Bool, use_outlen); INPUT(_Bool, use_nonce);
    INPUT(_Bool, use_min); INPUT(_Bool, use_max); INPUT(_Bool, use_commit); INPUT(_Bool, use_proof); INPUT(_Bool, use_extra); INPUT(_Bool, use_gen);
    INPUT(secp256k1_pedersen_commitment, commit); INPUT(secp256k1_generator, gen); INPUT_ARR(unsigned char, nonce, 32); INPUT(size_t, gb);
    unsigned char *proof, *extra, *msg; unsigned char blind[32]; secp256k1_context ctx; int ret; uint64_t minv = 77, maxv = 77, value = 77; size_t outlen;
    __CPROVER_assume(plen <= MAXP && eclen <= MAXE && outlen_in <= MAXM && gb < 32);
    INPUT_BUF(pf, proof, plen, 2);
    INPUT_BUF(ex, extra, eclen, 8);
    INPUT_BUF(mg, msg, outlen_in, 8);
    BOUND_MANTISSA(proof, plen);
    verif_ctx_init(&ctx); ctx.hash_ctx.fn_sha256_compression = secp256k1_sha256_transform; ctx.ecmult_gen_ctx.built = 1;
    api_reset(); g_rp_b = gb;
    outlen = outlen_in;
    ret = secp256k1_rangeproof_rewind(&ctx, use_blind ? blind : NULL, use_value ? &value : NULL, use_msg ? msg : NULL, use_outlen ? &outlen : NULL, use_nonce ? nonce : NULL,
                                      use_min ? &minv : NULL, use_max ? &maxv : NULL, use_commit ? &commit : NULL, use_proof ? proof : NULL, plen,
                                      use_extra ? extra : NULL, eclen, use_gen ? &gen : NULL);
    WITNESS_BUF(pf, proof, plen, 2);
    __CPROVER_assert(ret == 0 || ret == 1, "C07 rangeproof_rewind: returns 0 or 1");
    __CPROVER_assert(g_error == 0, "C07 rangeproof_rewind: never the error callback");
    if (use_commit && use_proof && use_min && use_max && (use_msg || !use_outlen) && use_nonce && (use_extra || eclen == 0) && use_gen) {
        __CPROVER_assert(g_illegal == 0, "C07 rangeproof_rewind: no callback for non-NULL arguments, whatever the bytes");
        __CPROVER_assert(outlen <= outlen_in, "C07 rangeproof_rewind: reported message length never exceeds the buffer length given");
        if (ret && g_gr_n >= 1) __CPROVER_assert(g_gr_nonce_b == nonce[gb] && g_gr_len >= 1 && g_gr_len <= 10 && (gb >= g_gr_len || g_gr_hdr[gb < 10 ? gb : 0] == proof[gb]), "C09 rangeproof_rewind: random stream re-seeded with the caller's nonce bytes and the proof header bytes");
        if (ret && use_msg && use_outlen && outlen == 128 * ((MAXMAN + 1) / 2 - 1) && outlen > 0) REACH("rewind API recovers a full-length message");
        if (ret && use_outlen && outlen_in > 0 && outlen < outlen_in) REACH("rewind API shortens the message length");
        if (ret && !use_msg && !use_outlen && use_blind && use_value) REACH("rewind API without message buffer");
        if (!ret && g_gr_n == 1) REACH("rewind API fails after re-deriving the stream");
    } else {
        __CPROVER_assert(g_illegal >= 1, "C07 rangeproof_rewind: a NULL combination that the header forbids is reported as illegal use");
        REACH("rewind API NULL argument");
    }
}

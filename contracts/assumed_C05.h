/* C05 (b): contracts that replace the 64x64->128 multiplier by an UNINTERPRETED function.
 *
 *   native __int128 (cfg W128): the two one-line bodies that ARE the multiplier
 *     secp256k1_u128_mul(r,a,b):        *r = umul(a,b)
 *     secp256k1_u128_accum_mul(r,a,b):  *r = old(*r) + umul(a,b)     (mod 2^128)
 *   struct emulation (cfg W128S): only secp256k1_umul128(a,b,&hi) = umul(a,b); the struct carry code stays real
 *
 * umul is CBMC's uninterpreted function symbol __CPROVER_uninterpreted_umul, constrained only by
 *   (E) it IS the exact product when one operand is one of the compile-time reduction constants the field
 *       code multiplies by (R = 0x1000003D10, R << 12, R >> 4) resp. a limb of 2^256 - n for the scalar code
 *       (multiplication by a constant is cheap for the solver);
 *   (B) bit-length axioms: a < 2^i and b < 2^j  ==>  umul(a,b) < 2^(i+j), for the operand widths that occur.
 * Every property proved with these contracts holds for EVERY function satisfying (E) and (B), in particular for
 * the real multiplier; (B) is discharged against the real one-line bodies by unit C05.umul_axioms.
 * What is NOT stated (and therefore assumed nowhere): any algebraic law of multiplication.
 * The congruence  r == a b (mod p)  of fe_mul_inner/fe_sqr_inner and the value of scalar_mul_512/reduce_512
 * stay ASSUMED residue of C05. */
#ifndef VERIF_ASSUMED_C05_H
#define VERIF_ASSUMED_C05_H
#include "spec_arith.h"

#ifndef VERIF_NATIVE
typedef unsigned __int128 sa_u128_t;
sa_u128_t __CPROVER_uninterpreted_umul(uint64_t a, uint64_t b);

#define SA_RC 0x1000003D10ULL
#ifdef C05_UF_SCALAR
/* scalar_reduce_512 multiplies by the limbs of 2^256 - n, and by small carries (handled by (B)) */
# define SA_NC0 0x402DA1732FC9BEBFULL
# define SA_NC1 0x4551231950B75FC4ULL
# define SA_EXACT(a, b) ((b) == SA_NC0 || (b) == SA_NC1 || (a) == SA_NC0 || (a) == SA_NC1)
#else
# define SA_EXACT(a, b) ((a) == SA_RC || (a) == (SA_RC << 12) || (b) == SA_RC || (b) == (SA_RC >> 4))
#endif
#define SA_UMUL(a, b) (SA_EXACT(a, b) ? (sa_u128_t)(a) * (b) : __CPROVER_uninterpreted_umul(a, b))
/* (B) for the operand widths that occur: field 5x52 inputs of magnitude <= 8 have 56-bit limbs (top limb 52),
 * fe_sqr_inner doubles one operand (57 resp. 53 bits) */
#define SA_B(a, b, i, j) (((a) >> (i)) == 0 && ((b) >> (j)) == 0 ==> (__CPROVER_uninterpreted_umul(a, b) >> ((i) + (j))) == 0)
#ifdef C05_UF_SCALAR
/* (B) for full 64-bit operands: the product of two 64-bit numbers is at most (2^64-1)^2 = 0xFFFFFFFFFFFFFFFE_0000000000000001 */
# define SA_UMUL_BOUNDS(a, b) (__CPROVER_uninterpreted_umul(a, b) <= ((((sa_u128_t)0xFFFFFFFFFFFFFFFEULL) << 64) | 1))
#else
#define SA_UMUL_BOUNDS(a, b) \
    (SA_B(a, b, 56, 56) && SA_B(a, b, 56, 52) && SA_B(a, b, 52, 56) && SA_B(a, b, 52, 52) && \
     SA_B(a, b, 57, 56) && SA_B(a, b, 56, 53) && SA_B(a, b, 53, 56) && SA_B(a, b, 57, 52) && SA_B(a, b, 53, 52))
#endif
#define SA_BR(a, b, i, j) (((a) >> (i)) == 0 && ((b) >> (j)) == 0 ==> ((((sa_u128_t)(a)) * (b)) >> ((i) + (j))) == 0)
#define SA_REAL_BOUNDS(a, b) \
    (SA_BR(a, b, 56, 56) && SA_BR(a, b, 56, 52) && SA_BR(a, b, 52, 56) && SA_BR(a, b, 52, 52) && \
     SA_BR(a, b, 57, 56) && SA_BR(a, b, 56, 53) && SA_BR(a, b, 53, 56) && SA_BR(a, b, 57, 52) && SA_BR(a, b, 53, 52))

#if !defined(SECP256K1_INT128_STRUCT) && !defined(USE_FORCE_WIDEMUL_INT64) && defined(C05_UF_AXIOM_FORM)
/* same contract in AXIOM form (used only by harness/C05/arith_fecong.c): the result is ALWAYS umul(a,b); exactness for the reduction
 * constants is an implication about umul instead of a case split in the value.  Equivalent to the form below. */
static SECP256K1_INLINE void secp256k1_u128_mul(secp256k1_uint128 *r, uint64_t a, uint64_t b)
__CPROVER_requires(__CPROVER_w_ok(r, sizeof(*r)))
__CPROVER_assigns(*r)
__CPROVER_ensures(*r == __CPROVER_uninterpreted_umul(a, b))
__CPROVER_ensures(SA_EXACT(a, b) ==> __CPROVER_uninterpreted_umul(a, b) == (sa_u128_t)a * b)
__CPROVER_ensures(SA_UMUL_BOUNDS(a, b))
;
static SECP256K1_INLINE void secp256k1_u128_accum_mul(secp256k1_uint128 *r, uint64_t a, uint64_t b)
__CPROVER_requires(__CPROVER_rw_ok(r, sizeof(*r)))
__CPROVER_assigns(*r)
__CPROVER_ensures(*r == __CPROVER_old(*r) + __CPROVER_uninterpreted_umul(a, b))
__CPROVER_ensures(SA_EXACT(a, b) ==> __CPROVER_uninterpreted_umul(a, b) == (sa_u128_t)a * b)
__CPROVER_ensures(SA_UMUL_BOUNDS(a, b))
;
#elif !defined(SECP256K1_INT128_STRUCT) && !defined(USE_FORCE_WIDEMUL_INT64)
static SECP256K1_INLINE void secp256k1_u128_mul(secp256k1_uint128 *r, uint64_t a, uint64_t b)
__CPROVER_requires(__CPROVER_w_ok(r, sizeof(*r)))
__CPROVER_assigns(*r)
__CPROVER_ensures(*r == SA_UMUL(a, b))
__CPROVER_ensures(SA_UMUL_BOUNDS(a, b))
;
static SECP256K1_INLINE void secp256k1_u128_accum_mul(secp256k1_uint128 *r, uint64_t a, uint64_t b)
__CPROVER_requires(__CPROVER_rw_ok(r, sizeof(*r)))
__CPROVER_assigns(*r)
__CPROVER_ensures(*r == __CPROVER_old(*r) + SA_UMUL(a, b))
__CPROVER_ensures(SA_UMUL_BOUNDS(a, b))
;
#elif defined(SECP256K1_INT128_STRUCT)
/* struct emulation of uint128 (cfg W128S): ONLY the 64x64->128 primitive secp256k1_umul128 is the uninterpreted function;
 * secp256k1_u128_mul / u128_accum_mul / accum_u64 / rshift (the two-limb carry code of int128_struct_impl.h) stay REAL.
 * (B) is NOT proved for the real 32x32 decomposition of secp256k1_umul128 (tried, undecided): the W128S units list this
 * contract under assumed. */
static SECP256K1_INLINE uint64_t secp256k1_umul128(uint64_t a, uint64_t b, uint64_t *hi)
__CPROVER_requires(__CPROVER_w_ok(hi, sizeof(*hi)))
__CPROVER_assigns(*hi)
__CPROVER_ensures(((((sa_u128_t)*hi) << 64) | __CPROVER_return_value) == SA_UMUL(a, b))
__CPROVER_ensures(SA_UMUL_BOUNDS(a, b))
;
#endif
#endif /* !VERIF_NATIVE */

/* ------------------------------------------------------------------------------------------------------------
 * C05 (b) group_impl.h magnitude bookkeeping (-DVERIFY): the multiplication-bearing field operations are
 * replaced by their MAGNITUDE contracts = exactly the VERIFY wrappers of field_impl.h without the arithmetic:
 *   requires  the wrapper's own VERIFY_CHECK preconditions (valid elements, magnitude <= 8, aliasing rules)
 *   ensures   a valid element with the magnitude / normalized fields the wrapper sets, limbs arbitrary within them
 * No algebraic fact.  All other field operations (add, negate, half, mul_int, normalize*, cmov, set_int, ...)
 * stay REAL code, so their own VERIFY_CHECKs are the obligations "every branch satisfies the magnitude
 * precondition of every field operation it calls". */
#if defined(VERIFY) && defined(C05_GROUP_CONTRACTS) && !defined(VERIF_NATIVE)
/* The representation invariant of a field element in a VERIFY build, as DEFINED in field_5x52.h / field_10x26.h:
 *   "Magnitude m requires n[i] <= 2 m (2^52-1), n[4] <= 2 m (2^48-1)";  "Normalized requires n[i] <= 2^52-1, value < p";
 *   field.h: magnitude in [0,32], normalized in {0,1}, normalized implies magnitude <= 1.
 * Note: secp256k1_fe_impl_verify checks the limb bound with m' = normalized ? 1 : 2*magnitude, which is WEAKER for the
 * combination (normalized = 1, magnitude = 0): it accepts a non-zero "magnitude 0" element, for which the magnitude
 * arithmetic of fe_add is unsound (found by C05.gej_add_ge: s1.magnitude = 0 with non-zero limbs).  Such an element
 * cannot be produced through the field API (magnitude 0 only arises with all limbs zero), so the documented invariant is
 * used here; the repo's own fe_verify is implied by it. */
static inline int sa_fe_okv(const secp256k1_fe *a) {
    int i, ok = 1; uint64_t m;
    if (a->magnitude < 0 || a->magnitude > 32) return 0;
    if (a->normalized != 0 && a->normalized != 1) return 0;
    if (a->normalized && a->magnitude > 1) return 0;
    m = 2 * (uint64_t)a->magnitude;
    for (i = 0; i < SA_FE_NL - 1; i++) ok = ok && ((uint64_t)a->n[i] <= SA_FE_LIMB_MAX * m) && (!a->normalized || (uint64_t)a->n[i] <= SA_FE_LIMB_MAX);
    ok = ok && ((uint64_t)a->n[SA_FE_NL - 1] <= SA_FE_TOP_MAX * m) && (!a->normalized || (uint64_t)a->n[SA_FE_NL - 1] <= SA_FE_TOP_MAX);
    if (a->normalized) ok = ok && fval(a) < P_();
    return ok;
}
static void secp256k1_fe_mul(secp256k1_fe *r, const secp256k1_fe *a, const secp256k1_fe * SECP256K1_RESTRICT b)
__CPROVER_requires(__CPROVER_w_ok(r, sizeof(*r)) && __CPROVER_r_ok(a, sizeof(*a)) && __CPROVER_r_ok(b, sizeof(*b)))
__CPROVER_requires(sa_fe_okv(a) && a->magnitude <= 8)
__CPROVER_requires(sa_fe_okv(b) && b->magnitude <= 8)
__CPROVER_requires(r != b && a != b)
__CPROVER_assigns(*r)
__CPROVER_ensures(sa_fe_okv(r) && r->magnitude == 1 && r->normalized == 0)
;
static void secp256k1_fe_sqr(secp256k1_fe *r, const secp256k1_fe *a)
__CPROVER_requires(__CPROVER_w_ok(r, sizeof(*r)) && __CPROVER_r_ok(a, sizeof(*a)))
__CPROVER_requires(sa_fe_okv(a) && a->magnitude <= 8)
__CPROVER_assigns(*r)
__CPROVER_ensures(sa_fe_okv(r) && r->magnitude == 1 && r->normalized == 0)
;
static void secp256k1_fe_inv(secp256k1_fe *r, const secp256k1_fe *a)
__CPROVER_requires(__CPROVER_w_ok(r, sizeof(*r)) && __CPROVER_r_ok(a, sizeof(*a)))
__CPROVER_requires(sa_fe_okv(a))
__CPROVER_assigns(*r)
__CPROVER_ensures(sa_fe_okv(r) && r->magnitude == (__CPROVER_old(a->magnitude) > 0) && r->normalized == 1)
;
static void secp256k1_fe_inv_var(secp256k1_fe *r, const secp256k1_fe *a)
__CPROVER_requires(__CPROVER_w_ok(r, sizeof(*r)) && __CPROVER_r_ok(a, sizeof(*a)))
__CPROVER_requires(sa_fe_okv(a))
__CPROVER_assigns(*r)
__CPROVER_ensures(sa_fe_okv(r) && r->magnitude == (__CPROVER_old(a->magnitude) > 0) && r->normalized == 1)
;
static int secp256k1_fe_sqrt(secp256k1_fe * SECP256K1_RESTRICT r, const secp256k1_fe * SECP256K1_RESTRICT a)
__CPROVER_requires(__CPROVER_w_ok(r, sizeof(*r)) && __CPROVER_r_ok(a, sizeof(*a)))
__CPROVER_requires(sa_fe_okv(a) && a->magnitude <= 8 && r != a)
__CPROVER_assigns(*r)
__CPROVER_ensures(sa_fe_okv(r) && r->magnitude == 1 && r->normalized == 0)
__CPROVER_ensures(__CPROVER_return_value == 0 || __CPROVER_return_value == 1)
;
#endif
#endif

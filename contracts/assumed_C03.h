/* C03 oracle contracts (frame + representation invariant + return in {0,1} + ghost log; no algebraic fact)
 * and the PROVED contract of secp256k1_ge_set_xo_var that the public-key parsers are verified against.
 * Non-VERIFY 5x52 layout (cfg W128).
 *
 *   ASSUMED  secp256k1_fe_mul / secp256k1_fe_sqr   (these names are macros for secp256k1_fe_impl_mul/_sqr)
 *   ASSUMED  secp256k1_fe_sqrt                      verdict + result logged (LOG_FE_SQRT)
 *   ASSUMED  secp256k1_ge_is_valid_var              verdict + argument logged (LOG_GE_VALID)
 *   PROVED   secp256k1_ge_set_xo_var                by unit C03.ge_set_xo_var.parity above the sqrt oracle;
 *                                                   verdict, arguments and result logged (LOG_GE_XO) */
#ifndef VERIF_ASSUMED_C03_H
#define VERIF_ASSUMED_C03_H
#include "assumed.h"

#define GE_EQ(a, b) (FE_EQ((a).x, (b).x) && FE_EQ((a).y, (b).y) && (a).infinity == (b).infinity)
#define GE_KEEP(a) (FE_KEEP((a).x) && FE_KEEP((a).y) && (a).infinity == __CPROVER_old((a).infinity))

/* ---- field multiplication / squaring: any result of magnitude 1 ---- */
#ifdef LOG_FE_MUL
int g_fmul_n; secp256k1_fe g_fmul_a0, g_fmul_b0, g_fmul_r0;
int g_fsqr_n; secp256k1_fe g_fsqr_a0, g_fsqr_r0, g_fsqr_a1, g_fsqr_r1;
#endif
static void secp256k1_fe_mul(secp256k1_fe *r, const secp256k1_fe *a, const secp256k1_fe * SECP256K1_RESTRICT b)
__CPROVER_requires(__CPROVER_w_ok(r, sizeof(*r)) && __CPROVER_r_ok(a, sizeof(*a)) && __CPROVER_r_ok(b, sizeof(*b)))
__CPROVER_requires(fe_mag(a, 8) && fe_mag(b, 8) && r != b)
#ifdef LOG_FE_MUL
__CPROVER_assigns(*r, g_fmul_n, g_fmul_a0, g_fmul_b0, g_fmul_r0)
__CPROVER_ensures(g_fmul_n == __CPROVER_old(g_fmul_n) + 1)
__CPROVER_ensures(__CPROVER_old(g_fmul_n) == 0 ==> (FE_EQ_OLD(g_fmul_a0, *a) && FE_EQ_OLD(g_fmul_b0, *b) && FE_EQ(g_fmul_r0, *r)))
__CPROVER_ensures(__CPROVER_old(g_fmul_n) != 0 ==> (FE_KEEP(g_fmul_a0) && FE_KEEP(g_fmul_b0) && FE_KEEP(g_fmul_r0)))
#else
__CPROVER_assigns(*r)
#endif
__CPROVER_ensures(fe_mag(r, 1))
;
static void secp256k1_fe_sqr(secp256k1_fe *r, const secp256k1_fe *a)
__CPROVER_requires(__CPROVER_w_ok(r, sizeof(*r)) && __CPROVER_r_ok(a, sizeof(*a)) && fe_mag(a, 8))
#ifdef LOG_FE_MUL
__CPROVER_assigns(*r, g_fsqr_n, g_fsqr_a0, g_fsqr_r0, g_fsqr_a1, g_fsqr_r1)
__CPROVER_ensures(g_fsqr_n == __CPROVER_old(g_fsqr_n) + 1)
__CPROVER_ensures(__CPROVER_old(g_fsqr_n) == 0 ==> (FE_EQ_OLD(g_fsqr_a0, *a) && FE_EQ(g_fsqr_r0, *r) && FE_KEEP(g_fsqr_a1) && FE_KEEP(g_fsqr_r1)))
__CPROVER_ensures(__CPROVER_old(g_fsqr_n) == 1 ==> (FE_EQ_OLD(g_fsqr_a1, *a) && FE_EQ(g_fsqr_r1, *r) && FE_KEEP(g_fsqr_a0) && FE_KEEP(g_fsqr_r0)))
__CPROVER_ensures(__CPROVER_old(g_fsqr_n) > 1 ==> (FE_KEEP(g_fsqr_a0) && FE_KEEP(g_fsqr_r0) && FE_KEEP(g_fsqr_a1) && FE_KEEP(g_fsqr_r1)))
#else
__CPROVER_assigns(*r)
#endif
__CPROVER_ensures(fe_mag(r, 1))
;
/* ---- square root: "is a square" verdict and some result of magnitude 1 ---- */
#ifdef LOG_FE_SQRT
int g_sqrt_n, g_sqrt_v0; secp256k1_fe g_sqrt_a0, g_sqrt_r0;
#endif
static int secp256k1_fe_sqrt(secp256k1_fe * SECP256K1_RESTRICT r, const secp256k1_fe * SECP256K1_RESTRICT a)
__CPROVER_requires(__CPROVER_w_ok(r, sizeof(*r)) && __CPROVER_r_ok(a, sizeof(*a)) && fe_mag(a, 8) && r != a)
#ifdef LOG_FE_SQRT
__CPROVER_assigns(*r, g_sqrt_n, g_sqrt_v0, g_sqrt_a0, g_sqrt_r0)
__CPROVER_ensures(g_sqrt_n == __CPROVER_old(g_sqrt_n) + 1)
__CPROVER_ensures(__CPROVER_old(g_sqrt_n) == 0 ==> (FE_EQ_OLD(g_sqrt_a0, *a) && FE_EQ(g_sqrt_r0, *r) && g_sqrt_v0 == __CPROVER_return_value))
__CPROVER_ensures(__CPROVER_old(g_sqrt_n) != 0 ==> (FE_KEEP(g_sqrt_a0) && FE_KEEP(g_sqrt_r0) && g_sqrt_v0 == __CPROVER_old(g_sqrt_v0)))
#else
__CPROVER_assigns(*r)
#endif
__CPROVER_ensures(fe_mag(r, 1))
__CPROVER_ensures(__CPROVER_return_value == 0 || __CPROVER_return_value == 1)
;

/* ---- on-curve verdict for an affine point ---- */
#ifdef LOG_GE_VALID
int g_valid_n, g_valid_v0; secp256k1_ge g_valid_a0;
#endif
static int secp256k1_ge_is_valid_var(const secp256k1_ge *a)
__CPROVER_requires(__CPROVER_r_ok(a, sizeof(*a)) && fe_mag(&a->x, 8) && fe_mag(&a->y, 8))
#ifdef LOG_GE_VALID
__CPROVER_assigns(g_valid_n, g_valid_v0, g_valid_a0)
__CPROVER_ensures(g_valid_n == __CPROVER_old(g_valid_n) + 1)
__CPROVER_ensures(__CPROVER_old(g_valid_n) == 0 ==> (GE_EQ(g_valid_a0, *a) && g_valid_v0 == __CPROVER_return_value))
__CPROVER_ensures(__CPROVER_old(g_valid_n) != 0 ==> (GE_KEEP(g_valid_a0) && g_valid_v0 == __CPROVER_old(g_valid_v0)))
#else
__CPROVER_assigns()
#endif
__CPROVER_ensures(__CPROVER_return_value == 0 || __CPROVER_return_value == 1)
;

/* ---- secp256k1_ge_set_xo_var: PROVED contract (unit C03.ge_set_xo_var.parity) ----
 * For canonical x: the result has exactly that x, is not infinity, y has magnitude <= 2, and the canonical
 * value of y has the requested parity unless it is zero (y = 0 has no odd representative; it is not on the
 * curve, which only the algebra can tell).  The return value is the square-root oracle's verdict. */
#ifndef VERIF_NATIVE
static inline wide c03_mod_p(wide v) {   /* v < 5p */
    wide p = P_();
    if (v >= p) v -= p;
    if (v >= p) v -= p;
    if (v >= p) v -= p;
    if (v >= p) v -= p;
    return v;
}
static inline wide c03_mod_p_big(wide v) {   /* any field element of magnitude <= 8 (value < 18p) */
    wide p = P_(); int i;
    for (i = 0; i < 18; i++) if (v >= p) v -= p;
    return v;
}
/* same field value (whatever the representation) */
static inline int c03_same(const secp256k1_fe *a, const secp256k1_fe *b) {   /* both of magnitude <= 2: |a - b| < 5p */
    wide x = fval(a), y = fval(b), p = P_(), hi = x > y ? x : y, lo = x > y ? y : x, d = hi - lo;
    return d == 0 || d == p || d == 2 * p || d == 3 * p || d == 4 * p;
}
static inline int c03_y_parity_ok(const secp256k1_fe *y, int odd) {
    wide m = c03_mod_p(fval(y));
    return m == 0 || (int)(m & 1) == odd;
}
/* XEQ: the expression "r->x equals the x passed in" in the form the context needs (old() in a contract clause) */
#define XO_POST(ret, r, XEQ, odd) \
    (((ret) == 0 || (ret) == 1) && (XEQ) && (r)->infinity == 0 && fe_mag(&(r)->y, 2) && c03_y_parity_ok(&(r)->y, (odd)))
#endif
#ifdef LOG_GE_XO
int g_xo_n, g_xo_odd0, g_xo_v0; secp256k1_fe g_xo_x0; secp256k1_ge g_xo_r0;
#endif
static int secp256k1_ge_set_xo_var(secp256k1_ge *r, const secp256k1_fe *x, int odd)
__CPROVER_requires(__CPROVER_w_ok(r, sizeof(*r)) && __CPROVER_r_ok(x, sizeof(*x)) && fe_canon(x) && (odd == 0 || odd == 1))
#ifdef LOG_GE_XO
__CPROVER_assigns(*r, g_xo_n, g_xo_odd0, g_xo_v0, g_xo_x0, g_xo_r0)
__CPROVER_ensures(g_xo_n == __CPROVER_old(g_xo_n) + 1)
__CPROVER_ensures(__CPROVER_old(g_xo_n) == 0 ==> (FE_EQ_OLD(g_xo_x0, *x) && g_xo_odd0 == odd && g_xo_v0 == __CPROVER_return_value && GE_EQ(g_xo_r0, *r)))
__CPROVER_ensures(__CPROVER_old(g_xo_n) != 0 ==> (FE_KEEP(g_xo_x0) && g_xo_odd0 == __CPROVER_old(g_xo_odd0) && g_xo_v0 == __CPROVER_old(g_xo_v0) && GE_KEEP(g_xo_r0)))
#else
__CPROVER_assigns(*r)
#endif
__CPROVER_ensures(XO_POST(__CPROVER_return_value, r, FE_EQ_OLD(r->x, *x), odd))
;
#endif

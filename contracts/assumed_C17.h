/* C17 (Schnorr half-aggregation): oracle contracts and ghost state (reworked after audit 1: every usage check is
 * keyed on VALUES, not on call order or call counts).
 *
 * The harness picks an arbitrary signature index verif_c17_gk and publishes, in ghost variables that neither the
 * code nor the contracts assign, the values that belong to it (r_gk, m_gk, stored x/y of pk_gk, s_gk) and one
 * arbitrary position of the running hash stream with the byte expected there.  Each replaced callee raises a sticky
 * HIT flag when it is called on exactly those values (in either operand order where the operation commutes) and logs
 * its answer for that call; nothing is said about other calls, their number or their order.  The harness then
 * states, on the ACCEPT path only, that the hits the specification needs have happened.  All of these clauses
 * constrain ghost variables only.
 *
 * ASSUMED (algebraic residue): secp256k1_ge_set_xo_var (lift_x verdict), secp256k1_gej_add_ge_var,
 * secp256k1_gej_add_var (group law), secp256k1_ecmult, secp256k1_scalar_mul, and ecmult_gen from assumed.h.
 * secp256k1_schnorrsig_challenge: body proved in C02.challenge_blocks / C02.challenge_frame; here frame + scalar_ok + log.
 * secp256k1_sha256_write / _finalize: STREAM level, same requires and non-ghost effect as hash_log.h (hash->bytes += len;
 * *hash and out32 otherwise arbitrary); positions are the object's own byte counter, so the copy that gets finalized
 * continues the stream of the running hash.  secp256k1_schnorrsig_sha256_tagged_aggregation: replaced by
 * "state := the HalfAgg/randomizer midstate, 64 bytes absorbed" (the constant itself is proved in C02.midstates). */
#ifndef VERIF_ASSUMED_C17_H
#define VERIF_ASSUMED_C17_H
/* assumed.h also carries (log-style) contracts for ecmult and scalar_mul; this file attaches its own, so the shared
 * declarations are parked under unused names */
#define LOG_ECMULT_GEN
#define secp256k1_ecmult c17_unused_assumed_h_ecmult
#define secp256k1_scalar_mul c17_unused_assumed_h_scalar_mul
#include "assumed.h"
#undef secp256k1_ecmult
#undef secp256k1_scalar_mul

/* ---- published by the harness; never assigned by code or contracts ---- */
size_t verif_c17_gk;                 /* ghost signature index (aggverify: into the aggregate; inc_aggregate: into the NEW signatures) */
uint64_t c17_gk_end;                 /* stream length of the running hash after signature gk: 64 + 96*(index in the whole sequence + 1) */
uint64_t verif_c17_wpos; unsigned char verif_c17_wexp;   /* watched position of the running hash stream and the expected byte there */
size_t verif_c17_gb; unsigned char verif_c17_gb_exp;   /* ghost byte index into the output aggregate and the expected byte there (inc_aggregate) */
int c17_r_ok, c17_pk_canon;          /* harness-computed: r_gk < p; stored x and y of pk_gk < p (named by the loop invariants, which cannot call functions) */
#ifndef VERIF_NATIVE
wide c17_exp_r, c17_exp_m, c17_exp_px, c17_exp_py, c17_exp_s;   /* r_gk, m_gk, stored x / y of pk_gk, s_gk as integers */
#endif
/* ---- sticky hit flags and logs, written by the contracts ---- */
int verif_c17_whit, verif_c17_bad;   /* watched position written / written with a different byte */
int c17_init_n;                      /* initialisations of the running hash */
int c17_fin_hit; unsigned char c17_dig[32];          /* a finalize at stream length c17_gk_end happened; its digest (= z_gk before reduction) */
int c17_xo_hit, c17_xo_rej, c17_xo_anyrej;           /* lift_x asked for x = r_gk (even y) / answered 0 for it / answered 0 for anything */
int c17_ch_hit; secp256k1_scalar c17_e;              /* challenge asked for (r_gk, m_gk, 32 bytes, be(x(pk_gk))); its answer e_gk */
int c17_em_e_hit, c17_em_z_hit;                      /* ecmult asked for e_gk * P_gk / for z_gk * T_gk */
secp256k1_gej c17_eP, c17_T, c17_zT;                 /* answers of: e_gk*P_gk; (e_gk*P_gk) + R_gk =: T_gk; z_gk*T_gk or 1*T_gk */
int c17_T_hit, c17_zT_kind;                          /* T_gk computed; c17_zT holds z_gk*T_gk (1) or 1*T_gk (2) */
int c17_acc_z, c17_acc_plain;                        /* a group addition took z_gk*T_gk / T_gk itself (or 1*T_gk) as an operand */
int c17_mul_hit, c17_mul_one_hit;                    /* scalar_mul asked for s_gk * z_gk / for s_gk * 1 (either order) */
int c17_cmp_hit, c17_cmp_inf;                        /* a group addition with s*G (up to sign) as one operand happened; infinity flag of its result */

#ifndef VERIF_NATIVE
/* helper views used inside contract clauses: pure expressions (no locals, no loops), so that DFCC's frame checking of the
 * enclosing loop has nothing to check in them */
#define C17_BY(b, i, sh) (W((b)[i]) << (sh))
static inline wide c17_be256(const unsigned char *b) { return
    C17_BY(b,0,248)|C17_BY(b,1,240)|C17_BY(b,2,232)|C17_BY(b,3,224)|C17_BY(b,4,216)|C17_BY(b,5,208)|C17_BY(b,6,200)|C17_BY(b,7,192)|
    C17_BY(b,8,184)|C17_BY(b,9,176)|C17_BY(b,10,168)|C17_BY(b,11,160)|C17_BY(b,12,152)|C17_BY(b,13,144)|C17_BY(b,14,136)|C17_BY(b,15,128)|
    C17_BY(b,16,120)|C17_BY(b,17,112)|C17_BY(b,18,104)|C17_BY(b,19,96)|C17_BY(b,20,88)|C17_BY(b,21,80)|C17_BY(b,22,72)|C17_BY(b,23,64)|
    C17_BY(b,24,56)|C17_BY(b,25,48)|C17_BY(b,26,40)|C17_BY(b,27,32)|C17_BY(b,28,24)|C17_BY(b,29,16)|C17_BY(b,30,8)|C17_BY(b,31,0); }
static inline wide c17_le256(const unsigned char *b) { return
    C17_BY(b,31,248)|C17_BY(b,30,240)|C17_BY(b,29,232)|C17_BY(b,28,224)|C17_BY(b,27,216)|C17_BY(b,26,208)|C17_BY(b,25,200)|C17_BY(b,24,192)|
    C17_BY(b,23,184)|C17_BY(b,22,176)|C17_BY(b,21,168)|C17_BY(b,20,160)|C17_BY(b,19,152)|C17_BY(b,18,144)|C17_BY(b,17,136)|C17_BY(b,16,128)|
    C17_BY(b,15,120)|C17_BY(b,14,112)|C17_BY(b,13,104)|C17_BY(b,12,96)|C17_BY(b,11,88)|C17_BY(b,10,80)|C17_BY(b,9,72)|C17_BY(b,8,64)|
    C17_BY(b,7,56)|C17_BY(b,6,48)|C17_BY(b,5,40)|C17_BY(b,4,32)|C17_BY(b,3,24)|C17_BY(b,2,16)|C17_BY(b,1,8)|C17_BY(b,0,0); }
static inline wide c17_redn(wide v) { return v >= N_() ? v - N_() : v; }
static inline wide c17_m1(wide v) { return v >= P_() ? v - P_() : v; }
static inline wide c17_modp(wide v) { return c17_m1(c17_m1(c17_m1(c17_m1(c17_m1(c17_m1(c17_m1(c17_m1(c17_m1(v))))))))); }   /* magnitude <= 4: v < 9p */
#define C17_UPD(flag, cond) (flag == ((__CPROVER_old(flag) != 0 || (cond)) ? 1 : 0))
#define C17_COVERS (__CPROVER_old(hash->bytes) <= verif_c17_wpos && verif_c17_wpos < __CPROVER_old(hash->bytes) + len)
#define C17_SVAL_OLD(a) (W(__CPROVER_old((a)->d[0])) | (W(__CPROVER_old((a)->d[1])) << 64) | (W(__CPROVER_old((a)->d[2])) << 128) | (W(__CPROVER_old((a)->d[3])) << 192))
#define C17_Z (c17_redn(c17_be256(c17_dig)))
#define C17_B4(g, a, i) g[i] == a[i] && g[i+1] == a[i+1] && g[i+2] == a[i+2] && g[i+3] == a[i+3]
#define C17_K4(g, i) g[i] == __CPROVER_old(g[i]) && g[i+1] == __CPROVER_old(g[i+1]) && g[i+2] == __CPROVER_old(g[i+2]) && g[i+3] == __CPROVER_old(g[i+3])
#define C17_B32(g, a) (C17_B4(g, a, 0) && C17_B4(g, a, 4) && C17_B4(g, a, 8) && C17_B4(g, a, 12) && C17_B4(g, a, 16) && C17_B4(g, a, 20) && C17_B4(g, a, 24) && C17_B4(g, a, 28))
#define C17_K32(g) (C17_K4(g, 0) && C17_K4(g, 4) && C17_K4(g, 8) && C17_K4(g, 12) && C17_K4(g, 16) && C17_K4(g, 20) && C17_K4(g, 24) && C17_K4(g, 28))
#endif
#define C17_RESET() do { verif_c17_whit = 0; verif_c17_bad = 0; c17_init_n = 0; c17_fin_hit = 0; c17_xo_hit = 0; c17_xo_rej = 0; c17_xo_anyrej = 0; \
    c17_ch_hit = 0; c17_em_e_hit = 0; c17_em_z_hit = 0; c17_T_hit = 0; c17_zT_kind = 0; c17_acc_z = 0; c17_acc_plain = 0; c17_mul_hit = 0; c17_mul_one_hit = 0; c17_cmp_hit = 0; c17_cmp_inf = 0; g_gen_n = 0; } while (0)

static void secp256k1_schnorrsig_sha256_tagged_aggregation(secp256k1_sha256 *sha)
__CPROVER_requires(__CPROVER_w_ok(sha, sizeof(*sha)))
__CPROVER_assigns(*sha, c17_init_n)
__CPROVER_ensures(sha->bytes == 64 && sha->s[0] == 0xd11f5532ul && sha->s[1] == 0xfa57f70ful && sha->s[2] == 0x5db0d728ul && sha->s[3] == 0xf806ffe1ul &&
                  sha->s[4] == 0x1d4db069ul && sha->s[5] == 0xb4d587e1ul && sha->s[6] == 0x50451c2aul && sha->s[7] == 0x10fb63e9ul)
__CPROVER_ensures(c17_init_n == __CPROVER_old(c17_init_n) + 1)
;
static void secp256k1_sha256_write(const secp256k1_hash_ctx *hash_ctx, secp256k1_sha256 *hash, const unsigned char *data, size_t len)
__CPROVER_requires(__CPROVER_rw_ok(hash, sizeof(*hash)) && (len == 0 || __CPROVER_r_ok(data, len)) && hash_ctx != NULL)
__CPROVER_requires(hash->bytes + len >= len)
__CPROVER_assigns(*hash, verif_c17_bad, verif_c17_whit)
__CPROVER_ensures(hash->bytes == __CPROVER_old(hash->bytes) + len)
__CPROVER_ensures(C17_UPD(verif_c17_whit, C17_COVERS))
__CPROVER_ensures(C17_UPD(verif_c17_bad, C17_COVERS && data[verif_c17_wpos - __CPROVER_old(hash->bytes)] != verif_c17_wexp))
;
static void secp256k1_sha256_finalize(const secp256k1_hash_ctx *hash_ctx, secp256k1_sha256 *hash, unsigned char *out32)
__CPROVER_requires(__CPROVER_rw_ok(hash, sizeof(*hash)) && __CPROVER_w_ok(out32, 32) && hash_ctx != NULL)
__CPROVER_assigns(*hash, __CPROVER_object_upto(out32, 32), c17_fin_hit, c17_dig)
__CPROVER_ensures(C17_UPD(c17_fin_hit, __CPROVER_old(hash->bytes) == c17_gk_end))
__CPROVER_ensures(__CPROVER_old(hash->bytes) == c17_gk_end ? C17_B32(c17_dig, out32) : C17_K32(c17_dig))
;
/* real body: r->x = *x, y normalised and possibly negated once (magnitude <= 2), never infinity */
#define C17_XO_IS_GK (odd == 0 && c17_modp(fval(x)) == c17_exp_r)
static int secp256k1_ge_set_xo_var(secp256k1_ge *r, const secp256k1_fe *x, int odd)
__CPROVER_requires(__CPROVER_w_ok(r, sizeof(*r)) && __CPROVER_r_ok(x, sizeof(*x)) && fe_mag(x, 4))
__CPROVER_assigns(*r, c17_xo_hit, c17_xo_rej, c17_xo_anyrej)
__CPROVER_ensures(__CPROVER_return_value == 0 || __CPROVER_return_value == 1)
__CPROVER_ensures(__CPROVER_return_value == 1 ==> (FE_EQ_OLD(r->x, *x) && fe_mag(&r->y, 2) && r->infinity == 0))
__CPROVER_ensures(C17_UPD(c17_xo_hit, C17_XO_IS_GK))
__CPROVER_ensures(C17_UPD(c17_xo_rej, C17_XO_IS_GK && __CPROVER_return_value == 0))
__CPROVER_ensures(C17_UPD(c17_xo_anyrej, __CPROVER_return_value == 0))
;
#define C17_CH_IS_GK (msglen == 32 && c17_be256(r32) == c17_exp_r && c17_be256(msg) == c17_exp_m && c17_be256(pubkey32) == c17_exp_px)
static void secp256k1_schnorrsig_challenge(const secp256k1_hash_ctx *hash_ctx, secp256k1_scalar* e, const unsigned char *r32, const unsigned char *msg, size_t msglen, const unsigned char *pubkey32)
__CPROVER_requires(hash_ctx != NULL && __CPROVER_w_ok(e, sizeof(*e)) && __CPROVER_r_ok(r32, 32) && __CPROVER_r_ok(pubkey32, 32) && (msglen == 0 || __CPROVER_r_ok(msg, msglen)))
__CPROVER_assigns(*e, c17_ch_hit, c17_e)
__CPROVER_ensures(scalar_ok(e))
__CPROVER_ensures(C17_UPD(c17_ch_hit, C17_CH_IS_GK))
__CPROVER_ensures(C17_CH_IS_GK ? SC_EQ(c17_e, *e) : SC_KEEP(c17_e))
;
/* limb-wise comparisons between a logged point g and an argument q as it was on entry / a result r */
#define C17_FE_OO(g, q) (__CPROVER_old((g).n[0]) == __CPROVER_old((q).n[0]) && __CPROVER_old((g).n[1]) == __CPROVER_old((q).n[1]) && __CPROVER_old((g).n[2]) == __CPROVER_old((q).n[2]) && \
    __CPROVER_old((g).n[3]) == __CPROVER_old((q).n[3]) && __CPROVER_old((g).n[4]) == __CPROVER_old((q).n[4]))
#define C17_GEJ_OO(g, q) (C17_FE_OO((g).x, (q)->x) && C17_FE_OO((g).y, (q)->y) && C17_FE_OO((g).z, (q)->z) && __CPROVER_old((g).infinity) == __CPROVER_old((q)->infinity))
#define C17_GEJ_IS(g, r) (FE_EQ((g).x, (r)->x) && FE_EQ((g).y, (r)->y) && FE_EQ((g).z, (r)->z) && (g).infinity == (r)->infinity)
#define C17_GEJ_KEEP(g) (FE_KEEP((g).x) && FE_KEEP((g).y) && FE_KEEP((g).z) && (g).infinity == __CPROVER_old((g).infinity))
#define c17_old_fe_is(a, f, v) ((W(__CPROVER_old((a)->f.n[0])) + (W(__CPROVER_old((a)->f.n[1])) << 52) + (W(__CPROVER_old((a)->f.n[2])) << 104) + (W(__CPROVER_old((a)->f.n[3])) << 156) + (W(__CPROVER_old((a)->f.n[4])) << 208)) == (v))
/* e_gk * P_gk: the multiplier is the challenge answer, the point is the loaded key (affine coordinates, z = 1); a G multiplier may be absent or zero.
 * z_gk * T_gk (or 1 * T_gk): the point is the logged T_gk */
#define C17_NG_NONE (ng == NULL || sval(ng) == 0)
#define C17_EM_IS_E (na != NULL && C17_NG_NONE && __CPROVER_old(c17_ch_hit) != 0 && sval(na) == sval(&c17_e) && __CPROVER_old(a->infinity) == 0 && \
    c17_old_fe_is(a, z, 1) && c17_old_fe_is(a, x, c17_exp_px) && c17_old_fe_is(a, y, c17_exp_py))
#define C17_EM_ON_T (na != NULL && C17_NG_NONE && __CPROVER_old(c17_T_hit) != 0 && C17_GEJ_OO(c17_T, a))
#define C17_EM_IS_Z (C17_EM_ON_T && c17_fin_hit != 0 && sval(na) == C17_Z)
#define C17_EM_IS_ONE (C17_EM_ON_T && sval(na) == 1)
static void secp256k1_ecmult(secp256k1_gej *r, const secp256k1_gej *a, const secp256k1_scalar *na, const secp256k1_scalar *ng)
__CPROVER_requires(__CPROVER_w_ok(r, sizeof(*r)) && __CPROVER_r_ok(a, sizeof(*a)) && gej_ok(a))
__CPROVER_requires((na == NULL || (__CPROVER_r_ok(na, sizeof(*na)) && scalar_ok(na))) && (ng == NULL || (__CPROVER_r_ok(ng, sizeof(*ng)) && scalar_ok(ng))))
__CPROVER_assigns(*r, c17_em_e_hit, c17_em_z_hit, c17_eP, c17_zT, c17_zT_kind)
__CPROVER_ensures(gej_ok(r))
__CPROVER_ensures(C17_UPD(c17_em_e_hit, C17_EM_IS_E))
__CPROVER_ensures(C17_EM_IS_E ? C17_GEJ_IS(c17_eP, r) : C17_GEJ_KEEP(c17_eP))
__CPROVER_ensures(C17_UPD(c17_em_z_hit, C17_EM_IS_Z))
__CPROVER_ensures((C17_EM_IS_Z || C17_EM_IS_ONE) ? (C17_GEJ_IS(c17_zT, r) && c17_zT_kind == (C17_EM_IS_Z ? 1 : 2)) : (C17_GEJ_KEEP(c17_zT) && c17_zT_kind == __CPROVER_old(c17_zT_kind)))
;
/* T_gk = (e_gk * P_gk) + R_gk: the Jacobian operand is the logged product, the affine operand has x = r_gk */
#define C17_ADDGE_IS_T (__CPROVER_old(c17_em_e_hit) != 0 && C17_GEJ_OO(c17_eP, a) && c17_modp(fval(&b->x)) == c17_exp_r)
static void secp256k1_gej_add_ge_var(secp256k1_gej *r, const secp256k1_gej *a, const secp256k1_ge *b, secp256k1_fe *rzr)
__CPROVER_requires(__CPROVER_w_ok(r, sizeof(*r)) && __CPROVER_r_ok(a, sizeof(*a)) && __CPROVER_r_ok(b, sizeof(*b)) && rzr == NULL && gej_ok(a) && ge_ok(b))
__CPROVER_assigns(*r, c17_T_hit, c17_T)
__CPROVER_ensures(gej_ok(r))
__CPROVER_ensures(C17_UPD(c17_T_hit, C17_ADDGE_IS_T))
__CPROVER_ensures(C17_ADDGE_IS_T ? C17_GEJ_IS(c17_T, r) : C17_GEJ_KEEP(c17_T))
;
/* additions, either operand order: (1) the comparison lhs == rhs has +-(s*G) as an operand (same x and z limbs as the ecmult_gen result);
 * (2) the accumulation takes z_gk*T_gk, or T_gk itself / 1*T_gk, as an operand */
#define C17_IS_LHS(q) (g_gen_n >= 1 && __CPROVER_old((q)->x.n[0]) == g_gen_r0.x.n[0] && __CPROVER_old((q)->x.n[1]) == g_gen_r0.x.n[1] && __CPROVER_old((q)->x.n[2]) == g_gen_r0.x.n[2] && \
    __CPROVER_old((q)->x.n[3]) == g_gen_r0.x.n[3] && __CPROVER_old((q)->x.n[4]) == g_gen_r0.x.n[4] && __CPROVER_old((q)->z.n[0]) == g_gen_r0.z.n[0] && __CPROVER_old((q)->z.n[1]) == g_gen_r0.z.n[1] && \
    __CPROVER_old((q)->z.n[2]) == g_gen_r0.z.n[2] && __CPROVER_old((q)->z.n[3]) == g_gen_r0.z.n[3] && __CPROVER_old((q)->z.n[4]) == g_gen_r0.z.n[4] && __CPROVER_old((q)->infinity) == g_gen_r0.infinity)
#define C17_OPND_ZT(kind) (__CPROVER_old(c17_zT_kind) == (kind) && (C17_GEJ_OO(c17_zT, a) || C17_GEJ_OO(c17_zT, b)))
#define C17_OPND_T (__CPROVER_old(c17_T_hit) != 0 && (C17_GEJ_OO(c17_T, a) || C17_GEJ_OO(c17_T, b)))
static void secp256k1_gej_add_var(secp256k1_gej *r, const secp256k1_gej *a, const secp256k1_gej *b, secp256k1_fe *rzr)
__CPROVER_requires(__CPROVER_w_ok(r, sizeof(*r)) && __CPROVER_r_ok(a, sizeof(*a)) && __CPROVER_r_ok(b, sizeof(*b)) && rzr == NULL)
__CPROVER_assigns(*r, c17_cmp_hit, c17_cmp_inf, c17_acc_z, c17_acc_plain)
__CPROVER_ensures(gej_ok(r))
__CPROVER_ensures(C17_UPD(c17_cmp_hit, C17_IS_LHS(a) || C17_IS_LHS(b)))
__CPROVER_ensures((C17_IS_LHS(a) || C17_IS_LHS(b)) ? c17_cmp_inf == r->infinity : c17_cmp_inf == __CPROVER_old(c17_cmp_inf))
__CPROVER_ensures(C17_UPD(c17_acc_z, C17_OPND_ZT(1)))
__CPROVER_ensures(C17_UPD(c17_acc_plain, C17_OPND_ZT(2) || C17_OPND_T))
;
/* inc_aggregate: s_gk * z_gk, either operand order */
#define C17_MUL_IS_GK (c17_fin_hit != 0 && ((C17_SVAL_OLD(a) == c17_redn(c17_exp_s) && C17_SVAL_OLD(b) == C17_Z) || (C17_SVAL_OLD(b) == c17_redn(c17_exp_s) && C17_SVAL_OLD(a) == C17_Z)))
static void secp256k1_scalar_mul(secp256k1_scalar *r, const secp256k1_scalar *a, const secp256k1_scalar *b)
__CPROVER_requires(__CPROVER_w_ok(r, sizeof(*r)) && __CPROVER_r_ok(a, sizeof(*a)) && __CPROVER_r_ok(b, sizeof(*b)))
__CPROVER_requires(scalar_ok(a) && scalar_ok(b))
__CPROVER_assigns(*r, c17_mul_hit, c17_mul_one_hit)
__CPROVER_ensures(scalar_ok(r))
__CPROVER_ensures(C17_UPD(c17_mul_hit, C17_MUL_IS_GK))
__CPROVER_ensures(C17_UPD(c17_mul_one_hit, (C17_SVAL_OLD(a) == c17_redn(c17_exp_s) && C17_SVAL_OLD(b) == 1) || (C17_SVAL_OLD(b) == c17_redn(c17_exp_s) && C17_SVAL_OLD(a) == 1)))
;
#endif

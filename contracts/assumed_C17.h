/* C17 (Schnorr half-aggregation): oracle contracts and ghost state.
 *
 * Style: the loops of secp256k1_schnorrsig_aggverify / _inc_aggregate run a caller-chosen number of
 * times, so their proof is by loop contract (hooks/C17_halfagg_loops.diff).  A loop contract forgets
 * everything the loop assigns, including ghost call logs, so wiring is checked INSIDE each iteration:
 * the harness publishes its expectations in ghost variables the code never assigns (c17_aggsig, ...),
 * every oracle contract compares what it was handed against them and raises the STICKY flag
 * verif_c17_bad on a mismatch; the loop invariant says the flag is still 0.  Likewise
 * verif_c17_rej is raised when an oracle verdict was "reject"; the invariant says no iteration
 * continued after one.  These clauses constrain ghost variables only.
 *
 * ASSUMED (algebraic residue): secp256k1_ge_set_xo_var (lift_x verdict), secp256k1_gej_add_ge_var,
 * secp256k1_gej_add_var (group law), plus ecmult / ecmult_gen / scalar_mul from assumed.h.
 * secp256k1_schnorrsig_challenge: body proved in C02.challenge; here frame + scalar_ok + wiring flag. */
#ifndef VERIF_ASSUMED_C17_H
#define VERIF_ASSUMED_C17_H
#include "assumed.h"
#include "hash_log.h"

/* expectations published by the harness; never assigned by code or contracts */
const unsigned char *c17_aggsig, *c17_msgs; const secp256k1_xonly_pubkey *c17_pks; size_t c17_n;
/* ghost state named by the loop invariants in /repo (declared extern there) */
size_t verif_c17_xo_n;            /* lift_x oracle calls so far == index of the current signature + 1 */
int verif_c17_bad, verif_c17_rej; /* sticky: wiring mismatch seen / reject verdict seen */
size_t verif_c17_gk; int verif_c17_gk_ok; /* ghost index and the harness-computed spec verdict "r_gk < p" for it; never assigned */
size_t verif_c17_gb; unsigned char verif_c17_gb_exp; /* ghost byte index into the output aggregate and the harness-computed expected byte there; never assigned */
/* other ghost logs */
int c17_last_inf; secp256k1_scalar c17_e;

#ifndef VERIF_NATIVE
static inline wide c17_le256(const unsigned char *b) { wide v = 0; int i; for (i = 31; i >= 0; i--) v = (v << 8) | W(b[i]); return v; }
#define C17_K (verif_c17_xo_n - 1)   /* index of the signature being processed, valid after the lift call of the iteration */
#define C17_XO_OK(x, odd, k) ((odd) == 0 && (k) < c17_n && fe_canon(x) && fval(x) == be256(c17_aggsig + 32 * (k)))
#define C17_CH_OK(r32, msg, msglen, pk32) (verif_c17_xo_n >= 1 && C17_K < c17_n && (r32) == c17_aggsig + 32 * C17_K && (msg) == c17_msgs + 32 * C17_K && (msglen) == 32 && \
    be256(pk32) == c17_le256(c17_pks[C17_K].data))
#endif

static int secp256k1_ge_set_xo_var(secp256k1_ge *r, const secp256k1_fe *x, int odd)
__CPROVER_requires(__CPROVER_w_ok(r, sizeof(*r)) && __CPROVER_r_ok(x, sizeof(*x)) && fe_mag(x, 4))
__CPROVER_assigns(*r, verif_c17_xo_n, verif_c17_bad, verif_c17_rej)
__CPROVER_ensures(__CPROVER_return_value == 0 || __CPROVER_return_value == 1)
__CPROVER_ensures(__CPROVER_return_value == 1 ==> (ge_ok1(r) && r->infinity == 0))
__CPROVER_ensures(verif_c17_xo_n == __CPROVER_old(verif_c17_xo_n) + 1)
__CPROVER_ensures(verif_c17_bad == ((__CPROVER_old(verif_c17_bad) != 0 || !C17_XO_OK(x, odd, __CPROVER_old(verif_c17_xo_n))) ? 1 : 0))
__CPROVER_ensures(verif_c17_rej == ((__CPROVER_old(verif_c17_rej) != 0 || __CPROVER_return_value == 0) ? 1 : 0))
;
#ifndef C17_NO_CHALLENGE_CONTRACT
static void secp256k1_schnorrsig_challenge(const secp256k1_hash_ctx *hash_ctx, secp256k1_scalar* e, const unsigned char *r32, const unsigned char *msg, size_t msglen, const unsigned char *pubkey32)
__CPROVER_requires(hash_ctx != NULL && __CPROVER_w_ok(e, sizeof(*e)) && __CPROVER_r_ok(r32, 32) && __CPROVER_r_ok(pubkey32, 32) && (msglen == 0 || __CPROVER_r_ok(msg, msglen)))
__CPROVER_assigns(*e, verif_c17_bad, c17_e)
__CPROVER_ensures(scalar_ok(e) && SC_EQ(c17_e, *e))
__CPROVER_ensures(verif_c17_bad == ((__CPROVER_old(verif_c17_bad) != 0 || !C17_CH_OK(r32, msg, msglen, pubkey32)) ? 1 : 0))
;
#endif
static void secp256k1_gej_add_ge_var(secp256k1_gej *r, const secp256k1_gej *a, const secp256k1_ge *b, secp256k1_fe *rzr)
__CPROVER_requires(__CPROVER_w_ok(r, sizeof(*r)) && __CPROVER_r_ok(a, sizeof(*a)) && __CPROVER_r_ok(b, sizeof(*b)) && rzr == NULL && gej_ok(a) && ge_ok(b))
__CPROVER_assigns(*r)
__CPROVER_ensures(gej_ok(r))
;
/* the accumulator operand carries no precondition beyond validity (the loop contract does not track its limbs) */
static void secp256k1_gej_add_var(secp256k1_gej *r, const secp256k1_gej *a, const secp256k1_gej *b, secp256k1_fe *rzr)
__CPROVER_requires(__CPROVER_w_ok(r, sizeof(*r)) && __CPROVER_r_ok(a, sizeof(*a)) && __CPROVER_r_ok(b, sizeof(*b)) && rzr == NULL)
__CPROVER_assigns(*r, c17_last_inf)
__CPROVER_ensures(gej_ok(r) && c17_last_inf == r->infinity)
;
#endif

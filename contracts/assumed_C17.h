/* C17 (Schnorr half-aggregation): oracle contracts and ghost state.
 *
 * Style: the loops of secp256k1_schnorrsig_aggverify / _inc_aggregate run a caller-chosen number of
 * times, so their proof is by loop contract (hooks/C17_halfagg_loops.diff).  A loop contract forgets
 * everything the loop assigns, including ghost call logs, so wiring is checked INSIDE each iteration:
 * the harness publishes its expectations in ghost variables the code never assigns (c17_aggsig, ...),
 * every replaced callee compares what it was handed against them and raises the STICKY flag
 * verif_c17_bad on a mismatch; the loop invariants say the flag is still 0.  Likewise verif_c17_rej is
 * raised when an oracle verdict was "reject"; the invariant says no iteration continued after one.
 * All of these clauses constrain ghost variables only.
 *
 * ASSUMED (algebraic residue): secp256k1_ge_set_xo_var (lift_x verdict), secp256k1_gej_add_ge_var,
 * secp256k1_gej_add_var (group law), secp256k1_ecmult, secp256k1_scalar_mul, and ecmult_gen from assumed.h.
 * secp256k1_schnorrsig_challenge: body proved in C02.challenge / C02.challenge_frame; here frame +
 * scalar_ok + wiring flag.
 * secp256k1_sha256_write / _finalize: the stream contracts of hash_log.h (same requires, same
 * non-ghost frame and effect: hash->bytes += len; *hash and out32 otherwise arbitrary) with a ghost
 * part in the sticky-flag style: one watched stream position verif_c17_wpos of the RUNNING hash
 * (positions are the object's own byte counter, so the copy that gets finalized continues the same
 * stream), expected byte verif_c17_wexp.
 * secp256k1_schnorrsig_sha256_tagged_aggregation: replaced by "state := the HalfAgg/randomizer
 * midstate, 64 bytes absorbed" + call counter (the constant itself is proved in C02.midstates). */
#ifndef VERIF_ASSUMED_C17_H
#define VERIF_ASSUMED_C17_H
/* assumed.h also carries (log-style) contracts for ecmult and scalar_mul; this file attaches its own
 * sticky-flag versions, so the shared declarations are parked under unused names */
#define LOG_ECMULT_GEN
#define secp256k1_ecmult c17_unused_assumed_h_ecmult
#define secp256k1_scalar_mul c17_unused_assumed_h_scalar_mul
#include "assumed.h"
#undef secp256k1_ecmult
#undef secp256k1_scalar_mul

/* expectations published by the harness; never assigned by code or contracts */
const unsigned char *c17_aggsig, *c17_msgs, *c17_sigs; const secp256k1_xonly_pubkey *c17_pks; size_t c17_n, c17_nb;
int c17_mode;                     /* 0 = aggverify, 1 = inc_aggregate */
/* ghost state named by the loop invariants in /repo (declared extern there) */
size_t verif_c17_xo_n;            /* lift_x oracle calls so far */
size_t verif_c17_fin_n;           /* finalize calls so far == randomizers derived so far */
int verif_c17_bad, verif_c17_rej; /* sticky: wiring mismatch seen / reject verdict seen */
size_t verif_c17_gk; int verif_c17_gk_ok;   /* ghost signature index and the harness-computed spec verdict "r_gk < p"; never assigned */
size_t verif_c17_gb; unsigned char verif_c17_gb_exp; /* ghost byte index into the output aggregate and the expected byte there; never assigned */
uint64_t verif_c17_wpos; unsigned char verif_c17_wexp; /* watched position of the running hash stream and the expected byte there; never assigned */
int verif_c17_whit;               /* sticky: the watched position has been written */
#ifndef VERIF_NATIVE
/* harness-computed values for the ghost signature index verif_c17_gk (aggverify: index into the aggregate; inc_aggregate:
 * index into the NEW signatures): r_gk, stored x/y of pk_gk, s_gk.  Contracts compare against these only when the
 * signature being processed IS number gk, so no contract reads the caller's big arrays; gk is arbitrary. never assigned */
wide c17_exp_r, c17_exp_px, c17_exp_py, c17_exp_s;
#endif
/* logs that live within one iteration / after the loops */
int c17_last_inf, c17_phase, c17_init_n; size_t c17_mul_n; secp256k1_scalar c17_e; unsigned char c17_dig[32]; secp256k1_gej c17_em_r;

#ifndef VERIF_NATIVE
static inline wide c17_le256(const unsigned char *b) { wide v = 0; int i; for (i = 31; i >= 0; i--) v = (v << 8) | W(b[i]); return v; }
static inline wide c17_redn(wide v) { wide n = N_(); return v >= n ? v - n : v; }
#define C17_K (verif_c17_fin_n - 1)   /* index (relative to the first new signature) of the signature being processed, valid after the finalize of the iteration */
#define C17_XO_OK(x, odd) ((odd) == 0 && verif_c17_fin_n >= 1 && C17_K < c17_n && fe_canon(x) && (C17_K != verif_c17_gk || fval(x) == c17_exp_r))
#define C17_CH_OK(r32, msg, msglen, pk32) (verif_c17_fin_n >= 1 && C17_K < c17_n && (r32) == c17_aggsig + 32 * C17_K && (msg) == c17_msgs + 32 * C17_K && (msglen) == 32 && \
    (C17_K != verif_c17_gk || be256(pk32) == c17_exp_px))
#define C17_UPD(flag, cond) (flag == ((__CPROVER_old(flag) != 0 || (cond)) ? 1 : 0))
#define C17_COVERS (__CPROVER_old(hash->bytes) <= verif_c17_wpos && verif_c17_wpos < __CPROVER_old(hash->bytes) + len)
#define C17_EXP_END (c17_mode == 0 ? 64 + 96 * ((uint64_t)__CPROVER_old(verif_c17_fin_n) + 1) : 64 + 96 * ((uint64_t)c17_nb + (uint64_t)__CPROVER_old(verif_c17_fin_n) + 1))
#endif

static void secp256k1_schnorrsig_sha256_tagged_aggregation(secp256k1_sha256 *sha)
__CPROVER_requires(__CPROVER_w_ok(sha, sizeof(*sha)))
__CPROVER_assigns(*sha, c17_init_n)
__CPROVER_ensures(sha->bytes == 64 && sha->s[0] == 0xd11f5532ul && sha->s[1] == 0xfa57f70ful && sha->s[2] == 0x5db0d728ul && sha->s[3] == 0xf806ffe1ul &&
                  sha->s[4] == 0x1d4db069ul && sha->s[5] == 0xb4d587e1ul && sha->s[6] == 0x50451c2aul && sha->s[7] == 0x10fb63e9ul)
__CPROVER_ensures(c17_init_n == __CPROVER_old(c17_init_n) + 1)
;
static void secp256k1_sha256_write(const secp256k1_hash_ctx *hash_ctx, secp256k1_sha256 *hash, const unsigned char *data, size_t len)
__CPROVER_requires(__CPROVER_rw_ok(hash, sizeof(*hash)) && (len == 0 || __CPROVER_r_ok(data, len)) && hash_ctx != NULL)
__CPROVER_requires(hash->bytes + len >= len)
__CPROVER_assigns(*hash, verif_c17_bad, verif_c17_whit)
__CPROVER_ensures(hash->bytes == __CPROVER_old(hash->bytes) + len)
__CPROVER_ensures(C17_UPD(verif_c17_whit, C17_COVERS))
__CPROVER_ensures(C17_UPD(verif_c17_bad, C17_COVERS && data[verif_c17_wpos - __CPROVER_old(hash->bytes)] != verif_c17_wexp))
;
#define C17_D4(i) c17_dig[i] == out32[i] && c17_dig[i+1] == out32[i+1] && c17_dig[i+2] == out32[i+2] && c17_dig[i+3] == out32[i+3]
static void secp256k1_sha256_finalize(const secp256k1_hash_ctx *hash_ctx, secp256k1_sha256 *hash, unsigned char *out32)
__CPROVER_requires(__CPROVER_rw_ok(hash, sizeof(*hash)) && __CPROVER_w_ok(out32, 32) && hash_ctx != NULL)
__CPROVER_assigns(*hash, __CPROVER_object_upto(out32, 32), verif_c17_fin_n, verif_c17_bad, c17_dig)
__CPROVER_ensures(verif_c17_fin_n == __CPROVER_old(verif_c17_fin_n) + 1)
__CPROVER_ensures(C17_D4(0) && C17_D4(4) && C17_D4(8) && C17_D4(12) && C17_D4(16) && C17_D4(20) && C17_D4(24) && C17_D4(28))
__CPROVER_ensures(C17_UPD(verif_c17_bad, __CPROVER_old(hash->bytes) != C17_EXP_END))
;
static int secp256k1_ge_set_xo_var(secp256k1_ge *r, const secp256k1_fe *x, int odd)
__CPROVER_requires(__CPROVER_w_ok(r, sizeof(*r)) && __CPROVER_r_ok(x, sizeof(*x)) && fe_mag(x, 4))
__CPROVER_assigns(*r, verif_c17_xo_n, verif_c17_bad, verif_c17_rej)
__CPROVER_ensures(__CPROVER_return_value == 0 || __CPROVER_return_value == 1)
__CPROVER_ensures(__CPROVER_return_value == 1 ==> (ge_ok1(r) && r->infinity == 0))
__CPROVER_ensures(verif_c17_xo_n == __CPROVER_old(verif_c17_xo_n) + 1)
__CPROVER_ensures(C17_UPD(verif_c17_bad, !C17_XO_OK(x, odd) || verif_c17_xo_n != verif_c17_fin_n))
__CPROVER_ensures(C17_UPD(verif_c17_rej, __CPROVER_return_value == 0))
;
static void secp256k1_schnorrsig_challenge(const secp256k1_hash_ctx *hash_ctx, secp256k1_scalar* e, const unsigned char *r32, const unsigned char *msg, size_t msglen, const unsigned char *pubkey32)
__CPROVER_requires(hash_ctx != NULL && __CPROVER_w_ok(e, sizeof(*e)) && __CPROVER_r_ok(r32, 32) && __CPROVER_r_ok(pubkey32, 32) && (msglen == 0 || __CPROVER_r_ok(msg, msglen)))
__CPROVER_assigns(*e, verif_c17_bad, c17_e, c17_phase)
__CPROVER_ensures(scalar_ok(e) && SC_EQ(c17_e, *e) && c17_phase == 1)
__CPROVER_ensures(C17_UPD(verif_c17_bad, !C17_CH_OK(r32, msg, msglen, pubkey32)))
;
/* two calls per signature: phase 1 (after challenge): e_i * P_i;  phase 2 (after R_i + e_i P_i): z_i * T_i, skipped for i = 0 */
#define C17_EM1_OK (na != NULL && ng == NULL && SC_EQ(*na, c17_e) && C17_K < c17_n && a->infinity == 0 && fval(&a->z) == 1 && \
    (C17_K != verif_c17_gk || (fval(&a->x) == c17_exp_px && fval(&a->y) == c17_exp_py)))
#define C17_EM2_OK (na != NULL && ng == NULL && C17_K != 0 && sval(na) == c17_redn(be256(c17_dig)))
#define C17_SVAL_OLD(a) (W(__CPROVER_old((a)->d[0])) | (W(__CPROVER_old((a)->d[1])) << 64) | (W(__CPROVER_old((a)->d[2])) << 128) | (W(__CPROVER_old((a)->d[3])) << 192))
static void secp256k1_ecmult(secp256k1_gej *r, const secp256k1_gej *a, const secp256k1_scalar *na, const secp256k1_scalar *ng)
__CPROVER_requires(__CPROVER_w_ok(r, sizeof(*r)) && __CPROVER_r_ok(a, sizeof(*a)) && gej_ok(a))
__CPROVER_requires((na == NULL || (__CPROVER_r_ok(na, sizeof(*na)) && scalar_ok(na))) && (ng == NULL || (__CPROVER_r_ok(ng, sizeof(*ng)) && scalar_ok(ng))))
__CPROVER_assigns(*r, verif_c17_bad, c17_phase)
__CPROVER_ensures(gej_ok(r))
__CPROVER_ensures(c17_phase == (__CPROVER_old(c17_phase) == 1 ? 2 : 4))
__CPROVER_ensures(C17_UPD(verif_c17_bad, !((__CPROVER_old(c17_phase) == 1 && C17_EM1_OK) || (__CPROVER_old(c17_phase) == 3 && C17_EM2_OK))))
;
static void secp256k1_gej_add_ge_var(secp256k1_gej *r, const secp256k1_gej *a, const secp256k1_ge *b, secp256k1_fe *rzr)
__CPROVER_requires(__CPROVER_w_ok(r, sizeof(*r)) && __CPROVER_r_ok(a, sizeof(*a)) && __CPROVER_r_ok(b, sizeof(*b)) && rzr == NULL && gej_ok(a) && ge_ok(b))
__CPROVER_assigns(*r, verif_c17_bad, c17_phase)
__CPROVER_ensures(gej_ok(r) && c17_phase == 3)
__CPROVER_ensures(C17_UPD(verif_c17_bad, __CPROVER_old(c17_phase) != 2))
;
/* the accumulator operand carries no precondition beyond validity (the loop contract does not track its limbs) */
static void secp256k1_gej_add_var(secp256k1_gej *r, const secp256k1_gej *a, const secp256k1_gej *b, secp256k1_fe *rzr)
__CPROVER_requires(__CPROVER_w_ok(r, sizeof(*r)) && __CPROVER_r_ok(a, sizeof(*a)) && __CPROVER_r_ok(b, sizeof(*b)) && rzr == NULL)
__CPROVER_assigns(*r, c17_last_inf, c17_phase, verif_c17_bad)
__CPROVER_ensures(gej_ok(r) && c17_last_inf == r->infinity && c17_phase == 0)
/* inside the loop (before the one ecmult_gen call): rhs += T_0 directly, rhs += z_i*T_i for i != 0 */
__CPROVER_ensures(C17_UPD(verif_c17_bad, g_gen_n == 0 && !((__CPROVER_old(c17_phase) == 3 && C17_K == 0) || (__CPROVER_old(c17_phase) == 4 && C17_K != 0))))
;
/* inc_aggregate: s_i * z_i for i != 0 */
#define C17_MUL_OK (verif_c17_fin_n >= 1 && c17_nb + C17_K != 0 && C17_K < c17_n && sval(b) == c17_redn(be256(c17_dig)) && (C17_K != verif_c17_gk || C17_SVAL_OLD(a) == c17_redn(c17_exp_s)))
static void secp256k1_scalar_mul(secp256k1_scalar *r, const secp256k1_scalar *a, const secp256k1_scalar *b)
__CPROVER_requires(__CPROVER_w_ok(r, sizeof(*r)) && __CPROVER_r_ok(a, sizeof(*a)) && __CPROVER_r_ok(b, sizeof(*b)))
__CPROVER_requires(scalar_ok(a) && scalar_ok(b))
__CPROVER_assigns(*r, verif_c17_bad, c17_mul_n)
__CPROVER_ensures(scalar_ok(r) && c17_mul_n == __CPROVER_old(c17_mul_n) + 1)
__CPROVER_ensures(C17_UPD(verif_c17_bad, !C17_MUL_OK))
;
#endif

/* r3 (C07/C09/C10): modular treatment of the REWIND path of the range-proof verifier.
 *
 *   secp256k1_rangeproof_rewind_inner : contract below; ENFORCED on the real body by C07.r3_rewind_inner
 *                                       (harness/C07/r3_rewind.c), REPLACING the body in C07.r3_verify_rewind.
 *   secp256k1_rangeproof_genrand      : frame/capacity contract without function calls in its clauses (the shared
 *                                       RP_GENRAND contract drops its capacity clause in units with loop contracts);
 *                                       ENFORCED on the real body by C07.r3_genrand, replacing it in C07.r3_rewind_inner.
 *   secp256k1_rangeproof_ch32xor      : the shared RP_CH32XOR leaf contract; enforced by C07.r3_ch32xor.
 *
 * Include AFTER assumed_rangeproof.h (which must NOT define RP_GENRAND in these units).
 * Same rules as assumed.h: frame + pointer validity + result range + ghost log of ARGUMENT VALUES; no algebraic fact.
 *
 * Ring layout handed over by verify_impl / sign_impl: 1 <= rings <= 32 ring sizes, each in 1..4.  The number of ring
 * members that rewind_inner / genrand index is at most R3_NP = 4*(rings-1) + rsizes[rings-1] (equal to the sum of the
 * ring sizes for the layouts 4,...,4[,2] and 1 that the callers build; never smaller than the sum when every size is <= 4). */
#ifndef VERIF_ASSUMED_R3_REWIND_H
#define VERIF_ASSUMED_R3_REWIND_H

#define R3_NP(rsizes, rings) (4 * ((rings) - 1) + (rsizes)[(rings) - 1])
#define R3_RS(i) ((i) >= rings || (rsizes[i] >= 1 && rsizes[i] <= 4))
#define R3_RS_ALL (R3_RS(0) && R3_RS(1) && R3_RS(2) && R3_RS(3) && R3_RS(4) && R3_RS(5) && R3_RS(6) && R3_RS(7) && \
                   R3_RS(8) && R3_RS(9) && R3_RS(10) && R3_RS(11) && R3_RS(12) && R3_RS(13) && R3_RS(14) && R3_RS(15) && \
                   R3_RS(16) && R3_RS(17) && R3_RS(18) && R3_RS(19) && R3_RS(20) && R3_RS(21) && R3_RS(22) && R3_RS(23) && \
                   R3_RS(24) && R3_RS(25) && R3_RS(26) && R3_RS(27) && R3_RS(28) && R3_RS(29) && R3_RS(30) && R3_RS(31))

/* ghost log of the seed arguments of the LAST genrand call (values only, no pointers: a pointer-typed ghost in an
 * assigns clause is havoc'd to one fixed invalid pointer by cbmc 6.11).  g_rp_b (assumed_rangeproof.h) selects the nonce byte. */
struct g_r3gr_log { int n; size_t len, rings; unsigned char nonce_b; unsigned char hdr[10]; } g_r3gr;
#define R3_HDR(j) ((j) >= len || g_r3gr.hdr[j] == proof[j])
#define R3_SEED_LOGGED (g_r3gr.len == len && g_r3gr.rings == rings && (g_rp_b >= 32 || g_r3gr.nonce_b == nonce[g_rp_b]) && \
                        R3_HDR(0) && R3_HDR(1) && R3_HDR(2) && R3_HDR(3) && R3_HDR(4) && R3_HDR(5) && R3_HDR(6) && R3_HDR(7) && R3_HDR(8) && R3_HDR(9))

#ifdef R3_GENRAND
static int secp256k1_rangeproof_genrand(const secp256k1_hash_ctx *hash_ctx, secp256k1_scalar *sec, secp256k1_scalar *s, unsigned char *message,
 size_t *rsizes, size_t rings, const unsigned char *nonce, const secp256k1_ge *commit, const unsigned char *proof, size_t len, const secp256k1_ge* genp)
__CPROVER_requires(hash_ctx != NULL && len <= 10 && rings >= 1 && rings <= 32)
__CPROVER_requires(__CPROVER_r_ok(nonce, 32) && __CPROVER_r_ok(proof, len) && __CPROVER_r_ok(commit, sizeof(*commit)) && __CPROVER_r_ok(genp, sizeof(*genp)))
__CPROVER_requires(__CPROVER_r_ok(rsizes, rings * sizeof(size_t)))
__CPROVER_requires(R3_RS_ALL)
/* what the body touches: sec[0..rings), s[0..sum rsizes), message[32*(4*i+j) + 0..31] for j < rsizes[i] */
__CPROVER_requires(__CPROVER_w_ok(sec, rings * sizeof(secp256k1_scalar)) && __CPROVER_w_ok(s, R3_NP(rsizes, rings) * sizeof(secp256k1_scalar)))
__CPROVER_requires(message == NULL || __CPROVER_rw_ok(message, 32 * R3_NP(rsizes, rings)))
__CPROVER_assigns(__CPROVER_object_upto(sec, rings * sizeof(secp256k1_scalar)), __CPROVER_object_upto(s, R3_NP(rsizes, rings) * sizeof(secp256k1_scalar)))
__CPROVER_assigns(message != NULL: __CPROVER_object_upto(message, 32 * R3_NP(rsizes, rings)))
__CPROVER_assigns(g_r3gr)
__CPROVER_ensures(__CPROVER_return_value == 0 || __CPROVER_return_value == 1)
__CPROVER_ensures(g_r3gr.n == __CPROVER_old(g_r3gr.n) + 1 && R3_SEED_LOGGED)
;
#endif

#ifdef R3_REWIND_INNER
static int secp256k1_rangeproof_rewind_inner(const secp256k1_hash_ctx *hash_ctx, secp256k1_scalar *blind, uint64_t *v,
 unsigned char *m, size_t *mlen, secp256k1_scalar *ev, secp256k1_scalar *s,
 size_t *rsizes, size_t rings, const unsigned char *nonce, const secp256k1_ge *commit, const unsigned char *proof, size_t len, const secp256k1_ge *genp)
__CPROVER_requires(hash_ctx != NULL && len <= 10 && rings >= 1 && rings <= 32)
__CPROVER_requires(__CPROVER_w_ok(blind, sizeof(*blind)) && __CPROVER_w_ok(v, sizeof(*v)))
__CPROVER_requires(__CPROVER_r_ok(nonce, 32) && __CPROVER_r_ok(proof, len) && __CPROVER_r_ok(commit, sizeof(*commit)) && __CPROVER_r_ok(genp, sizeof(*genp)))
__CPROVER_requires(__CPROVER_r_ok(rsizes, rings * sizeof(size_t)))
__CPROVER_requires(R3_RS_ALL)
/* MEASURED (C07.r3_rewind_inner_r1 with R3_NP here fails at rangeproof_impl.h:437): the body reads s[4*(rings-1) + d] and ev[4*(rings-1) + d] for a digit
 * d in 0..3 decoded from the proof-derived value even when the last ring has only 2 members, so the arrays must hold 4*rings scalars
 * (verify_impl hands over s[128] / evalues[128]; the elements beyond npub are never written there: indeterminate values, in bounds). */
__CPROVER_requires(__CPROVER_r_ok(ev, 4 * rings * sizeof(secp256k1_scalar)) && __CPROVER_r_ok(s, 4 * rings * sizeof(secp256k1_scalar)))
/* the message buffer: *mlen is its capacity on entry */
__CPROVER_requires(mlen == NULL || __CPROVER_rw_ok(mlen, sizeof(size_t)))
__CPROVER_requires(m == NULL || mlen == NULL || *mlen == 0 || __CPROVER_w_ok(m, *mlen))
__CPROVER_assigns(*blind, *v, g_r3gr)
__CPROVER_assigns(mlen != NULL: *mlen)
__CPROVER_assigns(m != NULL && mlen != NULL: __CPROVER_object_upto(m, *mlen))
__CPROVER_ensures(__CPROVER_return_value == 0 || __CPROVER_return_value == 1)
/* the reported message length never exceeds the capacity given */
__CPROVER_ensures(mlen == NULL || *mlen <= __CPROVER_old(*mlen))
/* C09: the random stream is re-derived once, from the nonce, the ring layout and the proof header handed in */
__CPROVER_ensures(g_r3gr.n == __CPROVER_old(g_r3gr.n) + 1 && R3_SEED_LOGGED)
;
#endif

#endif

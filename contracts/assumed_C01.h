/* C01 contracts that are not in assumed.h.  Same rules as assumed.h: frame + representation invariant
 * + return range + ghost call log; no algebraic fact.  A harness selects the logs it needs with
 * #define LOG_* before the include.  Two kinds of contract live here:
 *   - ASSUMED oracles (algebraic residue): secp256k1_ge_set_xo_var
 *   - contracts that are PROVED by another C01/C15 unit and only re-used here as call-site
 *     abstractions (noted at each): ecdsa_sig_verify, ecdsa_sig_sign, ecdsa_sig_recover,
 *     nonce_function_rfc6979_impl, rfc6979_hmac_sha256_initialize/_generate/_finalize
 *     (the last three: frames and call shape proved by C05 hash units, used here for their ghost log).
 * "LAST-CALL" logs overwrite their slot at every call (used inside retry loops, where a loop
 * contract leaves only the final iteration visible); "slot 0" logs record the first call only. */
#ifndef VERIF_ASSUMED_C01_H
#define VERIF_ASSUMED_C01_H
/* LOCAL OVERRIDE of two shared contracts (assumed.h is not edited here; to be merged by the lead):
 *  - secp256k1_ge_set_gej / _var: assumed.h lets the callee change a->infinity; the real functions never write it and
 *    secp256k1_ecdsa_sig_recover reads it after the call.  The version below adds  a->infinity == old(a->infinity).
 *    Log modes: LOG_GE_SET_GEJ (slot 0, same ghost names as assumed.h) or LOG_GE_SET_GEJ_LAST (last call, for retry loops).
 *  - secp256k1_ecmult_gen: only when LOG_ECMULT_GEN_LAST is defined, a LAST-CALL log variant (for retry loops).
 * The shared declarations are parked on unused names. */
#include "pre.h"
#ifdef LOG_GE_SET_GEJ
# undef LOG_GE_SET_GEJ
# define VERIF_SG_SLOT0
#endif
#define secp256k1_ge_set_gej verif_parked_ge_set_gej
#define secp256k1_ge_set_gej_var verif_parked_ge_set_gej_var
#ifdef LOG_ECMULT_GEN_LAST
# define secp256k1_ecmult_gen verif_parked_ecmult_gen
#endif
#include "assumed.h"
#undef secp256k1_ge_set_gej
#undef secp256k1_ge_set_gej_var
#undef secp256k1_ecmult_gen

#if defined(VERIF_SG_SLOT0)
int g_sg_n; secp256k1_ge g_sg_r0; secp256k1_gej g_sg_a0;
#define SG2_LOG __CPROVER_assigns(*r, a->x, a->y, a->z, g_sg_n, g_sg_r0, g_sg_a0) __CPROVER_ensures(g_sg_n == __CPROVER_old(g_sg_n) + 1) \
  __CPROVER_ensures(__CPROVER_old(g_sg_n) == 0 ==> (FE_EQ(g_sg_r0.x, r->x) && FE_EQ(g_sg_r0.y, r->y) && g_sg_r0.infinity == r->infinity && \
     FE_EQ_OLD(g_sg_a0.x, a->x) && FE_EQ_OLD(g_sg_a0.y, a->y) && FE_EQ_OLD(g_sg_a0.z, a->z) && g_sg_a0.infinity == __CPROVER_old(a->infinity))) \
  __CPROVER_ensures(__CPROVER_old(g_sg_n) != 0 ==> (FE_KEEP(g_sg_r0.x) && FE_KEEP(g_sg_r0.y) && g_sg_r0.infinity == __CPROVER_old(g_sg_r0.infinity) && \
     FE_KEEP(g_sg_a0.x) && FE_KEEP(g_sg_a0.y) && FE_KEEP(g_sg_a0.z) && g_sg_a0.infinity == __CPROVER_old(g_sg_a0.infinity)))
#elif defined(LOG_GE_SET_GEJ_LAST)
struct { secp256k1_ge r; secp256k1_gej a; } g_sgl;
#define g_sgl_r g_sgl.r
#define g_sgl_a g_sgl.a
#define SET_GEJ_LAST_GHOST g_sgl
#define SG2_LOG __CPROVER_assigns(*r, a->x, a->y, a->z, g_sgl) \
  __CPROVER_ensures(FE_EQ(g_sgl_r.x, r->x) && FE_EQ(g_sgl_r.y, r->y) && g_sgl_r.infinity == r->infinity && \
     FE_EQ_OLD(g_sgl_a.x, a->x) && FE_EQ_OLD(g_sgl_a.y, a->y) && FE_EQ_OLD(g_sgl_a.z, a->z) && g_sgl_a.infinity == __CPROVER_old(a->infinity))
#else
#define SG2_LOG __CPROVER_assigns(*r, a->x, a->y, a->z)
#endif
#define SET_GEJ_CONTRACT2 \
__CPROVER_requires(__CPROVER_w_ok(r, sizeof(*r)) && __CPROVER_rw_ok(a, sizeof(*a)) && gej_ok(a)) \
SG2_LOG \
__CPROVER_ensures(ge_ok1(r) && gej_ok(a) && r->infinity == __CPROVER_old(a->infinity) && a->infinity == __CPROVER_old(a->infinity))
static void secp256k1_ge_set_gej(secp256k1_ge *r, secp256k1_gej *a) SET_GEJ_CONTRACT2;
static void secp256k1_ge_set_gej_var(secp256k1_ge *r, secp256k1_gej *a) SET_GEJ_CONTRACT2;

#ifdef LOG_ECMULT_GEN_LAST
struct { secp256k1_scalar a; secp256k1_gej r; const secp256k1_ecmult_gen_context *ctx; } g_genl;
#define g_genl_a g_genl.a
#define g_genl_r g_genl.r
#define g_genl_ctx g_genl.ctx
#define ECMULT_GEN_LAST_GHOST g_genl
static void secp256k1_ecmult_gen(const secp256k1_ecmult_gen_context *ctx, secp256k1_gej *r, const secp256k1_scalar *a)
__CPROVER_requires(__CPROVER_w_ok(r, sizeof(*r)) && __CPROVER_r_ok(a, sizeof(*a)) && scalar_ok(a) && __CPROVER_r_ok(ctx, sizeof(*ctx)))
__CPROVER_assigns(*r, g_genl)
__CPROVER_ensures(SC_EQ_OLD(g_genl_a, *a) && FE_EQ(g_genl_r.x, r->x) && FE_EQ(g_genl_r.y, r->y) && FE_EQ(g_genl_r.z, r->z) && g_genl_r.infinity == r->infinity && g_genl_ctx == ctx)
__CPROVER_ensures(gej_ok(r))
;
#endif

#define GE_EQ(g, p) (FE_EQ((g).x, (p)->x) && FE_EQ((g).y, (p)->y) && (g).infinity == (p)->infinity)
#define GE_KEEP(g) (FE_KEEP((g).x) && FE_KEEP((g).y) && (g).infinity == __CPROVER_old((g).infinity))

/* ---- secp256k1_ecdsa_sig_verify as a verdict oracle (gates proved by unit C01.sig_verify) ---- */
#ifdef LOG_SIG_VERIFY
int g_sv_n, g_sv_v0; secp256k1_scalar g_sv_r0, g_sv_s0, g_sv_m0; secp256k1_ge g_sv_q0;
static int secp256k1_ecdsa_sig_verify(const secp256k1_scalar *sigr, const secp256k1_scalar *sigs, const secp256k1_ge *pubkey, const secp256k1_scalar *message)
__CPROVER_requires(__CPROVER_r_ok(sigr, sizeof(*sigr)) && __CPROVER_r_ok(sigs, sizeof(*sigs)) && __CPROVER_r_ok(pubkey, sizeof(*pubkey)) && __CPROVER_r_ok(message, sizeof(*message)))
__CPROVER_requires(scalar_ok(sigr) && scalar_ok(sigs) && scalar_ok(message) && ge_ok(pubkey) && !pubkey->infinity)
__CPROVER_assigns(g_sv_n, g_sv_v0, g_sv_r0, g_sv_s0, g_sv_m0, g_sv_q0)
__CPROVER_ensures(__CPROVER_return_value == 0 || __CPROVER_return_value == 1)
__CPROVER_ensures(g_sv_n == __CPROVER_old(g_sv_n) + 1)
__CPROVER_ensures(__CPROVER_old(g_sv_n) == 0 ==> (g_sv_v0 == __CPROVER_return_value && SC_EQ(g_sv_r0, *sigr) && SC_EQ(g_sv_s0, *sigs) && SC_EQ(g_sv_m0, *message) && GE_EQ(g_sv_q0, pubkey)))
__CPROVER_ensures(__CPROVER_old(g_sv_n) != 0 ==> (g_sv_v0 == __CPROVER_old(g_sv_v0) && SC_KEEP(g_sv_r0) && SC_KEEP(g_sv_s0) && SC_KEEP(g_sv_m0) && GE_KEEP(g_sv_q0)))
;
#endif

/* ---- secp256k1_ecdsa_sig_sign as an oracle with LAST-CALL log (its gates: unit C01.sig_sign) ---- */
#ifdef LOG_SIG_SIGN
/* each ghost log is ONE object (a struct) so that it is one target in assigns clauses: DFCC's write-set inclusion checks are
 * quadratic in the number of targets, and these logs are written inside loops closed by loop contracts */
struct { unsigned int n; int ret, has_recid, recid; secp256k1_scalar sec, msg, non, r, s; const secp256k1_ecmult_gen_context *ctx; } g_ss;
#define g_ss_n g_ss.n
#define g_ss_ret g_ss.ret
#define g_ss_has_recid g_ss.has_recid
#define g_ss_recid g_ss.recid
#define g_ss_sec g_ss.sec
#define g_ss_msg g_ss.msg
#define g_ss_non g_ss.non
#define g_ss_r g_ss.r
#define g_ss_s g_ss.s
#define g_ss_ctx g_ss.ctx
#define SIG_SIGN_GHOST g_ss
static int secp256k1_ecdsa_sig_sign(const secp256k1_ecmult_gen_context *ctx, secp256k1_scalar *sigr, secp256k1_scalar *sigs, const secp256k1_scalar *seckey, const secp256k1_scalar *message, const secp256k1_scalar *nonce, int *recid)
__CPROVER_requires(__CPROVER_w_ok(sigr, sizeof(*sigr)) && __CPROVER_w_ok(sigs, sizeof(*sigs)) && __CPROVER_r_ok(seckey, sizeof(*seckey)) && __CPROVER_r_ok(message, sizeof(*message)) && __CPROVER_r_ok(nonce, sizeof(*nonce)))
__CPROVER_requires(recid == NULL || __CPROVER_w_ok(recid, sizeof(*recid)))
__CPROVER_requires(scalar_ok(seckey) && scalar_ok(message) && scalar_ok(nonce))
__CPROVER_assigns(*sigr, *sigs; recid != NULL: *recid; g_ss)
__CPROVER_ensures(__CPROVER_return_value == 0 || __CPROVER_return_value == 1)
__CPROVER_ensures(scalar_ok(sigr) && scalar_ok(sigs) && (recid == NULL || (*recid >= 0 && *recid <= 3)))
__CPROVER_ensures(g_ss_n == __CPROVER_old(g_ss_n) + 1 && g_ss_ret == __CPROVER_return_value && g_ss_ctx == ctx)
__CPROVER_ensures(SC_EQ(g_ss_sec, *seckey) && SC_EQ(g_ss_msg, *message) && SC_EQ(g_ss_non, *nonce) && SC_EQ(g_ss_r, *sigr) && SC_EQ(g_ss_s, *sigs))
__CPROVER_ensures(g_ss_has_recid == (recid != NULL) && (recid == NULL || g_ss_recid == *recid))
;
#endif

/* ---- nonce_function_rfc6979_impl: LAST-CALL log of its arguments (its body: unit C01.rfc6979).
 * verif_nonce_calls is the ghost counter named by the loop invariant of the signing retry loop
 * (unit table, engine/units/C01_more.py: SIGN_LOOP); the harness stub for user nonce functions increments it too.
 * g_nk is a ghost byte index the code never assigns. */
#ifdef LOG_NONCE_FN
unsigned int verif_nonce_calls;
size_t g_nk;
struct { unsigned int impl_n, counter; const unsigned char *msg32, *key32, *algo16, *out; const void *data; const secp256k1_hash_ctx *hctx;
         unsigned char data_byte, out_byte, msg_byte, key_byte; unsigned int st_n; int st_ret; } g_nf;
#define g_nf_impl_n g_nf.impl_n
#define g_nf_counter g_nf.counter
#define g_nf_msg32 g_nf.msg32
#define g_nf_key32 g_nf.key32
#define g_nf_algo16 g_nf.algo16
#define g_nf_out g_nf.out
#define g_nf_data g_nf.data
#define g_nf_hctx g_nf.hctx
#define g_nf_data_byte g_nf.data_byte
#define g_nf_out_byte g_nf.out_byte
#define g_nf_msg_byte g_nf.msg_byte   /* CONTENT of the message / key handed to the nonce function, at ghost index g_nk (pointer identity is not part of the property) */
#define g_nf_key_byte g_nf.key_byte
#define g_st_n g_nf.st_n      /* user-callback stub (harness/C01/nonce_stub.c): calls, last return value */
#define g_st_ret g_nf.st_ret
#ifdef NONCE_FN_EXPECT
const unsigned char *g_nfx_msg32, *g_nfx_key32; const void *g_nfx_data;
#endif
#define NONCE_FN_GHOST verif_nonce_calls, g_nf
static int nonce_function_rfc6979_impl(const secp256k1_hash_ctx *hash_ctx, unsigned char *nonce32, const unsigned char *msg32, const unsigned char *key32, const unsigned char *algo16, void *data, unsigned int counter)
__CPROVER_requires(hash_ctx != NULL && __CPROVER_w_ok(nonce32, 32) && __CPROVER_r_ok(msg32, 32) && __CPROVER_r_ok(key32, 32))
__CPROVER_requires((algo16 == NULL || __CPROVER_r_ok(algo16, 16)) && (data == NULL || __CPROVER_r_ok(data, 32)))
#ifdef NONCE_FN_EXPECT
/* Call shape expected by the harness, stated as a PRECONDITION (an obligation at every call site, not an assumption): used where the
 * calls sit in a loop whose loop contract forgets ghost logs at the loop exit (secp256k1_ecdsa_anti_exfil_signer_commit).
 * g_nfx_* are set by the harness and never assigned by code or contracts. */
__CPROVER_requires(g_nk < 32 && msg32[g_nk] == g_nfx_msg32[g_nk] && key32[g_nk] == g_nfx_key32[g_nk] && algo16 == NULL && data != NULL && ((const unsigned char *)data)[g_nk] == ((const unsigned char *)g_nfx_data)[g_nk] && counter == verif_nonce_calls)   /* content, not pointer identity; which hash context is used is not part of the property */
#endif
__CPROVER_assigns(__CPROVER_object_upto(nonce32, 32), verif_nonce_calls, g_nf)
__CPROVER_ensures(g_st_n == __CPROVER_old(g_st_n) && g_st_ret == __CPROVER_old(g_st_ret))
__CPROVER_ensures(__CPROVER_return_value == 1)
__CPROVER_ensures(verif_nonce_calls == __CPROVER_old(verif_nonce_calls) + 1 && g_nf_impl_n == __CPROVER_old(g_nf_impl_n) + 1)
__CPROVER_ensures(g_nf_counter == counter && g_nf_msg32 == msg32 && g_nf_key32 == key32 && g_nf_algo16 == algo16 && g_nf_out == nonce32 && g_nf_data == data && g_nf_hctx == hash_ctx)
__CPROVER_ensures((data != NULL && g_nk < 32) ==> g_nf_data_byte == ((const unsigned char *)data)[g_nk])
__CPROVER_ensures(g_nk < 32 ==> (g_nf_out_byte == nonce32[g_nk] && g_nf_msg_byte == msg32[g_nk] && g_nf_key_byte == key32[g_nk]))
;
#endif

/* ---- RFC 6979 DRBG object: call log.  g_ki: ghost index into the key buffer (never assigned). ---- */
#ifdef LOG_RFC6979_HMAC
size_t g_ki;
unsigned int verif_rfc6979_generate_calls;   /* named by the loop invariant of the counter loop (unit table: RFC_LOOP) */
int g_ri_n, g_rf_n; unsigned int g_rf_gen_before; size_t g_ri_keylen; unsigned char g_ri_byte; const unsigned char *g_ri_key; const secp256k1_hash_ctx *g_ri_hctx; const secp256k1_rfc6979_hmac_sha256 *g_ri_rng;
unsigned int g_ri_gen_before;
const secp256k1_rfc6979_hmac_sha256 *g_rf_rng;
struct { size_t len; uint64_t out_id; unsigned char out_byte; } g_rg;   /* LAST generate call: length, identity of the output buffer (object<<52 | offset), output byte at ghost index g_nk2 */
size_t g_nk2;   /* ghost byte index into the generated output, never assigned */
static void secp256k1_rfc6979_hmac_sha256_initialize(const secp256k1_hash_ctx *hash_ctx, secp256k1_rfc6979_hmac_sha256 *rng, const unsigned char *key, size_t keylen)
__CPROVER_requires(hash_ctx != NULL && __CPROVER_w_ok(rng, sizeof(*rng)) && __CPROVER_r_ok(key, keylen))
__CPROVER_assigns(*rng, g_ri_n, g_ri_keylen, g_ri_byte, g_ri_key, g_ri_hctx, g_ri_rng, g_ri_gen_before)
__CPROVER_ensures(g_ri_n == __CPROVER_old(g_ri_n) + 1 && g_ri_keylen == keylen && g_ri_key == key && g_ri_hctx == hash_ctx && g_ri_rng == rng && g_ri_gen_before == verif_rfc6979_generate_calls)
__CPROVER_ensures(g_ki < keylen ==> g_ri_byte == key[g_ki])
;
/* The generate calls sit in a for-loop closed by a loop contract, which forgets ghost logs at the loop exit.  What every call must satisfy
 * (it uses the DRBG that was initialised, after initialize and before finalize) is therefore a PRECONDITION of this contract: an obligation at
 * every call site, not an assumption.  Which hash context is passed and where intermediate outputs go is not constrained; the LAST call is
 * logged and tied to nonce32 by the loop invariant (unit table: RFC_LOOP). */
static void secp256k1_rfc6979_hmac_sha256_generate(const secp256k1_hash_ctx *hash_ctx, secp256k1_rfc6979_hmac_sha256 *rng, unsigned char *out, size_t outlen)
__CPROVER_requires(hash_ctx != NULL && __CPROVER_rw_ok(rng, sizeof(*rng)) && __CPROVER_w_ok(out, outlen))
__CPROVER_requires(rng == g_ri_rng && g_ri_n == 1 && g_rf_n == 0)
__CPROVER_assigns(*rng, __CPROVER_object_upto(out, outlen), verif_rfc6979_generate_calls, g_rg)
__CPROVER_ensures(verif_rfc6979_generate_calls == __CPROVER_old(verif_rfc6979_generate_calls) + 1)
__CPROVER_ensures(g_rg.len == outlen && g_rg.out_id == (((uint64_t)__CPROVER_POINTER_OBJECT(out) << 52) | (uint64_t)__CPROVER_POINTER_OFFSET(out)) && (g_nk2 < outlen ==> g_rg.out_byte == out[g_nk2]))
;
static void secp256k1_rfc6979_hmac_sha256_finalize(secp256k1_rfc6979_hmac_sha256 *rng)
__CPROVER_requires(__CPROVER_rw_ok(rng, sizeof(*rng)))
__CPROVER_assigns(*rng, g_rf_n, g_rf_rng, g_rf_gen_before)
__CPROVER_ensures(g_rf_n == __CPROVER_old(g_rf_n) + 1 && g_rf_rng == rng && g_rf_gen_before == verif_rfc6979_generate_calls)
;
#endif

/* ---- ASSUMED: secp256k1_ge_set_xo_var (square root / lift): verdict + argument log, slot 0 ---- */
#ifdef LOG_SET_XO
int g_xo_n, g_xo_odd0, g_xo_v0; secp256k1_fe g_xo_x0; secp256k1_ge g_xo_r0;
static int secp256k1_ge_set_xo_var(secp256k1_ge *r, const secp256k1_fe *x, int odd)
__CPROVER_requires(__CPROVER_w_ok(r, sizeof(*r)) && __CPROVER_r_ok(x, sizeof(*x)) && fe_mag(x, 4))
__CPROVER_assigns(*r, g_xo_n, g_xo_odd0, g_xo_v0, g_xo_x0, g_xo_r0)
__CPROVER_ensures(__CPROVER_return_value == 0 || __CPROVER_return_value == 1)
/* what the real body leaves behind: r->x is a copy of *x (magnitude unchanged), y is a normalised root possibly negated once (magnitude <= 2) */
__CPROVER_ensures(FE_EQ_OLD(r->x, *x) && fe_mag(&r->y, 2) && r->infinity == 0)
__CPROVER_ensures(g_xo_n == __CPROVER_old(g_xo_n) + 1)
__CPROVER_ensures(__CPROVER_old(g_xo_n) == 0 ==> (g_xo_odd0 == odd && g_xo_v0 == __CPROVER_return_value && FE_EQ(g_xo_x0, *x) && GE_EQ(g_xo_r0, r)))
__CPROVER_ensures(__CPROVER_old(g_xo_n) != 0 ==> (g_xo_odd0 == __CPROVER_old(g_xo_odd0) && g_xo_v0 == __CPROVER_old(g_xo_v0) && FE_KEEP(g_xo_x0) && GE_KEEP(g_xo_r0)))
;
#endif

/* ---- secp256k1_ecdsa_sig_recover as an oracle, slot 0 (its gates: unit C01.sig_recover) ---- */
#ifdef LOG_SIG_RECOVER
int g_sr_n, g_sr_v0, g_sr_recid0; secp256k1_scalar g_sr_r0, g_sr_s0, g_sr_m0; secp256k1_ge g_sr_q0;
static int secp256k1_ecdsa_sig_recover(const secp256k1_scalar *sigr, const secp256k1_scalar* sigs, secp256k1_ge *pubkey, const secp256k1_scalar *message, int recid)
__CPROVER_requires(__CPROVER_r_ok(sigr, sizeof(*sigr)) && __CPROVER_r_ok(sigs, sizeof(*sigs)) && __CPROVER_w_ok(pubkey, sizeof(*pubkey)) && __CPROVER_r_ok(message, sizeof(*message)))
__CPROVER_requires(scalar_ok(sigr) && scalar_ok(sigs) && scalar_ok(message) && recid >= 0 && recid <= 3)
__CPROVER_assigns(*pubkey, g_sr_n, g_sr_v0, g_sr_recid0, g_sr_r0, g_sr_s0, g_sr_m0, g_sr_q0)
__CPROVER_ensures(__CPROVER_return_value == 0 || __CPROVER_return_value == 1)
__CPROVER_ensures(__CPROVER_return_value == 1 ==> (ge_ok1(pubkey) && pubkey->infinity == 0))
__CPROVER_ensures(g_sr_n == __CPROVER_old(g_sr_n) + 1)
__CPROVER_ensures(__CPROVER_old(g_sr_n) == 0 ==> (g_sr_v0 == __CPROVER_return_value && g_sr_recid0 == recid && SC_EQ(g_sr_r0, *sigr) && SC_EQ(g_sr_s0, *sigs) && SC_EQ(g_sr_m0, *message) && (__CPROVER_return_value == 0 || GE_EQ(g_sr_q0, pubkey))))
__CPROVER_ensures(__CPROVER_old(g_sr_n) != 0 ==> (g_sr_v0 == __CPROVER_old(g_sr_v0) && g_sr_recid0 == __CPROVER_old(g_sr_recid0) && SC_KEEP(g_sr_r0) && SC_KEEP(g_sr_s0) && SC_KEEP(g_sr_m0) && GE_KEEP(g_sr_q0)))
;
#endif

#ifndef VERIF_NATIVE
#ifdef LOG_SCALAR_MUL
/* VALUE-based view of the scalar_mul call log (audit rule: wiring is stated over values, not slots or operand order).
 * mul_log_get(i, ..) = operands and result of logged call i as integers (0 if there is no such call);
 * mul_logged(x, y, res) = some logged call multiplies {x, y} in either order and returned res. */
static inline int mul_log_get(int i, wide *a, wide *b, wide *r) {
    if (i < 0 || i >= g_mul_n || i > 3) return 0;
    if (i == 0) { *a = sval(&g_mul_a0); *b = sval(&g_mul_b0); *r = sval(&g_mul_r0); }
    if (i == 1) { *a = sval(&g_mul_a1); *b = sval(&g_mul_b1); *r = sval(&g_mul_r1); }
    if (i == 2) { *a = sval(&g_mul_a2); *b = sval(&g_mul_b2); *r = sval(&g_mul_r2); }
    if (i == 3) { *a = sval(&g_mul_a3); *b = sval(&g_mul_b3); *r = sval(&g_mul_r3); }
    return 1;
}
static inline int mul_logged(wide x, wide y, wide res) {
    int i, hit = 0; wide a, b, r;
    for (i = 0; i < 4; i++) if (mul_log_get(i, &a, &b, &r) && ((a == x && b == y) || (a == y && b == x)) && r == res) hit = 1;
    return hit;
}
#endif
/* value of a field element of magnitude <= 8 reduced mod p (what fe_normalize computes) */
static inline wide fmodp(const secp256k1_fe *a) { wide v = fval(a), p = P_(); int i; for (i = 0; i < 20; i++) if (v >= p) v -= p; return v; }
/* same for magnitude <= 1 (outputs of ge_set_gej / ge_set_xo_var contracts: ge_ok1): value < 2^257 < 3p */
static inline wide fmodp1(const secp256k1_fe *a) { wide v = fval(a), p = P_(); int i; for (i = 0; i < 3; i++) if (v >= p) v -= p; return v; }
static inline wide le256(const unsigned char *b) { wide v = 0; int i; for (i = 31; i >= 0; i--) v = (v << 8) | W(b[i]); return v; }
static inline wide modn(wide v) { wide n = N_(); return v >= n ? v - n : v; }   /* for v < 2n */
#endif
#endif

/* Oracle / summary contracts for the C14 (ECDSA adaptor) units.  Builds on assumed.h and assumed_musig.h; the only
 * difference to assumed.h is the ghost log of secp256k1_ecmult, which here has THREE slots (dleq_verify performs three
 * multiplications whose arguments and results all matter).  assumed.h's own redeclaration of secp256k1_ecmult is
 * diverted to an unused name so that exactly one contract is attached to the real function; requires / frame /
 * gej_ok(r) are identical to assumed.h.  [for the lead: a 3-slot LOG_ECMULT in assumed.h would make this unnecessary] */
#ifndef VERIF_ASSUMED_ADAPTOR_H
#define VERIF_ASSUMED_ADAPTOR_H
#include "pre.h"
#ifdef VERIF_ASSUMED_H
#error "include assumed_adaptor.h before/instead of assumed.h"
#endif
#undef LOG_ECMULT
#define secp256k1_ecmult verif_unused_ecmult_decl
#define secp256k1_ecmult_const verif_unused_ecmult_const_decl
#include "assumed.h"
#undef secp256k1_ecmult
#undef secp256k1_ecmult_const
#include "assumed_musig.h"

int g_em_n;
secp256k1_gej g_em_a0, g_em_a1, g_em_a2, g_em_r0, g_em_r1, g_em_r2;
secp256k1_scalar g_em_na0, g_em_na1, g_em_na2, g_em_ng0, g_em_ng1, g_em_ng2;
int g_em_hna0, g_em_hna1, g_em_hna2, g_em_hng0, g_em_hng1, g_em_hng2;
#define EM_SLOT(i) \
  __CPROVER_ensures(__CPROVER_old(g_em_n) == i ==> (g_em_hna##i == (na != NULL) && g_em_hng##i == (ng != NULL) && (na == NULL || SC_EQ_OLD(g_em_na##i, *na)) && (ng == NULL || SC_EQ_OLD(g_em_ng##i, *ng)) && \
      GEJ_EQ_OLD(g_em_a##i, *a) && GEJ_EQ(g_em_r##i, *r))) \
  __CPROVER_ensures(__CPROVER_old(g_em_n) != i ==> (g_em_hna##i == __CPROVER_old(g_em_hna##i) && g_em_hng##i == __CPROVER_old(g_em_hng##i) && SC_KEEP(g_em_na##i) && SC_KEEP(g_em_ng##i) && GEJ_KEEP(g_em_a##i) && GEJ_KEEP(g_em_r##i)))
static void secp256k1_ecmult(secp256k1_gej *r, const secp256k1_gej *a, const secp256k1_scalar *na, const secp256k1_scalar *ng)
__CPROVER_requires(__CPROVER_w_ok(r, sizeof(*r)) && __CPROVER_r_ok(a, sizeof(*a)) && gej_ok(a))
__CPROVER_requires((na == NULL || (__CPROVER_r_ok(na, sizeof(*na)) && scalar_ok(na))) && (ng == NULL || (__CPROVER_r_ok(ng, sizeof(*ng)) && scalar_ok(ng))))
__CPROVER_assigns(*r, g_em_n, g_em_a0, g_em_a1, g_em_a2, g_em_r0, g_em_r1, g_em_r2, g_em_na0, g_em_na1, g_em_na2, g_em_ng0, g_em_ng1, g_em_ng2, g_em_hna0, g_em_hna1, g_em_hna2, g_em_hng0, g_em_hng1, g_em_hng2)
__CPROVER_ensures(g_em_n == __CPROVER_old(g_em_n) + 1)
EM_SLOT(0) EM_SLOT(1) EM_SLOT(2)
__CPROVER_ensures(gej_ok(r))
;

/* same for secp256k1_ecmult_const: assumed.h's contract plus a one-slot log */
int g_ec_n; secp256k1_ge g_ec_a0; secp256k1_scalar g_ec_q0; secp256k1_gej g_ec_r0;
static void secp256k1_ecmult_const(secp256k1_gej *r, const secp256k1_ge *a, const secp256k1_scalar *q)
__CPROVER_requires(__CPROVER_w_ok(r, sizeof(*r)) && __CPROVER_r_ok(a, sizeof(*a)) && ge_ok(a) && __CPROVER_r_ok(q, sizeof(*q)) && scalar_ok(q))
__CPROVER_assigns(*r, g_ec_n, g_ec_a0, g_ec_q0, g_ec_r0)
__CPROVER_ensures(g_ec_n == __CPROVER_old(g_ec_n) + 1)
__CPROVER_ensures(__CPROVER_old(g_ec_n) == 0 ==> (GE_EQ(g_ec_a0, *a) && SC_EQ(g_ec_q0, *q) && GEJ_EQ(g_ec_r0, *r)))
__CPROVER_ensures(__CPROVER_old(g_ec_n) != 0 ==> (GE_KEEP(g_ec_a0) && SC_KEEP(g_ec_q0) && GEJ_KEEP(g_ec_r0)))
__CPROVER_ensures(gej_ok(r))
;

/* "*g is the same point afterwards, coordinates unchanged or canonical, magnitude 1 if touched" (in-place normalisation) */
#ifndef VERIF_NATIVE
#define GE_SAME_POINT_ENSURES(g) __CPROVER_ensures((g)->infinity == __CPROVER_old((g)->infinity) && ge_ok(g) && \
    fe_same_or_normalised(fval(&(g)->x), FVAL_OLD((g)->x)) && fe_same_or_normalised(fval(&(g)->y), FVAL_OLD((g)->y)))
#else
#define GE_SAME_POINT_ENSURES(g)
#endif

/* ---- DLEQ verification: verdict oracle for secp256k1_ecdsa_adaptor_verify (its own gate and challenge hash are proved by
 * C14.dleq_verify); logs the statement and proof it was asked about and the verdict ---- */
#ifdef LOG_DLEQ_VERIFY
int g_dv_n, g_dv_ret; secp256k1_scalar g_dv_s, g_dv_e; secp256k1_ge g_dv_p1, g_dv_gen2, g_dv_p2;
static int secp256k1_dleq_verify(const secp256k1_hash_ctx *hash_ctx, const secp256k1_scalar *s, const secp256k1_scalar *e, secp256k1_ge *p1, secp256k1_ge *gen2, secp256k1_ge *p2)
__CPROVER_requires(hash_ctx != NULL && __CPROVER_r_ok(s, sizeof(*s)) && __CPROVER_r_ok(e, sizeof(*e)) && scalar_ok(s) && scalar_ok(e))
__CPROVER_requires(__CPROVER_rw_ok(p1, sizeof(*p1)) && __CPROVER_rw_ok(gen2, sizeof(*gen2)) && __CPROVER_rw_ok(p2, sizeof(*p2)) && ge_ok(p1) && ge_ok(gen2) && ge_ok(p2) && !p1->infinity && !gen2->infinity && !p2->infinity)
/* the real body serialises the three points, i.e. normalises them IN PLACE: they are in the frame, same value mod p afterwards */
__CPROVER_assigns(*p1, *gen2, *p2, g_dv_n, g_dv_ret, g_dv_s, g_dv_e, g_dv_p1, g_dv_gen2, g_dv_p2)
__CPROVER_ensures(g_dv_n == __CPROVER_old(g_dv_n) + 1 && g_dv_ret == __CPROVER_return_value && SC_EQ(g_dv_s, *s) && SC_EQ(g_dv_e, *e) && GE_EQ_OLD(g_dv_p1, *p1) && GE_EQ_OLD(g_dv_gen2, *gen2) && GE_EQ_OLD(g_dv_p2, *p2))
GE_SAME_POINT_ENSURES(p1) GE_SAME_POINT_ENSURES(gen2) GE_SAME_POINT_ENSURES(p2)
__CPROVER_ensures(__CPROVER_return_value == 0 || __CPROVER_return_value == 1)
;
#endif

/* ---- DLEQ proof generation: oracle for secp256k1_ecdsa_adaptor_encrypt (may fail; produces two scalars) ---- */
#ifdef ORACLE_DLEQ_PROVE
int g_dp_n, g_dp_ret; secp256k1_scalar g_dp_s, g_dp_e, g_dp_sk; secp256k1_ge g_dp_p1, g_dp_gen2, g_dp_p2;
static int secp256k1_dleq_prove(const secp256k1_context* ctx, secp256k1_scalar *s, secp256k1_scalar *e, const secp256k1_scalar *sk, secp256k1_ge *p1, secp256k1_ge *gen2, secp256k1_ge *p2, secp256k1_nonce_function_hardened_ecdsa_adaptor noncefp, void *ndata)
__CPROVER_requires(ctx != NULL && __CPROVER_w_ok(s, sizeof(*s)) && __CPROVER_w_ok(e, sizeof(*e)) && __CPROVER_r_ok(sk, sizeof(*sk)) && scalar_ok(sk))
__CPROVER_requires(__CPROVER_rw_ok(p1, sizeof(*p1)) && __CPROVER_rw_ok(gen2, sizeof(*gen2)) && __CPROVER_rw_ok(p2, sizeof(*p2)) && noncefp != NULL && ge_ok(p1) && ge_ok(gen2) && ge_ok(p2))
__CPROVER_assigns(*s, *e, *p1, *gen2, *p2, g_dp_n, g_dp_ret, g_dp_s, g_dp_e, g_dp_sk, g_dp_p1, g_dp_gen2, g_dp_p2)
__CPROVER_ensures(g_dp_n == __CPROVER_old(g_dp_n) + 1 && g_dp_ret == __CPROVER_return_value && SC_EQ(g_dp_s, *s) && SC_EQ(g_dp_e, *e) && SC_EQ(g_dp_sk, *sk) && GE_EQ_OLD(g_dp_p1, *p1) && GE_EQ_OLD(g_dp_gen2, *gen2) && GE_EQ_OLD(g_dp_p2, *p2))
GE_SAME_POINT_ENSURES(p1) GE_SAME_POINT_ENSURES(gen2) GE_SAME_POINT_ENSURES(p2)
__CPROVER_ensures((__CPROVER_return_value == 0 || __CPROVER_return_value == 1) && scalar_ok(s) && scalar_ok(e))
;
#endif
#endif

/* Contracts used by the Elements-module units (C08 generator/Pedersen, C11 surjection, C16 whitelist).
 * Select what a harness needs with #define EL_<NAME> before the include.
 *
 *  - ORACLE contracts (algebraic residue): frame + representation invariant of outputs + return in
 *    {0,1} + ghost log of (arguments, verdict).  None states an algebraic fact.
 *  - MID-LEVEL contracts of module functions that are PROVED by another unit of these properties
 *    (named next to each contract); a unit that replaces one lists it under `replace` only.
 *  - the memcpy contract of DESIGN 2.4 (bounds are the requires clause = obligations at each call).
 */
#ifndef VERIF_ASSUMED_ELEMENTS_H
#define VERIF_ASSUMED_ELEMENTS_H
#include "assumed.h"

#define GEJ_EQ(g, h) (FE_EQ((g).x, (h).x) && FE_EQ((g).y, (h).y) && FE_EQ((g).z, (h).z) && (g).infinity == (h).infinity)
#define GE_EQ(g, h) (FE_EQ((g).x, (h).x) && FE_EQ((g).y, (h).y) && (g).infinity == (h).infinity)
#define GEJ_KEEP(g) (FE_KEEP((g).x) && FE_KEEP((g).y) && FE_KEEP((g).z) && (g).infinity == __CPROVER_old((g).infinity))
#define GE_KEEP(g) (FE_KEEP((g).x) && FE_KEEP((g).y) && (g).infinity == __CPROVER_old((g).infinity))
#define GEJ_EQ_OLD(g, h) (FE_EQ_OLD((g).x, (h).x) && FE_EQ_OLD((g).y, (h).y) && FE_EQ_OLD((g).z, (h).z) && (g).infinity == __CPROVER_old((h).infinity))
#define GE_EQ_OLD(g, h) (FE_EQ_OLD((g).x, (h).x) && FE_EQ_OLD((g).y, (h).y) && (g).infinity == __CPROVER_old((h).infinity))

/* ---------------------------------------------------------------- memcpy (DESIGN 2.4) ---------- */
#ifdef EL_MEMCPY
/* g_mc_idx is a ghost byte index never assigned by code: "dst[g_mc_idx] == src[g_mc_idx]" for an
 * arbitrary index is the statement that every byte is copied.  The frame is the exact byte range. */
size_t g_mc_idx;
void *memcpy(void *dst, const void *src, size_t n)
__CPROVER_requires(__CPROVER_r_ok(src, n) && __CPROVER_w_ok(dst, n))
__CPROVER_assigns(__CPROVER_object_from(dst))
__CPROVER_ensures(__CPROVER_return_value == dst)
__CPROVER_ensures(g_mc_idx < n ==> ((unsigned char*)dst)[g_mc_idx] == ((const unsigned char*)src)[g_mc_idx])
;
#endif

/* ------------------------------------------------- secp256k1_count_bits_set (PROVED: C11.count_bits) */
#ifdef EL_COUNT_BITS
/* specification: number of set bits in data[0..count), count <= 32 */
static inline size_t el_popcount(const unsigned char *data, size_t count) {
    size_t r = 0, i; unsigned b;
    for (i = 0; i < 32; i++) if (i < count) for (b = 0; b < 8; b++) r += (data[i] >> b) & 1;
    return r;
}
static size_t secp256k1_count_bits_set(const unsigned char *data, size_t count)
__CPROVER_requires(count <= 32 && (count == 0 || __CPROVER_r_ok(data, count)))
__CPROVER_assigns()
__CPROVER_ensures(__CPROVER_return_value == el_popcount(data, count))
;
#endif

#endif

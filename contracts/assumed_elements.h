/* Contracts used by the Elements-module units (C08 generator/Pedersen, C11 surjection, C16 whitelist).
 * Select what a harness needs with #define EL_<NAME> before the include.
 *
 *  - ORACLE contracts (algebraic residue): frame + representation invariant of outputs + return in
 *    {0,1} + ghost log of (arguments, verdict).  None states an algebraic fact.
 *  - MID-LEVEL contracts of module functions that are PROVED by another unit of these properties
 *    (named next to each contract); a unit that replaces one lists it under `replace` only.
 *  - the memcpy contract of DESIGN 2.4 (bounds are the requires clause = obligations at each call).
 */
#ifndef VERIF_ASSUMED_ELEMENTS_H
#define VERIF_ASSUMED_ELEMENTS_H
#include "assumed.h"

static inline int el_nonzero32(const unsigned char *b) { int nz = 0, j; for (j = 0; j < 32; j++) nz |= b[j]; return nz != 0; }
#define GEJ_EQ(g, h) (FE_EQ((g).x, (h).x) && FE_EQ((g).y, (h).y) && FE_EQ((g).z, (h).z) && (g).infinity == (h).infinity)
#define GE_EQ(g, h) (FE_EQ((g).x, (h).x) && FE_EQ((g).y, (h).y) && (g).infinity == (h).infinity)
#define GEJ_KEEP(g) (FE_KEEP((g).x) && FE_KEEP((g).y) && FE_KEEP((g).z) && (g).infinity == __CPROVER_old((g).infinity))
#define GE_KEEP(g) (FE_KEEP((g).x) && FE_KEEP((g).y) && (g).infinity == __CPROVER_old((g).infinity))
#define GEJ_EQ_OLD(g, h) (FE_EQ_OLD((g).x, (h).x) && FE_EQ_OLD((g).y, (h).y) && FE_EQ_OLD((g).z, (h).z) && (g).infinity == __CPROVER_old((h).infinity))
#define GE_EQ_OLD(g, h) (FE_EQ_OLD((g).x, (h).x) && FE_EQ_OLD((g).y, (h).y) && (g).infinity == __CPROVER_old((h).infinity))

/* ---------------------------------------------------------------- memcpy (DESIGN 2.4) ---------- */
#ifdef EL_MEMCPY
/* DESTINATION-RELATIVE WATCH: g_mc_watch is a byte address fixed by the harness (never assigned by code or
 * contract).  A copy whose destination range contains it leaves there the source byte of the same relative
 * position; any other copy leaves it alone (exact frame).  Statements about the watched byte therefore do not
 * depend on how the code splits, orders or loops its copies.  The requires clause is the bounds obligation. */
const unsigned char *g_mc_watch;
#define MC_HIT (__CPROVER_same_object(g_mc_watch, dst) && __CPROVER_POINTER_OFFSET(g_mc_watch) >= __CPROVER_POINTER_OFFSET(dst) && \
                (size_t)(__CPROVER_POINTER_OFFSET(g_mc_watch) - __CPROVER_POINTER_OFFSET(dst)) < n)
#define MC_B(i) ((i) < n ==> ((unsigned char*)dst)[i] == ((const unsigned char*)src)[i])
void *memcpy(void *dst, const void *src, size_t n)
__CPROVER_requires(__CPROVER_r_ok(src, n) && __CPROVER_w_ok(dst, n))
#ifdef EL_MEMCPY_FAST   /* cheaper frame (a symbolic-length havoc of an 8 KiB field costs 4x): everything from dst to the end of
                         * its object may change, EXCEPT that the watched byte keeps its value when outside dst[0..n) */
__CPROVER_assigns(__CPROVER_object_from(dst))
__CPROVER_ensures((!MC_HIT && __CPROVER_r_ok(g_mc_watch, 1)) ==> *g_mc_watch == __CPROVER_old(*g_mc_watch))
#else
__CPROVER_assigns(__CPROVER_object_upto(dst, n))
#endif
__CPROVER_ensures(__CPROVER_return_value == dst)
__CPROVER_ensures(MC_HIT ==> *g_mc_watch == ((const unsigned char*)src)[__CPROVER_POINTER_OFFSET(g_mc_watch) - __CPROVER_POINTER_OFFSET(dst)])
#ifdef EL_MEMCPY_EXACT32
/* additionally: the first min(n,32) bytes are copied exactly (needed where the code reads a short
 * copied field back as a whole, e.g. the 32-byte surjection bitmap) */
__CPROVER_ensures(MC_B(0) && MC_B(1) && MC_B(2) && MC_B(3) && MC_B(4) && MC_B(5) && MC_B(6) && MC_B(7))
__CPROVER_ensures(MC_B(8) && MC_B(9) && MC_B(10) && MC_B(11) && MC_B(12) && MC_B(13) && MC_B(14) && MC_B(15))
__CPROVER_ensures(MC_B(16) && MC_B(17) && MC_B(18) && MC_B(19) && MC_B(20) && MC_B(21) && MC_B(22) && MC_B(23))
__CPROVER_ensures(MC_B(24) && MC_B(25) && MC_B(26) && MC_B(27) && MC_B(28) && MC_B(29) && MC_B(30) && MC_B(31))
#endif
;
#endif

/* ------------------------------------------------- secp256k1_count_bits_set (PROVED: C11.count_bits) */
#ifdef EL_COUNT_BITS
/* specification: number of set bits in data[0..count), count <= 32 */
static inline size_t el_popcount(const unsigned char *data, size_t count) {
    size_t r = 0, i; unsigned b;
    for (i = 0; i < 32; i++) if (i < count) for (b = 0; b < 8; b++) r += (data[i] >> b) & 1;
    return r;
}
/* optional call log (EL_LOG_COUNT_BITS) of the last call: count, result, and the data byte at the ghost
 * position g_cb_k (fixed by the harness, never assigned): "the bytes counted are THESE bytes" is then a
 * statement about content, not about which copy of them the code chose to count */
#ifdef EL_LOG_COUNT_BITS
int g_cb_n; size_t g_cb_k; unsigned char g_cb_byte; size_t g_cb_count, g_cb_ret;
#endif
static size_t secp256k1_count_bits_set(const unsigned char *data, size_t count)
__CPROVER_requires(count <= 32 && (count == 0 || __CPROVER_r_ok(data, count)))
#ifdef EL_LOG_COUNT_BITS
__CPROVER_assigns(g_cb_n, g_cb_byte, g_cb_count, g_cb_ret)
__CPROVER_ensures(g_cb_n == __CPROVER_old(g_cb_n) + 1 && g_cb_count == count && g_cb_ret == __CPROVER_return_value)
__CPROVER_ensures(g_cb_k < count ==> g_cb_byte == data[g_cb_k])
#else
__CPROVER_assigns()
#endif
__CPROVER_ensures(__CPROVER_return_value == el_popcount(data, count))
__CPROVER_ensures(__CPROVER_return_value <= 8 * count)
;
#endif

/* Ghost indices shared by the ring contracts below; the harness fixes them, nothing else assigns them:
 * g_el_i = a ring position, g_el_k = a byte position in a 32-byte string (message, e0, bitmap). */
#if defined(EL_GHOST_INDEX) || defined(EL_BORROMEAN_VERIFY) || defined(EL_BORROMEAN_SIGN) || defined(EL_WL_KEYS_MSG) || defined(EL_SJ_PUBKEYS) || defined(EL_SJ_GENRAND) || defined(EL_SJ_GENMSG)
size_t g_el_i, g_el_k, g_el_b;     /* g_el_b = a byte position in a 64-byte object (tag / public key) */
#endif

/* --------------------------------- secp256k1_borromean_verify, single ring, evalues == NULL (ORACLE) */
#ifdef EL_BORROMEAN_VERIFY
/* The ring equation is the algebraic residue.  The contract demands what the real function needs from
 * its caller (readable arrays of rsizes[0] entries, reduced scalars - checked at the ghost position
 * g_el_i, i.e. for every position; the keys come from an oracle that yields representation-range
 * elements) and logs what it was given
 * and what it answered.  Its own gates (s = 0, infinity, hash order) belong to C10.borromean_verify. */
int g_bv_n, g_bv_ret, g_bv_evalues_null; size_t g_bv_nrings, g_bv_rsize0, g_bv_mlen;
secp256k1_scalar g_bv_s_i; unsigned char g_bv_m_k, g_bv_e0_k;
/* of key g_el_i one limb is logged: reading a whole 128-byte group element at a symbolic index of a
 * 32 KiB array costs 20 M clauses per read */
uint64_t g_bv_pub_x0;
static int secp256k1_borromean_verify(const secp256k1_hash_ctx *hash_ctx, secp256k1_scalar *evalues, const unsigned char *e0, const secp256k1_scalar *s,
 const secp256k1_gej *pubs, const size_t *rsizes, size_t nrings, const unsigned char *m, size_t mlen)
/* this contract models the single-ring call without challenge output (frame = ghosts only); the call form itself
 * (nrings, evalues, mlen) is logged and judged by the caller's harness on accepting paths */
__CPROVER_requires(hash_ctx != NULL && evalues == NULL && nrings >= 1 && __CPROVER_r_ok(rsizes, sizeof(size_t)) && rsizes[0] <= 256)
__CPROVER_requires(__CPROVER_r_ok(e0, 32) && __CPROVER_r_ok(m, mlen))
__CPROVER_requires(__CPROVER_r_ok(s, rsizes[0] * sizeof(secp256k1_scalar)) && __CPROVER_r_ok(pubs, rsizes[0] * sizeof(secp256k1_gej)))
__CPROVER_requires(g_el_i < rsizes[0] ==> scalar_ok(&s[g_el_i]))
__CPROVER_assigns(g_bv_n, g_bv_ret, g_bv_evalues_null, g_bv_nrings, g_bv_rsize0, g_bv_mlen, g_bv_s_i, g_bv_pub_x0, g_bv_m_k, g_bv_e0_k)
__CPROVER_ensures(__CPROVER_return_value == 0 || __CPROVER_return_value == 1)
__CPROVER_ensures(g_bv_n == __CPROVER_old(g_bv_n) + 1 && g_bv_ret == __CPROVER_return_value &&
                  g_bv_evalues_null == (evalues == NULL) && g_bv_nrings == nrings && g_bv_rsize0 == rsizes[0] && g_bv_mlen == mlen)
__CPROVER_ensures(g_el_i < rsizes[0] ==> (SC_EQ(g_bv_s_i, s[g_el_i]) && g_bv_pub_x0 == pubs[g_el_i].x.n[0]))
__CPROVER_ensures(g_el_k < mlen ==> g_bv_m_k == m[g_el_k])
__CPROVER_ensures(g_el_k < 32 ==> g_bv_e0_k == e0[g_el_k])
;
#endif

/* ------------------- secp256k1_whitelist_compute_keys_and_message (PROVED frame/stream: C16.keys_msg) */
#ifdef EL_WL_KEYS_MSG
/* Ring keys are oracle values in representation range (their algebra is residue); the message is
 * what unit C16.keys_msg proves about the hash stream.  The real function always returns 1; the
 * contract lets it fail so that the caller's handling of a failure is an obligation.  The real function
 * reports illegal use for a key object with x = 0 (secp256k1_pubkey_load); that effect is outside this
 * contract: callers' "no callback" obligations are stated "outside key loading", and C16.keys_msg_b2
 * shows there is none for valid key objects. */
int g_ck_n, g_ck_ret, g_ck_nkeys, g_ck_lists_match;
const secp256k1_pubkey *g_ck_online_expect, *g_ck_offline_expect;   /* harness only; the lists have symbolic length, so they are identified by address */
uint64_t g_ck_key_x0; unsigned char g_ck_msg_k, g_ck_sub_b;
static int g_illegal;      /* (post.h's callback counter; tentative definition) the real function reports illegal use for key objects with x = 0 */
static int secp256k1_whitelist_compute_keys_and_message(const secp256k1_context* ctx, unsigned char *msg32, secp256k1_gej *keys, const secp256k1_pubkey *online_pubkeys, const secp256k1_pubkey *offline_pubkeys, const int n_keys, const secp256k1_pubkey *sub_pubkey)
__CPROVER_requires(ctx != NULL && n_keys >= 0 && n_keys <= 255 && __CPROVER_w_ok(msg32, 32) && __CPROVER_w_ok(keys, n_keys * sizeof(secp256k1_gej)))
__CPROVER_requires(__CPROVER_r_ok(online_pubkeys, n_keys * sizeof(secp256k1_pubkey)) && __CPROVER_r_ok(offline_pubkeys, n_keys * sizeof(secp256k1_pubkey)) && __CPROVER_r_ok(sub_pubkey, sizeof(secp256k1_pubkey)))
__CPROVER_assigns(__CPROVER_object_upto(msg32, 32), __CPROVER_object_whole(keys), g_illegal, g_ck_n, g_ck_ret, g_ck_nkeys, g_ck_lists_match, g_ck_key_x0, g_ck_msg_k, g_ck_sub_b)
__CPROVER_ensures(__CPROVER_return_value == 0 || __CPROVER_return_value == 1)
__CPROVER_ensures(g_ck_n == __CPROVER_old(g_ck_n) + 1 && g_ck_ret == __CPROVER_return_value && g_ck_nkeys == n_keys &&
                  g_ck_lists_match == (online_pubkeys == g_ck_online_expect && offline_pubkeys == g_ck_offline_expect))
__CPROVER_ensures(g_el_b < 64 ==> g_ck_sub_b == sub_pubkey->data[g_el_b])
__CPROVER_ensures(g_el_i < (size_t)n_keys ==> g_ck_key_x0 == keys[g_el_i].x.n[0])
__CPROVER_ensures(g_el_k < 32 ==> g_ck_msg_k == msg32[g_el_k])
__CPROVER_ensures(g_illegal >= __CPROVER_old(g_illegal))
;
#endif

/* ------------------------------- secp256k1_surjection_compute_public_keys (PROVED: C11.compute_pubkeys) */
#ifdef EL_SJ_PUBKEYS
/* Ring keys (output tag minus selected input tag) are oracle values; what the callers rely on is the
 * frame, the count/padding precondition and the ring position of the real input.  The real function
 * always returns 1; the contract lets it fail so that the callers' handling of 0 is an obligation. */
int g_pk_n, g_pk_ret, g_pk_tags_match, g_pk_ring_null; size_t g_pk_npub, g_pk_ntags, g_pk_input_index, g_pk_ring;
const secp256k1_generator *g_pk_tags_expect;    /* harness only; symbolic-length list identified by address */
uint64_t g_pk_key_x0; unsigned char g_pk_out_b, g_pk_used_k;
static int secp256k1_surjection_compute_public_keys(secp256k1_gej *pubkeys, size_t n_pubkeys, const secp256k1_generator *input_tags, size_t n_input_tags, const unsigned char *used_tags, const secp256k1_generator *output_tag, size_t input_index, size_t *ring_input_index)
__CPROVER_requires(n_pubkeys <= 256 && n_input_tags <= 256 && n_pubkeys <= n_input_tags && __CPROVER_w_ok(pubkeys, n_pubkeys * sizeof(secp256k1_gej)))
__CPROVER_requires(__CPROVER_r_ok(input_tags, n_input_tags * sizeof(secp256k1_generator)) && __CPROVER_r_ok(used_tags, (n_input_tags + 7) / 8) && __CPROVER_r_ok(output_tag, sizeof(secp256k1_generator)))
__CPROVER_requires(ring_input_index == NULL || __CPROVER_w_ok(ring_input_index, sizeof(size_t)))
/* the bitmap has no bit at a position >= n_input_tags, and n_pubkeys is its bit count (the value the
 * count_bits_set contract returned last, for this many bytes) */
__CPROVER_requires(n_input_tags % 8 == 0 || (used_tags[(n_input_tags + 7) / 8 - 1] >> (n_input_tags % 8)) == 0)
#ifdef EL_LOG_COUNT_BITS
__CPROVER_requires(n_pubkeys == g_cb_ret && g_cb_count == (n_input_tags + 7) / 8)
#endif
__CPROVER_assigns(__CPROVER_object_whole(pubkeys); ring_input_index != NULL: *ring_input_index;
                  g_pk_n, g_pk_ret, g_pk_tags_match, g_pk_ring_null, g_pk_npub, g_pk_ntags, g_pk_input_index, g_pk_ring, g_pk_key_x0, g_pk_out_b, g_pk_used_k)
__CPROVER_ensures(__CPROVER_return_value == 0 || __CPROVER_return_value == 1)
__CPROVER_ensures(ring_input_index != NULL ==> (*ring_input_index < n_pubkeys || *ring_input_index == __CPROVER_old(*ring_input_index)))
__CPROVER_ensures(g_pk_n == __CPROVER_old(g_pk_n) + 1 && g_pk_ret == __CPROVER_return_value && g_pk_npub == n_pubkeys && g_pk_ntags == n_input_tags &&
                  g_pk_input_index == input_index && g_pk_ring_null == (ring_input_index == NULL) &&
                  g_pk_tags_match == (input_tags == g_pk_tags_expect))
__CPROVER_ensures(g_el_b < 64 ==> g_pk_out_b == output_tag->data[g_el_b])
__CPROVER_ensures(g_el_k < (n_input_tags + 7) / 8 ==> g_pk_used_k == used_tags[g_el_k])
__CPROVER_ensures(ring_input_index != NULL ==> g_pk_ring == *ring_input_index)
__CPROVER_ensures(g_el_i < n_pubkeys ==> g_pk_key_x0 == pubkeys[g_el_i].x.n[0])
;
#endif

/* ---------------------------------------------- secp256k1_surjection_genmessage (PROVED: C11.genmessage) */
#ifdef EL_SJ_GENMSG
int g_gm_n, g_gm_tags_match; size_t g_gm_ntags; unsigned char g_gm_msg_k, g_gm_out_b;
const secp256k1_generator *g_gm_tags_expect;     /* harness only; symbolic-length list identified by address */
static void secp256k1_surjection_genmessage(const secp256k1_hash_ctx *hash_ctx, unsigned char *msg32, const secp256k1_generator *ephemeral_input_tags, size_t n_input_tags, const secp256k1_generator *ephemeral_output_tag)
__CPROVER_requires(hash_ctx != NULL && __CPROVER_w_ok(msg32, 32) && __CPROVER_r_ok(ephemeral_input_tags, n_input_tags * sizeof(secp256k1_generator)) && __CPROVER_r_ok(ephemeral_output_tag, sizeof(secp256k1_generator)))
__CPROVER_assigns(__CPROVER_object_upto(msg32, 32), g_gm_n, g_gm_tags_match, g_gm_ntags, g_gm_msg_k, g_gm_out_b)
__CPROVER_ensures(g_gm_n == __CPROVER_old(g_gm_n) + 1 && g_gm_ntags == n_input_tags && g_gm_tags_match == (ephemeral_input_tags == g_gm_tags_expect))
__CPROVER_ensures(g_el_b < 64 ==> g_gm_out_b == ephemeral_output_tag->data[g_el_b])
__CPROVER_ensures(g_el_k < 32 ==> g_gm_msg_k == msg32[g_el_k])
;
#endif

/* ================================= C08: generator / Pedersen oracles (algebraic residue) ================ */
/* on-curve verdict for an x coordinate (x^3 + 7 is a square): ORACLE with verdict log (last call) */
#ifdef EL_X_ON_CURVE
int g_oc_n, g_oc_ret; secp256k1_fe g_oc_x;
static int secp256k1_ge_x_on_curve_var(const secp256k1_fe *x)
__CPROVER_requires(__CPROVER_r_ok(x, sizeof(*x)) && fe_mag(x, 1))
__CPROVER_assigns(g_oc_n, g_oc_ret, g_oc_x)
__CPROVER_ensures(__CPROVER_return_value == 0 || __CPROVER_return_value == 1)
__CPROVER_ensures(g_oc_n == __CPROVER_old(g_oc_n) + 1 && g_oc_ret == __CPROVER_return_value && FE_EQ(g_oc_x, *x))
;
#endif
/* lift x to the curve point with square y: ORACLE (square root) with verdict log.  r->x = *x and
 * r->infinity = 0 are structural facts of the body (two assignments), PROVED by C08.set_xquad_frame. */
#ifdef EL_SET_XQUAD
int g_xq_n, g_xq_ret; secp256k1_fe g_xq_x; secp256k1_ge g_xq_r;
#ifdef EL_SET_XQUAD_WATCH         /* result of call number g_el_i (ghost fixed by the harness) */
secp256k1_ge g_xq_wr;
#endif
static int secp256k1_ge_set_xquad(secp256k1_ge *r, const secp256k1_fe *x)
__CPROVER_requires(__CPROVER_w_ok(r, sizeof(*r)) && __CPROVER_r_ok(x, sizeof(*x)) && fe_mag(x, 1))
#ifdef EL_SET_XQUAD_WATCH
__CPROVER_assigns(*r, g_xq_n, g_xq_ret, g_xq_x, g_xq_r, g_xq_wr)
__CPROVER_ensures((size_t)__CPROVER_old(g_xq_n) == g_el_i ? GE_EQ(g_xq_wr, *r) : GE_KEEP(g_xq_wr))
#else
__CPROVER_assigns(*r, g_xq_n, g_xq_ret, g_xq_x, g_xq_r)
#endif
__CPROVER_ensures(__CPROVER_return_value == 0 || __CPROVER_return_value == 1)
__CPROVER_ensures(r->infinity == 0 && FE_EQ_OLD(r->x, *x) && fe_mag(&r->y, 1))
__CPROVER_ensures(g_xq_n == __CPROVER_old(g_xq_n) + 1 && g_xq_ret == __CPROVER_return_value && FE_EQ_OLD(g_xq_x, *x) && GE_EQ(g_xq_r, *r))
;
#endif
/* quadratic-residue verdict: ORACLE with verdict log (last call).  Without -DVERIFY the name
 * secp256k1_fe_is_square_var is a macro for secp256k1_fe_impl_is_square_var. */
#ifdef EL_IS_SQUARE
int g_sq_n, g_sq_ret; secp256k1_fe g_sq_x;
static int secp256k1_fe_impl_is_square_var(const secp256k1_fe *x)
__CPROVER_requires(__CPROVER_r_ok(x, sizeof(*x)) && fe_mag(x, 8))
__CPROVER_assigns(g_sq_n, g_sq_ret, g_sq_x)
__CPROVER_ensures(__CPROVER_return_value == 0 || __CPROVER_return_value == 1)
__CPROVER_ensures(g_sq_n == __CPROVER_old(g_sq_n) + 1 && g_sq_ret == __CPROVER_return_value && FE_EQ(g_sq_x, *x))
;
#endif
/* bG + vH: ORACLE with argument/result log (single call) */
#ifdef EL_PEDERSEN_ECMULT
#include "src/modules/generator/pedersen.h"
int g_pe_n; secp256k1_scalar g_pe_sec; uint64_t g_pe_value; secp256k1_ge g_pe_genp; secp256k1_gej g_pe_r;
static void secp256k1_pedersen_ecmult(const secp256k1_ecmult_gen_context *ecmult_gen_ctx, secp256k1_gej *rj, const secp256k1_scalar *sec, uint64_t value, const secp256k1_ge* genp)
__CPROVER_requires(ecmult_gen_ctx != NULL && __CPROVER_w_ok(rj, sizeof(*rj)) && __CPROVER_r_ok(sec, sizeof(*sec)) && scalar_ok(sec) && __CPROVER_r_ok(genp, sizeof(*genp)) && ge_ok(genp) && !genp->infinity)
__CPROVER_assigns(*rj, g_pe_n, g_pe_sec, g_pe_value, g_pe_genp, g_pe_r)
__CPROVER_ensures(gej_ok(rj))
__CPROVER_ensures(g_pe_n == __CPROVER_old(g_pe_n) + 1 && SC_EQ_OLD(g_pe_sec, *sec) && g_pe_value == value && GE_EQ_OLD(g_pe_genp, *genp) && GEJ_EQ(g_pe_r, *rj))
;
#endif

/* ================================= C16: whitelist helpers ============================================== */
/* H(ser33(P)) as a scalar: ORACLE (hash output; fails for infinity / out-of-range digest), verdict logged */
#ifdef EL_WL_HASH_PUBKEY
int g_hp_n, g_hp_ret; secp256k1_scalar g_hp_out;
static int secp256k1_whitelist_hash_pubkey(const secp256k1_hash_ctx *hash_ctx, secp256k1_scalar* output, secp256k1_gej* pubkey)
__CPROVER_requires(hash_ctx != NULL && __CPROVER_w_ok(output, sizeof(*output)) && __CPROVER_rw_ok(pubkey, sizeof(*pubkey)) && gej_ok(pubkey))
__CPROVER_assigns(*output, *pubkey, g_hp_n, g_hp_ret, g_hp_out)
__CPROVER_ensures((__CPROVER_return_value == 0 || __CPROVER_return_value == 1) && (__CPROVER_return_value == 1 ==> scalar_ok(output)) && gej_ok(pubkey))
__CPROVER_ensures(g_hp_n == __CPROVER_old(g_hp_n) + 1 && g_hp_ret == __CPROVER_return_value && SC_EQ(g_hp_out, *output))
;
#endif

/* group addition (mixed, variable time): ORACLE, frame + representation range only.
 * EL_GEJ_ADD_GE_VAR_LOG: call counter, and for call number g_el_i (a ghost fixed by the harness) its
 * operands and the byte offset of its destination inside the destination's object. */
#ifdef EL_GEJ_ADD_GE_VAR
#ifdef EL_GEJ_ADD_GE_VAR_LOG
size_t g_aj_n, g_aj_roff; secp256k1_gej g_aj_a, g_aj_r; secp256k1_ge g_aj_b; int g_aj_seen;
#ifdef EL_GEJ_ADD_GE_VAR_CHAIN     /* additionally: operands and result of call number g_el_i - 1, result of the last call */
secp256k1_gej g_aj_prev, g_aj_last, g_aj_pa; secp256k1_ge g_aj_pb;
#endif
#endif
static void secp256k1_gej_add_ge_var(secp256k1_gej *r, const secp256k1_gej *a, const secp256k1_ge *b, secp256k1_fe *rzr)
__CPROVER_requires(__CPROVER_w_ok(r, sizeof(*r)) && __CPROVER_r_ok(a, sizeof(*a)) && __CPROVER_r_ok(b, sizeof(*b)) && rzr == NULL && gej_ok(a) && ge_ok(b))
#ifdef EL_GEJ_ADD_GE_VAR_LOG
#ifdef EL_GEJ_ADD_GE_VAR_CHAIN
__CPROVER_assigns(*r, g_aj_n, g_aj_roff, g_aj_a, g_aj_r, g_aj_b, g_aj_seen, g_aj_prev, g_aj_last, g_aj_pa, g_aj_pb)
__CPROVER_ensures(GEJ_EQ(g_aj_last, *r))
__CPROVER_ensures(__CPROVER_old(g_aj_n) + 1 == g_el_i ? (GEJ_EQ(g_aj_prev, *r) && GEJ_EQ_OLD(g_aj_pa, *a) && GE_EQ_OLD(g_aj_pb, *b)) : (GEJ_KEEP(g_aj_prev) && GEJ_KEEP(g_aj_pa) && GE_KEEP(g_aj_pb)))
#else
__CPROVER_assigns(*r, g_aj_n, g_aj_roff, g_aj_a, g_aj_r, g_aj_b, g_aj_seen)
#endif
__CPROVER_ensures(g_aj_n == __CPROVER_old(g_aj_n) + 1)
__CPROVER_ensures(__CPROVER_old(g_aj_n) == g_el_i
    ? (g_aj_seen == 1 && g_aj_roff == __CPROVER_POINTER_OFFSET(r) && GEJ_EQ_OLD(g_aj_a, *a) && GE_EQ_OLD(g_aj_b, *b) && GEJ_EQ(g_aj_r, *r))
    : (g_aj_seen == __CPROVER_old(g_aj_seen) && g_aj_roff == __CPROVER_old(g_aj_roff) && GEJ_KEEP(g_aj_a) && GE_KEEP(g_aj_b) && GEJ_KEEP(g_aj_r)))
#else
__CPROVER_assigns(*r)
#endif
__CPROVER_ensures(gej_ok(r))
;
#endif
/* P -> H(P) * P: ORACLE (hash to scalar, ecmult); leaves the point alone or replaces it, in representation range */
#ifdef EL_WL_TWEAK_PUBKEY
/* EL_WL_TWEAK_LOG: input and output point of call number g_el_t (ghost fixed by the harness) */
#ifdef EL_WL_TWEAK_LOG
size_t g_tw_n, g_el_t; secp256k1_gej g_tw_in, g_tw_out;
#endif
static int secp256k1_whitelist_tweak_pubkey(const secp256k1_hash_ctx *hash_ctx, secp256k1_gej* pub_tweaked)
__CPROVER_requires(hash_ctx != NULL && __CPROVER_rw_ok(pub_tweaked, sizeof(*pub_tweaked)) && gej_ok(pub_tweaked))
#ifdef EL_WL_TWEAK_LOG
__CPROVER_assigns(*pub_tweaked, g_tw_n, g_tw_in, g_tw_out)
__CPROVER_ensures(g_tw_n == __CPROVER_old(g_tw_n) + 1)
__CPROVER_ensures(__CPROVER_old(g_tw_n) == g_el_t ? (GEJ_EQ_OLD(g_tw_in, *pub_tweaked) && GEJ_EQ(g_tw_out, *pub_tweaked)) : (GEJ_KEEP(g_tw_in) && GEJ_KEEP(g_tw_out)))
#else
__CPROVER_assigns(*pub_tweaked)
#endif
__CPROVER_ensures((__CPROVER_return_value == 0 || __CPROVER_return_value == 1) && gej_ok(pub_tweaked))
;
#endif

/* hash-to-curve map (Shallue - van de Woestijne): ORACLE; inputs and outputs of the first two calls logged */
#ifdef EL_SVDW
int g_sv_n; secp256k1_fe g_sv_t0, g_sv_t1; secp256k1_ge g_sv_r0, g_sv_r1;
static void shallue_van_de_woestijne(secp256k1_ge* ge, const secp256k1_fe* t)
__CPROVER_requires(__CPROVER_w_ok(ge, sizeof(*ge)) && __CPROVER_r_ok(t, sizeof(*t)) && fe_mag(t, 1))
__CPROVER_assigns(*ge, g_sv_n, g_sv_t0, g_sv_t1, g_sv_r0, g_sv_r1)
__CPROVER_ensures(fe_mag(&ge->x, 4) && fe_mag(&ge->y, 2) && ge->infinity == 0 && g_sv_n == __CPROVER_old(g_sv_n) + 1)   /* real body: x is a cmov of values of magnitude <= 4, y a negate(1) result */
__CPROVER_ensures(__CPROVER_old(g_sv_n) == 0 ? (FE_EQ_OLD(g_sv_t0, *t) && GE_EQ(g_sv_r0, *ge)) : (FE_KEEP(g_sv_t0) && GE_KEEP(g_sv_r0)))
__CPROVER_ensures(__CPROVER_old(g_sv_n) == 1 ? (FE_EQ_OLD(g_sv_t1, *t) && GE_EQ(g_sv_r1, *ge)) : (FE_KEEP(g_sv_t1) && GE_KEEP(g_sv_r1)))
;
#endif
/* group additions (mixed; constant- and variable-time helper share ONE log, so the helper choice is free):
 * ORACLE; call counter, operands and result of the first two calls, result of the last call */
#ifdef EL_GEJ_ADD_GE
int g_ag_n; secp256k1_gej g_ag_last, g_ag_a0, g_ag_a1, g_ag_r0, g_ag_r1; secp256k1_ge g_ag_b0, g_ag_b1;
#define AG_SLOT(k) __CPROVER_ensures(__CPROVER_old(g_ag_n) == k ? (GEJ_EQ_OLD(g_ag_a##k, *a) && GE_EQ_OLD(g_ag_b##k, *b) && GEJ_EQ(g_ag_r##k, *r)) : (GEJ_KEEP(g_ag_a##k) && GE_KEEP(g_ag_b##k) && GEJ_KEEP(g_ag_r##k)))
#define AG_CONTRACT \
__CPROVER_assigns(*r, g_ag_n, g_ag_last, g_ag_a0, g_ag_a1, g_ag_r0, g_ag_r1, g_ag_b0, g_ag_b1) \
__CPROVER_ensures(gej_ok(r) && g_ag_n == __CPROVER_old(g_ag_n) + 1 && GEJ_EQ(g_ag_last, *r)) \
AG_SLOT(0) AG_SLOT(1)
static void secp256k1_gej_add_ge(secp256k1_gej *r, const secp256k1_gej *a, const secp256k1_ge *b)
__CPROVER_requires(__CPROVER_w_ok(r, sizeof(*r)) && __CPROVER_r_ok(a, sizeof(*a)) && __CPROVER_r_ok(b, sizeof(*b)) && gej_ok(a) && ge_ok(b) && !b->infinity)
AG_CONTRACT;
#ifndef EL_GEJ_ADD_GE_VAR
static void secp256k1_gej_add_ge_var(secp256k1_gej *r, const secp256k1_gej *a, const secp256k1_ge *b, secp256k1_fe *rzr)
__CPROVER_requires(__CPROVER_w_ok(r, sizeof(*r)) && __CPROVER_r_ok(a, sizeof(*a)) && __CPROVER_r_ok(b, sizeof(*b)) && rzr == NULL && gej_ok(a) && ge_ok(b))
AG_CONTRACT;
#endif
#endif

/* -------------------------------- secp256k1_surjection_genrand (ORACLE: hash-derived scalars) ---------- */
#ifdef EL_SJ_GENRAND
int g_gr_n, g_gr_ret; size_t g_gr_ns; secp256k1_scalar g_gr_key, g_gr_s_i;
static int secp256k1_surjection_genrand(const secp256k1_hash_ctx *hash_ctx, secp256k1_scalar *s, size_t ns, const secp256k1_scalar *blinding_key)
__CPROVER_requires(hash_ctx != NULL && ns <= 256 && __CPROVER_w_ok(s, ns * sizeof(secp256k1_scalar)) && __CPROVER_r_ok(blinding_key, sizeof(*blinding_key)) && scalar_ok(blinding_key))
__CPROVER_assigns(__CPROVER_object_whole(s), g_gr_n, g_gr_ret, g_gr_ns, g_gr_key, g_gr_s_i)
__CPROVER_ensures(__CPROVER_return_value == 0 || __CPROVER_return_value == 1)
__CPROVER_ensures(g_gr_n == __CPROVER_old(g_gr_n) + 1 && g_gr_ret == __CPROVER_return_value && g_gr_ns == ns && SC_EQ(g_gr_key, *blinding_key))
__CPROVER_ensures((__CPROVER_return_value == 1 && g_el_i < ns) ==> (scalar_ok(&s[g_el_i]) && SC_EQ(g_gr_s_i, s[g_el_i])))
#ifdef EL_SJ_PUBKEYS   /* ... and at the ring position the key computation reported (the caller takes its nonce from there) */
__CPROVER_ensures((__CPROVER_return_value == 1 && g_pk_ring < ns) ==> scalar_ok(&s[g_pk_ring]))
#endif
;
#endif

/* -------------------------------- secp256k1_borromean_sign, single ring (ORACLE) ------------------------ */
#ifdef EL_BORROMEAN_SIGN
int g_bs_n, g_bs_ret; size_t g_bs_nrings, g_bs_rsize0, g_bs_secidx0, g_bs_mlen;
secp256k1_scalar g_bs_k, g_bs_sec, g_bs_s_i; unsigned char g_bs_m_k, g_bs_e0_k; uint64_t g_bs_pub_x0;
static int secp256k1_borromean_sign(const secp256k1_hash_ctx *hash_ctx, const secp256k1_ecmult_gen_context *ecmult_gen_ctx,
 unsigned char *e0, secp256k1_scalar *s, const secp256k1_gej *pubs, const secp256k1_scalar *k, const secp256k1_scalar *sec,
 const size_t *rsizes, const size_t *secidx, size_t nrings, const unsigned char *m, size_t mlen)
__CPROVER_requires(hash_ctx != NULL && ecmult_gen_ctx != NULL && nrings == 1 && __CPROVER_r_ok(rsizes, sizeof(size_t)) && __CPROVER_r_ok(secidx, sizeof(size_t)) && rsizes[0] <= 256 && secidx[0] < rsizes[0])
__CPROVER_requires(__CPROVER_w_ok(e0, 32) && __CPROVER_r_ok(m, mlen) && mlen == 32 && __CPROVER_r_ok(k, sizeof(*k)) && scalar_ok(k) && __CPROVER_r_ok(sec, sizeof(*sec)) && scalar_ok(sec))
__CPROVER_requires(__CPROVER_rw_ok(s, rsizes[0] * sizeof(secp256k1_scalar)) && __CPROVER_r_ok(pubs, rsizes[0] * sizeof(secp256k1_gej)))
#ifndef EL_BORROMEAN_SIGN_RELAXED   /* (whitelist_sign unit: the loop contracts of its retry loops do not carry scalar ranges) */
__CPROVER_requires((g_el_i < rsizes[0] && g_el_i != secidx[0]) ==> scalar_ok(&s[g_el_i]))
#endif
__CPROVER_assigns(__CPROVER_object_upto(e0, 32), __CPROVER_object_whole(s), g_bs_n, g_bs_ret, g_bs_nrings, g_bs_rsize0, g_bs_secidx0, g_bs_mlen, g_bs_k, g_bs_sec, g_bs_s_i, g_bs_m_k, g_bs_e0_k, g_bs_pub_x0)
__CPROVER_ensures(__CPROVER_return_value == 0 || __CPROVER_return_value == 1)
__CPROVER_ensures(g_bs_n == __CPROVER_old(g_bs_n) + 1 && g_bs_ret == __CPROVER_return_value && g_bs_nrings == nrings && g_bs_rsize0 == rsizes[0] && g_bs_secidx0 == secidx[0] && g_bs_mlen == mlen &&
                  SC_EQ(g_bs_k, *k) && SC_EQ(g_bs_sec, *sec))
__CPROVER_ensures(g_el_i < rsizes[0] ==> (scalar_ok(&s[g_el_i]) && SC_EQ(g_bs_s_i, s[g_el_i]) && g_bs_pub_x0 == pubs[g_el_i].x.n[0]))
__CPROVER_ensures(g_el_k < 32 ==> (g_bs_m_k == m[g_el_k] && g_bs_e0_k == e0[g_el_k]))
;
#endif

/* ---------------- secp256k1_whitelist_compute_tweaked_privkey (PROVED: C16.sign_key_gate) --------------- */
#ifdef EL_WL_TWEAKED_PRIVKEY
#ifndef VERIF_NATIVE
static inline int el_key_bad(const unsigned char *k32) { wide v = be256(k32); return v == 0 || v >= N_(); }
#endif
int g_tp_n, g_tp_ret; secp256k1_scalar g_tp_skey; unsigned char g_tp_online_k, g_tp_summed_k;
static int secp256k1_whitelist_compute_tweaked_privkey(const secp256k1_context* ctx, secp256k1_scalar* skey, const unsigned char *online_key, const unsigned char *summed_key)
__CPROVER_requires(ctx != NULL && __CPROVER_w_ok(skey, sizeof(*skey)) && __CPROVER_r_ok(online_key, 32) && __CPROVER_r_ok(summed_key, 32))
__CPROVER_assigns(*skey, g_tp_n, g_tp_ret, g_tp_skey, g_tp_online_k, g_tp_summed_k)
__CPROVER_ensures((__CPROVER_return_value == 0 || __CPROVER_return_value == 1) && (__CPROVER_return_value == 1 ==> scalar_ok(skey)))
__CPROVER_ensures((el_key_bad(online_key) || el_key_bad(summed_key)) ==> __CPROVER_return_value == 0)
__CPROVER_ensures(g_tp_n == __CPROVER_old(g_tp_n) + 1 && g_tp_ret == __CPROVER_return_value && SC_EQ(g_tp_skey, *skey))
__CPROVER_ensures(g_el_k < 32 ==> (g_tp_online_k == online_key[g_el_k] && g_tp_summed_k == summed_key[g_el_k]))
;
#endif
/* RFC 6979 nonce function: ORACLE (HMAC-DRBG output), writes 32 bytes, may fail */
#ifdef EL_NONCE_RFC6979
/* EL_NONCE_BUDGET: bounded exploration of the callers' retry loops (they have no bound of their own) */
int g_nf_n;
static int nonce_function_rfc6979(unsigned char *nonce32, const unsigned char *msg32, const unsigned char *key32, const unsigned char *algo16, void *data, unsigned int counter)
__CPROVER_requires(__CPROVER_w_ok(nonce32, 32) && __CPROVER_r_ok(msg32, 32) && __CPROVER_r_ok(key32, 32))
__CPROVER_assigns(__CPROVER_object_upto(nonce32, 32), g_nf_n)
__CPROVER_ensures(__CPROVER_return_value == 0 || __CPROVER_return_value == 1)
#ifdef EL_NONCE_BUDGET
__CPROVER_ensures(g_nf_n == __CPROVER_old(g_nf_n) + 1 && g_nf_n <= EL_NONCE_BUDGET)
#else
__CPROVER_ensures(g_nf_n == __CPROVER_old(g_nf_n) + 1)
#endif
;
#endif

#endif

/* Contracts used by the C19 (Bulletproofs++ norm argument / generators / scratch) units and by the
 * C07 "misc" parser units.  Select with #define BP_<NAME> before the include.
 *
 *  ASSUMED oracles (algebraic residue; frame + representation invariant of inputs/outputs + return in
 *  {0,1} + optional ghost log; no algebraic fact):
 *     secp256k1_ge_set_xquad, secp256k1_ge_set_xo_var, secp256k1_fe_impl_is_square_var,
 *     secp256k1_ge_is_valid_var, secp256k1_ge_x_on_curve_var, secp256k1_scalar_sqr,
 *     secp256k1_eckey_pubkey_parse (argument bytes / size / verdict log), secp256k1_gej_eq_var (verdict log),
 *     secp256k1_ellswift_swiftec_var, secp256k1_ellswift_xswiftec_frac_var, secp256k1_ecmult_const_xonly.
 *     (secp256k1_ecmult_multi_var and secp256k1_scratch_alloc are replaced by MODELS WITH A BODY in
 *     harness/C19/verify.c; the reasons are given there.)
 *  Contracts PROVED by a unit of these properties and re-used as call-site abstraction:
 *     secp256k1_generator_parse        (C19.generator_parse_frame: frame and 0/1 enforced on the real body; C07.generator_parse: API behaviour)
 *     secp256k1_generator_serialize    (C19.generator_serialize: frame, returns 1; C08 owns the codec)
 *     secp256k1_generator_save / _load (C19.generator_save / C19.generator_load: frames)
 *  libc: memset with a symbolic length replaced by a contract (BP_MEMSET), like memcpy in DESIGN 2.4.
 */
#ifndef VERIF_ASSUMED_BPPP_H
#define VERIF_ASSUMED_BPPP_H

#include "assumed.h"
/* squaring is not in assumed.h: same oracle shape as secp256k1_scalar_mul there */
# ifdef BP_SCALAR_SQR
static void secp256k1_scalar_sqr(secp256k1_scalar *r, const secp256k1_scalar *a)
__CPROVER_requires(__CPROVER_w_ok(r, sizeof(*r)) && __CPROVER_r_ok(a, sizeof(*a)) && scalar_ok(a))
__CPROVER_assigns(*r)
__CPROVER_ensures(scalar_ok(r))
;
# endif

/* ---- memset with a symbolic length (scratch_alloc, generators_serialize): CBMC's built-in model costs
 * minutes on a symbolic-size object; replaced by a contract in the style of the memcpy contract of
 * DESIGN 2.4: the requires clause IS the bounds obligation at every call site, the frame is the exact
 * byte range, content is stated through a ghost index the code never assigns. ---- */
#ifdef BP_MEMSET
size_t g_ms_idx;
void *memset(void *s, int c, size_t n)
__CPROVER_requires(n == 0 || __CPROVER_w_ok(s, n))
__CPROVER_assigns(__CPROVER_object_upto(s, n))
__CPROVER_ensures(__CPROVER_return_value == s)
__CPROVER_ensures(g_ms_idx < n ==> ((unsigned char *)s)[g_ms_idx] == (unsigned char)c)
;
#endif

/* ---- lift x to a curve point (square root inside): oracle ---- */
#ifdef BP_SET_XQUAD
static int secp256k1_ge_set_xquad(secp256k1_ge *r, const secp256k1_fe *x)
__CPROVER_requires(__CPROVER_w_ok(r, sizeof(*r)) && __CPROVER_r_ok(x, sizeof(*x)) && fe_mag(x, 8))
__CPROVER_assigns(*r)
__CPROVER_ensures(__CPROVER_return_value == 0 || __CPROVER_return_value == 1)
__CPROVER_ensures(r->infinity == 0 && FE_EQ_OLD(r->x, *x) && fe_mag(&r->y, 1))
;
#endif
#ifdef BP_SET_XO
static int secp256k1_ge_set_xo_var(secp256k1_ge *r, const secp256k1_fe *x, int odd)
__CPROVER_requires(__CPROVER_w_ok(r, sizeof(*r)) && __CPROVER_r_ok(x, sizeof(*x)) && fe_mag(x, 8))
__CPROVER_assigns(*r)
__CPROVER_ensures(__CPROVER_return_value == 0 || __CPROVER_return_value == 1)
__CPROVER_ensures(r->infinity == 0 && FE_EQ_OLD(r->x, *x) && fe_mag(&r->y, 2))   /* y is negated (magnitude 2) when its parity differs from `odd` */
;
#endif
#ifdef BP_IS_SQUARE
static int secp256k1_fe_impl_is_square_var(const secp256k1_fe *x)
__CPROVER_requires(__CPROVER_r_ok(x, sizeof(*x)) && fe_mag(x, 8))
__CPROVER_assigns()
__CPROVER_ensures(__CPROVER_return_value == 0 || __CPROVER_return_value == 1)
;
#endif

/* ---- further group / ElligatorSwift oracles used by the C07 misc parser units ---- */
#ifdef BP_GE_IS_VALID
static int secp256k1_ge_is_valid_var(const secp256k1_ge *a)
__CPROVER_requires(__CPROVER_r_ok(a, sizeof(*a)) && ge_ok(a))
__CPROVER_assigns()
__CPROVER_ensures(__CPROVER_return_value == 0 || __CPROVER_return_value == 1)
;
#endif
#ifdef BP_X_ON_CURVE
static int secp256k1_ge_x_on_curve_var(const secp256k1_fe *x)
__CPROVER_requires(__CPROVER_r_ok(x, sizeof(*x)) && fe_mag(x, 8))
__CPROVER_assigns()
__CPROVER_ensures(__CPROVER_return_value == 0 || __CPROVER_return_value == 1)
;
#endif
#ifdef BP_ELLSWIFT
/* swiftec: (u, t) -> curve point; defined for every (u, t), never infinity (frame + representation only) */
static void secp256k1_ellswift_swiftec_var(secp256k1_ge *p, const secp256k1_fe *u, const secp256k1_fe *t)
__CPROVER_requires(__CPROVER_w_ok(p, sizeof(*p)) && __CPROVER_r_ok(u, sizeof(*u)) && __CPROVER_r_ok(t, sizeof(*t)) && fe_mag(u, 1) && fe_canon(t))
__CPROVER_assigns(*p)
__CPROVER_ensures(ge_ok(p) && p->infinity == 0)    /* ends in ge_set_xo_var: y magnitude up to 2 */
;
static void secp256k1_ellswift_xswiftec_frac_var(secp256k1_fe *xn, secp256k1_fe *xd, const secp256k1_fe *u, const secp256k1_fe *t)
__CPROVER_requires(__CPROVER_w_ok(xn, sizeof(*xn)) && __CPROVER_w_ok(xd, sizeof(*xd)) && __CPROVER_r_ok(u, sizeof(*u)) && __CPROVER_r_ok(t, sizeof(*t)) && fe_mag(u, 1) && fe_mag(t, 1))
__CPROVER_assigns(*xn, *xd)
__CPROVER_ensures(fe_mag(xn, 32) && fe_mag(xd, 32))
;
static int secp256k1_ecmult_const_xonly(secp256k1_fe *r, const secp256k1_fe *n, const secp256k1_fe *d, const secp256k1_scalar *q, int known_on_curve)
__CPROVER_requires(__CPROVER_w_ok(r, sizeof(*r)) && __CPROVER_r_ok(n, sizeof(*n)) && fe_mag(n, 32) && (d == NULL || (__CPROVER_r_ok(d, sizeof(*d)) && fe_mag(d, 32))) && __CPROVER_r_ok(q, sizeof(*q)) && scalar_ok(q))
__CPROVER_assigns(*r)
__CPROVER_ensures((__CPROVER_return_value == 0 || __CPROVER_return_value == 1) && fe_mag(r, 32))
;
#endif

/* ---- 33/65-byte public key decoding: oracle with (bytes, size, verdict) log of the first call.
 * g_pp_k is a watch index the code never assigns: "the byte at g_pp_k" for arbitrary g_pp_k is a
 * statement about every byte handed to the decoder. ---- */
#ifdef BP_PUBKEY_PARSE
int g_pp_n; size_t g_pp_k; size_t g_pp_size0; unsigned char g_pp_b0; int g_pp_v0;
static int secp256k1_eckey_pubkey_parse(secp256k1_ge *elem, const unsigned char *pub, size_t size)
__CPROVER_requires(__CPROVER_w_ok(elem, sizeof(*elem)) && (size == 0 || __CPROVER_r_ok(pub, size)))
__CPROVER_assigns(*elem, g_pp_n, g_pp_size0, g_pp_b0, g_pp_v0)
__CPROVER_ensures(__CPROVER_return_value == 0 || __CPROVER_return_value == 1)
__CPROVER_ensures(__CPROVER_return_value == 1 ==> (ge_ok(elem) && elem->infinity == 0))   /* y may have magnitude 2 (ge_set_xo_var) */
__CPROVER_ensures(g_pp_n == __CPROVER_old(g_pp_n) + 1)
__CPROVER_ensures(__CPROVER_old(g_pp_n) == 0 ==> (g_pp_size0 == size && g_pp_v0 == __CPROVER_return_value && (g_pp_k < size ==> g_pp_b0 == pub[g_pp_k])))
__CPROVER_ensures(__CPROVER_old(g_pp_n) != 0 ==> (g_pp_size0 == __CPROVER_old(g_pp_size0) && g_pp_v0 == __CPROVER_old(g_pp_v0) && g_pp_b0 == __CPROVER_old(g_pp_b0)))
;
#endif

/* ---- Jacobian equality (field multiplications inside): oracle ---- */
#ifdef BP_GEJ_EQ
int g_geq_n, g_geq_allok;    /* number of calls; all verdicts so far positive */
static int secp256k1_gej_eq_var(const secp256k1_gej *a, const secp256k1_gej *b)
__CPROVER_requires(__CPROVER_r_ok(a, sizeof(*a)) && __CPROVER_r_ok(b, sizeof(*b)) && gej_ok(a) && gej_ok(b))
__CPROVER_assigns(g_geq_n, g_geq_allok)
__CPROVER_ensures(__CPROVER_return_value == 0 || __CPROVER_return_value == 1)
__CPROVER_ensures(g_geq_n == __CPROVER_old(g_geq_n) + 1 && g_geq_allok == (__CPROVER_old(g_geq_allok) && __CPROVER_return_value == 1))
;
#endif

/* ---- generator (33-byte) parser: contract PROVED on the real body by C07.generator_parse
 * for non-NULL arguments; `valid generator` = both 32-byte halves are canonical field elements ---- */
#ifdef BP_GENERATOR_PARSE
int secp256k1_generator_parse(const secp256k1_context *ctx, secp256k1_generator *gen, const unsigned char *input)
__CPROVER_requires(ctx != NULL && __CPROVER_w_ok(gen, sizeof(*gen)) && __CPROVER_r_ok(input, 33))
__CPROVER_assigns(*gen)
__CPROVER_ensures(__CPROVER_return_value == 0 || __CPROVER_return_value == 1)
;
#endif
#ifdef BP_GENERATOR_SERIALIZE
int secp256k1_generator_serialize(const secp256k1_context *ctx, unsigned char *output, const secp256k1_generator *gen)
__CPROVER_requires(ctx != NULL && __CPROVER_w_ok(output, 33) && __CPROVER_r_ok(gen, sizeof(*gen)))
__CPROVER_assigns(__CPROVER_object_upto(output, 33))
__CPROVER_ensures(__CPROVER_return_value == 1)
;
#endif

/* ---- generator <-> group element conversion (field normalisation / byte conversion inside).  Frame
 * contracts PROVED on the real bodies by C19.generator_save / C19.generator_load; used so that the list
 * functions, which apply them to element i of a heap array for symbolic i, stay cheap. ---- */
#ifdef BP_GENERATOR_SAVE
static void secp256k1_generator_save(secp256k1_generator *gen, secp256k1_ge *ge)
__CPROVER_requires(__CPROVER_w_ok(gen, sizeof(*gen)) && __CPROVER_rw_ok(ge, sizeof(*ge)))
__CPROVER_assigns(*gen, ge->x, ge->y)
;
#endif
#ifdef BP_GENERATOR_LOAD
static void secp256k1_generator_load(secp256k1_ge *ge, const secp256k1_generator *gen)
__CPROVER_requires(__CPROVER_w_ok(ge, sizeof(*ge)) && __CPROVER_r_ok(gen, sizeof(*gen)))
__CPROVER_assigns(*ge)     /* frame only: a postcondition read back from element i of a symbolic-size heap array costs > 11 GB */
;
#endif

#endif

/* C05 (a)/(b): specification views for the arithmetic kernel, for BOTH limb layouts
 * (pre.h defines fe_mag/fe_canon/scalar_ok for the 5x52/4x64 layout only).
 * Everything here is written from the mathematical definition:
 *   value of a field element  = sum n[i] * 2^(52 i)  resp.  sum n[i] * 2^(26 i)     (fval, pre.h)
 *   value of a scalar         = sum d[i] * 2^(64 i)  resp.  sum d[i] * 2^(32 i)     (sval, pre.h)
 *   magnitude m (field.h)     = every limb <= 2 m (2^52-1) resp. 2 m (2^26-1), top limb 2 m (2^48-1) resp. 2 m (2^22-1)
 *   canonical / normalized    = every limb within its width and value < p
 *   a == b (mod p)            = |a-b| = k p for an explicit witness k (never a wide division)        */
#ifndef VERIF_SPEC_ARITH_H
#define VERIF_SPEC_ARITH_H
#include "pre.h"

#if defined(USE_FORCE_WIDEMUL_INT64)
# define SA_FE_NL 10
# define SA_FE_LIMB_MAX 0x3FFFFFFULL
# define SA_FE_TOP_MAX  0x03FFFFFULL
# define SA_FE_LIMB_BITS 26
# define SA_FE_TOP_BITS 22
# define SA_SC_NL 8
# define SA_SC_LIMB_BITS 32
# define SA_ST_NL 8
# define SA_ST_LIMB_BITS 32
typedef uint32_t sa_felimb;
#else
# define SA_FE_NL 5
# define SA_FE_LIMB_MAX 0xFFFFFFFFFFFFFULL
# define SA_FE_TOP_MAX  0x0FFFFFFFFFFFFULL
# define SA_FE_LIMB_BITS 52
# define SA_FE_TOP_BITS 48
# define SA_SC_NL 4
# define SA_SC_LIMB_BITS 64
# define SA_ST_NL 4
# define SA_ST_LIMB_BITS 64
typedef uint64_t sa_felimb;
#endif

/* limb bounds of magnitude m, 0 <= m <= 32 (field.h / secp256k1_fe_impl_verify) */
static inline int sa_fe_mag(const secp256k1_fe *a, int m) {
    int i, ok = 1;
    for (i = 0; i < SA_FE_NL - 1; i++) ok = ok && ((uint64_t)a->n[i] <= SA_FE_LIMB_MAX * 2 * (uint64_t)m);
    return ok && ((uint64_t)a->n[SA_FE_NL - 1] <= SA_FE_TOP_MAX * 2 * (uint64_t)m);
}
/* every limb within its width (the "magnitude 1, carry-free" shape that normalize must produce) */
static inline int sa_fe_limbs_tight(const secp256k1_fe *a) {
    int i, ok = 1;
    for (i = 0; i < SA_FE_NL - 1; i++) ok = ok && (((uint64_t)a->n[i] >> SA_FE_LIMB_BITS) == 0);
    return ok && (((uint64_t)a->n[SA_FE_NL - 1] >> SA_FE_TOP_BITS) == 0);
}
static inline int sa_fe_limbs_equal(const secp256k1_fe *a, const secp256k1_fe *b) {
    int i, ok = 1;
    for (i = 0; i < SA_FE_NL; i++) ok = ok && (a->n[i] == b->n[i]);
    return ok;
}

#ifndef VERIF_NATIVE
/* canonical = normalized representation of an integer in [0, p) */
static inline int sa_fe_canon(const secp256k1_fe *a) { return sa_fe_limbs_tight(a) && fval(a) < P_(); }
/* value of the packed storage form: 256-bit little-endian limb array */
static inline wide stval(const secp256k1_fe_storage *a) {
    wide v = 0; int i;
    for (i = SA_ST_NL - 1; i >= 0; i--) v = (v << SA_ST_LIMB_BITS) | W(a->n[i]);
    return v;
}
/* k * p for small k, p = 2^256 - 2^32 - 977, written with shifts only (977 = 0b1111010001) */
static inline wide sa_mulp(wide k) {
    return (k << 256) - ((k << 32) + (k << 9) + (k << 8) + (k << 7) + (k << 6) + (k << 4) + k);
}
/* quotient witness for |a-b| = k p: if d = k p with 0 < k < 2^60 then d >> 256 = k - 1 (because 0 < k (2^32+977) < 2^256) */
static inline wide sa_quot_p(wide a, wide b) {
    wide d = a >= b ? a - b : b - a;
    wide k = d >> 256;
    if (d != 0) k = k + 1;
    return k;
}
/* a == b (mod p), complete for a, b < 2^316 */
static inline int sa_cong_p(wide a, wide b) {
    wide d = a >= b ? a - b : b - a;
    return d == sa_mulp(sa_quot_p(a, b));
}
/* x mod n for x < 2 n */
static inline wide sa_mod_n_2(wide x) { return x >= N_() ? x - N_() : x; }
#endif /* !VERIF_NATIVE */
#endif

/* C05 r3 (eng_scalar): VALUE of secp256k1_scalar_mul_512 / sqr_512 / reduce_512 / scalar_mul (portable 4x64 C code, native __int128),
 * proved COMPOSITIONALLY relative to the 64x64->128 multiplier.
 *
 * The two one-line bodies that ARE the multiplier
 *      secp256k1_u128_mul(r,a,b):        *r = (uint128)a * b
 *      secp256k1_u128_accum_mul(r,a,b):  *r += (uint128)a * b
 * are replaced by contracts over ONE uninterpreted function symbol umul (__CPROVER_uninterpreted_r3umul):
 *      *r == umul(a,b)    resp.    *r == old(*r) + umul(a,b)   (mod 2^128)
 * constrained only by the RANGE axioms
 *   (B0) umul(a,b) <= (2^64-1)^2                                   for all a, b
 *   (B1) b in {NC0, NC1}  ==>  umul(a,b) <= (2^64-1) b             (NC0, NC1 = the two low limbs of 2^256 - n; both < 2^63)
 *   (E2) a <= 2 or b <= 2  ==>  umul(a,b) == a b  (written 0 / other / other << 1)   (reduce_512: the factors m6 <= 1 and p4 <= 2)
 * Every statement proved with these contracts holds for EVERY function umul satisfying (B0),(B1),(E2), in particular for the exact
 * product; that the exact product (= the real bodies) satisfies them is unit C05.r3_umul_model.  No algebraic law of
 * multiplication (commutativity, distributivity, ...) is stated or used.
 * This differs from assumed_C05.h (SA_UMUL) in that products by NC0/NC1 are NOT made exact in stages 1 and 2: with a pure
 * uninterpreted function the code side and the spec side share their products by congruence (x == y ==> umul(x,c) == umul(y,c)),
 * which is what lets the SAT query stay an adder-only problem. */
#ifndef VERIF_ASSUMED_R3_SCMUL_H
#define VERIF_ASSUMED_R3_SCMUL_H
#include "pre.h"

#ifndef VERIF_NATIVE
typedef unsigned __int128 r3_u128;
r3_u128 __CPROVER_uninterpreted_r3umul(uint64_t a, uint64_t b);
#define R3_NC0 0x402DA1732FC9BEBFULL
#define R3_NC1 0x4551231950B75FC4ULL
#define R3_M64 0xFFFFFFFFFFFFFFFFULL
#define R3_UMUL(a, b) __CPROVER_uninterpreted_r3umul(a, b)
#define R3_ISNC(x) ((x) == R3_NC0 || (x) == R3_NC1)
/* the axioms, as a predicate of a candidate product value v for operands (a,b) */
#define R3_SMALL(s, o) ((s) == 0 ? (r3_u128)0 : (s) == 1 ? (r3_u128)(o) : ((r3_u128)(o)) << 1)
#define R3_AX_V(v, a, b) ( (v) <= ((((r3_u128)0xFFFFFFFFFFFFFFFEULL) << 64) | 1) \
                        && ((b) == R3_NC0 ==> (v) <= (r3_u128)R3_M64 * R3_NC0) \
                        && ((b) == R3_NC1 ==> (v) <= (r3_u128)R3_M64 * R3_NC1) \
                        && ((a) <= 2 ==> (v) == R3_SMALL(a, b)) \
                        && ((b) <= 2 ==> (v) == R3_SMALL(b, a)) )
#define R3_AX(a, b) R3_AX_V(R3_UMUL(a, b), a, b)

#if !defined(SECP256K1_INT128_STRUCT) && !defined(USE_FORCE_WIDEMUL_INT64) && !defined(R3_NO_UMUL_CONTRACTS)
static SECP256K1_INLINE void secp256k1_u128_mul(secp256k1_uint128 *r, uint64_t a, uint64_t b)
__CPROVER_requires(__CPROVER_w_ok(r, sizeof(*r)))
__CPROVER_assigns(*r)
__CPROVER_ensures(*r == R3_UMUL(a, b))
__CPROVER_ensures(R3_AX(a, b))
;
static SECP256K1_INLINE void secp256k1_u128_accum_mul(secp256k1_uint128 *r, uint64_t a, uint64_t b)
__CPROVER_requires(__CPROVER_rw_ok(r, sizeof(*r)))
__CPROVER_assigns(*r)
__CPROVER_ensures(*r == __CPROVER_old(*r) + R3_UMUL(a, b))
__CPROVER_ensures(R3_AX(a, b))
;
#endif

/* ---------------------------------------------------------------------------------------------------------------
 * Specification side.  All in fixed-width unsigned bit-vectors wide enough that nothing wraps. */
typedef unsigned __CPROVER_bitvector[192] r3_w192;
typedef unsigned __CPROVER_bitvector[704] r3_wide;
#define R3W(x) ((r3_wide)(x))
#define R3T(x) ((r3_w192)(x))

/* CARRY CHAIN of a column-wise multi-limb sum ("intermediate form").  Given addends x[0..cnt-1] with column numbers
 * colof[0..cnt-1] (non-decreasing, < ncol), all addends < 2^128:
 *      T := 0;  for k = 0..ncol-1:  T += every addend of column k (in the given order);  out[k] := T mod 2^64;  T := T >> 64
 * returns the carry left after the last column.  This is the textbook definition of adding numbers column by column; that
 *      sum_k out[k] 2^(64k) + carry 2^(64 ncol)  ==  sum_t x[t] 2^(64 colof[t])
 * is the pure lemma of units C05.r3_chain_lemma_* (no library code involved). */
static inline r3_w192 r3_chain(const r3_u128 *x, const unsigned char *colof, int cnt, int ncol, uint64_t *out) {
    r3_w192 T = 0; int k, t = 0;
    for (k = 0; k < ncol; k++) {
        while (t < cnt && colof[t] == k) { T = T + R3T(x[t]); t++; }
        out[k] = (uint64_t)T; T = T >> 64;
    }
    return T;
}
/* direct ("schoolbook") value of the same sum */
static inline r3_wide r3_sum(const r3_u128 *x, const unsigned char *colof, int cnt) {
    r3_wide S = 0; int t;
    for (t = 0; t < cnt; t++) S = S + (R3W(x[t]) << (64 * colof[t]));
    return S;
}
static inline r3_wide r3_limbs(const uint64_t *l, int n) {
    r3_wide L = 0; int i;
    for (i = n - 1; i >= 0; i--) L = (L << 64) | R3W(l[i]);
    return L;
}
#endif /* !VERIF_NATIVE */
#endif

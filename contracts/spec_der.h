/* C03 SPECIFICATION functions for the byte encodings of signatures and public keys.
 *
 * Written from the standards and the public headers, NOT from the code under verification:
 *   - ITU-T X.690 (07/2002) BER/DER: 8.1.2 identifier octets, 8.1.3 length octets, 8.3 INTEGER,
 *     8.9 SEQUENCE, 10.1 DER length forms;  ECDSA-Sig-Value ::= SEQUENCE { r INTEGER, s INTEGER } (SEC1 C.5)
 *   - SEC1 2.3.3/2.3.4 elliptic-curve-point <-> octet-string, SEC2 2.4.1 (p, n of secp256k1),
 *     BIP-340 (x-only keys), include/secp256k1.h.
 * Plain C over bytes (no `wide`), so the same text is compiled natively for counterexample replay.
 * Every loop has a literal bound. */
#ifndef VERIF_SPEC_DER_H
#define VERIF_SPEC_DER_H
#include <stddef.h>

/* SEC2 2.4.1 */
static const unsigned char SPEC_N_BE[32] = {
    0xFF,0xFF,0xFF,0xFF,0xFF,0xFF,0xFF,0xFF,0xFF,0xFF,0xFF,0xFF,0xFF,0xFF,0xFF,0xFE,
    0xBA,0xAE,0xDC,0xE6,0xAF,0x48,0xA0,0x3B,0xBF,0xD2,0x5E,0x8C,0xD0,0x36,0x41,0x41 };
static const unsigned char SPEC_P_BE[32] = {
    0xFF,0xFF,0xFF,0xFF,0xFF,0xFF,0xFF,0xFF,0xFF,0xFF,0xFF,0xFF,0xFF,0xFF,0xFF,0xFF,
    0xFF,0xFF,0xFF,0xFF,0xFF,0xFF,0xFF,0xFF,0xFF,0xFF,0xFF,0xFE,0xFF,0xFF,0xFC,0x2F };

/* a < b as 256-bit big-endian integers */
static int spec_lt_be32(const unsigned char *a, const unsigned char *b) {
    int i, lt = 0, decided = 0;
    for (i = 0; i < 32; i++) {
        if (!decided && a[i] != b[i]) { lt = a[i] < b[i]; decided = 1; }
    }
    return lt;
}
static int spec_is_zero32(const unsigned char *a) {
    int i, nz = 0;
    for (i = 0; i < 32; i++) nz |= a[i];
    return nz == 0;
}

/* ---- X.690 8.1.3 length octets, restricted by 10.1 (definite form, fewest octets) ----
 * b points at the first length octet, `avail` octets are present from there.
 * ok: the length octets are well formed; hdr: how many octets they occupy; val: the encoded length.
 * (Whether val octets of content are actually present is a matter of the enclosing element.) */
typedef struct { int ok; size_t hdr; size_t val; } spec_len;
static spec_len spec_der_len(const unsigned char *b, size_t avail) {
    spec_len o; unsigned n, i; size_t v = 0;
    o.ok = 0; o.hdr = 0; o.val = 0;
    if (avail < 1) return o;                     /* no length octet at all */
    if (b[0] < 0x80) {                           /* 8.1.3.4 short form: bit 8 zero, bits 7-1 the length */
        o.ok = 1; o.hdr = 1; o.val = b[0];
        return o;
    }
    if (b[0] == 0x80) return o;                  /* 8.1.3.6 indefinite form: excluded by 10.1 */
    if (b[0] == 0xFF) return o;                  /* 8.1.3.5 c): the value 11111111 shall not be used */
    n = b[0] & 0x7F;                             /* 8.1.3.5 b): number of subsequent length octets, 1..126 */
    if ((size_t)n > avail - 1) return o;         /* truncated inside the length octets */
    if (b[1] == 0) return o;                     /* 10.1: fewest octets => no leading zero octet */
    if (n > 8) return o;                         /* >= 2^64 with a non-zero leading octet: no such object exists */
    for (i = 1; i <= 8; i++) if (i <= n) v = (v << 8) | b[i];
    if (v < 128) return o;                       /* 10.1: must have used the short form */
    o.ok = 1; o.hdr = 1 + (size_t)n; o.val = v;
    return o;
}

/* ---- X.690 8.3 INTEGER, as one component of an ECDSA signature ----
 * ok: a well-formed DER INTEGER element starts at b and lies inside the avail octets;
 * total: octets occupied (identifier + length + contents);
 * moff, ml: where in b the magnitude octets (contents without the single possible leading 00) start, and how many;
 * inrange: the value v satisfies 0 <= v < n (group order).
 * spec_der_int_vbyte(b, I, i): octet i of the 32-byte big-endian value (zero when not inrange). */
typedef struct { int ok; size_t total; int inrange; size_t moff, ml; } spec_int;
static unsigned char spec_der_int_mbyte(const unsigned char *b, size_t moff, size_t ml, size_t i) {
    return (ml <= 32 && i >= 32 - ml) ? b[moff + i - (32 - ml)] : 0;   /* right-aligned in 32 octets */
}
static spec_int spec_der_int(const unsigned char *b, size_t avail) {
    spec_int o; spec_len L; size_t c; int i, neg, lt = 0, decided = 0;
    o.ok = 0; o.total = 0; o.inrange = 0; o.moff = 0; o.ml = 0;
    if (avail < 1 || b[0] != 0x02) return o;     /* 8.3.1 primitive, universal tag 2 => identifier octet 0x02 */
    L = spec_der_len(b + 1, avail - 1);
    if (!L.ok) return o;
    if (L.val == 0) return o;                    /* 8.3.1 contents: one or more octets */
    if (L.val > avail - 1 - L.hdr) return o;     /* contents truncated */
    c = 1 + L.hdr;                               /* contents start */
    if (L.val > 1) {                             /* 8.3.2 the first nine bits shall not all be zero / all be one */
        if (b[c] == 0x00 && (b[c + 1] & 0x80) == 0) return o;
        if (b[c] == 0xFF && (b[c + 1] & 0x80) != 0) return o;
    }
    o.ok = 1; o.total = 1 + L.hdr + L.val;
    neg = (b[c] & 0x80) != 0;                    /* 8.3.3 two's complement: top bit is the sign */
    if (b[c] == 0x00) { o.moff = c + 1; o.ml = L.val - 1; } else { o.moff = c; o.ml = L.val; }
    if (neg || o.ml > 32) return o;              /* negative, or >= 2^256 (the leading magnitude octet is non-zero) */
    for (i = 0; i < 32; i++) {                   /* value < n ? */
        unsigned char vb = spec_der_int_mbyte(b, o.moff, o.ml, (size_t)i);
        if (!decided && vb != SPEC_N_BE[i]) { lt = vb < SPEC_N_BE[i]; decided = 1; }
    }
    o.inrange = lt;
    return o;
}
static unsigned char spec_der_int_vbyte(const unsigned char *b, spec_int I, size_t i) {
    return I.inrange ? spec_der_int_mbyte(b, I.moff, I.ml, i) : 0;
}

/* ---- ECDSA-Sig-Value: SEQUENCE { r INTEGER, s INTEGER }, DER, exactly len octets ----
 * spec_sig_framing: identifier 0x30 (8.9.1 constructed, universal tag 16), DER length octets (*L), and the
 *   contents are exactly the rest of the input (not truncated, nothing after the SEQUENCE).
 * SPEC_SIG_OK: given the framing and the two INTEGER elements R (read at the start of the contents, limited to
 *   the contents) and S (read directly after R, limited to the rest of the contents): both well formed and
 *   nothing after S inside the SEQUENCE.
 * (Unit C03.der.sig_parse uses these two pieces verbatim, with R and S supplied by the proved contract of the
 *  integer parser; spec_der_sig below is the same formula with R and S computed by spec_der_int.) */
static int spec_sig_framing(const unsigned char *b, size_t len, spec_len *L) {
    L->ok = 0; L->hdr = 0; L->val = 0;
    if (len < 1 || b[0] != 0x30) return 0;
    *L = spec_der_len(b + 1, len - 1);
    if (!L->ok) return 0;
    return L->val == len - 1 - L->hdr;
}
#define SPEC_SIG_ROFF(L) (1 + (L).hdr)                    /* R starts here ... */
#define SPEC_SIG_RAVAIL(L) ((L).val)                      /* ... and may use this many octets */
#define SPEC_SIG_SOFF(L, R_) (1 + (L).hdr + (R_).total)   /* S starts directly after R ... */
#define SPEC_SIG_SAVAIL(L, R_) ((L).val - (R_).total)     /* ... and may use the rest of the contents */
#define SPEC_SIG_OK(framing, L, R_, S_) ((framing) && (R_).ok && (S_).ok && (R_).total + (S_).total == (L).val)
/* R, S: the two elements; roff, soff: where they start in b */
typedef struct { int ok; spec_int R, S; size_t roff, soff; } spec_sig;
static spec_sig spec_der_sig(const unsigned char *b, size_t len) {
    spec_sig o; spec_len L; int framing;
    o.ok = 0; o.roff = 0; o.soff = 0;
    o.R.ok = 0; o.R.total = 0; o.R.inrange = 0; o.R.moff = 0; o.R.ml = 0; o.S = o.R;
    framing = spec_sig_framing(b, len, &L);
    if (!framing) return o;
    o.roff = SPEC_SIG_ROFF(L);
    o.R = spec_der_int(b + o.roff, SPEC_SIG_RAVAIL(L));
    if (!o.R.ok) return o;
    o.soff = SPEC_SIG_SOFF(L, o.R);
    o.S = spec_der_int(b + o.soff, SPEC_SIG_SAVAIL(L, o.R));
    o.ok = SPEC_SIG_OK(framing, L, o.R, o.S);
    return o;
}
#define spec_der_sig_rbyte(b, S_, i) spec_der_int_vbyte((b) + (S_).roff, (S_).R, i)
#define spec_der_sig_sbyte(b, S_, i) spec_der_int_vbyte((b) + (S_).soff, (S_).S, i)

/* ---- DER encoding of a non-negative integer v < 2^256 (8.3: two's complement, fewest octets) ----
 * clen: number of content octets; cbyte(j): content octet j (j < clen) */
static size_t spec_der_int_nz(const unsigned char *v32) {           /* leading zero octets of the 32-byte magnitude */
    int i, nz = 0, run = 1;
    for (i = 0; i < 32; i++) { if (run && v32[i] == 0) nz++; else run = 0; }
    return (size_t)nz;
}
static size_t spec_der_int_clen(const unsigned char *v32) {
    size_t nz = spec_der_int_nz(v32);
    if (nz == 32) return 1;                                         /* zero is the single octet 00 */
    return (32 - nz) + ((v32[nz] & 0x80) ? 1 : 0);                  /* a 00 octet keeps the sign bit clear */
}
static unsigned char spec_der_int_cbyte(const unsigned char *v32, size_t j) {
    size_t nz = spec_der_int_nz(v32), pad;
    if (nz == 32) return 0x00;
    pad = (v32[nz] & 0x80) ? 1 : 0;
    if (pad && j == 0) return 0x00;
    return v32[nz + j - pad];
}
/* DER encoding of SEQUENCE { r INTEGER, s INTEGER }: total length and octet k (k < length) */
static size_t spec_der_sig_enc_len(const unsigned char *r32, const unsigned char *s32) {
    return 2 + (2 + spec_der_int_clen(r32)) + (2 + spec_der_int_clen(s32));
}
static unsigned char spec_der_sig_enc_byte(const unsigned char *r32, const unsigned char *s32, size_t k) {
    size_t lr = spec_der_int_clen(r32), ls = spec_der_int_clen(s32);
    if (k == 0) return 0x30;                                        /* SEQUENCE */
    if (k == 1) return (unsigned char)(4 + lr + ls);                /* <= 70 < 128: short form */
    if (k == 2) return 0x02;                                        /* INTEGER r */
    if (k == 3) return (unsigned char)lr;
    if (k < 4 + lr) return spec_der_int_cbyte(r32, k - 4);
    if (k == 4 + lr) return 0x02;                                   /* INTEGER s */
    if (k == 5 + lr) return (unsigned char)ls;
    return spec_der_int_cbyte(s32, k - 6 - lr);
}

/* ---- SEC1 2.3.4 octet-string -> point, syntactic part (everything except the curve equation) ----
 * form: 0 = not a public key encoding; 33 = compressed (02/03 || X); 65 = uncompressed (04 || X || Y) or
 * hybrid (06/07 || X || Y, ANSI X9.62 4.3.6: the low bit of the tag must equal the low bit of Y).
 * ybit: requested/declared parity of Y for the compressed form.
 * The remaining condition for acceptance is the curve-membership verdict (an oracle in the proof units). */
typedef struct { int form; int ybit; } spec_pk;
static spec_pk spec_pubkey_syntax(const unsigned char *b, size_t len) {
    spec_pk o; o.form = 0; o.ybit = 0;
    if (len == 33) {
        if (b[0] != 0x02 && b[0] != 0x03) return o;
        if (!spec_lt_be32(b + 1, SPEC_P_BE)) return o;          /* X is a field element: X < p */
        o.form = 33; o.ybit = b[0] & 1;
        return o;
    }
    if (len == 65) {
        if (b[0] != 0x04 && b[0] != 0x06 && b[0] != 0x07) return o;
        if (!spec_lt_be32(b + 1, SPEC_P_BE)) return o;
        if (!spec_lt_be32(b + 33, SPEC_P_BE)) return o;
        if (b[0] != 0x04 && (b[0] & 1) != (b[64] & 1)) return o;   /* hybrid: declared parity must match Y */
        o.form = 65; o.ybit = b[64] & 1;
        return o;
    }
    return o;
}

/* ---- views of the library's internal number representations as big-endian bytes ---- */
#if defined(USE_FORCE_WIDEMUL_INT64)
static void spec_scalar_be(const secp256k1_scalar *a, unsigned char *out) {
    int i; for (i = 0; i < 32; i++) out[i] = (unsigned char)(a->d[7 - i / 4] >> (24 - 8 * (i % 4)));
}
#else
static void spec_scalar_be(const secp256k1_scalar *a, unsigned char *out) {
    int i; for (i = 0; i < 32; i++) out[i] = (unsigned char)(a->d[3 - i / 8] >> (56 - 8 * (i % 8)));
}
/* canonical 5x52 field element (fe_canon) -> big-endian bytes: byte i holds bits [8*(31-i), 8*(31-i)+7] */
static void spec_fe_be(const secp256k1_fe *a, unsigned char *out) {
    int i;
    for (i = 0; i < 32; i++) {
        int bit = 8 * (31 - i), l = bit / 52, sh = bit % 52;
        uint64_t w = a->n[l] >> sh;
        if (sh > 44 && l < 4) w |= a->n[l + 1] << (52 - sh);
        out[i] = (unsigned char)(w & 0xFF);
    }
}
#endif
#endif

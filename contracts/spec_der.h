/* C03 SPECIFICATION functions for the byte encodings of signatures and public keys.
 *
 * Written from the standards and the public headers, NOT from the code under verification:
 *   - ITU-T X.690 (07/2002) BER/DER: 8.1.2 identifier octets, 8.1.3 length octets, 8.3 INTEGER,
 *     8.9 SEQUENCE, 10.1 DER length forms;  ECDSA-Sig-Value ::= SEQUENCE { r INTEGER, s INTEGER } (SEC1 C.5)
 *   - SEC1 2.3.3/2.3.4 elliptic-curve-point <-> octet-string, SEC2 2.4.1 (p, n of secp256k1),
 *     BIP-340 (x-only keys), include/secp256k1.h.
 * Plain C over bytes (no `wide`), so the same text is compiled natively for counterexample replay.
 * Every loop has a literal bound. */
#ifndef VERIF_SPEC_DER_H
#define VERIF_SPEC_DER_H
#include <stddef.h>

/* SEC2 2.4.1 */
static const unsigned char SPEC_N_BE[32] = {
    0xFF,0xFF,0xFF,0xFF,0xFF,0xFF,0xFF,0xFF,0xFF,0xFF,0xFF,0xFF,0xFF,0xFF,0xFF,0xFE,
    0xBA,0xAE,0xDC,0xE6,0xAF,0x48,0xA0,0x3B,0xBF,0xD2,0x5E,0x8C,0xD0,0x36,0x41,0x41 };
static const unsigned char SPEC_P_BE[32] = {
    0xFF,0xFF,0xFF,0xFF,0xFF,0xFF,0xFF,0xFF,0xFF,0xFF,0xFF,0xFF,0xFF,0xFF,0xFF,0xFF,
    0xFF,0xFF,0xFF,0xFF,0xFF,0xFF,0xFF,0xFF,0xFF,0xFF,0xFF,0xFE,0xFF,0xFF,0xFC,0x2F };

/* a < b as 256-bit big-endian integers */
static int spec_lt_be32(const unsigned char *a, const unsigned char *b) {
    int i, lt = 0, decided = 0;
    for (i = 0; i < 32; i++) {
        if (!decided && a[i] != b[i]) { lt = a[i] < b[i]; decided = 1; }
    }
    return lt;
}
static int spec_is_zero32(const unsigned char *a) {
    int i, nz = 0;
    for (i = 0; i < 32; i++) nz |= a[i];
    return nz == 0;
}

/* ---- X.690 8.1.3 length octets, restricted by 10.1 (definite form, fewest octets) ----
 * b points at the first length octet, `avail` octets are present from there.
 * ok: the length octets are well formed; hdr: how many octets they occupy; val: the encoded length.
 * (Whether val octets of content are actually present is a matter of the enclosing element.) */
typedef struct { int ok; size_t hdr; size_t val; } spec_len;
static spec_len spec_der_len(const unsigned char *b, size_t avail) {
    spec_len o; unsigned n, i; size_t v = 0;
    o.ok = 0; o.hdr = 0; o.val = 0;
    if (avail < 1) return o;                     /* no length octet at all */
    if (b[0] < 0x80) {                           /* 8.1.3.4 short form: bit 8 zero, bits 7-1 the length */
        o.ok = 1; o.hdr = 1; o.val = b[0];
        return o;
    }
    if (b[0] == 0x80) return o;                  /* 8.1.3.6 indefinite form: excluded by 10.1 */
    if (b[0] == 0xFF) return o;                  /* 8.1.3.5 c): the value 11111111 shall not be used */
    n = b[0] & 0x7F;                             /* 8.1.3.5 b): number of subsequent length octets, 1..126 */
    if ((size_t)n > avail - 1) return o;         /* truncated inside the length octets */
    if (b[1] == 0) return o;                     /* 10.1: fewest octets => no leading zero octet */
    if (n > 8) return o;                         /* >= 2^64 with a non-zero leading octet: no such object exists */
    for (i = 1; i <= 8; i++) if (i <= n) v = (v << 8) | b[i];
    if (v < 128) return o;                       /* 10.1: must have used the short form */
    o.ok = 1; o.hdr = 1 + (size_t)n; o.val = v;
    return o;
}

/* ---- X.690 8.3 INTEGER, as one component of an ECDSA signature ----
 * ok: a well-formed DER INTEGER element starts at b and lies inside the avail octets;
 * total: octets occupied (identifier + length + contents);
 * inrange: its value v satisfies 0 <= v < n (group order); v32: that value, big-endian (zero if not inrange). */
typedef struct { int ok; size_t total; int inrange; unsigned char v32[32]; } spec_int;
static spec_int spec_der_int(const unsigned char *b, size_t avail) {
    spec_int o; spec_len L; const unsigned char *c, *m; size_t ml; int i, neg;
    o.ok = 0; o.total = 0; o.inrange = 0;
    for (i = 0; i < 32; i++) o.v32[i] = 0;
    if (avail < 1 || b[0] != 0x02) return o;     /* 8.3.1 primitive, universal tag 2 => identifier octet 0x02 */
    L = spec_der_len(b + 1, avail - 1);
    if (!L.ok) return o;
    if (L.val == 0) return o;                    /* 8.3.1 contents: one or more octets */
    if (L.val > avail - 1 - L.hdr) return o;     /* contents truncated */
    c = b + 1 + L.hdr;
    if (L.val > 1) {                             /* 8.3.2 the first nine bits shall not all be zero / all be one */
        if (c[0] == 0x00 && (c[1] & 0x80) == 0) return o;
        if (c[0] == 0xFF && (c[1] & 0x80) != 0) return o;
    }
    o.ok = 1; o.total = 1 + L.hdr + L.val;
    neg = (c[0] & 0x80) != 0;                    /* 8.3.3 two's complement: top bit is the sign */
    if (c[0] == 0x00) { m = c + 1; ml = L.val - 1; } else { m = c; ml = L.val; }   /* magnitude octets, no leading zero */
    if (neg || ml > 32) return o;                /* negative, or >= 2^256 (leading magnitude octet is non-zero) */
    for (i = 0; i < 32; i++) o.v32[i] = ((size_t)i >= 32 - ml) ? m[(size_t)i - (32 - ml)] : 0;
    if (spec_lt_be32(o.v32, SPEC_N_BE)) { o.inrange = 1; return o; }
    for (i = 0; i < 32; i++) o.v32[i] = 0;
    return o;
}

/* ---- ECDSA-Sig-Value: SEQUENCE { r INTEGER, s INTEGER }, DER, exactly len octets ---- */
typedef struct { int ok; int r_in, s_in; unsigned char r[32], s[32]; } spec_sig;
static spec_sig spec_der_sig(const unsigned char *b, size_t len) {
    spec_sig o; spec_len L; spec_int R, S; int i;
    o.ok = 0; o.r_in = 0; o.s_in = 0;
    for (i = 0; i < 32; i++) { o.r[i] = 0; o.s[i] = 0; }
    if (len < 1 || b[0] != 0x30) return o;       /* 8.9.1 constructed, universal tag 16 => identifier octet 0x30 */
    L = spec_der_len(b + 1, len - 1);
    if (!L.ok) return o;
    if (L.val != len - 1 - L.hdr) return o;      /* contents truncated, or octets after the SEQUENCE */
    R = spec_der_int(b + 1 + L.hdr, L.val);
    if (!R.ok) return o;
    S = spec_der_int(b + 1 + L.hdr + R.total, L.val - R.total);
    if (!S.ok) return o;
    if (R.total + S.total != L.val) return o;    /* octets after s inside the SEQUENCE */
    o.ok = 1; o.r_in = R.inrange; o.s_in = S.inrange;
    for (i = 0; i < 32; i++) { o.r[i] = R.v32[i]; o.s[i] = S.v32[i]; }
    return o;
}

/* ---- DER encoding of a non-negative integer v < 2^256 (8.3: two's complement, fewest octets) ----
 * writes identifier, length, contents to out (at most 35 octets) and returns the count */
static size_t spec_der_int_enc(const unsigned char *v32, unsigned char *out) {
    int i, nz = 0, run = 1; size_t ml, pad, k;
    for (i = 0; i < 32; i++) { if (run && v32[i] == 0) nz++; else run = 0; }
    ml = 32 - (size_t)nz;                                   /* significant magnitude octets */
    out[0] = 0x02;
    if (ml == 0) { out[1] = 1; out[2] = 0x00; return 3; }   /* zero is the single octet 00 */
    pad = (v32[nz] & 0x80) ? 1 : 0;                         /* keep the sign bit clear */
    out[1] = (unsigned char)(ml + pad);
    if (pad) out[2] = 0x00;
    for (k = 0; k < 32; k++) if (k < ml) out[2 + pad + k] = v32[(size_t)nz + k];
    return 2 + pad + ml;
}
/* DER encoding of SEQUENCE { r, s } into out (at most 72 octets); returns the count */
static size_t spec_der_sig_enc(const unsigned char *r32, const unsigned char *s32, unsigned char *out) {
    unsigned char er[35], es[35]; size_t lr, ls, k;
    lr = spec_der_int_enc(r32, er);
    ls = spec_der_int_enc(s32, es);
    out[0] = 0x30;
    out[1] = (unsigned char)(lr + ls);                      /* <= 70 < 128: short form */
    for (k = 0; k < 35; k++) if (k < lr) out[2 + k] = er[k];
    for (k = 0; k < 35; k++) if (k < ls) out[2 + lr + k] = es[k];
    return 2 + lr + ls;
}

/* ---- SEC1 2.3.4 octet-string -> point, syntactic part (everything except the curve equation) ----
 * form: 0 = not a public key encoding; 33 = compressed (02/03 || X); 65 = uncompressed (04 || X || Y) or
 * hybrid (06/07 || X || Y, ANSI X9.62 4.3.6: the low bit of the tag must equal the low bit of Y).
 * ybit: requested/declared parity of Y for the compressed form.
 * The remaining condition for acceptance is the curve-membership verdict (an oracle in the proof units). */
typedef struct { int form; int ybit; } spec_pk;
static spec_pk spec_pubkey_syntax(const unsigned char *b, size_t len) {
    spec_pk o; o.form = 0; o.ybit = 0;
    if (len == 33) {
        if (b[0] != 0x02 && b[0] != 0x03) return o;
        if (!spec_lt_be32(b + 1, SPEC_P_BE)) return o;          /* X is a field element: X < p */
        o.form = 33; o.ybit = b[0] & 1;
        return o;
    }
    if (len == 65) {
        if (b[0] != 0x04 && b[0] != 0x06 && b[0] != 0x07) return o;
        if (!spec_lt_be32(b + 1, SPEC_P_BE)) return o;
        if (!spec_lt_be32(b + 33, SPEC_P_BE)) return o;
        if (b[0] != 0x04 && (b[0] & 1) != (b[64] & 1)) return o;   /* hybrid: declared parity must match Y */
        o.form = 65; o.ybit = b[64] & 1;
        return o;
    }
    return o;
}

/* ---- views of the library's internal number representations as big-endian bytes ---- */
#if defined(USE_FORCE_WIDEMUL_INT64)
static void spec_scalar_be(const secp256k1_scalar *a, unsigned char *out) {
    int i; for (i = 0; i < 32; i++) out[i] = (unsigned char)(a->d[7 - i / 4] >> (24 - 8 * (i % 4)));
}
#else
static void spec_scalar_be(const secp256k1_scalar *a, unsigned char *out) {
    int i; for (i = 0; i < 32; i++) out[i] = (unsigned char)(a->d[3 - i / 8] >> (56 - 8 * (i % 8)));
}
/* canonical 5x52 field element (fe_canon) -> big-endian bytes: byte i holds bits [8*(31-i), 8*(31-i)+7] */
static void spec_fe_be(const secp256k1_fe *a, unsigned char *out) {
    int i;
    for (i = 0; i < 32; i++) {
        int bit = 8 * (31 - i), l = bit / 52, sh = bit % 52;
        uint64_t w = a->n[l] >> sh;
        if (sh > 44 && l < 4) w |= a->n[l + 1] << (52 - sh);
        out[i] = (unsigned char)(w & 0xFF);
    }
}
#endif
#endif

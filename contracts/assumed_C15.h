/* C15 call-site contracts (same rules as assumed.h: frame + representation invariant + return range
 * + ghost log, no algebraic fact).
 *   secp256k1_ec_commit_seckey  LAST-CALL log; its hash wiring and tweak arithmetic are PROVED on the real
 *                               body by units C15.ec_commit_tweak / C15.ec_commit_seckey
 *   secp256k1_ec_commit         slot-0 log; hash wiring proved by C15.ec_commit_tweak, overflow gate by
 *                               C15.ec_commit; the point addition itself is the algebraic residue (ecmult)
 *   secp256k1_ecdsa_s2c_verify_commit / secp256k1_ecdsa_verify  verdict oracles for the host_verify lemma;
 *                               their gates are proved by C15.verify_commit / C01.verify_api */
#ifndef VERIF_ASSUMED_C15_H
#define VERIF_ASSUMED_C15_H
#include "assumed_C01.h"

#ifdef LOG_EC_COMMIT_SECKEY
struct { unsigned int n; int ret, used, first; secp256k1_scalar in, out; secp256k1_ge p; uint32_t s0, s7; uint64_t bytes;
         const unsigned char *data; size_t size; const secp256k1_hash_ctx *hctx; const secp256k1_sha256 *sha; } g_cs;   /* one object = one assigns target */
#define g_cs_n g_cs.n
#define g_cs_ret g_cs.ret
#define g_cs_used g_cs.used     /* sticky: 1 once any commitment attempt was made (harness resets it to 0 before the call under test) */
#define g_cs_first g_cs.first   /* 1 iff the logged (last) call was the first commitment attempt */
#define g_cs_in g_cs.in
#define g_cs_out g_cs.out
#define g_cs_p g_cs.p
#define g_cs_s0 g_cs.s0
#define g_cs_s7 g_cs.s7
#define g_cs_bytes g_cs.bytes
#define g_cs_data g_cs.data
#define g_cs_size g_cs.size
#define g_cs_hctx g_cs.hctx
#define g_cs_sha g_cs.sha
#define EC_COMMIT_SECKEY_GHOST g_cs
static int secp256k1_ec_commit_seckey(const secp256k1_hash_ctx *hash_ctx, secp256k1_scalar* seckey, secp256k1_ge* pubp, secp256k1_sha256* sha, const unsigned char *data, size_t data_size)
__CPROVER_requires(hash_ctx != NULL && __CPROVER_rw_ok(seckey, sizeof(*seckey)) && scalar_ok(seckey) && __CPROVER_rw_ok(pubp, sizeof(*pubp)) && ge_ok(pubp))
__CPROVER_requires(__CPROVER_rw_ok(sha, sizeof(*sha)) && __CPROVER_r_ok(data, data_size))
__CPROVER_assigns(*seckey, *pubp, *sha, g_cs)
__CPROVER_ensures(__CPROVER_return_value == 0 || __CPROVER_return_value == 1)
__CPROVER_ensures(scalar_ok(seckey) && ge_ok(pubp))
__CPROVER_ensures(g_cs_n == __CPROVER_old(g_cs_n) + 1 && g_cs_ret == __CPROVER_return_value && g_cs_data == data && g_cs_size == data_size && g_cs_hctx == hash_ctx && g_cs_sha == sha)
__CPROVER_ensures(g_cs_used == 1 && g_cs_first == (__CPROVER_old(g_cs_used) == 0))
__CPROVER_ensures(SC_EQ_OLD(g_cs_in, *seckey) && SC_EQ(g_cs_out, *seckey))
__CPROVER_ensures(FE_EQ_OLD(g_cs_p.x, pubp->x) && FE_EQ_OLD(g_cs_p.y, pubp->y) && g_cs_p.infinity == __CPROVER_old(pubp->infinity))
__CPROVER_ensures(g_cs_s0 == __CPROVER_old(sha->s[0]) && g_cs_s7 == __CPROVER_old(sha->s[7]) && g_cs_bytes == __CPROVER_old(sha->bytes))
;
#endif

#ifdef LOG_EC_COMMIT
int g_ec_n, g_ec_v0; secp256k1_ge g_ec_p0, g_ec_c0; uint32_t g_ec_s0, g_ec_s7; uint64_t g_ec_bytes;
const unsigned char *g_ec_data; size_t g_ec_size; const secp256k1_hash_ctx *g_ec_hctx;
static int secp256k1_ec_commit(const secp256k1_hash_ctx *hash_ctx, secp256k1_ge* commitp, const secp256k1_ge* pubp, secp256k1_sha256* sha, const unsigned char *data, size_t data_size)
__CPROVER_requires(hash_ctx != NULL && __CPROVER_w_ok(commitp, sizeof(*commitp)) && __CPROVER_r_ok(pubp, sizeof(*pubp)) && ge_ok(pubp))
__CPROVER_requires(__CPROVER_rw_ok(sha, sizeof(*sha)) && __CPROVER_r_ok(data, data_size))
__CPROVER_assigns(*commitp, *sha, g_ec_n, g_ec_v0, g_ec_p0, g_ec_c0, g_ec_s0, g_ec_s7, g_ec_bytes, g_ec_data, g_ec_size, g_ec_hctx)
__CPROVER_ensures(__CPROVER_return_value == 0 || __CPROVER_return_value == 1)
__CPROVER_ensures(ge_ok(commitp) && (__CPROVER_return_value == 1 ==> (ge_ok1(commitp) && !commitp->infinity)))
__CPROVER_ensures(g_ec_n == __CPROVER_old(g_ec_n) + 1)
__CPROVER_ensures(__CPROVER_old(g_ec_n) == 0 ==> (g_ec_v0 == __CPROVER_return_value && g_ec_data == data && g_ec_size == data_size && g_ec_hctx == hash_ctx &&
     GE_EQ(g_ec_p0, pubp) && GE_EQ(g_ec_c0, commitp) &&
     g_ec_s0 == __CPROVER_old(sha->s[0]) && g_ec_s7 == __CPROVER_old(sha->s[7]) && g_ec_bytes == __CPROVER_old(sha->bytes)))
__CPROVER_ensures(__CPROVER_old(g_ec_n) != 0 ==> (g_ec_v0 == __CPROVER_old(g_ec_v0) && g_ec_data == __CPROVER_old(g_ec_data) && g_ec_size == __CPROVER_old(g_ec_size) && g_ec_hctx == __CPROVER_old(g_ec_hctx) &&
     GE_KEEP(g_ec_p0) && GE_KEEP(g_ec_c0) && g_ec_s0 == __CPROVER_old(g_ec_s0) && g_ec_s7 == __CPROVER_old(g_ec_s7) && g_ec_bytes == __CPROVER_old(g_ec_bytes)))
;
#endif

#ifdef LOG_HOST_VERIFY_PARTS
int g_vc_n, g_vc_v, g_ev_n, g_ev_v, g_ev_after_vc;
const secp256k1_context *g_vc_ctx, *g_ev_ctx; const secp256k1_ecdsa_signature *g_vc_sig, *g_ev_sig; const unsigned char *g_vc_data, *g_ev_msg;
const secp256k1_ecdsa_s2c_opening *g_vc_open; const secp256k1_pubkey *g_ev_pk;
int secp256k1_ecdsa_s2c_verify_commit(const secp256k1_context* ctx, const secp256k1_ecdsa_signature* sig, const unsigned char* data32, const secp256k1_ecdsa_s2c_opening* opening)
__CPROVER_requires(ctx != NULL)
__CPROVER_assigns(g_vc_n, g_vc_v, g_vc_ctx, g_vc_sig, g_vc_data, g_vc_open)
__CPROVER_ensures(__CPROVER_return_value == 0 || __CPROVER_return_value == 1)
__CPROVER_ensures(g_vc_n == __CPROVER_old(g_vc_n) + 1 && g_vc_v == __CPROVER_return_value && g_vc_ctx == ctx && g_vc_sig == sig && g_vc_data == data32 && g_vc_open == opening)
;
int secp256k1_ecdsa_verify(const secp256k1_context* ctx, const secp256k1_ecdsa_signature *sig, const unsigned char *msghash32, const secp256k1_pubkey *pubkey)
__CPROVER_requires(ctx != NULL)
__CPROVER_assigns(g_ev_n, g_ev_v, g_ev_ctx, g_ev_sig, g_ev_msg, g_ev_pk, g_ev_after_vc)
__CPROVER_ensures(__CPROVER_return_value == 0 || __CPROVER_return_value == 1)
__CPROVER_ensures(g_ev_n == __CPROVER_old(g_ev_n) + 1 && g_ev_v == __CPROVER_return_value && g_ev_ctx == ctx && g_ev_sig == sig && g_ev_msg == msghash32 && g_ev_pk == pubkey && g_ev_after_vc == g_vc_n)
;
#endif
#ifdef LOG_PUBKEY_CODEC
/* secp256k1_ec_pubkey_parse / _serialize as logged pass-through targets for the opening codec (their spec: C03 units) */
int g_pp_n, g_pp_v, g_ps_n, g_ps_v; const secp256k1_context *g_pp_ctx, *g_ps_ctx; const void *g_pp_pk, *g_ps_pk; const unsigned char *g_pp_in, *g_ps_out;
size_t g_pp_len, g_ps_len_in; const size_t *g_ps_lenp; unsigned int g_ps_flags;
int secp256k1_ec_pubkey_parse(const secp256k1_context* ctx, secp256k1_pubkey* pubkey, const unsigned char *input, size_t inputlen)
__CPROVER_requires(ctx != NULL && __CPROVER_w_ok(pubkey, sizeof(*pubkey)) && __CPROVER_r_ok(input, inputlen))
__CPROVER_assigns(*pubkey, g_pp_n, g_pp_v, g_pp_ctx, g_pp_pk, g_pp_in, g_pp_len)
__CPROVER_ensures(__CPROVER_return_value == 0 || __CPROVER_return_value == 1)
__CPROVER_ensures(g_pp_n == __CPROVER_old(g_pp_n) + 1 && g_pp_v == __CPROVER_return_value && g_pp_ctx == ctx && g_pp_pk == pubkey && g_pp_in == input && g_pp_len == inputlen)
;
int secp256k1_ec_pubkey_serialize(const secp256k1_context* ctx, unsigned char *output, size_t *outputlen, const secp256k1_pubkey* pubkey, unsigned int flags)
__CPROVER_requires(ctx != NULL && __CPROVER_rw_ok(outputlen, sizeof(*outputlen)) && __CPROVER_w_ok(output, *outputlen) && __CPROVER_r_ok(pubkey, sizeof(*pubkey)))
__CPROVER_assigns(*outputlen, __CPROVER_object_upto(output, *outputlen), g_ps_n, g_ps_v, g_ps_ctx, g_ps_pk, g_ps_out, g_ps_len_in, g_ps_lenp, g_ps_flags)
__CPROVER_ensures(__CPROVER_return_value == 0 || __CPROVER_return_value == 1)
__CPROVER_ensures(g_ps_n == __CPROVER_old(g_ps_n) + 1 && g_ps_v == __CPROVER_return_value && g_ps_ctx == ctx && g_ps_pk == pubkey && g_ps_out == output && g_ps_len_in == __CPROVER_old(*outputlen) && g_ps_flags == flags)
;
#endif
#endif

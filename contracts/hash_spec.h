/* C05 (c) hashing: the ASSUMED compression oracle and the ghost logs used by harness/C05/hash_*.c.
 *
 * Layering of the hashing proofs (each layer is proved on the REAL code with the layer below
 * abstracted, no layer states anything about SHA-256 arithmetic):
 *
 *   L0  compression  f(state, block)               ASSUMED oracle  (verif_compress below)
 *   L1  secp256k1_sha256_transform  n_blocks loop  block i = blocks64 + 64 i            (hash_transform.c; loop contract in engine/units/C05_hash.py)
 *   L2  secp256k1_sha256_write / _finalize         stream -> block sequence, padding     (hash_write.c, hash_finalize.c)
 *   L3  stream contracts (this file, SHAS_*)       replace L2 in: hmac, tagged           (hash_hmac.c, hash_tagged.c)
 *   L4  hmac contracts (this file, HMACS_*)        replace hmac in: rfc6979              (hash_rfc6979.c)
 *
 * L0: the compression function reached through hash_ctx->fn_sha256_compression is an arbitrary
 * function of (state, blocks): it may write s[0..7] only, it is handed readable memory
 * blocks[0 .. 64 n), and it LOGS what it was handed:
 *   - g_c_calls / g_c_blocks: number of calls / block counter (blocks are numbered consecutively over
 *     all calls: a call with n blocks covers block numbers [g_c_blocks, g_c_blocks+n); harnesses start
 *     the counter at bytes/64 of the hash object so that block numbers are absolute stream block indices);
 *   - for the WATCHED (block number g_cw_blk, byte offset g_cw_off) - selectors the harness leaves
 *     unconstrained and nothing assigns - the byte at that position and how often the block number was delivered;
 *   - for the watched state word g_sk: whether every call read the value the previous call produced
 *     (state chaining, by value), and the value produced last (g_c_cur).
 * A statement about (g_cw_blk, g_cw_off) is a statement about every byte of every block. */
#ifndef VERIF_HASH_SPEC_H
#define VERIF_HASH_SPEC_H
#include "pre.h"

#ifndef VERIF_NATIVE
uint32_t nondet_u32_c(void);
#endif
size_t g_c_calls; uint64_t g_c_blocks;
uint64_t g_cw_blk; unsigned g_cw_off;             /* watch selectors: never assigned after the harness fixed them */
unsigned g_sk;                                    /* selector of ONE state word (< 8), never assigned by code or contracts */
int g_cw_hit; unsigned char g_cw_byte;
uint32_t g_c_cur;                                 /* value the watched state word must have when it next enters the compression function */
int g_c_chain_bad;                                /* a call whose input state word differs from g_c_cur (state not chained) */
int g_c_bad;                                      /* a call with n == 0 */
unsigned char *g_mc_base; size_t g_mc_doff;       /* memcpy model (below) */
unsigned char *g_mc_big; size_t g_mc_big_idx;
#define COMPLOG_RESET() do { g_c_calls = 0; g_c_blocks = 0; g_cw_hit = 0; g_cw_byte = 0; g_c_bad = 0; g_c_chain_bad = 0; } while (0)

/* The oracle states DATA FLOW by values, never by pointer identity or call count: which bytes it is handed
 * under which block number, and that the state word it reads is the one the previous call produced
 * (the harness seeds g_c_cur with the object's state word).  Any split of the blocks over calls passes. */
static void verif_compress(uint32_t *s, const unsigned char *blocks, size_t n) {
#ifndef VERIF_NATIVE
    int i; uint32_t v;
    __CPROVER_assert(__CPROVER_rw_ok(s, 32), "C05 compression oracle: state pointer is 8 writable words");
    __CPROVER_assert(n <= (SIZE_MAX >> 6) && (n == 0 || __CPROVER_r_ok(blocks, n * 64)), "C05 compression oracle: blocks[0..64n) is readable memory (nothing outside the caller's data is read)");
    if (n == 0) g_c_bad = 1;
    if (s[g_sk] != g_c_cur) g_c_chain_bad = 1;
    if (g_cw_blk >= g_c_blocks && g_cw_blk - g_c_blocks < n) {
        g_cw_hit++; g_cw_byte = blocks[(g_cw_blk - g_c_blocks) * 64 + g_cw_off];
    }
    g_c_blocks += n; g_c_calls++;
    for (i = 0; i < 8; i++) { v = nondet_u32_c(); s[i] = v; if ((unsigned)i == g_sk) g_c_cur = v; }
#else
    (void)s; (void)blocks; (void)n;
#endif
}

/* compression stub for the FRAME units (hash_frames.c): arbitrary function that reads blocks[0..64n) and
 * writes s[0..7] only, no log (so that it fits an assigns clause that lists just *hash) */
static void verif_compress_frame(uint32_t *s, const unsigned char *blocks, size_t n) {
#ifndef VERIF_NATIVE
    int i;
    __CPROVER_assert(__CPROVER_rw_ok(s, 32) && n <= (SIZE_MAX >> 6) && (n == 0 || __CPROVER_r_ok(blocks, n * 64)), "C05 compression stub: state writable, blocks[0..64n) readable");
    for (i = 0; i < 8; i++) s[i] = nondet_u32_c();
#else
    (void)s; (void)blocks; (void)n;
#endif
}

/* ---- L2 STREAM CONTRACT of secp256k1_sha256_write in terms of the compression log ---------------------
 * Block numbers are ABSOLUTE: the harness starts the log with g_c_blocks = bytes/64, so block number b of
 * the log is the b-th 64-byte block of the stream the object has absorbed, and the watch (g_cw_blk,
 * g_cw_off) is the absolute stream position WP = 64 g_cw_blk + g_cw_off.  Invariant (pre and post):
 * g_c_blocks == hash->bytes / 64.  With B0 = old bytes, B1 = B0 + len, o = g_cw_off and
 * stream(p) = old buf[p%64] for p < B0, data[p - B0] for p >= B0:
 *   (a) bytes' = B1;
 *   (b) the blocks B0/64 .. B1/64 - 1 and no others are handed to the compression function, each once, in
 *       order (g_c_blocks' = B1/64; the watched block is hit exactly once iff B0/64 <= g_cw_blk < B1/64),
 *       and the byte delivered at WP is stream(WP);
 *   (c) o < B1%64  ==>  buf'[o] = stream(64 (B1/64) + o);
 *   (d) state chaining by value: the object's state word g_sk enters the first compression call, each call
 *       reads what the previous one produced, the object ends with the last output (g_c_cur); no call is
 *       empty; a call happens iff a block completes; an empty write changes nothing.
 *   Nothing is said about the NUMBER of calls or how blocks are grouped into calls.
 * ENFORCED on the real code in C05.sha256_write_contract (--enforce-contract), REPLACES the call in the
 * lemma harnesses (split lemma, finalize).  g_cw_off doubles as the watched buf offset of (c). */
#ifdef HASH_SPEC_WRITE_CONTRACT
#define W_B0 __CPROVER_old(hash->bytes)
#define W_B1 (W_B0 + len)
#define W_WP (g_cw_blk * 64 + g_cw_off)
#define W_STREAM(p) ((p) < W_B0 ? __CPROVER_old(hash->buf[g_cw_off]) : data[(p) - W_B0])
static void secp256k1_sha256_write(const secp256k1_hash_ctx *hash_ctx, secp256k1_sha256 *hash, const unsigned char *data, size_t len)
__CPROVER_requires(__CPROVER_rw_ok(hash, sizeof(*hash)) && (len == 0 || __CPROVER_r_ok(data, len)) && __CPROVER_r_ok(hash_ctx, sizeof(*hash_ctx)))
__CPROVER_requires(hash_ctx->fn_sha256_compression == verif_compress)
__CPROVER_requires(hash->bytes <= UINT64_MAX - len)                                     /* the function's own precondition (VERIFY_CHECK) */
__CPROVER_requires(g_cw_off < 64 && g_sk < 8 && g_cw_blk <= (UINT64_MAX >> 6) && g_cw_hit >= 0 && g_cw_hit < 1000 && g_c_calls <= ((size_t)1 << 62))
__CPROVER_requires(g_c_blocks == hash->bytes / 64 && hash->s[g_sk] == g_c_cur)
__CPROVER_assigns(*hash, g_c_calls, g_c_blocks, g_cw_hit, g_cw_byte, g_c_cur, g_c_chain_bad, g_c_bad)
__CPROVER_ensures(hash->bytes == W_B1)
__CPROVER_ensures(g_c_blocks == W_B1 / 64)
__CPROVER_ensures((W_B0 / 64 <= g_cw_blk && g_cw_blk < W_B1 / 64)
    ? (g_cw_hit == __CPROVER_old(g_cw_hit) + 1 && g_cw_byte == W_STREAM(W_WP))
    : (g_cw_hit == __CPROVER_old(g_cw_hit) && g_cw_byte == __CPROVER_old(g_cw_byte)))
__CPROVER_ensures(g_cw_off < W_B1 % 64 ==> hash->buf[g_cw_off] == W_STREAM((W_B1 / 64) * 64 + g_cw_off))
__CPROVER_ensures(g_c_calls >= __CPROVER_old(g_c_calls) && g_c_calls - __CPROVER_old(g_c_calls) <= W_B1 / 64 - W_B0 / 64      /* no call is empty: at most one call per block */
    && g_c_bad == __CPROVER_old(g_c_bad) && g_c_chain_bad == __CPROVER_old(g_c_chain_bad))
__CPROVER_ensures((g_c_calls == __CPROVER_old(g_c_calls)) == (W_B1 / 64 == W_B0 / 64))       /* a compression call happens iff a block completes */
__CPROVER_ensures(hash->s[g_sk] == g_c_cur && (g_c_calls == __CPROVER_old(g_c_calls) ==> g_c_cur == __CPROVER_old(g_c_cur)))
__CPROVER_ensures(len == 0 ==> (hash->buf[g_cw_off] == __CPROVER_old(hash->buf[g_cw_off]) && g_c_calls == __CPROVER_old(g_c_calls)))
;
#endif

/* ---- CORE (non-ghost) contracts of secp256k1_sha256_write / _finalize ----------------------------------------
 * What every stream-level contract (contracts/hash_log.h, L3 below) says about the REAL effect of the two
 * functions once its ghost clauses are removed: pointer validity it needs, frame, byte counter.  ENFORCED on
 * the real bodies in C05.sha256_core_write / C05.sha256_core_finalize (compression = frame stub); used,
 * replaced, by the units that enforce the L4 HMAC contracts. */
#ifdef HASH_SPEC_CORE_CONTRACTS
static void secp256k1_sha256_write(const secp256k1_hash_ctx *hash_ctx, secp256k1_sha256 *hash, const unsigned char *data, size_t len)
__CPROVER_requires(__CPROVER_rw_ok(hash, sizeof(*hash)) && (len == 0 || __CPROVER_r_ok(data, len)) && hash_ctx != NULL)
__CPROVER_requires(hash->bytes <= UINT64_MAX - len)
__CPROVER_assigns(*hash)
__CPROVER_ensures(hash->bytes == __CPROVER_old(hash->bytes) + len)
;
static void secp256k1_sha256_finalize(const secp256k1_hash_ctx *hash_ctx, secp256k1_sha256 *hash, unsigned char *out32)
__CPROVER_requires(__CPROVER_rw_ok(hash, sizeof(*hash)) && __CPROVER_w_ok(out32, 32) && hash_ctx != NULL)
__CPROVER_assigns(*hash, __CPROVER_object_upto(out32, 32))
;
#endif

/* ---- L3 STREAM CONTRACTS of secp256k1_sha256_write / _finalize with a ghost write log -----------------
 * Same idea as hash_log.h (a hash object = the byte stream written into it, position = the object's own
 * counter hash->bytes, epoch = number of finalize calls executed so far), extended for code that runs
 * SEVERAL hash objects at once (HMAC inner/outer) and feeds digests back into hashes:
 *   selectors (fixed by the harness, assigned by nothing): g_swe epoch, g_swobj object (NULL = any),
 *     g_swpos stream position, g_sdk digest byte index (< 32);
 *   write log:  for a write in epoch g_swe to object g_swobj covering position g_swpos: hit count and the
 *     byte; for a write at position 0 (stream start) in that epoch/object: count and whether the state
 *     words were the SHA-256 initial value;
 *   finalize log, slots 0..3 by finalize index: object, stream length (old bytes), digest byte at g_sdk.
 * The digest itself is unconstrained (the contracts say nothing about SHA-256 values); frames:
 * write assigns *hash, finalize assigns *hash and out32[0..32).  The requires/assigns/non-ghost ensures are
 * ENFORCED verbatim on (ghost bookkeeping code + the real function) in C05.shas_write_frame /
 * C05.shas_finalize_frame (hash_frames.c); the MEANING of the log (digest = function of start state and
 * stream under the compression oracle) is the stream lemma + padding lemma of the L2 units. */
#ifdef HASH_SPEC_STREAM_CONTRACTS
int g_sfin_n; int g_swe; const secp256k1_sha256 *g_swobj; uint64_t g_swpos; unsigned g_sdk;
int g_sw_hit; unsigned char g_sw_byte; int g_sw_started, g_sw_iv;
/* object identity as an integer (object number, offset): DFCC havocs POINTER-typed assigns targets of a
 * replaced contract to one fixed "invalid pointer" symbol per variable, so a pointer-typed ghost that two
 * calls constrain differently makes everything after the second call unreachable (caught by REACH). */
#define SHAS_ID(p) (((uint64_t)__CPROVER_POINTER_OBJECT(p) << 52) | (uint64_t)__CPROVER_POINTER_OFFSET(p))
uint64_t g_sf_obj0, g_sf_obj1, g_sf_obj2, g_sf_obj3;
uint64_t g_sf_end0, g_sf_end1, g_sf_end2, g_sf_end3;
unsigned char g_sf_byte0, g_sf_byte1, g_sf_byte2, g_sf_byte3;
#define SHAS_RESET() do { g_sfin_n = 0; g_sw_hit = 0; g_sw_byte = 0; g_sw_started = 0; g_sw_iv = 0; \
    g_sf_obj0 = g_sf_obj1 = g_sf_obj2 = g_sf_obj3 = 0; g_sf_end0 = g_sf_end1 = g_sf_end2 = g_sf_end3 = 0; \
    g_sf_byte0 = g_sf_byte1 = g_sf_byte2 = g_sf_byte3 = 0; } while (0)
#define SHAS_SEL (g_sfin_n == g_swe && (g_swobj == NULL || g_swobj == hash))
#define SHAS_OLD_IS_IV(h) (__CPROVER_old((h)->s[0]) == 0x6a09e667ul && __CPROVER_old((h)->s[1]) == 0xbb67ae85ul && __CPROVER_old((h)->s[2]) == 0x3c6ef372ul && __CPROVER_old((h)->s[3]) == 0xa54ff53aul && \
                           __CPROVER_old((h)->s[4]) == 0x510e527ful && __CPROVER_old((h)->s[5]) == 0x9b05688cul && __CPROVER_old((h)->s[6]) == 0x1f83d9abul && __CPROVER_old((h)->s[7]) == 0x5be0cd19ul)
static void secp256k1_sha256_write(const secp256k1_hash_ctx *hash_ctx, secp256k1_sha256 *hash, const unsigned char *data, size_t len)
__CPROVER_requires(__CPROVER_rw_ok(hash, sizeof(*hash)) && (len == 0 || __CPROVER_r_ok(data, len)) && hash_ctx != NULL)
__CPROVER_requires(hash->bytes <= UINT64_MAX - len)
__CPROVER_requires(g_sw_hit >= 0 && g_sw_hit < 1000 && g_sw_started >= 0 && g_sw_started < 1000)
__CPROVER_assigns(*hash, g_sw_hit, g_sw_byte, g_sw_started, g_sw_iv)
__CPROVER_ensures(hash->bytes == __CPROVER_old(hash->bytes) + len)
__CPROVER_ensures((SHAS_SEL && __CPROVER_old(hash->bytes) == 0)
    ? (g_sw_started == __CPROVER_old(g_sw_started) + 1 && g_sw_iv == SHAS_OLD_IS_IV(hash))
    : (g_sw_started == __CPROVER_old(g_sw_started) && g_sw_iv == __CPROVER_old(g_sw_iv)))
__CPROVER_ensures((SHAS_SEL && __CPROVER_old(hash->bytes) <= g_swpos && g_swpos - __CPROVER_old(hash->bytes) < len)
    ? (g_sw_hit == __CPROVER_old(g_sw_hit) + 1 && g_sw_byte == data[g_swpos - __CPROVER_old(hash->bytes)])
    : (g_sw_hit == __CPROVER_old(g_sw_hit) && g_sw_byte == __CPROVER_old(g_sw_byte)))
;
#define SHAS_FSLOT(i) \
  __CPROVER_ensures(__CPROVER_old(g_sfin_n) == i \
    ? (g_sf_obj##i == SHAS_ID(hash) && g_sf_end##i == __CPROVER_old(hash->bytes) && g_sf_byte##i == out32[g_sdk]) \
    : (g_sf_obj##i == __CPROVER_old(g_sf_obj##i) && g_sf_end##i == __CPROVER_old(g_sf_end##i) && g_sf_byte##i == __CPROVER_old(g_sf_byte##i)))
static void secp256k1_sha256_finalize(const secp256k1_hash_ctx *hash_ctx, secp256k1_sha256 *hash, unsigned char *out32)
__CPROVER_requires(__CPROVER_rw_ok(hash, sizeof(*hash)) && __CPROVER_w_ok(out32, 32) && hash_ctx != NULL)
__CPROVER_requires(hash->bytes < ((uint64_t)1 << 61) && g_sdk < 32 && g_sfin_n >= 0 && g_sfin_n < 1000)
__CPROVER_assigns(*hash, __CPROVER_object_upto(out32, 32), g_sfin_n, g_sf_obj0, g_sf_obj1, g_sf_obj2, g_sf_obj3, g_sf_end0, g_sf_end1, g_sf_end2, g_sf_end3, g_sf_byte0, g_sf_byte1, g_sf_byte2, g_sf_byte3)
__CPROVER_ensures(g_sfin_n == __CPROVER_old(g_sfin_n) + 1)
SHAS_FSLOT(0) SHAS_FSLOT(1) SHAS_FSLOT(2) SHAS_FSLOT(3)
;
#endif

/* ---- L4 HMAC CONTRACTS with a ghost log of HMAC computations (used by hash_rfc6979.c) -----------------
 * An HMAC computation = initialize(key); write*; finalize.  Epoch = number of hmac finalize calls so far.
 * The message position of a write is the object's own inner counter minus the 64-byte pad block.
 *   selectors: g_hwe epoch, g_hwpos message position, g_hkk key byte index, g_hdk digest byte index (< 32);
 *   initialize log (epoch g_hwe): number of initializations, key length, key byte at g_hkk;
 *   write log (epoch g_hwe): hit count and byte at message position g_hwpos;
 *   finalize log: message length of epoch g_hwe; digest byte at g_hdk of epochs g_hwe (cur), g_hwe-1 (prev),
 *     g_hwe-2 (prev2) and of the most recent computation (last) - enough to state "this key / this message
 *     is the output of that earlier HMAC".
 * Digest values are unconstrained.  The contracts are ENFORCED verbatim on (ghost bookkeeping code + the real
 * hmac function, its SHA calls replaced by the enforced CORE contracts) in C05.hmacs_*_frame (hash_frames.c);
 * what the real functions hash is C05.hmac_initialize/_write/_finalize. */
#ifdef HASH_SPEC_HMAC_CONTRACTS
int g_hfin_n; int g_hwe; uint64_t g_hwpos; unsigned g_hkk, g_hdk;
int g_hk_n; size_t g_hk_len; unsigned char g_hk_byte;
int g_hw_hit; unsigned char g_hw_byte;
uint64_t g_hf_len; unsigned char g_hf_cur, g_hf_prev, g_hf_prev2, g_hf_last;
size_t verif_oi;   /* ghost output index used by the loop invariant of rfc6979_generate (RFC_GEN_LOOP in engine/units/C05_hash.py) */
#define HMACS_RESET() do { g_hfin_n = 0; g_hk_n = 0; g_hk_len = 0; g_hk_byte = 0; g_hw_hit = 0; g_hw_byte = 0; \
    g_hf_len = 0; g_hf_cur = g_hf_prev = g_hf_prev2 = g_hf_last = 0; } while (0)
static void secp256k1_hmac_sha256_initialize(const secp256k1_hash_ctx *hash_ctx, secp256k1_hmac_sha256 *hash, const unsigned char *key, size_t keylen)
__CPROVER_requires(__CPROVER_rw_ok(hash, sizeof(*hash)) && (keylen == 0 || __CPROVER_r_ok(key, keylen)) && hash_ctx != NULL)
__CPROVER_requires(g_hk_n >= 0 && g_hk_n < (1 << 30))
__CPROVER_assigns(*hash, g_hk_n, g_hk_len, g_hk_byte)
__CPROVER_ensures(hash->inner.bytes == 64 && hash->outer.bytes == 64)
__CPROVER_ensures(g_hfin_n == g_hwe
    ? (g_hk_n == __CPROVER_old(g_hk_n) + 1 && g_hk_len == keylen && g_hk_byte == (g_hkk < keylen ? key[g_hkk] : __CPROVER_old(g_hk_byte)))
    : (g_hk_n == __CPROVER_old(g_hk_n) && g_hk_len == __CPROVER_old(g_hk_len) && g_hk_byte == __CPROVER_old(g_hk_byte)))
;
static void secp256k1_hmac_sha256_write(const secp256k1_hash_ctx *hash_ctx, secp256k1_hmac_sha256 *hash, const unsigned char *data, size_t size)
__CPROVER_requires(__CPROVER_rw_ok(hash, sizeof(*hash)) && (size == 0 || __CPROVER_r_ok(data, size)) && hash_ctx != NULL)
__CPROVER_requires(hash->inner.bytes >= 64 && hash->inner.bytes <= UINT64_MAX - size && g_hw_hit >= 0 && g_hw_hit < (1 << 30))
__CPROVER_assigns(hash->inner, g_hw_hit, g_hw_byte)
__CPROVER_ensures(hash->inner.bytes == __CPROVER_old(hash->inner.bytes) + size)
__CPROVER_ensures((g_hfin_n == g_hwe && __CPROVER_old(hash->inner.bytes) - 64 <= g_hwpos && g_hwpos - (__CPROVER_old(hash->inner.bytes) - 64) < size)
    ? (g_hw_hit == __CPROVER_old(g_hw_hit) + 1 && g_hw_byte == data[g_hwpos - (__CPROVER_old(hash->inner.bytes) - 64)])
    : (g_hw_hit == __CPROVER_old(g_hw_hit) && g_hw_byte == __CPROVER_old(g_hw_byte)))
;
static void secp256k1_hmac_sha256_finalize(const secp256k1_hash_ctx *hash_ctx, secp256k1_hmac_sha256 *hash, unsigned char *out32)
__CPROVER_requires(__CPROVER_rw_ok(hash, sizeof(*hash)) && __CPROVER_w_ok(out32, 32) && hash_ctx != NULL)
__CPROVER_requires(hash->inner.bytes >= 64 && hash->inner.bytes < ((uint64_t)1 << 61) && hash->outer.bytes == 64)
__CPROVER_requires(g_hdk < 32 && g_hfin_n >= 0 && g_hfin_n < (1 << 30) && g_hwe >= 0)
__CPROVER_assigns(*hash, __CPROVER_object_upto(out32, 32), g_hfin_n, g_hf_len, g_hf_cur, g_hf_prev, g_hf_prev2, g_hf_last)
__CPROVER_ensures(g_hfin_n == __CPROVER_old(g_hfin_n) + 1 && g_hf_last == out32[g_hdk])
__CPROVER_ensures(__CPROVER_old(g_hfin_n) == g_hwe
    ? (g_hf_len == __CPROVER_old(hash->inner.bytes) - 64 && g_hf_cur == out32[g_hdk])
    : (g_hf_len == __CPROVER_old(g_hf_len) && g_hf_cur == __CPROVER_old(g_hf_cur)))
__CPROVER_ensures(g_hf_prev == (__CPROVER_old(g_hfin_n) == g_hwe - 1 ? out32[g_hdk] : __CPROVER_old(g_hf_prev)))
__CPROVER_ensures(g_hf_prev2 == (__CPROVER_old(g_hfin_n) == g_hwe - 2 ? out32[g_hdk] : __CPROVER_old(g_hf_prev2)))
;
#endif

/* memcpy model for the hash units that keep memcpy-ing code real (hash_write.c, hash_finalize.c, hash_rfc6979.c).
 * Measured: with CBMC's built-in model (array_replace of a variable-length array into a struct member) or
 * with a plain byte loop, the symbolic-offset copies into hash->buf from a symbolic-size source cost
 * 10^7 clauses (whole-struct byte_updates + quadratic array-read consistency constraints) and the
 * stream lemma does not finish in 10 min.  Model used instead (an over-approximation of memcpy, hence
 * sound; every memcpy of the hashing code copies <= 64 bytes):
 *  - destination inside the harness-designated object g_mc_base (the secp256k1_sha256 under test):
 *    [dst, dst+n) must lie inside the member hash->buf (obligation); every byte of the range is
 *    overwritten, at a constant object offset; the byte at the WATCHED object offset g_mc_doff (ghost
 *    selector, unconstrained in the harness) receives the source byte, the other bytes of the range
 *    receive arbitrary values; bytes outside the range are untouched;
 *  - destination inside the harness-designated symbolic-size buffer g_mc_big: whole buffer havoc'd, the
 *    watched byte g_mc_big[g_mc_big_idx] gets the source byte or keeps its value (see the code);
 *  - any other destination (small local arrays): exact byte loop, n <= MEMCPY_MAX is an obligation.
 * Obligations: n <= 64, distinct objects, destination range writable, source byte readable.
 * Use: #define VERIF_MEMCPY_MODEL before this header, then
 *      #define memcpy verif_memcpy64   /  #include "src/secp256k1.c"  /  #undef memcpy
 * so that only the repository's calls are redirected. */
#if defined(VERIF_MEMCPY_MODEL) && !defined(VERIF_NATIVE)
#ifndef MEMCPY_MAX
#define MEMCPY_MAX 64
#endif
#ifndef MC_LO
#define MC_LO offsetof(secp256k1_sha256, buf)          /* the designated member: hash->buf */
#define MC_HI (offsetof(secp256k1_sha256, buf) + 64)
#endif
unsigned char nondet_uchar_mc(void);
static void *verif_memcpy64(void *dst, const void *src, size_t n) {
    unsigned char *d_ = dst; const unsigned char *s_ = src; size_t i_;
    __CPROVER_assert(n <= MEMCPY_MAX, "C05 memcpy model: length within the modelled bound");
    __CPROVER_assert(n == 0 || !__CPROVER_same_object(dst, src), "C05 memcpy model: source and destination are different objects");
    __CPROVER_assert(n == 0 || __CPROVER_r_ok(src, n), "C05 memcpy model: source range is readable");
    if (g_mc_base != NULL && __CPROVER_same_object(dst, g_mc_base)) {
        size_t off_ = __CPROVER_POINTER_OFFSET(dst);
        unsigned char w_ = 0;
        __CPROVER_assert(__CPROVER_POINTER_OFFSET(g_mc_base) == 0 && __CPROVER_OBJECT_SIZE(dst) >= MC_HI, "C05 memcpy model: designated object contains the designated member");
        __CPROVER_assert(off_ >= MC_LO && off_ <= MC_HI && n <= MC_HI - off_, "C05 memcpy model: destination range lies inside hash->buf");
        __CPROVER_assume(off_ >= MC_LO && off_ <= MC_HI && n <= MC_HI - off_);   /* just asserted */
        if (g_mc_doff >= off_ && g_mc_doff - off_ < n) w_ = s_[g_mc_doff - off_];
        for (i_ = MC_LO; i_ < MC_HI; i_++) if (i_ >= off_ && i_ - off_ < n) g_mc_base[i_] = (i_ == g_mc_doff) ? w_ : nondet_uchar_mc();
        return dst;
    }
    if (g_mc_big != NULL) {
        __CPROVER_assert(__CPROVER_same_object(dst, g_mc_big), "C05 memcpy model: every copy of this unit goes into the designated buffer");
        /* destination inside the harness-designated symbolic-size buffer (rfc6979 output): the whole buffer is
         * havoc'd except the WATCHED byte g_mc_big[g_mc_big_idx], which receives the source byte if it lies in
         * [dst, dst+n) and keeps its value otherwise (over-approximation of memcpy: one havoc + one write). */
        size_t off_ = __CPROVER_POINTER_OFFSET(dst), sz_ = __CPROVER_OBJECT_SIZE(dst);
        unsigned char w_ = 0;
        __CPROVER_assert(__CPROVER_POINTER_OFFSET(g_mc_big) == 0, "C05 memcpy model: designated buffer pointer is the object start");
        __CPROVER_assert(n == 0 || __CPROVER_w_ok(dst, n), "C05 memcpy model: destination range is writable");
        if (g_mc_big_idx < sz_) w_ = (g_mc_big_idx >= off_ && g_mc_big_idx - off_ < n) ? s_[g_mc_big_idx - off_] : g_mc_big[g_mc_big_idx];
        __CPROVER_havoc_object(g_mc_big);
        if (g_mc_big_idx < sz_) g_mc_big[g_mc_big_idx] = w_;
        return dst;
    }
    for (i_ = 0; i_ < MEMCPY_MAX; i_++) if (i_ < n) d_[i_] = s_[i_];
    return dst;
}
#elif defined(VERIF_MEMCPY_MODEL)
#define verif_memcpy64 memcpy
#endif
#endif

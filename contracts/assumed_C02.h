/* C02-local contracts and spec constants (owner: schnorr units).
 *
 * 1. C02_ZERO_MASK_SPEC: the constant BIP-340 prescribes for "aux_rand absent" signing in this
 *    library, TaggedHash("BIP0340/aux", 0^32).  NOT an assumption: C02.midstates proves that the
 *    real SHA-256 code produces exactly these bytes for that input, and C02.nonce proves that
 *    nonce_function_bip340_impl XORs the key with exactly these bytes when data == NULL.
 * 2. Ghost-logging contract for secp256k1_schnorrsig_challenge (PROVED against the real body by
 *    C02.challenge at the hash-stream level; here only "which arguments did the caller pass").
 * 3. ASSUMED oracles not in assumed.h: secp256k1_ge_set_xo_var (lift_x verdict), used by xonly_pubkey_load
 *    through secp256k1_pubkey_load?  (no: pubkey_load only decodes) - see each unit. */
#ifndef VERIF_ASSUMED_C02_H
#define VERIF_ASSUMED_C02_H
#include "pre.h"
static const unsigned char C02_ZERO_MASK_SPEC[32] = {
    0x54, 0xf1, 0x69, 0xcf, 0xc9, 0xe2, 0xe5, 0x72, 0x74, 0x80, 0x44, 0x1f, 0x90, 0xba, 0x25, 0xc4,
    0x88, 0xf4, 0x61, 0xc7, 0x0b, 0x5e, 0xa5, 0xdc, 0xaa, 0xf7, 0xaf, 0x69, 0x27, 0x0a, 0xa5, 0x14
};
#endif

/* C02-local contracts and spec constants (owner: schnorr units; also used by C17).
 *
 * 1. C02_ZERO_MASK_SPEC: TaggedHash("BIP0340/aux", 0^32), the mask BIP-340 signing uses when aux_rand
 *    is absent.  NOT an assumption: C02.midstates proves that the real SHA-256 code produces exactly
 *    these bytes for that input, and C02.nonce proves that nonce_function_bip340_impl XORs the key
 *    with exactly these bytes when data == NULL.
 * 2. HASHLOG2 (define C02_HASHLOG2 before the include, INSTEAD of including hash_log.h): the stream
 *    contracts of contracts/hash_log.h, verbatim, plus a SECOND finalize watch (g_we2 -> g_w2_fin,
 *    g_w2_end, g_w2_dig).  Needed wherever the digest of one hash computation is fed into a later
 *    one (masked key = key ^ H_aux(data); generic tagged init), because the single watch of
 *    hash_log.h records the digest of the watched epoch only.  The extra clauses constrain ghost
 *    variables only; the non-ghost part (requires / assigns *hash,out32 / hash->bytes) is identical
 *    to hash_log.h, so the C05 proof of those contracts carries over unchanged.
 * 3. ghost-logging contract for secp256k1_schnorrsig_challenge (define C02_CHALLENGE_CONTRACT):
 *    frame + scalar_ok(e) + log of the arguments.  The function itself is PROVED at the
 *    hash-stream level by C02.challenge. */
#ifndef VERIF_ASSUMED_C02_H
#define VERIF_ASSUMED_C02_H
#include "assumed.h"   /* define LOG_* before including this file */
static const unsigned char C02_ZERO_MASK_SPEC[32] = {
    0x54, 0xf1, 0x69, 0xcf, 0xc9, 0xe2, 0xe5, 0x72, 0x74, 0x80, 0x44, 0x1f, 0x90, 0xba, 0x25, 0xc4,
    0x88, 0xf4, 0x61, 0xc7, 0x0b, 0x5e, 0xa5, 0xdc, 0xaa, 0xf7, 0xaf, 0x69, 0x27, 0x0a, 0xa5, 0x14
};


/* ghost variables of the stream contracts: a function enforced against its frame while its hash calls are replaced must be
 * allowed to "assign" them (they are not program memory) */
#ifdef C02_FRAME_UNITS   /* tentative definitions, repeated in the HASHLOG2 section below */
int g_fin_n, g_h_fresh, g_w_hit, g_w_started, g_w_fin, g_w2_fin; unsigned char g_w_byte, g_w_dig[32], g_w2_dig[32]; uint32_t g_w_s0, g_w_s7; uint64_t g_w_b0, g_w_end, g_w2_end;
#endif
#define C02_HASH_GHOSTS g_fin_n, g_h_fresh, g_w_hit, g_w_byte, g_w_started, g_w_s0, g_w_s7, g_w_b0, g_w_fin, g_w_end, g_w_dig, g_w2_fin, g_w2_end, g_w2_dig

/* ---- call log of secp256k1_schnorrsig_challenge ----
 * Slot selected by the watch g_chal_w (never assigned by code or contracts): the call number
 * g_chal_w (0-based) records its pointer arguments, the CONTENT of r32 and pubkey32 at call time
 * and the scalar handed back.  Non-ghost part: frame {*e}, scalar_ok(e). */
#ifdef C02_CHALLENGE_CONTRACT
int g_chal_n, g_chal_w, g_chal_hit; const unsigned char *g_chal_r32p, *g_chal_msgp, *g_chal_pkp; size_t g_chal_msglen;
unsigned char g_chal_r32[32], g_chal_pk[32]; secp256k1_scalar g_chal_e; const secp256k1_hash_ctx *g_chal_hc;
#define CH_B4(g, a, i) g[i] == a[i] && g[i+1] == a[i+1] && g[i+2] == a[i+2] && g[i+3] == a[i+3]
#define CH_K4(g, i) g[i] == __CPROVER_old(g[i]) && g[i+1] == __CPROVER_old(g[i+1]) && g[i+2] == __CPROVER_old(g[i+2]) && g[i+3] == __CPROVER_old(g[i+3])
#define CH_B32(g, a) (CH_B4(g, a, 0) && CH_B4(g, a, 4) && CH_B4(g, a, 8) && CH_B4(g, a, 12) && CH_B4(g, a, 16) && CH_B4(g, a, 20) && CH_B4(g, a, 24) && CH_B4(g, a, 28))
#define CH_K32(g) (CH_K4(g, 0) && CH_K4(g, 4) && CH_K4(g, 8) && CH_K4(g, 12) && CH_K4(g, 16) && CH_K4(g, 20) && CH_K4(g, 24) && CH_K4(g, 28))
#define CHALLENGE_RESET(w) do { g_chal_n = 0; g_chal_hit = 0; g_chal_w = (w); } while (0)
#endif
static void secp256k1_schnorrsig_challenge(const secp256k1_hash_ctx *hash_ctx, secp256k1_scalar* e, const unsigned char *r32, const unsigned char *msg, size_t msglen, const unsigned char *pubkey32)
__CPROVER_requires(hash_ctx != NULL && __CPROVER_w_ok(e, sizeof(*e)) && __CPROVER_r_ok(r32, 32) && __CPROVER_r_ok(pubkey32, 32) && (msglen == 0 || __CPROVER_r_ok(msg, msglen)))
#ifdef C02_CHALLENGE_CONTRACT
__CPROVER_assigns(*e, g_chal_n, g_chal_hit, g_chal_r32p, g_chal_msgp, g_chal_pkp, g_chal_msglen, g_chal_r32, g_chal_pk, g_chal_e, g_chal_hc)
__CPROVER_ensures(g_chal_n == __CPROVER_old(g_chal_n) + 1)
__CPROVER_ensures(__CPROVER_old(g_chal_n) == g_chal_w
    ? (g_chal_hit == 1 && g_chal_r32p == r32 && g_chal_msgp == msg && g_chal_pkp == pubkey32 && g_chal_msglen == msglen && g_chal_hc == hash_ctx &&
       CH_B32(g_chal_r32, r32) && CH_B32(g_chal_pk, pubkey32) && SC_EQ(g_chal_e, *e))
    : (g_chal_hit == __CPROVER_old(g_chal_hit) && g_chal_r32p == __CPROVER_old(g_chal_r32p) && g_chal_msgp == __CPROVER_old(g_chal_msgp) && g_chal_pkp == __CPROVER_old(g_chal_pkp) &&
       g_chal_msglen == __CPROVER_old(g_chal_msglen) && g_chal_hc == __CPROVER_old(g_chal_hc) && CH_K32(g_chal_r32) && CH_K32(g_chal_pk) && SC_KEEP(g_chal_e)))
#elif defined(C02_FRAME_UNITS)
__CPROVER_assigns(*e, C02_HASH_GHOSTS)
#else
__CPROVER_assigns(*e)
#endif
__CPROVER_ensures(scalar_ok(e))
;

/* ---- call log of the nonce function (nonce_function_bip340_impl, or a caller-supplied noncefp stub
 * that writes the same ghost variables).  The impl itself is PROVED at the hash-stream level by
 * C02.nonce; this contract keeps: pointer validity it needs, frame {nonce32[0..32)}, return in {0,1}. */
#ifdef C02_NONCE_CONTRACT
int g_nf_n, g_nf_which, g_nf_ret; const unsigned char *g_nf_msgp, *g_nf_algop; const void *g_nf_data; size_t g_nf_msglen, g_nf_algolen;
unsigned char g_nf_key[32], g_nf_pk[32], g_nf_out[32]; const secp256k1_hash_ctx *g_nf_hc;
#define NF_B4(g, a, i) g[i] == a[i] && g[i+1] == a[i+1] && g[i+2] == a[i+2] && g[i+3] == a[i+3]
#define NF_K4(g, i) g[i] == __CPROVER_old(g[i]) && g[i+1] == __CPROVER_old(g[i+1]) && g[i+2] == __CPROVER_old(g[i+2]) && g[i+3] == __CPROVER_old(g[i+3])
#define NF_B32(g, a) (NF_B4(g, a, 0) && NF_B4(g, a, 4) && NF_B4(g, a, 8) && NF_B4(g, a, 12) && NF_B4(g, a, 16) && NF_B4(g, a, 20) && NF_B4(g, a, 24) && NF_B4(g, a, 28))
#define NF_K32(g) (NF_K4(g, 0) && NF_K4(g, 4) && NF_K4(g, 8) && NF_K4(g, 12) && NF_K4(g, 16) && NF_K4(g, 20) && NF_K4(g, 24) && NF_K4(g, 28))
static int nonce_function_bip340_impl(const secp256k1_hash_ctx *hash_ctx, unsigned char *nonce32, const unsigned char *msg, size_t msglen, const unsigned char *key32, const unsigned char *xonly_pk32, const unsigned char *algo, size_t algolen, void *data)
__CPROVER_requires(hash_ctx != NULL && __CPROVER_w_ok(nonce32, 32) && __CPROVER_r_ok(key32, 32) && __CPROVER_r_ok(xonly_pk32, 32) && (msglen == 0 || __CPROVER_r_ok(msg, msglen)))
__CPROVER_requires((algo == NULL || algolen == 0 || __CPROVER_r_ok(algo, algolen)) && (data == NULL || __CPROVER_r_ok(data, 32)))
__CPROVER_assigns(__CPROVER_object_upto(nonce32, 32), g_nf_n, g_nf_which, g_nf_ret, g_nf_msgp, g_nf_algop, g_nf_data, g_nf_msglen, g_nf_algolen, g_nf_key, g_nf_pk, g_nf_out, g_nf_hc)
__CPROVER_ensures(__CPROVER_return_value == 0 || __CPROVER_return_value == 1)
__CPROVER_ensures(g_nf_n == __CPROVER_old(g_nf_n) + 1)
__CPROVER_ensures(__CPROVER_old(g_nf_n) == 0
    ? (g_nf_which == 0 && g_nf_ret == __CPROVER_return_value && g_nf_msgp == msg && g_nf_algop == algo && g_nf_data == data && g_nf_msglen == msglen && g_nf_algolen == algolen &&
       g_nf_hc == hash_ctx && NF_B32(g_nf_key, key32) && NF_B32(g_nf_pk, xonly_pk32) && NF_B32(g_nf_out, nonce32))
    : (g_nf_which == __CPROVER_old(g_nf_which) && g_nf_ret == __CPROVER_old(g_nf_ret) && g_nf_msgp == __CPROVER_old(g_nf_msgp) && g_nf_algop == __CPROVER_old(g_nf_algop) &&
       g_nf_data == __CPROVER_old(g_nf_data) && g_nf_msglen == __CPROVER_old(g_nf_msglen) && g_nf_algolen == __CPROVER_old(g_nf_algolen) && g_nf_hc == __CPROVER_old(g_nf_hc) &&
       NF_K32(g_nf_key) && NF_K32(g_nf_pk) && NF_K32(g_nf_out)))
;
#elif defined(C02_NONCE_FRAME)
/* the non-ghost part of the contract above, enforced against the real body by C02.nonce_frame */
static int nonce_function_bip340_impl(const secp256k1_hash_ctx *hash_ctx, unsigned char *nonce32, const unsigned char *msg, size_t msglen, const unsigned char *key32, const unsigned char *xonly_pk32, const unsigned char *algo, size_t algolen, void *data)
__CPROVER_requires(hash_ctx != NULL && __CPROVER_w_ok(nonce32, 32) && __CPROVER_r_ok(key32, 32) && __CPROVER_r_ok(xonly_pk32, 32) && (msglen == 0 || __CPROVER_r_ok(msg, msglen)))
__CPROVER_requires((algo == NULL || algolen == 0 || __CPROVER_r_ok(algo, algolen)) && (data == NULL || __CPROVER_r_ok(data, 32)))
__CPROVER_assigns(__CPROVER_object_upto(nonce32, 32), C02_HASH_GHOSTS)
__CPROVER_ensures(__CPROVER_return_value == 0 || __CPROVER_return_value == 1)
;
#endif

/* ---- argument log of secp256k1_schnorrsig_sign_internal (used by C02.sign32 only: "sign32 is
 * sign_internal with msglen = 32, the BIP-340 nonce function and aux_rand32 as its data").  The
 * behaviour of sign_internal for exactly such arguments is what C02.sign proves through
 * secp256k1_schnorrsig_sign_custom, which forwards its arguments unchanged. */
#ifdef C02_SIGN_INTERNAL_CONTRACT
int g_si_n, g_si_ret; const secp256k1_context *g_si_ctx; unsigned char *g_si_sig; const unsigned char *g_si_msg; size_t g_si_msglen; const secp256k1_keypair *g_si_kp;
secp256k1_nonce_function_hardened g_si_fp; void *g_si_ndata;
static int secp256k1_schnorrsig_sign_internal(const secp256k1_context* ctx, unsigned char *sig64, const unsigned char *msg, size_t msglen, const secp256k1_keypair *keypair, secp256k1_nonce_function_hardened noncefp, void *ndata)
__CPROVER_requires(ctx != NULL)
__CPROVER_assigns(sig64 != NULL: __CPROVER_object_upto(sig64, 64); g_si_n, g_si_ret, g_si_ctx, g_si_sig, g_si_msg, g_si_msglen, g_si_kp, g_si_fp, g_si_ndata)
__CPROVER_ensures(__CPROVER_return_value == 0 || __CPROVER_return_value == 1)
__CPROVER_ensures(g_si_n == __CPROVER_old(g_si_n) + 1 && g_si_ret == __CPROVER_return_value && g_si_ctx == ctx && g_si_sig == sig64 && g_si_msg == msg && g_si_msglen == msglen &&
                  g_si_kp == keypair && g_si_fp == noncefp && g_si_ndata == ndata)
;
#endif

#ifdef C02_HASHLOG2
#ifdef VERIF_HASH_LOG_H
#error "include assumed_C02.h with C02_HASHLOG2 instead of hash_log.h, not in addition"
#endif
#define VERIF_HASH_LOG_H
int g_fin_n;                 /* finalize calls so far */
int g_h_fresh;               /* 1 until the first write of the current epoch */
int g_we; uint64_t g_wpos;   /* watch selectors: never assigned by code or contracts */
int g_w_hit; unsigned char g_w_byte;
int g_w_started; uint32_t g_w_s0, g_w_s7; uint64_t g_w_b0;
int g_w_fin; uint64_t g_w_end; unsigned char g_w_dig[32];
int g_we2; int g_w2_fin; uint64_t g_w2_end; unsigned char g_w2_dig[32];   /* second finalize watch (g_we2 never assigned by code or contracts) */

#define HASHLOG_RESET() do { g_fin_n = 0; g_h_fresh = 1; g_w_hit = 0; g_w_started = 0; g_w_fin = 0; g_w2_fin = 0; } while (0)

static void secp256k1_sha256_write(const secp256k1_hash_ctx *hash_ctx, secp256k1_sha256 *hash, const unsigned char *data, size_t len)
__CPROVER_requires(__CPROVER_rw_ok(hash, sizeof(*hash)) && (len == 0 || __CPROVER_r_ok(data, len)) && hash_ctx != NULL)
__CPROVER_requires(hash->bytes + len >= len)
__CPROVER_assigns(*hash, g_h_fresh, g_w_hit, g_w_byte, g_w_started, g_w_s0, g_w_s7, g_w_b0)
__CPROVER_ensures(hash->bytes == __CPROVER_old(hash->bytes) + len)
__CPROVER_ensures(g_h_fresh == 0)
__CPROVER_ensures((__CPROVER_old(g_h_fresh) && g_fin_n == g_we)
    ? (g_w_started == 1 && g_w_s0 == __CPROVER_old(hash->s[0]) && g_w_s7 == __CPROVER_old(hash->s[7]) && g_w_b0 == __CPROVER_old(hash->bytes))
    : (g_w_started == __CPROVER_old(g_w_started) && g_w_s0 == __CPROVER_old(g_w_s0) && g_w_s7 == __CPROVER_old(g_w_s7) && g_w_b0 == __CPROVER_old(g_w_b0)))
__CPROVER_ensures((g_fin_n == g_we && __CPROVER_old(hash->bytes) <= g_wpos && g_wpos < __CPROVER_old(hash->bytes) + len)
    ? (g_w_hit == 1 && g_w_byte == data[g_wpos - __CPROVER_old(hash->bytes)])
    : (g_w_hit == __CPROVER_old(g_w_hit) && g_w_byte == __CPROVER_old(g_w_byte)))
;
#define DIG4(i) g_w_dig[i] == out32[i] && g_w_dig[i+1] == out32[i+1] && g_w_dig[i+2] == out32[i+2] && g_w_dig[i+3] == out32[i+3]
#define DIG2_4(i) g_w2_dig[i] == out32[i] && g_w2_dig[i+1] == out32[i+1] && g_w2_dig[i+2] == out32[i+2] && g_w2_dig[i+3] == out32[i+3]
#define DIG2K4(i) g_w2_dig[i] == __CPROVER_old(g_w2_dig[i]) && g_w2_dig[i+1] == __CPROVER_old(g_w2_dig[i+1]) && g_w2_dig[i+2] == __CPROVER_old(g_w2_dig[i+2]) && g_w2_dig[i+3] == __CPROVER_old(g_w2_dig[i+3])
#define DIGK4(i) g_w_dig[i] == __CPROVER_old(g_w_dig[i]) && g_w_dig[i+1] == __CPROVER_old(g_w_dig[i+1]) && g_w_dig[i+2] == __CPROVER_old(g_w_dig[i+2]) && g_w_dig[i+3] == __CPROVER_old(g_w_dig[i+3])
static void secp256k1_sha256_finalize(const secp256k1_hash_ctx *hash_ctx, secp256k1_sha256 *hash, unsigned char *out32)
__CPROVER_requires(__CPROVER_rw_ok(hash, sizeof(*hash)) && __CPROVER_w_ok(out32, 32) && hash_ctx != NULL)
__CPROVER_assigns(*hash, __CPROVER_object_upto(out32, 32), g_fin_n, g_h_fresh, g_w_fin, g_w_end, g_w_dig, g_w2_fin, g_w2_end, g_w2_dig)
__CPROVER_ensures(g_fin_n == __CPROVER_old(g_fin_n) + 1 && g_h_fresh == 1)
__CPROVER_ensures(__CPROVER_old(g_fin_n) == g_we
    ? (g_w_fin == 1 && g_w_end == __CPROVER_old(hash->bytes) && DIG4(0) && DIG4(4) && DIG4(8) && DIG4(12) && DIG4(16) && DIG4(20) && DIG4(24) && DIG4(28))
    : (g_w_fin == __CPROVER_old(g_w_fin) && g_w_end == __CPROVER_old(g_w_end) && DIGK4(0) && DIGK4(4) && DIGK4(8) && DIGK4(12) && DIGK4(16) && DIGK4(20) && DIGK4(24) && DIGK4(28)))
__CPROVER_ensures(__CPROVER_old(g_fin_n) == g_we2
    ? (g_w2_fin == 1 && g_w2_end == __CPROVER_old(hash->bytes) && DIG2_4(0) && DIG2_4(4) && DIG2_4(8) && DIG2_4(12) && DIG2_4(16) && DIG2_4(20) && DIG2_4(24) && DIG2_4(28))
    : (g_w2_fin == __CPROVER_old(g_w2_fin) && g_w2_end == __CPROVER_old(g_w2_end) && DIG2K4(0) && DIG2K4(4) && DIG2K4(8) && DIG2K4(12) && DIG2K4(16) && DIG2K4(20) && DIG2K4(24) && DIG2K4(28)))
;
#endif /* C02_HASHLOG2 */

#endif

/* ASSUMED (oracle) contracts for the algebraic residue (DESIGN.md section 6 item 5).  Each states
 * only: pointer validity it needs, the frame, the representation invariant of its outputs and
 * return in {0,1}.  None states an algebraic fact.  A unit lists the ones it uses under
 * `assumed`; they are copied into the evidence file.
 *
 * Ghost call logs: where a caller's postcondition must talk about WHAT was handed to an oracle
 * and what it answered, the contract additionally records (arguments, result) of call number k
 * in ghost slot k (k < 4).  These clauses constrain ghost variables only. */
#ifndef VERIF_ASSUMED_H
#define VERIF_ASSUMED_H
#include "pre.h"

#if !defined(USE_FORCE_WIDEMUL_INT64)
#define SC_EQ(x, y) ((x).d[0] == (y).d[0] && (x).d[1] == (y).d[1] && (x).d[2] == (y).d[2] && (x).d[3] == (y).d[3])
#define SC_KEEP(x) ((x).d[0] == __CPROVER_old((x).d[0]) && (x).d[1] == __CPROVER_old((x).d[1]) && (x).d[2] == __CPROVER_old((x).d[2]) && (x).d[3] == __CPROVER_old((x).d[3]))
#define SC_EQ_OLD(x, y) ((x).d[0] == __CPROVER_old((y).d[0]) && (x).d[1] == __CPROVER_old((y).d[1]) && (x).d[2] == __CPROVER_old((y).d[2]) && (x).d[3] == __CPROVER_old((y).d[3]))
#define FE_EQ(x, y) ((x).n[0] == (y).n[0] && (x).n[1] == (y).n[1] && (x).n[2] == (y).n[2] && (x).n[3] == (y).n[3] && (x).n[4] == (y).n[4])
#define FE_KEEP(x) ((x).n[0] == __CPROVER_old((x).n[0]) && (x).n[1] == __CPROVER_old((x).n[1]) && (x).n[2] == __CPROVER_old((x).n[2]) && (x).n[3] == __CPROVER_old((x).n[3]) && (x).n[4] == __CPROVER_old((x).n[4]))
#define FE_EQ_OLD(x, y) ((x).n[0] == __CPROVER_old((y).n[0]) && (x).n[1] == __CPROVER_old((y).n[1]) && (x).n[2] == __CPROVER_old((y).n[2]) && (x).n[3] == __CPROVER_old((y).n[3]) && (x).n[4] == __CPROVER_old((y).n[4]))
#endif
static inline int ge_ok(const secp256k1_ge *g) { return fe_mag(&g->x, 4) && fe_mag(&g->y, 3) && (g->infinity == 0 || g->infinity == 1); }
static inline int ge_ok1(const secp256k1_ge *g) { return fe_mag(&g->x, 1) && fe_mag(&g->y, 1) && (g->infinity == 0 || g->infinity == 1); }
static inline int gej_ok(const secp256k1_gej *g) { return fe_mag(&g->x, 4) && fe_mag(&g->y, 4) && fe_mag(&g->z, 1) && (g->infinity == 0 || g->infinity == 1); }

/* ---- scalar multiplication / inversion ---- */
#ifdef LOG_SCALAR_MUL
int g_mul_n; secp256k1_scalar g_mul_a0, g_mul_b0, g_mul_r0, g_mul_a1, g_mul_b1, g_mul_r1, g_mul_a2, g_mul_b2, g_mul_r2, g_mul_a3, g_mul_b3, g_mul_r3;
#define MUL_SLOT(i) \
  __CPROVER_ensures(__CPROVER_old(g_mul_n) == i ==> (SC_EQ_OLD(g_mul_a##i, *a) && SC_EQ_OLD(g_mul_b##i, *b) && SC_EQ(g_mul_r##i, *r))) \
  __CPROVER_ensures(__CPROVER_old(g_mul_n) != i ==> (SC_KEEP(g_mul_a##i) && SC_KEEP(g_mul_b##i) && SC_KEEP(g_mul_r##i)))
#endif
static void secp256k1_scalar_mul(secp256k1_scalar *r, const secp256k1_scalar *a, const secp256k1_scalar *b)
__CPROVER_requires(__CPROVER_w_ok(r, sizeof(*r)) && __CPROVER_r_ok(a, sizeof(*a)) && __CPROVER_r_ok(b, sizeof(*b)))
__CPROVER_requires(scalar_ok(a) && scalar_ok(b))
#ifdef LOG_SCALAR_MUL
__CPROVER_assigns(*r, g_mul_n, g_mul_a0, g_mul_b0, g_mul_r0, g_mul_a1, g_mul_b1, g_mul_r1, g_mul_a2, g_mul_b2, g_mul_r2, g_mul_a3, g_mul_b3, g_mul_r3)
__CPROVER_ensures(g_mul_n == __CPROVER_old(g_mul_n) + 1)
MUL_SLOT(0) MUL_SLOT(1) MUL_SLOT(2) MUL_SLOT(3)
#else
__CPROVER_assigns(*r)
#endif
__CPROVER_ensures(scalar_ok(r))
;
#ifdef LOG_SCALAR_INV
int g_inv_n; secp256k1_scalar g_inv_x0, g_inv_r0;
#endif
#define INV_CONTRACT \
__CPROVER_requires(__CPROVER_w_ok(r, sizeof(*r)) && __CPROVER_r_ok(x, sizeof(*x)) && scalar_ok(x)) \
INV_LOG \
__CPROVER_ensures(scalar_ok(r))
#ifdef LOG_SCALAR_INV
#define INV_LOG __CPROVER_assigns(*r, g_inv_n, g_inv_x0, g_inv_r0) __CPROVER_ensures(g_inv_n == __CPROVER_old(g_inv_n) + 1) \
  __CPROVER_ensures(__CPROVER_old(g_inv_n) == 0 ==> (SC_EQ_OLD(g_inv_x0, *x) && SC_EQ(g_inv_r0, *r))) \
  __CPROVER_ensures(__CPROVER_old(g_inv_n) != 0 ==> (SC_KEEP(g_inv_x0) && SC_KEEP(g_inv_r0)))
#else
#define INV_LOG __CPROVER_assigns(*r)
#endif
static void secp256k1_scalar_inverse(secp256k1_scalar *r, const secp256k1_scalar *x) INV_CONTRACT;
static void secp256k1_scalar_inverse_var(secp256k1_scalar *r, const secp256k1_scalar *x) INV_CONTRACT;

/* ---- curve multiplication: results are arbitrary group elements in representation range ---- */
#ifdef LOG_ECMULT
int g_ecmult_n; secp256k1_scalar g_ecmult_na0, g_ecmult_ng0; int g_ecmult_has_na0, g_ecmult_has_ng0; secp256k1_gej g_ecmult_a0, g_ecmult_r0;
#endif
static void secp256k1_ecmult(secp256k1_gej *r, const secp256k1_gej *a, const secp256k1_scalar *na, const secp256k1_scalar *ng)
__CPROVER_requires(__CPROVER_w_ok(r, sizeof(*r)) && __CPROVER_r_ok(a, sizeof(*a)) && gej_ok(a))
__CPROVER_requires((na == NULL || (__CPROVER_r_ok(na, sizeof(*na)) && scalar_ok(na))) && (ng == NULL || (__CPROVER_r_ok(ng, sizeof(*ng)) && scalar_ok(ng))))
#ifdef LOG_ECMULT
__CPROVER_assigns(*r, g_ecmult_n, g_ecmult_na0, g_ecmult_ng0, g_ecmult_has_na0, g_ecmult_has_ng0, g_ecmult_a0, g_ecmult_r0)
__CPROVER_ensures(g_ecmult_n == __CPROVER_old(g_ecmult_n) + 1)
__CPROVER_ensures(__CPROVER_old(g_ecmult_n) == 0 ==> (g_ecmult_has_na0 == (na != NULL) && g_ecmult_has_ng0 == (ng != NULL) &&
     (na == NULL || SC_EQ_OLD(g_ecmult_na0, *na)) && (ng == NULL || SC_EQ_OLD(g_ecmult_ng0, *ng)) &&
     FE_EQ_OLD(g_ecmult_a0.x, a->x) && FE_EQ_OLD(g_ecmult_a0.y, a->y) && FE_EQ_OLD(g_ecmult_a0.z, a->z) && g_ecmult_a0.infinity == __CPROVER_old(a->infinity) &&
     FE_EQ(g_ecmult_r0.x, r->x) && FE_EQ(g_ecmult_r0.y, r->y) && FE_EQ(g_ecmult_r0.z, r->z) && g_ecmult_r0.infinity == r->infinity))
__CPROVER_ensures(__CPROVER_old(g_ecmult_n) != 0 ==> (g_ecmult_has_na0 == __CPROVER_old(g_ecmult_has_na0) && g_ecmult_has_ng0 == __CPROVER_old(g_ecmult_has_ng0) &&
     SC_KEEP(g_ecmult_na0) && SC_KEEP(g_ecmult_ng0) && FE_KEEP(g_ecmult_a0.x) && FE_KEEP(g_ecmult_a0.y) && FE_KEEP(g_ecmult_a0.z) && g_ecmult_a0.infinity == __CPROVER_old(g_ecmult_a0.infinity) &&
     FE_KEEP(g_ecmult_r0.x) && FE_KEEP(g_ecmult_r0.y) && FE_KEEP(g_ecmult_r0.z) && g_ecmult_r0.infinity == __CPROVER_old(g_ecmult_r0.infinity)))
#else
__CPROVER_assigns(*r)
#endif
__CPROVER_ensures(gej_ok(r))
;
#ifdef LOG_ECMULT_GEN
int g_gen_n; secp256k1_scalar g_gen_a0; secp256k1_gej g_gen_r0;
#endif
static void secp256k1_ecmult_gen(const secp256k1_ecmult_gen_context *ctx, secp256k1_gej *r, const secp256k1_scalar *a)
__CPROVER_requires(__CPROVER_w_ok(r, sizeof(*r)) && __CPROVER_r_ok(a, sizeof(*a)) && scalar_ok(a) && __CPROVER_r_ok(ctx, sizeof(*ctx)))
#ifdef LOG_ECMULT_GEN
__CPROVER_assigns(*r, g_gen_n, g_gen_a0, g_gen_r0)
__CPROVER_ensures(g_gen_n == __CPROVER_old(g_gen_n) + 1)
__CPROVER_ensures(__CPROVER_old(g_gen_n) == 0 ==> (SC_EQ_OLD(g_gen_a0, *a) && FE_EQ(g_gen_r0.x, r->x) && FE_EQ(g_gen_r0.y, r->y) && FE_EQ(g_gen_r0.z, r->z) && g_gen_r0.infinity == r->infinity))
__CPROVER_ensures(__CPROVER_old(g_gen_n) != 0 ==> (SC_KEEP(g_gen_a0) && FE_KEEP(g_gen_r0.x) && FE_KEEP(g_gen_r0.y) && FE_KEEP(g_gen_r0.z) && g_gen_r0.infinity == __CPROVER_old(g_gen_r0.infinity)))
#else
__CPROVER_assigns(*r)
#endif
__CPROVER_ensures(gej_ok(r))
;
static void secp256k1_ecmult_const(secp256k1_gej *r, const secp256k1_ge *a, const secp256k1_scalar *q)
__CPROVER_requires(__CPROVER_w_ok(r, sizeof(*r)) && __CPROVER_r_ok(a, sizeof(*a)) && ge_ok(a) && __CPROVER_r_ok(q, sizeof(*q)) && scalar_ok(q))
__CPROVER_assigns(*r)
__CPROVER_ensures(gej_ok(r))
;
/* ---- Jacobian -> affine: output coordinates have magnitude 1; the input may be rescaled ---- */
#ifdef LOG_GE_SET_GEJ
int g_sg_n; secp256k1_ge g_sg_r0; secp256k1_gej g_sg_a0;
#define SG_LOG __CPROVER_assigns(*r, *a, g_sg_n, g_sg_r0, g_sg_a0) __CPROVER_ensures(g_sg_n == __CPROVER_old(g_sg_n) + 1) \
  __CPROVER_ensures(__CPROVER_old(g_sg_n) == 0 ==> (FE_EQ(g_sg_r0.x, r->x) && FE_EQ(g_sg_r0.y, r->y) && g_sg_r0.infinity == r->infinity && \
     FE_EQ_OLD(g_sg_a0.x, a->x) && FE_EQ_OLD(g_sg_a0.y, a->y) && FE_EQ_OLD(g_sg_a0.z, a->z) && g_sg_a0.infinity == __CPROVER_old(a->infinity))) \
  __CPROVER_ensures(__CPROVER_old(g_sg_n) != 0 ==> (FE_KEEP(g_sg_r0.x) && FE_KEEP(g_sg_r0.y) && g_sg_r0.infinity == __CPROVER_old(g_sg_r0.infinity) && \
     FE_KEEP(g_sg_a0.x) && FE_KEEP(g_sg_a0.y) && FE_KEEP(g_sg_a0.z) && g_sg_a0.infinity == __CPROVER_old(g_sg_a0.infinity)))
#else
#define SG_LOG __CPROVER_assigns(*r, *a)
#endif
#define SET_GEJ_CONTRACT \
__CPROVER_requires(__CPROVER_w_ok(r, sizeof(*r)) && __CPROVER_rw_ok(a, sizeof(*a)) && gej_ok(a)) \
SG_LOG \
__CPROVER_ensures(ge_ok1(r) && gej_ok(a) && r->infinity == __CPROVER_old(a->infinity))
static void secp256k1_ge_set_gej(secp256k1_ge *r, secp256k1_gej *a) SET_GEJ_CONTRACT;
static void secp256k1_ge_set_gej_var(secp256k1_ge *r, secp256k1_gej *a) SET_GEJ_CONTRACT;

/* ---- x-coordinate comparison oracle with verdict log (two slots) ---- */
#ifdef LOG_GEJ_EQ_X
int g_eqx_n; secp256k1_fe g_eqx_x0, g_eqx_x1; int g_eqx_v0, g_eqx_v1; secp256k1_gej g_eqx_a0;
#endif
static int secp256k1_gej_eq_x_var(const secp256k1_fe *x, const secp256k1_gej *a)
__CPROVER_requires(__CPROVER_r_ok(x, sizeof(*x)) && __CPROVER_r_ok(a, sizeof(*a)) && gej_ok(a) && !a->infinity && fe_mag(x, 2))
#ifdef LOG_GEJ_EQ_X
__CPROVER_assigns(g_eqx_n, g_eqx_x0, g_eqx_x1, g_eqx_v0, g_eqx_v1, g_eqx_a0)
__CPROVER_ensures(g_eqx_n == __CPROVER_old(g_eqx_n) + 1)
__CPROVER_ensures(__CPROVER_old(g_eqx_n) == 0 ==> (FE_EQ(g_eqx_x0, *x) && g_eqx_v0 == __CPROVER_return_value && FE_KEEP(g_eqx_x1) && g_eqx_v1 == __CPROVER_old(g_eqx_v1) &&
     FE_EQ(g_eqx_a0.x, a->x) && FE_EQ(g_eqx_a0.y, a->y) && FE_EQ(g_eqx_a0.z, a->z)))
__CPROVER_ensures(__CPROVER_old(g_eqx_n) == 1 ==> (FE_EQ(g_eqx_x1, *x) && g_eqx_v1 == __CPROVER_return_value && FE_KEEP(g_eqx_x0) && g_eqx_v0 == __CPROVER_old(g_eqx_v0) &&
     FE_KEEP(g_eqx_a0.x) && FE_KEEP(g_eqx_a0.y) && FE_KEEP(g_eqx_a0.z)))
__CPROVER_ensures(__CPROVER_old(g_eqx_n) > 1 ==> (FE_KEEP(g_eqx_x0) && FE_KEEP(g_eqx_x1) && g_eqx_v0 == __CPROVER_old(g_eqx_v0) && g_eqx_v1 == __CPROVER_old(g_eqx_v1) &&
     FE_KEEP(g_eqx_a0.x) && FE_KEEP(g_eqx_a0.y) && FE_KEEP(g_eqx_a0.z)))
#else
__CPROVER_assigns()
#endif
__CPROVER_ensures(__CPROVER_return_value == 0 || __CPROVER_return_value == 1)
;
#endif

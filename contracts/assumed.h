/* ASSUMED (oracle) contracts for the algebraic residue (DESIGN.md section 6 item 5).  Each states
 * only: pointer validity it needs, the frame, the representation invariant of its outputs and
 * return in {0,1}.  None states an algebraic fact.  A unit lists the ones it uses under
 * `assumed`, and they are copied into the evidence file. */
#ifndef VERIF_ASSUMED_H
#define VERIF_ASSUMED_H
#include "pre.h"

static void secp256k1_scalar_mul(secp256k1_scalar *r, const secp256k1_scalar *a, const secp256k1_scalar *b)
__CPROVER_requires(__CPROVER_w_ok(r, sizeof(*r)) && __CPROVER_r_ok(a, sizeof(*a)) && __CPROVER_r_ok(b, sizeof(*b)))
__CPROVER_requires(scalar_ok(a) && scalar_ok(b))
__CPROVER_assigns(*r)
__CPROVER_ensures(scalar_ok(r))
;
static void secp256k1_scalar_inverse(secp256k1_scalar *r, const secp256k1_scalar *x)
__CPROVER_requires(__CPROVER_w_ok(r, sizeof(*r)) && __CPROVER_r_ok(x, sizeof(*x)) && scalar_ok(x))
__CPROVER_assigns(*r)
__CPROVER_ensures(scalar_ok(r))
;
static void secp256k1_scalar_inverse_var(secp256k1_scalar *r, const secp256k1_scalar *x)
__CPROVER_requires(__CPROVER_w_ok(r, sizeof(*r)) && __CPROVER_r_ok(x, sizeof(*x)) && scalar_ok(x))
__CPROVER_assigns(*r)
__CPROVER_ensures(scalar_ok(r))
;
#endif

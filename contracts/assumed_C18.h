/* C18 (ECDH / ElligatorSwift) contracts.  Stand-alone: include INSTEAD of assumed.h (it gives
 * secp256k1_ecmult_const a ghost log, which assumed.h's contract for the same function lacks - to be
 * merged as LOG_ECMULT_CONST).  Same rules: frame + representation invariant + result in {0,1} + ghost
 * log; no algebraic fact anywhere.
 *
 * ASSUMED oracles:  secp256k1_ecmult_const, secp256k1_ge_set_gej, secp256k1_ecmult_const_xonly,
 *   secp256k1_ellswift_xswiftec_frac_var (only in the XDH unit; the decode unit runs its real body),
 *   secp256k1_fe_impl_mul / _sqr / _inv_var, secp256k1_ge_x_frac_on_curve_var, secp256k1_ge_set_xquad.
 * The operand-magnitude preconditions of fe mul/sqr (<= 8) are the library's own overflow-freedom
 * requirement; with the calls replaced they become obligations on the real map code. */
#ifndef VERIF_ASSUMED_C18_H
#define VERIF_ASSUMED_C18_H
#ifdef VERIF_ASSUMED_H
#error "assumed_C18.h replaces assumed.h"
#endif
#include "pre.h"

#define SC_EQ(x, y) ((x).d[0] == (y).d[0] && (x).d[1] == (y).d[1] && (x).d[2] == (y).d[2] && (x).d[3] == (y).d[3])
#define SC_KEEP(x) ((x).d[0] == __CPROVER_old((x).d[0]) && (x).d[1] == __CPROVER_old((x).d[1]) && (x).d[2] == __CPROVER_old((x).d[2]) && (x).d[3] == __CPROVER_old((x).d[3]))
#define SC_EQ_OLD(x, y) ((x).d[0] == __CPROVER_old((y).d[0]) && (x).d[1] == __CPROVER_old((y).d[1]) && (x).d[2] == __CPROVER_old((y).d[2]) && (x).d[3] == __CPROVER_old((y).d[3]))
#define FE_EQ(x, y) ((x).n[0] == (y).n[0] && (x).n[1] == (y).n[1] && (x).n[2] == (y).n[2] && (x).n[3] == (y).n[3] && (x).n[4] == (y).n[4])
#define FE_KEEP(x) ((x).n[0] == __CPROVER_old((x).n[0]) && (x).n[1] == __CPROVER_old((x).n[1]) && (x).n[2] == __CPROVER_old((x).n[2]) && (x).n[3] == __CPROVER_old((x).n[3]) && (x).n[4] == __CPROVER_old((x).n[4]))
#define FE_EQ_OLD(x, y) ((x).n[0] == __CPROVER_old((y).n[0]) && (x).n[1] == __CPROVER_old((y).n[1]) && (x).n[2] == __CPROVER_old((y).n[2]) && (x).n[3] == __CPROVER_old((y).n[3]) && (x).n[4] == __CPROVER_old((y).n[4]))
static inline int ge_ok(const secp256k1_ge *g) { return fe_mag(&g->x, 4) && fe_mag(&g->y, 3) && (g->infinity == 0 || g->infinity == 1); }
static inline int ge_ok1(const secp256k1_ge *g) { return fe_mag(&g->x, 1) && fe_mag(&g->y, 1) && (g->infinity == 0 || g->infinity == 1); }
static inline int gej_ok(const secp256k1_gej *g) { return fe_mag(&g->x, 4) && fe_mag(&g->y, 4) && fe_mag(&g->z, 1) && (g->infinity == 0 || g->infinity == 1); }

/* ---- constant-time point multiplication, first call logged ---- */
int g_ecc_n; secp256k1_ge g_ecc_a0; secp256k1_scalar g_ecc_q0; secp256k1_gej g_ecc_r0;
static void secp256k1_ecmult_const(secp256k1_gej *r, const secp256k1_ge *a, const secp256k1_scalar *q)
__CPROVER_requires(__CPROVER_w_ok(r, sizeof(*r)) && __CPROVER_r_ok(a, sizeof(*a)) && ge_ok(a) && __CPROVER_r_ok(q, sizeof(*q)) && scalar_ok(q))
__CPROVER_assigns(*r, g_ecc_n, g_ecc_a0, g_ecc_q0, g_ecc_r0)
__CPROVER_ensures(gej_ok(r) && g_ecc_n == __CPROVER_old(g_ecc_n) + 1)
__CPROVER_ensures(__CPROVER_old(g_ecc_n) == 0 ==> (SC_EQ_OLD(g_ecc_q0, *q) && FE_EQ_OLD(g_ecc_a0.x, a->x) && FE_EQ_OLD(g_ecc_a0.y, a->y) && g_ecc_a0.infinity == __CPROVER_old(a->infinity) &&
     FE_EQ(g_ecc_r0.x, r->x) && FE_EQ(g_ecc_r0.y, r->y) && FE_EQ(g_ecc_r0.z, r->z) && g_ecc_r0.infinity == r->infinity))
__CPROVER_ensures(__CPROVER_old(g_ecc_n) != 0 ==> (SC_KEEP(g_ecc_q0) && FE_KEEP(g_ecc_a0.x) && FE_KEEP(g_ecc_a0.y) && g_ecc_a0.infinity == __CPROVER_old(g_ecc_a0.infinity) &&
     FE_KEEP(g_ecc_r0.x) && FE_KEEP(g_ecc_r0.y) && FE_KEEP(g_ecc_r0.z) && g_ecc_r0.infinity == __CPROVER_old(g_ecc_r0.infinity)))
;
/* ---- Jacobian -> affine (identical to assumed.h with LOG_GE_SET_GEJ) ---- */
int g_sg_n; secp256k1_ge g_sg_r0; secp256k1_gej g_sg_a0;
static void secp256k1_ge_set_gej(secp256k1_ge *r, secp256k1_gej *a)
__CPROVER_requires(__CPROVER_w_ok(r, sizeof(*r)) && __CPROVER_rw_ok(a, sizeof(*a)) && gej_ok(a))
__CPROVER_assigns(*r, *a, g_sg_n, g_sg_r0, g_sg_a0)
__CPROVER_ensures(g_sg_n == __CPROVER_old(g_sg_n) + 1)
__CPROVER_ensures(__CPROVER_old(g_sg_n) == 0 ==> (FE_EQ(g_sg_r0.x, r->x) && FE_EQ(g_sg_r0.y, r->y) && g_sg_r0.infinity == r->infinity &&
     FE_EQ_OLD(g_sg_a0.x, a->x) && FE_EQ_OLD(g_sg_a0.y, a->y) && FE_EQ_OLD(g_sg_a0.z, a->z) && g_sg_a0.infinity == __CPROVER_old(a->infinity)))
__CPROVER_ensures(__CPROVER_old(g_sg_n) != 0 ==> (FE_KEEP(g_sg_r0.x) && FE_KEEP(g_sg_r0.y) && g_sg_r0.infinity == __CPROVER_old(g_sg_r0.infinity) &&
     FE_KEEP(g_sg_a0.x) && FE_KEEP(g_sg_a0.y) && FE_KEEP(g_sg_a0.z) && g_sg_a0.infinity == __CPROVER_old(g_sg_a0.infinity)))
__CPROVER_ensures(ge_ok1(r) && gej_ok(a) && r->infinity == __CPROVER_old(a->infinity))
;
/* ---- x-only constant-time multiplication, first call logged ---- */
int g_xo_n; secp256k1_fe g_xo_n0, g_xo_d0, g_xo_r0; secp256k1_scalar g_xo_q0; int g_xo_known0, g_xo_has_d0;
static int secp256k1_ecmult_const_xonly(secp256k1_fe *r, const secp256k1_fe *n, const secp256k1_fe *d, const secp256k1_scalar *q, int known_on_curve)
__CPROVER_requires(__CPROVER_w_ok(r, sizeof(*r)) && __CPROVER_r_ok(n, sizeof(*n)) && fe_mag(n, 8) && (d == NULL || (__CPROVER_r_ok(d, sizeof(*d)) && fe_mag(d, 8))) && __CPROVER_r_ok(q, sizeof(*q)) && scalar_ok(q))
__CPROVER_requires((q->d[0] | q->d[1] | q->d[2] | q->d[3]) != 0)   /* src/ecmult_const.h: "q must not be zero" */
__CPROVER_assigns(*r, g_xo_n, g_xo_n0, g_xo_d0, g_xo_r0, g_xo_q0, g_xo_known0, g_xo_has_d0)
__CPROVER_ensures(fe_mag(r, 1) && (__CPROVER_return_value == 0 || __CPROVER_return_value == 1) && g_xo_n == __CPROVER_old(g_xo_n) + 1)
__CPROVER_ensures(__CPROVER_old(g_xo_n) == 0 ==> (FE_EQ_OLD(g_xo_n0, *n) && g_xo_has_d0 == (d != NULL) && (d == NULL || FE_EQ_OLD(g_xo_d0, *d)) && SC_EQ_OLD(g_xo_q0, *q) && g_xo_known0 == known_on_curve && FE_EQ(g_xo_r0, *r)))
__CPROVER_ensures(__CPROVER_old(g_xo_n) != 0 ==> (FE_KEEP(g_xo_n0) && FE_KEEP(g_xo_d0) && SC_KEEP(g_xo_q0) && FE_KEEP(g_xo_r0) && g_xo_known0 == __CPROVER_old(g_xo_known0) && g_xo_has_d0 == __CPROVER_old(g_xo_has_d0)))
;
/* ---- the ElligatorSwift forward map as one oracle (XDH unit): (u, t) in, fraction xn/xd out ---- */
int g_frac_n; secp256k1_fe g_frac_u0, g_frac_t0, g_frac_xn0, g_frac_xd0;
static void secp256k1_ellswift_xswiftec_frac_var(secp256k1_fe *xn, secp256k1_fe *xd, const secp256k1_fe *u, const secp256k1_fe *t)
__CPROVER_requires(__CPROVER_w_ok(xn, sizeof(*xn)) && __CPROVER_w_ok(xd, sizeof(*xd)) && __CPROVER_r_ok(u, sizeof(*u)) && __CPROVER_r_ok(t, sizeof(*t)) && fe_mag(u, 1) && fe_mag(t, 1))
__CPROVER_assigns(*xn, *xd, g_frac_n, g_frac_u0, g_frac_t0, g_frac_xn0, g_frac_xd0)
__CPROVER_ensures(fe_mag(xn, 8) && fe_mag(xd, 8) && g_frac_n == __CPROVER_old(g_frac_n) + 1)
__CPROVER_ensures(__CPROVER_old(g_frac_n) == 0 ==> (FE_EQ_OLD(g_frac_u0, *u) && FE_EQ_OLD(g_frac_t0, *t) && FE_EQ(g_frac_xn0, *xn) && FE_EQ(g_frac_xd0, *xd)))
__CPROVER_ensures(__CPROVER_old(g_frac_n) != 0 ==> (FE_KEEP(g_frac_u0) && FE_KEEP(g_frac_t0) && FE_KEEP(g_frac_xn0) && FE_KEEP(g_frac_xd0)))
;
/* ---- field multiplication / squaring / inversion (decode unit): operands of magnitude <= 8, result magnitude 1.
 *      Calls are identified by operand VALUE, never by call number or operand position: the harness sets WATCH
 *      field elements g_fw[0..3] (never assigned by code or contracts); flag g_fsaw[i] becomes 1 when any
 *      multiplication or squaring has an operand (either one) whose limbs equal g_fw[i].  The LATEST multiplication
 *      and the latest inversion are logged (operands as an unordered pair for the harness). ---- */
secp256k1_fe g_fw0, g_fw1, g_fw2, g_fw3; int g_fsaw0, g_fsaw1, g_fsaw2, g_fsaw3;
#define FSAW1(i, op) (g_fsaw##i == (__CPROVER_old(g_fsaw##i) || FE_EQ_OLD(g_fw##i, *op)))
#define FSAW2(i, op1, op2) (g_fsaw##i == (__CPROVER_old(g_fsaw##i) || FE_EQ_OLD(g_fw##i, *op1) || FE_EQ_OLD(g_fw##i, *op2)))
int g_sqr_n;
static void secp256k1_fe_impl_sqr(secp256k1_fe *r, const secp256k1_fe *a)
__CPROVER_requires(__CPROVER_w_ok(r, sizeof(*r)) && __CPROVER_r_ok(a, sizeof(*a)) && fe_mag(a, 8))
__CPROVER_assigns(*r, g_sqr_n, g_fsaw0, g_fsaw1, g_fsaw2, g_fsaw3)
__CPROVER_ensures(fe_mag(r, 1) && g_sqr_n == __CPROVER_old(g_sqr_n) + 1)
__CPROVER_ensures(FSAW1(0, a) && FSAW1(1, a) && FSAW1(2, a) && FSAW1(3, a))
;
int g_fmul_n; secp256k1_fe g_fmul_al, g_fmul_bl, g_fmul_rl;
static void secp256k1_fe_impl_mul(secp256k1_fe *r, const secp256k1_fe *a, const secp256k1_fe * SECP256K1_RESTRICT b)
__CPROVER_requires(__CPROVER_w_ok(r, sizeof(*r)) && __CPROVER_r_ok(a, sizeof(*a)) && __CPROVER_r_ok(b, sizeof(*b)) && fe_mag(a, 8) && fe_mag(b, 8) && r != b && a != b)
__CPROVER_assigns(*r, g_fmul_n, g_fmul_al, g_fmul_bl, g_fmul_rl, g_fsaw0, g_fsaw1, g_fsaw2, g_fsaw3)
__CPROVER_ensures(fe_mag(r, 1) && g_fmul_n == __CPROVER_old(g_fmul_n) + 1)
__CPROVER_ensures(FSAW2(0, a, b) && FSAW2(1, a, b) && FSAW2(2, a, b) && FSAW2(3, a, b))
__CPROVER_ensures(FE_EQ_OLD(g_fmul_al, *a) && FE_EQ_OLD(g_fmul_bl, *b) && FE_EQ(g_fmul_rl, *r))
;
int g_finv_n; secp256k1_fe g_finv_x0, g_finv_r0;
static void secp256k1_fe_impl_inv_var(secp256k1_fe *r, const secp256k1_fe *x)
__CPROVER_requires(__CPROVER_w_ok(r, sizeof(*r)) && __CPROVER_r_ok(x, sizeof(*x)) && fe_mag(x, 8))
__CPROVER_assigns(*r, g_finv_n, g_finv_x0, g_finv_r0)
__CPROVER_ensures(fe_mag(r, 1) && g_finv_n == __CPROVER_old(g_finv_n) + 1 && FE_EQ_OLD(g_finv_x0, *x) && FE_EQ(g_finv_r0, *r))
;
/* ---- curve-membership verdicts ---- */
int g_onc_n; secp256k1_fe g_onc_xn0, g_onc_xd0, g_onc_xn1, g_onc_xd1; int g_onc_v0, g_onc_v1;
static int secp256k1_ge_x_frac_on_curve_var(const secp256k1_fe *xn, const secp256k1_fe *xd)
__CPROVER_requires(__CPROVER_r_ok(xn, sizeof(*xn)) && __CPROVER_r_ok(xd, sizeof(*xd)) && fe_mag(xn, 8) && fe_mag(xd, 8))
__CPROVER_assigns(g_onc_n, g_onc_xn0, g_onc_xd0, g_onc_xn1, g_onc_xd1, g_onc_v0, g_onc_v1)
__CPROVER_ensures((__CPROVER_return_value == 0 || __CPROVER_return_value == 1) && g_onc_n == __CPROVER_old(g_onc_n) + 1)
__CPROVER_ensures(__CPROVER_old(g_onc_n) == 0 ? (FE_EQ(g_onc_xn0, *xn) && FE_EQ(g_onc_xd0, *xd) && g_onc_v0 == __CPROVER_return_value) : (FE_KEEP(g_onc_xn0) && FE_KEEP(g_onc_xd0) && g_onc_v0 == __CPROVER_old(g_onc_v0)))
__CPROVER_ensures(__CPROVER_old(g_onc_n) == 1 ? (FE_EQ(g_onc_xn1, *xn) && FE_EQ(g_onc_xd1, *xd) && g_onc_v1 == __CPROVER_return_value) : (FE_KEEP(g_onc_xn1) && FE_KEEP(g_onc_xd1) && g_onc_v1 == __CPROVER_old(g_onc_v1)))
;
/* ---- lift x to a point with square y: r->x is the given x, y is the oracle's ---- */
int g_xq_n; secp256k1_fe g_xq_x0, g_xq_y0; int g_xq_v0;
static int secp256k1_ge_set_xquad(secp256k1_ge *r, const secp256k1_fe *x)
__CPROVER_requires(__CPROVER_w_ok(r, sizeof(*r)) && __CPROVER_r_ok(x, sizeof(*x)) && fe_mag(x, 8))
__CPROVER_assigns(*r, g_xq_n, g_xq_x0, g_xq_y0, g_xq_v0)
__CPROVER_ensures((__CPROVER_return_value == 0 || __CPROVER_return_value == 1) && g_xq_n == __CPROVER_old(g_xq_n) + 1)
__CPROVER_ensures(FE_EQ_OLD(r->x, *x) && fe_mag(&r->y, 1) && r->infinity == 0)
__CPROVER_ensures(FE_EQ_OLD(g_xq_x0, *x) && FE_EQ(g_xq_y0, r->y) && g_xq_v0 == __CPROVER_return_value)
;
/* ---- generator multiplication, first call logged (as assumed.h with LOG_ECMULT_GEN) ---- */
int g_gen_n; secp256k1_scalar g_gen_a0; secp256k1_gej g_gen_r0;
static void secp256k1_ecmult_gen(const secp256k1_ecmult_gen_context *ctx, secp256k1_gej *r, const secp256k1_scalar *a)
__CPROVER_requires(__CPROVER_w_ok(r, sizeof(*r)) && __CPROVER_r_ok(a, sizeof(*a)) && scalar_ok(a) && __CPROVER_r_ok(ctx, sizeof(*ctx)))
__CPROVER_assigns(*r, g_gen_n, g_gen_a0, g_gen_r0)
__CPROVER_ensures(gej_ok(r) && g_gen_n == __CPROVER_old(g_gen_n) + 1)
__CPROVER_ensures(__CPROVER_old(g_gen_n) == 0 ==> (SC_EQ_OLD(g_gen_a0, *a) && FE_EQ(g_gen_r0.x, r->x) && FE_EQ(g_gen_r0.y, r->y) && FE_EQ(g_gen_r0.z, r->z) && g_gen_r0.infinity == r->infinity))
__CPROVER_ensures(__CPROVER_old(g_gen_n) != 0 ==> (SC_KEEP(g_gen_a0) && FE_KEEP(g_gen_r0.x) && FE_KEEP(g_gen_r0.y) && FE_KEEP(g_gen_r0.z) && g_gen_r0.infinity == __CPROVER_old(g_gen_r0.infinity)))
;
/* ---- SHA-256 write with CONTENT flags (create / encode gate units, used INSTEAD of hash_log.h there): the
 *      encoder's randomness derivation is explicitly not stable across versions (include/secp256k1_ellswift.h),
 *      so no stream layout is demanded - only that a write of at least 32 bytes STARTING with the watched
 *      32-byte strings (the secret key / the caller's randomness) happened. ---- */
#ifdef C18_WRITE_FLAGS
unsigned char g_wk_a[32], g_wk_b[32]; int g_saw_a, g_saw_b;      /* g_wk_*: set by the harness only */
#define WK4(w, i) (w[i] == data[i] && w[i+1] == data[i+1] && w[i+2] == data[i+2] && w[i+3] == data[i+3])
#define WK32(w) (WK4(w, 0) && WK4(w, 4) && WK4(w, 8) && WK4(w, 12) && WK4(w, 16) && WK4(w, 20) && WK4(w, 24) && WK4(w, 28))
static void secp256k1_sha256_write(const secp256k1_hash_ctx *hash_ctx, secp256k1_sha256 *hash, const unsigned char *data, size_t len)
__CPROVER_requires(__CPROVER_rw_ok(hash, sizeof(*hash)) && (len == 0 || __CPROVER_r_ok(data, len)) && hash_ctx != NULL)
__CPROVER_assigns(*hash, g_saw_a, g_saw_b)
__CPROVER_ensures(g_saw_a == (__CPROVER_old(g_saw_a) || (len >= 32 ? WK32(g_wk_a) : 0)))
__CPROVER_ensures(g_saw_b == (__CPROVER_old(g_saw_b) || (len >= 32 ? WK32(g_wk_b) : 0)))
;
#else
int g_saw_a, g_saw_b;
#endif
/* ---- the ElligatorSwift encoder search (create / encode gate units): writes u32 and a NORMALISED t; logs the point
 *      it was given, what it wrote, and which watched strings had been absorbed by then.  Its loop (PRNG, branch
 *      cycling, inverse map) is not under contract in this build. ---- */
int g_es_n; secp256k1_fe g_es_px, g_es_py, g_es_t; int g_es_saw_a, g_es_saw_b; unsigned char g_es_u[32];
#define ESU4(i) g_es_u[i] == u32[i] && g_es_u[i+1] == u32[i+1] && g_es_u[i+2] == u32[i+2] && g_es_u[i+3] == u32[i+3]
static void secp256k1_ellswift_elligatorswift_var(const secp256k1_context *ctx, unsigned char *u32, secp256k1_fe *t, const secp256k1_ge *p, const secp256k1_sha256 *hasher)
__CPROVER_requires(ctx != NULL && __CPROVER_w_ok(u32, 32) && __CPROVER_w_ok(t, sizeof(*t)) && __CPROVER_r_ok(p, sizeof(*p)) && __CPROVER_r_ok(hasher, sizeof(*hasher)))
__CPROVER_requires(fe_canon(&p->x) && fe_canon(&p->y))
__CPROVER_assigns(__CPROVER_object_upto(u32, 32), *t, g_es_n, g_es_px, g_es_py, g_es_t, g_es_saw_a, g_es_saw_b, g_es_u)
__CPROVER_ensures(fe_canon(t) && g_es_n == __CPROVER_old(g_es_n) + 1)
__CPROVER_ensures(FE_EQ(g_es_px, p->x) && FE_EQ(g_es_py, p->y) && FE_EQ(g_es_t, *t) && g_es_saw_a == g_saw_a && g_es_saw_b == g_saw_b)
__CPROVER_ensures(ESU4(0) && ESU4(4) && ESU4(8) && ESU4(12) && ESU4(16) && ESU4(20) && ESU4(24) && ESU4(28))
;
#endif

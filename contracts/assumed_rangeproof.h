/* ASSUMED (oracle) specifications for the algebraic residue of the range-proof module (C09, C10, C07),
 * plus the PROVED leaf contracts these units rely on.  Same rules as assumed.h: pointer validity the
 * callee needs (checked at every call site), frame, representation invariant of the outputs, return in
 * {0,1}, and a ghost call log.  None states an algebraic fact.
 *
 * Two mechanisms, selected by macros defined before the include:
 *
 *  (A) DFCC contracts on redeclarations (replace=[...] in the unit table) - used for callees that are
 *      defined in the same source file as their caller and are called once or a few times:
 *        RP_PUB_EXPAND  RP_GENRAND  RP_CH32XOR  RP_LEAF_ENFORCE (enforced, units C10.leaf_*)
 *
 *  (B) CALL-SITE STUBS - used for callees invoked inside the 32-ring / 128-member loops.  A DFCC contract
 *      replacement costs ~2000 SSA steps per call site (measured: verify_impl with 2 rings = 6.7 M SAT
 *      variables, 32 rings does not fit in memory); a stub costs ~50.  The stub is an ordinary C function
 *      with the contract's meaning: it ASSERTS the callee's preconditions (obligations at every call
 *      site), writes arbitrary values constrained only by the representation invariant to exactly the
 *      objects the callee may write, and records the ghost log.  Substitution is by a preprocessor rename
 *      of the USES that follow this header: the real definitions (field_impl.h, scalar_impl.h,
 *      group_impl.h, hash_impl.h, pedersen_impl.h, borromean_impl.h, ecmult_impl.h) are included here
 *      first and stay untouched; the code under verification (rangeproof_impl.h, main_impl.h, and for the
 *      borromean unit borromean_impl.h) is compiled afterwards from the real files.
 *        RP_STUB_READERS  (scalar_set_b32, fe_set_b32_limit: REAL function at the watched buffer position,
 *                          proved invariant elsewhere; gej_set_ge: exact adapter)
 *        RP_STUB_XQUAD  RP_STUB_ISSQUARE  RP_STUB_ADD_GE  RP_STUB_ADD_VAR  RP_STUB_SHA  RP_STUB_PED_SMALL
 *        RP_STUB_PED  RP_STUB_BORRO_VERIFY  RP_STUB_BORRO_SIGN  RP_STUB_SET_GEJ  RP_STUB_ECMULT
 *        RP_STUB_WINDOW (flag-logging variant of readers/xquad/add_ge for loop-contract units)  RP_STUB_SHA_KEYED
 *        RP_STUB_GET_B32  RP_STUB_SCALAR_ALG  RP_STUB_MEMCPY  RP_STUB_MEMSET  RP_STUB_CLEAR
 *
 * Ghost logs are WATCH style: the harness fixes a selector (g_*_watch call number, g_*_wp buffer
 * position, g_rp_k array index, g_rp_b byte index) that neither code nor stubs/contracts ever assign;
 * the log records arguments/result of the selected call.  An assertion about the selected call is a
 * statement about every call.  */
#ifndef VERIF_ASSUMED_RANGEPROOF_H
#define VERIF_ASSUMED_RANGEPROOF_H
#include "assumed.h"
#include "hash_log.h"

#define RP_KEEP(g) ((g) == __CPROVER_old(g))
#define GE_EQ(g, p) (FE_EQ((g).x, (p)->x) && FE_EQ((g).y, (p)->y) && (g).infinity == (p)->infinity)
#define GE_KEEP(g) (FE_KEEP((g).x) && FE_KEEP((g).y) && RP_KEEP((g).infinity))

/* representation predicates on a LOCAL COPY: the shared ge_ok/gej_ok take the address of sub-objects
 * (&g->x); applied to an array element at a symbolic index (pubs[npub]) that makes CBMC read the whole
 * 16 KB array bytewise.  Copying the element first keeps every access a plain index/member access. */
static inline int rp_gej_ok(const secp256k1_gej *g) { secp256k1_gej t = *g; return gej_ok(&t); }
static inline int rp_ge_ok(const secp256k1_ge *g) { secp256k1_ge t = *g; return ge_ok(&t); }
static inline int rp_ge_ok1(const secp256k1_ge *g) { secp256k1_ge t = *g; return ge_ok1(&t); }
static inline int rp_scalar_ok(const secp256k1_scalar *a) { secp256k1_scalar t = *a; return scalar_ok(&t); }

size_t g_rp_k;      /* ghost array index: never assigned by code, contracts or stubs */
size_t g_rp_b;      /* ghost byte index: never assigned by code, contracts or stubs */

/* sum of the first n ring sizes (specification helper; n <= 32) */
static inline size_t rp_sum(const size_t *rsizes, size_t n) {
    size_t i, t = 0;
    for (i = 0; i < 32; i++) if (i < n) t += rsizes[i];
    return t;
}

/* ====================================================================================================
 * (A) DFCC contracts
 * ==================================================================================================== */

/* ---- pub_expand as an oracle (gates units; the real body is checked in the C07 units):
 *      fills the non-first members of every ring of pubs[128] ---- */
#ifdef RP_PUB_EXPAND
struct g_pe_log { int n; int exp; size_t rings; size_t rs_k; secp256k1_gej *pubs; size_t *rsizes; const secp256k1_ge *genp; secp256k1_ge genp_v; } g_pe;
#define g_pe_genp_v g_pe.genp_v
#define g_pe_n g_pe.n
#define g_pe_exp g_pe.exp
#define g_pe_rings g_pe.rings
#define g_pe_rs_k g_pe.rs_k
#define g_pe_pubs g_pe.pubs
#define g_pe_rsizes g_pe.rsizes
#define g_pe_genp g_pe.genp
static void secp256k1_rangeproof_pub_expand(secp256k1_gej *pubs, int exp, size_t *rsizes, size_t rings, const secp256k1_ge* genp)
__CPROVER_requires(exp < 19)
__CPROVER_requires(__CPROVER_r_ok(rsizes, rings * sizeof(size_t)) && __CPROVER_r_ok(genp, sizeof(*genp)) && rp_ge_ok(genp))
#ifndef RP_CONTRACTS_NO_SUM   /* units with loop contracts: no function calls in DFCC clauses (rp_sum's locals fail the frame check there);
                                 the capacity obligation is discharged by the units without loop contracts */
__CPROVER_requires(rings > 32 || __CPROVER_rw_ok(pubs, rp_sum(rsizes, rings) * sizeof(secp256k1_gej)))
#endif
__CPROVER_assigns(__CPROVER_object_whole(pubs), g_pe)
__CPROVER_ensures(g_pe_n == __CPROVER_old(g_pe_n) + 1)
__CPROVER_ensures(__CPROVER_old(g_pe_n) == 0
    ? (g_pe_exp == exp && g_pe_rings == rings && g_pe_pubs == pubs && g_pe_rsizes == rsizes && g_pe_genp == genp && GE_EQ(g_pe_genp_v, genp) && (g_rp_k < rings ==> g_pe_rs_k == rsizes[g_rp_k]))
    : (RP_KEEP(g_pe_exp) && RP_KEEP(g_pe_rings) && RP_KEEP(g_pe_pubs) && RP_KEEP(g_pe_rsizes) && RP_KEEP(g_pe_genp) && GE_KEEP(g_pe_genp_v) && RP_KEEP(g_pe_rs_k)))
;
#endif

/* ---- the deterministic random stream of a proof (rfc6979 DRBG seeded with nonce||commit||genp||header):
 *      outputs are arbitrary; the SEED ARGUMENTS are captured so that signing and rewinding can be
 *      shown to ask for the same stream.  The caller-side obligations are the capacities of the
 *      fixed arrays it hands over: sec[32], s[128], message[4096] and len <= 10. ---- */
#ifdef RP_GENRAND
struct g_gr_log { int n; const unsigned char *nonce; const unsigned char *proof; const secp256k1_ge *commit; const secp256k1_ge *genp; size_t len; size_t rings; size_t rs_k;
    unsigned char *msg; secp256k1_scalar *sec; secp256k1_scalar *s; secp256k1_ge commit_v; secp256k1_ge genp_v; unsigned char nonce_b; unsigned char hdr[10]; } g_gr;
#define g_gr_n g_gr.n
#define g_gr_nonce g_gr.nonce
#define g_gr_proof g_gr.proof
#define g_gr_commit g_gr.commit
#define g_gr_genp g_gr.genp
#define g_gr_len g_gr.len
#define g_gr_rings g_gr.rings
#define g_gr_rs_k g_gr.rs_k
#define g_gr_msg g_gr.msg
#define g_gr_sec g_gr.sec
#define g_gr_s g_gr.s
#define g_gr_commit_v g_gr.commit_v
#define g_gr_genp_v g_gr.genp_v
#define g_gr_nonce_b g_gr.nonce_b
#define g_gr_hdr g_gr.hdr
#define GR_HDR(j) ((j) < len ==> g_gr_hdr[j] == proof[j])
#define GR_HDR_KEEP(j) (g_gr_hdr[j] == __CPROVER_old(g_gr_hdr[j]))
static int secp256k1_rangeproof_genrand(const secp256k1_hash_ctx *hash_ctx, secp256k1_scalar *sec, secp256k1_scalar *s, unsigned char *message,
 size_t *rsizes, size_t rings, const unsigned char *nonce, const secp256k1_ge *commit, const unsigned char *proof, size_t len, const secp256k1_ge* genp)
__CPROVER_requires(hash_ctx != NULL && len <= 10)
__CPROVER_requires(__CPROVER_r_ok(nonce, 32) && __CPROVER_r_ok(proof, len) && __CPROVER_r_ok(commit, sizeof(*commit)) && __CPROVER_r_ok(genp, sizeof(*genp)))
__CPROVER_requires(__CPROVER_r_ok(rsizes, rings * sizeof(size_t)))
/* what the body touches: sec[0..rings), s[0..sum rsizes), message[0 .. 128*(rings-1) + 32*rsizes[rings-1]) */
#ifndef RP_CONTRACTS_NO_SUM
__CPROVER_requires(rings == 0 || rings > 32 || (__CPROVER_w_ok(sec, rings * sizeof(secp256k1_scalar)) && __CPROVER_w_ok(s, rp_sum(rsizes, rings) * sizeof(secp256k1_scalar)) &&
                   (message == NULL || __CPROVER_rw_ok(message, 128 * (rings - 1) + 32 * rsizes[rings - 1]))))
#endif
__CPROVER_assigns(__CPROVER_object_whole(sec), __CPROVER_object_whole(s))
__CPROVER_assigns(message != NULL: __CPROVER_object_whole(message))
__CPROVER_assigns(g_gr)
__CPROVER_ensures(__CPROVER_return_value == 0 || __CPROVER_return_value == 1)
__CPROVER_ensures(g_gr_n == __CPROVER_old(g_gr_n) + 1)
__CPROVER_ensures(__CPROVER_old(g_gr_n) == 0
    ? (g_gr_nonce == nonce && g_gr_proof == proof && g_gr_commit == commit && g_gr_genp == genp && g_gr_len == len && g_gr_rings == rings && g_gr_msg == message &&
       g_gr_sec == sec && g_gr_s == s && GE_EQ(g_gr_commit_v, commit) && GE_EQ(g_gr_genp_v, genp) &&
       (g_rp_k < rings ==> g_gr_rs_k == rsizes[g_rp_k]) && (g_rp_b < 32 ==> g_gr_nonce_b == nonce[g_rp_b]) &&
       GR_HDR(0) && GR_HDR(1) && GR_HDR(2) && GR_HDR(3) && GR_HDR(4) && GR_HDR(5) && GR_HDR(6) && GR_HDR(7) && GR_HDR(8) && GR_HDR(9))
    : (GR_HDR_KEEP(0) && GR_HDR_KEEP(1) && GR_HDR_KEEP(2) && GR_HDR_KEEP(3) && GR_HDR_KEEP(4) && GR_HDR_KEEP(5) && GR_HDR_KEEP(6) && GR_HDR_KEEP(7) && GR_HDR_KEEP(8) && GR_HDR_KEEP(9) &&
       RP_KEEP(g_gr_nonce) && RP_KEEP(g_gr_proof) && RP_KEEP(g_gr_commit) && RP_KEEP(g_gr_genp) && RP_KEEP(g_gr_len) && RP_KEEP(g_gr_rings) && RP_KEEP(g_gr_msg) &&
       RP_KEEP(g_gr_sec) && RP_KEEP(g_gr_s) && GE_KEEP(g_gr_commit_v) && GE_KEEP(g_gr_genp_v) && RP_KEEP(g_gr_rs_k) && RP_KEEP(g_gr_nonce_b)))
;
#endif

/* ---- x ^= y over 32 bytes (leaf of rewind_inner; keeps 130 x 32 symbolic-offset reads of prep[4096] out of the formula) ---- */
#ifdef RP_CH32XOR
static void secp256k1_rangeproof_ch32xor(unsigned char *x, const unsigned char *y)
__CPROVER_requires(__CPROVER_rw_ok(x, 32) && __CPROVER_r_ok(y, 32))
__CPROVER_assigns(__CPROVER_object_upto(x, 32))
;
#endif

/* ---- the DRBG itself (only for the unit that checks the real genrand body) ---- */
#ifdef RP_HMAC
static void secp256k1_rfc6979_hmac_sha256_initialize(const secp256k1_hash_ctx *hash_ctx, secp256k1_rfc6979_hmac_sha256 *rng, const unsigned char *key, size_t keylen)
__CPROVER_requires(hash_ctx != NULL && __CPROVER_w_ok(rng, sizeof(*rng)) && __CPROVER_r_ok(key, keylen))
__CPROVER_assigns(*rng)
;
static void secp256k1_rfc6979_hmac_sha256_generate(const secp256k1_hash_ctx *hash_ctx, secp256k1_rfc6979_hmac_sha256 *rng, unsigned char *out, size_t outlen)
__CPROVER_requires(hash_ctx != NULL && __CPROVER_rw_ok(rng, sizeof(*rng)) && __CPROVER_w_ok(out, outlen))
__CPROVER_assigns(*rng, __CPROVER_object_upto(out, outlen))
;
#endif

/* ---- PROVED leaf contracts (units C10.leaf_*): frame, representation invariant of the outputs, verdict in
 *      {0,1} and the functional relation bytes <-> value, for every input ---- */
#ifdef RP_LEAF_ENFORCE
static void secp256k1_scalar_set_b32(secp256k1_scalar *r, const unsigned char *b32, int *overflow)
__CPROVER_requires(__CPROVER_w_ok(r, sizeof(*r)) && __CPROVER_r_ok(b32, 32) && (overflow == NULL || __CPROVER_w_ok(overflow, sizeof(int))))
__CPROVER_assigns(*r) __CPROVER_assigns(overflow != NULL: *overflow)
__CPROVER_ensures(scalar_ok(r))
__CPROVER_ensures(overflow != NULL ==> (*overflow == 0 || *overflow == 1))
__CPROVER_ensures(sval(r) == (be256(b32) >= N_() ? be256(b32) - N_() : be256(b32)) && (overflow != NULL ==> *overflow == (be256(b32) >= N_())))
;
static int secp256k1_fe_impl_set_b32_limit(secp256k1_fe *r, const unsigned char *a)
__CPROVER_requires(__CPROVER_w_ok(r, sizeof(*r)) && __CPROVER_r_ok(a, 32))
__CPROVER_assigns(*r)
__CPROVER_ensures((__CPROVER_return_value == 0 || __CPROVER_return_value == 1) && (r->n[0] >> 52) == 0 && (r->n[1] >> 52) == 0 && (r->n[2] >> 52) == 0 && (r->n[3] >> 52) == 0 && (r->n[4] >> 48) == 0)
__CPROVER_ensures(__CPROVER_return_value == (be256(a) < P_()) && (__CPROVER_return_value == 1 ==> fval(r) == be256(a)))
;
#endif

/* ====================================================================================================
 * (B) call-site stubs
 * ==================================================================================================== */
#if defined(RP_STUB_WINDOW) || defined(RP_STUB_READERS) || defined(RP_STUB_XQUAD) || defined(RP_STUB_ISSQUARE) || defined(RP_STUB_ADD_GE) || defined(RP_STUB_ADD_VAR) || \
    defined(RP_STUB_SHA) || defined(RP_STUB_SHA_KEYED) || defined(RP_STUB_PED_SMALL) || defined(RP_STUB_PED) || defined(RP_STUB_BORRO_VERIFY) || defined(RP_STUB_BORRO_SIGN) || \
    defined(RP_STUB_SET_GEJ) || defined(RP_STUB_ECMULT) || defined(RP_STUB_GET_B32) || defined(RP_STUB_SCALAR_ALG) || defined(RP_STUB_MEMCPY) || defined(RP_STUB_MEMSET) || defined(RP_STUB_CLEAR)
/* the real definitions first */
#include "src/field_impl.h"
#include "src/scalar_impl.h"
#include "src/group_impl.h"
#include "src/hash_impl.h"
#if defined(RP_STUB_ECMULT)
# include "src/ecmult_impl.h"
#endif
#if defined(RP_STUB_PED_SMALL) || defined(RP_STUB_PED)
# include "src/modules/generator/pedersen_impl.h"
#endif
#if defined(RP_STUB_BORRO_VERIFY) || defined(RP_STUB_BORRO_SIGN)
# include "src/modules/rangeproof/borromean_impl.h"
#endif
uint64_t nondet_rp_u64(void); int nondet_rp_int(void); secp256k1_ge nondet_rp_ge(void); secp256k1_gej nondet_rp_gej(void); secp256k1_scalar nondet_rp_scalar(void);
#define RP_PRE(c, msg) __CPROVER_assert(c, "precondition at call site: " msg)

#ifdef RP_STUB_READERS
/* scalar_set_b32 / fe_set_b32_limit: at the watched buffer position the stub returns what THE REAL FUNCTION
 * computes on the watched bytes; elsewhere it returns an arbitrary value satisfying the invariant proved in C10.leaf_*
 * (scalar < n / limbs in range, verdict in {0,1}) and checks that 32 bytes are readable.  (The real bodies
 * read 32 bytes per call at symbolic offsets of one 5 KB buffer: quadratic array constraints.) */
const unsigned char *g_sb_wp;            /* watch pointer: set once by rp_watch_scalar before the call under test */
struct g_sb_log { int n, hit, wovf, any /* disjunction of all overflow verdicts so far */; secp256k1_scalar wr; } g_sb;
#define g_sb_n g_sb.n
#define g_sb_hit g_sb.hit
#define g_sb_wovf g_sb.wovf
#define g_sb_or g_sb.any
#define g_sb_wr g_sb.wr
/* the REAL secp256k1_scalar_set_b32 is run ONCE on the watched bytes (they are const for the call under test);
 * every call site that reads the watched position gets that result */
static void rp_watch_scalar(const unsigned char *p) { g_sb_wp = p; if (p != NULL) secp256k1_scalar_set_b32(&g_sb.wr, p, &g_sb.wovf); }
static void rp_stub_scalar_set_b32(secp256k1_scalar *r, const unsigned char *b32, int *overflow) {
    int ov;
    RP_PRE(__CPROVER_r_ok(b32, 32), "scalar_set_b32 reads 32 bytes");
    if (b32 == g_sb_wp) {
        *r = g_sb.wr; ov = g_sb.wovf; g_sb.hit = 1;
    } else {
        secp256k1_scalar t = nondet_rp_scalar(); ov = nondet_rp_int();
        __CPROVER_assume(scalar_ok(&t) && (ov == 0 || ov == 1));      /* invariant proved in C10.leaf_scalar_set_b32 */
        *r = t;
    }
    if (overflow != NULL) { *overflow = ov; g_sb.any = g_sb.any || ov; }
    g_sb.n++;
}
const unsigned char *g_fl_wp;            /* watch pointer: set once by rp_watch_fe before the call under test */
struct g_fl_log { int n, hit, wv, all /* conjunction of all verdicts so far */; secp256k1_fe wr; } g_fl;
#define g_fl_n g_fl.n
#define g_fl_hit g_fl.hit
#define g_fl_wv g_fl.wv
#define g_fl_and g_fl.all
#define g_fl_wr g_fl.wr
static void rp_watch_fe(const unsigned char *p) { g_fl_wp = p; if (p != NULL) g_fl.wv = secp256k1_fe_impl_set_b32_limit(&g_fl.wr, p); }
static int rp_stub_fe_set_b32_limit(secp256k1_fe *r, const unsigned char *a) {
    int ret;
    RP_PRE(__CPROVER_r_ok(a, 32), "fe_set_b32_limit reads 32 bytes");
    if (a == g_fl_wp) {
        *r = g_fl.wr; ret = g_fl.wv; g_fl.hit = 1;
    } else {
        secp256k1_fe t;
        t.n[0] = nondet_rp_u64(); t.n[1] = nondet_rp_u64(); t.n[2] = nondet_rp_u64(); t.n[3] = nondet_rp_u64(); t.n[4] = nondet_rp_u64(); ret = nondet_rp_int();
        __CPROVER_assume((t.n[0] >> 52) == 0 && (t.n[1] >> 52) == 0 && (t.n[2] >> 52) == 0 && (t.n[3] >> 52) == 0 && (t.n[4] >> 48) == 0 && (ret == 0 || ret == 1)); /* proved in C10.leaf_fe_set_b32_limit */
        *r = t;
    }
    g_fl.all = g_fl.all && ret;
    g_fl.n++;
    return ret;
}
/* exact ADAPTER (no abstraction): the real secp256k1_gej_set_ge runs on a local temporary which is then
 * struct-assigned to the destination; avoids writes through a pointer to a sub-object of pubs[npub] at a
 * symbolic index (CBMC turns those into byte_updates of the whole 16 KB array). */
static void rp_adapt_gej_set_ge(secp256k1_gej *r, const secp256k1_ge *a) {
#ifdef RP_GEJ_SET_GE_FRAME
    /* gates units (pubs[] content is irrelevant there: expansion and ring equation are oracles): bounds obligation +
     * frame over-approximated to the whole destination object - one fresh array instead of a 16 KB multiplexer per digit */
    secp256k1_ge u = *a; (void)u;
    RP_PRE(__CPROVER_w_ok(r, sizeof(*r)), "gej_set_ge destination writable");
    __CPROVER_havoc_object(r);
#else
    secp256k1_gej t;
    secp256k1_gej_set_ge(&t, a);
    *r = t;
#endif
}
#endif


#ifdef RP_STUB_WINDOW  /* Variant of the reader / lift / accumulate stubs for units that put the ring loops of verify_impl under LOOP
   CONTRACTS: the logs are flat int FLAGS (loop invariants may only mention plain expressions), computed inside the stubs from values.
   Watched digit: buffer position rpl_fl_wp.  "Window" = from the read of the watched digit to the next digit read; the first lift and
   the first accumulation inside the window belong to the watched digit (no call counts, robust against equal values in other digits).
   Watched ring scalar: buffer position rpl_sb_wp.  rpl_*_w* (the REAL reader's result on the watched bytes) and rpl_commit are set once
   by the harness before the call and never assigned afterwards. */
const unsigned char *rpl_fl_wp, *rpl_sb_wp; secp256k1_fe rpl_fl_wr; int rpl_fl_wv; secp256k1_scalar rpl_sb_wr; int rpl_sb_wovf; secp256k1_ge rpl_commit;
int rpl_fl_hit, rpl_fl_now, rpl_fl_all, rpl_xq_hit, rpl_xq_v, rpl_xq_all, rpl_ag_hit, rpl_ag_same, rpl_ag_negd, rpl_ag_last_inf, rpl_ag_last_is_commit, rpl_sb_hit, rpl_sb_any;
secp256k1_ge rpl_xq_r;
static void rpl_watch_fe(const unsigned char *p) { rpl_fl_wp = p; if (p != NULL) rpl_fl_wv = secp256k1_fe_impl_set_b32_limit(&rpl_fl_wr, p); }
static void rpl_watch_scalar(const unsigned char *p) { rpl_sb_wp = p; if (p != NULL) secp256k1_scalar_set_b32(&rpl_sb_wr, p, &rpl_sb_wovf); }
#define RPL_RESET() do { rpl_fl_hit = 0; rpl_fl_now = 0; rpl_fl_all = 1; rpl_xq_hit = 0; rpl_xq_v = 0; rpl_xq_all = 1; rpl_ag_hit = 0; rpl_ag_same = 0; rpl_ag_negd = 0; \
    rpl_ag_last_inf = 0; rpl_ag_last_is_commit = 0; rpl_sb_hit = 0; rpl_sb_any = 0; rpl_fl_wp = NULL; rpl_sb_wp = NULL; } while (0)
static int rpl_stub_fe_set_b32_limit(secp256k1_fe *r, const unsigned char *a) {
    int ret;
    RP_PRE(__CPROVER_r_ok(a, 32), "fe_set_b32_limit reads 32 bytes");
    if (a == rpl_fl_wp) { *r = rpl_fl_wr; ret = rpl_fl_wv; rpl_fl_hit = 1; rpl_fl_now = 1; }
    else {
        secp256k1_fe t;
        t.n[0] = nondet_rp_u64(); t.n[1] = nondet_rp_u64(); t.n[2] = nondet_rp_u64(); t.n[3] = nondet_rp_u64(); t.n[4] = nondet_rp_u64(); ret = nondet_rp_int();
        __CPROVER_assume((t.n[0] >> 52) == 0 && (t.n[1] >> 52) == 0 && (t.n[2] >> 52) == 0 && (t.n[3] >> 52) == 0 && (t.n[4] >> 48) == 0 && (ret == 0 || ret == 1)); /* proved in C10.leaf_fe_set_b32_limit */
        *r = t; rpl_fl_now = 0;
    }
    rpl_fl_all = rpl_fl_all && ret;
    return ret;
}
static void rpl_stub_scalar_set_b32(secp256k1_scalar *r, const unsigned char *b32, int *overflow) {
    int ov;
    RP_PRE(__CPROVER_r_ok(b32, 32), "scalar_set_b32 reads 32 bytes");
    if (b32 == rpl_sb_wp) { *r = rpl_sb_wr; ov = rpl_sb_wovf; rpl_sb_hit = 1; }
    else {
        secp256k1_scalar t = nondet_rp_scalar(); ov = nondet_rp_int();
        __CPROVER_assume(scalar_ok(&t) && (ov == 0 || ov == 1));      /* invariant proved in C10.leaf_scalar_set_b32 */
        *r = t;
    }
    if (overflow != NULL) { *overflow = ov; rpl_sb_any = rpl_sb_any || ov; }
}
static int rpl_stub_ge_set_xquad(secp256k1_ge *r, const secp256k1_fe *x) {
    secp256k1_ge t = nondet_rp_ge(); int ret = nondet_rp_int();
    RP_PRE(fe_mag(x, 8), "ge_set_xquad: x is a valid field element (fe_sqr takes magnitude <= 8)");
    __CPROVER_assume(ge_ok1(&t) && (ret == 0 || ret == 1));
    t.x = *x; t.infinity = 0;
    if (rpl_fl_now && !rpl_xq_hit && FE_EQ(t.x, rpl_fl_wr)) { rpl_xq_hit = 1; rpl_xq_v = ret; rpl_xq_r = t; }
    rpl_xq_all = rpl_xq_all && ret;
    *r = t;
    return ret;
}
static void rpl_stub_gej_add_ge_var(secp256k1_gej *r, const secp256k1_gej *a, const secp256k1_ge *b, secp256k1_fe *rzr) {
    secp256k1_gej t = nondet_rp_gej(); secp256k1_ge bv = *b;
    RP_PRE(rp_gej_ok(a) && rp_ge_ok(b), "gej_add_ge_var operands in representation range");
    __CPROVER_assume(gej_ok(&t));
    if (rpl_fl_now && rpl_xq_hit && !rpl_ag_hit) {
        secp256k1_ge ng = rpl_xq_r;
        secp256k1_ge_neg(&ng, &ng);
        rpl_ag_hit = 1;
        rpl_ag_same = FE_EQ(bv.x, rpl_xq_r.x) && FE_EQ(bv.y, rpl_xq_r.y) && bv.infinity == 0;
        rpl_ag_negd = FE_EQ(bv.x, ng.x) && FE_EQ(bv.y, ng.y) && bv.infinity == 0;
    }
    rpl_ag_last_inf = t.infinity;
    rpl_ag_last_is_commit = FE_EQ(bv.x, rpl_commit.x) && FE_EQ(bv.y, rpl_commit.y) && bv.infinity == rpl_commit.infinity;
    if (rzr != NULL) { rzr->n[0] = nondet_rp_u64(); rzr->n[1] = nondet_rp_u64(); rzr->n[2] = nondet_rp_u64(); rzr->n[3] = nondet_rp_u64(); rzr->n[4] = nondet_rp_u64(); }
    *r = t;
}
static void rpl_frame_gej_set_ge(secp256k1_gej *r, const secp256k1_ge *a) {
    secp256k1_ge u = *a; (void)u;
    RP_PRE(__CPROVER_w_ok(r, sizeof(*r)), "gej_set_ge destination writable");
    __CPROVER_havoc_object(r);
}
#endif

#ifdef RP_STUB_XQUAD     /* lift_x oracle: is there a curve point with this x (and square y)?  verdict log */
int g_xq_watch;
struct g_xq_log { int n, hit, v, all /* conjunction of all verdicts so far */; secp256k1_fe x; secp256k1_ge r; } g_xq;
#define g_xq_n g_xq.n
#define g_xq_hit g_xq.hit
#define g_xq_v g_xq.v
#define g_xq_and g_xq.all
#define g_xq_x g_xq.x
#define g_xq_r g_xq.r
static int rp_stub_ge_set_xquad(secp256k1_ge *r, const secp256k1_fe *x) {
    secp256k1_ge t = nondet_rp_ge(); int ret = nondet_rp_int();
    RP_PRE(fe_mag(x, 8), "ge_set_xquad: x is a valid field element (fe_sqr takes magnitude <= 8)");
    __CPROVER_assume(ge_ok1(&t) && (ret == 0 || ret == 1));
    t.x = *x; t.infinity = 0;                     /* r->x = *x is a copy in the code, not algebra */
    if (g_xq.n == g_xq_watch) { g_xq.hit = 1; g_xq.v = ret; g_xq.x = *x; g_xq.r = t; }
    g_xq.all = g_xq.all && ret; g_xq.n++;
    *r = t;
    return ret;
}
#endif

#ifdef RP_STUB_ISSQUARE  /* quadratic-residue oracle (sign byte of a serialized point) */
int g_sq_watch;
struct g_sq_log { int n, hit, v; secp256k1_fe a; } g_sq;
#define g_sq_n g_sq.n
#define g_sq_hit g_sq.hit
#define g_sq_v g_sq.v
#define g_sq_a g_sq.a
static int rp_stub_fe_is_square_var(const secp256k1_fe *a) {
    int ret = nondet_rp_int();
    __CPROVER_assume(ret == 0 || ret == 1);
    if (g_sq.n == g_sq_watch) { g_sq.hit = 1; g_sq.v = ret; g_sq.a = *a; }
    g_sq.n++;
    return ret;
}
#endif

#ifdef RP_STUB_ADD_GE    /* r = a + b (b affine): arbitrary group element in representation range */
int g_ag_watch;
struct g_ag_log { int n, hit, last_inf /* infinity flag of the most recent result */; secp256k1_gej *rp; const secp256k1_gej *ap; const secp256k1_ge *bp; secp256k1_gej a; secp256k1_ge b, last_b /* second operand of the most recent call */; secp256k1_gej r; } g_ag;
#define g_ag_a g_ag.a
#define g_ag_last_b g_ag.last_b
#define g_ag_n g_ag.n
#define g_ag_hit g_ag.hit
#define g_ag_last_inf g_ag.last_inf
#define g_ag_rp g_ag.rp
#define g_ag_ap g_ag.ap
#define g_ag_bp g_ag.bp
#define g_ag_b g_ag.b
#define g_ag_r g_ag.r
static void rp_stub_gej_add_ge_var(secp256k1_gej *r, const secp256k1_gej *a, const secp256k1_ge *b, secp256k1_fe *rzr) {
    secp256k1_gej t = nondet_rp_gej();
    RP_PRE(rp_gej_ok(a) && rp_ge_ok(b), "gej_add_ge_var operands in representation range");
    __CPROVER_assume(gej_ok(&t));
    if (g_ag.n == g_ag_watch) { g_ag.hit = 1; g_ag.rp = r; g_ag.ap = a; g_ag.bp = b; g_ag.a = *a; g_ag.b = *b; g_ag.r = t; }
    g_ag.last_inf = t.infinity; g_ag.last_b = *b; g_ag.n++;
    if (rzr != NULL) { rzr->n[0] = nondet_rp_u64(); rzr->n[1] = nondet_rp_u64(); rzr->n[2] = nondet_rp_u64(); rzr->n[3] = nondet_rp_u64(); rzr->n[4] = nondet_rp_u64(); }
    *r = t;
}
#endif

#ifdef RP_STUB_ADD_VAR   /* Jacobian add / double inside pub_expand */
static void rp_stub_gej_add_var(secp256k1_gej *r, const secp256k1_gej *a, const secp256k1_gej *b, secp256k1_fe *rzr) {
    secp256k1_gej t = nondet_rp_gej();
    RP_PRE(rp_gej_ok(a) && rp_gej_ok(b), "gej_add_var operands in representation range");
    __CPROVER_assume(gej_ok(&t));
    if (rzr != NULL) { rzr->n[0] = nondet_rp_u64(); rzr->n[1] = nondet_rp_u64(); rzr->n[2] = nondet_rp_u64(); rzr->n[3] = nondet_rp_u64(); rzr->n[4] = nondet_rp_u64(); }
    *r = t;
}
static void rp_stub_gej_double_var(secp256k1_gej *r, const secp256k1_gej *a, secp256k1_fe *rzr) {
    secp256k1_gej t = nondet_rp_gej();
    RP_PRE(rp_gej_ok(a), "gej_double_var operand in representation range");
    __CPROVER_assume(gej_ok(&t));
    if (rzr != NULL) { rzr->n[0] = nondet_rp_u64(); rzr->n[1] = nondet_rp_u64(); rzr->n[2] = nondet_rp_u64(); rzr->n[3] = nondet_rp_u64(); rzr->n[4] = nondet_rp_u64(); }
    *r = t;
}
#endif

#ifdef RP_STUB_SHA       /* transliteration of the stream contracts of hash_log.h (proved in the C05 hash units) */
static void rp_stub_sha256_write(const secp256k1_hash_ctx *hash_ctx, secp256k1_sha256 *hash, const unsigned char *data, size_t len) {
    uint64_t ob = hash->bytes; secp256k1_sha256 t;
    RP_PRE(hash_ctx != NULL && (len == 0 || __CPROVER_r_ok(data, len)) && ob + len >= len, "sha256_write reads len bytes");
    if (g_h_fresh && g_fin_n == g_we) { g_w_started = 1; g_w_s0 = hash->s[0]; g_w_s7 = hash->s[7]; g_w_b0 = ob; }
    if (g_fin_n == g_we && ob <= g_wpos && g_wpos < ob + len) { g_w_hit = 1; g_w_byte = data[g_wpos - ob]; }
    g_h_fresh = 0;
    t.s[0] = (uint32_t)nondet_rp_u64(); t.s[1] = (uint32_t)nondet_rp_u64(); t.s[2] = (uint32_t)nondet_rp_u64(); t.s[3] = (uint32_t)nondet_rp_u64();
    t.s[4] = (uint32_t)nondet_rp_u64(); t.s[5] = (uint32_t)nondet_rp_u64(); t.s[6] = (uint32_t)nondet_rp_u64(); t.s[7] = (uint32_t)nondet_rp_u64();
    hash->s[0] = t.s[0]; hash->s[1] = t.s[1]; hash->s[2] = t.s[2]; hash->s[3] = t.s[3]; hash->s[4] = t.s[4]; hash->s[5] = t.s[5]; hash->s[6] = t.s[6]; hash->s[7] = t.s[7];
    hash->bytes = ob + len;          /* buf content: left as is (never read by the code under verification) */
}
unsigned char nondet_rp_uchar(void);
static void rp_stub_sha256_finalize(const secp256k1_hash_ctx *hash_ctx, secp256k1_sha256 *hash, unsigned char *out32) {
    int i;
    RP_PRE(hash_ctx != NULL && __CPROVER_w_ok(out32, 32), "sha256_finalize writes 32 bytes");
    for (i = 0; i < 32; i++) out32[i] = nondet_rp_uchar();
    if (g_fin_n == g_we) { g_w_fin = 1; g_w_end = hash->bytes; for (i = 0; i < 32; i++) g_w_dig[i] = out32[i]; }
    g_fin_n++; g_h_fresh = 1;
    hash->bytes = nondet_rp_u64();
}
#endif


#ifdef RP_STUB_SHA_KEYED /* sha256 stream stubs for the Borromean unit: hash computations are identified BY CONTENT, not by ordinal.
   A challenge hash ends with two 4-byte writes be32(ring) || be32(position); the harness fixes a key (g_kh_ki, g_kh_kj) that
   nothing assigns; the finalize of the hash whose last two 4-byte writes equal the key records digest, length, initial state
   and the byte at stream position g_wpos.  The closing hash is identified by its total length g_kh_clen (33 per ring + |m|,
   never the length of a challenge hash).  Same meaning as the stream contracts of hash_log.h otherwise. */
uint32_t g_kh_ki, g_kh_kj; uint64_t g_kh_clen;      /* selectors: never assigned by code or stubs */
struct g_kh_log { int cur_hit, n4, fin, hit, cfin, nfin; unsigned char cur_byte, byte, l4a[4], l4b[4], dig[32], cdig[32]; uint32_t cur_s0, s0; uint64_t end; } g_kh;
unsigned char nondet_rp_uchar(void);
static void rp_stub_sha256_write(const secp256k1_hash_ctx *hash_ctx, secp256k1_sha256 *hash, const unsigned char *data, size_t len) {
    uint64_t ob = hash->bytes;
    RP_PRE(hash_ctx != NULL && (len == 0 || __CPROVER_r_ok(data, len)) && ob + len >= len, "sha256_write reads len bytes");
    if (ob == 0) { g_kh.cur_hit = 0; g_kh.cur_s0 = hash->s[0]; g_kh.n4 = 0; }
    if (ob <= g_wpos && g_wpos < ob + len) { g_kh.cur_hit = 1; g_kh.cur_byte = data[g_wpos - ob]; }
    if (len == 4) { g_kh.l4a[0] = g_kh.l4b[0]; g_kh.l4a[1] = g_kh.l4b[1]; g_kh.l4a[2] = g_kh.l4b[2]; g_kh.l4a[3] = g_kh.l4b[3];
                    g_kh.l4b[0] = data[0]; g_kh.l4b[1] = data[1]; g_kh.l4b[2] = data[2]; g_kh.l4b[3] = data[3]; if (g_kh.n4 < 2) g_kh.n4++; }
    else g_kh.n4 = 0;
    hash->s[0] = (uint32_t)nondet_rp_u64(); hash->s[1] = (uint32_t)nondet_rp_u64(); hash->s[2] = (uint32_t)nondet_rp_u64(); hash->s[3] = (uint32_t)nondet_rp_u64();
    hash->s[4] = (uint32_t)nondet_rp_u64(); hash->s[5] = (uint32_t)nondet_rp_u64(); hash->s[6] = (uint32_t)nondet_rp_u64(); hash->s[7] = (uint32_t)nondet_rp_u64();
    hash->bytes = ob + len;
}
static void rp_stub_sha256_finalize(const secp256k1_hash_ctx *hash_ctx, secp256k1_sha256 *hash, unsigned char *out32) {
    int i;
    RP_PRE(hash_ctx != NULL && __CPROVER_w_ok(out32, 32), "sha256_finalize writes 32 bytes");
    for (i = 0; i < 32; i++) out32[i] = nondet_rp_uchar();
    if (g_kh.n4 == 2 && !g_kh.fin &&
        g_kh.l4a[0] == (unsigned char)(g_kh_ki >> 24) && g_kh.l4a[1] == (unsigned char)(g_kh_ki >> 16) && g_kh.l4a[2] == (unsigned char)(g_kh_ki >> 8) && g_kh.l4a[3] == (unsigned char)g_kh_ki &&
        g_kh.l4b[0] == (unsigned char)(g_kh_kj >> 24) && g_kh.l4b[1] == (unsigned char)(g_kh_kj >> 16) && g_kh.l4b[2] == (unsigned char)(g_kh_kj >> 8) && g_kh.l4b[3] == (unsigned char)g_kh_kj) {
        g_kh.fin = 1; g_kh.end = hash->bytes; g_kh.hit = g_kh.cur_hit; g_kh.byte = g_kh.cur_byte; g_kh.s0 = g_kh.cur_s0;
        for (i = 0; i < 32; i++) g_kh.dig[i] = out32[i];
    }
    if (hash->bytes == g_kh_clen && !g_kh.cfin) { g_kh.cfin = 1; for (i = 0; i < 32; i++) g_kh.cdig[i] = out32[i]; }
    g_kh.nfin++; g_kh.n4 = 0;
    hash->bytes = nondet_rp_u64();
}
#define KH_RESET() do { g_kh.cur_hit = 0; g_kh.n4 = 0; g_kh.fin = 0; g_kh.hit = 0; g_kh.cfin = 0; g_kh.nfin = 0; } while (0)
#endif

#ifdef RP_STUB_PED_SMALL /* value * H */
struct g_ps_log { int n; uint64_t gn0; const secp256k1_ge *genp0; secp256k1_gej *rp0; secp256k1_ge genp0_v; secp256k1_gej r0; } g_ps;
#define g_ps_genp0_v g_ps.genp0_v
#define g_ps_r0 g_ps.r0
#define g_ps_n g_ps.n
#define g_ps_gn0 g_ps.gn0
#define g_ps_genp0 g_ps.genp0
#define g_ps_rp0 g_ps.rp0
static void rp_stub_pedersen_ecmult_small(secp256k1_gej *r, uint64_t gn, const secp256k1_ge* genp) {
    secp256k1_gej t = nondet_rp_gej();
    RP_PRE(rp_ge_ok(genp), "pedersen_ecmult_small generator in representation range");
    __CPROVER_assume(gej_ok(&t));
    if (g_ps.n == 0) { g_ps.gn0 = gn; g_ps.genp0 = genp; g_ps.rp0 = r; g_ps.genp0_v = *genp; g_ps.r0 = t; }
    g_ps.n++;
    *r = t;
}
#endif

#ifdef RP_STUB_PED       /* blind * G + value * H */
int g_pd_watch;
struct g_pd_log { int n, hit, inf; uint64_t value; secp256k1_scalar sec; const secp256k1_scalar *secp; const secp256k1_ge *genp; secp256k1_gej *rp; } g_pd;
#define g_pd_n g_pd.n
#define g_pd_hit g_pd.hit
#define g_pd_inf g_pd.inf
#define g_pd_value g_pd.value
#define g_pd_sec g_pd.sec
#define g_pd_secp g_pd.secp
#define g_pd_genp g_pd.genp
#define g_pd_rp g_pd.rp
static void rp_stub_pedersen_ecmult(const secp256k1_ecmult_gen_context *ecmult_gen_ctx, secp256k1_gej *rj, const secp256k1_scalar *sec, uint64_t value, const secp256k1_ge* genp) {
    secp256k1_gej t = nondet_rp_gej();
    RP_PRE(ecmult_gen_ctx != NULL && rp_ge_ok(genp), "pedersen_ecmult context and generator");
    __CPROVER_assume(gej_ok(&t));
    if (g_pd.n == g_pd_watch) { g_pd.hit = 1; g_pd.inf = t.infinity; g_pd.value = value; g_pd.sec = *sec; g_pd.secp = sec; g_pd.genp = genp; g_pd.rp = rj; }
    g_pd.n++;
    *rj = t;
}
#endif

#ifdef RP_STUB_BORRO_VERIFY  /* Borromean ring-signature verification: verdict oracle with argument log (first call) */
struct g_bv_log { int n, v, all /* conjunction of all verdicts so far */, pub_inf_k; secp256k1_scalar *ev; const unsigned char *e0, *m; const secp256k1_scalar *s; const secp256k1_gej *pubs; const size_t *rsizes;
    size_t nrings, mlen, rs_k, npub; secp256k1_scalar s_k; unsigned char m_b, e0_b; } g_bv;
#define g_bv_n g_bv.n
#define g_bv_v g_bv.v
#define g_bv_and g_bv.all
#define g_bv_ev g_bv.ev
#define g_bv_e0 g_bv.e0
#define g_bv_m g_bv.m
#define g_bv_s g_bv.s
#define g_bv_pubs g_bv.pubs
#define g_bv_rsizes g_bv.rsizes
#define g_bv_nrings g_bv.nrings
#define g_bv_mlen g_bv.mlen
#define g_bv_rs_k g_bv.rs_k
#define g_bv_npub g_bv.npub
#define g_bv_s_k g_bv.s_k
#define g_bv_m_b g_bv.m_b
#define g_bv_e0_b g_bv.e0_b
#define g_bv_pub_inf_k g_bv.pub_inf_k
static int rp_stub_borromean_verify(const secp256k1_hash_ctx *hash_ctx, secp256k1_scalar *evalues, const unsigned char *e0,
 const secp256k1_scalar *s, const secp256k1_gej *pubs, const size_t *rsizes, size_t nrings, const unsigned char *m, size_t mlen) {
    int ret = nondet_rp_int(); size_t np = 0;
    __CPROVER_assume(ret == 0 || ret == 1);
    /* the real body's VERIFY_CHECKs and reads: non-NULL arguments, nrings > 0, 32 bytes of e0, mlen bytes of m, nrings ring sizes,
     * sum(rsizes) scalars (each a valid scalar) and keys, and sum(rsizes) challenges written if evalues != NULL */
    RP_PRE(hash_ctx != NULL && __CPROVER_r_ok(e0, 32) && nrings >= 1 && (mlen == 0 || __CPROVER_r_ok(m, mlen)), "borromean_verify: e0, message, ring count");
    RP_PRE(__CPROVER_r_ok(rsizes, nrings * sizeof(size_t)), "borromean_verify: nrings ring sizes readable");
    if (nrings <= 32) {
        np = rp_sum(rsizes, nrings);
        RP_PRE(__CPROVER_r_ok(s, np * sizeof(secp256k1_scalar)) && __CPROVER_r_ok(pubs, np * sizeof(secp256k1_gej)), "borromean_verify: sum(rsizes) scalars and keys readable");
        RP_PRE(g_rp_k >= np || rp_scalar_ok(&s[g_rp_k]), "borromean_verify: every scalar < n");
        RP_PRE(evalues == NULL || __CPROVER_w_ok(evalues, np * sizeof(secp256k1_scalar)), "borromean_verify: sum(rsizes) challenges writable");
    }
    if (g_bv.n == 0) {
        g_bv.v = ret; g_bv.ev = evalues; g_bv.e0 = e0; g_bv.m = m; g_bv.s = s; g_bv.pubs = pubs; g_bv.rsizes = rsizes; g_bv.nrings = nrings; g_bv.mlen = mlen; g_bv.npub = np;
        if (g_rp_k < nrings) g_bv.rs_k = rsizes[g_rp_k];
        if (g_rp_k < np) { g_bv.s_k = s[g_rp_k]; g_bv.pub_inf_k = pubs[g_rp_k].infinity; }
        if (g_rp_b < 32) { if (g_rp_b < mlen) g_bv.m_b = m[g_rp_b]; g_bv.e0_b = e0[g_rp_b]; }
    }
    g_bv.all = g_bv.all && ret;
    g_bv.n++;
    if (evalues != NULL) __CPROVER_havoc_object(evalues);
    return ret;
}
#endif

#ifdef RP_STUB_BORRO_SIGN    /* Borromean signing: writes e0[32] and s[], verdict oracle */
struct g_bs_log { int n; unsigned char *e0; const unsigned char *m; size_t nrings, mlen, rs_k, si_k, npub; const secp256k1_gej *pubs; secp256k1_scalar *s; unsigned char m_b; } g_bs;
#define g_bs_n g_bs.n
#define g_bs_e0 g_bs.e0
#define g_bs_m g_bs.m
#define g_bs_nrings g_bs.nrings
#define g_bs_mlen g_bs.mlen
#define g_bs_rs_k g_bs.rs_k
#define g_bs_si_k g_bs.si_k
#define g_bs_npub g_bs.npub
#define g_bs_pubs g_bs.pubs
#define g_bs_s g_bs.s
#define g_bs_m_b g_bs.m_b
static int rp_stub_borromean_sign(const secp256k1_hash_ctx *hash_ctx, const secp256k1_ecmult_gen_context *ecmult_gen_ctx,
 unsigned char *e0, secp256k1_scalar *s, const secp256k1_gej *pubs, const secp256k1_scalar *k, const secp256k1_scalar *sec,
 const size_t *rsizes, const size_t *secidx, size_t nrings, const unsigned char *m, size_t mlen) {
    int ret = nondet_rp_int(); size_t np;
    __CPROVER_assume(ret == 0 || ret == 1);
    RP_PRE(hash_ctx != NULL && ecmult_gen_ctx != NULL && __CPROVER_w_ok(e0, 32) && nrings >= 1 && (mlen == 0 || __CPROVER_r_ok(m, mlen)), "borromean_sign: e0, message, ring count");
    RP_PRE(__CPROVER_r_ok(rsizes, nrings * sizeof(size_t)) && __CPROVER_r_ok(secidx, nrings * sizeof(size_t)), "borromean_sign: ring sizes and secret indices readable");
    RP_PRE(__CPROVER_r_ok(k, nrings * sizeof(secp256k1_scalar)) && __CPROVER_r_ok(sec, nrings * sizeof(secp256k1_scalar)), "borromean_sign: nrings nonces and secrets readable");
    RP_PRE(g_rp_k >= nrings || secidx[g_rp_k] < rsizes[g_rp_k], "borromean_sign: secret index inside its ring (the body writes s[count + secidx[i]])");
    np = nrings <= 32 ? rp_sum(rsizes, nrings) : 0;
    RP_PRE(nrings > 32 || (__CPROVER_rw_ok(s, np * sizeof(secp256k1_scalar)) && __CPROVER_r_ok(pubs, np * sizeof(secp256k1_gej))), "borromean_sign: sum(rsizes) scalars writable and keys readable");
    if (g_bs.n == 0) {
        g_bs.e0 = e0; g_bs.m = m; g_bs.nrings = nrings; g_bs.mlen = mlen; g_bs.pubs = pubs; g_bs.s = s; g_bs.npub = np;
        if (g_rp_k < nrings) { g_bs.rs_k = rsizes[g_rp_k]; g_bs.si_k = secidx[g_rp_k]; }
        if (g_rp_b < 32 && g_rp_b < mlen) g_bs.m_b = m[g_rp_b];
    }
    g_bs.n++;
    __CPROVER_havoc_object(e0);        /* frame over-approximated to the whole object holding e0 (the proof buffer) */
    __CPROVER_havoc_object(s);
    return ret;
}
#endif

#ifdef RP_STUB_SET_GEJ   /* Jacobian -> affine.  Watch by call number (g_sg_watch >= 0) or BY VALUE (g_sg_by_value: first call whose
                            input equals g_sg_key, e.g. the logged result of an ecmult) */
int g_em_hit_idx;   /* call number of the watched ecmult call (set by the ecmult stub), -1 before */
int g_sg_watch, g_sg_by_value /* 0: by call number, 1: by input value, 2: the call with the same call number as the watched ecmult call */; secp256k1_gej g_sg_key;
struct g_sgw_log { int n, hit; secp256k1_ge r; secp256k1_gej in; } g_sgw;
#define g_sg_n g_sgw.n
#define g_sg_hit g_sgw.hit
#define g_sg_r g_sgw.r
#define GEJ_VEQ(p, q) (FE_EQ((p).x, (q).x) && FE_EQ((p).y, (q).y) && FE_EQ((p).z, (q).z) && (p).infinity == (q).infinity)
static void rp_stub_ge_set_gej_var(secp256k1_ge *r, secp256k1_gej *a) {
    secp256k1_ge t = nondet_rp_ge(); secp256k1_gej u = nondet_rp_gej(), in = *a; int inf = a->infinity;
    RP_PRE(rp_gej_ok(a), "ge_set_gej_var operand in representation range");
    __CPROVER_assume(ge_ok1(&t) && gej_ok(&u));
    t.infinity = inf; u.infinity = inf;
    if (!g_sgw.hit && (g_sg_by_value == 2 ? g_sgw.n == g_em_hit_idx : g_sg_by_value == 1 ? GEJ_VEQ(in, g_sg_key) : g_sgw.n == g_sg_watch)) { g_sgw.hit = 1; g_sgw.r = t; g_sgw.in = in; }
    g_sgw.n++;
    *a = u;                              /* the input may be rescaled */
    *r = t;
}
#endif

#ifdef RP_STUB_ECMULT    /* na*A + ng*G.  Watch by call number (g_em_watch >= 0) or BY VALUE (g_em_by_value: first call whose point and
                            G-scalar equal g_em_key_a / g_em_key_ng) */
int g_em_watch, g_em_by_value; secp256k1_gej g_em_key_a; secp256k1_scalar g_em_key_ng;
struct g_em_log { int n, hit, rinf, has_na, has_ng; const secp256k1_gej *ap; const secp256k1_scalar *ngp; secp256k1_scalar na, ng; secp256k1_gej a, r; } g_em;
#define g_em_n g_em.n
#define g_em_hit g_em.hit
#define g_em_rinf g_em.rinf
#define g_em_ap g_em.ap
#define g_em_ngp g_em.ngp
#define g_em_na g_em.na
#define g_em_ng g_em.ng
#define g_em_a g_em.a
#define g_em_r g_em.r
#ifndef GEJ_VEQ
#define GEJ_VEQ(p, q) (FE_EQ((p).x, (q).x) && FE_EQ((p).y, (q).y) && FE_EQ((p).z, (q).z) && (p).infinity == (q).infinity)
#endif
static void rp_stub_ecmult(secp256k1_gej *r, const secp256k1_gej *a, const secp256k1_scalar *na, const secp256k1_scalar *ng) {
    secp256k1_gej t = nondet_rp_gej(), in = *a;
    RP_PRE(rp_gej_ok(a) && (na == NULL || rp_scalar_ok(na)) && (ng == NULL || rp_scalar_ok(ng)), "ecmult operands in representation range");
    __CPROVER_assume(gej_ok(&t));
    if (!g_em.hit && (g_em_by_value ? (ng != NULL && SC_EQ(*ng, g_em_key_ng) && GEJ_VEQ(in, g_em_key_a)) : g_em.n == g_em_watch)) {
        g_em.hit = 1; g_em_hit_idx = g_em.n; g_em.rinf = t.infinity; g_em.ap = a; g_em.ngp = ng; g_em.a = in; g_em.r = t; g_em.has_na = na != NULL; g_em.has_ng = ng != NULL;
        if (na != NULL) g_em.na = *na;
        if (ng != NULL) g_em.ng = *ng;
    }
    g_em.n++;
    *r = t;
}
#endif

#ifdef RP_STUB_GET_B32   /* scalar -> 32 bytes, frame over-approximated to the whole destination object (signing units:
                            one fresh array instead of 32 symbolic-offset updates per call); w_ok(bin,32) is the bounds obligation */
struct g_gb_log { int n; unsigned char *first, *last; } g_gb;
#define g_gb_n g_gb.n
#define g_gb_first g_gb.first
#define g_gb_last g_gb.last
static void rp_stub_scalar_get_b32(unsigned char *bin, const secp256k1_scalar* a) {
    RP_PRE(__CPROVER_w_ok(bin, 32) && __CPROVER_r_ok(a, sizeof(*a)), "scalar_get_b32 writes 32 bytes");
    if (g_gb.n == 0) g_gb.first = bin;
    g_gb.last = bin; g_gb.n++;
    __CPROVER_havoc_object(bin);
}
#endif

#ifdef RP_STUB_SCALAR_ALG /* scalar multiplication / inversion without a representation precondition (rewind works on
                             oracle outputs for which only "some scalar object" is known); result < n */
static void rp_stub_scalar_mul(secp256k1_scalar *r, const secp256k1_scalar *a, const secp256k1_scalar *b) {
    secp256k1_scalar t = nondet_rp_scalar(); secp256k1_scalar ua = *a, ub = *b; (void)ua; (void)ub;
    __CPROVER_assume(scalar_ok(&t));
    *r = t;
}
static void rp_stub_scalar_inverse(secp256k1_scalar *r, const secp256k1_scalar *x) {
    secp256k1_scalar t = nondet_rp_scalar(); secp256k1_scalar ux = *x; (void)ux;
    __CPROVER_assume(scalar_ok(&t));
    *r = t;
}
#endif

#ifdef RP_STUB_CLEAR     /* secret wiping (secp256k1_scalar_clear / secp256k1_memclear_explicit): "callers must not rely on" the zeroes
                            (util.h), so the content afterwards is arbitrary; bounds stay an obligation.  CBMC's memset model costs
                            ~300 SSA steps per 32-byte wipe and rewind_inner wipes 160 scalars. */
static void rp_stub_scalar_clear(secp256k1_scalar *r) {
    RP_PRE(__CPROVER_w_ok(r, sizeof(*r)), "scalar_clear destination writable");
    *r = nondet_rp_scalar();
}
static void rp_stub_memclear_explicit(void *ptr, size_t len) {
    RP_PRE(__CPROVER_w_ok(ptr, len), "memclear_explicit destination writable for len bytes");
    __CPROVER_havoc_object(ptr);
}
#endif

#ifdef RP_STUB_MEMSET    /* memset with content and frame over-approximated: arbitrary bytes in the whole destination object */
static void *rp_stub_memset(void *dst, int c, size_t n) {
    (void)c;
    RP_PRE(__CPROVER_w_ok(dst, n), "memset destination writable for n bytes");
    __CPROVER_havoc_object(dst);
    return dst;
}
#endif

#ifdef RP_STUB_MEMCPY    /* memcpy with the frame over-approximated to the whole destination object (DESIGN 2.4) */
static void *rp_stub_memcpy(void *dst, const void *src, size_t n) {
    RP_PRE(__CPROVER_r_ok(src, n) && __CPROVER_w_ok(dst, n), "memcpy source readable and destination writable for n bytes");
    __CPROVER_havoc_object(dst);
    return dst;
}
#endif

/* ---- the renames: every USE below this line goes to the stub ---- */
#ifdef RP_STUB_WINDOW
# define secp256k1_scalar_set_b32 rpl_stub_scalar_set_b32
# define secp256k1_fe_impl_set_b32_limit rpl_stub_fe_set_b32_limit
# define secp256k1_ge_set_xquad rpl_stub_ge_set_xquad
# define secp256k1_gej_add_ge_var rpl_stub_gej_add_ge_var
# define secp256k1_gej_set_ge rpl_frame_gej_set_ge
#endif
#ifdef RP_STUB_READERS
# define secp256k1_scalar_set_b32 rp_stub_scalar_set_b32
# define secp256k1_fe_impl_set_b32_limit rp_stub_fe_set_b32_limit
# define secp256k1_gej_set_ge rp_adapt_gej_set_ge
#endif
#ifdef RP_STUB_XQUAD
# define secp256k1_ge_set_xquad rp_stub_ge_set_xquad
#endif
#ifdef RP_STUB_ISSQUARE
# define secp256k1_fe_impl_is_square_var rp_stub_fe_is_square_var
#endif
#ifdef RP_STUB_ADD_GE
# define secp256k1_gej_add_ge_var rp_stub_gej_add_ge_var
#endif
#ifdef RP_STUB_ADD_VAR
# define secp256k1_gej_add_var rp_stub_gej_add_var
# define secp256k1_gej_double_var rp_stub_gej_double_var
#endif
#if defined(RP_STUB_SHA) || defined(RP_STUB_SHA_KEYED)
# define secp256k1_sha256_write rp_stub_sha256_write
# define secp256k1_sha256_finalize rp_stub_sha256_finalize
#endif
#ifdef RP_STUB_PED_SMALL
# define secp256k1_pedersen_ecmult_small rp_stub_pedersen_ecmult_small
#endif
#ifdef RP_STUB_PED
# define secp256k1_pedersen_ecmult rp_stub_pedersen_ecmult
#endif
#ifdef RP_STUB_BORRO_VERIFY
# define secp256k1_borromean_verify rp_stub_borromean_verify
#endif
#ifdef RP_STUB_BORRO_SIGN
# define secp256k1_borromean_sign rp_stub_borromean_sign
#endif
#ifdef RP_STUB_SET_GEJ
# define secp256k1_ge_set_gej_var rp_stub_ge_set_gej_var
#endif
#ifdef RP_STUB_ECMULT
# define secp256k1_ecmult rp_stub_ecmult
#endif
#ifdef RP_STUB_GET_B32
# define secp256k1_scalar_get_b32 rp_stub_scalar_get_b32
#endif
#ifdef RP_STUB_SCALAR_ALG
# define secp256k1_scalar_mul rp_stub_scalar_mul
# define secp256k1_scalar_inverse rp_stub_scalar_inverse
#endif
#ifdef RP_STUB_MEMCPY
# define memcpy rp_stub_memcpy
#endif
#ifdef RP_STUB_MEMSET
# define memset rp_stub_memset
#endif
#ifdef RP_STUB_CLEAR
# define secp256k1_scalar_clear rp_stub_scalar_clear
# define secp256k1_memclear_explicit rp_stub_memclear_explicit
#endif
#endif /* any stub */
#endif

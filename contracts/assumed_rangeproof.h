/* ASSUMED (oracle) contracts for the algebraic residue of the range-proof module (C09, C10, C07).
 * Same rules as assumed.h: pointer validity the callee needs, frame, representation invariant of
 * the outputs, return in {0,1}, and a ghost call log.  None states an algebraic fact.
 *
 * Ghost logs here are WATCH style (as in hash_log.h): the harness fixes a watch selector
 * (g_*_watch / g_rp_k) that neither code nor contracts ever assign; the contract records the
 * arguments/result of call number == watch.  An assertion about the watched call is therefore a
 * statement about every call.  g_rp_k is a ghost array index used the same way for "for all k".
 *
 * Sections are selected by macros defined before the include:
 *   RP_XQUAD  RP_ISSQUARE  RP_ADD_GE  RP_ADD_VAR  RP_PED_SMALL  RP_PED  RP_PUB_EXPAND
 *   RP_BORRO_VERIFY  RP_BORRO_SIGN  RP_GENRAND  RP_RECOVER  RP_HMAC  RP_MEMCPY  RP_ECMULT_WATCH
 *   proved leaf contracts: RP_LEAF_ENFORCE (C10.leaf_* units)  RP_STUB_READERS  RP_GET_B32  RP_CH32XOR  RP_MEMCPY_WHOLE
 * RP_ECMULT_WATCH brings its own contracts for secp256k1_ecmult / secp256k1_ge_set_gej_var and
 * therefore must be used with hash_log.h/pre.h, not with assumed.h. */
#ifndef VERIF_ASSUMED_RANGEPROOF_H
#define VERIF_ASSUMED_RANGEPROOF_H
#ifdef RP_ECMULT_WATCH
# include "pre.h"
# define SC_EQ(x, y) ((x).d[0] == (y).d[0] && (x).d[1] == (y).d[1] && (x).d[2] == (y).d[2] && (x).d[3] == (y).d[3])
# define SC_KEEP(x) ((x).d[0] == __CPROVER_old((x).d[0]) && (x).d[1] == __CPROVER_old((x).d[1]) && (x).d[2] == __CPROVER_old((x).d[2]) && (x).d[3] == __CPROVER_old((x).d[3]))
# define SC_EQ_OLD(x, y) ((x).d[0] == __CPROVER_old((y).d[0]) && (x).d[1] == __CPROVER_old((y).d[1]) && (x).d[2] == __CPROVER_old((y).d[2]) && (x).d[3] == __CPROVER_old((y).d[3]))
# define FE_EQ(x, y) ((x).n[0] == (y).n[0] && (x).n[1] == (y).n[1] && (x).n[2] == (y).n[2] && (x).n[3] == (y).n[3] && (x).n[4] == (y).n[4])
# define FE_KEEP(x) ((x).n[0] == __CPROVER_old((x).n[0]) && (x).n[1] == __CPROVER_old((x).n[1]) && (x).n[2] == __CPROVER_old((x).n[2]) && (x).n[3] == __CPROVER_old((x).n[3]) && (x).n[4] == __CPROVER_old((x).n[4]))
# define FE_EQ_OLD(x, y) ((x).n[0] == __CPROVER_old((y).n[0]) && (x).n[1] == __CPROVER_old((y).n[1]) && (x).n[2] == __CPROVER_old((y).n[2]) && (x).n[3] == __CPROVER_old((y).n[3]) && (x).n[4] == __CPROVER_old((y).n[4]))
static inline int ge_ok(const secp256k1_ge *g) { return fe_mag(&g->x, 4) && fe_mag(&g->y, 3) && (g->infinity == 0 || g->infinity == 1); }
static inline int ge_ok1(const secp256k1_ge *g) { return fe_mag(&g->x, 1) && fe_mag(&g->y, 1) && (g->infinity == 0 || g->infinity == 1); }
static inline int gej_ok(const secp256k1_gej *g) { return fe_mag(&g->x, 4) && fe_mag(&g->y, 4) && fe_mag(&g->z, 1) && (g->infinity == 0 || g->infinity == 1); }
#else
# include "assumed.h"
#endif


/* representation predicates on a LOCAL COPY: the shared ge_ok/gej_ok take the address of sub-objects
 * (&g->x); applied to an array element at a symbolic index (pubs[npub]) that makes CBMC read the whole
 * 16 KB array bytewise.  Copying the element first keeps every access a plain index/member access. */
static inline int rp_gej_ok(const secp256k1_gej *g) { secp256k1_gej t = *g; return gej_ok(&t); }
static inline int rp_ge_ok(const secp256k1_ge *g) { secp256k1_ge t = *g; return ge_ok(&t); }
static inline int rp_ge_ok1(const secp256k1_ge *g) { secp256k1_ge t = *g; return ge_ok1(&t); }
static inline int rp_scalar_ok(const secp256k1_scalar *a) { secp256k1_scalar t = *a; return scalar_ok(&t); }

#define RP_OLD(e) __CPROVER_old(e)
#define RP_KEEP(g) ((g) == __CPROVER_old(g))
#define GE_EQ(g, p) (FE_EQ((g).x, (p)->x) && FE_EQ((g).y, (p)->y) && (g).infinity == (p)->infinity)
#define GE_EQ_OLD(g, p) (FE_EQ_OLD((g).x, (p)->x) && FE_EQ_OLD((g).y, (p)->y) && (g).infinity == __CPROVER_old((p)->infinity))
#define GE_KEEP(g) (FE_KEEP((g).x) && FE_KEEP((g).y) && RP_KEEP((g).infinity))
#define GEJ_EQ(g, p) (FE_EQ((g).x, (p)->x) && FE_EQ((g).y, (p)->y) && FE_EQ((g).z, (p)->z) && (g).infinity == (p)->infinity)
#define GEJ_KEEP(g) (FE_KEEP((g).x) && FE_KEEP((g).y) && FE_KEEP((g).z) && RP_KEEP((g).infinity))

size_t g_rp_k;      /* ghost array index: never assigned by code or contracts */
size_t g_rp_b;      /* ghost byte index: never assigned by code or contracts */

/* sum of the first n ring sizes (specification helper; n <= 32) */
static inline size_t rp_sum(const size_t *rsizes, size_t n) {
    size_t i, t = 0;
    for (i = 0; i < 32; i++) if (i < n) t += rsizes[i];
    return t;
}

/* ---- lift_x oracle: is there a curve point with this x (and square y)?  verdict log ---- */
#ifdef RP_XQUAD
struct g_xq_log { int n; int hit; int v; int all /* conjunction of all verdicts so far */; secp256k1_fe x; secp256k1_ge r; } g_xq;
#define g_xq_n g_xq.n
#define g_xq_hit g_xq.hit
#define g_xq_v g_xq.v
#define g_xq_and g_xq.all /* conjunction of all verdicts so far */
#define g_xq_x g_xq.x
#define g_xq_r g_xq.r
int g_xq_watch;
static int secp256k1_ge_set_xquad(secp256k1_ge *r, const secp256k1_fe *x)
__CPROVER_requires(__CPROVER_w_ok(r, sizeof(*r)) && __CPROVER_r_ok(x, sizeof(*x)) && fe_mag(x, 1))
__CPROVER_assigns(*r, g_xq)
__CPROVER_ensures(__CPROVER_return_value == 0 || __CPROVER_return_value == 1)
__CPROVER_ensures(rp_ge_ok1(r) && r->infinity == 0 && FE_EQ_OLD(r->x, *x))          /* r->x = *x is a copy in the code, not algebra */
__CPROVER_ensures(g_xq_n == __CPROVER_old(g_xq_n) + 1 && g_xq_and == (__CPROVER_old(g_xq_and) && __CPROVER_return_value))
__CPROVER_ensures(__CPROVER_old(g_xq_n) == g_xq_watch
    ? (g_xq_hit == 1 && g_xq_v == __CPROVER_return_value && FE_EQ_OLD(g_xq_x, *x) && GE_EQ(g_xq_r, r))
    : (RP_KEEP(g_xq_hit) && RP_KEEP(g_xq_v) && FE_KEEP(g_xq_x) && GE_KEEP(g_xq_r)))
;
#endif

/* ---- quadratic-residue oracle (sign byte of a serialized point) ---- */
#ifdef RP_ISSQUARE
struct g_sq_log { int n; int hit; int v; secp256k1_fe a; } g_sq;
#define g_sq_n g_sq.n
#define g_sq_hit g_sq.hit
#define g_sq_v g_sq.v
#define g_sq_a g_sq.a
int g_sq_watch;
static int secp256k1_fe_impl_is_square_var(const secp256k1_fe *a)
__CPROVER_requires(__CPROVER_r_ok(a, sizeof(*a)))
__CPROVER_assigns(g_sq)
__CPROVER_ensures(__CPROVER_return_value == 0 || __CPROVER_return_value == 1)
__CPROVER_ensures(g_sq_n == __CPROVER_old(g_sq_n) + 1)
__CPROVER_ensures(__CPROVER_old(g_sq_n) == g_sq_watch
    ? (g_sq_hit == 1 && g_sq_v == __CPROVER_return_value && FE_EQ(g_sq_a, *a))
    : (RP_KEEP(g_sq_hit) && RP_KEEP(g_sq_v) && FE_KEEP(g_sq_a)))
;
#endif

/* ---- group additions / doublings: arbitrary group element in representation range ---- */
#ifdef RP_ADD_GE
struct g_ag_log { int n; int hit; int last_inf /* infinity flag of the most recent result */; secp256k1_gej * rp; const secp256k1_gej * ap; secp256k1_ge b; const secp256k1_ge * bp; secp256k1_gej r; } g_ag;
#define g_ag_n g_ag.n
#define g_ag_hit g_ag.hit
#define g_ag_last_inf g_ag.last_inf /* infinity flag of the most recent result */
#define g_ag_rp g_ag.rp
#define g_ag_ap g_ag.ap
#define g_ag_b g_ag.b
#define g_ag_bp g_ag.bp
#define g_ag_r g_ag.r
int g_ag_watch;
static void secp256k1_gej_add_ge_var(secp256k1_gej *r, const secp256k1_gej *a, const secp256k1_ge *b, secp256k1_fe *rzr)
__CPROVER_requires(__CPROVER_w_ok(r, sizeof(*r)) && __CPROVER_r_ok(a, sizeof(*a)) && __CPROVER_r_ok(b, sizeof(*b)) && rzr == NULL)
__CPROVER_requires(rp_gej_ok(a) && rp_ge_ok(b))
__CPROVER_assigns(*r, g_ag)
__CPROVER_ensures(rp_gej_ok(r))
__CPROVER_ensures(g_ag_n == __CPROVER_old(g_ag_n) + 1 && g_ag_last_inf == r->infinity)
__CPROVER_ensures(__CPROVER_old(g_ag_n) == g_ag_watch
    ? (g_ag_hit == 1 && g_ag_rp == r && g_ag_ap == a && g_ag_bp == b && GE_EQ_OLD(g_ag_b, b) && GEJ_EQ(g_ag_r, r))
    : (RP_KEEP(g_ag_hit) && RP_KEEP(g_ag_rp) && RP_KEEP(g_ag_ap) && RP_KEEP(g_ag_bp) && GE_KEEP(g_ag_b) && GEJ_KEEP(g_ag_r)))
;
#endif
#ifdef RP_ADD_VAR
static void secp256k1_gej_add_var(secp256k1_gej *r, const secp256k1_gej *a, const secp256k1_gej *b, secp256k1_fe *rzr)
__CPROVER_requires(__CPROVER_w_ok(r, sizeof(*r)) && __CPROVER_r_ok(a, sizeof(*a)) && __CPROVER_r_ok(b, sizeof(*b)) && rzr == NULL)
__CPROVER_requires(rp_gej_ok(a) && rp_gej_ok(b))
__CPROVER_assigns(*r)
__CPROVER_ensures(rp_gej_ok(r))
;
static void secp256k1_gej_double_var(secp256k1_gej *r, const secp256k1_gej *a, secp256k1_fe *rzr)
__CPROVER_requires(__CPROVER_w_ok(r, sizeof(*r)) && __CPROVER_r_ok(a, sizeof(*a)) && rzr == NULL)
__CPROVER_requires(rp_gej_ok(a))
__CPROVER_assigns(*r)
__CPROVER_ensures(rp_gej_ok(r))
;
#endif

/* ---- value*H and blind*G + value*H ---- */
#ifdef RP_PED_SMALL
struct g_ps_log { int n; uint64_t gn0; const secp256k1_ge * genp0; secp256k1_gej * rp0; } g_ps;
#define g_ps_n g_ps.n
#define g_ps_gn0 g_ps.gn0
#define g_ps_genp0 g_ps.genp0
#define g_ps_rp0 g_ps.rp0
static void secp256k1_pedersen_ecmult_small(secp256k1_gej *r, uint64_t gn, const secp256k1_ge* genp)
__CPROVER_requires(__CPROVER_w_ok(r, sizeof(*r)) && __CPROVER_r_ok(genp, sizeof(*genp)) && rp_ge_ok(genp))
__CPROVER_assigns(*r, g_ps)
__CPROVER_ensures(rp_gej_ok(r))
__CPROVER_ensures(g_ps_n == __CPROVER_old(g_ps_n) + 1)
__CPROVER_ensures(__CPROVER_old(g_ps_n) == 0 ? (g_ps_gn0 == gn && g_ps_genp0 == genp && g_ps_rp0 == r) : (RP_KEEP(g_ps_gn0) && RP_KEEP(g_ps_genp0) && RP_KEEP(g_ps_rp0)))
;
#endif
#ifdef RP_PED
struct g_pd_log { int n; int hit; uint64_t value; secp256k1_scalar sec; const secp256k1_scalar * secp; const secp256k1_ge * genp; secp256k1_gej * rp; int inf; } g_pd;
#define g_pd_n g_pd.n
#define g_pd_hit g_pd.hit
#define g_pd_value g_pd.value
#define g_pd_sec g_pd.sec
#define g_pd_secp g_pd.secp
#define g_pd_genp g_pd.genp
#define g_pd_rp g_pd.rp
#define g_pd_inf g_pd.inf
int g_pd_watch;
static void secp256k1_pedersen_ecmult(const secp256k1_ecmult_gen_context *ecmult_gen_ctx, secp256k1_gej *rj, const secp256k1_scalar *sec, uint64_t value, const secp256k1_ge* genp)
__CPROVER_requires(ecmult_gen_ctx != NULL && __CPROVER_w_ok(rj, sizeof(*rj)) && __CPROVER_r_ok(sec, sizeof(*sec)) && __CPROVER_r_ok(genp, sizeof(*genp)) && rp_ge_ok(genp))
__CPROVER_assigns(*rj, g_pd)
__CPROVER_ensures(rp_gej_ok(rj))
__CPROVER_ensures(g_pd_n == __CPROVER_old(g_pd_n) + 1)
__CPROVER_ensures(__CPROVER_old(g_pd_n) == g_pd_watch
    ? (g_pd_hit == 1 && g_pd_value == value && SC_EQ_OLD(g_pd_sec, *sec) && g_pd_secp == sec && g_pd_genp == genp && g_pd_rp == rj && g_pd_inf == rj->infinity)
    : (RP_KEEP(g_pd_hit) && RP_KEEP(g_pd_value) && SC_KEEP(g_pd_sec) && RP_KEEP(g_pd_secp) && RP_KEEP(g_pd_genp) && RP_KEEP(g_pd_rp) && RP_KEEP(g_pd_inf)))
;
#endif

/* ---- pub_expand as an oracle (gates units; the real body is checked in the C07 units):
 *      fills the non-first members of every ring of pubs[128] ---- */
#ifdef RP_PUB_EXPAND
struct g_pe_log { int n; int exp; size_t rings; size_t rs_k; secp256k1_gej * pubs; size_t * rsizes; const secp256k1_ge * genp; } g_pe;
#define g_pe_n g_pe.n
#define g_pe_exp g_pe.exp
#define g_pe_rings g_pe.rings
#define g_pe_rs_k g_pe.rs_k
#define g_pe_pubs g_pe.pubs
#define g_pe_rsizes g_pe.rsizes
#define g_pe_genp g_pe.genp
static void secp256k1_rangeproof_pub_expand(secp256k1_gej *pubs, int exp, size_t *rsizes, size_t rings, const secp256k1_ge* genp)
__CPROVER_requires(exp < 19 && rings >= 1 && rings <= 32)
__CPROVER_requires(__CPROVER_r_ok(rsizes, rings * sizeof(size_t)) && __CPROVER_r_ok(genp, sizeof(*genp)) && rp_ge_ok(genp))
__CPROVER_requires(g_rp_k < rings ==> (rsizes[g_rp_k] >= 1 && rsizes[g_rp_k] <= 4))
__CPROVER_requires(__CPROVER_w_ok(pubs, 128 * sizeof(secp256k1_gej)))
__CPROVER_assigns(__CPROVER_object_whole(pubs), g_pe)
__CPROVER_ensures(g_pe_n == __CPROVER_old(g_pe_n) + 1)
__CPROVER_ensures(__CPROVER_old(g_pe_n) == 0
    ? (g_pe_exp == exp && g_pe_rings == rings && g_pe_pubs == pubs && g_pe_rsizes == rsizes && g_pe_genp == genp && (g_rp_k < rings ==> g_pe_rs_k == rsizes[g_rp_k]))
    : (RP_KEEP(g_pe_exp) && RP_KEEP(g_pe_rings) && RP_KEEP(g_pe_pubs) && RP_KEEP(g_pe_rsizes) && RP_KEEP(g_pe_genp) && RP_KEEP(g_pe_rs_k)))
;
#endif

/* ---- Borromean ring-signature verification as an oracle with verdict log ---- */
#ifdef RP_BORRO_VERIFY
struct g_bv_log { int n; int v; secp256k1_scalar * ev; const unsigned char * e0; const unsigned char * m; const secp256k1_scalar * s; const secp256k1_gej * pubs; const size_t * rsizes; size_t nrings; size_t mlen; size_t rs_k; secp256k1_scalar s_k; unsigned char m_b; unsigned char e0_b; int pub_inf_k; } g_bv;
#define g_bv_n g_bv.n
#define g_bv_v g_bv.v
#define g_bv_ev g_bv.ev
#define g_bv_e0 g_bv.e0
#define g_bv_m g_bv.m
#define g_bv_s g_bv.s
#define g_bv_pubs g_bv.pubs
#define g_bv_rsizes g_bv.rsizes
#define g_bv_nrings g_bv.nrings
#define g_bv_mlen g_bv.mlen
#define g_bv_rs_k g_bv.rs_k
#define g_bv_s_k g_bv.s_k
#define g_bv_m_b g_bv.m_b
#define g_bv_e0_b g_bv.e0_b
#define g_bv_pub_inf_k g_bv.pub_inf_k
int secp256k1_borromean_verify(const secp256k1_hash_ctx *hash_ctx, secp256k1_scalar *evalues, const unsigned char *e0,
 const secp256k1_scalar *s, const secp256k1_gej *pubs, const size_t *rsizes, size_t nrings, const unsigned char *m, size_t mlen)
__CPROVER_requires(hash_ctx != NULL && __CPROVER_r_ok(e0, 32) && nrings >= 1 && nrings <= 32 && mlen == 32 && __CPROVER_r_ok(m, mlen))
__CPROVER_requires(__CPROVER_r_ok(rsizes, nrings * sizeof(size_t)))
__CPROVER_requires(g_rp_k < nrings ==> (rsizes[g_rp_k] >= 1 && rsizes[g_rp_k] <= 4))
__CPROVER_requires(__CPROVER_r_ok(s, rp_sum(rsizes, nrings) * sizeof(secp256k1_scalar)) && __CPROVER_r_ok(pubs, rp_sum(rsizes, nrings) * sizeof(secp256k1_gej)))
__CPROVER_requires(g_rp_k < rp_sum(rsizes, nrings) ==> rp_scalar_ok(&s[g_rp_k]))
__CPROVER_requires(evalues == NULL || __CPROVER_w_ok(evalues, rp_sum(rsizes, nrings) * sizeof(secp256k1_scalar)))
__CPROVER_assigns(evalues != NULL: __CPROVER_object_whole(evalues))
__CPROVER_assigns(g_bv)
__CPROVER_ensures(__CPROVER_return_value == 0 || __CPROVER_return_value == 1)
__CPROVER_ensures(g_bv_n == __CPROVER_old(g_bv_n) + 1)
__CPROVER_ensures(__CPROVER_old(g_bv_n) == 0
    ? (g_bv_v == __CPROVER_return_value && g_bv_ev == evalues && g_bv_e0 == e0 && g_bv_m == m && g_bv_s == s && g_bv_pubs == pubs && g_bv_rsizes == rsizes &&
       g_bv_nrings == nrings && g_bv_mlen == mlen && (g_rp_k < nrings ==> g_bv_rs_k == rsizes[g_rp_k]) &&
       (g_rp_k < rp_sum(rsizes, nrings) ==> (SC_EQ(g_bv_s_k, s[g_rp_k]) && g_bv_pub_inf_k == pubs[g_rp_k].infinity)) &&
       (g_rp_b < 32 ==> (g_bv_m_b == m[g_rp_b] && g_bv_e0_b == e0[g_rp_b])))
    : (RP_KEEP(g_bv_v) && RP_KEEP(g_bv_ev) && RP_KEEP(g_bv_e0) && RP_KEEP(g_bv_m) && RP_KEEP(g_bv_s) && RP_KEEP(g_bv_pubs) && RP_KEEP(g_bv_rsizes) &&
       RP_KEEP(g_bv_nrings) && RP_KEEP(g_bv_mlen) && RP_KEEP(g_bv_rs_k) && SC_KEEP(g_bv_s_k) && RP_KEEP(g_bv_m_b) && RP_KEEP(g_bv_e0_b) && RP_KEEP(g_bv_pub_inf_k)))
;
#endif

/* ---- Borromean signing as an oracle ---- */
#ifdef RP_BORRO_SIGN
struct g_bs_log { int n; unsigned char * e0; const unsigned char * m; size_t nrings; size_t mlen; size_t rs_k; size_t si_k; const secp256k1_gej * pubs; secp256k1_scalar * s; unsigned char m_b; } g_bs;
#define g_bs_n g_bs.n
#define g_bs_e0 g_bs.e0
#define g_bs_m g_bs.m
#define g_bs_nrings g_bs.nrings
#define g_bs_mlen g_bs.mlen
#define g_bs_rs_k g_bs.rs_k
#define g_bs_si_k g_bs.si_k
#define g_bs_pubs g_bs.pubs
#define g_bs_s g_bs.s
#define g_bs_m_b g_bs.m_b
int secp256k1_borromean_sign(const secp256k1_hash_ctx *hash_ctx, const secp256k1_ecmult_gen_context *ecmult_gen_ctx,
 unsigned char *e0, secp256k1_scalar *s, const secp256k1_gej *pubs, const secp256k1_scalar *k, const secp256k1_scalar *sec,
 const size_t *rsizes, const size_t *secidx, size_t nrings, const unsigned char *m, size_t mlen)
__CPROVER_requires(hash_ctx != NULL && ecmult_gen_ctx != NULL && __CPROVER_w_ok(e0, 32) && nrings >= 1 && nrings <= 32 && mlen == 32 && __CPROVER_r_ok(m, mlen))
__CPROVER_requires(__CPROVER_r_ok(rsizes, nrings * sizeof(size_t)) && __CPROVER_r_ok(secidx, nrings * sizeof(size_t)))
__CPROVER_requires(__CPROVER_r_ok(k, nrings * sizeof(secp256k1_scalar)) && __CPROVER_r_ok(sec, nrings * sizeof(secp256k1_scalar)))
__CPROVER_requires(g_rp_k < nrings ==> (rsizes[g_rp_k] >= 1 && rsizes[g_rp_k] <= 4 && secidx[g_rp_k] < rsizes[g_rp_k]))
__CPROVER_requires(__CPROVER_rw_ok(s, rp_sum(rsizes, nrings) * sizeof(secp256k1_scalar)) && __CPROVER_r_ok(pubs, rp_sum(rsizes, nrings) * sizeof(secp256k1_gej)))
__CPROVER_assigns(__CPROVER_object_upto(e0, 32), __CPROVER_object_whole(s), g_bs)
__CPROVER_ensures(__CPROVER_return_value == 0 || __CPROVER_return_value == 1)
__CPROVER_ensures(g_bs_n == __CPROVER_old(g_bs_n) + 1)
__CPROVER_ensures(__CPROVER_old(g_bs_n) == 0
    ? (g_bs_e0 == e0 && g_bs_m == m && g_bs_nrings == nrings && g_bs_mlen == mlen && g_bs_pubs == pubs && g_bs_s == s &&
       (g_rp_k < nrings ==> (g_bs_rs_k == rsizes[g_rp_k] && g_bs_si_k == secidx[g_rp_k])) && (g_rp_b < 32 ==> g_bs_m_b == m[g_rp_b]))
    : (RP_KEEP(g_bs_e0) && RP_KEEP(g_bs_m) && RP_KEEP(g_bs_nrings) && RP_KEEP(g_bs_mlen) && RP_KEEP(g_bs_pubs) && RP_KEEP(g_bs_s) && RP_KEEP(g_bs_rs_k) && RP_KEEP(g_bs_si_k) && RP_KEEP(g_bs_m_b)))
;
#endif

/* ---- the deterministic random stream of a proof (rfc6979 DRBG seeded with nonce||commit||genp||header):
 *      outputs are arbitrary; the SEED ARGUMENTS are captured so that signing and rewinding can be
 *      shown to ask for the same stream.  The caller-side obligations are the capacities of the
 *      fixed arrays it hands over: sec[32], s[128], message[4096] and len <= 10. ---- */
#ifdef RP_GENRAND
struct g_gr_log { int n; const unsigned char * nonce; const unsigned char * proof; const secp256k1_ge * commit; const secp256k1_ge * genp; size_t len; size_t rings; size_t rs_k; unsigned char proof_b; unsigned char * msg; secp256k1_scalar * sec; secp256k1_scalar * s; secp256k1_ge commit_v; secp256k1_ge genp_v; unsigned char nonce_b; unsigned char hdr[10]; } g_gr;
#define g_gr_n g_gr.n
#define g_gr_nonce g_gr.nonce
#define g_gr_proof g_gr.proof
#define g_gr_commit g_gr.commit
#define g_gr_genp g_gr.genp
#define g_gr_len g_gr.len
#define g_gr_rings g_gr.rings
#define g_gr_rs_k g_gr.rs_k
#define g_gr_proof_b g_gr.proof_b
#define g_gr_msg g_gr.msg
#define g_gr_sec g_gr.sec
#define g_gr_s g_gr.s
#define g_gr_commit_v g_gr.commit_v
#define g_gr_genp_v g_gr.genp_v
#define g_gr_nonce_b g_gr.nonce_b
#define g_gr_hdr g_gr.hdr
#define GR_HDR(j) ((j) < len ==> g_gr_hdr[j] == proof[j])
#define GR_HDR_KEEP(j) (g_gr_hdr[j] == __CPROVER_old(g_gr_hdr[j]))
static int secp256k1_rangeproof_genrand(const secp256k1_hash_ctx *hash_ctx, secp256k1_scalar *sec, secp256k1_scalar *s, unsigned char *message,
 size_t *rsizes, size_t rings, const unsigned char *nonce, const secp256k1_ge *commit, const unsigned char *proof, size_t len, const secp256k1_ge* genp)
__CPROVER_requires(hash_ctx != NULL && len <= 10 && rings >= 1 && rings <= 32)
__CPROVER_requires(__CPROVER_r_ok(nonce, 32) && __CPROVER_r_ok(proof, len) && __CPROVER_r_ok(commit, sizeof(*commit)) && __CPROVER_r_ok(genp, sizeof(*genp)))
__CPROVER_requires(__CPROVER_r_ok(rsizes, rings * sizeof(size_t)))
__CPROVER_requires(g_rp_k < rings ==> (rsizes[g_rp_k] >= 1 && rsizes[g_rp_k] <= 4))
__CPROVER_requires(__CPROVER_w_ok(sec, 32 * sizeof(secp256k1_scalar)) && __CPROVER_w_ok(s, 128 * sizeof(secp256k1_scalar)) && (message == NULL || __CPROVER_rw_ok(message, 4096)))
__CPROVER_assigns(__CPROVER_object_whole(sec), __CPROVER_object_whole(s))
__CPROVER_assigns(message != NULL: __CPROVER_object_whole(message))
__CPROVER_assigns(g_gr)
__CPROVER_ensures(__CPROVER_return_value == 0 || __CPROVER_return_value == 1)
__CPROVER_ensures(g_gr_n == __CPROVER_old(g_gr_n) + 1)
__CPROVER_ensures(__CPROVER_old(g_gr_n) == 0
    ? (g_gr_nonce == nonce && g_gr_proof == proof && g_gr_commit == commit && g_gr_genp == genp && g_gr_len == len && g_gr_rings == rings && g_gr_msg == message &&
       g_gr_sec == sec && g_gr_s == s && GE_EQ(g_gr_commit_v, commit) && GE_EQ(g_gr_genp_v, genp) &&
       (g_rp_k < rings ==> g_gr_rs_k == rsizes[g_rp_k]) && (g_rp_b < len ==> g_gr_proof_b == proof[g_rp_b]) && (g_rp_b < 32 ==> g_gr_nonce_b == nonce[g_rp_b]) &&
       GR_HDR(0) && GR_HDR(1) && GR_HDR(2) && GR_HDR(3) && GR_HDR(4) && GR_HDR(5) && GR_HDR(6) && GR_HDR(7) && GR_HDR(8) && GR_HDR(9))
    : (GR_HDR_KEEP(0) && GR_HDR_KEEP(1) && GR_HDR_KEEP(2) && GR_HDR_KEEP(3) && GR_HDR_KEEP(4) && GR_HDR_KEEP(5) && GR_HDR_KEEP(6) && GR_HDR_KEEP(7) && GR_HDR_KEEP(8) && GR_HDR_KEEP(9) && RP_KEEP(g_gr_nonce) && RP_KEEP(g_gr_proof) && RP_KEEP(g_gr_commit) && RP_KEEP(g_gr_genp) && RP_KEEP(g_gr_len) && RP_KEEP(g_gr_rings) && RP_KEEP(g_gr_msg) &&
       RP_KEEP(g_gr_sec) && RP_KEEP(g_gr_s) && GE_KEEP(g_gr_commit_v) && GE_KEEP(g_gr_genp_v) && RP_KEEP(g_gr_rs_k) && RP_KEEP(g_gr_proof_b) && RP_KEEP(g_gr_nonce_b)))
;
#endif


/* ---- rewind algebra: x = (k - s)/e and k = s + x*e; arbitrary scalar in representation range ---- */
#ifdef RP_RECOVER
static void secp256k1_rangeproof_recover_x(secp256k1_scalar *x, const secp256k1_scalar *k, const secp256k1_scalar *e, const secp256k1_scalar *s)
__CPROVER_requires(__CPROVER_w_ok(x, sizeof(*x)) && __CPROVER_r_ok(k, sizeof(*k)) && __CPROVER_r_ok(e, sizeof(*e)) && __CPROVER_r_ok(s, sizeof(*s)))
__CPROVER_assigns(*x)
__CPROVER_ensures(rp_scalar_ok(x))
;
static void secp256k1_rangeproof_recover_k(secp256k1_scalar *k, const secp256k1_scalar *x, const secp256k1_scalar *e, const secp256k1_scalar *s)
__CPROVER_requires(__CPROVER_w_ok(k, sizeof(*k)) && __CPROVER_r_ok(x, sizeof(*x)) && __CPROVER_r_ok(e, sizeof(*e)) && __CPROVER_r_ok(s, sizeof(*s)))
__CPROVER_assigns(*k)
__CPROVER_ensures(rp_scalar_ok(k))
;
#endif

/* ---- the DRBG itself (only for the unit that checks the real genrand body) ---- */
#ifdef RP_HMAC
static void secp256k1_rfc6979_hmac_sha256_initialize(const secp256k1_hash_ctx *hash_ctx, secp256k1_rfc6979_hmac_sha256 *rng, const unsigned char *key, size_t keylen)
__CPROVER_requires(hash_ctx != NULL && __CPROVER_w_ok(rng, sizeof(*rng)) && __CPROVER_r_ok(key, keylen))
__CPROVER_assigns(*rng)
;
static void secp256k1_rfc6979_hmac_sha256_generate(const secp256k1_hash_ctx *hash_ctx, secp256k1_rfc6979_hmac_sha256 *rng, unsigned char *out, size_t outlen)
__CPROVER_requires(hash_ctx != NULL && __CPROVER_rw_ok(rng, sizeof(*rng)) && __CPROVER_w_ok(out, outlen))
__CPROVER_assigns(*rng, __CPROVER_object_upto(out, outlen))
;
#endif

/* ---- memcpy contract for units whose code copies a symbolic length into a large object (DESIGN 2.4) ---- */
#ifdef RP_MEMCPY
void *memcpy(void *dst, const void *src, size_t n)
__CPROVER_requires(__CPROVER_r_ok(src, n) && __CPROVER_w_ok(dst, n))
__CPROVER_assigns(__CPROVER_object_upto(dst, n))
__CPROVER_ensures(__CPROVER_return_value == dst)
__CPROVER_ensures(g_rp_b < n ==> ((unsigned char*)dst)[g_rp_b] == ((const unsigned char*)src)[g_rp_b])
;
#endif


/* ================= PROVED leaf contracts (not assumptions) =================
 * Byte-string readers/writers of the scalar/field layer, stated so that a caller that invokes them
 * a hundred times at symbolic offsets of one big buffer stays tractable: the functional relation
 * bytes <-> value is stated for ONE watched buffer position (a ghost pointer the harness fixes and
 * nothing assigns), which is sound for "for all positions" because the watch is arbitrary.
 * The functional part is enforced against the real bodies in units C10.leaf_* (RP_LEAF_ENFORCE drops
 * the ghost-log clauses, which only constrain ghost variables). */
#ifdef RP_LEAF_ENFORCE
/* enforced in C10.leaf_*: frame, representation invariant of the outputs, verdict in {0,1} - for every input */
static void secp256k1_scalar_set_b32(secp256k1_scalar *r, const unsigned char *b32, int *overflow)
__CPROVER_requires(__CPROVER_w_ok(r, sizeof(*r)) && __CPROVER_r_ok(b32, 32) && (overflow == NULL || __CPROVER_w_ok(overflow, sizeof(int))))
__CPROVER_assigns(*r) __CPROVER_assigns(overflow != NULL: *overflow)
__CPROVER_ensures(rp_scalar_ok(r))
__CPROVER_ensures(overflow != NULL ==> (*overflow == 0 || *overflow == 1))
__CPROVER_ensures(sval(r) == (be256(b32) >= N_() ? be256(b32) - N_() : be256(b32)) && (overflow != NULL ==> *overflow == (be256(b32) >= N_())))
;
static int secp256k1_fe_impl_set_b32_limit(secp256k1_fe *r, const unsigned char *a)
__CPROVER_requires(__CPROVER_w_ok(r, sizeof(*r)) && __CPROVER_r_ok(a, 32))
__CPROVER_assigns(*r)
__CPROVER_ensures((__CPROVER_return_value == 0 || __CPROVER_return_value == 1) && (r->n[0] >> 52) == 0 && (r->n[1] >> 52) == 0 && (r->n[2] >> 52) == 0 && (r->n[3] >> 52) == 0 && (r->n[4] >> 48) == 0)
__CPROVER_ensures(__CPROVER_return_value == (be256(a) < P_()) && fval(r) == be256(a))
;
#endif
#ifdef RP_STUB_READERS
/* Call-site substitution of the two byte readers by stubs (preprocessor rename of the USES that follow
 * this header; the definitions in scalar_impl.h / field_impl.h are included first and stay real):
 *   - at the watched buffer position the stub RUNS THE REAL FUNCTION on the watched bytes;
 *   - elsewhere it returns an arbitrary value satisfying the invariant proved in C10.leaf_*
 *     (scalar < n / limbs in range, verdict in {0,1}) and checks that 32 bytes are readable.
 * Reason: a DFCC contract replacement costs ~1 s of symbolic execution per call site and the real bodies
 * read 32 bytes per call at symbolic offsets of one 5 KB buffer (quadratic array constraints); verify_impl
 * makes up to 31 + 128 such calls. */
#include "src/field_impl.h"
#include "src/scalar_impl.h"
#include "src/group_impl.h"
uint64_t nondet_rp_u64(void); int nondet_rp_int(void);
/* Call-site ADAPTER (no abstraction): the real secp256k1_gej_set_ge runs on a local temporary which is then
 * struct-assigned to the destination.  Same result; avoids writes through a pointer to a sub-object of
 * pubs[npub] at a symbolic index (CBMC turns those into byte_updates of the whole 16 KB array). */
static void rp_adapt_gej_set_ge(secp256k1_gej *r, const secp256k1_ge *a) {
    secp256k1_gej t;
    secp256k1_gej_set_ge(&t, a);
    *r = t;
}
const unsigned char *g_sb_wp;            /* watch pointer: never assigned by code or stubs */
struct g_sb_log { int n, hit, wovf, any /* disjunction of all overflow verdicts so far */; secp256k1_scalar wr; } g_sb;
#define g_sb_n g_sb.n
#define g_sb_hit g_sb.hit
#define g_sb_wovf g_sb.wovf
#define g_sb_or g_sb.any
#define g_sb_wr g_sb.wr
static void rp_stub_scalar_set_b32(secp256k1_scalar *r, const unsigned char *b32, int *overflow) {
    int ov;
    __CPROVER_assert(__CPROVER_r_ok(b32, 32), "scalar_set_b32 call site: 32 readable bytes");
    if (b32 == g_sb_wp) {
        secp256k1_scalar_set_b32(r, g_sb_wp, &ov);
        g_sb.hit = 1; g_sb.wovf = ov; g_sb.wr = *r;
    } else {
        secp256k1_scalar t;
        t.d[0] = nondet_rp_u64(); t.d[1] = nondet_rp_u64(); t.d[2] = nondet_rp_u64(); t.d[3] = nondet_rp_u64(); ov = nondet_rp_int();
        __CPROVER_assume(rp_scalar_ok(&t) && (ov == 0 || ov == 1));      /* invariant proved in C10.leaf_scalar_set_b32 */
        *r = t;
    }
    if (overflow != NULL) { *overflow = ov; g_sb.any = g_sb.any || ov; }
    g_sb.n++;
}
const unsigned char *g_fl_wp;            /* watch pointer: never assigned by code or stubs */
struct g_fl_log { int n, hit, wv, all /* conjunction of all verdicts so far */; secp256k1_fe wr; } g_fl;
#define g_fl_n g_fl.n
#define g_fl_hit g_fl.hit
#define g_fl_wv g_fl.wv
#define g_fl_and g_fl.all
#define g_fl_wr g_fl.wr
static int rp_stub_fe_set_b32_limit(secp256k1_fe *r, const unsigned char *a) {
    int ret;
    __CPROVER_assert(__CPROVER_r_ok(a, 32), "fe_set_b32_limit call site: 32 readable bytes");
    if (a == g_fl_wp) {
        ret = secp256k1_fe_impl_set_b32_limit(r, g_fl_wp);
        g_fl.hit = 1; g_fl.wv = ret; g_fl.wr = *r;
    } else {
        secp256k1_fe t;
        t.n[0] = nondet_rp_u64(); t.n[1] = nondet_rp_u64(); t.n[2] = nondet_rp_u64(); t.n[3] = nondet_rp_u64(); t.n[4] = nondet_rp_u64(); ret = nondet_rp_int();
        __CPROVER_assume((t.n[0] >> 52) == 0 && (t.n[1] >> 52) == 0 && (t.n[2] >> 52) == 0 && (t.n[3] >> 52) == 0 && (t.n[4] >> 48) == 0 && (ret == 0 || ret == 1)); /* proved in C10.leaf_fe_set_b32_limit */
        *r = t;
    }
    g_fl.all = g_fl.all && ret;
    g_fl.n++;
    return ret;
}
#define secp256k1_scalar_set_b32 rp_stub_scalar_set_b32
#define secp256k1_fe_impl_set_b32_limit rp_stub_fe_set_b32_limit
#define secp256k1_gej_set_ge rp_adapt_gej_set_ge
#endif
#ifdef RP_GET_B32
/* replacement form used by the signing units: the frame is over-approximated to the whole destination
 * object (one fresh array instead of 32 symbolic-offset updates); w_ok(bin,32) is the bounds obligation */
struct g_gb_log { int n; unsigned char * first; unsigned char * last; } g_gb;
#define g_gb_n g_gb.n
#define g_gb_first g_gb.first
#define g_gb_last g_gb.last
static void secp256k1_scalar_get_b32(unsigned char *bin, const secp256k1_scalar* a)
__CPROVER_requires(__CPROVER_w_ok(bin, 32) && __CPROVER_r_ok(a, sizeof(*a)))
__CPROVER_assigns(__CPROVER_object_whole(bin), g_gb)
__CPROVER_ensures(g_gb_n == __CPROVER_old(g_gb_n) + 1 && g_gb_last == bin && g_gb_first == (__CPROVER_old(g_gb_n) == 0 ? bin : __CPROVER_old(g_gb_first)))
;
#endif
#ifdef RP_CH32XOR
static void secp256k1_rangeproof_ch32xor(unsigned char *x, const unsigned char *y)
__CPROVER_requires(__CPROVER_rw_ok(x, 32) && __CPROVER_r_ok(y, 32))
__CPROVER_assigns(__CPROVER_object_upto(x, 32))
;
#endif
#ifdef RP_MEMCPY_WHOLE
/* memcpy with the frame over-approximated to the whole destination object (DESIGN 2.4) */
void *memcpy(void *dst, const void *src, size_t n)
__CPROVER_requires(__CPROVER_r_ok(src, n) && __CPROVER_w_ok(dst, n))
__CPROVER_assigns(__CPROVER_object_whole(dst))
__CPROVER_ensures(__CPROVER_return_value == dst)
;
#endif

/* ---- watch-style contracts for the two curve callees of secp256k1_borromean_verify ---- */
#ifdef RP_ECMULT_WATCH
struct g_em_log { int n; int hit; int rinf; const secp256k1_gej * ap; const secp256k1_scalar * ngp; secp256k1_scalar na; } g_em;
#define g_em_n g_em.n
#define g_em_hit g_em.hit
#define g_em_rinf g_em.rinf
#define g_em_ap g_em.ap
#define g_em_ngp g_em.ngp
#define g_em_na g_em.na
int g_em_watch;
static void secp256k1_ecmult(secp256k1_gej *r, const secp256k1_gej *a, const secp256k1_scalar *na, const secp256k1_scalar *ng)
__CPROVER_requires(__CPROVER_w_ok(r, sizeof(*r)) && __CPROVER_r_ok(a, sizeof(*a)) && rp_gej_ok(a))
__CPROVER_requires(__CPROVER_r_ok(na, sizeof(*na)) && rp_scalar_ok(na) && __CPROVER_r_ok(ng, sizeof(*ng)) && rp_scalar_ok(ng))
__CPROVER_assigns(*r, g_em)
__CPROVER_ensures(rp_gej_ok(r))
__CPROVER_ensures(g_em_n == __CPROVER_old(g_em_n) + 1)
__CPROVER_ensures(__CPROVER_old(g_em_n) == g_em_watch
    ? (g_em_hit == 1 && g_em_rinf == r->infinity && g_em_ap == a && g_em_ngp == ng && SC_EQ_OLD(g_em_na, *na))
    : (RP_KEEP(g_em_hit) && RP_KEEP(g_em_rinf) && RP_KEEP(g_em_ap) && RP_KEEP(g_em_ngp) && SC_KEEP(g_em_na)))
;
struct g_sgw_log { int n; int hit; secp256k1_ge r; } g_sgw;
#define g_sg_n g_sgw.n
#define g_sg_hit g_sgw.hit
#define g_sg_r g_sgw.r
int g_sg_watch;
static void secp256k1_ge_set_gej_var(secp256k1_ge *r, secp256k1_gej *a)
__CPROVER_requires(__CPROVER_w_ok(r, sizeof(*r)) && __CPROVER_rw_ok(a, sizeof(*a)) && rp_gej_ok(a))
__CPROVER_assigns(*r, *a, g_sgw)
__CPROVER_ensures(rp_ge_ok1(r) && rp_gej_ok(a) && r->infinity == __CPROVER_old(a->infinity))
__CPROVER_ensures(g_sg_n == __CPROVER_old(g_sg_n) + 1)
__CPROVER_ensures(__CPROVER_old(g_sg_n) == g_sg_watch ? (g_sg_hit == 1 && GE_EQ(g_sg_r, r)) : (RP_KEEP(g_sg_hit) && GE_KEEP(g_sg_r)))
;
#endif
#endif

/* Oracle / summary contracts used by the C12, C13 (nonce generation) and C14 units, in addition to
 * contracts/assumed.h.  Same rules: pointer validity, frame, representation invariant of outputs,
 * return in {0,1}, optional ghost logs of (arguments, result).  No algebraic facts.
 *
 * secp256k1_nonce_function_musig is NOT part of the algebraic residue: its hash-stream wiring is proved
 * by C12.nonce_function (which also shows k[i] = digest_i mod n, hence scalar_ok); the contract here is
 * its frame + "outputs are scalars" summary with a log of the arguments it was handed. */
#ifndef VERIF_ASSUMED_MUSIG_H
#define VERIF_ASSUMED_MUSIG_H
#include "assumed.h"
#include "src/modules/musig/keyagg.h"
#include "src/modules/musig/session.h"

#define GE_EQ(g, h) (FE_EQ((g).x, (h).x) && FE_EQ((g).y, (h).y) && (g).infinity == (h).infinity)
#define GE_KEEP(g) (FE_KEEP((g).x) && FE_KEEP((g).y) && (g).infinity == __CPROVER_old((g).infinity))
#define GE_EQ_OLD(g, h) (FE_EQ_OLD((g).x, (h).x) && FE_EQ_OLD((g).y, (h).y) && (g).infinity == __CPROVER_old((h).infinity))
#define GEJ_EQ(g, h) (FE_EQ((g).x, (h).x) && FE_EQ((g).y, (h).y) && FE_EQ((g).z, (h).z) && (g).infinity == (h).infinity)
#define GEJ_KEEP(g) (FE_KEEP((g).x) && FE_KEEP((g).y) && FE_KEEP((g).z) && (g).infinity == __CPROVER_old((g).infinity))
#define GEJ_EQ_OLD(g, h) (FE_EQ_OLD((g).x, (h).x) && FE_EQ_OLD((g).y, (h).y) && FE_EQ_OLD((g).z, (h).z) && (g).infinity == __CPROVER_old((h).infinity))

/* ---- KeyAgg coefficient (tagged hash or 1): oracle for callers that only need "some scalar" ---- */
#ifndef NO_KEYAGGCOEF_CONTRACT
/* the real function may normalise *pk in place (it serialises it unless the coefficient is 1): same point, coordinates
 * unchanged or canonical.  Proved on the real body by C12.keyaggcoef. */
#ifndef VERIF_NATIVE
static inline int fe_same_or_normalised(wide newv, wide oldv) { wide p = P_(); int i, hit = 0; for (i = 0; i < 10; i++) hit |= (oldv == newv + (wide)i * p); return newv == oldv || (newv < p && hit); }
#define FVAL_OLD(f) (W(__CPROVER_old((f).n[0])) + (W(__CPROVER_old((f).n[1])) << 52) + (W(__CPROVER_old((f).n[2])) << 104) + (W(__CPROVER_old((f).n[3])) << 156) + (W(__CPROVER_old((f).n[4])) << 208))
#define KC_PK_ENSURES __CPROVER_ensures(pk->infinity == __CPROVER_old(pk->infinity) && ge_ok(pk) && \
    fe_same_or_normalised(fval(&pk->x), FVAL_OLD(pk->x)) && fe_same_or_normalised(fval(&pk->y), FVAL_OLD(pk->y)))
#else
#define KC_PK_ENSURES
#endif
#ifdef LOG_KEYAGGCOEF
int g_kc_n; secp256k1_scalar g_kc_r0; secp256k1_ge g_kc_pk0, g_kc_second0; size_t g_kc_i /* ghost index < 32, never assigned */; unsigned char g_kc_hash_b0;   /* content of the cache the coefficient was asked for */
#endif
static void secp256k1_musig_keyaggcoef(const secp256k1_hash_ctx *hash_ctx, secp256k1_scalar *r, const secp256k1_keyagg_cache_internal *cache_i, secp256k1_ge *pk)
__CPROVER_requires(__CPROVER_w_ok(r, sizeof(*r)) && __CPROVER_r_ok(cache_i, sizeof(*cache_i)) && __CPROVER_rw_ok(pk, sizeof(*pk)) && ge_ok(pk))
#ifdef LOG_KEYAGGCOEF
__CPROVER_requires(g_kc_i < 32)
__CPROVER_assigns(*r, *pk, g_kc_n, g_kc_r0, g_kc_pk0, g_kc_second0, g_kc_hash_b0)
__CPROVER_ensures(g_kc_n == __CPROVER_old(g_kc_n) + 1)
__CPROVER_ensures(__CPROVER_old(g_kc_n) == 0 ==> (SC_EQ(g_kc_r0, *r) && FE_EQ_OLD(g_kc_pk0.x, pk->x) && FE_EQ_OLD(g_kc_pk0.y, pk->y) && GE_EQ(g_kc_second0, cache_i->second_pk) && g_kc_hash_b0 == cache_i->pks_hash[g_kc_i]))
__CPROVER_ensures(__CPROVER_old(g_kc_n) != 0 ==> (SC_KEEP(g_kc_r0) && FE_KEEP(g_kc_pk0.x) && FE_KEEP(g_kc_pk0.y) && GE_KEEP(g_kc_second0) && g_kc_hash_b0 == __CPROVER_old(g_kc_hash_b0)))
#else
__CPROVER_assigns(*r, *pk)
#endif
__CPROVER_ensures(scalar_ok(r))
KC_PK_ENSURES
;
#endif

#ifdef LOG_KEYAGGCOEF_INTERNAL
int g_kci_n; size_t g_kci_i /* ghost index < 32, never assigned */; unsigned char g_kci_hash_b; secp256k1_ge g_kci_second, g_kci_pk; secp256k1_scalar g_kci_r;   /* CONTENT of what the coefficient was asked about */
static void secp256k1_musig_keyaggcoef_internal(const secp256k1_hash_ctx *hash_ctx, secp256k1_scalar *r, const unsigned char *pks_hash, secp256k1_ge *pk, const secp256k1_ge *second_pk)
__CPROVER_requires(hash_ctx != NULL && __CPROVER_w_ok(r, sizeof(*r)) && __CPROVER_r_ok(pks_hash, 32) && __CPROVER_rw_ok(pk, sizeof(*pk)) && __CPROVER_r_ok(second_pk, sizeof(*second_pk)) && ge_ok(pk) && !pk->infinity && g_kci_i < 32)
__CPROVER_assigns(*r, *pk, g_kci_n, g_kci_hash_b, g_kci_second, g_kci_pk, g_kci_r)
__CPROVER_ensures(g_kci_n == __CPROVER_old(g_kci_n) + 1 && g_kci_hash_b == pks_hash[g_kci_i] && GE_EQ(g_kci_second, *second_pk) && GE_EQ_OLD(g_kci_pk, *pk) && SC_EQ(g_kci_r, *r))
__CPROVER_ensures(scalar_ok(r))
KC_PK_ENSURES
;
#endif

/* ---- BIP-340 challenge (proved at hash level by the C02 units): summary that logs the CONTENT of all three inputs at a ghost index ---- */
#ifdef LOG_CHALLENGE32
int g_ch_n; size_t g_ch_i /* ghost index < 32, never assigned */; size_t g_ch_msglen; unsigned char g_ch_r_b, g_ch_pk_b, g_ch_msg_b; secp256k1_scalar g_ch_e;
static void secp256k1_schnorrsig_challenge(const secp256k1_hash_ctx *hash_ctx, secp256k1_scalar* e, const unsigned char *r32, const unsigned char *msg, size_t msglen, const unsigned char *pubkey32)
__CPROVER_requires(hash_ctx != NULL && __CPROVER_w_ok(e, sizeof(*e)) && __CPROVER_r_ok(r32, 32) && __CPROVER_r_ok(pubkey32, 32) && (msglen == 0 || __CPROVER_r_ok(msg, msglen)) && g_ch_i < 32)
__CPROVER_assigns(*e, g_ch_n, g_ch_msglen, g_ch_r_b, g_ch_pk_b, g_ch_msg_b, g_ch_e)
__CPROVER_ensures(g_ch_n == __CPROVER_old(g_ch_n) + 1 && g_ch_msglen == msglen && g_ch_r_b == r32[g_ch_i] && g_ch_pk_b == pubkey32[g_ch_i] && (msglen > g_ch_i ==> g_ch_msg_b == msg[g_ch_i]) && SC_EQ(g_ch_e, *e))
__CPROVER_ensures(scalar_ok(e))
;
#endif

/* ---- the MuSig nonce derivation function: frame + "two scalars" + log of what it was handed ---- */
#ifdef LOG_NONCE_FN
int g_nf_n;                  /* calls so far */
size_t g_nf_i;               /* ghost byte index < 32, fixed by the harness, never assigned */
int g_nf_has_msg, g_nf_has_sk, g_nf_has_agg, g_nf_has_extra;    /* which optional inputs were present (no pointer-typed ghosts: content is logged) */
unsigned char g_nf_rand_b, g_nf_sk_b, g_nf_pk0, g_nf_pk_b, g_nf_agg_b, g_nf_msg_b, g_nf_extra_b;
secp256k1_scalar g_nf_k0, g_nf_k1;
#endif
static void secp256k1_nonce_function_musig(const secp256k1_hash_ctx *hash_ctx, secp256k1_scalar *k, const unsigned char *session_secrand, const unsigned char *msg32, const unsigned char *seckey32, const unsigned char *pk33, const unsigned char *agg_pk32, const unsigned char *extra_input32)
__CPROVER_requires(hash_ctx != NULL && __CPROVER_w_ok(k, 2 * sizeof(*k)) && __CPROVER_r_ok(session_secrand, 32) && __CPROVER_r_ok(pk33, 33))
__CPROVER_requires((msg32 == NULL || __CPROVER_r_ok(msg32, 32)) && (seckey32 == NULL || __CPROVER_r_ok(seckey32, 32)) && (agg_pk32 == NULL || __CPROVER_r_ok(agg_pk32, 32)) && (extra_input32 == NULL || __CPROVER_r_ok(extra_input32, 32)))
#ifdef LOG_NONCE_FN
__CPROVER_requires(g_nf_i < 32)
__CPROVER_assigns(k[0], k[1], g_nf_n, g_nf_has_msg, g_nf_has_sk, g_nf_has_agg, g_nf_has_extra, g_nf_rand_b, g_nf_sk_b, g_nf_pk0, g_nf_pk_b, g_nf_agg_b, g_nf_msg_b, g_nf_extra_b, g_nf_k0, g_nf_k1)
__CPROVER_ensures(g_nf_n == __CPROVER_old(g_nf_n) + 1)
__CPROVER_ensures(g_nf_has_msg == (msg32 != NULL) && g_nf_has_sk == (seckey32 != NULL) && g_nf_has_agg == (agg_pk32 != NULL) && g_nf_has_extra == (extra_input32 != NULL))
__CPROVER_ensures(g_nf_rand_b == session_secrand[g_nf_i] && g_nf_pk0 == pk33[0] && g_nf_pk_b == pk33[1 + g_nf_i])
__CPROVER_ensures(seckey32 != NULL ==> g_nf_sk_b == seckey32[g_nf_i])
__CPROVER_ensures(agg_pk32 != NULL ==> g_nf_agg_b == agg_pk32[g_nf_i])
__CPROVER_ensures(msg32 != NULL ==> g_nf_msg_b == msg32[g_nf_i])
__CPROVER_ensures(extra_input32 != NULL ==> g_nf_extra_b == extra_input32[g_nf_i])
__CPROVER_ensures(SC_EQ(g_nf_k0, k[0]) && SC_EQ(g_nf_k1, k[1]))
#else
__CPROVER_assigns(k[0], k[1])
#endif
__CPROVER_ensures(scalar_ok(&k[0]) && scalar_ok(&k[1]))
;

/* ---- batch Jacobian -> affine (len is 2 at every call site of these modules); optional log of the last call ---- */
#ifdef LOG_SET_ALL_GEJ
int g_sa_n; secp256k1_gej g_sa_a0, g_sa_a1; secp256k1_ge g_sa_r0, g_sa_r1;
#define SA_LOG __CPROVER_assigns(r[0], r[1], g_sa_n, g_sa_a0, g_sa_a1, g_sa_r0, g_sa_r1) \
  __CPROVER_ensures(g_sa_n == __CPROVER_old(g_sa_n) + 1 && GEJ_EQ(g_sa_a0, a[0]) && GEJ_EQ(g_sa_a1, a[1]) && GE_EQ(g_sa_r0, r[0]) && GE_EQ(g_sa_r1, r[1]))
#else
#define SA_LOG __CPROVER_assigns(r[0], r[1])
#endif
#define SET_ALL_GEJ_CONTRACT \
__CPROVER_requires(len == 2 && __CPROVER_w_ok(r, 2 * sizeof(*r)) && __CPROVER_r_ok(a, 2 * sizeof(*a)) && gej_ok(&a[0]) && gej_ok(&a[1])) \
SA_LOG \
__CPROVER_ensures(ge_ok1(&r[0]) && ge_ok1(&r[1]) && r[0].infinity == a[0].infinity && r[1].infinity == a[1].infinity)
static void secp256k1_ge_set_all_gej(secp256k1_ge *r, const secp256k1_gej *a, size_t len) SET_ALL_GEJ_CONTRACT;
static void secp256k1_ge_set_all_gej_var(secp256k1_ge *r, const secp256k1_gej *a, size_t len) SET_ALL_GEJ_CONTRACT;

/* ---- point additions: result is some group element; optional log of the first two calls ---- */
#ifdef LOG_GEJ_ADD_GE
int g_age_n; secp256k1_gej g_age_a0, g_age_r0, g_age_a1, g_age_r1; secp256k1_ge g_age_b0, g_age_b1;
#define AGE_SLOT(i) \
  __CPROVER_ensures(__CPROVER_old(g_age_n) == i ==> (GEJ_EQ_OLD(g_age_a##i, *a) && GE_EQ_OLD(g_age_b##i, *b) && GEJ_EQ(g_age_r##i, *r))) \
  __CPROVER_ensures(__CPROVER_old(g_age_n) != i ==> (GEJ_KEEP(g_age_a##i) && GE_KEEP(g_age_b##i) && GEJ_KEEP(g_age_r##i)))
#endif
static void secp256k1_gej_add_ge_var(secp256k1_gej *r, const secp256k1_gej *a, const secp256k1_ge *b, secp256k1_fe *rzr)
__CPROVER_requires(__CPROVER_w_ok(r, sizeof(*r)) && __CPROVER_r_ok(a, sizeof(*a)) && __CPROVER_r_ok(b, sizeof(*b)) && rzr == NULL && gej_ok(a) && ge_ok(b))
#ifdef LOG_GEJ_ADD_GE
__CPROVER_assigns(*r, g_age_n, g_age_a0, g_age_r0, g_age_a1, g_age_r1, g_age_b0, g_age_b1)
__CPROVER_ensures(g_age_n == __CPROVER_old(g_age_n) + 1)
AGE_SLOT(0) AGE_SLOT(1)
#else
__CPROVER_assigns(*r)
#endif
__CPROVER_ensures(gej_ok(r))
;
#ifdef LOG_GEJ_ADD
int g_aj_n; secp256k1_gej g_aj_a0, g_aj_b0, g_aj_r0;
#endif
static void secp256k1_gej_add_var(secp256k1_gej *r, const secp256k1_gej *a, const secp256k1_gej *b, secp256k1_fe *rzr)
__CPROVER_requires(__CPROVER_w_ok(r, sizeof(*r)) && __CPROVER_r_ok(a, sizeof(*a)) && __CPROVER_r_ok(b, sizeof(*b)) && rzr == NULL)
#ifdef LOG_GEJ_ADD
__CPROVER_assigns(*r, g_aj_n, g_aj_a0, g_aj_b0, g_aj_r0)
__CPROVER_ensures(g_aj_n == __CPROVER_old(g_aj_n) + 1)
__CPROVER_ensures(__CPROVER_old(g_aj_n) == 0 ==> (GEJ_EQ_OLD(g_aj_a0, *a) && GEJ_EQ_OLD(g_aj_b0, *b) && GEJ_EQ(g_aj_r0, *r)))
__CPROVER_ensures(__CPROVER_old(g_aj_n) != 0 ==> (GEJ_KEEP(g_aj_a0) && GEJ_KEEP(g_aj_b0) && GEJ_KEEP(g_aj_r0)))
#else
__CPROVER_assigns(*r)
#endif
__CPROVER_ensures(gej_ok(r))
;

/* ---- R1 + b*R2 (proved wiring: real body inside C12.nonce_process); summary with argument log for C12.partial_sig_verify ---- */
#ifdef LOG_EFFECTIVE_NONCE
int g_en_n; secp256k1_ge g_en_p0, g_en_p1; secp256k1_scalar g_en_b; secp256k1_gej g_en_r;
#endif
static void secp256k1_effective_nonce(secp256k1_gej *out_nonce, const secp256k1_ge *nonce_pts, const secp256k1_scalar *b)
__CPROVER_requires(__CPROVER_w_ok(out_nonce, sizeof(*out_nonce)) && __CPROVER_r_ok(nonce_pts, 2 * sizeof(*nonce_pts)) && __CPROVER_r_ok(b, sizeof(*b)) && scalar_ok(b))
#ifdef LOG_EFFECTIVE_NONCE
__CPROVER_assigns(*out_nonce, g_en_n, g_en_p0, g_en_p1, g_en_b, g_en_r)
__CPROVER_ensures(g_en_n == __CPROVER_old(g_en_n) + 1)
__CPROVER_ensures(GE_EQ(g_en_p0, nonce_pts[0]) && GE_EQ(g_en_p1, nonce_pts[1]) && SC_EQ(g_en_b, *b) && GEJ_EQ(g_en_r, *out_nonce))
#else
__CPROVER_assigns(*out_nonce)
#endif
__CPROVER_ensures(gej_ok(out_nonce))
;

/* ---- multi-scalar multiplication with callback (KeyAgg sum): pure oracle; logs how it was invoked ---- */
#ifdef LOG_ECMULT_MULTI
int g_mm_n; size_t g_mm_count; const void *g_mm_cbdata; secp256k1_ecmult_multi_callback *g_mm_cb; int g_mm_has_gsc; secp256k1_scalar g_mm_gscv; secp256k1_gej g_mm_r; int g_mm_ret;
#endif
static int secp256k1_ecmult_multi_var(const secp256k1_callback* error_callback, secp256k1_scratch *scratch, secp256k1_gej *r, const secp256k1_scalar *inp_g_sc, secp256k1_ecmult_multi_callback cb, void *cbdata, size_t n)
__CPROVER_requires(__CPROVER_w_ok(r, sizeof(*r)) && (inp_g_sc == NULL || (__CPROVER_r_ok(inp_g_sc, sizeof(*inp_g_sc)) && scalar_ok(inp_g_sc))))
#ifdef LOG_ECMULT_MULTI
__CPROVER_assigns(*r, g_mm_n, g_mm_count, g_mm_cbdata, g_mm_cb, g_mm_has_gsc, g_mm_gscv, g_mm_r, g_mm_ret)
__CPROVER_ensures(g_mm_n == __CPROVER_old(g_mm_n) + 1 && g_mm_count == n && g_mm_cbdata == cbdata && g_mm_cb == cb && g_mm_has_gsc == (inp_g_sc != NULL) && (inp_g_sc == NULL || SC_EQ(g_mm_gscv, *inp_g_sc)) && GEJ_EQ(g_mm_r, *r) && g_mm_ret == __CPROVER_return_value)
#else
__CPROVER_assigns(*r)
#endif
__CPROVER_ensures((__CPROVER_return_value == 0 || __CPROVER_return_value == 1) && gej_ok(r))
;

/* ---- x -> point with square y ("is x on the curve" verdict): oracle with verdict log (two slots) ---- */
#ifdef LOG_XQUAD
int g_xq_n; secp256k1_fe g_xq_x0, g_xq_x1, g_xq_y0, g_xq_y1; int g_xq_v0, g_xq_v1;
#endif
static int secp256k1_ge_set_xquad(secp256k1_ge *r, const secp256k1_fe *x)
__CPROVER_requires(__CPROVER_w_ok(r, sizeof(*r)) && __CPROVER_r_ok(x, sizeof(*x)) && fe_mag(x, 1))
#ifdef LOG_XQUAD
__CPROVER_assigns(*r, g_xq_n, g_xq_x0, g_xq_x1, g_xq_y0, g_xq_y1, g_xq_v0, g_xq_v1)
__CPROVER_ensures(g_xq_n == __CPROVER_old(g_xq_n) + 1)
__CPROVER_ensures(__CPROVER_old(g_xq_n) == 0 ==> (FE_EQ_OLD(g_xq_x0, *x) && FE_EQ(g_xq_y0, r->y) && g_xq_v0 == __CPROVER_return_value && FE_KEEP(g_xq_x1) && FE_KEEP(g_xq_y1) && g_xq_v1 == __CPROVER_old(g_xq_v1)))
__CPROVER_ensures(__CPROVER_old(g_xq_n) == 1 ==> (FE_EQ_OLD(g_xq_x1, *x) && FE_EQ(g_xq_y1, r->y) && g_xq_v1 == __CPROVER_return_value && FE_KEEP(g_xq_x0) && FE_KEEP(g_xq_y0) && g_xq_v0 == __CPROVER_old(g_xq_v0)))
__CPROVER_ensures(__CPROVER_old(g_xq_n) > 1 ==> (FE_KEEP(g_xq_x0) && FE_KEEP(g_xq_x1) && FE_KEEP(g_xq_y0) && FE_KEEP(g_xq_y1) && g_xq_v0 == __CPROVER_old(g_xq_v0) && g_xq_v1 == __CPROVER_old(g_xq_v1)))
#else
__CPROVER_assigns(*r)
#endif
__CPROVER_ensures((__CPROVER_return_value == 0 || __CPROVER_return_value == 1) && FE_EQ_OLD(r->x, *x) && fe_mag(&r->y, 1) && r->infinity == 0)
;
#endif

/* Types of the real code (so contracts can be attached by redeclaration before "secp256k1.c" is
 * included) and the mathematical views used by specifications. */
#ifndef VERIF_PRE_H
#define VERIF_PRE_H
#include "verif.h"
#include "include/secp256k1.h"
#include "include/secp256k1_extrakeys.h"
#include "include/secp256k1_schnorrsig.h"
#include "include/secp256k1_musig.h"
#include "include/secp256k1_recovery.h"
#include "include/secp256k1_generator.h"
#include "include/secp256k1_rangeproof.h"
#include "include/secp256k1_surjectionproof.h"
#include "include/secp256k1_whitelist.h"
#include "include/secp256k1_ecdsa_adaptor.h"
#include "include/secp256k1_ecdsa_s2c.h"
#include "include/secp256k1_ecdh.h"
#include "include/secp256k1_ellswift.h"
#include "include/secp256k1_bppp.h"
#include "include/secp256k1_schnorrsig_halfagg.h"
#include "src/util.h"
#include "src/int128.h"
#include "src/scalar.h"
#include "src/field.h"
#include "src/group.h"
#include "src/ecmult.h"
#include "src/ecmult_const.h"
#include "src/ecmult_gen.h"
#include "src/hash.h"
#include "src/scratch.h"

#ifndef VERIF_NATIVE
typedef unsigned __CPROVER_bitvector[320] wide;
#define W(x) ((wide)(x))
/* group order n, field prime p, as 320-bit values */
static inline wide N_(void) { return (W(0xFFFFFFFFFFFFFFFFULL) << 192) | (W(0xFFFFFFFFFFFFFFFEULL) << 128) | (W(0xBAAEDCE6AF48A03BULL) << 64) | W(0xBFD25E8CD0364141ULL); }
static inline wide P_(void) { return (W(1) << 256) - W(0x1000003D1ULL); }
/* big-endian 32 bytes -> integer */
static inline wide be256(const unsigned char *b) {
    wide v = 0; int i;
    for (i = 0; i < 32; i++) v = (v << 8) | W(b[i]);
    return v;
}
#if defined(USE_FORCE_WIDEMUL_INT64)
static inline wide sval(const secp256k1_scalar *a) { wide v = 0; int i; for (i = 7; i >= 0; i--) v = (v << 32) | W(a->d[i]); return v; }
static inline wide fval(const secp256k1_fe *a) { wide v = 0; int i; for (i = 9; i >= 0; i--) v = (v << 26) + W(a->n[i]); return v; }
#else
static inline wide sval(const secp256k1_scalar *a) { return W(a->d[0]) | (W(a->d[1]) << 64) | (W(a->d[2]) << 128) | (W(a->d[3]) << 192); }
static inline wide fval(const secp256k1_fe *a) { return W(a->n[0]) + (W(a->n[1]) << 52) + (W(a->n[2]) << 104) + (W(a->n[3]) << 156) + (W(a->n[4]) << 208); }
#endif
#endif /* !VERIF_NATIVE */

/* Representation invariants, written limb-wise so that they can be used both in contract clauses
 * and natively.  scalar_ok: value < n.  */
#if !defined(USE_FORCE_WIDEMUL_INT64)
static inline int scalar_ok(const secp256k1_scalar *a) {
    /* value < n  <=>  not (value >= n), comparing limbs from the top (n = FFFF..FFFE BAAEDCE6AF48A03B BFD25E8CD0364141) */
    int yes = 0, no = 0;
    no |= (a->d[3] < 0xFFFFFFFFFFFFFFFFULL);
    no |= (a->d[2] < 0xFFFFFFFFFFFFFFFEULL);
    yes |= (a->d[2] > 0xFFFFFFFFFFFFFFFEULL) & ~no;
    no |= (a->d[1] < 0xBAAEDCE6AF48A03BULL) & ~yes;
    yes |= (a->d[1] > 0xBAAEDCE6AF48A03BULL) & ~no;
    yes |= (a->d[0] >= 0xBFD25E8CD0364141ULL) & ~no;
    return !yes;
}
/* fe_mag(a, m): limb bounds of magnitude m (m <= 32) */
static inline int fe_mag(const secp256k1_fe *a, int m) {
    return a->n[0] <= 0xFFFFFFFFFFFFFULL * 2 * (uint64_t)m && a->n[1] <= 0xFFFFFFFFFFFFFULL * 2 * (uint64_t)m &&
           a->n[2] <= 0xFFFFFFFFFFFFFULL * 2 * (uint64_t)m && a->n[3] <= 0xFFFFFFFFFFFFFULL * 2 * (uint64_t)m &&
           a->n[4] <= 0x0FFFFFFFFFFFFULL * 2 * (uint64_t)m;
}
/* canonical: all limbs in range and value < p */
static inline int fe_canon(const secp256k1_fe *a) {
    return (a->n[0] >> 52) == 0 && (a->n[1] >> 52) == 0 && (a->n[2] >> 52) == 0 && (a->n[3] >> 52) == 0 && (a->n[4] >> 48) == 0 &&
           !((a->n[4] == 0x0FFFFFFFFFFFFULL) && ((a->n[3] & a->n[2] & a->n[1]) == 0xFFFFFFFFFFFFFULL) && (a->n[0] >= 0xFFFFEFFFFFC2FULL));
}
#endif
#ifdef VERIFY
# define FE_VERIFY_FIELDS(a, m, nrm) ((a)->magnitude == (m) && (a)->normalized == (nrm))
# define FE_MAGF(a) ((a)->magnitude)
#else
# define FE_VERIFY_FIELDS(a, m, nrm) 1
#endif
#endif

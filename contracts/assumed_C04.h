/* C04-specific contracts (same rules as assumed.h: frame + representation invariant + ghost log,
 * never an algebraic fact).
 *
 *  secp256k1_gej_add_ge   ASSUMED oracle (group law).  Log: number of calls, the infinity flag of
 *                         the latest result (these two are named verif_c04_* because the loop invariant
 *                         in ec_pubkey_combine refers to them), and the number of calls whose operand equals a
 *                         WATCHED point (calls identified by value, not by ordinal).
 *  secp256k1_hsort        frame + ARGUMENT LOG only; used by C04.sort_api; listed as ASSUMED there: that it
 *                         returns a sorted permutation is checked on the real body only for count <= 5
 *                         (C04.hsort_body, bounded) plus the call structure for every count (C04.hsort_struct). */
#ifndef VERIF_ASSUMED_C04_H
#define VERIF_ASSUMED_C04_H
#include "assumed.h"

size_t verif_c04_gi;   /* ghost index named by the loop invariants in ec_pubkey_sort / ec_pubkey_combine; never assigned by code */
size_t verif_c04_add_n; int verif_c04_add_last_inf;
/* WATCH (set by the harness, never assigned by code or contracts): an affine operand, as limbs; the contract counts
 * the additions whose operand b equals it - calls are identified by operand VALUE, not by call number */
secp256k1_fe g_add_wx, g_add_wy; size_t g_add_match;
static void secp256k1_gej_add_ge(secp256k1_gej *r, const secp256k1_gej *a, const secp256k1_ge *b)
__CPROVER_requires(__CPROVER_w_ok(r, sizeof(*r)) && __CPROVER_r_ok(a, sizeof(*a)) && __CPROVER_r_ok(b, sizeof(*b)))
__CPROVER_requires(gej_ok(a) && ge_ok(b))
__CPROVER_assigns(*r, verif_c04_add_n, verif_c04_add_last_inf, g_add_match)
__CPROVER_ensures(gej_ok(r))
__CPROVER_ensures(verif_c04_add_n == __CPROVER_old(verif_c04_add_n) + 1 && verif_c04_add_last_inf == r->infinity)
__CPROVER_ensures(g_add_match == __CPROVER_old(g_add_match) + ((FE_EQ_OLD(g_add_wx, b->x) && FE_EQ_OLD(g_add_wy, b->y) && !__CPROVER_old(b->infinity)) ? 1 : 0))
;

int g_hsort_n; const void *g_hsort_ptr; size_t g_hsort_count, g_hsort_size; const void *g_hsort_data;
int (*g_hsort_cmp)(const void *, const void *, void *);
static void secp256k1_hsort(void *ptr, size_t count, size_t size, int (*cmp)(const void *, const void *, void *), void *cmp_data)
__CPROVER_requires(size != 0 && count <= ((size_t)-1) / size && (count == 0 || __CPROVER_rw_ok(ptr, count * size)) && cmp != NULL)
__CPROVER_assigns(__CPROVER_object_whole(ptr), g_hsort_n, g_hsort_ptr, g_hsort_count, g_hsort_size, g_hsort_data, g_hsort_cmp)
__CPROVER_ensures(g_hsort_n == __CPROVER_old(g_hsort_n) + 1)
__CPROVER_ensures(g_hsort_ptr == ptr && g_hsort_count == count && g_hsort_size == size && g_hsort_cmp == cmp && g_hsort_data == cmp_data)
;
#endif

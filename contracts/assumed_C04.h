/* C04-specific contracts (same rules as assumed.h: frame + representation invariant + ghost log,
 * never an algebraic fact).
 *
 *  secp256k1_gej_add_ge   ASSUMED oracle (group law).  Log: number of calls, the infinity flag of
 *                         the latest result (these two are named verif_c04_* because the loop invariant
 *                         in ec_pubkey_combine refers to them), and for the WATCHED call number g_add_watch
 *                         (never assigned by code or contracts) the affine operand that was added.
 *  secp256k1_hsort        frame + ARGUMENT LOG only; used by C04.sort_api.  Its functional contract
 *                         ("output is a sorted permutation of the count elements") is checked on the
 *                         real body by C04.hsort_body (bounded) - the log is what ties the API to it. */
#ifndef VERIF_ASSUMED_C04_H
#define VERIF_ASSUMED_C04_H
#include "assumed.h"

size_t verif_c04_gi;   /* ghost index named by the loop invariants in ec_pubkey_sort / ec_pubkey_combine; never assigned by code */
size_t verif_c04_add_n; int verif_c04_add_last_inf; size_t g_add_watch; int g_add_hit; secp256k1_fe g_add_bx, g_add_by; int g_add_binf;
static void secp256k1_gej_add_ge(secp256k1_gej *r, const secp256k1_gej *a, const secp256k1_ge *b)
__CPROVER_requires(__CPROVER_w_ok(r, sizeof(*r)) && __CPROVER_r_ok(a, sizeof(*a)) && __CPROVER_r_ok(b, sizeof(*b)))
#ifdef C04_ADD_LOOP_PRE
/* loop-contract unit (C04.pubkey_combine): the accumulator's range is the oracle's own postcondition carried round
 * the loop, not a fact about the caller; it is checked with the full precondition in C04.pubkey_combine_small */
__CPROVER_requires(ge_ok(b))
#else
__CPROVER_requires(gej_ok(a) && ge_ok(b))
#endif
__CPROVER_ensures(gej_ok(r))
__CPROVER_ensures(verif_c04_add_n == __CPROVER_old(verif_c04_add_n) + 1 && verif_c04_add_last_inf == r->infinity)
#ifdef C04_ADD_LOOP_PRE
__CPROVER_assigns(*r, verif_c04_add_n, verif_c04_add_last_inf)
#else
__CPROVER_assigns(*r, verif_c04_add_n, verif_c04_add_last_inf, g_add_hit, g_add_bx, g_add_by, g_add_binf)
__CPROVER_ensures(__CPROVER_old(verif_c04_add_n) == g_add_watch
    ? (g_add_hit == 1 && FE_EQ_OLD(g_add_bx, b->x) && FE_EQ_OLD(g_add_by, b->y) && g_add_binf == __CPROVER_old(b->infinity))
    : (g_add_hit == __CPROVER_old(g_add_hit) && FE_KEEP(g_add_bx) && FE_KEEP(g_add_by) && g_add_binf == __CPROVER_old(g_add_binf)))
#endif
;

int g_hsort_n; const void *g_hsort_ptr; size_t g_hsort_count, g_hsort_size; const void *g_hsort_data;
int (*g_hsort_cmp)(const void *, const void *, void *);
static void secp256k1_hsort(void *ptr, size_t count, size_t size, int (*cmp)(const void *, const void *, void *), void *cmp_data)
__CPROVER_requires(size != 0 && count <= ((size_t)-1) / size && (count == 0 || __CPROVER_rw_ok(ptr, count * size)) && cmp != NULL)
__CPROVER_assigns(__CPROVER_object_whole(ptr), g_hsort_n, g_hsort_ptr, g_hsort_count, g_hsort_size, g_hsort_data, g_hsort_cmp)
__CPROVER_ensures(g_hsort_n == __CPROVER_old(g_hsort_n) + 1)
__CPROVER_ensures(g_hsort_ptr == ptr && g_hsort_count == count && g_hsort_size == size && g_hsort_cmp == cmp && g_hsort_data == cmp_data)
;
#endif

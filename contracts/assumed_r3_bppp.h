/* r3 (C19 / C07): oracle contracts for the Bulletproofs++ norm-argument PROVER unit, -DVERIFY builds only (field
 * elements carry magnitude / normalized fields; secp256k1_fe_mul / _sqr / _inv_var are real wrapper functions in that
 * build and the contracts are attached to them).  Stand-alone: include INSTEAD of assumed.h / assumed_bppp.h
 * (hash_log.h can be included next to it).
 *
 * Every contract states only: pointer validity, the callee's DOCUMENTED representation precondition (field.h /
 * group.h: magnitudes, "valid group element"), the frame, the representation invariant of the result.  No algebraic
 * fact.  In particular the `infinity` flag of every Jacobian result is ARBITRARY (0 or 1), independently per call.
 *
 * ASSUMED oracles: secp256k1_fe_mul, secp256k1_fe_sqr, secp256k1_fe_inv_var, secp256k1_scalar_mul, secp256k1_scalar_sqr,
 *   secp256k1_scalar_inverse_var, secp256k1_ecmult, secp256k1_gej_add_var, secp256k1_gej_add_ge_var.
 * Kept REAL by the prover unit (their VERIFY_CHECKs are obligations): secp256k1_ge_set_gej_var, secp256k1_ge_set_gej_zinv,
 *   secp256k1_gej_set_ge, secp256k1_ge_set_xy, secp256k1_ge_set_infinity, secp256k1_gej_is_infinity, secp256k1_ge_is_infinity,
 *   secp256k1_ge_serialize_ext, secp256k1_eckey_pubkey_serialize33, secp256k1_fe_normalize_var / _is_odd / _get_b32 / _set_int,
 *   secp256k1_scalar_add / _set_int / _get_b32 / _set_b32, secp256k1_bppp_serialize_points. */
#ifndef VERIF_ASSUMED_R3_BPPP_H
#define VERIF_ASSUMED_R3_BPPP_H
#include "pre.h"
#if !defined(VERIFY) || defined(USE_FORCE_WIDEMUL_INT64) || defined(VERIF_NATIVE)
#error "assumed_r3_bppp.h: verifier-only, 5x52 field, -DVERIFY build"
#endif

/* representation invariant of a VERIFY-build field element (field_5x52.h / field.h); implies secp256k1_fe_verify */
static inline int bp_fe_ok(const secp256k1_fe *a) {
    uint64_t m;
    if (a->magnitude < 0 || a->magnitude > 32) return 0;
    if (a->normalized != 0 && a->normalized != 1) return 0;
    if (a->normalized && a->magnitude > 1) return 0;
    m = 2 * (uint64_t)a->magnitude;
    if (!(a->n[0] <= 0xFFFFFFFFFFFFFULL * m && a->n[1] <= 0xFFFFFFFFFFFFFULL * m && a->n[2] <= 0xFFFFFFFFFFFFFULL * m &&
          a->n[3] <= 0xFFFFFFFFFFFFFULL * m && a->n[4] <= 0x0FFFFFFFFFFFFULL * m)) return 0;
    if (a->normalized && !fe_canon(a)) return 0;
    return 1;
}
/* group.h: "valid" group elements (secp256k1_ge_verify / secp256k1_gej_verify): coordinate magnitudes 4/3 and 4/4/1 */
static inline int bp_ge_ok(const secp256k1_ge *g) {
    return bp_fe_ok(&g->x) && bp_fe_ok(&g->y) && g->x.magnitude <= 4 && g->y.magnitude <= 3 && (g->infinity == 0 || g->infinity == 1);
}
static inline int bp_gej_ok(const secp256k1_gej *g) {
    return bp_fe_ok(&g->x) && bp_fe_ok(&g->y) && bp_fe_ok(&g->z) && g->x.magnitude <= 4 && g->y.magnitude <= 4 && g->z.magnitude <= 1 &&
           (g->infinity == 0 || g->infinity == 1);
}

/* ---- field multiplication / squaring / inversion (field.h preconditions) ---- */
static void secp256k1_fe_mul(secp256k1_fe *r, const secp256k1_fe *a, const secp256k1_fe * SECP256K1_RESTRICT b)
__CPROVER_requires(__CPROVER_w_ok(r, sizeof(*r)) && __CPROVER_r_ok(a, sizeof(*a)) && __CPROVER_r_ok(b, sizeof(*b)))
__CPROVER_requires(bp_fe_ok(a) && a->magnitude <= 8)
__CPROVER_requires(bp_fe_ok(b) && b->magnitude <= 8)
__CPROVER_requires(r != b && a != b)
__CPROVER_assigns(*r)
__CPROVER_ensures(bp_fe_ok(r) && r->magnitude == 1 && r->normalized == 0)
;
static void secp256k1_fe_sqr(secp256k1_fe *r, const secp256k1_fe *a)
__CPROVER_requires(__CPROVER_w_ok(r, sizeof(*r)) && __CPROVER_r_ok(a, sizeof(*a)))
__CPROVER_requires(bp_fe_ok(a) && a->magnitude <= 8)
__CPROVER_assigns(*r)
__CPROVER_ensures(bp_fe_ok(r) && r->magnitude == 1 && r->normalized == 0)
;
static void secp256k1_fe_inv_var(secp256k1_fe *r, const secp256k1_fe *x)
__CPROVER_requires(__CPROVER_w_ok(r, sizeof(*r)) && __CPROVER_r_ok(x, sizeof(*x)))
__CPROVER_requires(bp_fe_ok(x))
__CPROVER_assigns(*r)
__CPROVER_ensures(bp_fe_ok(r) && r->magnitude == (__CPROVER_old(x->magnitude) > 0) && r->normalized == 1)
;

/* ---- scalar multiplication / squaring / inversion: operands and results are scalars below the group order ---- */
static void secp256k1_scalar_mul(secp256k1_scalar *r, const secp256k1_scalar *a, const secp256k1_scalar *b)
__CPROVER_requires(__CPROVER_w_ok(r, sizeof(*r)) && __CPROVER_r_ok(a, sizeof(*a)) && __CPROVER_r_ok(b, sizeof(*b)))
__CPROVER_requires(scalar_ok(a) && scalar_ok(b))
__CPROVER_assigns(*r)
__CPROVER_ensures(scalar_ok(r))
;
static void secp256k1_scalar_sqr(secp256k1_scalar *r, const secp256k1_scalar *a)
__CPROVER_requires(__CPROVER_w_ok(r, sizeof(*r)) && __CPROVER_r_ok(a, sizeof(*a)) && scalar_ok(a))
__CPROVER_assigns(*r)
__CPROVER_ensures(scalar_ok(r))
;
static void secp256k1_scalar_inverse_var(secp256k1_scalar *r, const secp256k1_scalar *x)
__CPROVER_requires(__CPROVER_w_ok(r, sizeof(*r)) && __CPROVER_r_ok(x, sizeof(*x)) && scalar_ok(x))
__CPROVER_assigns(*r)
__CPROVER_ensures(scalar_ok(r))
;

/* ---- curve multiplication and additions: valid operands in, an ARBITRARY valid Jacobian element out (infinity or not) ---- */
static void secp256k1_ecmult(secp256k1_gej *r, const secp256k1_gej *a, const secp256k1_scalar *na, const secp256k1_scalar *ng)
__CPROVER_requires(__CPROVER_w_ok(r, sizeof(*r)) && __CPROVER_r_ok(a, sizeof(*a)) && bp_gej_ok(a))
__CPROVER_requires((na == NULL || (__CPROVER_r_ok(na, sizeof(*na)) && scalar_ok(na))) && (ng == NULL || (__CPROVER_r_ok(ng, sizeof(*ng)) && scalar_ok(ng))))
__CPROVER_assigns(*r)
__CPROVER_ensures(bp_gej_ok(r))
;
static void secp256k1_gej_add_var(secp256k1_gej *r, const secp256k1_gej *a, const secp256k1_gej *b, secp256k1_fe *rzr)
__CPROVER_requires(__CPROVER_w_ok(r, sizeof(*r)) && __CPROVER_r_ok(a, sizeof(*a)) && __CPROVER_r_ok(b, sizeof(*b)) && bp_gej_ok(a) && bp_gej_ok(b))
__CPROVER_requires(rzr == NULL || __CPROVER_w_ok(rzr, sizeof(*rzr)))
__CPROVER_assigns(*r; rzr != NULL: *rzr)
__CPROVER_ensures(bp_gej_ok(r) && (rzr == NULL || bp_fe_ok(rzr)))
;
static void secp256k1_gej_add_ge_var(secp256k1_gej *r, const secp256k1_gej *a, const secp256k1_ge *b, secp256k1_fe *rzr)
__CPROVER_requires(__CPROVER_w_ok(r, sizeof(*r)) && __CPROVER_r_ok(a, sizeof(*a)) && __CPROVER_r_ok(b, sizeof(*b)) && bp_gej_ok(a) && bp_ge_ok(b))
__CPROVER_requires(rzr == NULL || __CPROVER_w_ok(rzr, sizeof(*rzr)))
__CPROVER_assigns(*r; rzr != NULL: *rzr)
__CPROVER_ensures(bp_gej_ok(r) && (rzr == NULL || bp_fe_ok(rzr)))
;
#endif

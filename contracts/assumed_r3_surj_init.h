/* C11/C07 r3 (eng_ells_b): ORACLE contract for the surjection-proof input-selection generator
 *      static size_t secp256k1_surjectionproof_csprng_next(hash_ctx, csprng, rand_max)
 * used by the unit C11.r3_initialize, which replaces the call.
 *
 * Include this file TWICE: before "src/secp256k1.c" (emits the SHA-256 stubs when R3_SURJ_SHA_STUBS is defined) and
 * after it (emits the generator contract: the state type secp256k1_surjectionproof_csprng is a typedef local to
 * src/modules/surjection/main_impl.h, so the contract can only be written on a redeclaration that follows it).
 *
 * What is stated (frame + representation invariant + result range, nothing else):
 *   requires  rand_max in 1..65536 (the body divides by rand_max and, above 65536, its acceptance limit is 0),
 *             the generator object is readable/writable and its byte position is inside the 32-byte state
 *             (state_i <= 32: csprng_init sets 0, every call preserves it; the body never reads at or beyond position 32), the hash context is readable;
 *   assigns   only the generator object;
 *   ensures   result < rand_max ("return val % rand_max" / the code comment "the range (0, rand_max - 1)"),
 *             position still inside the state.
 * NOT stated: which value is returned, uniformity, that two calls differ, that the rejection loop terminates
 * (the VALUE is an arbitrary number below rand_max: every statement proved with this contract holds for every
 * behaviour of the generator, in particular the adversarial ones that always return the same index).
 * That the REAL body meets this contract (with only the SHA-256 calls replaced) is unit C11.r3_csprng_next. */
#if !defined(VERIF_NATIVE) && !defined(SECP256K1_MODULE_SURJECTION_MAIN_H) && defined(R3_SURJ_SHA_STUBS) && !defined(VERIF_R3_SURJ_SHA_DONE)
#define VERIF_R3_SURJ_SHA_DONE
/* frame-only stubs for the two hash calls of the refill (unit C11.r3_csprng_next): they overwrite the hash object and,
 * for finalize, the 32 output bytes; nothing is said about the values */
static void secp256k1_sha256_write(const secp256k1_hash_ctx *hash_ctx, secp256k1_sha256 *hash, const unsigned char *data, size_t len)
__CPROVER_requires(hash_ctx != NULL && __CPROVER_rw_ok(hash, sizeof(*hash)) && (len == 0 || __CPROVER_r_ok(data, len)))
__CPROVER_assigns(*hash);
static void secp256k1_sha256_finalize(const secp256k1_hash_ctx *hash_ctx, secp256k1_sha256 *hash, unsigned char *out32)
__CPROVER_requires(hash_ctx != NULL && __CPROVER_rw_ok(hash, sizeof(*hash)) && __CPROVER_w_ok(out32, 32))
__CPROVER_assigns(*hash, __CPROVER_object_upto(out32, 32));
#endif
#if !defined(VERIF_NATIVE) && defined(SECP256K1_MODULE_SURJECTION_MAIN_H) && !defined(VERIF_R3_SURJ_CSPRNG_DONE)
#define VERIF_R3_SURJ_CSPRNG_DONE
static size_t secp256k1_surjectionproof_csprng_next(const secp256k1_hash_ctx *hash_ctx, secp256k1_surjectionproof_csprng *csprng, size_t rand_max)
__CPROVER_requires(rand_max >= 1 && rand_max <= 65536)
__CPROVER_requires(__CPROVER_r_ok(hash_ctx, sizeof(*hash_ctx)))
__CPROVER_requires(__CPROVER_rw_ok(csprng, sizeof(*csprng)) && csprng->state_i <= 32)
__CPROVER_assigns(__CPROVER_object_whole(csprng))
__CPROVER_ensures(__CPROVER_return_value < rand_max)
__CPROVER_ensures(csprng->state_i <= 32);
#endif

/* ASSUMED (oracle) call-site stubs for the UNBOUNDED units on secp256k1_borromean_verify (C10/C11/C16/C07,
 * harness/C10/r3_borromean_gates.c).  Same mechanism and rules as part (B) of assumed_rangeproof.h: the real
 * definitions are included first and stay untouched; the USES that follow (borromean_impl.h compiled from
 * the real file through secp256k1.c) are renamed to the stubs.  Every stub ASSERTS the pointer validity its
 * callee needs (an obligation at every call site), writes arbitrary values (constrained only by the
 * representation invariant, and only when the operands satisfy theirs) to exactly the objects the callee may
 * write, and records a ghost log.  None states an algebraic fact.
 *
 * The stubs are written for LOOP CONTRACTS: all ghost state is plain int / byte-array globals (they appear in
 * the loops' assigns clauses and invariants), and the selectors are fixed by the harness before the call:
 *   r3_gk            the watched FLAT ring-member index (never assigned by code or stubs)
 *   r3_ki, r3_kj     ring and position of member r3_gk: the challenge hash of that member is the hash whose
 *                    last two writes are the 4-byte strings be32(r3_ki), be32(r3_kj)  (identified BY CONTENT)
 *   r3_clen          total length of the closing hash (33 bytes per non-empty ring + |m|); never the length of a
 *                    challenge hash (|e| + |m| + 8 with |e| in {32,33})
 *   r3_kdig[32]      the digest the hash oracle answers for the watched challenge hash: an arbitrary value,
 *                    chosen up front by the harness (nondeterministic input) instead of inside the stub, so
 *                    that the harness can state what the real scalar_set_b32 makes of it
 *   r3_key_a/_s/_e   VALUES of pubs[r3_gk], s[r3_gk] and of the challenge scalar of member r3_gk: the curve
 *                    evaluation of the member is the ecmult call with these operand values              */
#ifndef VERIF_ASSUMED_R3_BORROMEAN_H
#define VERIF_ASSUMED_R3_BORROMEAN_H
#include "assumed.h"
#include "src/field_impl.h"
#include "src/scalar_impl.h"
#include "src/group_impl.h"
#include "src/hash_impl.h"
#include "src/ecmult_impl.h"
#ifdef R3_STUB_LEAVES
#include "src/eckey_impl.h"
#endif

#define R3_PRE(c, msg) __CPROVER_assert(c, "precondition at call site: " msg)
#ifndef GEJ_VEQ
#define GEJ_VEQ(p, q) (FE_EQ((p).x, (q).x) && FE_EQ((p).y, (q).y) && FE_EQ((p).z, (q).z) && (p).infinity == (q).infinity)
#endif
#define R3_8(b) R3_O(b) R3_O(b + 1) R3_O(b + 2) R3_O(b + 3) R3_O(b + 4) R3_O(b + 5) R3_O(b + 6) R3_O(b + 7)
uint64_t nondet_r3_u64(void); unsigned char nondet_r3_uchar(void); secp256k1_ge nondet_r3_ge(void); secp256k1_gej nondet_r3_gej(void);

/* selectors (harness only) */
size_t r3_gk; uint32_t r3_ki, r3_kj; uint64_t r3_clen; unsigned char r3_kdig[32];
secp256k1_gej r3_key_a; secp256k1_scalar r3_key_s, r3_key_e;
/* logs */
int r3_n4;                               /* number of trailing 4-byte writes of the hash being fed (saturates at 2) */
unsigned char r3_l4a[4], r3_l4b[4];      /* the last two 4-byte writes */
int r3_kfin;                             /* the watched challenge hash was finalized (and answered r3_kdig) */
int r3_kdup;                             /* ... more than once */
int r3_cfin;                             /* number of finalized hashes of total length r3_clen */
unsigned char r3_cdig[32];               /* digest answered for the first of them */
int r3_em_hit;                           /* an ecmult call had the operand VALUES (r3_key_a, r3_key_e, r3_key_s) */
int r3_em_rinf;                          /* ... and its (arbitrary) result was the point at infinity */
#define R3_RESET() do { r3_n4 = 0; r3_kfin = 0; r3_kdup = 0; r3_cfin = 0; r3_em_hit = 0; r3_em_rinf = 0; } while (0)

/* ---- SHA-256 stream oracle (meaning of the stream contracts of hash_log.h; digest = arbitrary 32 bytes) ---- */
static void r3_stub_sha256_write(const secp256k1_hash_ctx *hash_ctx, secp256k1_sha256 *hash, const unsigned char *data, size_t len) {
    uint64_t ob = hash->bytes;
    R3_PRE(hash_ctx != NULL && (len == 0 || __CPROVER_r_ok(data, len)) && ob + len >= len, "sha256_write reads len bytes");
    if (ob == 0) r3_n4 = 0;
    if (len == 4) {
        r3_l4a[0] = r3_l4b[0]; r3_l4a[1] = r3_l4b[1]; r3_l4a[2] = r3_l4b[2]; r3_l4a[3] = r3_l4b[3];
        r3_l4b[0] = data[0]; r3_l4b[1] = data[1]; r3_l4b[2] = data[2]; r3_l4b[3] = data[3];
        if (r3_n4 < 2) r3_n4++;
    } else r3_n4 = 0;
    hash->s[0] = (uint32_t)nondet_r3_u64(); hash->s[1] = (uint32_t)nondet_r3_u64(); hash->s[2] = (uint32_t)nondet_r3_u64(); hash->s[3] = (uint32_t)nondet_r3_u64();
    hash->s[4] = (uint32_t)nondet_r3_u64(); hash->s[5] = (uint32_t)nondet_r3_u64(); hash->s[6] = (uint32_t)nondet_r3_u64(); hash->s[7] = (uint32_t)nondet_r3_u64();
    hash->bytes = ob + len;
}
static void r3_stub_sha256_finalize(const secp256k1_hash_ctx *hash_ctx, secp256k1_sha256 *hash, unsigned char *out32) {
    int keyed;
    R3_PRE(hash_ctx != NULL && __CPROVER_w_ok(out32, 32), "sha256_finalize writes 32 bytes");
    keyed = r3_n4 == 2 &&
        r3_l4a[0] == (unsigned char)(r3_ki >> 24) && r3_l4a[1] == (unsigned char)(r3_ki >> 16) && r3_l4a[2] == (unsigned char)(r3_ki >> 8) && r3_l4a[3] == (unsigned char)r3_ki &&
        r3_l4b[0] == (unsigned char)(r3_kj >> 24) && r3_l4b[1] == (unsigned char)(r3_kj >> 16) && r3_l4b[2] == (unsigned char)(r3_kj >> 8) && r3_l4b[3] == (unsigned char)r3_kj;
    /* no loops in stubs called inside contract-carrying loops (DFCC: the loop counter of an un-annotated nested loop fails the frame check) */
#define R3_O(k) out32[k] = keyed ? r3_kdig[k] : nondet_r3_uchar();
    R3_8(0) R3_8(8) R3_8(16) R3_8(24)
#undef R3_O
    if (keyed) { if (r3_kfin) r3_kdup = 1; r3_kfin = 1; }
    if (hash->bytes == r3_clen) {
#define R3_O(k) r3_cdig[k] = out32[k];
        if (r3_cfin == 0) { R3_8(0) R3_8(8) R3_8(16) R3_8(24) }
#undef R3_O
        if (r3_cfin < 2) r3_cfin++;
    }
    r3_n4 = 0;
    hash->bytes = nondet_r3_u64();
}

/* ---- na*A + ng*G: arbitrary group element, in representation range when the operands are ---- */
static void r3_stub_ecmult(secp256k1_gej *r, const secp256k1_gej *a, const secp256k1_scalar *na, const secp256k1_scalar *ng) {
    secp256k1_gej t = nondet_r3_gej(), in; secp256k1_scalar xa, xg; int ok;
    R3_PRE(__CPROVER_w_ok(r, sizeof(*r)) && __CPROVER_r_ok(a, sizeof(*a)) && (na == NULL || __CPROVER_r_ok(na, sizeof(*na))) && (ng == NULL || __CPROVER_r_ok(ng, sizeof(*ng))),
           "ecmult operands readable, result writable");
    in = *a;
    ok = gej_ok(&in);
    if (na != NULL) { xa = *na; ok = ok && scalar_ok(&xa); }
    if (ng != NULL) { xg = *ng; ok = ok && scalar_ok(&xg); }
    __CPROVER_assume(!ok || gej_ok(&t));
    __CPROVER_assume(t.infinity == 0 || t.infinity == 1);
    if (na != NULL && ng != NULL && SC_EQ(xa, r3_key_e) && SC_EQ(xg, r3_key_s) && GEJ_VEQ(in, r3_key_a)) { r3_em_hit = 1; r3_em_rinf = t.infinity; }
    *r = t;
}

/* ---- Jacobian -> affine: arbitrary affine point with the same infinity flag; the input may be rescaled ---- */
static void r3_stub_ge_set_gej_var(secp256k1_ge *r, secp256k1_gej *a) {
    secp256k1_ge t = nondet_r3_ge(); secp256k1_gej u = nondet_r3_gej(), in; int inf, ok;
    R3_PRE(__CPROVER_w_ok(r, sizeof(*r)) && __CPROVER_rw_ok(a, sizeof(*a)), "ge_set_gej_var operand readable and writable, result writable");
    in = *a; inf = in.infinity; ok = gej_ok(&in);
    __CPROVER_assume(!ok || (ge_ok1(&t) && gej_ok(&u)));
    t.infinity = inf; u.infinity = inf;
    *a = u;
    *r = t;
}

#ifdef R3_STUB_LEAVES
/* Optional (units that only need the index / gate structure): the two leaf functions called once per ring member.
 * secp256k1_scalar_set_b32: contract proved in C10.leaf_scalar_set_b32 (frame = {r, overflow}, r < n, overflow in {0,1}); here
 * without the value clause.  secp256k1_eckey_pubkey_serialize33: frame = the 33 output bytes. */
secp256k1_scalar nondet_r3_scalar(void); int nondet_r3_int(void);
static void r3_real_scalar_set_b32(secp256k1_scalar *r, const unsigned char *b32, int *overflow) { secp256k1_scalar_set_b32(r, b32, overflow); }
static void r3_stub_scalar_set_b32(secp256k1_scalar *r, const unsigned char *b32, int *overflow) {
    secp256k1_scalar t = nondet_r3_scalar(); int o = nondet_r3_int();
    R3_PRE(__CPROVER_r_ok(b32, 32) && __CPROVER_w_ok(r, sizeof(*r)) && (overflow == NULL || __CPROVER_w_ok(overflow, sizeof(int))), "scalar_set_b32 reads 32 bytes, writes r and overflow");
    __CPROVER_assume(scalar_ok(&t) && (o == 0 || o == 1));
    *r = t;
    if (overflow != NULL) *overflow = o;
}
static void r3_stub_eckey_pubkey_serialize33(secp256k1_ge *elem, unsigned char *pub33) {
    R3_PRE(__CPROVER_rw_ok(elem, sizeof(*elem)) && __CPROVER_w_ok(pub33, 33), "eckey_pubkey_serialize33 reads the point, writes 33 bytes");
#define R3_O(k) pub33[k] = nondet_r3_uchar();
    R3_8(0) R3_8(8) R3_8(16) R3_8(24) R3_O(32)
#undef R3_O
}
#else
#define r3_real_scalar_set_b32 secp256k1_scalar_set_b32
#endif

/* ---- the renames: every USE below this line goes to the stub ---- */
#define secp256k1_sha256_write r3_stub_sha256_write
#define secp256k1_sha256_finalize r3_stub_sha256_finalize
#define secp256k1_ecmult r3_stub_ecmult
#define secp256k1_ge_set_gej_var r3_stub_ge_set_gej_var
#ifdef R3_STUB_LEAVES
#define secp256k1_scalar_set_b32 r3_stub_scalar_set_b32
#define secp256k1_eckey_pubkey_serialize33 r3_stub_eckey_pubkey_serialize33
#endif
#endif

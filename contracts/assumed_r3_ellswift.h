/* r3 (C18/C07): oracle contracts for the ElligatorSwift ENCODER side (inverse map + search loop), VERIFY builds only
 * (-DVERIFY: field elements carry magnitude/normalized fields; the contracts are attached to the VERIFY-build WRAPPERS
 * secp256k1_fe_mul / _sqr / _inv_var / _sqrt / _is_square_var, which are real functions in that build).
 * Stand-alone (include INSTEAD of assumed.h / assumed_C18.h).  Same rules as everywhere: frame + representation
 * invariant (as DEFINED in field_5x52.h / field.h) + result in {0,1} + ghost log; NO algebraic fact.
 *
 * ASSUMED oracles: secp256k1_fe_mul, secp256k1_fe_sqr, secp256k1_fe_inv_var, secp256k1_fe_sqrt,
 *   secp256k1_fe_is_square_var, secp256k1_ge_x_on_curve_var;  search-loop unit: secp256k1_ellswift_prng and
 *   secp256k1_ellswift_xswiftec_inv_var (whose own body is under contract in C18.r3_inv_var with the field oracles above).
 * All other field operations (normalize_weak, add, negate, half, mul_int, add_int, normalizes_to_zero_var, normalize_var,
 * is_odd, set_b32_mod) stay REAL code: their VERIFY_CHECKs are the obligations "every branch satisfies the magnitude /
 * normalisation precondition of every field operation it calls".
 * Calls are identified by operand VALUE (mod p) against WATCH values set by the harness, never by call number. */
#ifndef VERIF_ASSUMED_R3_ELLSWIFT_H
#define VERIF_ASSUMED_R3_ELLSWIFT_H
#include "pre.h"
#if !defined(VERIFY) || defined(USE_FORCE_WIDEMUL_INT64) || defined(VERIF_NATIVE)
#error "assumed_r3_ellswift.h: verifier-only, 5x52 field, -DVERIFY build"
#endif

/* value mod p of any valid field element (magnitude <= 32: value < 2^263) */
static inline wide r3_modp(wide a) {
    wide lo = a & ((W(1) << 256) - 1), hi = a >> 256;      /* 2^256 = 0x1000003D1 (mod p) */
    wide r = lo + W((uint64_t)hi * 0x1000003D1ULL);      /* hi < 2^64 / 2^33 for every valid element */
    if (r >= P_()) r -= P_();
    if (r >= P_()) r -= P_();
    return r;
}
static inline wide r3_negp(wide a) { return a == 0 ? a : P_() - a; }   /* a < p */
static inline wide r3_val(const secp256k1_fe *a) { return r3_modp(fval(a)); }
/* representation invariant of a VERIFY-build field element (field_5x52.h: "Magnitude m requires n[i] <= 2 m (2^52-1),
 * n[4] <= 2 m (2^48-1)"; "Normalized requires n[i] <= 2^52-1, value < p"; field.h: magnitude in [0,32], normalized in
 * {0,1}, normalized implies magnitude <= 1).  Implies the repo's own secp256k1_fe_verify. */
static inline int r3_fe_ok(const secp256k1_fe *a) {
    uint64_t m;
    if (a->magnitude < 0 || a->magnitude > 32) return 0;
    if (a->normalized != 0 && a->normalized != 1) return 0;
    if (a->normalized && a->magnitude > 1) return 0;
    m = 2 * (uint64_t)a->magnitude;
    if (!(a->n[0] <= 0xFFFFFFFFFFFFFULL * m && a->n[1] <= 0xFFFFFFFFFFFFFULL * m && a->n[2] <= 0xFFFFFFFFFFFFFULL * m &&
          a->n[3] <= 0xFFFFFFFFFFFFFULL * m && a->n[4] <= 0x0FFFFFFFFFFFFULL * m)) return 0;
    if (a->normalized && !fe_canon(a)) return 0;
    return 1;
}
#define R3_LIMBS_EQ(x, y) ((x).n[0] == (y).n[0] && (x).n[1] == (y).n[1] && (x).n[2] == (y).n[2] && (x).n[3] == (y).n[3] && (x).n[4] == (y).n[4])
#define R3_LIMBS_EQ_OLD(x, y) ((x).n[0] == __CPROVER_old((y).n[0]) && (x).n[1] == __CPROVER_old((y).n[1]) && (x).n[2] == __CPROVER_old((y).n[2]) && (x).n[3] == __CPROVER_old((y).n[3]) && (x).n[4] == __CPROVER_old((y).n[4]))
#define R3_LIMBS_KEEP(x) ((x).n[0] == __CPROVER_old((x).n[0]) && (x).n[1] == __CPROVER_old((x).n[1]) && (x).n[2] == __CPROVER_old((x).n[2]) && (x).n[3] == __CPROVER_old((x).n[3]) && (x).n[4] == __CPROVER_old((x).n[4]))

#define R3_FIRST_LAST(n, first, last, cur) (R3_LIMBS_EQ_OLD(last, cur) && (__CPROVER_old(n) == 0 ? R3_LIMBS_EQ_OLD(first, cur) : R3_LIMBS_KEEP(first)))
#define R3_FIRST_LAST_NEW(n, first, last, cur) (R3_LIMBS_EQ(last, cur) && (__CPROVER_old(n) == 0 ? R3_LIMBS_EQ(first, cur) : R3_LIMBS_KEEP(first)))
/* All logs are LIMB copies (no arithmetic inside contracts); the harness evaluates values mod p.  Every oracle logs its
 * FIRST and its LATEST call; the code under contract makes at most two calls of each verdict oracle per run (the harness
 * checks the count where it matters), so the harness sees them as a SET of calls, identified by operand value. */
/* ---- multiplication: operands valid with magnitude <= 8, r != b, a != b (field.h); result magnitude 1.
 *      Log: the LATEST call's operand and result limbs (operands an unordered pair for the harness);
 *      g_r3_saw0/1: some multiplication had an operand whose limbs equal the watch element g_r3_w0/1. ---- */
int g_r3_mul_n; secp256k1_fe g_r3_mul_al, g_r3_mul_bl, g_r3_mul_rl;
secp256k1_fe g_r3_w0, g_r3_w1; int g_r3_saw0, g_r3_saw1;          /* g_r3_w*: set by the harness only */
static void secp256k1_fe_mul(secp256k1_fe *r, const secp256k1_fe *a, const secp256k1_fe * SECP256K1_RESTRICT b)
__CPROVER_requires(__CPROVER_w_ok(r, sizeof(*r)) && __CPROVER_r_ok(a, sizeof(*a)) && __CPROVER_r_ok(b, sizeof(*b)))
__CPROVER_requires(r3_fe_ok(a) && a->magnitude <= 8)
__CPROVER_requires(r3_fe_ok(b) && b->magnitude <= 8)
__CPROVER_requires(r != b && a != b)
__CPROVER_assigns(*r, g_r3_mul_n, g_r3_mul_al, g_r3_mul_bl, g_r3_mul_rl, g_r3_saw0, g_r3_saw1)
__CPROVER_ensures(r3_fe_ok(r) && r->magnitude == 1 && r->normalized == 0 && g_r3_mul_n == __CPROVER_old(g_r3_mul_n) + 1)
__CPROVER_ensures(R3_LIMBS_EQ_OLD(g_r3_mul_al, *a) && R3_LIMBS_EQ_OLD(g_r3_mul_bl, *b) && R3_LIMBS_EQ(g_r3_mul_rl, *r))
__CPROVER_ensures(g_r3_saw0 == (__CPROVER_old(g_r3_saw0) || R3_LIMBS_EQ_OLD(g_r3_w0, *a) || R3_LIMBS_EQ_OLD(g_r3_w0, *b)))
__CPROVER_ensures(g_r3_saw1 == (__CPROVER_old(g_r3_saw1) || R3_LIMBS_EQ_OLD(g_r3_w1, *a) || R3_LIMBS_EQ_OLD(g_r3_w1, *b)))
;
int g_r3_sqr_n;
static void secp256k1_fe_sqr(secp256k1_fe *r, const secp256k1_fe *a)
__CPROVER_requires(__CPROVER_w_ok(r, sizeof(*r)) && __CPROVER_r_ok(a, sizeof(*a)))
__CPROVER_requires(r3_fe_ok(a) && a->magnitude <= 8)
__CPROVER_assigns(*r, g_r3_sqr_n)
__CPROVER_ensures(r3_fe_ok(r) && r->magnitude == 1 && r->normalized == 0 && g_r3_sqr_n == __CPROVER_old(g_r3_sqr_n) + 1)
;
int g_r3_inv_n;
static void secp256k1_fe_inv_var(secp256k1_fe *r, const secp256k1_fe *a)
__CPROVER_requires(__CPROVER_w_ok(r, sizeof(*r)) && __CPROVER_r_ok(a, sizeof(*a)))
__CPROVER_requires(r3_fe_ok(a))
__CPROVER_assigns(*r, g_r3_inv_n)
__CPROVER_ensures(r3_fe_ok(r) && r->magnitude == (__CPROVER_old(a->magnitude) > 0) && r->normalized == 1 && g_r3_inv_n == __CPROVER_old(g_r3_inv_n) + 1)
;
/* ---- square root: operand valid, magnitude <= 8, r != a; g_r3_sqrt_fail: some verdict was 0; operand and result limbs of
 *      the first and of the latest call ---- */
int g_r3_sqrt_n, g_r3_sqrt_fail; secp256k1_fe g_r3_sqrt_a0, g_r3_sqrt_al, g_r3_sqrt_r0, g_r3_sqrt_rl;
static int secp256k1_fe_sqrt(secp256k1_fe * SECP256K1_RESTRICT r, const secp256k1_fe * SECP256K1_RESTRICT a)
__CPROVER_requires(__CPROVER_w_ok(r, sizeof(*r)) && __CPROVER_r_ok(a, sizeof(*a)))
__CPROVER_requires(r3_fe_ok(a) && a->magnitude <= 8 && r != a)
__CPROVER_assigns(*r, g_r3_sqrt_n, g_r3_sqrt_fail, g_r3_sqrt_a0, g_r3_sqrt_al, g_r3_sqrt_r0, g_r3_sqrt_rl)
__CPROVER_ensures(r3_fe_ok(r) && r->magnitude == 1 && r->normalized == 0 && g_r3_sqrt_n == __CPROVER_old(g_r3_sqrt_n) + 1)
__CPROVER_ensures(__CPROVER_return_value == 0 || __CPROVER_return_value == 1)
__CPROVER_ensures(g_r3_sqrt_fail == (__CPROVER_old(g_r3_sqrt_fail) || __CPROVER_return_value == 0))
__CPROVER_ensures(R3_FIRST_LAST(g_r3_sqrt_n, g_r3_sqrt_a0, g_r3_sqrt_al, *a) && R3_FIRST_LAST_NEW(g_r3_sqrt_n, g_r3_sqrt_r0, g_r3_sqrt_rl, *r))
;
/* ---- squareness verdict: any valid operand; g_r3_sq_fail: some verdict was 0; operand limbs of first / latest call ---- */
int g_r3_sq_n, g_r3_sq_fail; secp256k1_fe g_r3_sq_a0, g_r3_sq_al;
static int secp256k1_fe_is_square_var(const secp256k1_fe *a)
__CPROVER_requires(__CPROVER_r_ok(a, sizeof(*a)) && r3_fe_ok(a))
__CPROVER_assigns(g_r3_sq_n, g_r3_sq_fail, g_r3_sq_a0, g_r3_sq_al)
__CPROVER_ensures((__CPROVER_return_value == 0 || __CPROVER_return_value == 1) && g_r3_sq_n == __CPROVER_old(g_r3_sq_n) + 1)
__CPROVER_ensures(g_r3_sq_fail == (__CPROVER_old(g_r3_sq_fail) || __CPROVER_return_value == 0))
__CPROVER_ensures(R3_FIRST_LAST(g_r3_sq_n, g_r3_sq_a0, g_r3_sq_al, *a))
;
/* ---- curve-membership verdict for an x coordinate (real body squares x: magnitude <= 8): operand limbs and verdicts of
 *      the first / latest call ---- */
int g_r3_onc_n, g_r3_onc_v0, g_r3_onc_vl; secp256k1_fe g_r3_onc_a0, g_r3_onc_al;
static int secp256k1_ge_x_on_curve_var(const secp256k1_fe *x)
__CPROVER_requires(__CPROVER_r_ok(x, sizeof(*x)) && r3_fe_ok(x) && x->magnitude <= 8)
__CPROVER_assigns(g_r3_onc_n, g_r3_onc_v0, g_r3_onc_vl, g_r3_onc_a0, g_r3_onc_al)
__CPROVER_ensures((__CPROVER_return_value == 0 || __CPROVER_return_value == 1) && g_r3_onc_n == __CPROVER_old(g_r3_onc_n) + 1)
__CPROVER_ensures(R3_FIRST_LAST(g_r3_onc_n, g_r3_onc_a0, g_r3_onc_al, *x))
__CPROVER_ensures(g_r3_onc_vl == __CPROVER_return_value && g_r3_onc_v0 == (__CPROVER_old(g_r3_onc_n) == 0 ? __CPROVER_return_value : __CPROVER_old(g_r3_onc_v0)))
;

#ifdef R3_SEARCH_LOOP
/* ---- search-loop unit: the PRNG SHA256(hasher || cnt) as a frame oracle: writes exactly out32[0..31] (arbitrary bytes).
 *      Log: number of calls (mod 2^32, like the code's counter), whether every call's counter equalled the number of
 *      earlier calls ("consecutive values of cnt", doc comment of xelligatorswift_var), the object/offset the latest call
 *      wrote to and its 32 bytes. ---- */
uint32_t g_r3_prng_n; int g_r3_prng_cnt_ok; uint64_t g_r3_prng_dst; unsigned char g_r3_prng_out[32];
#define R3_O4(i) (g_r3_prng_out[i] == out32[i] && g_r3_prng_out[i+1] == out32[i+1] && g_r3_prng_out[i+2] == out32[i+2] && g_r3_prng_out[i+3] == out32[i+3])
static void secp256k1_ellswift_prng(const secp256k1_hash_ctx *hash_ctx, unsigned char* out32, const secp256k1_sha256 *hasher, uint32_t cnt)
__CPROVER_requires(hash_ctx != NULL && __CPROVER_w_ok(out32, 32) && __CPROVER_r_ok(hasher, sizeof(*hasher)))
__CPROVER_assigns(__CPROVER_object_upto(out32, 32), g_r3_prng_n, g_r3_prng_cnt_ok, g_r3_prng_dst, g_r3_prng_out)
__CPROVER_ensures(g_r3_prng_n == __CPROVER_old(g_r3_prng_n) + 1)
__CPROVER_ensures(g_r3_prng_cnt_ok == (__CPROVER_old(g_r3_prng_cnt_ok) && cnt == __CPROVER_old(g_r3_prng_n)))
__CPROVER_ensures(g_r3_prng_dst == (((uint64_t)__CPROVER_POINTER_OBJECT(out32) << 52) | (uint64_t)__CPROVER_POINTER_OFFSET(out32)))
__CPROVER_ensures(R3_O4(0) && R3_O4(4) && R3_O4(8) && R3_O4(12) && R3_O4(16) && R3_O4(20) && R3_O4(24) && R3_O4(28))
;
/* ---- the inverse map as an oracle (its body is under contract in C18.r3_inv_var with the field oracles above): x, u valid
 *      field elements, c in 0..7 (its VERIFY_CHECK); result 0/1, *t a valid field element when 1 (arbitrary otherwise).
 *      Log of the LATEST call: limbs of x and u, c, verdict, the t it wrote. ---- */
uint32_t g_r3_iv_n; int g_r3_iv_c, g_r3_iv_ret; secp256k1_fe g_r3_iv_x, g_r3_iv_u, g_r3_iv_t;
static int secp256k1_ellswift_xswiftec_inv_var(secp256k1_fe *t, const secp256k1_fe *x_in, const secp256k1_fe *u_in, int c)
__CPROVER_requires(__CPROVER_w_ok(t, sizeof(*t)) && __CPROVER_r_ok(x_in, sizeof(*x_in)) && __CPROVER_r_ok(u_in, sizeof(*u_in)))
__CPROVER_requires(r3_fe_ok(x_in) && r3_fe_ok(u_in) && c >= 0 && c < 8)
__CPROVER_assigns(*t, g_r3_iv_n, g_r3_iv_c, g_r3_iv_ret, g_r3_iv_x, g_r3_iv_u, g_r3_iv_t)
__CPROVER_ensures((__CPROVER_return_value == 0 || __CPROVER_return_value == 1) && g_r3_iv_n == __CPROVER_old(g_r3_iv_n) + 1)
__CPROVER_ensures(__CPROVER_return_value == 1 ==> (r3_fe_ok(t) && t->magnitude <= 1))
__CPROVER_ensures(g_r3_iv_c == c && g_r3_iv_ret == __CPROVER_return_value && R3_LIMBS_EQ(g_r3_iv_x, *x_in) && R3_LIMBS_EQ(g_r3_iv_u, *u_in))
__CPROVER_ensures(R3_LIMBS_EQ(g_r3_iv_t, *t))
;
#endif
#endif

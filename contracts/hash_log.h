/* Stream-level contracts for the SHA-256 object, with a ghost WRITE LOG.
 *
 * Abstract view of a hash computation: the byte stream written into an object; a write covers the
 * stream positions [old(hash->bytes), old(hash->bytes)+len) (hash->bytes is the object's own
 * counter, so copies of an object continue the same stream).  Epoch = number of finalize calls
 * executed before the write.  The harness fixes a WATCH (g_we, g_wpos) that the code never assigns;
 * the contracts record for the watched epoch: the byte written at position g_wpos, the object state
 * at the first write of the epoch (identifies the midstate/tag), and at finalize the total length
 * and the digest bytes handed out.  An assertion about (g_we, g_wpos) is therefore a statement
 * about every position of every hash computation the function under contract performs, for every
 * message length and independent of how the code splits its writes.
 *
 * These contracts are PROVED against the real secp256k1_sha256_write/_finalize in the C05 hash
 * units (with the compression function abstracted); here they replace the calls. */
#ifndef VERIF_HASH_LOG_H
#define VERIF_HASH_LOG_H
#include "pre.h"
int g_fin_n;                 /* finalize calls so far */
int g_h_fresh;               /* 1 until the first write of the current epoch */
int g_we; uint64_t g_wpos;   /* watch selectors: never assigned by code or contracts */
int g_w_hit; unsigned char g_w_byte;
int g_w_started; uint32_t g_w_s0, g_w_s7; uint64_t g_w_b0;
int g_w_fin; uint64_t g_w_end; unsigned char g_w_dig[32];

#define HASHLOG_RESET() do { g_fin_n = 0; g_h_fresh = 1; g_w_hit = 0; g_w_started = 0; g_w_fin = 0; } while (0)

static void secp256k1_sha256_write(const secp256k1_hash_ctx *hash_ctx, secp256k1_sha256 *hash, const unsigned char *data, size_t len)
__CPROVER_requires(__CPROVER_rw_ok(hash, sizeof(*hash)) && (len == 0 || __CPROVER_r_ok(data, len)) && hash_ctx != NULL)
__CPROVER_requires(hash->bytes + len >= len)
__CPROVER_assigns(*hash, g_h_fresh, g_w_hit, g_w_byte, g_w_started, g_w_s0, g_w_s7, g_w_b0)
__CPROVER_ensures(hash->bytes == __CPROVER_old(hash->bytes) + len)
__CPROVER_ensures(g_h_fresh == 0)
__CPROVER_ensures((__CPROVER_old(g_h_fresh) && g_fin_n == g_we)
    ? (g_w_started == 1 && g_w_s0 == __CPROVER_old(hash->s[0]) && g_w_s7 == __CPROVER_old(hash->s[7]) && g_w_b0 == __CPROVER_old(hash->bytes))
    : (g_w_started == __CPROVER_old(g_w_started) && g_w_s0 == __CPROVER_old(g_w_s0) && g_w_s7 == __CPROVER_old(g_w_s7) && g_w_b0 == __CPROVER_old(g_w_b0)))
__CPROVER_ensures((g_fin_n == g_we && __CPROVER_old(hash->bytes) <= g_wpos && g_wpos < __CPROVER_old(hash->bytes) + len)
    ? (g_w_hit == 1 && g_w_byte == data[g_wpos - __CPROVER_old(hash->bytes)])
    : (g_w_hit == __CPROVER_old(g_w_hit) && g_w_byte == __CPROVER_old(g_w_byte)))
;
#define DIG4(i) g_w_dig[i] == out32[i] && g_w_dig[i+1] == out32[i+1] && g_w_dig[i+2] == out32[i+2] && g_w_dig[i+3] == out32[i+3]
#define DIGK4(i) g_w_dig[i] == __CPROVER_old(g_w_dig[i]) && g_w_dig[i+1] == __CPROVER_old(g_w_dig[i+1]) && g_w_dig[i+2] == __CPROVER_old(g_w_dig[i+2]) && g_w_dig[i+3] == __CPROVER_old(g_w_dig[i+3])
static void secp256k1_sha256_finalize(const secp256k1_hash_ctx *hash_ctx, secp256k1_sha256 *hash, unsigned char *out32)
__CPROVER_requires(__CPROVER_rw_ok(hash, sizeof(*hash)) && __CPROVER_w_ok(out32, 32) && hash_ctx != NULL)
__CPROVER_assigns(*hash, __CPROVER_object_upto(out32, 32), g_fin_n, g_h_fresh, g_w_fin, g_w_end, g_w_dig)
__CPROVER_ensures(g_fin_n == __CPROVER_old(g_fin_n) + 1 && g_h_fresh == 1)
__CPROVER_ensures(__CPROVER_old(g_fin_n) == g_we
    ? (g_w_fin == 1 && g_w_end == __CPROVER_old(hash->bytes) && DIG4(0) && DIG4(4) && DIG4(8) && DIG4(12) && DIG4(16) && DIG4(20) && DIG4(24) && DIG4(28))
    : (g_w_fin == __CPROVER_old(g_w_fin) && g_w_end == __CPROVER_old(g_w_end) && DIGK4(0) && DIGK4(4) && DIGK4(8) && DIGK4(12) && DIGK4(16) && DIGK4(20) && DIGK4(24) && DIGK4(28)))
;
#endif
